import Lean
/-! `lake env lean --run Audit.lean WhVerif.Props.Cxx`
Prints one JSON line: every theorem declared in that module with the axioms it depends on, and the
number of further theorems of this library (modules `WhVerif.*`) those theorems depend on. -/
open Lean

instance : MonadEnv (StateM Environment) := { getEnv := get, modifyEnv := modify }

partial def collectDeps (env : Environment) (root : Name) (visited : IO.Ref NameSet) : IO Unit := do
  if (← visited.get).contains root then return
  visited.modify (·.insert root)
  match env.find? root with
  | none => return
  | some ci =>
    -- only follow constants of this library
    match env.getModuleIdxFor? root with
    | none => return
    | some idx =>
      let modName := env.header.moduleNames[idx.toNat]!
      if !(`WhVerif).isPrefixOf modName then return
      let used := (ci.type.getUsedConstants ++ (match ci.value? (allowOpaque := true) with | some v => v.getUsedConstants | none => #[]))
      for c in used do collectDeps env c visited

def main (args : List String) : IO UInt32 := do
  let modStr := args.head!
  let modName := modStr.splitOn "." |>.foldl (fun n s => Name.str n s) Name.anonymous
  initSearchPath (← findSysroot)
  let env ← importModules #[{module := modName}] {} (loadExts := false)
  let some idx := env.getModuleIdx? modName | do IO.eprintln "module not found"; return 1
  let mut thms : Array Json := #[]
  let visited ← IO.mkRef ({} : NameSet)
  let mut roots : Array Name := #[]
  for (n, ci) in env.constants.map₁.toList do
    if env.getModuleIdxFor? n == some idx then
      if let .thmInfo _ := ci then
        if !n.isInternal && modName.isPrefixOf n then
          let axs := ((collectAxioms n : StateM Environment (Array Name)).run' env)
          thms := thms.push (Json.mkObj [("name", Json.str n.toString), ("axioms", Json.arr (axs.map (fun a => Json.str a.toString)))])
          roots := roots.push n
  for r in roots do collectDeps env r visited
  -- count library theorems among the dependencies (excluding the roots themselves)
  let mut deps := 0
  for n in (← visited.get).toList do
    if !roots.contains n then
      if let some (.thmInfo _) := env.find? n then
        if let some i := env.getModuleIdxFor? n then
          if (`WhVerif).isPrefixOf env.header.moduleNames[i.toNat]! && !n.isInternal then deps := deps + 1
  let thmsSorted := thms.qsort (fun a b => a.compress < b.compress)
  IO.println (Json.mkObj [("module", Json.str modStr), ("theorems", Json.arr thmsSorted), ("deps", Json.num (JsonNumber.fromNat deps))]).compress
  return 0

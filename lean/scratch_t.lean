import WhVerif.Lemmas.C11Real
open WhVerif.C11
#check @List.Perm.sum_nat
#check @List.Perm.countP_eq
#check @List.getD_map
#check @List.zip_map'
#check @List.Perm.map
example : ∀ υ ∈ perms 3, υ.Perm (List.range 3) := by decide
#check @List.nodup_eraseDups
#check @List.eraseDups

import WhVerif.Driver.All
partial def loop (hin : IO.FS.Stream) (hout : IO.FS.Stream) : IO Unit := do
  let line ← hin.getLine
  if line.isEmpty then return ()
  let l := line.trimAscii.toString
  if l.isEmpty then
    loop hin hout
  else
    hout.putStrLn (WhVerif.Driver.dispatch l)
    hout.flush
    loop hin hout
def main : IO Unit := do loop (← IO.getStdin) (← IO.getStdout)

import Mathlib.Data.Nat.Choose.Basic
#check @List.range_add
#check @List.flatMap_append
#check @List.range_succ
#check @List.flatMap_singleton
#check @List.flatMap_cons
#check @List.map_map

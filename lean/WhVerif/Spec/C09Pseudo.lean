import WhVerif.Model.C09
import WhVerif.Model.C01
/-!
# C09 spec: the solver instance made of the pseudo reads of a phased VCF

A phased VCF used as the ONLY phase input: `phased_blocks_as_reads` (`blocksAsReads`, Model/C09.lean) turns every
phase set with at least two eligible (wanted, heterozygous, phased) variants into two complementary pseudo reads;
they are put into a `ReadSet`, `ReadSet.sort()` orders them by first position (ties — in particular the two reads
of one block — by a hash of the read name, i.e. in an order the model does not fix), read selection keeps them
("fits under the coverage cap": hypothesis) and the solver runs on the columns `readset.get_positions()`
(the sorted distinct positions of the selected reads) with a heterozygous genotype constraint in every column.

`pseudoInst rows w recomb tagged` is that solver instance for ANY order `tagged` of the pseudo reads; `truthHap` is
the phasing of the input file (allele on haplotype 0 per column), `srcOf` says which of the two complementary
reads a read is.  Core Lean only.
-/
namespace WhVerif.C09
open WhVerif.C04

/-- a pseudo read as `blocksAsReads` emits it: `(block id, haplotype index, [(position, allele)])` -/
abbrev PRead := Option Int × Nat × List (Nat × Option Nat)

/-- the eligible rows of one block, in file order -/
def blockRows (rows : List VarPhase) (b : Option Int) : List VarPhase :=
  (rows.filter (eligible 2)).filter (fun v => blockOfRow v == b)

/-- eligible rows that belong to a block with at least two eligible rows: the rows covered by pseudo reads -/
def coveredRows (rows : List VarPhase) : List VarPhase :=
  (rows.filter (eligible 2)).filter fun v => decide ((blockRows rows (blockOfRow v)).length > 1)

/-- the solver's columns: `readset.get_positions()` when all pseudo reads are selected (sorted and distinct
    when the rows are; `mem_pseudoCols`: exactly the positions that occur in some pseudo read) -/
def pseudoCols (rows : List VarPhase) : List Nat := (coveredRows rows).map (·.pos)

/-- column index of a position -/
def colOf (cols : List Nat) (p : Nat) : Nat := cols.findIdx (· == p)

/-- `Read.firstPosition()` / last position of a (position-sorted) pseudo read -/
def firstPos (t : PRead) : Nat := ((t.2.2.map (·.1)).head?).getD 0
def lastPos (t : PRead) : Nat := ((t.2.2.map (·.1)).getLast?).getD 0

/-- the pseudo read as the solver sees it: individual 0, column indices, weight `w position` (the phase
    quality, `default_quality = 20` if the file has none) -/
def toRead (cols : List Nat) (w : Nat → Nat) (t : PRead) : WhVerif.C01.Read :=
  { ind := 0
    first := colOf cols (firstPos t)
    last := colOf cols (lastPos t)
    entries := t.2.2.map fun pa => (colOf cols pa.1, pa.2.getD 0, w pa.1) }

/-- single-individual solver instance whose reads are exactly the pseudo reads `tagged` (in that order), with a
    trusted heterozygous genotype in every column -/
def pseudoInst (rows : List VarPhase) (w : Nat → Nat) (recomb : List Nat) (tagged : List PRead) : WhVerif.C01.Inst :=
  { ncols := (pseudoCols rows).length
    reads := tagged.map (toRead (pseudoCols rows) w)
    nind := 1
    trios := []
    geno := [List.replicate (pseudoCols rows).length [none, some 0, none]]
    recomb := recomb }

/-- allele number `i` of the phase of a row (`phase.phase[i]`) -/
def alleleAt (i : Nat) (v : VarPhase) : Option Nat := (v.phase.bind fun ph => ph.alleles[i]?).join

/-- the input phasing: allele on haplotype 0 of the row in column `c` -/
def truthHap (rows : List VarPhase) (c : Nat) : Nat := (((coveredRows rows)[c]?).bind (alleleAt 0)).getD 0

/-- which of the two complementary reads of its block read number `r` is (`true`: haplotype index 1) -/
def srcOf (tagged : List PRead) (r : Nat) : Bool := ((tagged[r]?).map (fun t => t.2.1 == 1)).getD false

end WhVerif.C09

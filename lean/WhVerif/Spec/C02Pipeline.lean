import WhVerif.Spec.C02
import WhVerif.Model.C03
import WhVerif.Model.C09
/-!
# C02 pipeline: the composed stage function solver → components → writer → reader (single sample)

Composition of the already built models, for one sample and one chromosome:

* `superReads`   the solver's super reads: `getAlleles` per column under the backtraced witness `(β, τ)` of
                 `WhVerif.C01.witness I`, each column `c` placed at genomic position `pos[c]`
                 (`none` = the solver raised);
* `components`   `find_components(accessible_positions, all_reads, None, None)` of the C03 model applied to the
                 instance's reads, every entry's column translated to its genomic position;
* `target`/`cfg` the writer's input (C04): the two super reads as `(position, allele)` lists, the component map,
                 tag PS or HP, the repaired writer, `--only-snvs` and multi-allelic mode off;
* `pipeline`     records written by `writeChrom`, decoded by the C09 reader `readChrom`.

The translation functions between the models' data types are `posAt` (column ↦ position), `toC03Read`
(C01 read ↦ C03 read) and `target` (super-read triples + component map ↦ C04 `Target`).  Core Lean only.
-/
namespace WhVerif.C02P
open WhVerif.C01 WhVerif.C04

/-- genomic (0-based) position of column `c` -/
def posAt (pos : List Nat) (c : Nat) : Nat := pos.getD c 0

/-- all-or-nothing: `none` as soon as one element is `none` -/
def optAll {α} : List (Option α) → Option (List α)
  | [] => some []
  | none :: _ => none
  | some a :: r => (optAll r).map (a :: ·)

/-- one column of the pair of super reads of individual 0: `(position, allele on super read 0, on super read 1)` -/
def superColumn (I : Inst) (pos : List Nat) (β : List Bool) (τ : List Nat) (c : Nat) : Option (Nat × Nat × Nat) :=
  match getAlleles I c (restrict β (I.activeAt c)) (τ.getD c 0) with
  | some (a :: _) => some (posAt pos c, a.1, a.2)
  | _ => none

/-- `get_super_reads()` for the backtraced optimal bipartition; `none` = exception in the solver -/
def superReads (I : Inst) (pos : List Nat) : Option (List (Nat × Nat × Nat)) :=
  match witness I with
  | none => none
  | some (β, τ) => optAll ((List.range I.ncols).map (superColumn I pos β τ))

/-- a solver read as `find_components` sees it: its variant positions (sample id = individual index) -/
def toC03Read (pos : List Nat) (rd : C01.Read) : C03.Read := ⟨rd.ind, rd.entries.map (fun e => posAt pos e.1)⟩

def c03Reads (I : Inst) (pos : List Nat) : List C03.Read := I.reads.map (toC03Read pos)

/-- `find_components(accessible_positions, all_reads, master_block=None, heterozygous_positions=None)` -/
def components (I : Inst) (pos : List Nat) : Except C03.Err (List (Nat × Nat)) :=
  C03.findComponents pos (c03Reads I pos) none none

/-- the writer's per-sample input -/
def target (sample : String) (sr : List (Nat × Nat × Nat)) (comps : List (Nat × Nat)) : Target :=
  ⟨sample, sr.map (fun v => (v.1, (v.2.1 : Int))), sr.map (fun v => (v.1, (v.2.2 : Int))), comps⟩

structure Stage where
  /-- the solver instance -/
  I : Inst
  /-- column ↦ genomic position (strictly increasing: `pos.Pairwise (· < ·)`, one per column) -/
  pos : List Nat
  sample : String
  tag : Tag
  /-- the input VCF records of the chromosome -/
  records : List Record

/-- single sample, repaired writer (fixes/F4.patch), no `--only-snvs`, no multi-allelic mode -/
def cfg (S : Stage) (t : Target) : Cfg := ⟨S.tag, false, false, true, [S.sample], [t]⟩

/-- the writer's input computed by solver + component stage -/
def stageTarget (S : Stage) : Option Target :=
  match superReads S.I S.pos, components S.I S.pos with
  | some sr, .ok comps => some (target S.sample sr comps)
  | _, _ => none

/-- the records `whatshap phase` writes for the chromosome -/
def writtenRecords (S : Stage) : Option (List Record) :=
  (stageTarget S).map fun t => outRecords (writeChrom (cfg S t) none S.records)

/-- the phase information the reader (`VcfReader`, phases=True) finds in the written records: one `Row` per
biallelic record; `none` = some stage raised -/
def pipeline (S : Stage) : Option (List C09.Row) :=
  match writtenRecords S with
  | none => none
  | some out =>
    match C09.readChrom false none none out with
    | .ok (_, rows) => some rows
    | .error _ => none

/-- `(position, decoded phase of the only sample)` of a row -/
def rowPhase (row : C09.Row) : Nat × Option C09.Phase := (row.pos, (row.calls.head?).bind (·.2))

/-- some read of the instance has an entry in column `c` -/
def Covered (I : Inst) (c : Nat) : Prop := ∃ r, WhVerif.C02.covers I r c

end WhVerif.C02P

/-!
# C09 spec: which phase sets of a phased VCF "fit under the coverage cap"

A phased VCF as the only phase input: every phase set with at least two shared heterozygous variants becomes two
complementary pseudo reads that reach from its first to its last member (`Span`).  Read selection (`readselect.pyx`,
`_slice_read_selection`) pops the reads in an order the model does not fix and turns a read away iff some position of its
range already has `cap` selected reads over it (`coverages.max_coverage_in_range(begin, end) >= max_cov`); a read that
covers no new variant (the second read of a set whose first read is selected) is not added in the same pass.
`cap` is `max(1, max_coverage // len(family))` per sample: the documented `--internal-downsampling` value (default 15) for
every unrelated sample, whatever the number of samples in the file.

`fits cap ps spans i`: at most `cap` sets (set `i` included) span any one position of the span of set `i`; `pass` is one pass of
the selection for ANY pop order.  Props.C09.fitting_set_selected: a fitting set has a read selected.  Core Lean only.
-/
namespace WhVerif.C09.Cap

structure Span where
  lo : Nat
  hi : Nat
deriving Repr, DecidableEq

def Span.covers (s : Span) (p : Nat) : Bool := decide (s.lo ≤ p) && decide (p ≤ s.hi)

/-- does set `j` span position `p` -/
def over (spans : List Span) (p : Nat) (j : Nat) : Bool :=
  match spans[j]? with
  | some s => s.covers p
  | none => false

/-- number of sets among `idxs` that span `p` (`CovMonitor`: one selected read per set) -/
def covIdx (spans : List Span) (idxs : List Nat) (p : Nat) : Nat := (idxs.filter (over spans p)).length

/-- number of all sets that span `p` -/
def depthAt (spans : List Span) (p : Nat) : Nat := covIdx spans (List.range spans.length) p

/-- the largest `depthAt` over the positions `ps` (the variant positions of the read set) within the span of set `i` -/
def depth (ps : List Nat) (spans : List Span) (i : Nat) : Nat :=
  ((ps.filter (over spans · i)).map (depthAt spans)).foldl max 0

/-- set `i` fits under the cap -/
def fits (cap : Nat) (ps : List Nat) (spans : List Span) (i : Nat) : Bool :=
  ps.all fun p => !over spans p i || decide (depthAt spans p ≤ cap)

/-- the admission test: not turned away for coverage -/
def admitted (cap : Nat) (ps : List Nat) (spans : List Span) (sel : List Nat) (i : Nat) : Bool :=
  ps.all fun p => !over spans p i || decide (covIdx spans sel p < cap)

/-- one pop of the queue: a read of set `i` (either of the two) -/
def step (cap : Nat) (ps : List Nat) (spans : List Span) (sel : List Nat) (i : Nat) : List Nat :=
  if i ∈ sel then sel                                   -- covers no new variant
  else if i < spans.length && admitted cap ps spans sel i then i :: sel
  else sel                                              -- violates the coverage constraint

/-- one pass over the queue in pop order `order`; the sets that have a read selected -/
def pass (cap : Nat) (ps : List Nat) (spans : List Span) (order : List Nat) : List Nat :=
  order.foldl (step cap ps spans) []

end WhVerif.C09.Cap

import WhVerif.Spec.C02
import WhVerif.Model.C01Input
/-!
# C02 glue: from the reads the pipeline holds (genomic positions) to the solver's precondition

Seams A (allele detection) → B (read selection) → C (solver) of the C02 chain.  The pipeline keeps reads as lists of
`(position, allele, quality)`; allele detection produces the candidate reads, read selection keeps some of them
unchanged, and `PedigreeDPTable` / `ColumnIterator` turn the kept reads and `accessible_positions` into the column
instance (`C01.mkInst`).  `RawErrFree` is stage A's contract stated on the raw reads — a property of each read by
itself, hence inherited by every selection (`rawErrFree_select`) — and `errfree_of_raw` (Lemmas/C02Raw.lean) shows
that `mkInst` turns it into `ErrFree`, the hypothesis of the solver theorems.  `rawErrFreeB` is the executable form
the check evaluates on the traced solver input of every run (driver op `c02.errfree`).  Core Lean only.
-/
namespace WhVerif.C02
open WhVerif.C01

/-- read `r`, drawn from true haplotype `s` (`true` = haplotype 1), is an error-free copy of it: individual 0, positive
    weights, at every variant the allele of that haplotype (`hapAt p` on haplotype 0, `1 - hapAt p` on haplotype 1) -/
def RawReadOk (hapAt : Nat → Nat) (s : Bool) (r : RawRead) : Prop :=
  r.ind = 0 ∧ ∀ v ∈ r.variants, 0 < v.2.2 ∧ v.2.1 = (if s then 1 - hapAt v.1 else hapAt v.1)

/-- stage A's contract on a list of raw reads; `src k` = true haplotype of read number `k` -/
def RawErrFree (raws : List RawRead) (hapAt : Nat → Nat) (src : Nat → Bool) : Prop :=
  ∀ k, k < raws.length → RawReadOk hapAt (src k) (raws.getD k default)

def rawReadOkB (hapAt : Nat → Nat) (s : Bool) (r : RawRead) : Bool :=
  r.ind == 0 && r.variants.all fun v => decide (0 < v.2.2) && (v.2.1 == (if s then 1 - hapAt v.1 else hapAt v.1))

def rawErrFreeB (raws : List RawRead) (hapAt : Nat → Nat) (src : Nat → Bool) : Bool :=
  (List.range raws.length).all fun k => rawReadOkB hapAt (src k) (raws.getD k default)

/-- read selection: the kept reads are candidates number `sel[0], sel[1], …` (any indices, any order), unchanged -/
def selectReads (cands : List RawRead) (sel : List Nat) : List RawRead := sel.map fun i => cands.getD i default

/-- the trusted all-heterozygous genotype table of a single sample over `n` columns -/
def hetGeno (n : Nat) : List (List (List (Option Nat))) := [List.replicate n [none, some 0, none]]

/-- truth given as an association list `position ↦ allele on haplotype 0` -/
def hapAtOf (truth : List (Nat × Nat)) (p : Nat) : Nat := ((truth.find? (fun x => x.1 == p)).map (·.2)).getD 0

/-- everything the check asks about one traced solver input: the conversion succeeds, the genotype table is the
    trusted heterozygous one, the truth is biallelic at the columns, the reads are error-free copies -/
def rawPreconditionB (positions : List Nat) (raws : List RawRead) (nind : Nat) (trios : List (Nat × Nat × Nat))
    (geno : List (List (List (Option Nat)))) (recomb : List Nat) (hapAt : Nat → Nat) (src : Nat → Bool) : Bool :=
  (mkInst positions raws nind trios geno recomb).isSome && nind == 1 && trios.isEmpty &&
    (geno == hetGeno positions.length) && positions.all (fun p => decide (hapAt p ≤ 1)) && rawErrFreeB raws hapAt src

end WhVerif.C02

import WhVerif.Model.C13
import WhVerif.Spec.C13
/-! Executable form of the "phase-only edit" relation of `Spec/C13.lean` (core Lean only), so that the check can confirm
that the edits it applies to real files are within the hypothesis of `unphase_phase_eq_unphase`. -/
namespace WhVerif.C13

def editGTB (g g' : GT) : Bool :=
  g'.alleles == g.alleles || (allPresent g.alleles && g'.alleles.isPerm g.alleles)

def editCallB (c c' : Call) : Bool :=
  stripTags c'.fields == stripTags c.fields &&
  match c.gt, c'.gt with
  | none, none => true
  | some g, some g' => editGTB g g'
  | _, _ => false

def editCallsB : List Call → List Call → Bool
  | [], [] => true
  | c :: cs, c' :: cs' => editCallB c c' && editCallsB cs cs'
  | _, _ => false

def editB : List Record → List Record → Bool
  | [], [] => true
  | r :: v, r' :: v' => r'.fixed == r.fixed && editCallsB r.calls r'.calls && editB v v'
  | _, _ => false

/-! ### histories: any sequence of phase (a phase-only edit) and unphase applications -/

inductive HistStep (v v' : List Record) : Prop
  | edit : PhaseOnlyEdit v v' → HistStep v v'
  | unphased : v' = unphase v → HistStep v v'

inductive History : List Record → List Record → Prop
  | refl (v : List Record) : History v v
  | step {v v' v'' : List Record} : HistStep v v' → History v' v'' → History v v''

end WhVerif.C13

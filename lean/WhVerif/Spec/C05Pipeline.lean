import WhVerif.Spec.C05Solver
import WhVerif.Spec.C02Pipeline
/-!
# C05 pipeline: the composed stage function of a PEDIGREE run, solver → components → writer → reader

Composition of the already built models for one family and one chromosome (multi-sample records):

* `solverColumns` (Spec/C05Solver.lean): `get_super_reads` of the C01 solver model, per column and individual
  `(allele0, allele1)` under the back-traced witness `(β, τ)`;
* `components`: `find_components(accessible_positions, all_reads, master_block, heterozygous_positions)` of the C03
  model on the instance's reads (columns translated to genomic positions); the SAME component map is given to every
  family member (`components[sample] = overall_components` in `phase.py`);
* `stageTargets`/`cfg`: the writer's input (C04): one `Target` per individual (its two super reads as `(position, allele)`
  lists and the overall component map), header sample order `header`, tag PS or HP, the repaired writer;
* `pipeline`: records written by `writeChrom`, decoded by the C09 reader `readChrom`.

Also: what "trusted genotype" means on the solver's constraint table (`trustedGeno`), and the alleles of a genotype
(`genoAlleles`).  Core Lean only.
-/
namespace WhVerif.C05P
open WhVerif.C01 WhVerif.C04 WhVerif.C05.Solver
open WhVerif.C02P (posAt c03Reads target)

/-! ### trusted genotypes on the solver instance -/

/-- the genotype (number of ALT alleles) of `ind` in column `c` when the constraint table admits exactly one
(`none` = incompatible in `geno`): trusted genotypes; `none` otherwise (likelihood mode, or nothing admitted) -/
def trustedGeno (I : Inst) (ind c : Nat) : Option Nat :=
  match [0, 1, 2].filter (fun k => (gcost I ind c k).isSome) with
  | [g] => some g
  | _ => none

/-- every genotype constraint of the instance is a trusted genotype -/
def Trusted (I : Inst) : Prop := ∀ ind, ind < I.nind → ∀ c, c < I.ncols → (trustedGeno I ind c).isSome = true

/-- the two alleles of the biallelic diploid genotype with `g` ALT alleles (sorted, as `genotype_code`) -/
def genoAlleles (g : Nat) : List Nat := if g = 0 then [0, 0] else if g = 1 then [0, 1] else [1, 1]

/-- index of the parental haplotype a transmission bit selects (`[!bit]`: bit value 1 = the parent's haplotype 0) -/
def selHap (t bitIdx : Nat) : Nat := if bitOf t bitIdx = 1 then 0 else 1

/-! ### the stage function -/

structure Stage where
  /-- the solver instance of the family -/
  I : Inst
  /-- column ↦ genomic position -/
  pos : List Nat
  /-- sample name of individual `i` (solver's individual order) -/
  names : List String
  /-- header sample order of the VCF (family members and possibly other samples) -/
  header : List String
  tag : Tag
  /-- the input VCF records of the chromosome -/
  records : List Record
  /-- `find_components` arguments: accessible positions, master block, heterozygous positions -/
  acc : List Nat
  master : Option (List Nat)
  het : Option C03.HetMap

def components (S : Stage) : Except C03.Err (List (Nat × Nat)) :=
  C03.findComponents S.acc (c03Reads S.I S.pos) S.master S.het

/-- the writer's input for individual `ind` -/
def famTarget (S : Stage) (cols : List (List (Nat × Nat))) (comps : List (Nat × Nat)) (ind : Nat) : Target :=
  target (S.names.getD ind "") ((S.pos.zip cols).map (fun pc => (pc.1, pc.2.getD ind (0, 0)))) comps

/-- `sample_superreads` / `sample_components` of the family; `none` = solver or component stage raised -/
def stageTargets (S : Stage) : Option (List Target) :=
  match solverColumns S.I, components S with
  | some cols, .ok comps => some ((List.range S.I.nind).map (famTarget S cols comps))
  | _, _ => none

/-- repaired writer (fixes/F4.patch), no `--only-snvs`, no multi-allelic mode -/
def cfg (S : Stage) (ts : List Target) : Cfg := ⟨S.tag, false, false, true, S.header, ts⟩

def writtenRecords (S : Stage) : Option (List Record) :=
  (stageTargets S).map fun ts => outRecords (writeChrom (cfg S ts) none S.records)

/-- the phase information the reader finds in the written records; `none` = some stage raised -/
def pipeline (S : Stage) : Option (List C09.Row) :=
  match writtenRecords S with
  | none => none
  | some out =>
    match C09.readChrom false none none out with
    | .ok (_, rows) => some rows
    | .error _ => none

/-- decoded phase of the `j`-th sample (header order) of a row -/
def samplePhase (row : C09.Row) (j : Nat) : Option C09.Phase := (row.calls[j]?).bind (·.2)

/-- `(position, decoded phase per sample)` of a row -/
def rowPhases (row : C09.Row) : Nat × List (Option C09.Phase) := (row.pos, row.calls.map (·.2))

end WhVerif.C05P

import WhVerif.Model.C08
/-!
# C08 spec: the posterior of the genotyping HMM by plain enumeration.

Hidden state of the documented HMM: a *global* bipartition `β` of all reads (bit `r` of `β` = side of read `r`),
and per column a transmission value `t` and an allele assignment `a`.  A global state is `(β, σ)` with
`σ : List (t, a)` of length `nCols`.  Its weight is the product over the columns of

    transition(c, t_{c-1}, t_c)   (absent for column 0)
  · emission(c, sides of the reads active in c, t_c, a_c)
  · assignment prior(c, t_c, a_c).

`specNumer c sel` sums the weights of all global states whose column-`c` entry is selected by `sel`;
`posterior` divides by the sum over all global states.  Nothing is shared with the forward–backward model
except the per-column weights themselves (`Weights`) and the list of active reads.
-/
namespace WhVerif.C08
variable {K : Type}

/-- all lists of length `n` over `ls` -/
def paths {σ : Type} (ls : List σ) : Nat → List (List σ)
  | 0 => [[]]
  | n + 1 => ls.flatMap (fun s => (paths ls n).map (fun p => s :: p))

/-- all (transmission, assignment) pairs -/
def Weights.states (W : Weights K) : List (Nat × Nat) :=
  (List.range W.nT).flatMap (fun t => (List.range W.nA).map (fun a => (t, a)))

section
variable [Zero K] [One K] [Add K] [Mul K] [Div K]

/-- weight contributed by column `c` in local state `s` when the previous column was in `prev` -/
def stepW (F : Frame) (W : Weights K) (β c : Nat) (prev : Option (Nat × Nat)) (s : Nat × Nat) : K :=
  (match prev with | none => 1 | some q => W.trans c q.1 s.1)
    * W.emit c ((F.active c).map β.testBit) s.1 s.2 * W.asg c s.1 s.2

/-- weight of the columns `c, c+1, …` along `σ` -/
def pathW (F : Frame) (W : Weights K) (β : Nat) : Nat → Option (Nat × Nat) → List (Nat × Nat) → K
  | _, _, [] => 1
  | c, prev, s :: rest => stepW F W β c prev s * pathW F W β (c + 1) (some s) rest

def selAt (sel : Nat → Nat → Bool) (σ : List (Nat × Nat)) (c : Nat) : Bool :=
  match σ[c]? with
  | some s => sel s.1 s.2
  | none => false

def specNumer (F : Frame) (W : Weights K) (c : Nat) (sel : Nat → Nat → Bool) : K :=
  let ps := paths W.states F.nCols
  sumN (2 ^ F.nReads) (fun β => sumL ps (fun σ => if selAt sel σ c then pathW F W β 0 none σ else 0))

def posteriorSel (F : Frame) (W : Weights K) (c : Nat) (sel : Nat → Nat → Bool) : K :=
  specNumer F W c sel / specNumer F W c (fun _ _ => true)

end

/-- posterior probability that individual `i` has `g` ALT alleles at column `c` -/
def posterior [Zero K] [One K] [Add K] [Mul K] [Div K] [Sub K] [NatCast K]
    (inst : Inst) (p : Params K) (c i g : Nat) : K :=
  posteriorSel inst.frame (inst.weights p) c (fun t a => genoOf inst.parts i t a == g)

end WhVerif.C08

import WhVerif.Model.C06
/-!
# C06 spec for the no-reference detector on SNVs (core Lean only)

`snvExpected`: what the property demands of `_detect_alleles` when every variant is an SNV: walking the alignment,
every SNV whose position lies in an M/=/X operation is called by the query base aligned to it (REF base → 0, ALT
base → 1, any other base → no call) with that base's quality (30 without qualities); SNVs in a deletion, in a
reference skip, or outside the alignment get no call; clips and insertions only move the query cursor.
-/
namespace WhVerif.C06

def isSnv (v : Variant) : Prop := ∃ r a, v.ref = [r] ∧ v.alts = [[a]] ∧ r ≠ a

def qualAt (quals : Option (List Nat)) (i : Nat) : Nat :=
  match quals with
  | none => 30
  | some l => l.getD i 0

/-- the call for one SNV from the query base aligned to it -/
def snvCall (query : Seq) (quals : Option (List Nat)) (id : Nat) (v : Variant) (q : Nat) : Option (Nat × Nat × Nat) :=
  match query[q]? with
  | none => none
  | some b =>
    if v.ref = [b] then some (id, 0, qualAt quals q)
    else if v.alts = [[b]] then some (id, 1, qualAt quals q)
    else none

def snvExpected (query : Seq) (quals : Option (List Nat)) : Nat → Nat → List VP → Cigar → List (Nat × Nat × Nat)
  | _, _, _, [] => []
  | rp, qp, vps, (op, len) :: rest =>
    let vps := vps.dropWhile (fun p => p.2.pos < rp)
    if isMatch op then
      (vps.takeWhile (fun p => p.2.pos < rp + len)).filterMap (fun p => snvCall query quals p.1 p.2 (qp + (p.2.pos - rp)))
        ++ snvExpected query quals (rp + len) (qp + len) (vps.dropWhile (fun p => p.2.pos < rp + len)) rest
    else if op == 1 || op == 4 then snvExpected query quals rp (qp + len) vps rest
    else if op == 2 || op == 3 then snvExpected query quals (rp + len) qp (vps.dropWhile (fun p => p.2.pos < rp + len)) rest
    else snvExpected query quals rp qp vps rest

end WhVerif.C06

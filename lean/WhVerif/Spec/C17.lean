import WhVerif.Model.C17
/-! C17 — vocabulary of the statements: reads "tagged from the phased VCF V", total vote quality of a position -/
namespace WhVerif.C17
open WhVerif.C10 (RV)

/-- the read takes part in the vote: HP ∈ {1,2} and a PS tag ≥ 1 -/
def voting (r : TRead) : Bool := decide (1 ≤ r.hp) && decide (r.hp ≤ 2) && decide (1 ≤ r.ps)

/-- error-free reads tagged from `V`: every voting read that covers `pos` carries the phase set `P` of `pos`
in `V` and shows the allele `V` gives to the read's haplotype (`a0` on haplotype 1, `a1` on haplotype 2) -/
def Consistent (pos : Nat) (P : Int) (a0 a1 : Nat) (reads : List TRead) : Prop :=
  ∀ r ∈ reads, voting r = true → ∀ v ∈ r.variants, v.pos = pos →
    r.ps = P ∧ v.allele = (if r.hp = 1 then a0 else a1)

def qualOf (pos : Nat) (vs : List RV) : Nat := ((vs.filter (·.pos == pos)).map (·.qual)).sum

/-- summed quality of all votes cast at `pos` -/
def qualAt (pos : Nat) (reads : List TRead) : Nat := ((reads.filter voting).map fun r => qualOf pos r.variants).sum

end WhVerif.C17

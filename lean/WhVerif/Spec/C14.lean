import WhVerif.Model.C14
import WhVerif.Model.C14Text
/-! Specification-level vocabulary of C14 (core Lean only): the option table of the property text. -/
namespace WhVerif.C14

def isRequested (o : Opts) (k : Nat) : Bool := o.requested.getD k false

/-- the list does not know the read and unknown reads are to be discarded -/
def droppedAsUnknown (o : Opts) (t : Table) (r : Read) : Bool := o.discardUnknown && !t.known.contains r.name

/-- **the option table**: the requested outputs a read must be written to.
unknown + `--discard-unknown-reads` → nowhere; tagged `H`h → output h; untagged / unlisted → the untagged output,
with `--add-untagged` every output; always restricted to the outputs that were requested. -/
def prescribed (o : Opts) (t : Table) (r : Read) : List Nat :=
  if droppedAsUnknown o t r then []
  else
    let h := t.hapOf r.name
    let target := if h == 0 then (if o.addUntagged then List.range (o.ploidy + 1) else [0]) else [h]
    target.filter (isRequested o)

/-- every output H1..Hploidy and the untagged output requested -/
def allRequested (o : Opts) : Prop := ∀ k, k ≤ o.ploidy → isRequested o k = true

/-- every haplotype number of the table is one of 1..ploidy -/
def Table.WF (o : Opts) (t : Table) : Prop := ∀ p ∈ t.assign, 1 ≤ p.2 ∧ p.2 ≤ o.ploidy


/-! ### specification of the list (independent of the table the code builds) -/

/-- number of tagged lines of block `(chromosome, phase set)` -/
def blockSize (tagged : List Line) (b : String × String) : Nat :=
  tagged.countP (fun l => l.chrom == b.1 && l.ps == b.2)

/-- `b` is a largest block of its chromosome: it has a tagged line and no phase set of the same chromosome has more -/
def IsLargest (tagged : List Line) (b : String × String) : Prop :=
  0 < blockSize tagged b ∧ ∀ ps, blockSize tagged (b.1, ps) ≤ blockSize tagged b

/-- **the entry the list assigns to a read name** (for lists that name a read at most once): `none` = not listed,
`some 0` = listed as `none` (or, with `--only-largest-block`, tagged outside the largest block of its chromosome),
`some h` = tagged `H`h -/
def entryOf (o : Opts) (lines : List Line) (name : String) : Option Nat :=
  match lines.find? (fun l => l.name == name) with
  | none => none
  | some l =>
    if l.hap != 0 && (!o.onlyLargest || (selectedBlocks (taggedOf lines)).contains (l.chrom, l.ps)) then some l.hap
    else some 0

/-- **the option table on the list itself**: where the property text sends a read -/
def prescribedByList (o : Opts) (lines : List Line) (r : Read) : List Nat :=
  let untaggedTarget := if o.addUntagged then List.range (o.ploidy + 1) else [0]
  let target := match entryOf o lines r.name with
    | none => if o.discardUnknown then [] else untaggedTarget
    | some h => if h == 0 then untaggedTarget else [h]
  target.filter (isRequested o)

/-! ### well-formed list text (the round trip file → rows) -/

def renderLine (cols : List (List Char)) : List Char := List.intercalate ['\t'] cols
/-- every row on its own line, `\n`-terminated -/
def renderText (rows : List (List (List Char))) : List Char := rows.flatMap (fun r => renderLine r ++ ['\n'])

/-- a row whose rendering `strip` and `split("\t")` read back unchanged: at least one field, no tab / newline inside a
field, the line is not empty and neither starts nor ends with white space (so: first and last field non-empty) -/
structure RowOK (r : List (List Char)) : Prop where
  ne : r ≠ []
  nosep : ∀ f ∈ r, ∀ c ∈ f, c ≠ '\t' ∧ c ≠ '\n' ∧ c ≠ '\r'
  head : ∀ c, (renderLine r).head? = some c → isSpace c = false
  last : ∀ c, (renderLine r).getLast? = some c → isSpace c = false
  nonempty : renderLine r ≠ []

def strRow (r : List (List Char)) : List String := r.map String.ofList

/-! fixtures of the witness examples in `Props/C14.lean` -/
/-- diploid, all three outputs requested -/
def o2 (add discard : Bool) : Opts := ⟨2, [true, true, true], add, discard, false⟩
/-- the table of the list `a→H1, b→H2` (with `--discard-unknown-reads`: both names known) -/
def tab (discard : Bool) : Table := ⟨[("a", 1), ("b", 2)], if discard then ["a", "b"] else []⟩

end WhVerif.C14

import WhVerif.Model.C14
/-! Specification-level vocabulary of C14 (core Lean only): the option table of the property text. -/
namespace WhVerif.C14

def isRequested (o : Opts) (k : Nat) : Bool := o.requested.getD k false

/-- the list does not know the read and unknown reads are to be discarded -/
def droppedAsUnknown (o : Opts) (t : Table) (r : Read) : Bool := o.discardUnknown && !t.known.contains r.name

/-- **the option table**: the requested outputs a read must be written to.
unknown + `--discard-unknown-reads` → nowhere; tagged `H`h → output h; untagged / unlisted → the untagged output,
with `--add-untagged` every output; always restricted to the outputs that were requested. -/
def prescribed (o : Opts) (t : Table) (r : Read) : List Nat :=
  if droppedAsUnknown o t r then []
  else
    let h := t.hapOf r.name
    let target := if h == 0 then (if o.addUntagged then List.range (o.ploidy + 1) else [0]) else [h]
    target.filter (isRequested o)

/-- every output H1..Hploidy and the untagged output requested -/
def allRequested (o : Opts) : Prop := ∀ k, k ≤ o.ploidy → isRequested o k = true

/-- every haplotype number of the table is one of 1..ploidy -/
def Table.WF (o : Opts) (t : Table) : Prop := ∀ p ∈ t.assign, 1 ≤ p.2 ∧ p.2 ≤ o.ploidy

/-! fixtures of the witness examples in `Props/C14.lean` -/
/-- diploid, all three outputs requested -/
def o2 (add discard : Bool) : Opts := ⟨2, [true, true, true], add, discard, false⟩
/-- the table of the list `a→H1, b→H2` (with `--discard-unknown-reads`: both names known) -/
def tab (discard : Bool) : Table := ⟨[("a", 1), ("b", 2)], if discard then ["a", "b"] else []⟩

end WhVerif.C14

/-!
# C06 specs (core Lean only): Levenshtein distance and the alignment's coordinate map.

* `lev`  – the textbook recursive definition of the unit-cost edit distance.  `whatshap.align.edit_distance`
  equals it (that is property C19's claim); C06 uses `lev` as the model of the call.
* `levFast` – a row-by-row dynamic programme, executable on the 20–40 base windows the driver sees;
  `Lemmas/C06Lev.lean` proves `levFast = lev`.
* `expand` – a CIGAR written out column by column; `refLen`/`qLen` – reference / query bases consumed.
* `locate` – the *per-position* coordinate map of an alignment: where (operation index, offset inside
  the operation, query offset) reference position `p` lies.  `iterateCigar_spec` says that the lock-step
  walk of `_iterate_cigar` yields exactly `locate p` for every variant position.
-/
namespace WhVerif.C06

/-! ## Levenshtein -/

/-- textbook recursion: delete, insert, substitute/match -/
def lev {α} [BEq α] : List α → List α → Nat
  | [], t => t.length
  | s, [] => s.length
  | a :: s, b :: t =>
    min (min (lev s (b :: t) + 1) (lev (a :: s) t + 1)) (lev s t + (if a == b then 0 else 1))

/-- one row of the DP over the *suffixes* of `t`: given `prev = [lev s t_j | t_j suffix of t]`
returns `[lev (a :: s) t_j | t_j suffix of t]` -/
def levRow {α} [BEq α] (a : α) : List α → List Nat → List Nat
  | [], prev => [prev.headD 0 + 1]
  | b :: t, prev =>
    let cur := levRow a t prev.tail
    (min (min (prev.headD 0 + 1) (cur.headD 0 + 1)) (prev.tail.headD 0 + (if a == b then 0 else 1))) :: cur

/-- `[|t|, |t|-1, …, 0]` = distances of the empty string to the suffixes of `t` -/
def levRow0 {α} : List α → List Nat
  | [] => [0]
  | _ :: t => (t.length + 1) :: levRow0 t

def levRows {α} [BEq α] : List α → List α → List Nat
  | [], t => levRow0 t
  | a :: s, t => levRow a t (levRows s t)

/-- executable edit distance -/
def levFast {α} [BEq α] (s t : List α) : Nat := (levRows s t).headD 0

/-! ## CIGAR bookkeeping -/

abbrev Cigar := List (Nat × Nat)

/-- M, X, = -/
def isMatch (op : Nat) : Bool := op == 0 || op == 7 || op == 8

/-- operations consuming reference: M D N = X -/
def consumesRef (op : Nat) : Bool := isMatch op || op == 2 || op == 3
/-- operations consuming query: M I S = X -/
def consumesQuery (op : Nat) : Bool := isMatch op || op == 1 || op == 4

/-- the alignment written out one column per base -/
def expand : Cigar → List Nat
  | [] => []
  | (op, len) :: rest => List.replicate len op ++ expand rest

def refLen : Cigar → Nat
  | [] => 0
  | (op, len) :: rest => (if consumesRef op then len else 0) + refLen rest

def qLen : Cigar → Nat
  | [] => 0
  | (op, len) :: rest => (if consumesQuery op then len else 0) + qLen rest

/-- where reference position `p` lies in the alignment: `(i, consumed, query offset)`.
`i`/`refPos`/`queryPos` are the running operation index and coordinates.
M/=/X and D contain their reference positions; an I lies *at* the reference position that follows it;
a position inside an N is not part of the alignment; S, H, P contain nothing. -/
def locate (p : Nat) : Nat → Nat → Nat → Cigar → Option (Nat × Nat × Nat)
  | _, _, _, [] => none
  | i, refPos, queryPos, (op, len) :: rest =>
    if isMatch op then
      if refPos ≤ p ∧ p < refPos + len then some (i, p - refPos, queryPos + (p - refPos))
      else locate p (i + 1) (refPos + len) (queryPos + len) rest
    else if op == 1 then
      if p = refPos then some (i, 0, queryPos) else locate p (i + 1) refPos (queryPos + len) rest
    else if op == 2 then
      if refPos ≤ p ∧ p < refPos + len then some (i, p - refPos, queryPos)
      else locate p (i + 1) (refPos + len) queryPos rest
    else if op == 3 then
      if refPos ≤ p ∧ p < refPos + len then none else locate p (i + 1) (refPos + len) queryPos rest
    else if op == 4 then locate p (i + 1) refPos (queryPos + len) rest
    else locate p (i + 1) refPos queryPos rest

/-! ## prefix of an alignment -/

/-- reference-consuming *aligned* columns: M/=/X and D (N is handled separately) -/
def isRefCol (c : Nat) : Bool := isMatch c || c == 2
/-- query-consuming aligned columns: M/=/X and I (a soft clip is not part of a re-alignment window) -/
def isQueryCol (c : Nat) : Bool := isMatch c || c == 1

/-- the longest prefix of a column list that ends right after its `k`-th reference-consuming column and does not
reach an N column (an N is "the end of the read") -/
def takeRef : Nat → List Nat → List Nat
  | 0, _ => []
  | _, [] => []
  | k + 1, c :: cs => if c == 3 then [] else if isRefCol c then c :: takeRef k cs else c :: takeRef (k + 1) cs

def countRef (cols : List Nat) : Nat := (cols.filter isRefCol).length
def countQuery (cols : List Nat) : Nat := (cols.filter isQueryCol).length

def enumFrom {α} : Nat → List α → List (Nat × α)
  | _, [] => []
  | n, x :: xs => (n, x) :: enumFrom (n + 1) xs

end WhVerif.C06

import WhVerif.Model.C11Run
import WhVerif.Spec.C11
/-!
# C11: what `whatshap compare` must report for a pair of (diploid) phased call lists — by definition

Naive executable definitions, written from the meaning of the columns, not from the code's loops:

* a variant is *common heterozygous* when both files have a heterozygous call at its position; the phase of a call is
  *assessed* when the call is phased, heterozygous and (diploid, fixes/F46.patch) lists the alleles 0/1 only;
* two common variants whose phase is assessed in both files lie in the same *intersection block* iff they carry the same
  phase-set id in the first file AND the same in the second: `groupByKey` takes the first variant's key, collects
  every variant with that key, and goes on with the others (blocks in the order of their first variant);
  only blocks of ≥ 2 variants count;
* per block, from the first haplotypes `a`, `b` (the second ones are their complements): the correspondence at a variant
  is "identity" when `a` and `b` agree and "swapped" otherwise; *switch errors* = adjacent variant pairs at which the
  correspondence changes (`changeCount`); BED rows = those pairs as `(pos + 1, pos' + 1)`; *switch/flip
  decomposition*: a maximal run of `L` consecutive switch errors is `L / 2` flips and `L % 2` switches (`runLengths`);
  *Hamming distance* = minimum over the two correspondences of the number of disagreeing variants (brute force over all
  bijections, halved); *different genotypes* = positions with different allele multisets;
* totals = sums over the blocks; `largest` = the first block of maximal length; `het_variants0` = heterozygous calls of
  the first file; per chromosome and pair of files as `run_compare` pairs them.
The reader (`readFile`), sample selection and chromosome intersection are NOT respecified here (they are the model's).
-/
namespace WhVerif.C11.Spec
open WhVerif.C11

/-- phase of a call that a diploid comparison assesses: `(phase set, alleles)` -/
def assessedPhase (c : Call) : Option (Nat × List Nat) :=
  if c.phased && !isHom c.gt && c.gt.all (fun a => decide (a ≤ 1)) then some (c.ps, c.gt) else none

def callAt (t : List Call) (p : Nat) : Option Call := t.find? (·.pos == p)

/-- positions with a heterozygous call in both files, in the order of the first file -/
def commonHet (t0 t1 : List Call) : List Nat :=
  (t0.filter fun c => !isHom c.gt && t1.any fun d => d.pos == c.pos && !isHom d.gt).map (·.pos)

/-- the common variants (by index) whose phase is assessed in both files, with the pair of phase-set ids -/
def jointlyPhased (t0 t1 : List Call) : List ((Nat × Nat) × Nat) :=
  let common := commonHet t0 t1
  (List.range common.length).filterMap fun vi =>
    let p := common.getD vi 0
    match (callAt t0 p).bind assessedPhase, (callAt t1 p).bind assessedPhase with
    | some a, some b => some ((a.1, b.1), vi)
    | _, _ => none

/-- naive group-by: the first element's key, every element with that key, then the others (`fuel` ≥ length: the list
of the others is shorter) -/
def groupByKeyN : Nat → List ((Nat × Nat) × Nat) → List ((Nat × Nat) × List Nat)
  | 0, _ => []
  | _, [] => []
  | fuel + 1, (k, v) :: t =>
    (k, v :: (t.filter (fun x => x.1 == k)).map (·.2)) :: groupByKeyN fuel (t.filter (fun x => !(x.1 == k)))

def groupByKey (l : List ((Nat × Nat) × Nat)) : List ((Nat × Nat) × List Nat) := groupByKeyN l.length l

/-- intersection blocks of ≥ 2 variants (lists of indices into `commonHet`) -/
def blocks (t0 t1 : List Call) : List (List Nat) :=
  ((groupByKey (jointlyPhased t0 t1)).map (·.2)).filter fun b => decide (2 ≤ b.length)

/-- allele of haplotype `j` at the common variants `block` -/
def hapAt (t : List Call) (common block : List Nat) (j : Nat) : Hap :=
  block.map fun vi => match callAt t (common.getD vi 0) with
    | some c => c.gt.getD j 0
    | none => 0

/-- number of adjacent pairs with different entries -/
def changeCount : List Nat → Nat
  | a :: b :: t => (if a = b then 0 else 1) + changeCount (b :: t)
  | _ => 0

/-- `1` where the correspondence between the haplotypes is "swapped" (first haplotypes disagree), `0` where "identity" -/
def correspondence (a b : Hap) : List Nat := (a.zip b).map fun x => if x.1 = x.2 then 0 else 1

/-- indicator of the adjacent pairs at which the correspondence changes -/
def switchMarks (a b : Hap) : List Bool :=
  let c := correspondence a b
  (c.zip c.tail).map fun x => x.1 != x.2

/-- lengths of the maximal runs of `true` -/
def runLengths : List Bool → Nat → List Nat
  | [], r => if r = 0 then [] else [r]
  | true :: t, r => runLengths t (r + 1)
  | false :: t, r => (if r = 0 then [] else [r]) ++ runLengths t 0

structure BlockSpec where
  positions : List Nat
  switches : Nat
  sfSwitches : Nat
  sfFlips : Nat
  hamming : Nat
  diffGenotypes : Nat
  bed : List (Nat × Nat)
deriving Repr, DecidableEq

def blockSpec (t0 t1 : List Call) (common block : List Nat) : BlockSpec :=
  let a := hapAt t0 common block 0
  let b := hapAt t1 common block 0
  let ph0 := [a, hapAt t0 common block 1]
  let ph1 := [b, hapAt t1 common block 1]
  let positions := block.map (common.getD · 0)
  let marks := switchMarks a b
  let runs := runLengths marks 0
  { positions := positions
    switches := changeCount (correspondence a b)
    sfSwitches := (runs.map (· % 2)).sum
    sfFlips := (runs.map (· / 2)).sum
    hamming := Spec.minHammingNum ph0 ph1 / 2
    diffGenotypes := Spec.diffGenotypes ph0 ph1 block.length
    bed := ((marks.zip (positions.zip positions.tail)).filter (·.1)).map fun x => (x.2.1 + 1, x.2.2 + 1) }

structure PairSpec where
  commonHet : Nat
  intersectionBlocks : Nat
  coveredVariants : Nat
  assessedPairs : Nat
  switches : Nat
  sfSwitches : Nat
  sfFlips : Nat
  hamming : Nat
  diffGenotypes : Nat
  largestLen : Nat
  /-- the first block of maximal length -/
  largest : Option BlockSpec
  bed : List (Nat × Nat)
  blocks : List BlockSpec
deriving Repr

/-- first element of maximal `positions.length` -/
def firstLongest : List BlockSpec → Option BlockSpec
  | [] => none
  | b :: t => match firstLongest t with
    | some c => if b.positions.length < c.positions.length then some c else some b
    | none => some b

/-- everything `--tsv-pairwise`, `--switch-error-bed` report for two diploid call lists, by definition -/
def pairSpec (t0 t1 : List Call) : PairSpec :=
  let common := commonHet t0 t1
  let bs := (blocks t0 t1).map (blockSpec t0 t1 common)
  { commonHet := common.length
    intersectionBlocks := bs.length
    coveredVariants := (bs.map (·.positions.length)).sum
    assessedPairs := (bs.map (·.positions.length - 1)).sum
    switches := (bs.map (·.switches)).sum
    sfSwitches := (bs.map (·.sfSwitches)).sum
    sfFlips := (bs.map (·.sfFlips)).sum
    hamming := (bs.map (·.hamming)).sum
    diffGenotypes := (bs.map (·.diffGenotypes)).sum
    largestLen := ((firstLongest bs).map (·.positions.length)).getD 0
    largest := firstLongest bs
    bed := bs.flatMap (·.bed)
    blocks := bs }

structure ChromSpec where
  chrom : String
  /-- `(i, j, het_variants0, numbers)` for all pairs `i < j` in order -/
  pairs : List (Nat × Nat × Nat × PairSpec)
  /-- BED rows of all pairs `(start, end, i, j)`, sorted -/
  bed : List (Nat × Nat × Nat × Nat)
deriving Repr

/-- per common chromosome (sorted) and pair of files: the numbers by definition.  Reader, sample selection and chromosome
intersection are the model's (`readFile`, `sampleNames`, `commonChromosomes`). -/
def runSpec (o : Opts) (files : List VFile) : Except RunError (List ChromSpec) := do
  let names ← sampleNames o files
  let tabsAll ← files.mapM (readFile o)
  let chroms := commonChromosomes tabsAll
  if chroms.isEmpty then .error .noCommonChromosome
  else pure (chroms.map fun c =>
    let tabs := tabsAll.map (tableOf · c)
    let sidx := (files.zip names).map fun fn => sampleIndex fn.1 fn.2
    let het0 := ((tabs.headD []).filter fun r => rawHet (r.calls.getD (sidx.headD 0) dummyCall)).length
    let pairs := (allPairs files.length).map fun ij =>
      let ti := tabs.getD ij.1 []
      let tj := tabs.getD ij.2 []
      (ij.1, ij.2, het0, pairSpec (restrictCalls ti (sidx.getD ij.1 0) [tj]) (restrictCalls tj (sidx.getD ij.2 0) [ti]))
    let bedAll := pairs.flatMap fun p => p.2.2.2.bed.map fun b => (b.1, b.2, p.1, p.2.1)
    ⟨c, pairs, bedAll.foldr insertBed []⟩)

end WhVerif.C11.Spec

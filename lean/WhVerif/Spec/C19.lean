/-!
# C19 specs (yard-sticks), core Lean only

* `lev` – Levenshtein distance by the textbook recursion (unit costs for insertion, deletion, mismatch).
* `vcfOrder p a` – all genotypes of ploidy `p` over alleles `< a`, as ascending lists, in the order the
  VCF specification prescribes (`for a in 0..N-1: for g in Genotypes(P-1, a+1): g ++ [a]`); the canonical
  index of a genotype is its position in this list.
* `multichoose p a` – number of multisets of size `p` over `a` alleles by Pascal's rule (no factorials).
* `lexLt` – lexicographic order of allele vectors.
-/
namespace WhVerif.C19.Spec

def lev {α} [DecidableEq α] : List α → List α → Nat
  | [], t => t.length
  | s, [] => s.length
  | a :: s, b :: t =>
    min (lev s t + (if a = b then 0 else 1)) (min (lev s (b :: t) + 1) (lev (a :: s) t + 1))

/-- genotypes of ploidy `p` with all alleles `< a`, VCF order -/
def vcfOrder : (p a : Nat) → List (List Nat)
  | 0, _ => [[]]
  | p + 1, a => (List.range a).flatMap (fun x => (vcfOrder p (x + 1)).map (fun g => g ++ [x]))

/-- number of multisets of size `p` over `a` kinds -/
def multichoose : (p a : Nat) → Nat
  | 0, _ => 1
  | _ + 1, 0 => 0
  | p + 1, a + 1 => multichoose p (a + 1) + multichoose (p + 1) a

/-- lexicographic order on allele vectors (as Python compares lists); on the *descending* vectors `as_vector()` of
one ploidy this is the order the class comment of `genotype.h` describes: first the genotypes that only use allele 0,
then those whose largest allele is 1, … – the largest allele decides first -/
def lexLt : List Nat → List Nat → Bool
  | [], [] => false
  | [], _ :: _ => true
  | _ :: _, [] => false
  | a :: as, b :: bs => a < b || (a == b && lexLt as bs)

end WhVerif.C19.Spec

import WhVerif.Model.C13
/-! Specification-level vocabulary of C13 (core Lean only): addressing of calls, the "phase-only edit" relation
(what a phasing writer may do to a file — the contract of C04's writer), and the call shapes HEAD's loop accepts. -/
namespace WhVerif.C13

/-- call `j` of record `i` -/
def callAt (v : List Record) (i j : Nat) : Option Call := v[i]?.bind (·.calls[j]?)

/-! What a phasing writer may do to a call: permute the alleles of a genotype all of whose alleles are present,
set the phased flag at will, and add / change / delete HP, PQ, PS values.  Everything else stays. -/

def PhaseOnlyEditGT (g g' : GT) : Prop :=
  g'.alleles = g.alleles ∨ (allPresent g.alleles = true ∧ g'.alleles.Perm g.alleles)

def PhaseOnlyEditCall (c c' : Call) : Prop :=
  stripTags c'.fields = stripTags c.fields ∧
  match c.gt, c'.gt with
  | none, none => True
  | some g, some g' => PhaseOnlyEditGT g g'
  | _, _ => False

def PhaseOnlyEditCalls : List Call → List Call → Prop
  | [], [] => True
  | c :: cs, c' :: cs' => PhaseOnlyEditCall c c' ∧ PhaseOnlyEditCalls cs cs'
  | _, _ => False

def PhaseOnlyEdit : List Record → List Record → Prop
  | [], [] => True
  | r :: v, r' :: v' => r'.fixed = r.fixed ∧ PhaseOnlyEditCalls r.calls r'.calls ∧ PhaseOnlyEdit v v'
  | _, _ => False

/-- the call shapes on which HEAD's loop body does not raise -/
def curSafe (c : Call) : Bool :=
  match c.gt with
  | none => false
  | some g =>
    match g.alleles with
    | [] => false
    | [a] => a.isNone
    | a :: b :: rest => !(a.isSome && b.isSome) || allPresent rest

end WhVerif.C13

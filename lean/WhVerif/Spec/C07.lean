import WhVerif.Model.C07
/-!
# C07 spec: the property predicates, executable (used by the driver as an oracle on the
# implementation's output) and in the form the theorems of `Props/C07.lean` state them.
-/
namespace WhVerif.C07

/-- number of reads of `sel` (indices into `reads`) whose span first..last contains position `p` -/
def countSel (reads : List Read) (sel : List Nat) (p : Nat) : Nat :=
  sel.countP (fun i => (getRead reads i).spans p)

/-- the result is a duplicate-free set of valid read indices -/
def subsetOK (reads : List Read) (sel : List Nat) : Bool :=
  sel.all (fun i => decide (i < reads.length)) && decide (sel.Nodup)

/-- no variant of the read set is spanned by more than `k` selected reads -/
def capOK (reads : List Read) (k : Nat) (sel : List Nat) : Bool :=
  (positions reads).all (fun p => decide (countSel reads sel p ≤ k))

/-- read `i` cannot be added: some variant it spans is already spanned by `k` selected reads -/
def saturated (reads : List Read) (k : Nat) (sel : List Nat) (i : Nat) : Bool :=
  (positions reads).any (fun p => (getRead reads i).spans p && decide (k ≤ countSel reads sel p))

/-- every read left out would push some variant it spans above `k` -/
def maximalOK (reads : List Read) (k : Nat) (sel : List Nat) : Bool :=
  (List.range reads.length).all (fun i => sel.contains i || saturated reads k sel i)

/-- number of reads (of the union over the family members) whose span contains `q` -/
def countReads (rs : List Read) (q : Nat) : Nat := rs.countP (fun r => r.spans q)

def familyCount (members : List (List Read)) (q : Nat) : Nat := (members.map (fun rs => countReads rs q)).sum

end WhVerif.C07

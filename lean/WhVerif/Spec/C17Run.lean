import WhVerif.Model.C17Run
import WhVerif.Spec.C17
import WhVerif.Spec.C10
/-! C17 — vocabulary of the composition statements: reads of the BAM that `haplotag` tagged from the phased VCF `V` -/
namespace WhVerif.C17
open WhVerif.C10 (RV PhaseInfo)

/-- the alleles `rvs` were read without error from haplotype `τ` of `V` (every typed position is a phased
heterozygous call of `V`, and the allele is the one `V` puts on haplotype `τ`) -/
def ErrorFree (info : PhaseInfo) (τ : Nat) (rvs : List RV) : Prop :=
  ∀ w ∈ rvs, ∃ ps x0 x1, info.lookup w.pos = some (ps, [x0, x1]) ∧ x0 ≠ x1 ∧ [x0, x1][τ]? = some w.allele

/-- all typed positions lie in phase set `P` of `V` ("the read does not overlap two phase sets") -/
def OneSet (info : PhaseInfo) (P : Int) (rvs : List RV) : Prop :=
  ∀ w ∈ rvs, ∀ ps ph, info.lookup w.pos = some (ps, ph) → ps = P

/-- `r` is a read of the tagged BAM whose HP/PS tags `haplotag` derived from `V`: the tags are the decision
(`C10.tagDecision`, as `C10.written_tags_sound` delivers it for every tagged alignment) on the alleles `rvs` of its read
cloud (the read itself unless linked reads are used), the cloud stems from haplotype `τ` without errors and lies in one
phase set, and the alleles haplotagphase detects on the read at `V`'s phased calls are among the cloud's. -/
def TaggedFrom (info : PhaseInfo) (r : TRead) : Prop :=
  ∃ τ P rvs h q, τ < 2 ∧ C10.tagDecision 2 info rvs = .tagged h q r.ps ∧ r.hp = (h : Int) + 1 ∧
    ErrorFree info τ rvs ∧ OneSet info P rvs ∧ ∀ v ∈ r.variants, (info.lookup v.pos).isSome → v ∈ rvs

/-- some voting read covers `pos` -/
def covered (pos : Nat) (reads : List TRead) : Bool :=
  reads.any fun r => voting r && r.variants.any (·.pos == pos)

end WhVerif.C17

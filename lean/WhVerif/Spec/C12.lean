import WhVerif.Model.C12
/-! Independent counts "straight from the record list" for C12 (core Lean only).
A call is heterozygous iff all its alleles are called and not all equal (`Geno.het`); a phase set is the set of
heterozygous calls carrying the same block id. -/
namespace WhVerif.C12

def isHet (v : Var) : Bool := v.geno == .het

/-- number of heterozygous calls in phase set `id` -/
def setSize (vars : List Var) (id : BlockId) : Nat :=
  (vars.filter (fun v => isHet v && v.phase == some id)).length

/-- the heterozygous call lies in a phase set whose size satisfies `P` -/
def inSetOfSize (vars : List Var) (P : Nat → Bool) (v : Var) : Bool :=
  isHet v && (match v.phase with
    | some id => P (setSize vars id)
    | none => false)

def specVariants (vars : List Var) : Nat := vars.length
def specHet (vars : List Var) : Nat := (vars.filter isHet).length
def specHetSnvs (vars : List Var) : Nat := (vars.filter (fun v => isHet v && v.snv)).length
def specUnphased (vars : List Var) : Nat := (vars.filter (fun v => isHet v && v.phase.isNone)).length
def specPhased (vars : List Var) : Nat := (vars.filter (inSetOfSize vars (fun n => decide (n > 1)))).length
def specSingletons (vars : List Var) : Nat := (vars.filter (inSetOfSize vars (fun n => n == 1))).length
def specPhasedSnvs (vars : List Var) : Nat :=
  (vars.filter (fun v => inSetOfSize vars (fun n => decide (n > 1)) v && v.snv)).length
/-- the distinct phase-set ids of the heterozygous phased calls -/
def specIds (vars : List Var) : List BlockId := dedupIds ((vars.filter isHet).filterMap (·.phase))
def specBlocks (vars : List Var) : Nat := ((specIds vars).filter (fun id => decide (setSize vars id > 1))).length

/-- number of members of phase set `id` among the phased calls `ph` -/
def cnt (ph : List (BlockId × Member)) (id : BlockId) : Nat := (ph.filter (fun p => p.1 == id)).length

/-- the queue of the splitting loop is sorted by leftmost position -/
def QSorted (q : List Block) : Prop := q.Pairwise (fun a b => lo a ≤ lo b)
def QNonempty (q : List Block) : Prop := ∀ b ∈ q, b ≠ []

/-- "if there is no block of size > 1 there is no split block of size > 1" — true of every `chromStats` result and
preserved by `addStats`; `get_detailed_stats` silently relies on it -/
def Stats.Consistent (s : Stats) : Prop :=
  s.blocks.filter (fun b => b.length > 1) = [] → s.splitBlocks.filter (fun b => b.length > 1) = []

/-- the additive columns of a row: variants, phased, unphased, singletons, blocks, variant_per_block_sum,
bp_per_block_sum, heterozygous_variants, heterozygous_snvs, phased_snvs -/
def Row.additive (r : Row) : List Nat :=
  [r.variants, r.phased, r.unphased, r.singletons, r.blocks, r.sizes.sum, r.bpSum, r.het, r.hetSnvs, r.phasedSnvs]

def addVec (a b : List Nat) : List Nat := List.zipWith (· + ·) a b

end WhVerif.C12

import WhVerif.Spec.C02Raw
import WhVerif.Spec.C06NoRef
import WhVerif.Model.C02Stage
/-!
# C02 spec: what an "error-free alignment of a haplotype" is (SNV inputs)

The truth of one sample on one chromosome: the reference `R`, the SNVs `vs` (REF/ALT single different bases at known
positions) and `hapAt p` = allele of haplotype 0 at position `p` (haplotype 1 carries `1 - hapAt p`).

* `hapBase R vs hapAt s p`   the base haplotype `s` carries at reference position `p`: the REF or ALT base of the SNV at
                              `p`, the reference base where there is no SNV;
* `ErrFreeAln base q rp qp c` the alignment with CIGAR `c` (any of the nine operators: M/=/X blocks, soft/hard clips, N
                              skips; also I/D/P, whose bases are not constrained) starting at reference position `rp`, query
                              offset `qp`, is an error-free copy: in every M/=/X block the read base aligned to reference
                              position `p` is `base p`;
* `AlnErrFree`                that for a usable alignment record of the C06 model (has CIGAR and SEQ, SEQ as long as the
                              CIGAR says, base qualities absent or positive and as long as SEQ);
* `AlnsErrFree`               the alignment-level hypothesis of `pipeline_truth_from_alignments`: every alignment that passes
                              the filter is an error-free alignment of the haplotype `hsrc (source file, read name)` — all
                              alignments of one template (mates, supplementary) copy the same haplotype.
Core Lean only.
-/
namespace WhVerif.C02A
open WhVerif.C06 WhVerif.C02 WhVerif.C01

/-- allele carried by haplotype `s` (`true` = haplotype 1) at position `p` -/
def alleleOf (hapAt : Nat → Nat) (s : Bool) (p : Nat) : Nat := if s then 1 - hapAt p else hapAt p

/-- the base haplotype `s` carries at reference position `p` -/
def hapBase (R : Seq) (vs : List Variant) (hapAt : Nat → Nat) (s : Bool) (p : Nat) : Option Char :=
  match vs.find? (fun v => v.pos == p) with
  | some v => if alleleOf hapAt s p = 0 then v.ref.head? else (v.alts.headD []).head?
  | none => R[p]?

def ErrFreeAln (base : Nat → Option Char) (query : Seq) : Nat → Nat → Cigar → Prop
  | _, _, [] => True
  | rp, qp, (op, len) :: rest =>
    if isMatch op then
      (∀ k, k < len → query[qp + k]? = base (rp + k)) ∧ ErrFreeAln base query (rp + len) (qp + len) rest
    else if op == 1 || op == 4 then ErrFreeAln base query rp (qp + len) rest
    else if op == 2 || op == 3 then ErrFreeAln base query (rp + len) qp rest
    else ErrFreeAln base query rp qp rest

/-- executable form (for the non-vacuity examples) -/
def errFreeAlnB (base : Nat → Option Char) (query : Seq) : Nat → Nat → Cigar → Bool
  | _, _, [] => true
  | rp, qp, (op, len) :: rest =>
    if isMatch op then
      (List.range len).all (fun k => query[qp + k]? == base (rp + k)) && errFreeAlnB base query (rp + len) (qp + len) rest
    else if op == 1 || op == 4 then errFreeAlnB base query rp (qp + len) rest
    else if op == 2 || op == 3 then errFreeAlnB base query (rp + len) qp rest
    else errFreeAlnB base query rp qp rest

/-- base qualities: absent (`*`: every call gets 30) or one positive value per base -/
def QualsOk (quals : Option (List Nat)) (n : Nat) : Prop :=
  ∀ l, quals = some l → l.length = n ∧ ∀ x ∈ l, 0 < x

/-- the alignment record `a` is an error-free alignment of haplotype `s` -/
def AlnErrFree (R : Seq) (vs : List Variant) (hapAt : Nat → Nat) (s : Bool) (a : Aln) : Prop :=
  ∃ cigar query, a.cigar = some cigar ∧ a.query = some query ∧ (∀ p ∈ cigar, p.1 ≤ 8) ∧ qLen cigar ≤ query.length ∧
    QualsOk a.quals query.length ∧ ErrFreeAln (hapBase R vs hapAt s) query a.refStart 0 cigar

/-- the variant list of an SNV-only input: single different REF/ALT bases, strictly increasing positions, biallelic truth -/
def SnvInput (vs : List Variant) : Prop :=
  (∀ v ∈ vs, isSnv v) ∧ vs.Pairwise (fun a b => a.pos < b.pos)

/-- every alignment that passes the filter is an error-free alignment of the haplotype of its template -/
def AlnsErrFree (cfg : ReadCfg) (sources : List Source) (sample : Option String) (R : Seq) (vs : List Variant)
    (hapAt : Nat → Nat) (hsrc : Nat × String → Bool) : Prop :=
  ∀ a, Except.ok a ∈ usableStream cfg sources sample none → AlnErrFree R vs hapAt (hsrc (a.sourceId, a.name)) a

/-- the haplotype of read number `k` of a list of pipeline reads -/
def srcOf (hsrc : Nat × String → Bool) (rs : List ReadOut) (k : Nat) : Bool :=
  hsrc ((rs.getD k default).sourceId, (rs.getD k default).name)

end WhVerif.C02A

import WhVerif.Model.C11
/-!
# C11 executable brute-force specs (definitions the reported numbers must equal)

* haplotype correspondences = all bijections of `{0..p-1}`, enumerated naively as the duplicate-free
  index lists among all `p^p` lists (independent of the model's `perms`);
* `minHammingNum`: minimum over correspondences `σ` of `Σ_j hamming(ph1[j], ph0[σ j])` (numerator; the
  reported value is this divided by the ploidy);
* `polyBrute`: minimum over ALL sequences of correspondences (one per position) of
  `sc * Σ_i #{j | σ_i j ≠ σ_{i-1} j} + fc * Σ_i #{j | ph0[σ_i j][i] ≠ ph1[j][i]}` together with the set of
  `(switches, flips)` pairs of the optimal sequences.  Switch errors = `polyBrute` with a prohibitive flip
  cost on the genotype-matching positions; switch/flip decomposition = `polyBrute` with costs 1/1;
* `diffGenotypes`: number of positions whose allele multisets differ (by counting, no sorting).
-/
namespace WhVerif.C11.Spec
open WhVerif.C11

def allLists (p : Nat) : Nat → List (List Nat)
  | 0 => [[]]
  | k + 1 => (List.range p).flatMap fun x => (allLists p k).map (x :: ·)

def nodupB : List Nat → Bool
  | [] => true
  | a :: t => !t.contains a && nodupB t

/-- all bijections of `{0..p-1}` as index lists -/
def bijections (p : Nat) : List Perm := (allLists p p).filter nodupB

/-- summed Hamming distance under the correspondence `σ` (haplotype `j` of phasing 1 ↔ haplotype `σ j` of phasing 0) -/
def corrDist (ph0 ph1 : List Hap) (σ : Perm) : Nat :=
  ((List.range ph1.length).map fun j => hamming (ph1.getD j []) (ph0.getD (σ.getD j 0) [])).sum

def minHammingNum (ph0 ph1 : List Hap) : Nat :=
  listMin ((bijections ph0.length).map (corrDist ph0 ph1))

def seqs (bs : List Perm) : Nat → List (List Perm)
  | 0 => [[]]
  | k + 1 => bs.flatMap fun b => (seqs bs k).map (b :: ·)

def seqSwitches : List Perm → Nat
  | a :: b :: t => hamming a b + seqSwitches (b :: t)
  | _ => 0

def seqFlips : List Perm → List (List Nat × List Nat) → Nat
  | σ :: t, (c0, c1) :: cs => numFlips σ c0 c1 + seqFlips t cs
  | _, _ => 0

/-- (minimum cost, set of `(switches, flips)` of all optimal sequences) -/
def polyBrute (p sc fc : Nat) (cols : List (List Nat × List Nat)) : Nat × List (Nat × Nat) :=
  let all := (seqs (bijections p) cols.length).map fun s => (seqSwitches s, seqFlips s cols)
  let m := listMin (all.map fun sf => sc * sf.1 + fc * sf.2)
  (m, (all.filter fun sf => sc * sf.1 + fc * sf.2 == m).eraseDups)

def sameGenotype (c0 c1 : List Nat) : Bool :=
  c0.length == c1.length && (c0 ++ c1).all fun a => c0.count a == c1.count a

def diffGenotypes (ph0 ph1 : List Hap) (n : Nat) : Nat :=
  ((List.range n).filter fun i => !sameGenotype (column ph0 i) (column ph1 i)).length

end WhVerif.C11.Spec

namespace WhVerif.C11

/-- entries of `c` listed in the order `τ` -/
def relabel (τ : Perm) (c : List Nat) : List Nat := τ.map (c.getD · 0)

/-- haplotypes of `ph` listed in the order `τ` (new haplotype `k` = old haplotype `τ k`): what "the haplotypes of a phase
set are listed in a different order" means in the property text -/
def relabelHaps (τ : Perm) (ph : List Hap) : List Hap := τ.map (ph.getD · [])

end WhVerif.C11

import WhVerif.Spec.C06
/-!
# C06 spec: edit distance with affine gap costs by brute-force enumeration of all alignments (core Lean only)

An alignment of a query `q` with a sequence `r` is a sequence of columns: `sub` (a query base over a base of `r`:
match or mismatch), `ins` (a query base over a gap) or `del` (a gap over a base of `r`).  Its cost:
a `sub` column costs 0 when the two bases are equal, else the mismatch cost *of that query base*; a gap column costs
`ge` when the column directly before it is a gap column of the same kind (gap extension), else `gs` (gap start) — so a
run of `l` gap columns of one kind costs `gs + (l-1)·ge`.

`alisR u v` enumerates ALL alignments of the strings whose *reverses* are `u` and `v`; every alignment is listed from
its LAST column backwards (the head of the list is the last column).  This orientation makes "the column directly
before" the next list element, and the prefix structure of the dynamic programme a structural recursion.
`affineSpec` is the minimum cost over the enumeration.
-/
namespace WhVerif.C06

inductive Col
  | sub | ins | del
deriving DecidableEq, Repr

/-- all alignments (last column first) of two strings given by their reverses; only the lengths matter -/
def alisR {α β} : List α → List β → List (List Col)
  | [], [] => [[]]
  | _ :: u, [] => (alisR u ([] : List β)).map (Col.ins :: ·)
  | [], _ :: v => (alisR ([] : List α) v).map (Col.del :: ·)
  | x :: u, y :: v =>
    (alisR u v).map (Col.sub :: ·) ++ ((alisR u (y :: v)).map (Col.ins :: ·) ++ (alisR (x :: u) v).map (Col.del :: ·))
termination_by u v => u.length + v.length

/-- cost of a gap column of kind `c` when the columns before it are `before` (nearest first) -/
def gapStep (gs ge : Nat) (c : Col) (before : List Col) : Nat := if before.head? = some c then ge else gs

/-- a query base with its mismatch cost -/
abbrev QSeq := List (Char × Nat)

/-- cost of an alignment (last column first) of reversed query `u` (bases with their mismatch costs) and reversed `v` -/
def costR (gs ge : Nat) : List Col → QSeq → List Char → Nat
  | [], _, _ => 0
  | .sub :: cs, x :: u, y :: v => (if x.1 == y then 0 else x.2) + costR gs ge cs u v
  | .ins :: cs, _ :: u, v => gapStep gs ge .ins cs + costR gs ge cs u v
  | .del :: cs, u, _ :: v => gapStep gs ge .del cs + costR gs ge cs u v
  | _ :: _, _, _ => 0

/-- minimum of a list (0 for the empty list; the enumeration is never empty) -/
def minList : List Nat → Nat
  | [] => 0
  | [x] => x
  | x :: y :: l => min x (minList (y :: l))

/-- the affine-gap edit distance: minimum cost over all alignments -/
def affineSpec (gs ge : Nat) (q : QSeq) (r : List Char) : Nat :=
  minList ((alisR q.reverse r.reverse).map (fun cs => costR gs ge cs q.reverse r.reverse))

end WhVerif.C06

import WhVerif.Model.C10
/-!
# C10 — yard-stick: "summed allele quality of the alleles that agree with a haplotype within a phase set"

Independent of the accumulation loop of the model: a plain sum over the read's variants.
-/
namespace WhVerif.C10

/-- what variant `v` of the read contributes to haplotype `j` of phase set `P` -/
def contrib (info : PhaseInfo) (P : Int) (j : Nat) (v : RV) : Nat :=
  match info.lookup v.pos with
  | some (ps, ph) => if ps = P ∧ ph[j]? = some v.allele then v.qual else 0
  | none => 0

/-- summed quality of the observed alleles that equal the allele of haplotype `j` in phase set `P` -/
def agreeScore (info : PhaseInfo) (rvs : List RV) (P : Int) (j : Nat) : Nat :=
  (rvs.map (contrib info P j)).sum

/-- the read carries an allele that some haplotype of phase set `P` has at that variant -/
def touches (info : PhaseInfo) (P : Int) (v : RV) : Bool :=
  match info.lookup v.pos with
  | some (ps, ph) => ps == P && ph.contains v.allele
  | none => false

/-- scores of all haplotypes of `P` -/
def agreeScores (ploidy : Nat) (info : PhaseInfo) (rvs : List RV) (P : Int) : List Nat :=
  (List.range ploidy).map (agreeScore info rvs P)

/-- `h` is the unique best entry of `s`, ahead of the second best by exactly `q > 0` -/
def StrictBest (s : List Nat) (h q : Nat) : Prop :=
  0 < q ∧ ∃ hh : h < s.length,
    (∀ j (hj : j < s.length), j ≠ h → s[j] + q ≤ s[h]) ∧ (∃ j, ∃ hj : j < s.length, j ≠ h ∧ s[j] + q = s[h])

/-- the two largest entries of `s` are equal -/
def Tie (s : List Nat) : Prop :=
  ∃ h j, ∃ (hh : h < s.length) (hj : j < s.length), h ≠ j ∧ s[h] = s[j] ∧ ∀ k (hk : k < s.length), s[k] ≤ s[h]

end WhVerif.C10

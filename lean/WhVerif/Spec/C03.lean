import WhVerif.Model.C03
/-!
# C03 spec: read-connectivity of variants, stated without union-find

`Linked a b`: some read used for phasing covers both `a` and `b` (both phased positions and, when a het
map is given, both in the het set of the read's sample), or both lie in the master block.
`Connected` is the reflexive–transitive closure of `Linked` (a chain of reads in which consecutive
variants are covered by a common read).  `connectedB` is an executable closure computation (breadth
first, no union-find) used as the oracle by the harness.
-/
namespace WhVerif.C03

/-- does position `p` of read `r` survive the filter of `find_components`? -/
def hetOk (het : Option HetMap) (r : Read) (p : Nat) : Prop :=
  match het with
  | none => True
  | some h => ∃ hs, h.lookup r.sample = some hs ∧ p ∈ hs

def Linked (phased : List Nat) (reads : List Read) (master : Option (List Nat)) (het : Option HetMap)
    (a b : Nat) : Prop :=
  (∃ r ∈ reads, a ∈ r.positions ∧ b ∈ r.positions ∧ a ∈ phased ∧ b ∈ phased ∧ hetOk het r a ∧ hetOk het r b)
  ∨ (∃ m, master = some m ∧ a ∈ m ∧ b ∈ m)

/-- reflexive–transitive closure -/
inductive Chain (L : Nat → Nat → Prop) : Nat → Nat → Prop
  | refl (a : Nat) : Chain L a a
  | step {a b c : Nat} : L a b → Chain L b c → Chain L a c

/-- `a` and `b` are linked by a chain of reads used for phasing in which consecutive variants are covered
by a common read (plus the master block in pedigree mode) -/
def Connected (phased : List Nat) (reads : List Read) (master : Option (List Nat)) (het : Option HetMap) :
    Nat → Nat → Prop :=
  Chain (Linked phased reads master het)

/-! ## executable oracle -/

def hetOkB (het : Option HetMap) (r : Read) (p : Nat) : Bool :=
  match het with
  | none => true
  | some h => match h.lookup r.sample with
    | some hs => hs.contains p
    | none => false

def linkedB (phased : List Nat) (reads : List Read) (master : Option (List Nat)) (het : Option HetMap)
    (a b : Nat) : Bool :=
  reads.any (fun r => r.positions.contains a && r.positions.contains b && phased.contains a && phased.contains b
      && hetOkB het r a && hetOkB het r b)
  || (match master with | none => false | some m => m.contains a && m.contains b)

/-- one breadth-first round: everything in `S` plus every node linked to a member of `S` -/
def expand (link : Nat → Nat → Bool) (nodes : List Nat) (S : List Nat) : List Nat :=
  nodes.filter (fun b => S.contains b || S.any (fun a => link a b))

/-- breadth-first rounds until nothing new is found (or the fuel, the number of nodes, is used up) -/
def closure (link : Nat → Nat → Bool) (nodes : List Nat) : Nat → List Nat → List Nat
  | 0, S => S
  | n + 1, S =>
    let S' := expand link nodes S
    if S'.length == S.length then S' else closure link nodes n S'

/-- all positions that occur anywhere -/
def allNodes (phased : List Nat) (reads : List Read) (master : Option (List Nat)) : List Nat :=
  (phased ++ reads.flatMap (·.positions) ++ (master.getD [])).eraseDups

/-- start set of the search: `a` itself if it is a node -/
def startSet (nodes : List Nat) (a : Nat) : List Nat := nodes.filter (fun x => x == a)

def connectedWith (link : Nat → Nat → Bool) (nodes : List Nat) (a b : Nat) : Bool :=
  a == b || (closure link nodes nodes.length (startSet nodes a)).contains b

/-- the oracle's component name: smallest position connected to `p` -/
def leftmostWith (link : Nat → Nat → Bool) (nodes : List Nat) (p : Nat) : Nat :=
  (closure link nodes nodes.length (startSet nodes p)).foldl min p

def connectedB (phased : List Nat) (reads : List Read) (master : Option (List Nat)) (het : Option HetMap)
    (a b : Nat) : Bool :=
  connectedWith (linkedB phased reads master het) (allNodes phased reads master) a b

def leftmostB (phased : List Nat) (reads : List Read) (master : Option (List Nat)) (het : Option HetMap)
    (p : Nat) : Nat :=
  leftmostWith (linkedB phased reads master het) (allNodes phased reads master) p

end WhVerif.C03

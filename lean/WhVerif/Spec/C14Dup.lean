import WhVerif.Spec.C14
import WhVerif.Model.C14Iter
/-!
Round 10 — specification vocabulary for lists WITH duplicate read names and for ties of largest blocks
(core Lean only; independent of the table `buildTable` builds).
-/
namespace WhVerif.C14

/-- the last tagged (`H`k) line of the list that names `name` (`none` lines never reset the dict) -/
def lastTagged (lines : List Line) (name : String) : Option Line :=
  (taggedOf lines).reverse.find? (fun l => l.name == name)

/-- `--only-largest-block`: SOME tagged line naming `name` lies in a selected block (the code collects the names of
the selected blocks in a set and keeps the dict entries of those names) -/
def inSelected (o : Opts) (lines : List Line) (name : String) : Bool :=
  !o.onlyLargest ||
    (taggedOf lines).any (fun l => l.name == name && (selectedBlocks (taggedOf lines)).contains (l.chrom, l.ps))

/-- the haplotype the code's dict answers for `name`, read off the lines: the haplotype of the LAST tagged line of that
name — whichever block / chromosome that line is in — provided (with `--only-largest-block`) some tagged line of the
name is in a selected block; else 0 -/
def hapByList (o : Opts) (lines : List Line) (name : String) : Nat :=
  match lastTagged lines name with
  | some l => if inSelected o lines name then l.hap else 0
  | none => 0

/-- **the entry the list assigns to a read name, for every list** (`entryOf` for lists that may name a read twice) -/
def entryGen (o : Opts) (lines : List Line) (name : String) : Option Nat :=
  if lines.any (fun l => l.name == name) then some (hapByList o lines name) else none

/-- the option table on the list itself, for every list -/
def prescribedByListGen (o : Opts) (lines : List Line) (r : Read) : List Nat :=
  let untaggedTarget := if o.addUntagged then List.range (o.ploidy + 1) else [0]
  let target := match entryGen o lines r.name with
    | none => if o.discardUnknown then [] else untaggedTarget
    | some h => if h == 0 then untaggedTarget else [h]
  target.filter (isRequested o)

/-! ### ties of largest blocks -/

def inBlock (b : String × String) (l : Line) : Bool := l.chrom == b.1 && l.ps == b.2

/-- index (among the tagged lines) of the first line of block `b`; `tagged.length` if it has none -/
def firstIdx (tagged : List Line) (b : String × String) : Nat := tagged.findIdx (inBlock b)

/-- `b` is THE block `Counter.most_common(1)` answers for its chromosome: a largest one, and among the largest ones of
that chromosome the one whose first tagged line comes first in the list file -/
def IsFirstLargest (tagged : List Line) (b : String × String) : Prop :=
  IsLargest tagged b ∧
    ∀ ps, blockSize tagged (b.1, ps) = blockSize tagged b → firstIdx tagged b ≤ firstIdx tagged (b.1, ps)

/-- the selected block of chromosome `c` computed by direct search over the lines (yard-stick for the driver): scan the
tagged lines in order, keep the first block of `c` with strictly more lines than any block seen before -/
def firstLargestOf (tagged : List Line) (c : String) : Option (String × String) :=
  (tagged.filter (fun l => l.chrom == c)).foldl (fun best l =>
    match best with
    | none => some (l.chrom, l.ps)
    | some b => if blockSize tagged (l.chrom, l.ps) > blockSize tagged b then some (l.chrom, l.ps) else some b) none

end WhVerif.C14

import WhVerif.Model.C01
/-!
# C01 spec: the weighted (Pedigree) MEC objective, by plain enumeration

A solution is a bipartition `β` of ALL reads (bit set = the read sits on haplotype 1 of its individual), a
transmission value per column `τ`, and per column an admissible allele assignment.  The objective is
  Σ_c [ min over admissible assignments α of ( genotype cost of α + Σ_{entries e in column c}
        weight(e)·[α(partition of e's read's haplotype under τ_c) ≠ allele(e)] ) ]
  + Σ_{c ≥ 1} popcount(τ_c xor τ_{c-1}) · recomb_c .
(The allele assignments of different columns are independent given (β, τ), so the minimum over them is
taken column by column.)  `optCost` is the minimum over all `(β, τ)`.
-/
namespace WhVerif.C01
open WhVerif.Cost

def restrict (β : List Bool) (ids : List Nat) : List Bool := ids.map (fun r => β.getD r false)

/-- cost of column `c` of the global solution `(β, τ)`, including the recombination cost between `c-1` and `c` -/
def colTotal (I : Inst) (β : List Bool) (τ : List Nat) (c : Nat) : Option Nat :=
  cadd (colCost I c (restrict β (I.activeAt c)) (τ.getD c 0))
    (some (popcount (τ.getD c 0 ^^^ τ.getD (c - 1) 0) * I.recombAt c))

/-- cost of columns `0..c` -/
def costUpTo (I : Inst) (β : List Bool) (τ : List Nat) : Nat → Option Nat
  | 0 => colTotal I β τ 0
  | c + 1 => cadd (costUpTo I β τ c) (colTotal I β τ (c + 1))

def totalCost (I : Inst) (β : List Bool) (τ : List Nat) : Option Nat :=
  if I.ncols = 0 then some 0 else costUpTo I β τ (I.ncols - 1)

/-- all lists of length `n` over `[0, m)` -/
def allLists (m : Nat) : Nat → List (List Nat)
  | 0 => [[]]
  | n + 1 => (List.range m).flatMap (fun x => (allLists m n).map (fun l => x :: l))

def allBools : Nat → List (List Bool)
  | 0 => [[]]
  | n + 1 => (allBools n).flatMap (fun l => [false :: l, true :: l])

def solutions (I : Inst) : List (List Bool × List Nat) :=
  (allBools I.nreads).flatMap (fun β => (allLists I.ntrans I.ncols).map (fun τ => (β, τ)))

/-- the true optimum, by brute force -/
def optCost (I : Inst) : Option Nat := minOver (solutions I) (fun s => totalCost I s.1 s.2)

end WhVerif.C01

/-! ## the fully flattened objective: explicit allele assignment per column

`optCost3` is the minimum over ALL triples (bipartition, transmission vector, allele assignment per column) —
literally the property's "over all read bipartitions, transmission vectors and admissible allele assignments".
`Lemmas/C01Flat.lean` proves `optCost3 = optCost`. -/
namespace WhVerif.C01
open WhVerif.Cost

/-- cost of column `c` under the explicit allele assignment `α` (bit p = allele of partition p);
`none` if `α` is not admissible for the genotype constraints -/
def colCostWith (I : Inst) (c : Nat) (bs : List Bool) (t α : Nat) : Option Nat :=
  (assignCost I c t α).map (fun g => g + viewCost I c t α bs)

def colTotalWith (I : Inst) (β : List Bool) (τ αs : List Nat) (c : Nat) : Option Nat :=
  cadd (colCostWith I c (restrict β (I.activeAt c)) (τ.getD c 0) (αs.getD c 0))
    (some (popcount (τ.getD c 0 ^^^ τ.getD (c - 1) 0) * I.recombAt c))

def costUpToWith (I : Inst) (β : List Bool) (τ αs : List Nat) : Nat → Option Nat
  | 0 => colTotalWith I β τ αs 0
  | c + 1 => cadd (costUpToWith I β τ αs c) (colTotalWith I β τ αs (c + 1))

/-- the (Ped)MEC objective of a complete solution `(β, τ, αs)` -/
def solutionCost (I : Inst) (β : List Bool) (τ αs : List Nat) : Option Nat :=
  if I.ncols = 0 then some 0 else costUpToWith I β τ αs (I.ncols - 1)

def solutions3 (I : Inst) : List ((List Bool × List Nat) × List Nat) :=
  (solutions I).flatMap (fun s => (allLists (2 ^ I.npart) I.ncols).map (fun αs => (s, αs)))

def optCost3 (I : Inst) : Option Nat := minOver (solutions3 I) (fun s => solutionCost I s.1.1 s.1.2 s.2)

end WhVerif.C01

import WhVerif.Model.C18
/-!
# C18 specifications (core Lean only)

* `Inv q`: the representation invariant of the heap model (heap order + position map consistent).
* abstract queue = finite map item ↦ score, represented as `AMap = List (Nat × Score)` (keys pairwise
  distinct, order irrelevant: every clause is stated up to `List.Perm`); `AStep`/`ARun` = the outputs the
  abstract queue allows (`pop` removes SOME entry of maximal score).
* abstract partition = equivalence closure `Conn pairs` of the merged pairs.
-/
namespace WhVerif.C18

theorem parent_le (i : Nat) : parent i ≤ i := by unfold parent; omega

/-- representation invariant of `PQ` -/
structure Inv (q : PQ) : Prop where
  /-- heap order: no entry is strictly greater than its parent -/
  heapOrd : ∀ i (hi : i < q.heap.size), 0 < i →
    scoreLower (q.heap[parent i]'(Nat.lt_of_le_of_lt (parent_le i) hi)).score (q.heap[i]).score = false
  /-- the position map sends the item stored at index `i` to `i` -/
  posOfHeap : ∀ i (hi : i < q.heap.size), posGet q.pos (q.heap[i]).item = some i
  /-- every key of the position map points to an in-range index holding that item -/
  heapOfPos : ∀ item idx, posGet q.pos item = some idx → ∃ h : idx < q.heap.size, (q.heap[idx]).item = item

/-! ## abstract queue -/

abbrev AMap := List (Nat × Score)

/-- the abstract map represented by a concrete queue: the heap's entries -/
def PQ.entries (q : PQ) : AMap := q.heap.toList.map (fun e => (e.item, e.score))

def AMap.keys (M : AMap) : List Nat := M.map (·.1)

/-- `AStep M op M' o`: from abstract map `M`, operation `op` may answer `o` and lead to `M'`. -/
inductive AStep : AMap → Op → AMap → Out → Prop
  | push {M M' s item} : item ∉ M.keys → M'.Perm ((item, s) :: M) → AStep M (.push s item) M' .unit
  | pushQueued {M s item} : item ∈ M.keys → AStep M (.push s item) M .misuse
  | popEmpty : AStep [] .pop [] .empty
  | pop {M M' s item} : M.Perm ((item, s) :: M') → (∀ p ∈ M, scoreLower s p.2 = false) →
      AStep M .pop M' (.popped s item)
  | change {M M' R item old s} : M.Perm ((item, old) :: R) → M'.Perm ((item, s) :: R) →
      AStep M (.change item s) M' .unit
  | changeAbsent {M item s} : item ∉ M.keys → AStep M (.change item s) M .misuse
  | getSome {M item s} : (item, s) ∈ M → AStep M (.get item) M (.score (some s))
  | getNone {M item} : item ∉ M.keys → AStep M (.get item) M (.score none)
  | len {M} : AStep M .len M (.len M.length)
  | isEmpty {M} : AStep M .isEmpty M (.isEmpty M.isEmpty)

/-- histories of the abstract queue -/
inductive ARun : AMap → List Op → List Out → Prop
  | nil {M} : ARun M [] []
  | cons {M M' op o ops outs} : AStep M op M' o → ARun M' ops outs → ARun M (op :: ops) (o :: outs)

/-- state after a history -/
def exec (q : PQ) : List Op → PQ
  | [] => q
  | op :: ops => exec (step q op).1 ops

/-- deterministic replay of the abstract map from an operation and the answer that was given
(the answer tells which item a `pop` removed; `misuse`/`empty` answers leave the map unchanged) -/
def replayStep (M : AMap) : Op → Out → AMap
  | .push s item, .unit => (item, s) :: M
  | .pop, .popped _ item => M.filter (fun p => p.1 != item)
  | .change item s, .unit => (item, s) :: M.filter (fun p => p.1 != item)
  | _, _ => M

/-- the items queued and the scores last assigned to them after a history with given answers -/
def replay (M : AMap) : List Op → List Out → AMap
  | op :: ops, o :: outs => replay (replayStep M op o) ops outs
  | _, _ => M

/-- what the abstract queue holding exactly `M` (keys distinct) may answer to `op` -/
def Allowed (M : AMap) : Op → Out → Prop
  | .push _ item, o => if item ∈ M.keys then o = .misuse else o = .unit
  | .pop, o => (M = [] ∧ o = .empty) ∨
      ∃ s item, o = .popped s item ∧ (item, s) ∈ M ∧ ∀ p ∈ M, scoreLower s p.2 = false
  | .change item _, o => if item ∈ M.keys then o = .unit else o = .misuse
  | .get item, o => o = .score (M.lookup item)
  | .len, o => o = .len M.length
  | .isEmpty, o => o = .isEmpty M.isEmpty

/-! ## union-find -/

/-- abstract partition: equivalence closure of the merged pairs -/
inductive Conn (pairs : List (Nat × Nat)) : Nat → Nat → Prop
  | edge {a b} : (a, b) ∈ pairs → Conn pairs a b
  | refl (a) : Conn pairs a a
  | symm {a b} : Conn pairs a b → Conn pairs b a
  | trans {a b c} : Conn pairs a b → Conn pairs b c → Conn pairs a c

def UF.isKey (u : UF) (v : Nat) : Prop := u.parentOf v ≠ none

/-- every stored parent value is strictly smaller than the node's value and is itself a key -/
def UF.ParentLt (u : UF) : Prop :=
  ∀ v p, u.parentOf v = some (some p) → p < v ∧ u.parentOf p ≠ none

/-- fuel-free "climbing from `v` ends in the root `r`" -/
inductive UF.RootOf (u : UF) : Nat → Nat → Prop
  | root {v} : u.parentOf v = some none → UF.RootOf u v v
  | step {v p r} : u.parentOf v = some (some p) → UF.RootOf u p r → UF.RootOf u v r

/-- representation invariant of the component finder w.r.t. the initial values and the pairs merged so far -/
structure UInv (values : List Nat) (pairs : List (Nat × Nat)) (u : UF) : Prop where
  keys : ∀ v, u.parentOf v ≠ none ↔ v ∈ values
  parentLt : u.ParentLt
  /-- every parent link stays inside a class -/
  sound : ∀ v p, u.parentOf v = some (some p) → Conn pairs v p
  /-- merged elements have the same root -/
  complete : ∀ a b, (a, b) ∈ pairs → u.root a = u.root b
  pairKeys : ∀ a b, (a, b) ∈ pairs → a ∈ values ∧ b ∈ values

/-- a sequence of merges; `none` as soon as one merge raises -/
def UF.mergeAll (u : UF) : List (Nat × Nat) → Option UF
  | [] => some u
  | (x, y) :: ps => match u.merge x y with
    | none => none
    | some u' => u'.mergeAll ps

/-- histories of the component finder: merges and finds interleaved (finds compress paths) -/
inductive UOp where
  | merge (x y : Nat)
  | find (x : Nat)
deriving Repr

/-- `none` = the operation raised (KeyError / assertion), state unchanged -/
def UF.step (u : UF) : UOp → UF × Option (Option Nat)
  | .merge x y => match u.merge x y with
    | none => (u, none)
    | some u' => (u', some none)
  | .find x => match u.find x with
    | none => (u, none)
    | some (u', r) => (u', some (some r))

def UF.run (u : UF) : List UOp → List (Option (Option Nat))
  | [] => []
  | op :: ops => let (u', o) := u.step op; o :: UF.run u' ops

def UF.exec (u : UF) : List UOp → UF
  | [] => u
  | op :: ops => UF.exec (u.step op).1 ops

/-- the pairs successfully merged in a history, threading the state -/
def UF.mergedPairs (u : UF) : List UOp → List (Nat × Nat)
  | [] => []
  | .merge x y :: ops => match u.merge x y with
    | none => UF.mergedPairs u ops
    | some u' => (x, y) :: UF.mergedPairs u' ops
  | .find x :: ops => UF.mergedPairs (u.step (.find x)).1 ops

end WhVerif.C18

import WhVerif.Model.C06
import WhVerif.Spec.C06NoRef
/-!
# C06 spec helpers for the indel theorems (core Lean only)

* `isMatchOp`  — a CIGAR operation M/=/X (the only operations an error-free read may have inside the re-alignment
                 window besides the D/I of the variant itself)
* `hapOf`      — the haplotype carrying allele `a` of the variant `(pos, |REF| = L)` on reference `R`
* `qualSum`    — the sum of the base qualities of `n` query bases from `q` on (30 each without qualities): what the
                 no-reference match handler accumulates for a multi-base allele
-/
namespace WhVerif.C06

def isMatchOp (p : Nat × Nat) : Bool := isMatch p.1

/-- the re-alignment window ends here: only soft/hard clips up to the end of the read, or — with the repaired
`cigar_prefix_length` (`f14`) — up to a reference skip -/
def endsWindow (f14 : Bool) : Cigar → Bool
  | [] => true
  | (op, _) :: rest => if op == 4 || op == 5 then endsWindow f14 rest else (f14 && op == 3)

def hapOf (R : Seq) (pos L : Nat) (a : Seq) : Seq := R.take pos ++ a ++ R.drop (pos + L)

def qualSum (quals : Option (List Nat)) : Nat → Nat → Nat
  | _, 0 => 0
  | q, n + 1 => qualAt quals q + qualSum quals (q + 1) n

/-- the quality the no-reference detector reports for the call of an isolated deletion/insertion: the mean base quality
of the matched REF bases of a deletion (query bases `q …`), 30 in every other case -/
def indelQuality (quals : Option (List Nat)) (h : Nat) (ref : Seq) (q : Nat) : Nat :=
  if h = 0 ∧ 0 < ref.length then qualSum quals q ref.length / ref.length else 30

end WhVerif.C06

import WhVerif.Model.C01Witness
import WhVerif.Spec.C01
/-!
# C05, solver side: the super reads of the `PedigreeDPTable` model (C01), as the code computes them

`PedigreeDPTable::get_super_reads`: for every column `c`, a `PedigreeColumnCostComputer` is set up for the
transmission value `τ_c` of the back-traced path, `set_partitioning(index_c)` (the optimal bipartition restricted
to the reads active in `c`), and `get_alleles()` gives per individual `(allele0, allele1)` (3 = `EQUAL_SCORES`),
which become the entries of the two super reads of that individual at `positions[c]`.

Core Lean only.  Also: the (Prop-level) side conditions on a C01 instance used by the C05 theorem — the pedigree
is a pedigree (members in range, every child has ONE trio, no cycles) and what "heterozygous"/"homozygous" mean
for the trusted-genotype constraint table `geno` of the instance.
-/
namespace WhVerif.C05.Solver
open WhVerif.C01

/-- `get_alleles()` of column `c` for the witness `(β, τ)`; `none` = `runtime_error("Mendelian conflict")` -/
def superReadColumn (I : Inst) (β : List Bool) (τ : List Nat) (c : Nat) : Option (List (Nat × Nat)) :=
  getAlleles I c (restrict β (I.activeAt c)) (τ.getD c 0)

/-- all columns of `get_super_reads` (column-major: `cols[c][ind] = (allele0, allele1)`); `none` = the solver
raised (no feasible solution, or `get_alleles` raised in some column) -/
def solverColumns (I : Inst) : Option (List (List (Nat × Nat))) :=
  match witness I with
  | none => none
  | some (β, τ) =>
    let cols := (List.range I.ncols).map (superReadColumn I β τ)
    if cols.all Option.isSome then some (cols.map (·.getD [])) else none

/-- the pair of super reads of individual `ind` as the list `(position, allele0, allele1)` the writer looks up
(`positions[c]` = genomic position of column `c`) -/
def solverSuperReads (I : Inst) (positions : List Nat) (ind : Nat) : Option (List (Nat × Nat × Nat)) :=
  (solverColumns I).map (fun cols => (positions.zip cols).map (fun pc => (pc.1, pc.2.getD ind (0, 0))))

/-- the pedigree of the instance is one `PedigreePartitions` handles: members are individuals, every child has
exactly one trio, and there is no cycle (`gen` = a generation number increasing from parents to child; on a cyclic
pedigree the C++ recursion does not terminate) -/
structure PedOK (I : Inst) : Prop where
  members : ∀ tr ∈ I.trios, tr.1 < I.nind ∧ tr.2.1 < I.nind ∧ tr.2.2 < I.nind
  oneTrio : ∀ k k' f m f' m' ch : Nat, I.trios[k]? = some (f, m, ch) → I.trios[k']? = some (f', m', ch) → k = k'
  acyclic : ∃ gen : Nat → Nat, (∀ tr ∈ I.trios, gen tr.1 < gen tr.2.2 ∧ gen tr.2.1 < gen tr.2.2) ∧
    ∀ i, i < I.nind → gen i ≤ I.nind

/-- trusted genotype of `ind` in column `c` is heterozygous 0/1: 0 and 2 ALT alleles are incompatible -/
def HetAt (I : Inst) (ind c : Nat) : Prop := gcost I ind c 0 = none ∧ gcost I ind c 2 = none

/-- trusted genotype of `ind` in column `c` is homozygous `x/x`: only `2x` ALT alleles are compatible -/
def HomAt (I : Inst) (ind c x : Nat) : Prop := x ≤ 1 ∧ ∀ j, j ≠ 2 * x → gcost I ind c j = none

/-- allele `a` occurs in a genotype that the constraint table allows for `ind` in column `c` -/
def HasAllele (I : Inst) (ind c a : Nat) : Prop := gcost I ind c 1 ≠ none ∨ gcost I ind c (2 * a) ≠ none

end WhVerif.C05.Solver

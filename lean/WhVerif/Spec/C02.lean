import WhVerif.Spec.C01
import WhVerif.Model.C01Witness
/-!
# C02 spec: error-free instances of the exact MEC solver, read connectivity

`ErrFree I hap src`: the instance seen by the solver is a single-individual, all-heterozygous instance whose
reads are error-free copies of the two true haplotypes (`hap c` on haplotype 0, `1 - hap c` on haplotype 1);
`src r` says which true haplotype read `r` was drawn from.  Core Lean only.
-/
namespace WhVerif.C02
open WhVerif.C01 WhVerif.Cost

structure ErrFree (I : Inst) (hap : Nat → Nat) (src : Nat → Bool) : Prop where
  /-- one individual, no trios (so `ntrans = 1`, two partitions) -/
  nind : I.nind = 1
  trios : I.trios = []
  /-- trusted heterozygous genotype in every column -/
  het : ∀ c, c < I.ncols → gcost I 0 c 1 = some 0 ∧ gcost I 0 c 0 = none ∧ gcost I 0 c 2 = none
  /-- the truth is biallelic: haplotype 0 carries `hap c ∈ {0,1}`, haplotype 1 carries `1 - hap c` -/
  hap01 : ∀ c, c < I.ncols → hap c ≤ 1
  ind0 : ∀ r, r < I.nreads → (I.read r).ind = 0
  /-- at most one entry per column -/
  nodup : ∀ r, r < I.nreads → ((I.read r).entries.map (fun e => e.1)).Nodup
  /-- every entry lies in the read's span and in the column range, has positive weight and carries the allele
  of the true haplotype `src r` -/
  entries : ∀ r, r < I.nreads → ∀ e ∈ (I.read r).entries,
    (I.read r).first ≤ e.1 ∧ e.1 ≤ (I.read r).last ∧ e.1 < I.ncols ∧ 0 < e.2.2 ∧
      e.2.1 = (if src r then 1 - hap e.1 else hap e.1)

/-- read `r` has an entry at column `c` -/
def covers (I : Inst) (r c : Nat) : Prop := (I.read r).entryAt c ≠ none

instance (I : Inst) (r c : Nat) : Decidable (covers I r c) := by unfold covers; infer_instance

/-- two reads share a column -/
def Linked (I : Inst) (r1 r2 : Nat) : Prop := ∃ c, covers I r1 c ∧ covers I r2 c

/-- reflexive-transitive closure of `Linked` over the reads `< I.nreads` -/
inductive Connected (I : Inst) : Nat → Nat → Prop
  | refl (r : Nat) : r < I.nreads → Connected I r r
  | step {r1 r2 r3 : Nat} : Connected I r1 r2 → r3 < I.nreads → Linked I r2 r3 → Connected I r1 r3

/-- the bipartition that puts every read on its true haplotype -/
def truthPartition (I : Inst) (src : Nat → Bool) : List Bool := (List.range I.nreads).map src

end WhVerif.C02

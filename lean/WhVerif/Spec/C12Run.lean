import WhVerif.Model.C12
import WhVerif.Model.C12Run
import WhVerif.Spec.C12
/-! Independent yard-sticks for the parts of C12 added with `Model/C12Run.lean` (core Lean only):
the records the reader must keep, the defining property of N50, the maximal runs the GTF writer must report. -/
namespace WhVerif.C12

/-! ### the reader -/

/-- a record the reader turns into a variant unless its position was already taken: exactly one ALT allele, and with
`--only-snvs` one base against one base -/
def eligible (onlySnvs : Bool) (r : Rec) : Bool := r.alts.length == 1 && !(onlySnvs && !snvLike r)

/-- the first record of every position, order kept -/
def dedupPos : List Rec → List Rec
  | [] => []
  | r :: rs => r :: (dedupPos rs).filter (fun x => x.pos != r.pos)

/-- the variant `stats` sees for a record -/
def toVar (f : Flags) (r : Rec) : Var := ⟨r.pos, isSnvVariant r, genoOf r.gt, phaseOf f r⟩

/-- what the reader must deliver for one chromosome -/
def specVars (f : Flags) (onlySnvs : Bool) (recs : List Rec) : List Var :=
  (dedupPos (recs.filter (eligible onlySnvs))).map (toVar f)

/-! ### N50 -/

/-- summed length of the pieces at least as long as `r` -/
def sumGe (l : List Nat) (r : Nat) : Nat := (l.filter (fun x => decide (r ≤ x))).sum
/-- summed length of the pieces longer than `r` -/
def sumGt (l : List Nat) (r : Nat) : Nat := (l.filter (fun x => decide (r < x))).sum

/-- `r` is the N50 of `lengths` with respect to `target`: the pieces at least as long as `r` reach half of the target,
the pieces longer than `r` do not (0 if even all pieces together do not reach it) -/
def IsN50 (lengths : List Nat) (target r : Nat) : Prop :=
  if lengths = [] ∨ 2 * lengths.sum < target then r = 0
  else r ∈ lengths ∧ target ≤ 2 * sumGe lengths r ∧ (2 * sumGt lengths r < target ∨ sumGt lengths r = 0)

/-! ### GTF -/

/-- maximal runs of consecutive phased calls with the same phase-set id -/
def runsOf : List (BlockId × Member) → List (List (BlockId × Member))
  | [] => []
  | x :: rest =>
    match runsOf rest with
    | (y :: r) :: rs => if x.1 == y.1 then (x :: y :: r) :: rs else [x] :: (y :: r) :: rs
    | _ => [[x]]

/-- the GTF feature of a run: 1-based position of its first call, 1-based position of its last call, its id -/
def runRow : List (BlockId × Member) → Option (Nat × Nat × Nat)
  | [] => none
  | x :: r =>
    match x.1 with
    | some k => some (x.2.1 + 1, ((x :: r).getLast?.getD x).2.1 + 1, k)
    | none => none

/-- neighbouring runs belong to different phase sets -/
def AdjDiff : List (List (BlockId × Member)) → Prop
  | a :: b :: rest => (∀ x ∈ a, ∀ y ∈ b, x.1 ≠ y.1) ∧ AdjDiff (b :: rest)
  | _ => True

/-! ### the splitting loop with an arbitrary sorting routine -/

/-- the loop of `get_nonoverlapping_blocks` with an arbitrary sorting routine in place of `sortBlocks` -/
def nonoverlapLoopG (sort : List Block → List Block) : Nat → List Block → Option (List Block)
  | 0, _ => none
  | _ + 1, [] => some []
  | _ + 1, [b] => some [b]
  | n + 1, b :: nxt :: rest =>
    if hi b > lo nxt then
      let (left, right) := splitBlock b (lo nxt) (hi nxt)
      let q' := if right.length > 1 then sort (right :: nxt :: rest) else nxt :: rest
      if left.length < 2 then nonoverlapLoopG sort n q'
      else (nonoverlapLoopG sort n q').map (left :: ·)
    else (nonoverlapLoopG sort n (nxt :: rest)).map (b :: ·)

def nonoverlapG (sort : List Block → List Block) (blocks : List Block) : Option (List Block) :=
  nonoverlapLoopG sort (totalLen (sort (bigOf blocks)) + 1) (sort (bigOf blocks))

/-- a routine that returns its argument sorted by leftmost position (any tie-breaking, any algorithm) -/
def IsSort (sort : List Block → List Block) : Prop := ∀ l, (sort l).Perm l ∧ QSorted (sort l)


end WhVerif.C12

import WhVerif.Lemmas.C12
import WhVerif.Lemmas.C12Run
/-!
# C12: the block lengths of an aggregated `PhasingStats` object

`__iadd__` concatenates `split_blocks`; `get_detailed_stats` takes the lengths of *all* of them (no identification of
pieces by coordinates): the sorted length list of the sum is a permutation of the concatenated length lists of the summands.
-/
namespace WhVerif.Lemmas.C12
open WhVerif.C12

theorem sortNat_perm' (l : List Nat) : (sortNat l).Perm l := List.mergeSort_perm _ _

theorem sortNat_sorted' (l : List Nat) : (sortNat l).Pairwise (· ≤ ·) := by
  have := List.pairwise_mergeSort (le := fun a b : Nat => decide (a ≤ b))
    (by intro a b c h1 h2; simp only [decide_eq_true_eq] at *; omega)
    (by intro a b; simp only [Bool.or_eq_true, decide_eq_true_eq]; omega) l
  simpa [sortNat] using this

/-- the reported lengths are the spans of the split blocks of more than one variant, sorted -/
theorem lengths_perm (s : Stats) (hc : s.Consistent) :
    (detailed s).lengths.Perm ((bigOf s.splitBlocks).map span) := by
  unfold detailed
  split
  · rename_i he
    have hb : bigOf s.blocks = [] := by simpa using he
    have h2 := hc hb
    have h3 : bigOf s.splitBlocks = [] := h2
    rw [h3]
    exact List.Perm.refl _
  · exact sortNat_perm' _

theorem lengths_sorted (s : Stats) : (detailed s).lengths.Pairwise (· ≤ ·) := by
  unfold detailed
  split
  · exact List.Pairwise.nil
  · exact sortNat_sorted' _

theorem foldl_addStats_consistent : ∀ (ss : List Stats) (acc : Stats), acc.Consistent → (∀ s ∈ ss, s.Consistent) →
    (ss.foldl addStats acc).Consistent
  | [], _, ha, _ => ha
  | s :: ss, acc, ha, hs =>
    foldl_addStats_consistent ss (addStats acc s)
      (consistent_add acc s ha (hs s (List.mem_cons_self ..))) (fun t ht => hs t (List.mem_cons_of_mem _ ht))

theorem bigOf_flatMap (ss : List Stats) :
    (bigOf (ss.flatMap (·.splitBlocks))).map span = ss.flatMap (fun s => (bigOf s.splitBlocks).map span) := by
  induction ss with
  | nil => rfl
  | cons s ss ih => simp only [List.flatMap_cons, bigOf_append, List.map_append, ih]

theorem flatMap_perm {α β : Type} (f g : α → List β) : ∀ (l : List α), (∀ a ∈ l, (f a).Perm (g a)) →
    (l.flatMap f).Perm (l.flatMap g)
  | [], _ => List.Perm.refl _
  | a :: l, h => by
    simp only [List.flatMap_cons]
    exact (h a (List.mem_cons_self ..)).append (flatMap_perm f g l (fun b hb => h b (List.mem_cons_of_mem _ hb)))

/-- the lengths of the aggregate = the length lists of the summands, concatenated (as multisets), and sorted -/
theorem all_lengths_perm (ss : List Stats) (hc : ∀ s ∈ ss, s.Consistent) :
    (detailed (ss.foldl addStats {})).lengths.Perm (ss.flatMap (fun s => (detailed s).lengths)) := by
  have h1 := lengths_perm _ (foldl_addStats_consistent ss {} consistent_empty hc)
  rw [foldl_addStats_split] at h1
  have h0 : ({} : Stats).splitBlocks = [] := rfl
  rw [h0, List.nil_append, bigOf_flatMap] at h1
  exact h1.trans (flatMap_perm _ _ ss (fun s hs => (lengths_perm s (hc s hs)).symm))

/-! ### witness: twin chromosomes — the same piece (100, 200) on two chromosomes -/

def twinVars : List Var := [⟨100, true, .het, some (some 7)⟩, ⟨200, true, .het, some (some 7)⟩]
def twinStats : Stats :=
  { blocks := [[(100, true), (200, true)]], splitBlocks := [[(100, true), (200, true)]], unphased := 0, variants := 2, het := 2,
    hetSnvs := 2 }
/-- two chromosomes with identical records: one phase set with variants at 100 and 200 each -/
def twinRun : RunIn :=
  { flags := ⟨true, true⟩, dedupGiven := true, onlySnvs := false, wantBl := true, indexed := false,
    contigs := ["c1", "c2"], lens := [], given := [],
    file := [("c1", [exRec 100 7, exRec 200 7]), ("c2", [exRec 100 7, exRec 200 7])] }

theorem twin_read : readChrom ⟨true, true⟩ false [exRec 100 7, exRec 200 7] = .ok twinVars := by rfl
theorem twin_stats : chromStats ⟨true, true⟩ twinVars = some twinStats := by
  simp [chromStats, twinVars, twinStats, considered, phasedOf, blocksOf, dedupIds, nonoverlap, bigOf, sortBlocks, nonoverlapLoop,
    totalLen]

theorem sortNat_sorted_id (l : List Nat) (h : l.Pairwise (· ≤ ·)) : sortNat l = l := by
  unfold sortNat
  apply List.mergeSort_of_pairwise
  exact h.imp (fun hab => by simpa using hab)

theorem twin_all_lengths : (detailed (addStats (addStats { } twinStats) twinStats)).lengths = [100, 100] := by
  have e : sortNat [100, 100] = [100, 100] := sortNat_sorted_id _ (by simp)
  simp [detailed, addStats, twinStats, bigOf, span, hi, lo, e]
theorem twin_all_blocks : (detailed (addStats (addStats { } twinStats) twinStats)).blocks = 2 := by
  have e : sortNat [2, 2] = [2, 2] := sortNat_sorted_id _ (by simp)
  simp [detailed, addStats, twinStats, bigOf, e]
theorem twin_lengths : (detailed twinStats).lengths = [100] := by
  simp [detailed, twinStats, bigOf, span, hi, lo, sortNat]

theorem twinRun_ok : ∃ o a, run twinRun = .ok o ∧ o.all = some a ∧ o.parts.map (fun p => (detailed p.stats).lengths) = [[100], [100]] ∧
    (detailed a).lengths = [100, 100] ∧ (detailed a).blocks = 2 := by
  refine ⟨⟨[⟨"c1", twinVars, twinStats⟩, ⟨"c2", twinVars, twinStats⟩], ["c1", "c2"], some (addStats (addStats {} twinStats) twinStats)⟩,
    addStats (addStats {} twinStats) twinStats, ?_, rfl, by simp [twin_lengths], twin_all_lengths, twin_all_blocks⟩
  simp [run, twinRun, unpackChromosomes, tables, twin_read, runLoop, skipped, allGivenSeen, addSeen, twin_stats, totalStats]
  simp [twinVars, phasedOf, considered, blocksOf, dedupIds, blockList, idLe]

end WhVerif.Lemmas.C12

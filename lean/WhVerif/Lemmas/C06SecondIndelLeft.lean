import WhVerif.Lemmas.C06SecondIndel
/-!
The window lemma with a SECOND deletion / insertion of the read's haplotype inside the LEFT half of the window — the
mirror of `window_second_indel_right`.  The left prefix of the split now has different reference and query lengths
`(lr, lq)`, so `window_core2` is generalised first (`window_core3`).
-/
namespace WhVerif.C06

/-- the window of `realign` from the two halves of the split and their prefix lengths, the left prefix having
different reference (`lr`) and query (`lq`) lengths — no assumption on the bases of the read -/
theorem window_core3 (f14 : Bool) (R query : Seq) (pos : Nat) (ref : Seq) (alts : List Seq) (cigar : Cigar)
    (i d qp oh : Nat) (Lc Rc : Cigar) (lr lq rr rq : Nat)
    (hl : splitLeft cigar i d = .ok Lc) (hpl : cigarPrefixLength f14 Lc oh = .ok (lr, lq))
    (hr : splitRight cigar i d = .ok Rc) (hpr : cigarPrefixLength f14 Rc (ref.length + oh) = .ok (rr, rq))
    (hR : slice R pos ref.length = ref)
    (hlr : lr ≤ pos) (hlq : lq ≤ qp) (hLrr : ref.length ≤ rr) (hend : pos + rr ≤ R.length) :
    window f14 ⟨pos, ref, alts⟩ query cigar i d ((qp : Nat) : Int) R oh =
      .ok ⟨slice query (qp - lq) (lq + rq),
           (ref :: alts).map (fun x => slice R (pos - lr) lr ++ x ++ slice R (pos + ref.length) (rr - ref.length))⟩ := by
  have hposR : pos ≤ R.length := by omega
  have hA1 : ¬ pos < lr := by omega
  have hA2 : ¬ pos + rr > R.length := by omega
  simp only [window, hl, hpl, hr, hpr, hA1, hA2, if_false, List.map_cons]
  have i1 : ((qp : Nat) : Int) - (lq : Int) = ((qp - lq : Nat) : Int) := by omega
  have i2 : ((qp : Nat) : Int) + (rq : Int) = ((qp + rq : Nat) : Int) := by omega
  have i3 : (pos : Int) - (lr : Int) = ((pos - lr : Nat) : Int) := by omega
  have i4 : (pos : Int) + (ref.length : Int) = ((pos + ref.length : Nat) : Int) := by omega
  have i5 : (pos : Int) + (rr : Int) = ((pos + rr : Nat) : Int) := by omega
  rw [i1, i2, i3, i4, i5]
  simp only [pySlice_nat]
  have e1 : pos - (pos - lr) = lr := by omega
  have e2 : pos + rr - (pos + ref.length) = rr - ref.length := by omega
  have e3 : pos + rr - (pos - lr) = (pos - (pos - lr)) + rr := by omega
  have e4 : qp + rq - (qp - lq) = lq + rq := by omega
  rw [e1, e2, e4]
  have hRd := ref_decomp R ref pos hR
  have hpadref : slice R (pos - lr) (pos + rr - (pos - lr)) =
      slice R (pos - lr) lr ++ ref ++ slice R (pos + ref.length) (rr - ref.length) := by
    rw [e3]
    conv => lhs; rw [hRd]
    have := slice_hap R ref pos ref.length (pos - lr) rr (by omega) hposR hLrr
    rw [this, e1]
  rw [hpadref]

/-- the left half of the split read backwards: M/=/X run `Ms` (`l0` reference bases), the second deletion (`uop = 2`)
or insertion (`uop = 1`) lying entirely inside the overhang, M/=/X run `W1a` reaching the overhang (or the end of the
window) -/
theorem prefix_left_second (f : Bool) (oh : Nat) (Ms W1a Ar : Cigar) (uop L l0 : Nat) (uq : Seq)
    (hMs : Ms.all isMatchOp = true) (hMr : refLen Ms = l0) (hW1a : W1a.all isMatchOp = true)
    (hu : uop = 2 ∨ uop = 1) (huq : uq.length = if uop = 1 then L else 0)
    (hk : l0 + (if uop = 2 then L else 0) < oh)
    (hreach : oh ≤ l0 + (if uop = 2 then L else 0) + refLen W1a ∨ endsWindow f Ar = true) :
    cigarPrefixLength f (Ms ++ (uop, L) :: (W1a.reverse ++ Ar)) oh =
      .ok (l0 + (if uop = 2 then L else 0) +
             (min oh (l0 + (if uop = 2 then L else 0) + refLen W1a) - (l0 + (if uop = 2 then L else 0))),
           l0 + uq.length +
             (min oh (l0 + (if uop = 2 then L else 0) + refLen W1a) - (l0 + (if uop = 2 then L else 0)))) := by
  have hW1ar : W1a.reverse.all isMatchOp = true := by rw [all_reverse]; exact hW1a
  unfold cigarPrefixLength
  rw [prefixGo_second f oh Ms W1a.reverse Ar uop L 0 0 hMs hW1ar hu (by rw [hMr]; omega)
    (by rw [hMr, refLen_reverse]; exact hreach.elim (fun h => Or.inl (by omega)) Or.inr)]
  rw [hMr, refLen_reverse, huq]
  generalize (if uop = 2 then L else 0) = Ld at *
  congr 2 <;> omega

/-- final assembly, shared by the three shapes of the variant's own operation: given the two splits and their prefix
lengths, with the left walk crossing the second indel (`Ld` reference bases deleted / `uq` inserted) after `l0`
reference bases before the variant and ending `m1` bases before it -/
theorem window_second_left_assemble (f14 : Bool) (R query : Seq) (pos : Nat) (ref a uq : Seq) (alts : List Seq)
    (cigar : Cigar) (i d oh : Nat) (Lc Rc : Cigar) (l0 Ld m1 m2 nW sA : Nat) (Y : Seq)
    (hl : splitLeft cigar i d = .ok Lc)
    (hpl : cigarPrefixLength f14 Lc oh = .ok (l0 + Ld + m1, l0 + uq.length + m1))
    (hr : splitRight cigar i d = .ok Rc)
    (hpr : cigarPrefixLength f14 Rc (ref.length + oh) = .ok (ref.length + m2, a.length + m2))
    (hR : slice R pos ref.length = ref) (hm1 : m1 ≤ nW) (hnW : nW + Ld + l0 ≤ pos)
    (hend : pos + ref.length + m2 ≤ R.length)
    (hY : slice Y 0 m2 = slice R (pos + ref.length) m2) (hm2 : m2 ≤ Y.length)
    (hq : slice query sA (nW + (uq.length + l0 + a.length) + Y.length) =
      slice R (pos - l0 - Ld - nW) nW ++ (uq ++ slice R (pos - l0) l0 ++ a) ++ Y) :
    window f14 ⟨pos, ref, alts⟩ query cigar i d ((sA + nW + uq.length + l0 : Nat) : Int) R oh
      = .ok ⟨slice R (pos - l0 - Ld - m1) m1 ++ uq ++ slice R (pos - l0) l0 ++ a ++ slice R (pos + ref.length) m2,
             (ref :: alts).map (fun x => slice R (pos - l0 - Ld - m1) m1 ++ slice R (pos - l0 - Ld) Ld
               ++ slice R (pos - l0) l0 ++ x ++ slice R (pos + ref.length) m2)⟩ := by
  have hw := window_core3 f14 R query pos ref alts cigar i d (sA + nW + uq.length + l0) oh Lc Rc
    (l0 + Ld + m1) (l0 + uq.length + m1) (ref.length + m2) (a.length + m2) hl hpl hr hpr hR
    (by omega) (by omega) (by omega) (by omega)
  rw [hw]
  have hXlen : (slice R (pos - l0 - Ld - nW) nW).length = nW := slice_length _ _ _ (by omega)
  have hglen : (slice R (pos - l0) l0).length = l0 := slice_length _ _ _ (by omega)
  -- the query slice
  have hqs : slice query (sA + nW + uq.length + l0 - (l0 + uq.length + m1)) (l0 + uq.length + m1 + (a.length + m2)) =
      slice R (pos - l0 - Ld - m1) m1 ++ uq ++ slice R (pos - l0) l0 ++ a ++ slice R (pos + ref.length) m2 := by
    have h1 := slice_slice query sA (nW + (uq.length + l0 + a.length) + Y.length) (nW - m1)
      (m1 + (uq.length + l0 + a.length) + m2) (by omega)
    have e0 : sA + nW + uq.length + l0 - (l0 + uq.length + m1) = sA + (nW - m1) := by omega
    have e1 : l0 + uq.length + m1 + (a.length + m2) = m1 + (uq.length + l0 + a.length) + m2 := by omega
    rw [e0, e1, ← h1, hq]
    have h3 := slice_three (slice R (pos - l0 - Ld - nW) nW) (uq ++ slice R (pos - l0) l0 ++ a) Y m1 m2 (by omega)
    rw [hXlen] at h3
    have eM : (uq ++ slice R (pos - l0) l0 ++ a).length = uq.length + l0 + a.length := by
      simp [hglen]; omega
    rw [eM] at h3
    rw [h3, slice_slice R (pos - l0 - Ld - nW) nW (nW - m1) m1 (by omega), hY]
    have e2 : pos - l0 - Ld - nW + (nW - m1) = pos - l0 - Ld - m1 := by omega
    rw [e2]
    simp [List.append_assoc]
  -- the left reference pad
  have hpad : slice R (pos - (l0 + Ld + m1)) (l0 + Ld + m1) =
      slice R (pos - l0 - Ld - m1) m1 ++ slice R (pos - l0 - Ld) Ld ++ slice R (pos - l0) l0 := by
    have e : l0 + Ld + m1 = m1 + Ld + l0 := by omega
    have ep : pos - (m1 + Ld + l0) = pos - l0 - Ld - m1 := by omega
    rw [e, ep, slice_add, slice_add]
    have e1 : pos - l0 - Ld - m1 + m1 = pos - l0 - Ld := by omega
    have e2 : pos - l0 - Ld - m1 + (m1 + Ld) = pos - l0 := by omega
    rw [e1, e2]
  have hrp : ref.length + m2 - ref.length = m2 := by omega
  rw [hqs, hpad, hrp]

/-- the window lemma with a second deletion (`uop = 2`, `L` reference bases from `upos = pos - l0 - Ld` on) or insertion
(`uop = 1`, bases `uq`) of the read's haplotype inside the LEFT half of the window: CIGAR
`A ++ W1a ++ [(uop, L)] ++ W1b ++ [(op, len)] ++ W2 ++ B` with `W1a`, `W1b`, `W2` runs of M/=/X operations; `(op, len)` is
the operation of the variant under re-alignment (shapes as in `window_second_indel_right`; `r0` = reference bases from
the variant position to the end of that operation); `l0 = refLen W1b + d` reference bases lie between the end of the
second indel and the variant position; the read's bases are a copy of the haplotype carrying allele `a` at the variant
and the non-reference allele at the second indel (`hq`).  Then
`query = lp ++ uq ++ g ++ a ++ t`, `padded = [lp ++ ur ++ g ++ x ++ t]`, `ur` = the deleted reference bases. -/
theorem window_second_indel_left (f14 : Bool) (R query : Seq) (pos : Nat) (ref a uq : Seq) (alts : List Seq)
    (A W1a W1b W2 B : Cigar) (op len d uop L start oh r0 : Nat) (hoh : 0 < oh)
    (hW1a : W1a.all isMatchOp = true) (hW1b : W1b.all isMatchOp = true) (hW2 : W2.all isMatchOp = true)
    (hu : uop = 2 ∨ uop = 1) (huq : uq.length = if uop = 1 then L else 0)
    (hshape : (isMatch op = true ∧ d < len ∧ d + ref.length ≤ len ∧ a.length = ref.length ∧ r0 = len - d)
      ∨ (op = 2 ∧ a = [] ∧ len = ref.length ∧ d = 0 ∧ 0 < len ∧ r0 = len)
      ∨ (op = 1 ∧ ref = [] ∧ len = a.length ∧ d = 0 ∧ 0 < len ∧ r0 = 0))
    (hpos : pos = start + refLen A + refLen W1a + (if uop = 2 then L else 0) + refLen W1b + d)
    (hR : slice R pos ref.length = ref)
    (hin2 : refLen W1b + d + (if uop = 2 then L else 0) < oh)
    (hin : pos + r0 + refLen W2 ≤ R.length)
    (hleft : oh ≤ refLen W1b + d + (if uop = 2 then L else 0) + refLen W1a ∨ endsWindow f14 A.reverse = true)
    (hright : ref.length + oh ≤ r0 + refLen W2 ∨ endsWindow f14 B = true)
    (hq : slice query (qLen A)
        (refLen W1a + (uq.length + (refLen W1b + d) + a.length) + (r0 - ref.length + refLen W2)) =
      slice R (start + refLen A) (refLen W1a) ++ (uq ++ slice R (pos - (refLen W1b + d)) (refLen W1b + d) ++ a)
        ++ slice R (pos + ref.length) (r0 - ref.length + refLen W2)) :
    ∃ m1 m2, window f14 ⟨pos, ref, alts⟩ query (A ++ W1a ++ (uop, L) :: (W1b ++ (op, len) :: (W2 ++ B)))
        (A ++ W1a ++ (uop, L) :: W1b).length d ((qLen (A ++ W1a ++ (uop, L) :: W1b) + d : Nat) : Int) R oh
      = .ok ⟨slice R (pos - (refLen W1b + d) - (if uop = 2 then L else 0) - m1) m1 ++ uq
               ++ slice R (pos - (refLen W1b + d)) (refLen W1b + d) ++ a ++ slice R (pos + ref.length) m2,
             (ref :: alts).map (fun x => slice R (pos - (refLen W1b + d) - (if uop = 2 then L else 0) - m1) m1
               ++ slice R (pos - (refLen W1b + d) - (if uop = 2 then L else 0)) (if uop = 2 then L else 0)
               ++ slice R (pos - (refLen W1b + d)) (refLen W1b + d) ++ x ++ slice R (pos + ref.length) m2)⟩ := by
  have hq1a := qLen_matches W1a hW1a
  have hq1b := qLen_matches W1b hW1b
  have hW1br : W1b.reverse.all isMatchOp = true := by rw [all_reverse]; exact hW1b
  have hqu : qLen [(uop, L)] = uq.length := by
    rcases hu with rfl | rfl <;> simp [qLen, consumesQuery, isMatch, huq]
  have hqp : qLen (A ++ W1a ++ (uop, L) :: W1b) + d = qLen A + refLen W1a + uq.length + (refLen W1b + d) := by
    have : A ++ W1a ++ (uop, L) :: W1b = A ++ W1a ++ [(uop, L)] ++ W1b := by simp
    rw [this, qLen_append, qLen_append, qLen_append, hq1a, hq1b, hqu]; omega
  generalize hLd : (if uop = 2 then L else 0) = Ld at *
  generalize hl0 : refLen W1b + d = l0 at *
  have hcig : A ++ W1a ++ (uop, L) :: (W1b ++ (op, len) :: (W2 ++ B)) =
      (A ++ W1a ++ (uop, L) :: W1b) ++ (op, len) :: (W2 ++ B) := by simp [List.append_assoc]
  have hrev : ∀ X : Cigar, X ++ (A ++ W1a ++ (uop, L) :: W1b).reverse =
      (X ++ W1b.reverse) ++ (uop, L) :: (W1a.reverse ++ A.reverse) := by
    intro X; simp [List.reverse_append, List.append_assoc]
  have hYlen : (slice R (pos + ref.length) (r0 - ref.length + refLen W2)).length = r0 - ref.length + refLen W2 := by
    apply slice_length
    rcases hshape with ⟨_, _, _, _, _⟩ | ⟨_, _, _, _, _, _⟩ | ⟨_, rfl, _, _, _, _⟩ <;>
      first | omega | (simp only [List.length_nil] at *; omega)
  -- everything that depends on the shape
  have key : ∃ Lc Rc, splitLeft (A ++ W1a ++ (uop, L) :: (W1b ++ (op, len) :: (W2 ++ B)))
        (A ++ W1a ++ (uop, L) :: W1b).length d = .ok Lc ∧
      cigarPrefixLength f14 Lc oh =
        .ok (l0 + Ld + (min oh (l0 + Ld + refLen W1a) - (l0 + Ld)),
             l0 + uq.length + (min oh (l0 + Ld + refLen W1a) - (l0 + Ld))) ∧
      splitRight (A ++ W1a ++ (uop, L) :: (W1b ++ (op, len) :: (W2 ++ B)))
        (A ++ W1a ++ (uop, L) :: W1b).length d = .ok Rc ∧
      ref.length ≤ r0 ∧
      cigarPrefixLength f14 Rc (ref.length + oh) =
        .ok (ref.length + (min (ref.length + oh) (r0 + refLen W2) - ref.length),
             a.length + (min (ref.length + oh) (r0 + refLen W2) - ref.length)) := by
    rw [hcig]
    rcases hshape with ⟨hm, hdl, hd, hal, hr0⟩ | ⟨rfl, rfl, rfl, rfl, h0, hr0⟩ | ⟨rfl, rfl, hl, rfl, h0, hr0⟩
    · have hcr : consumesRef op = true := by simp [consumesRef, hm]
      have hML : ((if d > 0 then [(op, d)] else []) ++ W1b.reverse).all isMatchOp = true := by
        by_cases h : d > 0 <;> simp [h, isMatchOp, hm, hW1br]
      have hMLr : refLen ((if d > 0 then [(op, d)] else []) ++ W1b.reverse) = l0 := by
        by_cases h : d > 0
        · simp [h, refLen, hcr, refLen_reverse]; omega
        · have : d = 0 := by omega
          subst this
          simp [refLen_reverse]; omega
      have hMR : ((op, len - d) :: W2).all isMatchOp = true := by simp [isMatchOp, hm, hW2]
      have hMRr : refLen ((op, len - d) :: W2) = len - d + refLen W2 := by simp [refLen, hcr]
      have hsl := splitLeft_at (A ++ W1a ++ (uop, L) :: W1b) (W2 ++ B) op len d (by omega)
      rw [hrev] at hsl
      have hsr := splitRight_at (A ++ W1a ++ (uop, L) :: W1b) (W2 ++ B) op len d hdl
      have hpl := prefix_left_second f14 oh _ W1a A.reverse uop L l0 uq hML hMLr hW1a hu huq
        (by rw [hLd]; exact hin2) (by rw [hLd]; exact hleft)
      rw [hLd] at hpl
      have hpr := prefix_matches f14 (ref.length + oh) ((op, len - d) :: W2) B hMR (by omega) (by
        rw [hMRr]
        rcases hright with h | h
        · left; omega
        · right; exact h)
      rw [hMRr] at hpr
      rw [show ((op, len - d) :: W2) ++ B = (op, len - d) :: (W2 ++ B) from rfl] at hpr
      refine ⟨_, _, hsl, hpl, hsr, by omega, ?_⟩
      rw [hpr]; congr 2 <;> omega
    · -- the deletion of the variant
      have hsl := splitLeft_at (A ++ W1a ++ (uop, L) :: W1b) (W2 ++ B) 2 ref.length 0 (Nat.zero_le _)
      rw [hrev] at hsl
      have hsr := splitRight_at (A ++ W1a ++ (uop, L) :: W1b) (W2 ++ B) 2 ref.length 0 h0
      simp only [Nat.lt_irrefl, gt_iff_lt, if_false, List.nil_append, Nat.sub_zero] at hsl hsr
      have hpl := prefix_left_second f14 oh _ W1a A.reverse uop L l0 uq hW1br
        (by rw [refLen_reverse]; omega) hW1a hu huq (by rw [hLd]; exact hin2) (by rw [hLd]; exact hleft)
      rw [hLd] at hpl
      have hpr := prefix_del f14 ref.length oh W2 B hoh hW2 (by
        rcases hright with h | h
        · left; omega
        · right; exact h)
      refine ⟨_, _, hsl, hpl, hsr, by omega, ?_⟩
      rw [hpr]; simp only [List.length_nil]; congr 2 <;> omega
    · -- the insertion of the variant
      have hsl := splitLeft_at (A ++ W1a ++ (uop, L) :: W1b) (W2 ++ B) 1 len 0 (Nat.zero_le _)
      rw [hrev] at hsl
      have hsr := splitRight_at (A ++ W1a ++ (uop, L) :: W1b) (W2 ++ B) 1 len 0 h0
      simp only [Nat.lt_irrefl, gt_iff_lt, if_false, List.nil_append, Nat.sub_zero] at hsl hsr
      have hpl := prefix_left_second f14 oh _ W1a A.reverse uop L l0 uq hW1br
        (by rw [refLen_reverse]; omega) hW1a hu huq (by rw [hLd]; exact hin2) (by rw [hLd]; exact hleft)
      rw [hLd] at hpl
      have hpr := prefix_ins f14 len oh W2 B hoh hW2 (by
        rcases hright with h | h
        · left; simp at h; omega
        · right; exact h)
      refine ⟨_, _, hsl, hpl, hsr, by simp, ?_⟩
      simp only [List.length_nil, Nat.zero_add, Nat.sub_zero]
      rw [hpr]; congr 2 <;> omega
  obtain ⟨Lc, Rc, hsl, hpl, hsr, hr0, hpr⟩ := key
  generalize hm1 : min oh (l0 + Ld + refLen W1a) - (l0 + Ld) = m1 at *
  generalize hm2 : min (ref.length + oh) (r0 + refLen W2) - ref.length = m2 at *
  have hw := window_second_left_assemble f14 R query pos ref a uq alts _ _ d oh Lc Rc l0 Ld m1 m2 (refLen W1a) (qLen A)
    (slice R (pos + ref.length) (r0 - ref.length + refLen W2))
    hsl hpl hsr hpr hR (by omega) (by omega) (by omega)
    (by
      rw [slice_slice R _ _ 0 m2 (by omega)]
      rfl)
    (by rw [hYlen]; omega)
    (by
      rw [hYlen]
      have e : pos - l0 - Ld - refLen W1a = start + refLen A := by omega
      rw [e]; exact hq)
  refine ⟨m1, m2, ?_⟩
  rw [hqp]
  rw [hw]

/-! ## the hypotheses are satisfiable; shape of the conclusion on concrete cases -/

private def Rex : Seq := ['A', 'C', 'G', 'T', 'A', 'C', 'G', 'T', 'A', 'C', 'G', 'T', 'A', 'C', 'G', 'T', 'A', 'C', 'G', 'T', 'A', 'C', 'G', 'T', 'A', 'C', 'G', 'T', 'A', 'C', 'G', 'T']
private def qDel : Seq := ['G', 'T', 'A', 'C', 'G', 'T', 'G', 'T', 'A', 'C', 'T', 'T', 'A', 'C', 'G', 'T', 'A', 'C', 'G', 'T']
private def qIns : Seq := ['G', 'T', 'A', 'C', 'G', 'T', 'A', 'A', 'A', 'C', 'G', 'T', 'C', 'C', 'G', 'T', 'A', 'C', 'G', 'T', 'A', 'C']

/-- reference `(ACGT)^8`, read at 2 with `6M2D3M5M6M`, SNV `G>T` at 14 (offset 1 of the `5M`), overhang 7: all the
hypotheses of `window_second_indel_left` hold (second DELETION in the left half) -/
example : True := by
  have := window_second_indel_left false Rex qDel 14 ['G'] ['T'] [] [['T']] [] [(0, 6)] [(0, 3)] [(0, 6)] [] 0 5 1 2 2 2 7 4
    (by decide) (by decide) (by decide) (by decide) (Or.inl rfl) (by decide) (Or.inl (by decide)) (by decide) (by decide)
    (by decide) (by decide) (Or.inl (by decide)) (Or.inl (by decide)) (by decide)
  trivial

/-- the same case evaluated: `m1 = 1`, `m2 = 7`; query `T · · GTAC · T · TACGTAC`, padded `T · AC · GTAC · x · TACGTAC` -/
example : (window false ⟨14, ['G'], [['T']]⟩ qDel [(0, 6), (2, 2), (0, 3), (0, 5), (0, 6)] 3 1 10 Rex 7).toOption =
    some ⟨['T', 'G', 'T', 'A', 'C', 'T', 'T', 'A', 'C', 'G', 'T', 'A', 'C'],
         [['T', 'A', 'C', 'G', 'T', 'A', 'C', 'G', 'T', 'A', 'C', 'G', 'T', 'A', 'C'], ['T', 'A', 'C', 'G', 'T', 'A', 'C', 'T', 'T', 'A', 'C', 'G', 'T', 'A', 'C']]⟩ := by decide

/-- read at 2 with `6M2I3M5M6M` (inserted `AA`), SNV `A>C` at 12, overhang 7: all the hypotheses hold (second INSERTION
in the left half) -/
example : True := by
  have := window_second_indel_left false Rex qIns 12 ['A'] ['C'] ['A', 'A'] [['C']] [] [(0, 6)] [(0, 3)] [(0, 6)] [] 0 5 1 1 2 2 7 4
    (by decide) (by decide) (by decide) (by decide) (Or.inr rfl) (by decide) (Or.inl (by decide)) (by decide) (by decide)
    (by decide) (by decide) (Or.inl (by decide)) (Or.inl (by decide)) (by decide)
  trivial

/-- the same case evaluated: `m1 = 3`, `m2 = 7`; query `CGT · AA · ACGT · C · CGTACGT`, padded `CGT · · ACGT · x · CGTACGT` -/
example : (window false ⟨12, ['A'], [['C']]⟩ qIns [(0, 6), (1, 2), (0, 3), (0, 5), (0, 6)] 3 1 12 Rex 7).toOption =
    some ⟨['C', 'G', 'T', 'A', 'A', 'A', 'C', 'G', 'T', 'C', 'C', 'G', 'T', 'A', 'C', 'G', 'T'],
         [['C', 'G', 'T', 'A', 'C', 'G', 'T', 'A', 'C', 'G', 'T', 'A', 'C', 'G', 'T'], ['C', 'G', 'T', 'A', 'C', 'G', 'T', 'C', 'C', 'G', 'T', 'A', 'C', 'G', 'T']]⟩ := by decide

end WhVerif.C06

import WhVerif.Model.C16Largest
/-! helper lemmas for the round-10 theorems of C16 (`split --only-largest-block`) -/
namespace WhVerif.C16

theorem firstMaxBy_eq_none {α : Type} (f : α → Nat) (e : List α) : firstMaxBy f e = none ↔ e = [] := by
  cases e with
  | nil => simp [firstMaxBy]
  | cons x rest =>
    simp only [firstMaxBy]
    cases firstMaxBy f rest with
    | none => simp
    | some y => by_cases h : f x < f y <;> simp [h]

/-- `max(e, key=f)` returns an element such that everything before it is strictly smaller and nothing after it is larger -/
theorem firstMaxBy_spec {α : Type} (f : α → Nat) (e : List α) (b : α) (h : firstMaxBy f e = some b) :
    ∃ pre post, e = pre ++ b :: post ∧ (∀ x ∈ pre, f x < f b) ∧ (∀ x ∈ post, f x ≤ f b) := by
  induction e generalizing b with
  | nil => simp [firstMaxBy] at h
  | cons x rest ih =>
    simp only [firstMaxBy] at h
    cases hr : firstMaxBy f rest with
    | none =>
      rw [hr] at h
      have hnil := (firstMaxBy_eq_none f rest).1 hr
      simp only [Option.some.injEq] at h
      subst h; subst hnil
      exact ⟨[], [], rfl, by simp, by simp⟩
    | some y =>
      rw [hr] at h
      obtain ⟨pre, post, he, hpre, hpost⟩ := ih y hr
      by_cases hxy : f x < f y
      · simp only [hxy, if_true, Option.some.injEq] at h
        subst h
        refine ⟨x :: pre, post, by simp [he], ?_, hpost⟩
        intro z hz
        rcases List.mem_cons.1 hz with rfl | hz
        · exact hxy
        · exact hpre z hz
      · simp only [hxy, if_false, Option.some.injEq] at h
        subst h
        refine ⟨[], rest, rfl, by simp, ?_⟩
        intro z hz
        rw [he] at hz
        rcases List.mem_append.1 hz with hz | hz
        · have := hpre z hz; omega
        · rcases List.mem_cons.1 hz with rfl | hz
          · omega
          · have := hpost z hz; omega

theorem firstMaxBy_max {α : Type} (f : α → Nat) (e : List α) (b : α) (h : firstMaxBy f e = some b) :
    b ∈ e ∧ ∀ x ∈ e, f x ≤ f b := by
  obtain ⟨pre, post, he, hpre, hpost⟩ := firstMaxBy_spec f e b h
  subst he
  refine ⟨by simp, ?_⟩
  intro x hx
  rcases List.mem_append.1 hx with hx | hx
  · have := hpre x hx; omega
  · rcases List.mem_cons.1 hx with rfl | hx
    · omega
    · exact hpost x hx

/-- a strictly dominant element is returned whatever the enumeration order -/
theorem firstMaxBy_of_dominant {α : Type} (f : α → Nat) (e : List α) (b : α) (hb : b ∈ e)
    (hdom : ∀ x ∈ e, x ≠ b → f x < f b) : firstMaxBy f e = some b := by
  cases hr : firstMaxBy f e with
  | none => rw [(firstMaxBy_eq_none f e).1 hr] at hb; simp at hb
  | some y =>
    obtain ⟨hy, hmax⟩ := firstMaxBy_max f e y hr
    by_cases hyb : y = b
    · rw [hyb]
    · have h1 := hdom y hy hyb
      have h2 := hmax b hb
      omega

theorem firstMaxBy_map {α β : Type} (f : β → Nat) (g : α → β) (e : List α) :
    firstMaxBy f (e.map g) = (firstMaxBy (fun a => f (g a)) e).map g := by
  induction e with
  | nil => simp [firstMaxBy]
  | cons x rest ih =>
    simp only [List.map_cons, firstMaxBy, ih]
    cases firstMaxBy (fun a => f (g a)) rest with
    | none => simp
    | some y => by_cases h : f (g x) < f (g y) <;> simp [h]

/-- one `counter[x] += 1` on a counter whose items are `(b, f b)` for the distinct keys `acc` -/
theorem countInc_map (acc : List Nat) (f : Nat → Nat) (x : Nat) (hnd : acc.Nodup) (h0 : x ∉ acc → f x = 0) :
    countInc (acc.map (fun b => (b, f b))) x
      = (if x ∈ acc then acc else acc ++ [x]).map (fun b => (b, if b = x then f b + 1 else f b)) := by
  induction acc with
  | nil => simp [countInc, h0]
  | cons a acc ih =>
    have hnd' := (List.nodup_cons.1 hnd)
    simp only [List.map_cons, countInc]
    by_cases hax : a = x
    · subst hax
      simp only [if_true, List.mem_cons, true_or, List.map_cons]
      congr 1
      apply List.map_congr_left
      intro b hb
      have : b ≠ a := fun e => hnd'.1 (e ▸ hb)
      simp [this]
    · have hxa : ¬ x = a := fun e => hax e.symm
      have ih' := ih hnd'.2 (fun hx => h0 (by simp [hxa, hx]))
      simp only [hax, if_false, ih', List.mem_cons, hxa, false_or]
      by_cases hx : x ∈ acc <;> simp [hx, hax]

/-- the dict-key step of `firstOcc` -/
def occStep (acc : List Nat) (x : Nat) : List Nat := if x ∈ acc then acc else acc ++ [x]

theorem firstOcc_eq (l : List Nat) : firstOcc l = l.foldl occStep [] := rfl

theorem occStep_nodup (acc : List Nat) (x : Nat) (h : acc.Nodup) : (occStep acc x).Nodup := by
  unfold occStep
  by_cases hx : x ∈ acc
  · simp [hx, h]
  · simp only [hx, if_false]
    rw [List.nodup_append]
    refine ⟨h, by simp, ?_⟩
    intro a ha b hb
    simp only [List.mem_singleton] at hb
    subst hb
    exact fun e => hx (e ▸ ha)

theorem mem_foldl_occStep (l acc : List Nat) (x : Nat) : x ∈ l.foldl occStep acc ↔ x ∈ acc ∨ x ∈ l := by
  induction l generalizing acc with
  | nil => simp
  | cons y l ih =>
    simp only [List.foldl_cons, ih, List.mem_cons]
    unfold occStep
    by_cases hy : y ∈ acc
    · simp only [hy, if_true]
      constructor
      · rintro (h | h)
        · exact Or.inl h
        · exact Or.inr (Or.inr h)
      · rintro (h | h | h)
        · exact Or.inl h
        · exact Or.inl (h ▸ hy)
        · exact Or.inr h
    · simp only [hy, if_false, List.mem_append, List.mem_singleton]
      constructor
      · rintro ((h | h) | h)
        · exact Or.inl h
        · exact Or.inr (Or.inl h)
        · exact Or.inr (Or.inr h)
      · rintro (h | h | h)
        · exact Or.inl (Or.inl h)
        · exact Or.inl (Or.inr h)
        · exact Or.inr h

theorem mem_firstOcc (l : List Nat) (x : Nat) : x ∈ firstOcc l ↔ x ∈ l := by
  rw [firstOcc_eq, mem_foldl_occStep]; simp

/-- the counter after the rows `l` on top of a counter with items `(b, g b)`, `b ∈ acc` -/
theorem foldl_countInc_map (l acc : List Nat) (g : Nat → Nat) (hnd : acc.Nodup) (h0 : ∀ x, x ∉ acc → g x = 0) :
    l.foldl countInc (acc.map (fun b => (b, g b)))
      = (l.foldl occStep acc).map (fun b => (b, g b + l.count b)) := by
  induction l generalizing acc g with
  | nil => simp
  | cons x l ih =>
    simp only [List.foldl_cons]
    rw [countInc_map acc g x hnd (h0 x)]
    have hstep : (if x ∈ acc then acc else acc ++ [x]) = occStep acc x := rfl
    rw [hstep, ih (occStep acc x) _ (occStep_nodup acc x hnd)]
    · apply List.map_congr_left
      intro b _
      simp only [List.count_cons, Prod.mk.injEq, true_and]
      by_cases hbx : b = x
      · subst hbx; simp; omega
      · have : ¬ x = b := fun e => hbx e.symm
        simp [hbx, this]
    · intro y hy
      have hyx : y ≠ x := by
        intro e; subst e
        apply hy; unfold occStep
        by_cases h : y ∈ acc <;> simp [h]
      have hya : y ∉ acc := by
        intro h; apply hy; unfold occStep
        by_cases h' : x ∈ acc <;> simp [h', h]
      simp [hyx, h0 y hya]

/-- the `Counter` of a list: its distinct elements in first-occurrence order, each with its number of occurrences -/
theorem counter_eq (l : List Nat) : counter l = (firstOcc l).map (fun b => (b, l.count b)) := by
  have := foldl_countInc_map l [] (fun _ => 0) (by simp) (by simp)
  simpa [counter, firstOcc_eq] using this

end WhVerif.C16

import WhVerif.Model.C20
import WhVerif.Lemmas.C04
/-! Helper lemmas for Props/C20: folds of the file state machine, membership in sorted event lists. -/
set_option linter.unusedSimpArgs false
namespace WhVerif.C20
open WhVerif.C04

/-! ### the state machine, one family / one chromosome at a time -/

theorem famStep_gt (o : Opts) (fs : Files) (i : Inst) : (famStep o fs i).gtList = fs.gtList := by
  unfold famStep; cases o.recList <;> cases o.readList <;> rfl

theorem famStep_read (o : Opts) (fs : Files) (i : Inst) :
    (famStep o fs i).readList = if o.readList then fs.readList.map (· ++ readListRows i) else fs.readList := by
  unfold famStep; cases o.recList <;> cases o.readList <;> rfl

theorem famStep_rec (o : Opts) (fs : Files) (i : Inst) :
    (famStep o fs i).recList = if o.recList then writeList o.repaired fs.recList (recombRows i) else fs.recList := by
  unfold famStep; cases o.recList <;> cases o.readList <;> rfl

theorem famFold_gt (o : Opts) (fams : List Inst) (fs : Files) : (fams.foldl (famStep o) fs).gtList = fs.gtList := by
  induction fams generalizing fs with
  | nil => rfl
  | cons i r ih => simp [List.foldl_cons, ih, famStep_gt]

theorem famFold_read (o : Opts) (h : o.readList = true) (fams : List Inst) (fs : Files) :
    (fams.foldl (famStep o) fs).readList = fs.readList.map (· ++ fams.flatMap readListRows) := by
  induction fams generalizing fs with
  | nil => cases hrl : fs.readList <;> simp [hrl]
  | cons i r ih =>
    simp only [List.foldl_cons, ih, famStep_read, h, if_true, List.flatMap_cons]
    cases fs.readList <;> simp

theorem famFold_read_off (o : Opts) (h : o.readList = false) (fams : List Inst) (fs : Files) :
    (fams.foldl (famStep o) fs).readList = fs.readList := by
  induction fams generalizing fs with
  | nil => rfl
  | cons i r ih => simp [List.foldl_cons, ih, famStep_read, h]

theorem famFold_rec_off (o : Opts) (h : o.recList = false) (fams : List Inst) (fs : Files) :
    (fams.foldl (famStep o) fs).recList = fs.recList := by
  induction fams generalizing fs with
  | nil => rfl
  | cons i r ih => simp [List.foldl_cons, ih, famStep_rec, h]

/-- repaired writer: the recombination list grows by every family's rows -/
theorem famFold_rec_repaired (o : Opts) (h : o.recList = true) (hr : o.repaired = true) (fams : List Inst) (fs : Files) :
    (fams.foldl (famStep o) fs).recList.getD [] = fs.recList.getD [] ++ fams.flatMap recombRows := by
  induction fams generalizing fs with
  | nil => simp
  | cons i r ih =>
    simp only [List.foldl_cons, ih, famStep_rec, h, hr, if_true, writeList, List.flatMap_cons, Option.getD_some,
      List.append_assoc]

/-- the writer as coded: after a non-empty family loop only the last family's rows are in the file -/
theorem famFold_rec_faithful (o : Opts) (h : o.recList = true) (hr : o.repaired = false) (fams : List Inst) (fs : Files) :
    (fams.foldl (famStep o) fs).recList =
      match fams.getLast? with
      | some i => some (recombRows i)
      | none => fs.recList := by
  induction fams generalizing fs with
  | nil => rfl
  | cons i r ih =>
    rw [List.foldl_cons, ih]
    cases r with
    | nil => simp [famStep_rec, h, hr, writeList]
    | cons j r' =>
      rw [List.getLast?_cons_cons]
      cases hgl : (j :: r').getLast? with
      | none => simp at hgl
      | some x => rfl

theorem chromStep_read (o : Opts) (fs : Files) (c : ChromRun) :
    (chromStep o fs c).readList =
      if c.selected && o.readList then fs.readList.map (· ++ c.families.flatMap readListRows) else fs.readList := by
  unfold chromStep
  cases hs : c.selected <;> cases hr : o.readList <;> cases hg : o.gtList <;>
    simp [famFold_read, famFold_read_off, hr]

theorem chromStep_gt (o : Opts) (fs : Files) (c : ChromRun) :
    (chromStep o fs c).gtList =
      if c.selected && o.gtList then writeList o.repaired fs.gtList c.gtChanges else fs.gtList := by
  unfold chromStep
  cases hs : c.selected <;> cases hg : o.gtList <;> simp [famFold_gt]

theorem chromStep_rec_repaired (o : Opts) (h : o.recList = true) (hr : o.repaired = true) (fs : Files) (c : ChromRun) :
    (chromStep o fs c).recList.getD [] =
      fs.recList.getD [] ++ (if c.selected then c.families.flatMap recombRows else []) := by
  unfold chromStep
  cases hs : c.selected <;> cases hg : o.gtList <;> simp [famFold_rec_repaired, h, hr]

theorem chromStep_rec_off (o : Opts) (h : o.recList = false) (fs : Files) (c : ChromRun) :
    (chromStep o fs c).recList = fs.recList := by
  unfold chromStep
  cases hs : c.selected <;> cases hg : o.gtList <;> simp [famFold_rec_off, h]

/-! ### whole runs -/

theorem runFold_read (o : Opts) (h : o.readList = true) (chroms : List ChromRun) (fs : Files) :
    (chroms.foldl (chromStep o) fs).readList = fs.readList.map (· ++ (allInsts chroms).flatMap readListRows) := by
  induction chroms generalizing fs with
  | nil => cases hrl : fs.readList <;> simp [allInsts, selectedChroms, hrl]
  | cons c r ih =>
    rw [List.foldl_cons, ih, chromStep_read]
    cases hs : c.selected
    · simp [allInsts, selectedChroms, List.filter_cons, hs]
    · cases hrl : fs.readList <;> simp [allInsts, selectedChroms, List.filter_cons, hs, h]

theorem runFold_gt_repaired (o : Opts) (h : o.gtList = true) (hr : o.repaired = true) (chroms : List ChromRun) (fs : Files) :
    (chroms.foldl (chromStep o) fs).gtList.getD [] =
      fs.gtList.getD [] ++ (selectedChroms chroms).flatMap (·.gtChanges) := by
  induction chroms generalizing fs with
  | nil => simp [selectedChroms]
  | cons c r ih =>
    rw [List.foldl_cons, ih, chromStep_gt]
    cases hs : c.selected
    · simp [selectedChroms, List.filter_cons, hs]
    · simp [selectedChroms, List.filter_cons, hs, h, hr, writeList]

theorem runFold_rec_repaired (o : Opts) (h : o.recList = true) (hr : o.repaired = true) (chroms : List ChromRun) (fs : Files) :
    (chroms.foldl (chromStep o) fs).recList.getD [] =
      fs.recList.getD [] ++ (allInsts chroms).flatMap recombRows := by
  induction chroms generalizing fs with
  | nil => simp [allInsts, selectedChroms]
  | cons c r ih =>
    rw [List.foldl_cons, ih, chromStep_rec_repaired o h hr]
    cases hs : c.selected
    · simp [allInsts, selectedChroms, List.filter_cons, hs]
    · simp [allInsts, selectedChroms, List.filter_cons, hs]

theorem runFold_gt_off (o : Opts) (h : o.gtList = false) (chroms : List ChromRun) (fs : Files) :
    (chroms.foldl (chromStep o) fs).gtList = fs.gtList := by
  induction chroms generalizing fs with
  | nil => rfl
  | cons c r ih => rw [List.foldl_cons, ih, chromStep_gt]; simp [h]

theorem runFold_rec_off (o : Opts) (h : o.recList = false) (chroms : List ChromRun) (fs : Files) :
    (chroms.foldl (chromStep o) fs).recList = fs.recList := by
  induction chroms generalizing fs with
  | nil => rfl
  | cons c r ih => rw [List.foldl_cons, ih, chromStep_rec_off o h]

/-- as coded: the changed-genotype list holds the rows of the last processed chromosome only -/
theorem runFold_gt_faithful (o : Opts) (h : o.gtList = true) (hr : o.repaired = false) (chroms : List ChromRun) (fs : Files) :
    (chroms.foldl (chromStep o) fs).gtList =
      match (selectedChroms chroms).getLast? with
      | some c => some c.gtChanges
      | none => fs.gtList := by
  induction chroms generalizing fs with
  | nil => rfl
  | cons c r ih =>
    rw [List.foldl_cons, ih, chromStep_gt]
    cases hs : c.selected
    · simp [selectedChroms, List.filter_cons, hs]
    · simp only [selectedChroms, List.filter_cons, hs, if_true]
      cases hl : (List.filter (fun x => x.selected) r) with
      | nil => simp [h, hr, writeList]
      | cons a b =>
        rw [List.getLast?_cons_cons]
        cases hgl : (a :: b).getLast? with
        | none => simp at hgl
        | some x => rfl

/-! ### sorted event lists keep their members -/

theorem mem_insertEv {e x : RecEvent} {l : List RecEvent} : x ∈ insertEv e l ↔ x = e ∨ x ∈ l := by
  induction l with
  | nil => simp [insertEv]
  | cons a r ih =>
    unfold insertEv
    split
    · simp
    · simp only [List.mem_cons, ih]
      constructor
      · rintro (h | h | h)
        · exact Or.inr (Or.inl h)
        · exact Or.inl h
        · exact Or.inr (Or.inr h)
      · rintro (h | h | h)
        · exact Or.inr (Or.inl h)
        · exact Or.inl h
        · exact Or.inr (Or.inr h)

theorem mem_sortEv {x : RecEvent} {l : List RecEvent} : x ∈ sortEv l ↔ x ∈ l := by
  induction l with
  | nil => simp [sortEv]
  | cons a r ih => simp [sortEv, mem_insertEv, ih]

/-- an event of `scanBlock` joins two neighbours of the scanned list, and the transmission value changes there -/
theorem mem_scanBlock {positions tv recomb : List Nat} {l : List Nat} {e : RecEvent}
    (h : e ∈ scanBlock positions tv recomb l) :
    (∃ pre suf, l = pre ++ e.p1 :: e.p2 :: suf) ∧ e = mkEvent positions tv recomb e.p1 e.p2 ∧
      atPos positions tv e.p1 ≠ atPos positions tv e.p2 := by
  induction l with
  | nil => simp [scanBlock] at h
  | cons a r ih =>
    cases r with
    | nil => simp [scanBlock] at h
    | cons b rest =>
      simp only [scanBlock, List.mem_append] at h
      rcases h with h | h
      · split at h
        · rename_i hne
          simp only [List.mem_singleton] at h
          subst h
          exact ⟨⟨[], rest, rfl⟩, rfl, hne⟩
        · cases h
      · obtain ⟨⟨pre, suf, hl⟩, h2, h3⟩ := ih h
        exact ⟨⟨a :: pre, suf, by simp [hl]⟩, h2, h3⟩

theorem insertNat_sorted (a : Nat) (l : List Nat) (h : l.Pairwise (· ≤ ·)) : (insertNat a l).Pairwise (· ≤ ·) := by
  induction l with
  | nil => simp [insertNat]
  | cons b r ih =>
    unfold insertNat
    rw [List.pairwise_cons] at h
    split
    · rename_i hab
      rw [List.pairwise_cons]
      refine ⟨?_, List.pairwise_cons.mpr h⟩
      intro x hx
      rcases List.mem_cons.mp hx with rfl | hx
      · exact hab
      · exact Nat.le_trans hab (h.1 x hx)
    · rename_i hab
      rw [List.pairwise_cons]
      refine ⟨?_, ih h.2⟩
      intro x hx
      have hx' : x ∈ a :: r := (insertNat_perm a r).mem_iff.mp hx
      rcases List.mem_cons.mp hx' with rfl | hx'
      · omega
      · exact h.1 x hx'

theorem sortNat_sorted (l : List Nat) : (sortNat l).Pairwise (· ≤ ·) := by
  induction l with
  | nil => simp [sortNat]
  | cons a r ih => exact insertNat_sorted a _ ih

end WhVerif.C20

import WhVerif.Lemmas.C02PipelineWrite
/-!
# C02 pipeline, part 4: assembling solver + components + writer + reader
-/
namespace WhVerif.C02P
open WhVerif.C01 WhVerif.C02 WhVerif.C04

variable {hap : Nat → Nat} {src : Nat → Bool}

/-- side conditions on the stage input that the pipeline establishes by construction -/
structure PipelineOk (S : Stage) : Prop where
  /-- the columns' genomic positions are strictly increasing, one per column -/
  pos_inc : S.pos.Pairwise (· < ·)
  pos_len : S.pos.length = S.I.ncols
  /-- single-sample input records as pysam presents them -/
  rec_ok : ∀ r ∈ S.records, RecOk S.sample r
  /-- the chromosome's records are sorted by position, no duplicates -/
  rec_inc : S.records.Pairwise (fun a b => a.pos < b.pos)

/-- the phase-set / allele statement expected for covered column `c` in component `m` with swap `sw` -/
def truthPhase (hap : Nat → Nat) (sw : Bool) (m c : Nat) : C09.Phase :=
  ⟨some ((m : Int) + 1), [some (truthPair hap sw c).1, some (truthPair hap sw c).2]⟩

theorem compOf_of_mem {phased : List Nat} {reads : List C03.Read} {comps : List (Nat × Nat)}
    (h : C03.findComponents phased reads none none = .ok comps) (p : Nat) :
    (p ∈ phased → ∃ m, C03.compOf comps p = some m) ∧ (p ∉ phased → C03.compOf comps p = none) := by
  obtain ⟨rep, hc, _⟩ := C03.L.findComponents_rep phased reads none none comps h
  constructor
  · intro hp; exact ⟨rep p, by rw [hc p, if_pos hp]⟩
  · intro hp; rw [hc p, if_neg hp]

/-- the whole chain on an error-free instance: the stages do not raise, the reader returns one row per
biallelic record carrying the writer's statement `C09.written`, and that statement is the truth up to one swap per
component on the covered columns and absent everywhere else -/
theorem stage_rows (S : Stage) (h : ErrFree S.I hap src) (hwf : WF S.I) (hin : PipelineOk S) :
    ∃ (comps : List (Nat × Nat)) (rows : List C09.Row) (swap : Nat → Bool) (T : Target),
      components S.I S.pos = .ok comps ∧ stageTarget S = some T ∧ pipeline S = some rows ∧
      rows.map rowPhase = (S.records.filter biallelic).map (fun r => (r.pos, C09.written false T r.pos)) ∧
      (∀ c, c < S.I.ncols → Covered S.I c → ∃ m, C03.compOf comps (posAt S.pos c) = some m ∧
        C09.written false T (posAt S.pos c) = some (truthPhase hap (swap m) m c)) ∧
      (∀ p ph, C09.written false T p = some ph → ∃ c, c < S.I.ncols ∧ p = posAt S.pos c ∧ Covered S.I c) := by
  obtain ⟨hpos, hlen, hrec, hinc⟩ := hin
  obtain ⟨β, τ, hw, hz⟩ := witness_ok h hwf
  obtain ⟨comps, hcomps⟩ := components_ok h hpos hlen
  obtain ⟨swap, hswap⟩ := component_swap h hpos hlen hz hcomps
  let T := target S.sample (srOf S.pos S.pos.length (colAl S.I β τ)) comps
  have hT : stageTarget S = some T := by
    unfold stageTarget
    rw [superReads_eq h hw, hcomps]
    simp only [T, srOf, hlen]
  obtain ⟨st', rows, h1, h2⟩ := readChrom_writeChrom (cfg S T) rfl rfl rfl S.sample T rfl rfl rfl S.records none none
    none (Or.inl rfl) hrec hinc (by intro p hp; cases hp) (by intro p hp; cases hp)
  refine ⟨comps, rows, swap, T, hcomps, hT, ?_, h2, ?_, ?_⟩
  · unfold pipeline writtenRecords
    rw [hT]
    simp only [Option.map_some, h1]
  · rintro c hc ⟨r, hcov⟩
    obtain ⟨m, hm⟩ := (compOf_of_mem hcomps (posAt S.pos c)).1 (posAt_mem S.pos (by omega))
    refine ⟨m, hm, ?_⟩
    have ha := hswap c r hc hcov m hm
    have hne := truthPair_ne h (swap m) hc
    rw [← ha] at hne
    have := written_het S.sample hpos (colAl S.I β τ) comps (c := c) (by omega) hne hm
    rw [this, ha]; rfl
  · intro p ph hp
    by_cases hmem : p ∈ S.pos
    · obtain ⟨c, hc, rfl⟩ := mem_pos hmem
      refine ⟨c, by omega, rfl, ?_⟩
      apply Classical.byContradiction
      intro hn
      have := written_tie S.sample hpos (colAl S.I β τ) comps hc (colAl_uncovered h β τ (by omega) hn)
      rw [this] at hp; cases hp
    · have := written_nocomp T (p := p) ((compOf_of_mem hcomps p).2 hmem)
      rw [this] at hp; cases hp

/-- membership form of the row characterisation -/
theorem row_written {rows : List C09.Row} {records : List Record} {T : Target}
    (h2 : rows.map rowPhase = (records.filter biallelic).map (fun r => (r.pos, C09.written false T r.pos)))
    {row : C09.Row} (hrow : row ∈ rows) : (rowPhase row).2 = C09.written false T row.pos := by
  have hm : rowPhase row ∈ rows.map rowPhase := List.mem_map.mpr ⟨row, hrow, rfl⟩
  rw [h2] at hm
  obtain ⟨r, _, hr⟩ := List.mem_map.mp hm
  have h1 : r.pos = row.pos := congrArg Prod.fst hr
  have h3 := congrArg Prod.snd hr
  simp only at h3
  rw [← h3, h1]

end WhVerif.C02P

import WhVerif.Lemmas.C05PipelineSolver
/-!
# C05 on the solver model, ANY genotype costs (trusted, likelihoods, mixed) and ANY recombination costs

`hapAllele` — what `get_alleles` reports for a haplotype: allele of the last optimal assignment, or the tie flag 3 —
is a function of the haplotype's PARTITION; `trio_partitions` identifies the child's partitions with the transmitted
parental ones.  So the child's super-read entry equals the parent's entry on the selected haplotype, tie flag included,
in every column of the back-traced witness — no assumption on `geno` or `recomb`.
-/
namespace WhVerif.C05P
open WhVerif.C01 WhVerif.Cost WhVerif.C05.Solver

theorem hapAllele_congr (I : Inst) (c : Nat) (bs : List Bool) (t i h i' h' : Nat)
    (hp : h2p I t i h = h2p I t i' h') : hapAllele I c bs t i h = hapAllele I c bs t i' h' := by
  unfold hapAllele
  simp only [hp]

theorem selHap_cases (t b : Nat) : selHap t b = 0 ∨ selHap t b = 1 := by
  unfold selHap; split <;> simp

/-- one column of the witness' super reads, any costs -/
theorem column_transmitted (I : Inst) (hwf : WF I) (hok : PedOK I) (β : List Bool) (τ : List Nat)
    (hw : witness I = some (β, τ)) (k f m ch : Nat) (htr : I.trios[k]? = some (f, m, ch))
    (c : Nat) (hc : c < I.ncols) :
    ∃ L, superReadColumn I β τ c = some L ∧ L.length = I.nind ∧
      reported L ch 0 = reported L f (selHap (τ.getD c 0) (2 * k)) ∧
      reported L ch 1 = reported L m (selHap (τ.getD c 0) (2 * k + 1)) ∧
      (∀ ind h, ind < I.nind → (h = 0 ∨ h = 1) → reported L ind h = 0 ∨ reported L ind h = 1 ∨ reported L ind h = 3) ∧
      (∀ ag, IsOptAssign I c (restrict β (I.activeAt c)) (τ.getD c 0) ag → ∀ ind h, ind < I.nind → (h = 0 ∨ h = 1) →
        reported L ind h ≠ 3 → bitOf ag.1 (h2p I (τ.getD c 0) ind h) = reported L ind h) ∧
      (∃ ag, IsOptAssign I c (restrict β (I.activeAt c)) (τ.getD c 0) ag) := by
  obtain ⟨L, hL⟩ := superReadColumn_some I hwf β τ hw c hc
  have hL' : getAlleles I c (restrict β (I.activeAt c)) (τ.getD c 0) = some L := hL
  generalize τ.getD c 0 = t at hL'
  generalize restrict β (I.activeAt c) = bs at hL'
  have hne : assignments I c t ≠ [] := by
    intro h; rw [(getAlleles_none_iff I c bs t).mpr h] at hL'; cases hL'
  obtain ⟨hfi, hmi, hci⟩ := hok.members _ (List.mem_of_getElem? htr)
  simp only at hfi hmi hci
  obtain ⟨p0, p1⟩ := trio_partitions I hok t k f m ch htr
  rw [ite_h2p] at p0 p1
  change h2p I t ch 0 = h2p I t f (selHap t (2 * k)) at p0
  change h2p I t ch 1 = h2p I t m (selHap t (2 * k + 1)) at p1
  refine ⟨L, hL, getAlleles_length I c bs t L hL', ?_, ?_, ?_, ?_, opt_assign_exists I c bs t hne⟩
  · rw [reported_eq I c bs t L hL' ch 0 hci (Or.inl rfl), reported_eq I c bs t L hL' f _ hfi (selHap_cases _ _)]
    exact hapAllele_congr I c bs t _ _ _ _ p0
  · rw [reported_eq I c bs t L hL' ch 1 hci (Or.inr rfl), reported_eq I c bs t L hL' m _ hmi (selHap_cases _ _)]
    exact hapAllele_congr I c bs t _ _ _ _ p1
  · intro ind h hind hh
    exact (nontie_forced I c bs t L hL' ind h hind hh).1
  · intro ag hag ind h hind hh h3
    exact (nontie_forced I c bs t L hL' ind h hind hh).2.1 h3 ag hag

end WhVerif.C05P

import WhVerif.Spec.C01
/-! Bit-level lemmas for C01: indices ↔ bit lists, enumeration lists. Core Lean only. -/
namespace WhVerif.C01

@[simp] theorem bitsOf_length (k idx : Nat) : (bitsOf k idx).length = k := by simp [bitsOf]

theorem bitsOf_succ (k idx : Nat) : bitsOf (k + 1) idx = idx.testBit 0 :: bitsOf k (idx / 2) := by
  simp only [bitsOf, List.range_succ_eq_map, List.map_cons, List.map_map]
  congr 1
  apply List.map_congr_left
  intro i _
  simp [Nat.testBit_succ]

theorem natOfBits_lt (bs : List Bool) : natOfBits bs < 2 ^ bs.length := by
  induction bs with
  | nil => simp [natOfBits]
  | cons b bs ih =>
    simp only [natOfBits, List.length_cons, Nat.pow_succ]
    cases b <;> simp <;> omega

theorem bitsOf_natOfBits (bs : List Bool) : bitsOf bs.length (natOfBits bs) = bs := by
  induction bs with
  | nil => simp [bitsOf]
  | cons b bs ih =>
    simp only [List.length_cons, bitsOf_succ, natOfBits]
    have h1 : ((if b = true then 1 else 0) + 2 * natOfBits bs) / 2 = natOfBits bs := by
      cases b <;> simp <;> omega
    have h2 : ((if b = true then 1 else 0) + 2 * natOfBits bs).testBit 0 = b := by
      cases b <;> simp [Nat.testBit_zero] <;> omega
    rw [h1, h2, ih]

theorem natOfBits_bitsOf (k idx : Nat) (h : idx < 2 ^ k) : natOfBits (bitsOf k idx) = idx := by
  induction k generalizing idx with
  | zero => simp [bitsOf, natOfBits]; omega
  | succ k ih =>
    rw [bitsOf_succ]
    simp only [natOfBits]
    rw [ih (idx / 2) (by rw [Nat.pow_succ] at h; omega)]
    rw [Nat.testBit_zero]
    by_cases hb : idx % 2 = 1 <;> simp [hb] <;> omega

theorem natOfBits_inj (a b : List Bool) (hl : a.length = b.length) (h : natOfBits a = natOfBits b) : a = b := by
  rw [← bitsOf_natOfBits a, ← bitsOf_natOfBits b, hl, h]

theorem natOfBits_take (bs : List Bool) (w : Nat) : natOfBits (bs.take w) = natOfBits bs % 2 ^ w := by
  induction bs generalizing w with
  | nil => simp [natOfBits]
  | cons b bs ih =>
    cases w with
    | zero => simp [natOfBits, Nat.mod_one]
    | succ w =>
      simp only [List.take_succ_cons, natOfBits, ih, Nat.pow_succ]
      have := Nat.mod_lt (natOfBits bs) (Nat.two_pow_pos w)
      cases b <;> simp
      · rw [Nat.mul_comm (2 ^ w) 2, Nat.mul_mod_mul_left]
      · rw [Nat.mul_comm (2 ^ w) 2]
        have h2 : (1 + 2 * natOfBits bs) % (2 * 2 ^ w) = 1 + 2 * (natOfBits bs % 2 ^ w) := by
          have := Nat.mod_add_div (natOfBits bs) (2 ^ w)
          have hq : (1 + 2 * natOfBits bs) = (1 + 2 * (natOfBits bs % 2 ^ w)) + (2 * 2 ^ w) * (natOfBits bs / 2 ^ w) := by
            rw [Nat.mul_assoc]; omega
          rw [hq, Nat.add_mul_mod_self_left]
          apply Nat.mod_eq_of_lt; omega
        exact h2.symm

theorem mem_allBools (n : Nat) (bs : List Bool) : bs ∈ allBools n ↔ bs.length = n := by
  induction n generalizing bs with
  | zero => simp [allBools]
  | succ n ih =>
    simp only [allBools, List.mem_flatMap, List.mem_cons, List.not_mem_nil, or_false]
    constructor
    · rintro ⟨l, hl, rfl | rfl⟩ <;> simp [(ih l).mp hl]
    · intro h
      cases bs with
      | nil => simp at h
      | cons b bs =>
        refine ⟨bs, (ih bs).mpr (by simpa using h), ?_⟩
        cases b <;> simp

theorem mem_allLists (m n : Nat) (l : List Nat) : l ∈ allLists m n ↔ l.length = n ∧ ∀ x ∈ l, x < m := by
  induction n generalizing l with
  | zero => simp [allLists]; intro h; subst h; simp
  | succ n ih =>
    simp only [allLists, List.mem_flatMap, List.mem_range, List.mem_map]
    constructor
    · rintro ⟨x, hx, l', hl', rfl⟩
      have := (ih l').mp hl'
      refine ⟨by simp [this.1], ?_⟩
      intro y hy
      rcases List.mem_cons.mp hy with rfl | hy
      · exact hx
      · exact this.2 y hy
    · rintro ⟨hlen, hall⟩
      cases l with
      | nil => simp at hlen
      | cons x l' =>
        exact ⟨x, hall x List.mem_cons_self, l',
          (ih l').mpr ⟨by simpa using hlen, fun y hy => hall y (List.mem_cons_of_mem _ hy)⟩, rfl⟩

theorem mem_pairs (n m i t : Nat) : (i, t) ∈ pairs n m ↔ i < n ∧ t < m := by
  simp [pairs]

theorem mem_solutions (I : Inst) (x : List Bool × List Nat) :
    x ∈ solutions I ↔ x.1.length = I.nreads ∧ x.2.length = I.ncols ∧ ∀ t ∈ x.2, t < I.ntrans := by
  obtain ⟨β, τ⟩ := x
  simp only [solutions, List.mem_flatMap, List.mem_map, Prod.mk.injEq]
  constructor
  · rintro ⟨β', hβ, τ', hτ, rfl, rfl⟩
    exact ⟨(mem_allBools _ _).mp hβ, ((mem_allLists _ _ _).mp hτ).1, ((mem_allLists _ _ _).mp hτ).2⟩
  · rintro ⟨h1, h2, h3⟩
    exact ⟨β, (mem_allBools _ _).mpr h1, τ, (mem_allLists _ _ _).mpr ⟨h2, h3⟩, rfl, rfl⟩

end WhVerif.C01

import WhVerif.Lemmas.C07CompletePerm
/-!
# C07 completeness, part B: the component finder (partition with minimum labels) does not depend on the
order in which the selected reads of a slice are merged into it.
-/
namespace WhVerif.C07
open List

/-- relabelling done by one `merge`: the classes labelled `A` and `B` get the label `min A B` -/
def relab (A B l : Nat) : Nat := if l = A ∨ l = B then min A B else l

def Comp.dom (c : Comp) : List Nat := c.map (·.1)

def Comp.relabel (c : Comp) (g : Nat → Nat) : Comp := c.map (fun e => (e.1, g e.2))

theorem Comp.merge_eq (c : Comp) (x y : Nat) : c.merge x y = c.relabel (relab (c.find x) (c.find y)) := by
  unfold Comp.merge Comp.relabel relab
  apply List.map_congr_left
  intro e _
  by_cases h : e.2 = c.find x ∨ e.2 = c.find y
  · simp only [h, if_true]
    rcases h with h | h <;> simp [h]
  · simp only [h, if_false]
    have h1 : ¬ e.2 = c.find x := fun h' => h (Or.inl h')
    have h2 : ¬ e.2 = c.find y := fun h' => h (Or.inr h')
    simp [h1, h2]

theorem Comp.dom_relabel (c : Comp) (g : Nat → Nat) : (c.relabel g).dom = c.dom := by
  unfold Comp.dom Comp.relabel
  rw [List.map_map]; rfl

theorem Comp.dom_merge (c : Comp) (x y : Nat) : (c.merge x y).dom = c.dom := by
  rw [Comp.merge_eq, Comp.dom_relabel]

theorem Comp.find_relabel (g : Nat → Nat) (p : Nat) : ∀ (c : Comp), p ∈ c.dom → (c.relabel g).find p = g (c.find p)
  | [], h => by simp [Comp.dom] at h
  | e :: es, h => by
    unfold Comp.find Comp.relabel
    by_cases he : e.1 = p
    · simp [he]
    · have hp : p ∈ Comp.dom es := by
        unfold Comp.dom at h ⊢
        rcases List.mem_cons.mp h with h | h
        · exact absurd h.symm he
        · exact h
      have ih := Comp.find_relabel g p es hp
      unfold Comp.find Comp.relabel at ih
      simpa [List.find?_cons, he] using ih

theorem Comp.relabel_relabel (c : Comp) (g h : Nat → Nat) : (c.relabel g).relabel h = c.relabel (h ∘ g) := by
  unfold Comp.relabel
  rw [List.map_map]; rfl

theorem relab_comm (A B C D l : Nat) :
    relab (relab A B C) (relab A B D) (relab A B l) = relab (relab C D A) (relab C D B) (relab C D l) := by
  unfold relab
  grind

theorem Comp.merge_comm (c : Comp) {x y u v : Nat} (hx : x ∈ c.dom) (hy : y ∈ c.dom) (hu : u ∈ c.dom) (hv : v ∈ c.dom) :
    (c.merge x y).merge u v = (c.merge u v).merge x y := by
  rw [Comp.merge_eq (c.merge x y), Comp.merge_eq (c.merge u v), Comp.merge_eq c x y, Comp.merge_eq c u v]
  rw [Comp.find_relabel _ _ _ hu, Comp.find_relabel _ _ _ hv, Comp.find_relabel _ _ _ hx, Comp.find_relabel _ _ _ hy]
  rw [Comp.relabel_relabel, Comp.relabel_relabel]
  congr 1
  funext l
  exact relab_comm _ _ _ _ l

/-- a sequence of merges -/
def Comp.mergeAll (c : Comp) (ops : List (Nat × Nat)) : Comp := ops.foldl (fun c o => c.merge o.1 o.2) c

theorem Comp.dom_mergeAll : ∀ (ops : List (Nat × Nat)) (c : Comp), (c.mergeAll ops).dom = c.dom
  | [], _ => rfl
  | o :: os, c => by
    show ((c.merge o.1 o.2).mergeAll os).dom = _
    rw [Comp.dom_mergeAll os, Comp.dom_merge]

theorem Comp.mergeAll_perm {l₁ l₂ : List (Nat × Nat)} (h : l₁ ~ l₂) :
    ∀ c : Comp, (∀ o ∈ l₁, o.1 ∈ c.dom ∧ o.2 ∈ c.dom) → c.mergeAll l₁ = c.mergeAll l₂ := by
  induction h with
  | nil => intro c _; rfl
  | cons o _ ih =>
    intro c hc
    show (c.merge o.1 o.2).mergeAll _ = (c.merge o.1 o.2).mergeAll _
    apply ih
    intro o' ho'
    rw [Comp.dom_merge]
    exact hc o' (List.mem_cons_of_mem _ ho')
  | swap a b l =>
    intro c hc
    show ((c.merge b.1 b.2).merge a.1 a.2).mergeAll l = ((c.merge a.1 a.2).merge b.1 b.2).mergeAll l
    have ha := hc a (by simp)
    have hb := hc b (by simp)
    rw [Comp.merge_comm c hb.1 hb.2 ha.1 ha.2]
  | trans h1 _ ih1 ih2 =>
    intro c hc
    rw [ih1 c hc]
    apply ih2
    intro o ho
    exact hc o (h1.mem_iff.mpr ho)

/-- the merges of one read -/
def readOps (r : Read) : List (Nat × Nat) := r.pos.tail.map (fun p => (r.first, p))

theorem Comp.mergeRead_eq (c : Comp) (r : Read) : c.mergeRead r = c.mergeAll (readOps r) := by
  unfold Comp.mergeRead Comp.mergeAll readOps
  rw [List.foldl_map]

theorem Comp.foldl_mergeRead_eq (reads : List Read) : ∀ (l : List Nat) (c : Comp),
    l.foldl (fun c i => c.mergeRead (getRead reads i)) c = c.mergeAll (l.flatMap (fun i => readOps (getRead reads i)))
  | [], _ => rfl
  | i :: is, c => by
    rw [List.foldl_cons, Comp.foldl_mergeRead_eq reads is, Comp.mergeRead_eq, List.flatMap_cons]
    unfold Comp.mergeAll
    rw [List.foldl_append]

theorem getRead_pos_sub (reads : List Read) (i : Nat) : ∀ p ∈ (getRead reads i).pos, p ∈ positions reads := by
  intro p hp
  unfold getRead at hp
  by_cases hi : i < reads.length
  · rw [List.getD_eq_getElem?_getD, List.getElem?_eq_getElem hi] at hp
    exact mem_positions.mpr ⟨reads[i], List.getElem_mem hi, hp⟩
  · rw [List.getD_eq_getElem?_getD, List.getElem?_eq_none (by omega)] at hp
    have hd : (default : Read).pos = [] := rfl
    rw [show (none : Option Read).getD default = default from rfl, hd] at hp
    simp at hp

theorem readOps_dom (reads : List Read) (i : Nat) : ∀ o ∈ readOps (getRead reads i),
    o.1 ∈ positions reads ∧ o.2 ∈ positions reads := by
  intro o ho
  unfold readOps at ho
  obtain ⟨p, hp, rfl⟩ := List.mem_map.mp ho
  have hne : (getRead reads i).pos ≠ [] := by
    intro h0; rw [h0] at hp; simp at hp
  refine ⟨getRead_pos_sub reads i _ ?_, getRead_pos_sub reads i _ (List.mem_of_mem_tail hp)⟩
  unfold Read.first
  cases hq : (getRead reads i).pos with
  | nil => exact absurd hq hne
  | cons a as => simp

theorem Comp.dom_init (P : List Nat) : (Comp.init P).dom = P := by
  unfold Comp.dom Comp.init
  rw [List.map_map]
  simp [Function.comp_def]

/-- `bridgeInit`'s component finder is the same for every order of `reads_in_slice` -/
theorem comp_of_inSlice_perm (reads : List Read) {a b : List Nat} (h : a ~ b) :
    a.foldl (fun c i => c.mergeRead (getRead reads i)) (Comp.init (positions reads)) =
    b.foldl (fun c i => c.mergeRead (getRead reads i)) (Comp.init (positions reads)) := by
  rw [Comp.foldl_mergeRead_eq, Comp.foldl_mergeRead_eq]
  apply Comp.mergeAll_perm (h.flatMap_right _)
  intro o ho
  obtain ⟨i, -, hi⟩ := List.mem_flatMap.mp ho
  rw [Comp.dom_init]
  exact readOps_dom reads i o hi

end WhVerif.C07

import WhVerif.Model.C04
/-! Lemmas about the header pipeline (`outputHeader`): definitions survive every step. -/
set_option linter.unusedSimpArgs false
namespace WhVerif.C04

theorem defined_iff {h : List HLine} {k i : String} :
    defined h k i = true ↔ ∃ l ∈ h, l.key = k ∧ l.id = some i := by
  simp [defined, List.any_eq_true]

theorem defined_append_left {h h2 : List HLine} {k i : String} (hd : defined h k i = true) :
    defined (h ++ h2) k i = true := by
  rw [defined_iff] at hd ⊢
  obtain ⟨l, hl, h1⟩ := hd
  exact ⟨l, List.mem_append_left _ hl, h1⟩

theorem mem_addLine {h : List HLine} {x l : HLine} (hl : l ∈ h) : l ∈ addLine h x := by
  unfold addLine
  split
  · split
    · exact hl
    · exact List.mem_append_left _ hl
  · exact List.mem_append_left _ hl

theorem defined_addLine {h : List HLine} {x : HLine} {k i : String} (hd : defined h k i = true) :
    defined (addLine h x) k i = true := by
  rw [defined_iff] at hd ⊢
  obtain ⟨l, hl, h1⟩ := hd
  exact ⟨l, mem_addLine hl, h1⟩

theorem defined_addLine_self (h : List HLine) (x : HLine) (i : String) (hx : x.id = some i) :
    defined (addLine h x) x.key i = true := by
  unfold addLine
  rw [hx]
  simp only
  split
  · assumption
  · rw [defined_iff]; exact ⟨x, by simp, rfl, hx⟩

theorem defined_removeDef {h : List HLine} {k0 i0 k i : String} (hd : defined h k i = true)
    (hne : ¬(k = k0 ∧ i = i0)) : defined (removeDef h k0 i0) k i = true := by
  rw [defined_iff] at hd ⊢
  obtain ⟨l, hl, h1, h2⟩ := hd
  refine ⟨l, ?_, h1, h2⟩
  simp only [removeDef, List.mem_filter, hl, true_and, Bool.not_eq_true', Bool.and_eq_false_imp, decide_eq_true_eq,
    decide_eq_false_iff_not]
  intro hk hi
  apply hne
  rw [h2] at hi
  exact ⟨h1.symm.trans hk, Option.some.inj hi⟩

theorem mem_removeDef {h : List HLine} {k0 i0 : String} {l : HLine} (hl : l ∈ h) (hk : l.key ≠ k0) :
    l ∈ removeDef h k0 i0 := by
  simp [removeDef, List.mem_filter, hl, hk]

theorem defined_addFormats {fs : List String} {h h' : List HLine} (hout : addFormats h fs = some h')
    {k i : String} (hd : defined h k i = true) : defined h' k i = true := by
  induction fs generalizing h with
  | nil => simp only [addFormats, Option.some.injEq] at hout; subst hout; exact hd
  | cons f rest ih =>
    simp only [addFormats] at hout
    split at hout
    · rename_i num typ _
      apply ih hout
      by_cases hkf : k = "FORMAT" ∧ i = f
      · obtain ⟨rfl, rfl⟩ := hkf
        exact defined_addLine_self _ ⟨"FORMAT", some i, num, typ, ""⟩ i rfl
      · exact defined_addLine (defined_removeDef hd hkf)
    · cases hout

theorem mem_addFormats {fs : List String} {h h' : List HLine} (hout : addFormats h fs = some h')
    {l : HLine} (hl : l ∈ h) (hk : l.key ≠ "FORMAT") : l ∈ h' := by
  induction fs generalizing h with
  | nil => simp only [addFormats, Option.some.injEq] at hout; subst hout; exact hl
  | cons f rest ih =>
    simp only [addFormats] at hout
    split at hout
    · exact ih hout (mem_addLine (mem_removeDef hl hk))
    · cases hout

theorem defined_addInfos {fs : List String} {h h' : List HLine} (hout : addInfos h fs = some h')
    {k i : String} (hd : defined h k i = true) : defined h' k i = true := by
  induction fs generalizing h with
  | nil => simp only [addInfos, Option.some.injEq] at hout; subst hout; exact hd
  | cons f rest ih =>
    simp only [addInfos] at hout
    split at hout
    · exact ih hout (defined_addLine hd)
    · cases hout

theorem mem_addInfos {fs : List String} {h h' : List HLine} (hout : addInfos h fs = some h')
    {l : HLine} (hl : l ∈ h) : l ∈ h' := by
  induction fs generalizing h with
  | nil => simp only [addInfos, Option.some.injEq] at hout; subst hout; exact hl
  | cons f rest ih =>
    simp only [addInfos] at hout
    split at hout
    · exact ih hout (mem_addLine hl)
    · cases hout

theorem defined_foldContigs (cs : List String) (h : List HLine) {k i : String} (hd : defined h k i = true) :
    defined (cs.foldl (fun h c => addLine h ⟨"contig", some c, "", "", ""⟩) h) k i = true := by
  induction cs generalizing h with
  | nil => exact hd
  | cons c rest ih => exact ih _ (defined_addLine hd)

theorem mem_foldContigs (cs : List String) (h : List HLine) {l : HLine} (hl : l ∈ h) :
    l ∈ cs.foldl (fun h c => addLine h ⟨"contig", some c, "", "", ""⟩) h := by
  induction cs generalizing h with
  | nil => exact hl
  | cons c rest ih => exact ih _ (mem_addLine hl)

theorem mem_removeFirstPhasing {h : List HLine} {l : HLine} (hl : l ∈ h) (hk : l.key ≠ "phasing") :
    l ∈ removeFirstPhasing h := by
  induction h with
  | nil => cases hl
  | cons a r ih =>
    unfold removeFirstPhasing
    split
    · rename_i ha
      rcases List.mem_cons.mp hl with rfl | hr
      · exact absurd ha hk
      · exact hr
    · rcases List.mem_cons.mp hl with rfl | hr
      · exact List.mem_cons_self
      · exact List.mem_cons_of_mem _ (ih hr)

theorem defined_removeFirstPhasing {h : List HLine} {k i : String} (hd : defined h k i = true) (hk : k ≠ "phasing") :
    defined (removeFirstPhasing h) k i = true := by
  rw [defined_iff] at hd ⊢
  obtain ⟨l, hl, h1, h2⟩ := hd
  exact ⟨l, mem_removeFirstPhasing hl (h1 ▸ hk), h1, h2⟩

/-- at most one line disappears in `removeFirstPhasing`, and it is a `phasing` line -/
theorem removeFirstPhasing_length (h : List HLine) : h.length ≤ (removeFirstPhasing h).length + 1 := by
  induction h with
  | nil => simp [removeFirstPhasing]
  | cons a r ih =>
    unfold removeFirstPhasing
    split
    · simp
    · simp only [List.length_cons]; omega

end WhVerif.C04

import WhVerif.Lemmas.C01Bits
import WhVerif.Lemmas.InterfaceDp
import WhVerif.Lemmas.MinLemmas
/-! Instantiation of the abstract interface DP with the (Ped)MEC column structure. Core Lean only. -/
set_option linter.unusedSimpArgs false
namespace WhVerif.C01
open WhVerif.Cost WhVerif.InterfaceDp

/-- the solver's precondition: reads are sorted by the column of their first variant -/
structure WF (I : Inst) : Prop where
  sorted : ∀ r1 r2, r1 ≤ r2 → r2 < I.nreads → (I.read r1).first ≤ (I.read r2).first

abbrev X := List Bool × List Nat
abbrev V := List Bool × Nat × Nat
abbrev Ifc := List Bool × Nat

def vw (I : Inst) (c : Nat) (x : X) : V := (restrict x.1 (I.activeAt c), x.2.getD (c - 1) 0, x.2.getD c 0)
def ifc (I : Inst) (c : Nat) (x : X) : Ifc := (restrict x.1 (I.sharedAt c), x.2.getD c 0)
def pj (I : Inst) (c : Nat) (a : V) : Ifc := (fwdBits I c a.1, a.2.2)
def qj (I : Inst) (c : Nat) (a : V) : Ifc := (a.1.take (I.sharedAt c).length, a.2.1)
def gc (I : Inst) (c : Nat) (a : V) : Option Nat :=
  cadd (colCost I c a.1 a.2.2) (some (popcount (a.2.2 ^^^ a.2.1) * I.recombAt c))
def viewsAt (I : Inst) (c : Nat) : List V :=
  if c = 0 then
    (allBools (I.activeAt c).length).flatMap (fun bs => (List.range I.ntrans).map (fun t => (bs, t, t)))
  else
    (allBools (I.activeAt c).length).flatMap (fun bs =>
      (List.range I.ntrans).flatMap (fun j => (List.range I.ntrans).map (fun t => (bs, j, t))))

/-! ### list lemmas -/

theorem filterMap_zip_map {α β} (l : List α) (f : α → β) (P : α → Bool) :
    ((l.zip (l.map f)).filterMap (fun rb => if P rb.1 then some rb.2 else none)) = (l.filter P).map f := by
  induction l with
  | nil => rfl
  | cons a l ih =>
    simp only [List.map_cons, List.zip_cons_cons, List.filterMap_cons, List.filter_cons]
    by_cases h : P a <;> simp [h, ih]

theorem fwdBits_restrict (I : Inst) (c : Nat) (β : List Bool) :
    fwdBits I c (restrict β (I.activeAt c)) = restrict β (I.sharedAt c) := by
  unfold fwdBits restrict Inst.sharedAt
  have := filterMap_zip_map (I.activeAt c) (fun r => β.getD r false)
    (fun r => decide (c + 1 ≤ (I.read r).last))
  simpa using this

theorem filter_eq_takeWhile {α} (l : List α) (P : α → Bool)
    (h : l.Pairwise (fun a b => P b = true → P a = true)) : l.filter P = l.takeWhile P := by
  induction l with
  | nil => rfl
  | cons a l ih =>
    rw [List.pairwise_cons] at h
    by_cases hp : P a = true
    · simp [List.filter_cons, List.takeWhile_cons, hp, ih h.2]
    · have : l.filter P = [] := by
        rw [List.filter_eq_nil_iff]
        intro b hb hpb
        exact hp (h.1 b hb hpb)
      simp [List.filter_cons, List.takeWhile_cons, hp, this]

theorem take_length_takeWhile {α} (l : List α) (P : α → Bool) :
    l.take (l.takeWhile P).length = l.takeWhile P := by
  induction l with
  | nil => rfl
  | cons a l ih =>
    by_cases hp : P a = true <;> simp [List.takeWhile_cons, hp, ih]

/-- under sortedness, the reads shared between columns `c` and `c+1` are a prefix of column `c+1`'s reads:
this is what makes the code's backward projection `index & (2^w - 1)` a restriction -/
theorem shared_prefix (I : Inst) (h : WF I) (c : Nat) :
    (I.activeAt (c + 1)).take (I.sharedAt c).length = I.sharedAt c := by
  have hS : I.sharedAt c = (I.activeAt (c + 1)).filter (fun r => decide ((I.read r).first ≤ c)) := by
    unfold Inst.sharedAt Inst.activeAt
    simp only [List.filter_filter]
    apply List.filter_congr
    intro r _
    by_cases h1 : (I.read r).first ≤ c <;> by_cases h2 : c + 1 ≤ (I.read r).last <;> simp [h1, h2] <;> omega
  have hpw : (I.activeAt (c + 1)).Pairwise
      (fun a b => decide ((I.read b).first ≤ c) = true → decide ((I.read a).first ≤ c) = true) := by
    unfold Inst.activeAt
    apply List.Pairwise.filter
    have : (List.range I.nreads).Pairwise (fun a b => a < b ∧ b < I.nreads) := by
      have h1 : (List.range I.nreads).Pairwise (· < ·) := List.pairwise_lt_range
      have h2 : ∀ b ∈ List.range I.nreads, b < I.nreads := fun b hb => List.mem_range.mp hb
      exact (List.Pairwise.and_mem.mp h1).imp (fun ⟨_, hb, hab⟩ => ⟨hab, h2 _ hb⟩)
    refine this.imp ?_
    intro a b ⟨hab, hb⟩ hpb
    have := h.sorted a b (by omega) hb
    simp only [decide_eq_true_eq] at hpb ⊢
    omega
  rw [hS, filter_eq_takeWhile _ _ hpw, take_length_takeWhile]


/-! ### membership, lookups -/

theorem mem_activeAt (I : Inst) (c r : Nat) :
    r ∈ I.activeAt c ↔ r < I.nreads ∧ (I.read r).first ≤ c ∧ c ≤ (I.read r).last := by
  simp [Inst.activeAt]

theorem mem_sharedAt (I : Inst) (c r : Nat) :
    r ∈ I.sharedAt c ↔ r < I.nreads ∧ (I.read r).first ≤ c ∧ c + 1 ≤ (I.read r).last := by
  simp only [Inst.sharedAt, List.mem_filter, mem_activeAt, decide_eq_true_eq]
  constructor
  · rintro ⟨⟨h1, h2, _⟩, h4⟩; exact ⟨h1, h2, h4⟩
  · rintro ⟨h1, h2, h3⟩; exact ⟨⟨h1, h2, by omega⟩, h3⟩

theorem getD_map_range {α} (n : Nat) (f : Nat → α) (i : Nat) (d : α) :
    ((List.range n).map f).getD i d = if i < n then f i else d := by
  by_cases h : i < n
  · simp [List.getD_eq_getElem?_getD, h]
  · simp [List.getD_eq_getElem?_getD, h]

theorem activeAt_nodup (I : Inst) (c : Nat) : (I.activeAt c).Nodup := by
  unfold Inst.activeAt
  exact List.Pairwise.filter _ List.nodup_range

theorem map_lookup_zip (l : List Nat) (bs : List Bool) (hn : l.Nodup) (hl : bs.length = l.length) :
    l.map (fun r => ((l.zip bs).lookup r).getD false) = bs := by
  induction l generalizing bs with
  | nil => cases bs <;> simp_all
  | cons a l ih =>
    cases bs with
    | nil => simp at hl
    | cons b bs =>
      rw [List.nodup_cons] at hn
      simp only [List.zip_cons_cons, List.map_cons, List.lookup_cons_self, Option.getD_some, List.cons.injEq, true_and]
      rw [← ih bs hn.2 (by simpa using hl)]
      apply List.map_congr_left
      intro r hr
      have : (r == a) = false := by
        simp only [beq_eq_false_iff_ne]
        rintro rfl; exact hn.1 hr
      rw [ih bs hn.2 (by simpa using hl)]
      simp [List.lookup_cons, this]

theorem restrict_length (β : List Bool) (l : List Nat) : (restrict β l).length = l.length := by
  simp [restrict]

theorem restrict_congr (β β' : List Bool) (l : List Nat) (h : ∀ r ∈ l, β.getD r false = β'.getD r false) :
    restrict β l = restrict β' l := by
  unfold restrict
  exact List.map_congr_left h

theorem getD_mem_lt (τ : List Nat) (m c : Nat) (h : ∀ t ∈ τ, t < m) (hm : 0 < m) : τ.getD c 0 < m := by
  rw [List.getD_eq_getElem?_getD]
  cases hc : τ[c]? with
  | none => simpa using hm
  | some t => simpa using h t (List.mem_of_getElem? hc)

theorem ntrans_pos (I : Inst) : 0 < I.ntrans := by
  unfold Inst.ntrans; exact Nat.pow_pos (by omega)

/-! ### views are exactly the images of the global solutions -/

theorem mem_viewsAt (I : Inst) (c : Nat) (a : V) :
    a ∈ viewsAt I c ↔ a.1.length = (I.activeAt c).length ∧ a.2.1 < I.ntrans ∧ a.2.2 < I.ntrans ∧
      (c = 0 → a.2.1 = a.2.2) := by
  obtain ⟨bs, j, t⟩ := a
  unfold viewsAt
  by_cases hc : c = 0
  · subst hc
    simp only [if_true, List.mem_flatMap, List.mem_map, List.mem_range, Prod.mk.injEq, mem_allBools]
    constructor
    · rintro ⟨bs', hbs, t', ht', rfl, rfl, rfl⟩
      exact ⟨hbs, ht', ht', fun _ => rfl⟩
    · rintro ⟨h1, h2, h3, h4⟩
      have h4' : j = t := by simpa using h4
      exact ⟨bs, h1, t, h3, rfl, h4'.symm, rfl⟩
  · simp only [if_neg hc, List.mem_flatMap, List.mem_map, List.mem_range, Prod.mk.injEq, mem_allBools]
    constructor
    · rintro ⟨bs', hbs, j', hj', t', ht', rfl, rfl, rfl⟩
      exact ⟨hbs, hj', ht', fun h => absurd h hc⟩
    · rintro ⟨h1, h2, h3, _⟩
      exact ⟨bs, h1, j, h2, t, h3, rfl, rfl, rfl⟩

theorem hviews (I : Inst) (c : Nat) (hc : c < I.ncols) (a : V) :
    a ∈ viewsAt I c ↔ ∃ x ∈ solutions I, vw I c x = a := by
  rw [mem_viewsAt]
  constructor
  · rintro ⟨h1, h2, h3, h4⟩
    obtain ⟨bs, j, t⟩ := a
    simp only at h1 h2 h3 h4
    refine ⟨((List.range I.nreads).map (fun r => (((I.activeAt c).zip bs).lookup r).getD false),
             (List.range I.ncols).map (fun c' => if c' = c then t else j)), ?_, ?_⟩
    · rw [mem_solutions]
      refine ⟨by simp, by simp, ?_⟩
      intro x hx
      simp only [List.mem_map, List.mem_range] at hx
      obtain ⟨c', _, rfl⟩ := hx
      split <;> assumption
    · simp only [vw, Prod.mk.injEq]
      refine ⟨?_, ?_, ?_⟩
      · rw [← map_lookup_zip (I.activeAt c) bs (activeAt_nodup I c) h1]
        unfold restrict
        apply List.map_congr_left
        intro r hr
        rw [getD_map_range, if_pos ((mem_activeAt I c r).mp hr).1]
        rw [map_lookup_zip (I.activeAt c) bs (activeAt_nodup I c) h1]
      · rw [getD_map_range, if_pos (by omega)]
        by_cases h0 : c = 0
        · subst h0; simp [h4 rfl]
        · rw [if_neg (by omega)]
      · rw [getD_map_range, if_pos hc, if_pos rfl]
  · rintro ⟨⟨β, τ⟩, hx, rfl⟩
    rw [mem_solutions] at hx
    simp only [vw]
    refine ⟨restrict_length _ _, getD_mem_lt τ _ _ hx.2.2 (ntrans_pos I), getD_mem_lt τ _ _ hx.2.2 (ntrans_pos I), ?_⟩
    rintro rfl; rfl

/-! ### gluing -/

theorem glue (I : Inst) (c : Nat) (x y : X) (hx : x ∈ solutions I) (hy : y ∈ solutions I)
    (hi : ifc I c x = ifc I c y) :
    ∃ z ∈ solutions I, (∀ c', c' ≤ c → vw I c' z = vw I c' y) ∧ (∀ c', c < c' → vw I c' z = vw I c' x) := by
  obtain ⟨βx, τx⟩ := x
  obtain ⟨βy, τy⟩ := y
  rw [mem_solutions] at hx hy
  simp only at hx hy
  simp only [ifc, Prod.mk.injEq] at hi
  obtain ⟨hiβ, hiτ⟩ := hi
  let βz := (List.range I.nreads).map (fun r => if (I.read r).first ≤ c then βy.getD r false else βx.getD r false)
  let τz := (List.range I.ncols).map (fun c' => if c' ≤ c then τy.getD c' 0 else τx.getD c' 0)
  have hτz : ∀ k, τz.getD k 0 = if k ≤ c then τy.getD k 0 else τx.getD k 0 := by
    intro k
    simp only [τz, getD_map_range]
    by_cases hk : k < I.ncols
    · rw [if_pos hk]
    · have h1 : τy.getD k 0 = 0 := by
        rw [List.getD_eq_getElem?_getD, List.getElem?_eq_none (by omega)]; rfl
      have h2 : τx.getD k 0 = 0 := by
        rw [List.getD_eq_getElem?_getD, List.getElem?_eq_none (by omega)]; rfl
      rw [if_neg hk]
      split
      · exact h1.symm
      · exact h2.symm
  have hβz : ∀ r, r < I.nreads → βz.getD r false = if (I.read r).first ≤ c then βy.getD r false else βx.getD r false := by
    intro r hr
    simp only [βz, getD_map_range, if_pos hr]
  refine ⟨(βz, τz), ?_, ?_, ?_⟩
  · rw [mem_solutions]
    refine ⟨by simp [βz], by simp [τz], ?_⟩
    intro t ht
    simp only [τz, List.mem_map, List.mem_range] at ht
    obtain ⟨c', _, rfl⟩ := ht
    split
    · exact getD_mem_lt τy _ _ hy.2.2 (ntrans_pos I)
    · exact getD_mem_lt τx _ _ hx.2.2 (ntrans_pos I)
  · intro c' hc'
    simp only [vw, Prod.mk.injEq]
    refine ⟨?_, ?_, ?_⟩
    · apply restrict_congr
      intro r hr
      have := (mem_activeAt I c' r).mp hr
      rw [hβz r this.1, if_pos (by omega)]
    · rw [hτz, if_pos (by omega)]
    · rw [hτz, if_pos hc']
  · intro c' hc'
    simp only [vw, Prod.mk.injEq]
    refine ⟨?_, ?_, ?_⟩
    · apply restrict_congr
      intro r hr
      have hr' := (mem_activeAt I c' r).mp hr
      rw [hβz r hr'.1]
      by_cases hf : (I.read r).first ≤ c
      · rw [if_pos hf]
        -- r is shared between c and c+1, so x and y agree on it
        have hsh : r ∈ I.sharedAt c := (mem_sharedAt I c r).mpr ⟨hr'.1, hf, by omega⟩
        unfold restrict at hiβ
        exact ((List.map_inj_left.mp hiβ) r hsh).symm
      · rw [if_neg hf]
    · rw [hτz]
      by_cases h1 : c' - 1 ≤ c
      · have : c' - 1 = c := by omega
        rw [if_pos h1, this, hiτ]
      · rw [if_neg h1]
    · rw [hτz, if_neg (by omega)]

end WhVerif.C01

import WhVerif.Lemmas.C07
/-!
# C07 helper lemmas, part D: positions that are not variants of the read set, and the per-family cap.
-/
namespace WhVerif.C07

theorem exists_max_of_ne_nil : ∀ (l : List Nat), l ≠ [] → ∃ m ∈ l, ∀ x ∈ l, x ≤ m
  | [], h => absurd rfl h
  | [a], _ => ⟨a, by simp, by simp⟩
  | a :: b :: rest, _ => by
    obtain ⟨m, hm, hmax⟩ := exists_max_of_ne_nil (b :: rest) (by simp)
    by_cases h : a ≤ m
    · refine ⟨m, List.mem_cons_of_mem _ hm, ?_⟩
      intro x hx
      rcases List.mem_cons.mp hx with rfl | hx
      · exact h
      · exact hmax x hx
    · refine ⟨a, by simp, ?_⟩
      intro x hx
      rcases List.mem_cons.mp hx with rfl | hx
      · exact Nat.le_refl _
      · have := hmax x hx; omega

theorem first_mem_pos {r : Read} (h : r.pos ≠ []) : r.first ∈ r.pos := by
  unfold Read.first
  cases hp : r.pos with
  | nil => exact absurd hp h
  | cons a as => simp

theorem getRead_mem {reads : List Read} {i : Nat} (hi : i < reads.length) : getRead reads i ∈ reads := by
  have : getRead reads i = reads[i] := by simp [getRead, List.getD_eq_getElem?_getD, List.getElem?_eq_getElem hi]
  rw [this]; exact List.getElem_mem hi

/-- a read spanning `q` spans the nearest variant of its own read set at or below `q`; hence the span count
at an arbitrary position is dominated by the span count at a variant of the read set -/
theorem countSel_le_own {reads : List Read} {sel : List Nat}
    (hlt : ∀ i ∈ sel, i < reads.length) (hne : ∀ r ∈ reads, r.pos ≠ []) (q : Nat) :
    countSel reads sel q = 0 ∨ ∃ p ∈ positions reads, countSel reads sel q ≤ countSel reads sel p := by
  have hfirst : ∀ i ∈ sel, (getRead reads i).first ∈ positions reads := by
    intro i hi
    have hm := getRead_mem (hlt i hi)
    exact mem_positions.mpr ⟨_, hm, first_mem_pos (hne _ hm)⟩
  by_cases hF : (positions reads).filter (fun p => decide (p ≤ q)) = []
  · left
    unfold countSel
    apply List.countP_eq_zero.mpr
    intro i hi hs
    simp only [Read.spans, Bool.and_eq_true, decide_eq_true_eq] at hs
    have : (getRead reads i).first ∈ (positions reads).filter (fun p => decide (p ≤ q)) :=
      List.mem_filter.mpr ⟨hfirst i hi, by simpa using hs.1⟩
    rw [hF] at this
    simp at this
  · right
    obtain ⟨m, hm, hmax⟩ := exists_max_of_ne_nil _ hF
    obtain ⟨hmP, hmq⟩ := List.mem_filter.mp hm
    have hmq' : m ≤ q := by simpa using hmq
    refine ⟨m, hmP, ?_⟩
    unfold countSel
    apply List.countP_mono_left
    intro i hi hs
    simp only [Read.spans, Bool.and_eq_true, decide_eq_true_eq] at hs ⊢
    have : (getRead reads i).first ≤ m :=
      hmax _ (List.mem_filter.mpr ⟨hfirst i hi, by simpa using hs.1⟩)
    exact ⟨this, by omega⟩

theorem sum_map_le {α : Type} (l : List α) (f : α → Nat) (c : Nat) (h : ∀ x ∈ l, f x ≤ c) :
    (l.map f).sum ≤ l.length * c := by
  induction l with
  | nil => simp
  | cons a as ih =>
    have h1 := h a (by simp)
    have h2 := ih (fun x hx => h x (List.mem_cons_of_mem _ hx))
    simp only [List.map_cons, List.sum_cons, List.length_cons]
    rw [Nat.succ_mul]
    omega

theorem countReads_map (reads : List Read) (sel : List Nat) (q : Nat) :
    countReads (sel.map (getRead reads)) q = countSel reads sel q := by
  simp [countReads, countSel, List.countP_map, Function.comp_def]

theorem perSampleCap_mul_le {k m : Nat} (h : m ≤ k) : m * perSampleCap k m ≤ k := by
  unfold perSampleCap
  by_cases hm : m = 0
  · subst hm; simp
  · have h1 : 1 ≤ k / m := (Nat.one_le_div_iff (by omega)).mpr h
    rw [Nat.max_eq_right h1]
    exact Nat.mul_div_le k m

end WhVerif.C07

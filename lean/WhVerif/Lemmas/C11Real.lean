import WhVerif.Lemmas.C11PolyPairs
/-!
# C11: realisability of the `(switches, flips)` pairs of the polyploid calculator

Every pair recorded at a kept entry of the coded DP (hence every pair the back-tracking may return, under any
iteration order of the `unordered_map`s, and the first-arg-min representative) is the `(switches, flips)` count of
an actual sequence of haplotype correspondences, one permutation per position, ending in the entry's permutation.
Induction over the columns; paths are kept last-column-first (`Real`) and reversed at the end.
-/
namespace WhVerif.C11

/-! ### reversal of a sequence of correspondences -/

theorem seqSwitches_append_two (l : List Perm) (a b : Perm) :
    Spec.seqSwitches (l ++ [a, b]) = Spec.seqSwitches (l ++ [a]) + hamming a b := by
  induction l with
  | nil => simp [Spec.seqSwitches]
  | cons x l ih =>
    cases l with
    | nil => simp [Spec.seqSwitches]
    | cons y l =>
      simp only [List.cons_append, Spec.seqSwitches] at ih ⊢
      omega

theorem seqSwitches_reverse (l : List Perm) : Spec.seqSwitches l.reverse = Spec.seqSwitches l := by
  induction l with
  | nil => rfl
  | cons a l ih =>
    cases l with
    | nil => rfl
    | cons b l =>
      have h1 : (a :: b :: l).reverse = l.reverse ++ [b, a] := by simp
      have h2 : (b :: l).reverse = l.reverse ++ [b] := by simp
      rw [h1, seqSwitches_append_two, ← h2, ih]
      simp only [Spec.seqSwitches]
      rw [hamming_symm b a]
      omega

theorem seqFlips_append_one (s : List Perm) (cs : List (List Nat × List Nat)) (a : Perm) (c : List Nat × List Nat)
    (h : s.length = cs.length) :
    Spec.seqFlips (s ++ [a]) (cs ++ [c]) = Spec.seqFlips s cs + numFlips a c.1 c.2 := by
  induction s generalizing cs with
  | nil =>
    cases cs with
    | nil => obtain ⟨c0, c1⟩ := c; simp [Spec.seqFlips]
    | cons _ _ => simp at h
  | cons x s ih =>
    cases cs with
    | nil => simp at h
    | cons d cs =>
      obtain ⟨d0, d1⟩ := d
      have := ih cs (by simpa using h)
      simp only [List.cons_append, Spec.seqFlips] at this ⊢
      omega

theorem seqFlips_reverse (s : List Perm) (cs : List (List Nat × List Nat)) (h : s.length = cs.length) :
    Spec.seqFlips s.reverse cs.reverse = Spec.seqFlips s cs := by
  induction s generalizing cs with
  | nil =>
    cases cs with
    | nil => rfl
    | cons _ _ => simp at h
  | cons x s ih =>
    cases cs with
    | nil => simp at h
    | cons d cs =>
      obtain ⟨d0, d1⟩ := d
      have hl : s.length = cs.length := by simpa using h
      rw [List.reverse_cons, List.reverse_cons, seqFlips_append_one _ _ _ _ (by simpa using hl), ih cs hl]
      simp only [Spec.seqFlips]
      omega

/-! ### the invariant -/

/-- `sf` is the `(switches, flips)` count of a path through the columns `rcols` (LAST column first) that consists of
elements of `ps` and ends in `π` -/
def Real (ps : List Perm) (rcols : List (List Nat × List Nat)) (π : Perm) (sf : Nat × Nat) : Prop :=
  ∃ rs : List Perm, (π :: rs).length = rcols.length ∧ (∀ r ∈ π :: rs, r ∈ ps) ∧
    Spec.seqSwitches (π :: rs) = sf.1 ∧ Spec.seqFlips (π :: rs) rcols = sf.2

def PairsReal (ps : List Perm) (rcols : List (List Nat × List Nat)) (col : List Entry) : Prop :=
  ∀ e ∈ col, ∀ sf ∈ e.pairs, Real ps rcols e.perm sf

theorem firstColumn_pairsReal (ps : List Perm) (fc : Nat) (c0 c1 : List Nat) :
    PairsReal ps [(c0, c1)] (firstColumn ps fc c0 c1) := by
  intro e he sf hsf
  simp only [firstColumn, List.mem_map] at he
  obtain ⟨π, hπ, rfl⟩ := he
  simp only [List.mem_singleton] at hsf
  subst hsf
  refine ⟨[], rfl, ?_, rfl, ?_⟩
  · intro r hr
    simp only [List.mem_singleton] at hr
    subst hr; exact hπ
  · simp [Spec.seqFlips]

theorem fullColumn_pairsReal (ps : List Perm) (sc fc : Nat) (prev : List Entry) (c0 c1 : List Nat)
    (rcols : List (List Nat × List Nat)) (h : PairsReal ps rcols prev) :
    PairsReal ps ((c0, c1) :: rcols) (fullColumn ps sc fc prev c0 c1) := by
  intro e he sf hsf
  simp only [fullColumn, List.mem_map] at he
  obtain ⟨r, hr, rfl⟩ := he
  simp only [dedupPairs, List.mem_eraseDups, List.mem_flatMap, List.mem_map, List.mem_filter] at hsf
  obtain ⟨e, ⟨he, _⟩, sf0, hsf0, rfl⟩ := hsf
  obtain ⟨rs, hlen, hmem, hsw, hfl⟩ := h e he sf0 hsf0
  refine ⟨e.perm :: rs, by simp only [List.length_cons] at hlen ⊢; omega, ?_, ?_, ?_⟩
  · intro x hx
    rcases List.mem_cons.1 hx with rfl | hx
    · exact hr
    · exact hmem x hx
  · simp only [Spec.seqSwitches, numSwitches] at hsw ⊢
    omega
  · simp only [Spec.seqFlips] at hfl ⊢
    omega

theorem prune_pairsReal (p sc : Nat) (ps : List Perm) (rcols : List (List Nat × List Nat)) (full : List Entry)
    (h : PairsReal ps rcols full) : PairsReal ps rcols (prune p sc full) := by
  intro e he
  simp only [prune] at he
  exact h e (List.mem_filter.1 he).1

theorem runColumns_pairsReal (p : Nat) (ps : List Perm) (sc fc : Nat) (col : List Entry)
    (rest rcols : List (List Nat × List Nat)) (h : PairsReal ps rcols col) :
    PairsReal ps (rest.reverse ++ rcols) (runColumns p ps sc fc col rest) := by
  induction rest generalizing col rcols with
  | nil => simpa [runColumns] using h
  | cons c cs ih =>
    obtain ⟨c0, c1⟩ := c
    simp only [runColumns, nextColumn, List.reverse_cons, List.append_assoc, List.singleton_append]
    exact ih _ _ (prune_pairsReal p sc ps _ _ (fullColumn_pairsReal ps sc fc col c0 c1 rcols h))

/-- a reversed path is a forward sequence with the same counts -/
theorem Real.forward {ps : List Perm} {cols : List (List Nat × List Nat)} {π : Perm} {sf : Nat × Nat}
    (h : Real ps cols.reverse π sf) :
    ∃ s ∈ Spec.seqs ps cols.length, Spec.seqSwitches s = sf.1 ∧ Spec.seqFlips s cols = sf.2 := by
  obtain ⟨rs, hlen, hmem, hsw, hfl⟩ := h
  refine ⟨(π :: rs).reverse, (mem_seqs ps _ _).2 ⟨by simpa using hlen, ?_⟩, ?_, ?_⟩
  · intro r hr; exact hmem r (List.mem_reverse.1 hr)
  · rw [seqSwitches_reverse]; exact hsw
  · have := seqFlips_reverse (π :: rs) cols.reverse (by simpa using hlen)
    rw [List.reverse_reverse] at this
    rw [this]; exact hfl

/-- every pair the (repaired, or ≥ 2 positions) back-tracking may return is the `(switches, flips)` count of an
actual sequence of correspondences, one per position -/
theorem polyCompare_admissible_realised (fixA : Bool) (p sc fc : Nat) (cols : List (List Nat × List Nat))
    (hq : fixA = true ∨ 2 ≤ cols.length) :
    ∀ sf ∈ (polyCompare fixA p sc fc cols).admissible,
      ∃ s ∈ Spec.seqs (perms p) cols.length, Spec.seqSwitches s = sf.1 ∧ Spec.seqFlips s cols = sf.2 := by
  cases cols with
  | nil =>
    intro sf hsf
    simp only [polyCompare, List.mem_singleton] at hsf
    subst hsf
    exact ⟨[], by simp [Spec.seqs], rfl, rfl⟩
  | cons c rest =>
    obtain ⟨c0, c1⟩ := c
    intro sf hsf
    have hreal := runColumns_pairsReal p (perms p) sc fc _ rest [(c0, c1)] (firstColumn_pairsReal (perms p) fc c0 c1)
    have hquirk : (if (rest.isEmpty && !fixA) = true then p - 1 else 0) = 0 := by
      rcases hq with h | h
      · simp [h]
      · cases rest with
        | nil => simp at h
        | cons _ _ => simp
    simp only [polyCompare, hquirk, dedupPairs, List.mem_eraseDups, List.mem_flatMap, List.mem_map,
      List.mem_filter, Nat.add_zero] at hsf
    obtain ⟨e, ⟨he, _⟩, sf0, hsf0, rfl⟩ := hsf
    have hr := hreal e he sf0 hsf0
    have hrev : rest.reverse ++ [(c0, c1)] = ((c0, c1) :: rest).reverse := by simp
    rw [hrev] at hr
    exact hr.forward

/-! ### the representative is one of the admissible pairs, and there is one -/

def RepIn (col : List Entry) : Prop := col ≠ [] ∧ ∀ e ∈ col, e.rep ∈ e.pairs

theorem firstColumn_repIn (ps : List Perm) (hne : ps ≠ []) (fc : Nat) (c0 c1 : List Nat) :
    RepIn (firstColumn ps fc c0 c1) := by
  refine ⟨by simpa [firstColumn] using hne, ?_⟩
  intro e he
  simp only [firstColumn, List.mem_map] at he
  obtain ⟨π, _, rfl⟩ := he
  simp

theorem argmin_ne_nil (l : List Entry) (hne : l ≠ []) (g : Entry → Nat) :
    l.filter (fun e => g e == listMin (l.map g)) ≠ [] := by
  have hm := listMin_mem (l := l.map g) (by simpa using hne)
  obtain ⟨e, he, hee⟩ := List.mem_map.1 hm
  exact List.ne_nil_of_mem (List.mem_filter.2 ⟨he, by simp [hee]⟩)

theorem fullColumn_repIn (ps : List Perm) (hne : ps ≠ []) (sc fc : Nat) (prev : List Entry) (c0 c1 : List Nat)
    (h : RepIn prev) : RepIn (fullColumn ps sc fc prev c0 c1) := by
  refine ⟨by simpa [fullColumn] using hne, ?_⟩
  intro e he
  simp only [fullColumn, List.mem_map] at he
  obtain ⟨r, _, rfl⟩ := he
  have hne' := argmin_ne_nil prev h.1 (fun e => e.score + sc * numSwitches r e.perm)
  simp only [dedupPairs, List.mem_eraseDups, List.mem_flatMap, List.mem_map]
  generalize hA : prev.filter (fun e => e.score + sc * numSwitches r e.perm ==
    listMin (prev.map fun e => e.score + sc * numSwitches r e.perm)) = A at hne' ⊢
  cases A with
  | nil => exact absurd rfl hne'
  | cons a A =>
    have ha : a ∈ prev := (List.mem_filter.1 (hA ▸ List.mem_cons_self : a ∈ prev.filter _)).1
    exact ⟨a, List.mem_cons_self, a.rep, h.2 a ha, rfl⟩

theorem prune_repIn (p sc : Nat) (full : List Entry) (h : RepIn full) : RepIn (prune p sc full) := by
  constructor
  · have hm := listMin_mem (l := full.map (·.score)) (by simpa using h.1)
    obtain ⟨e, he, hee⟩ := List.mem_map.1 hm
    refine List.ne_nil_of_mem (a := e) ?_
    simp only [prune]
    exact List.mem_filter.2 ⟨he, by simp [hee]⟩
  · intro e he
    simp only [prune] at he
    exact h.2 e (List.mem_filter.1 he).1

theorem runColumns_repIn (p : Nat) (ps : List Perm) (hne : ps ≠ []) (sc fc : Nat) (col : List Entry)
    (rest : List (List Nat × List Nat)) (h : RepIn col) : RepIn (runColumns p ps sc fc col rest) := by
  induction rest generalizing col with
  | nil => exact h
  | cons c cs ih =>
    obtain ⟨c0, c1⟩ := c
    simp only [runColumns, nextColumn]
    exact ih _ (prune_repIn p sc _ (fullColumn_repIn ps hne sc fc col c0 c1 h))

/-- the deterministic representative (first arg-min everywhere) is one of the admissible pairs -/
theorem polyCompare_rep_admissible (fixA : Bool) (p sc fc : Nat) (hne : perms p ≠ [])
    (cols : List (List Nat × List Nat)) :
    (polyCompare fixA p sc fc cols).rep ∈ (polyCompare fixA p sc fc cols).admissible := by
  cases cols with
  | nil => simp [polyCompare]
  | cons c rest =>
    obtain ⟨c0, c1⟩ := c
    have hrep := runColumns_repIn p (perms p) hne sc fc _ rest (firstColumn_repIn (perms p) hne fc c0 c1)
    have hne' := argmin_ne_nil _ hrep.1 (fun e => e.score)
    simp only [polyCompare, dedupPairs, List.mem_eraseDups, List.mem_flatMap, List.mem_map]
    generalize hA : (runColumns p (perms p) sc fc (firstColumn (perms p) fc c0 c1) rest).filter
      (fun e => e.score == listMin ((runColumns p (perms p) sc fc (firstColumn (perms p) fc c0 c1) rest).map
        (·.score))) = A at hne' ⊢
    cases A with
    | nil => exact absurd rfl hne'
    | cons a A =>
      have ha := (List.mem_filter.1 (hA ▸ List.mem_cons_self :
        a ∈ (runColumns p (perms p) sc fc (firstColumn (perms p) fc c0 c1) rest).filter _)).1
      exact ⟨a, List.mem_cons_self, a.rep, hrep.2 a ha, rfl⟩

end WhVerif.C11

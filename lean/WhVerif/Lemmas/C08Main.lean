import WhVerif.Lemmas.C08Scale
import WhVerif.Lemmas.C08FB3
import Mathlib.Order.Defs.LinearOrder
/-!
# C08 lemmas, part 9: the generic end results (model = spec, normalisation), the instance guard, GT and GQ.
-/
namespace WhVerif.C08
open Finset

section Generic
variable {K : Type} [Field K] (F : Frame) (W : Weights K) (S : Scal K)

theorem likelihoodSel_eq_posteriorSel (hWF : F.WF) (hS : S.NonZero) (c : Nat) (hc : c < F.nCols)
    (sel : Nat → Nat → Bool) : likelihoodSel F W S c sel = posteriorSel F W c sel := by
  rw [likelihoodSel_scale F W S hS]
  unfold likelihoodSel total posteriorSel
  rw [numer_eq_specNumer F W hWF c hc, numer_eq_specNumer F W hWF c hc]

/-- every cell is counted for exactly one of the three genotypes -/
theorem numer_sum_classes (c : Nat) (cls : Nat → Nat → Nat) (hcls : ∀ t a, cls t a < 3) :
    ∑ g ∈ range 3, numer F W S c (fun t a => cls t a == g) = total F W S c := by
  unfold total
  simp only [numerOf_fbCells]
  rw [sum_comm]; apply sum_congr rfl; intro idx _
  rw [sum_comm]; apply sum_congr rfl; intro t _
  rw [sum_comm]; apply sum_congr rfl; intro a _
  simp only [beq_iff_eq, if_true]
  rw [sum_ite_eq]
  simp [hcls t a]

theorem likelihoodSel_sum_one (c : Nat) (cls : Nat → Nat → Nat) (hcls : ∀ t a, cls t a < 3)
    (htot : total F W S c ≠ 0) :
    ∑ g ∈ range 3, likelihoodSel F W S c (fun t a => cls t a == g) = 1 := by
  unfold likelihoodSel
  simp only [div_eq_mul_inv]
  rw [← sum_mul, numer_sum_classes F W S c cls hcls, mul_inv_cancel₀ htot]

end Generic

theorem genoOf_lt (parts : Nat → Nat → Nat × Nat) (i t a : Nat) : genoOf parts i t a < 3 := by
  unfold genoOf
  simp only []
  split <;> split <;> omega

/-! ### the instance guard implies a sorted frame -/

theorem si_head_le_last : ∀ (l : List (Nat × Nat × Nat)), strictlyIncreasing (l.map (·.1)) = true →
    ∀ e, l.head? = some e → ∀ e', l.getLast? = some e' → e.1 ≤ e'.1
  | [], _, e, h, _, _ => by simp at h
  | [x], _, e, h, e', h' => by
    simp at h h'; subst h; subst h'; exact Nat.le_refl _
  | x :: y :: rest, hsi, e, h, e', h' => by
    simp only [List.map_cons, strictlyIncreasing, Bool.and_eq_true, decide_eq_true_eq] at hsi
    simp only [List.head?_cons, Option.some.injEq] at h
    subst h
    have h2 : (y :: rest).getLast? = some e' := by
      rw [List.getLast?_cons_cons] at h'; exact h'
    have := si_head_le_last (y :: rest) (by simpa using hsi.2) y (by simp) e' h2
    omega

theorem Inst.frame_WF (inst : Inst) (h : inst.WF = true) : inst.frame.WF := by
  unfold Inst.WF at h
  simp only [Bool.and_eq_true, List.all_eq_true, decide_eq_true_eq] at h
  obtain ⟨⟨⟨hA, hB⟩, _⟩, _⟩ := h
  constructor
  · intro r hr
    have hr' : r < inst.reads.length := hr
    have hget : inst.reads[r]? = some inst.reads[r] := List.getElem?_eq_getElem hr'
    have hmem : inst.reads[r] ∈ inst.reads := List.getElem_mem hr'
    obtain ⟨⟨⟨hlen, hsi⟩, hall⟩, _⟩ := hA _ hmem
    simp only [Inst.frame, hget]
    generalize inst.reads[r] = rd at hlen hsi hall
    cases hh : rd.entries.head? with
    | none =>
      have : rd.entries = [] := List.head?_eq_none_iff.mp hh
      rw [this] at hlen; simp at hlen
    | some e =>
      cases hl : rd.entries.getLast? with
      | none =>
        have : rd.entries = [] := List.getLast?_eq_none_iff.mp hl
        rw [this] at hlen; simp at hlen
      | some e' =>
        simp only [Read.first, Read.last, hh, hl]
        constructor
        · exact si_head_le_last rd.entries hsi e hh e' hl
        · exact (hall e' (List.mem_of_getLast? hl)).1
  · intro r hr
    have : r < inst.reads.length - 1 := by
      have : r + 1 < inst.reads.length := hr
      omega
    exact hB r (by simpa using this)

/-! ### GT and GQ -/
section Call
variable {K : Type}

theorem determineGenotype_eq_some [LinearOrder K] (l0 l1 l2 thr : K) (g : Nat) :
    determineGenotype l0 l1 l2 thr = some g ↔
      (g = 0 ∧ thr < l0 ∧ l1 < l0 ∧ l2 < l0) ∨ (g = 1 ∧ thr < l1 ∧ l0 < l1 ∧ l2 < l1)
        ∨ (g = 2 ∧ thr < l2 ∧ l0 < l2 ∧ l1 < l2) := by
  unfold determineGenotype sortStable
  simp only [List.foldl, insertStable]
  split_ifs <;> simp only [insertStable] <;> split_ifs <;> simp <;> (try constructor) <;> (try intro) <;> grind

theorem gqMass_eq [Field K] (l : Nat → K) (g : Nat) (hg : g < 3) (hsum : ∑ i ∈ range 3, l i = 1) :
    gqMass l g = 1 - l g := by
  unfold gqMass
  rw [sumN_eq_sum, ← hsum]
  have h3 : ∀ f : Nat → K, ∑ i ∈ range 3, f i = f 0 + f 1 + f 2 := by
    intro f; simp [sum_range_succ]
  rw [h3, h3]
  have : g = 0 ∨ g = 1 ∨ g = 2 := by omega
  rcases this with rfl | rfl | rfl <;> simp <;> ring

end Call
end WhVerif.C08

import WhVerif.Lemmas.C07
import WhVerif.Lemmas.C07Pop
import WhVerif.Lemmas.C07Term
/-!
# C07 completeness of the tie enumeration, part A: every operation of the model is invariant (up to
permutation) under permutation of the lists that represent sets / multisets / the abstract queue;
`sortBy`, `dedupBy`, `popAll`; the component finder's merges commute.
-/
namespace WhVerif.C07
open List

/-! ## sets as lists -/

theorem insertNew_perm {x : Nat} {a b : List Nat} (h : a ~ b) : insertNew x a ~ insertNew x b := by
  unfold insertNew
  rw [h.contains_eq]
  split
  · exact h
  · exact h.cons x

theorem union_perm_right (a : List Nat) {b c : List Nat} (h : b ~ c) : union a b ~ union a c := by
  induction a with
  | nil => exact h
  | cons x xs ih => rw [union_cons, union_cons]; exact insertNew_perm ih

theorem insertNew_comm (x y : Nat) (l : List Nat) :
    insertNew x (insertNew y l) ~ insertNew y (insertNew x l) := by
  by_cases hxy : x = y
  · subst hxy; exact Perm.refl _
  by_cases hx : x ∈ l <;> by_cases hy : y ∈ l
  · rw [insertNew_of_mem hy, insertNew_of_mem hx, insertNew_of_mem hy]
  · rw [insertNew_of_not_mem hy, insertNew_of_mem hx,
      insertNew_of_mem (List.mem_cons_of_mem _ hx), insertNew_of_not_mem hy]
  · rw [insertNew_of_mem hy, insertNew_of_not_mem hx,
      insertNew_of_mem (List.mem_cons_of_mem _ hy)]
  · rw [insertNew_of_not_mem hy, insertNew_of_not_mem hx,
      insertNew_of_not_mem (by simp [hxy, hx]), insertNew_of_not_mem (by simp [Ne.symm hxy, hy])]
    exact Perm.swap _ _ _

theorem union_perm_left {a a' : List Nat} (h : a ~ a') (b : List Nat) : union a b ~ union a' b := by
  induction h with
  | nil => exact Perm.refl _
  | cons x _ ih => rw [union_cons, union_cons]; exact insertNew_perm ih
  | swap x y l => simp only [union_cons]; exact insertNew_comm _ _ _
  | trans _ _ ih1 ih2 => exact ih1.trans ih2

theorem union_perm {a a' b b' : List Nat} (ha : a ~ a') (hb : b ~ b') : union a b ~ union a' b' :=
  (union_perm_left ha b).trans (union_perm_right a' hb)

/-! ## coverage -/

theorem cov_at_perm {c c' : Cov} (h : c ~ c') (p : Nat) : c.at p = c'.at p := h.countP_eq _

theorem blocked_perm {c c' : Cov} (h : c ~ c') (P : List Nat) (k : Nat) (r : Read) :
    blocked P c k r = blocked P c' k r := by
  unfold blocked
  congr 1
  funext p
  rw [cov_at_perm h]

/-! ## the abstract pop on a permuted queue -/

theorem isMax_perm {pq pq' : List Entry} (h : pq ~ pq') (e : Entry) : isMax pq e = isMax pq' e :=
  h.all_eq

theorem eraseIdx_perm {α : Type} : ∀ (l : List α) (j : Nat) (hj : j < l.length), l[j] :: l.eraseIdx j ~ l
  | x :: xs, 0, _ => Perm.refl _
  | x :: xs, j + 1, hj => by
    have ih := eraseIdx_perm xs j (by simpa using hj)
    simp only [List.getElem_cons_succ, List.eraseIdx_cons_succ]
    exact (Perm.swap _ _ _).trans (ih.cons x)

theorem mem_popAll {pq : List Entry} {x : Nat × Entry × List Entry} :
    x ∈ popAll pq ↔ ∃ ci, ci < (maxIdx pq).length ∧
      x = (ci, pq.getD ((maxIdx pq).getD ci 0) default, pq.eraseIdx ((maxIdx pq).getD ci 0)) := by
  unfold popAll
  simp only [List.mem_map, List.mem_range]
  constructor
  · rintro ⟨ci, h, rfl⟩; exact ⟨ci, h, rfl⟩
  · rintro ⟨ci, h, rfl⟩; exact ⟨ci, h, rfl⟩

theorem popAll_eq_nil {pq : List Entry} : popAll pq = [] ↔ pq = [] := by
  constructor
  · intro h
    by_cases hp : pq = []
    · exact hp
    · exfalso
      have hm := maxIdx_ne_nil hp
      have hlen : 0 < (maxIdx pq).length := List.length_pos_iff.mpr hm
      have : (0, pq.getD ((maxIdx pq).getD 0 0) default, pq.eraseIdx ((maxIdx pq).getD 0 0)) ∈ popAll pq :=
        mem_popAll.mpr ⟨0, hlen, rfl⟩
      rw [h] at this
      simp at this
  · rintro rfl; rfl

/-- a member of `popAll` is what `popChoice` returns for its own choice index -/
theorem popChoice_of_mem_popAll {pq : List Entry} {ci : Nat} {e : Entry} {pq' : List Entry}
    (h : (ci, e, pq') ∈ popAll pq) : popChoice pq ci = some (ci, e, pq') := by
  obtain ⟨ci', hlt, heq⟩ := mem_popAll.mp h
  simp only [Prod.mk.injEq] at heq
  obtain ⟨rfl, rfl, rfl⟩ := heq
  unfold popChoice
  match pq, hlt with
  | x :: xs, hlt =>
    simp only [Nat.mod_eq_of_lt hlt]

/-- a pop of a permuted queue can be matched: same entry, remaining queues permutations of each other -/
theorem popChoice_perm {pq pq' : List Entry} (h : pq ~ pq') {c ci : Nat} {e : Entry} {r : List Entry}
    (hp : popChoice pq c = some (ci, e, r)) :
    ∃ ci' r', (ci', e, r') ∈ popAll pq' ∧ r' ~ r := by
  obtain ⟨j, hj, he, hr⟩ := popChoice_spec hp
  have hmax : isMax pq' e = true := by
    rw [← isMax_perm h]
    unfold isMax
    rw [List.all_eq_true]
    intro f hf
    simpa using popChoice_isMax hp f hf
  have hmem : e ∈ pq' := h.mem_iff.mp (popChoice_mem hp)
  obtain ⟨j', hj', hje⟩ := List.getElem_of_mem hmem
  have hjm : j' ∈ maxIdx pq' := by
    unfold maxIdx
    refine List.mem_filter.mpr ⟨List.mem_range.mpr hj', ?_⟩
    rw [List.getD_eq_getElem?_getD, List.getElem?_eq_getElem hj']
    simpa [hje] using hmax
  obtain ⟨ci', hci', hcie⟩ := List.getElem_of_mem hjm
  have hg : (maxIdx pq').getD ci' 0 = j' := by
    rw [List.getD_eq_getElem?_getD, List.getElem?_eq_getElem hci']; simpa using hcie
  refine ⟨ci', pq'.eraseIdx j', mem_popAll.mpr ⟨ci', hci', ?_⟩, ?_⟩
  · rw [hg, List.getD_eq_getElem?_getD, List.getElem?_eq_getElem hj']
    simp [hje]
  · have h1 := eraseIdx_perm pq' j' hj'
    have h2 := eraseIdx_perm pq j hj
    rw [hje] at h1
    rw [← he, ← hr] at h2
    exact Perm.cons_inv (h1.trans (h.symm.trans h2.symm))

/-! ## insertion sort -/

theorem insertBy_perm {α : Type} (le : α → α → Bool) (x : α) : ∀ l : List α, insertBy le x l ~ x :: l
  | [] => Perm.refl _
  | y :: ys => by
    unfold insertBy
    split
    · exact Perm.refl _
    · exact ((insertBy_perm le x ys).cons y).trans (Perm.swap _ _ _)

theorem sortBy_perm {α : Type} (le : α → α → Bool) : ∀ l : List α, sortBy le l ~ l
  | [] => Perm.refl _
  | x :: xs => by
    show insertBy le x (sortBy le xs) ~ x :: xs
    exact (insertBy_perm le x _).trans ((sortBy_perm le xs).cons x)

theorem perm_of_sortBy_eq {α : Type} (le : α → α → Bool) {a b : List α} (h : sortBy le a = sortBy le b) : a ~ b :=
  (sortBy_perm le a).symm.trans (h ▸ sortBy_perm le b)

theorem insertNat_sorted (x : Nat) : ∀ l : List Nat, l.Pairwise (· ≤ ·) →
    (insertBy (fun a b => decide (a ≤ b)) x l).Pairwise (· ≤ ·)
  | [], _ => by simp [insertBy]
  | y :: ys, h => by
    unfold insertBy
    have hy := List.pairwise_cons.mp h
    split
    · rename_i hxy
      have hxy : x ≤ y := by simpa using hxy
      refine List.pairwise_cons.mpr ⟨?_, h⟩
      intro z hz
      rcases List.mem_cons.mp hz with rfl | hz
      · exact hxy
      · exact Nat.le_trans hxy (hy.1 z hz)
    · rename_i hxy
      have hxy : y ≤ x := by
        have : ¬ x ≤ y := by simpa using hxy
        omega
      refine List.pairwise_cons.mpr ⟨?_, insertNat_sorted x ys hy.2⟩
      intro z hz
      rcases List.mem_cons.mp ((insertBy_perm _ x ys).mem_iff.mp hz) with rfl | hz
      · exact hxy
      · exact hy.1 z hz

theorem sortNat_sorted : ∀ l : List Nat, (sortNat l).Pairwise (· ≤ ·)
  | [] => by simp [sortNat, sortBy]
  | x :: xs => insertNat_sorted x _ (sortNat_sorted xs)

theorem sortNat_eq_of_perm {a b : List Nat} (h : a ~ b) : sortNat a = sortNat b := by
  apply Perm.eq_of_pairwise (le := (· ≤ ·)) _ (sortNat_sorted a) (sortNat_sorted b)
  · exact (sortBy_perm _ a).trans (h.trans (sortBy_perm _ b).symm)
  · intro x y _ _ h1 h2; exact Nat.le_antisymm h1 h2

/-! ## `dedupBy` keeps one representative per key -/

section dedup
variable {α κ : Type} [BEq κ]

def dedupStep (key : α → κ) (acc : List (κ × α)) (x : α) : List (κ × α) :=
  let kx := key x; if acc.any (fun p => p.1 == kx) then acc else (kx, x) :: acc

theorem dedupBy_eq (key : α → κ) (l : List α) :
    dedupBy key l = ((l.foldl (dedupStep key) []).reverse.map (·.2)) := rfl

theorem dedupFold_sub (key : α → κ) : ∀ (l : List α) (acc : List (κ × α)), ∀ p ∈ l.foldl (dedupStep key) acc,
    p ∈ acc ∨ (p.2 ∈ l ∧ p.1 = key p.2)
  | [], acc, p, hp => Or.inl hp
  | x :: xs, acc, p, hp => by
    rw [List.foldl_cons] at hp
    rcases dedupFold_sub key xs _ p hp with h | h
    · unfold dedupStep at h
      simp only at h
      split at h
      · exact Or.inl h
      · rcases List.mem_cons.mp h with rfl | h
        · exact Or.inr ⟨List.mem_cons_self, rfl⟩
        · exact Or.inl h
    · exact Or.inr ⟨List.mem_cons_of_mem _ h.1, h.2⟩

theorem dedupFold_acc (key : α → κ) : ∀ (l : List α) (acc : List (κ × α)), ∀ p ∈ acc, p ∈ l.foldl (dedupStep key) acc
  | [], _, p, hp => hp
  | x :: xs, acc, p, hp => by
    rw [List.foldl_cons]
    apply dedupFold_acc key xs
    unfold dedupStep
    simp only
    split
    · exact hp
    · exact List.mem_cons_of_mem _ hp

theorem dedupFold_cover [LawfulBEq κ] (key : α → κ) : ∀ (l : List α) (acc : List (κ × α)), ∀ x ∈ l,
    ∃ p ∈ l.foldl (dedupStep key) acc, p.1 = key x
  | x :: xs, acc, y, hy => by
    rw [List.foldl_cons]
    rcases List.mem_cons.mp hy with rfl | hy
    · have : ∃ p ∈ dedupStep key acc y, p.1 = key y := by
        unfold dedupStep
        simp only
        split
        · rename_i h
          obtain ⟨p, hp, hk⟩ := List.any_eq_true.mp h
          exact ⟨p, hp, by simpa using hk⟩
        · exact ⟨_, List.mem_cons_self, rfl⟩
      obtain ⟨p, hp, hk⟩ := this
      exact ⟨p, dedupFold_acc key xs _ p hp, hk⟩
    · exact dedupFold_cover key xs _ y hy

theorem mem_of_mem_dedupBy (key : α → κ) {l : List α} {x : α} (h : x ∈ dedupBy key l) : x ∈ l := by
  rw [dedupBy_eq] at h
  obtain ⟨p, hp, rfl⟩ := List.mem_map.mp h
  rcases dedupFold_sub key l [] p (List.mem_reverse.mp hp) with h | h
  · simp at h
  · exact h.1

theorem dedupBy_cover [LawfulBEq κ] (key : α → κ) {l : List α} {x : α} (h : x ∈ l) :
    ∃ y ∈ dedupBy key l, key y = key x := by
  obtain ⟨p, hp, hk⟩ := dedupFold_cover key l [] x h
  refine ⟨p.2, ?_, ?_⟩
  · rw [dedupBy_eq]
    exact List.mem_map.mpr ⟨p, List.mem_reverse.mpr hp, rfl⟩
  · rcases dedupFold_sub key l [] p hp with h | h
    · simp at h
    · rw [← h.2, hk]

end dedup

end WhVerif.C07

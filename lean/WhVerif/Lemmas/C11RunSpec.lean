import WhVerif.Lemmas.C11Glue
import WhVerif.Spec.C11Run
/-!
# C11: the loop of `compare_pair` against the definition of the report (`Spec/C11Run.lean`)

`Good`: the running totals are the sums over the blocks handled so far — an invariant of `pairLoop`; the list of handled
blocks is exactly the list of intersection blocks with ≥ 2 variants, in order.
-/
namespace WhVerif.C11

def Good (st : PairState) : Prop :=
  st.total.switches = (st.perBlock.map (·.2.1.switches)).sum ∧
  st.total.hamming = (st.perBlock.map (·.2.1.hamming)).sum ∧
  st.total.sf.switches = (st.perBlock.map (·.2.1.sf.switches)).sum ∧
  st.total.sf.flips = (st.perBlock.map (·.2.1.sf.flips)).sum ∧
  st.total.diffGenotypes = (st.perBlock.map (·.2.1.diffGenotypes)).sum ∧
  st.pairs = (st.perBlock.map (·.1.length - 1)).sum

theorem Good.step {st st2 : PairState} (hg : Good st) (pos : List Nat) (e : PhasingErrors) (agr : List Nat)
    (h1 : st2.total = addErrors st.total e) (h2 : st2.perBlock = st.perBlock ++ [(pos, e, agr)])
    (h3 : st2.pairs = st.pairs + (pos.length - 1)) : Good st2 := by
  obtain ⟨g1, g2, g3, g4, g5, g6⟩ := hg
  simp only [Good, h1, h2, h3, addErrors, List.map_append, List.sum_append, List.map_cons, List.map_nil,
    List.sum_cons, List.sum_nil, g1, g2, g3, g4, g5, g6]
  omega

theorem pairLoop_good (fixA fixB fix3 fix45 : Bool) (ploidy : Nat) (ph0 ph1 : List (Option (Nat × List Nat)))
    (common : List Nat) (blocks : List (List Nat × List Nat)) :
    ∀ (st st' : PairState), Good st → pairLoop fixA fixB fix3 fix45 ploidy ph0 ph1 common blocks st = some st' → Good st' := by
  induction blocks with
  | nil => intro st st' hg h; simp only [pairLoop, Option.some.injEq] at h; subst h; exact hg
  | cons b rest ih =>
    intro st st' hg h
    obtain ⟨k, block⟩ := b
    unfold pairLoop at h
    split at h
    · exact ih _ _ hg h
    · simp only at h
      split at h
      · cases h
      · rename_i e he
        split at h
        · split at h
          · split at h
            · cases h
            · exact ih _ _ (hg.step (block.map fun i => common.getD i 0) e _ rfl rfl (by simp)) h
          · exact ih _ _ (hg.step (block.map fun i => common.getD i 0) e _ rfl rfl (by simp)) h
        · exact ih _ _ (hg.step (block.map fun i => common.getD i 0) e _ rfl rfl (by simp)) h

/-- the blocks handled by the loop are the intersection blocks of ≥ 2 variants, in order -/
theorem pairLoop_lengths (fixA fixB fix3 fix45 : Bool) (ploidy : Nat) (ph0 ph1 : List (Option (Nat × List Nat)))
    (common : List Nat) (blocks : List (List Nat × List Nat)) :
    ∀ (st st' : PairState), pairLoop fixA fixB fix3 fix45 ploidy ph0 ph1 common blocks st = some st' →
      st'.perBlock.map (·.1.length)
        = st.perBlock.map (·.1.length) ++ (blocks.filter (fun b => decide (2 ≤ b.2.length))).map (·.2.length) := by
  induction blocks with
  | nil => intro st st' h; simp only [pairLoop, Option.some.injEq] at h; subst h; simp
  | cons b rest ih =>
    intro st st' h
    obtain ⟨k, block⟩ := b
    unfold pairLoop at h
    split at h
    · rename_i hlt
      have : ¬ 2 ≤ block.length := by omega
      rw [ih _ _ h]; simp [this]
    · rename_i hlt
      have h2 : 2 ≤ block.length := by omega
      simp only at h
      split at h
      · cases h
      · split at h
        · split at h
          · split at h
            · cases h
            · rw [ih _ _ h]; simp [h2]
          · rw [ih _ _ h]; simp [h2]
        · rw [ih _ _ h]; simp [h2]

theorem good_init : Good {} := by simp [Good]

/-- every pair result of a chromosome is `comparePair` of two call lists (all chromosomes, all pairs) -/
theorem runPairs_results (fix3 fix45 fix46 : Bool) (o : Opts) (tabs : List (List Row)) (sidx : List Nat) (names : List String)
    (het0 : Nat) (l : List (Nat × Nat)) :
    ∀ (acc : List PairOut) (po : PairOut), po ∈ (runPairs fix3 fix45 fix46 o tabs sidx names het0 l acc).1 →
      po ∈ acc ∨ ∃ t0 t1, po.result = comparePair true true fix3 fix45 fix46 o.ploidy t0 t1 := by
  induction l with
  | nil => intro acc po h; simp only [runPairs, List.mem_reverse] at h; exact Or.inl h
  | cons ij rest ih =>
    intro acc po h
    obtain ⟨i, j⟩ := ij
    unfold runPairs at h
    simp only at h
    split at h
    · rename_i hc
      simp only [List.mem_reverse, List.mem_cons] at h
      rcases h with rfl | h
      · exact Or.inr ⟨_, _, hc.symm⟩
      · exact Or.inl h
    · rename_i r hc
      rcases ih _ po h with h | h
      · rcases List.mem_cons.1 h with rfl | h
        · exact Or.inr ⟨_, _, hc.symm⟩
        · exact Or.inl h
      · exact Or.inr h

theorem runChrom_results (fix3 fix45 fix46 : Bool) (o : Opts) (files : List VFile) (tabsAll : List (List Table))
    (names : List String) (c : String) (po : PairOut)
    (h : po ∈ (runChrom fix3 fix45 fix46 o files tabsAll names c).pairs) :
    ∃ t0 t1, po.result = comparePair true true fix3 fix45 fix46 o.ploidy t0 t1 := by
  unfold runChrom at h
  simp only at h
  have key := fun het0 => runPairs_results fix3 fix45 fix46 o (tabsAll.map (tableOf · c))
    ((files.zip names).map fun fn => sampleIndex fn.1 fn.2) names het0 (allPairs files.length) [] po
  repeat' split at h
  all_goals
    rcases key _ h with h' | h'
    · cases h'
    · exact h'

theorem runChroms_results (fix3 fix45 fix46 : Bool) (o : Opts) (files : List VFile) (tabsAll : List (List Table))
    (names : List String) (cs : List String) :
    ∀ ch ∈ runChroms fix3 fix45 fix46 o files tabsAll names cs, ∀ po ∈ ch.pairs,
      ∃ t0 t1, po.result = comparePair true true fix3 fix45 fix46 o.ploidy t0 t1 := by
  induction cs with
  | nil => intro ch h; simp [runChroms] at h
  | cons c rest ih =>
    intro ch h po hpo
    unfold runChroms at h
    simp only at h
    split at h
    · simp only [List.mem_singleton] at h; subst h
      exact runChrom_results _ _ _ _ _ _ _ _ po hpo
    · rcases List.mem_cons.1 h with rfl | h
      · exact runChrom_results _ _ _ _ _ _ _ _ po hpo
      · exact ih ch h po hpo

end WhVerif.C11

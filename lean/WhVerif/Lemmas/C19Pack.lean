import WhVerif.Model.C19
/-!
# The 16-nibble word of `Genotype`: `get_position` after `set_position`
-/
namespace WhVerif.C19

theorem testBit_15 (b : Nat) : (15 : Nat).testBit b = decide (b < 4) :=
  Nat.testBit_two_pow_sub_one 4 b

theorem getPosition_testBit (g : Genotype) (q b : Nat) :
    (g.getPosition q).testBit b = (decide (b < 4) && g.gt.testBit (q * 4 + b)) := by
  unfold Genotype.getPosition
  rw [Nat.testBit_and, Nat.testBit_shiftRight, testBit_15, Bool.and_comm]

theorem getPosition_lt (g : Genotype) (q : Nat) : g.getPosition q < 16 := by
  unfold Genotype.getPosition
  exact Nat.lt_of_le_of_lt Nat.and_le_right (by omega)

theorem testBit_lt16 (a i : Nat) (ha : a < 16) (hi : 4 ≤ i) : a.testBit i = false := by
  apply Nat.testBit_lt_two_pow
  have : (2 : Nat) ^ 4 ≤ 2 ^ i := Nat.pow_le_pow_right (by decide) hi
  omega

theorem getPosition_setPosition (g : Genotype) (p q a : Nat) (hp : p ≤ 15) (hq : q ≤ 15) (ha : a < 16) :
    (g.setPosition p a).getPosition q = if q = p then a else g.getPosition q := by
  apply Nat.eq_of_testBit_eq
  intro b
  rw [getPosition_testBit]
  unfold Genotype.setPosition
  simp only [Nat.testBit_or, Nat.testBit_and, Nat.testBit_xor, Nat.testBit_shiftLeft,
    Nat.testBit_two_pow_sub_one, testBit_15]
  by_cases hb : b < 4
  · by_cases hqp : q = p
    · subst hqp
      have h1 : q * 4 + b ≥ q * 4 := by omega
      have h2 : q * 4 + b - q * 4 = b := by omega
      have h3 : q * 4 + b < 64 := by omega
      simp [hb, h1, h2, h3]
    · simp only [hqp, if_false, getPosition_testBit, hb, decide_true, Bool.true_and]
      have h3 : q * 4 + b < 64 := by omega
      by_cases hlt : q < p
      · have h1 : ¬ q * 4 + b ≥ p * 4 := by omega
        simp [h1, h3]
      · have h1 : q * 4 + b ≥ p * 4 := by omega
        have h2 : ¬ q * 4 + b - p * 4 < 4 := by omega
        have h4 : a.testBit (q * 4 + b - p * 4) = false := testBit_lt16 a _ ha (by omega)
        simp [h1, h2, h3, h4]
  · have h4 : a.testBit b = false := testBit_lt16 a b ha (by omega)
    by_cases hqp : q = p
    · simp [hb, hqp, h4]
    · simp [hb, hqp, getPosition_testBit]

end WhVerif.C19

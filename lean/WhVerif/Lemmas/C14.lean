import WhVerif.Model.C14
import WhVerif.Spec.C14
/-! Helper lemmas for C14. -/
namespace WhVerif.Lemmas.C14
open WhVerif.C14

theorem written_append (a b : Pass) (k : Nat) : written (a.append b) k = written a k ++ written b k := by
  simp [written, Pass.append, List.filter_append]

theorem histCount_append (a b : Pass) (k len : Nat) :
    histCount (a.append b) k len = histCount a k len + histCount b k len := by
  simp [histCount, Pass.append, List.filter_append]

theorem written_pairs (ss : List Nat) (hn : ss.Nodup) (i k : Nat) :
    ((ss.map (fun s => (s, i))).filter (fun e => e.1 == k)).map (·.2) = if k ∈ ss then [i] else [] := by
  induction ss with
  | nil => rfl
  | cons s t ih =>
    have hnt : t.Nodup := (List.nodup_cons.mp hn).2
    have hs : s ∉ t := (List.nodup_cons.mp hn).1
    by_cases hsk : s = k
    · subst hsk
      simp [ih hnt, hs]
    · have h1 : (s == k) = false := by simpa using hsk
      have h2 : ¬ k = s := fun h => hsk h.symm
      simp [h1, ih hnt, h2]

theorem sinks_nodup (o : Opts) (h : Nat) : (sinks o h).Nodup := by
  unfold sinks
  split
  · refine List.nodup_cons.mpr ⟨?_, List.nodup_range' ..⟩
    simp [List.mem_range'_1]
  · simp

theorem written_emit (o : Opts) (h i : Nat) (r : Read) (k : Nat) :
    written (emit o h i r) k = if k ∈ sinks o h then [i] else [] := by
  simp only [written, emit]
  exact written_pairs _ (sinks_nodup o h) i k

theorem histCount_emit (o : Opts) (h i : Nat) (r : Read) (k len : Nat) :
    histCount (emit o h i r) k len = if h == k && r.len == len then 1 else 0 := by
  simp only [histCount, emit, List.filter_cons, List.filter_nil]
  split <;> rfl

theorem table_aux (req : Nat → Bool) (add : Bool) (p h k : Nat) (hk : req k = true) :
    (k ∈ (if h = 0 then (if add = true then List.range (p + 1) else [0]) else [h]).filter req) ↔
      ((if h = 0 then (req 0 || add) else req h) = true ∧
        k ∈ (if h = 0 ∧ add = true then 0 :: List.range' 1 p else [h])) := by
  by_cases h0 : h = 0
  · subst h0
    cases add with
    | true =>
      simp only [if_true, Bool.or_true, true_and, and_self, List.mem_filter, List.mem_range, hk, and_true,
        List.mem_cons, List.mem_range'_1]
      omega
    | false =>
      simp only [if_true, Bool.or_false, Bool.false_eq_true, and_false, if_false, List.mem_filter,
        List.mem_singleton, hk, and_true]
      constructor
      · intro h; subst h; exact ⟨hk, rfl⟩
      · intro h; exact h.2
  · simp only [h0, if_false, false_and, List.mem_filter, List.mem_singleton, hk, and_true]
    constructor
    · intro h; subst h; exact ⟨hk, rfl⟩
    · intro h; exact h.2

/-- for a requested output `k`: the option table says `k` iff the pass writes the read to sink `k` -/
theorem prescribed_mem (o : Opts) (t : Table) (r : Read) (k : Nat) (hk : isRequested o k = true) :
    k ∈ prescribed o t r ↔ ∃ h, routeOf o t r = some h ∧ k ∈ sinks o h := by
  unfold prescribed routeOf droppedAsUnknown
  by_cases hd : (o.discardUnknown && !t.known.contains r.name) = true
  · simp only [hd, ↓reduceIte]
    simp
  · simp only [hd, ↓reduceIte, Bool.false_eq_true]
    generalize t.hapOf r.name = h
    have key := table_aux (isRequested o) o.addUntagged o.ploidy h k hk
    have hp : processHap o h = (if h = 0 then (isRequested o 0 || o.addUntagged) else isRequested o h) := by
      unfold processHap isRequested
      by_cases h0 : h = 0 <;> simp [h0]
    have hs : sinks o h = (if h = 0 ∧ o.addUntagged = true then 0 :: List.range' 1 o.ploidy else [h]) := by
      unfold sinks
      by_cases h0 : h = 0 <;> simp [h0]
    have hl : (if (h == 0) = true then (if o.addUntagged = true then List.range (o.ploidy + 1) else [0]) else [h])
        = (if h = 0 then (if o.addUntagged = true then List.range (o.ploidy + 1) else [0]) else [h]) := by
      by_cases h0 : h = 0 <;> simp [h0]
    rw [hl, key, ← hp, ← hs]
    constructor
    · intro ⟨h1, h2⟩
      exact ⟨h, by simp [h1], h2⟩
    · intro ⟨h', h1, h2⟩
      by_cases hph : processHap o h = true
      · simp [hph] at h1; subst h1; exact ⟨hph, h2⟩
      · simp [hph] at h1

theorem mem_sinks_iff (o : Opts) (h k : Nat) (hc : o.addUntagged = false ∨ k = 0) : k ∈ sinks o h ↔ k = h := by
  unfold sinks
  by_cases h0 : h = 0
  · subst h0
    rcases hc with hc | hc
    · simp [hc]
    · subst hc
      cases o.addUntagged <;> simp
  · have : ((h == 0) && o.addUntagged) = false := by simp [h0]
    simp [this]

/-! ### the table is well-formed -/

theorem mapM_ok_forall {α β ε : Type} (f : α → Except ε β) :
    ∀ (l : List α) (w : List β), l.mapM f = .ok w → ∀ y ∈ w, ∃ x ∈ l, f x = .ok y := by
  intro l
  induction l with
  | nil => intro w hw y hy; simp [List.mapM_nil, pure, Except.pure] at hw; subst hw; cases hy
  | cons a t ih =>
    intro w hw y hy
    rw [List.mapM_cons] at hw
    cases hfa : f a with
    | error e => rw [hfa] at hw; simp [bind, Except.bind] at hw
    | ok b =>
      rw [hfa] at hw
      cases hft : t.mapM f with
      | error e => rw [hft] at hw; simp [bind, Except.bind] at hw
      | ok bs =>
        rw [hft] at hw
        simp [bind, Except.bind, pure, Except.pure] at hw
        subst hw
        rcases List.mem_cons.mp hy with rfl | hy'
        · exact ⟨a, List.mem_cons_self .., hfa⟩
        · obtain ⟨x, hx, hfx⟩ := ih bs hft y hy'
          exact ⟨x, List.mem_cons_of_mem _ hx, hfx⟩

theorem hapNum_le (p : Nat) (s : String) (k : Nat) (h : hapNum p s = some k) : k ≤ p := by
  unfold hapNum at h
  split at h
  · cases h; omega
  · have := List.mem_of_find?_eq_some h
    simp [List.mem_range'_1] at this
    omega

theorem parseLine_hap_le (fc : Bool) (p : Nat) (cols : List String) (l : Line) (h : parseLine fc p cols = .ok l) :
    l.hap ≤ p := by
  unfold parseLine at h
  split at h
  · split at h
    · split at h
      · rename_i k hk; cases h; exact hapNum_le _ _ _ hk
      · cases h
    · cases h
  · split at h
    · split at h
      · rename_i k hk; cases h; exact hapNum_le _ _ _ hk
      · cases h
    · cases h

theorem parseRows_hap_le (o : Opts) (rows : List (List String)) (lines : List Line)
    (h : parseRows o rows = .ok lines) : ∀ l ∈ lines, l.hap ≤ o.ploidy := by
  match rows, h with
  | [], h => cases h
  | first :: rest, h =>
    simp only [parseRows] at h
    by_cases h1 : first.length < 2
    · simp only [h1, ↓reduceIte] at h; cases h
    · simp only [h1] at h
      by_cases h2 : (o.onlyLargest && !fourColOf first) = true
      · simp only [h2, ↓reduceIte] at h; cases h
      · simp only [h2] at h
        intro l hl
        obtain ⟨cols, _, hc⟩ := mapM_ok_forall _ _ _ h l hl
        exact parseLine_hap_le _ _ _ _ hc

theorem assignOf_sub (o : Opts) (lines : List Line) :
    ∀ p ∈ assignOf o lines, p ∈ (taggedOf lines).map (fun l => (l.name, l.hap)) := by
  intro p hp
  unfold assignOf at hp
  by_cases hl : o.onlyLargest = true
  · simp only [hl] at hp
    exact (List.mem_filter.mp hp).1
  · simp only [hl] at hp
    exact hp

theorem buildTable_wf (o : Opts) (lines : List Line) (t : Table) (hl : ∀ l ∈ lines, l.hap ≤ o.ploidy)
    (h : buildTable o lines = .ok t) : t.WF o := by
  unfold buildTable at h
  by_cases h1 : (o.discardUnknown && lines.length != (knownOf o lines).length) = true
  · simp only [h1, ↓reduceIte] at h; cases h
  · simp only [h1] at h
    by_cases h2 : (o.discardUnknown && (knownOf o lines).isEmpty) = true
    · simp only [h2, ↓reduceIte] at h; cases h
    · simp only [h2] at h
      cases h
      intro p hp
      obtain ⟨l, hl1, rfl⟩ := List.mem_map.mp (assignOf_sub o lines p hp)
      have hl2 := List.mem_filter.mp hl1
      have hne : l.hap ≠ 0 := by simpa using hl2.2
      exact ⟨by simp only; omega, hl l hl2.1⟩

theorem processList_wf (o : Opts) (rows : List (List String)) (t : Table) (h : processList o rows = .ok t) :
    t.WF o := by
  unfold processList at h
  cases hp : parseRows o rows with
  | error e => rw [hp] at h; cases h
  | ok lines => rw [hp] at h; exact buildTable_wf o lines t (parseRows_hap_le o rows lines hp) h

theorem hapOf_le (o : Opts) (t : Table) (hwf : t.WF o) (name : String) : t.hapOf name ≤ o.ploidy := by
  unfold Table.hapOf
  split
  · rename_i p hp
    have := List.mem_of_find?_eq_some hp
    exact (hwf p (List.mem_reverse.mp this)).2
  · omega

/-! ### histogram rows -/

theorem mem_dedupNat (l : List Nat) (x : Nat) : x ∈ dedupNat l ↔ x ∈ l := by
  induction l with
  | nil => simp [dedupNat]
  | cons a t ih =>
    simp only [dedupNat, List.mem_cons, List.mem_filter, ih]
    constructor
    · rintro (h | ⟨h, _⟩)
      · exact Or.inl h
      · exact Or.inr h
    · rintro (h | h)
      · exact Or.inl h
      · by_cases hxa : x = a
        · exact Or.inl hxa
        · exact Or.inr ⟨h, by simpa using hxa⟩

theorem nodup_dedupNat (l : List Nat) : (dedupNat l).Nodup := by
  induction l with
  | nil => simp [dedupNat]
  | cons a t ih =>
    simp only [dedupNat]
    refine List.nodup_cons.mpr ⟨?_, ih.filter _⟩
    simp [List.mem_filter]

theorem sortNat_perm (l : List Nat) : (sortNat l).Perm l := List.mergeSort_perm _ _

theorem sortNat_pairwise (l : List Nat) : (sortNat l).Pairwise (fun a b => a ≤ b) := by
  have := List.pairwise_mergeSort (le := fun a b => decide (a ≤ b))
    (by intro a b c h1 h2; simp at *; omega) (by intro a b; simp; omega) l
  exact this.imp (by intro a b h; simpa using h)

theorem sortNat_strict_of_nodup (l : List Nat) (h : l.Nodup) : (sortNat l).Pairwise (fun a b => a < b) := by
  have h1 := sortNat_pairwise l
  have h2 : (sortNat l).Nodup := (sortNat_perm l).nodup_iff.mpr h
  have h3 := h1.and h2
  exact h3.imp (by intro a b hab; omega)

theorem mem_histKeys (p : Pass) (k len : Nat) : len ∈ histKeys p k ↔ 0 < histCount p k len := by
  unfold histKeys histCount
  rw [mem_dedupNat, List.length_pos_iff_exists_mem]
  simp only [List.mem_map, List.mem_filter, Bool.and_eq_true, beq_iff_eq]
  constructor
  · rintro ⟨e, ⟨he, hk⟩, hl⟩
    exact ⟨e, he, hk, hl⟩
  · rintro ⟨e, he, hk, hl⟩
    exact ⟨e, ⟨he, hk⟩, hl⟩

end WhVerif.Lemmas.C14

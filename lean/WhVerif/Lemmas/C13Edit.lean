import WhVerif.Model.C13
import WhVerif.Spec.C13
import WhVerif.Spec.C13Edit
import WhVerif.Lemmas.C13
/-! The executable edit checker decides the `PhaseOnlyEdit` relation. -/
namespace WhVerif.Lemmas.C13
open WhVerif.C13

theorem editGTB_iff (g g' : GT) : editGTB g g' = true ↔ PhaseOnlyEditGT g g' := by
  unfold editGTB PhaseOnlyEditGT
  simp only [Bool.or_eq_true, beq_iff_eq, Bool.and_eq_true, List.isPerm_iff]

theorem editCallB_iff (c c' : Call) : editCallB c c' = true ↔ PhaseOnlyEditCall c c' := by
  unfold editCallB PhaseOnlyEditCall
  simp only [Bool.and_eq_true, beq_iff_eq]
  cases c.gt <;> cases c'.gt <;> simp [editGTB_iff]

theorem editCallsB_iff : ∀ (cs cs' : List Call), editCallsB cs cs' = true ↔ PhaseOnlyEditCalls cs cs'
  | [], [] => by simp [editCallsB, PhaseOnlyEditCalls]
  | [], _ :: _ => by simp [editCallsB, PhaseOnlyEditCalls]
  | _ :: _, [] => by simp [editCallsB, PhaseOnlyEditCalls]
  | c :: cs, c' :: cs' => by
    simp only [editCallsB, PhaseOnlyEditCalls, Bool.and_eq_true, editCallB_iff, editCallsB_iff cs cs']

theorem editB_iff : ∀ (v v' : List Record), editB v v' = true ↔ PhaseOnlyEdit v v'
  | [], [] => by simp [editB, PhaseOnlyEdit]
  | [], _ :: _ => by simp [editB, PhaseOnlyEdit]
  | _ :: _, [] => by simp [editB, PhaseOnlyEdit]
  | r :: v, r' :: v' => by
    simp only [editB, PhaseOnlyEdit, Bool.and_eq_true, beq_iff_eq, editCallsB_iff, editB_iff v v', and_assoc]
end WhVerif.Lemmas.C13

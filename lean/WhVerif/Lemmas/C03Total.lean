import WhVerif.Lemmas.C03
/-!
# `find_components` does not raise in the situation of the pipeline

phased positions sorted; every read carries each position at most once; the master block consists of distinct
phased positions; the het map (if any) knows every read's sample.
-/
namespace WhVerif.C03.Total
open WhVerif.C18 WhVerif.C03 WhVerif.C03.L WhVerif.C03.UFL

theorem mergeOne_ok {u K E} (hi : Inv u K E) (x y : Nat) (hxy : x ≠ y) (hx : x ∈ K) (hy : y ∈ K) :
    ∃ u', mergeOne u x y = .ok u' := by
  unfold mergeOne
  simp only [hxy, if_false]
  obtain ⟨u', hu'⟩ := merge_isSome u hi.wf x y hxy ((hi.keys x).mpr hx) ((hi.keys y).mpr hy)
  exact ⟨u', by simp [hu']⟩

theorem mergeRest_ok {K} (first : Nat) : ∀ (rest : List Nat) (u : UF) (E : List (Nat × Nat)), Inv u K E →
    first ∈ K → (∀ p ∈ rest, p ∈ K ∧ p ≠ first) → ∃ u', mergeRest u first rest = .ok u' := by
  intro rest
  induction rest with
  | nil => intro u E _ _ _; exact ⟨u, rfl⟩
  | cons p ps ih =>
    intro u E hi hf hall
    obtain ⟨hpK, hpf⟩ := hall p (List.mem_cons_self ..)
    obtain ⟨u1, h1⟩ := mergeOne_ok hi first p (fun h => hpf h.symm) hf hpK
    obtain ⟨hi1, _, _⟩ := inv_mergeOne hi first p u1 h1
    obtain ⟨u', h'⟩ := ih u1 _ hi1 hf (fun q hq => hall q (List.mem_cons_of_mem _ hq))
    exact ⟨u', by simp only [mergeRest, h1]; exact h'⟩

theorem mergeBlock_ok {K} (blk : List Nat) (u : UF) (E : List (Nat × Nat)) (hi : Inv u K E)
    (hnd : blk.Nodup) (hK : ∀ p ∈ blk, p ∈ K) : ∃ u', mergeBlock u blk = .ok u' := by
  cases blk with
  | nil => exact ⟨u, rfl⟩
  | cons f rest =>
    obtain ⟨hnot, _⟩ := List.nodup_cons.mp hnd
    simp only [mergeBlock]
    exact mergeRest_ok f rest u E hi (hK f (List.mem_cons_self ..))
      (fun p hp => ⟨hK p (List.mem_cons_of_mem _ hp), fun h => hnot (h ▸ hp)⟩)

/-- the read's sample is a key of the het map (trivially true without a het map) -/
def HetKnowsRead (het : Option HetMap) (r : Read) : Prop :=
  match het with
  | none => True
  | some h => (h.lookup r.sample).isSome = true

def HetKnows (het : Option HetMap) (reads : List Read) : Prop := ∀ r ∈ reads, HetKnowsRead het r

theorem readBlock_ok (phased : List Nat) (het : Option HetMap) (r : Read)
    (hk : HetKnowsRead het r) (hnd : r.positions.Nodup) :
    ∃ blk, readBlock phased het r = .ok blk ∧ blk.Nodup ∧ ∀ p ∈ blk, p ∈ phased := by
  unfold readBlock
  unfold HetKnowsRead at hk
  cases het with
  | none =>
    refine ⟨_, rfl, List.Pairwise.filter _ hnd, fun p hp => ?_⟩
    simpa using (List.mem_filter.mp hp).2
  | some h =>
    simp only at hk ⊢
    cases hl : h.lookup r.sample with
    | none => simp [hl] at hk
    | some hs =>
      refine ⟨_, rfl, List.Pairwise.filter _ hnd, fun p hp => ?_⟩
      have := (List.mem_filter.mp hp).2
      simp only [Bool.and_eq_true, List.contains_iff_mem] at this
      exact this.1

theorem mergeReads_ok (phased : List Nat) (het : Option HetMap) : ∀ (reads : List Read) (u : UF)
    (E : List (Nat × Nat)), Inv u phased E → HetKnows het reads → (∀ r ∈ reads, r.positions.Nodup) →
    ∃ u' E', mergeReads phased het u reads = .ok u' ∧ Inv u' phased E' := by
  intro reads
  induction reads with
  | nil => intro u E hi _ _; exact ⟨u, E, rfl, hi⟩
  | cons r rs ih =>
    intro u E hi hk hnd
    obtain ⟨blk, hb, hbn, hbK⟩ := readBlock_ok phased het r (hk r (List.mem_cons_self ..)) (hnd r (List.mem_cons_self ..))
    obtain ⟨u1, h1⟩ := mergeBlock_ok blk u E hi hbn hbK
    obtain ⟨E1, hi1, _⟩ := inv_mergeBlock blk u E u1 hi h1
    obtain ⟨u', E', h', hi'⟩ := ih u1 E1 hi1 (fun r' hr' => hk r' (List.mem_cons_of_mem _ hr'))
      (fun r' hr' => hnd r' (List.mem_cons_of_mem _ hr'))
    exact ⟨u', E', by simp only [mergeReads, hb, h1]; exact h', hi'⟩

theorem findAll_ok {K E} : ∀ (ps : List Nat) (u : UF), Inv u K E → (∀ p ∈ ps, p ∈ K) →
    ∃ res, findAll u ps = .ok res := by
  intro ps
  induction ps with
  | nil => intro u _ _; exact ⟨[], rfl⟩
  | cons p ps ih =>
    intro u hi hK
    obtain ⟨u1, r, hf⟩ := findNode_isSome u p ((hi.keys p).mpr (hK p (List.mem_cons_self ..)))
    obtain ⟨_, _, hw1, hroot1, hkeys1⟩ := findNode_spec u hi.wf p u1 r hf
    have hi1 : Inv u1 K E := ⟨hw1, fun w => by rw [hkeys1 w]; exact hi.keys w,
      fun a b hab => by rw [hroot1 a, hroot1 b]; exact hi.edges a b hab,
      fun v => by rw [hroot1 v]; exact hi.conn v⟩
    obtain ⟨rest, hrest⟩ := ih u1 hi1 (fun q hq => hK q (List.mem_cons_of_mem _ hq))
    exact ⟨(p, r) :: rest, by simp only [findAll, UF.find, hf, hrest]⟩

/-- the master block (if any) consists of distinct phased positions -/
def MasterOk (phased : List Nat) (master : Option (List Nat)) : Prop :=
  match master with
  | none => True
  | some m => m.Nodup ∧ ∀ p ∈ m, p ∈ phased

/-- totality of `find_components` under the pipeline's preconditions -/
theorem findComponents_ok (phased : List Nat) (reads : List Read) (master : Option (List Nat)) (het : Option HetMap)
    (hsorted : isSortedB phased = true) (hnd : ∀ r ∈ reads, r.positions.Nodup) (hk : HetKnows het reads)
    (hm : MasterOk phased master) :
    ∃ comps, findComponents phased reads master het = .ok comps := by
  unfold findComponents
  simp only [hsorted, Bool.not_true, Bool.false_eq_true, if_false]
  obtain ⟨u1, E1, h1, hi1⟩ := mergeReads_ok phased het reads _ [] (inv_init phased) hk hnd
  simp only [h1]
  unfold MasterOk at hm
  cases master with
  | none =>
    simp only
    exact findAll_ok _ u1 hi1 (fun p hp => List.mem_eraseDups.mp hp)
  | some m =>
    simp only at hm ⊢
    obtain ⟨u2, h2⟩ := mergeBlock_ok m u1 E1 hi1 hm.1 hm.2
    obtain ⟨E2, hi2, _⟩ := inv_mergeBlock m u1 E1 u2 hi1 h2
    simp only [h2]
    exact findAll_ok _ u2 hi2 (fun p hp => List.mem_eraseDups.mp hp)

end WhVerif.C03.Total

import WhVerif.Props.C18
/-! C16: the component finder's answers depend only on the SET of merged pairs, not on their order or on
interleaved finds (path compression). Built on C18's `find_eq_min_of_class_history`. -/
namespace WhVerif.C16UF
open WhVerif.C18

theorem conn_mono {P Q : List (Nat × Nat)} (h : ∀ p, p ∈ P → p ∈ Q) {a b : Nat} (hc : Conn P a b) : Conn Q a b := by
  induction hc with
  | edge he => exact Conn.edge (h _ he)
  | refl a => exact Conn.refl a
  | symm _ ih => exact Conn.symm ih
  | trans _ _ ih1 ih2 => exact Conn.trans ih1 ih2

/-- two histories (merges and finds in any order, any interleaving) over the same values whose successfully
merged pairs are the same set give the same representative for every element -/
theorem find_order_independent (values : List Nat) (ops1 ops2 : List UOp)
    (hsame : ∀ p, p ∈ UF.mergedPairs (UF.init values) ops1 ↔ p ∈ UF.mergedPairs (UF.init values) ops2)
    (x : Nat) :
    ((UF.exec (UF.init values) ops1).find x).map (fun r => r.2)
      = ((UF.exec (UF.init values) ops2).find x).map (fun r => r.2) := by
  have h1 := WhVerif.Props.C18.find_eq_min_of_class_history values ops1 x
  have h2 := WhVerif.Props.C18.find_eq_min_of_class_history values ops2 x
  cases e1 : (UF.exec (UF.init values) ops1).find x with
  | none =>
    rw [e1] at h1
    cases e2 : (UF.exec (UF.init values) ops2).find x with
    | none => rfl
    | some p2 => rw [e2] at h2; exact absurd h2.1 h1
  | some p1 =>
    rw [e1] at h1
    cases e2 : (UF.exec (UF.init values) ops2).find x with
    | none => rw [e2] at h2; exact absurd h1.1 h2
    | some p2 =>
      rw [e2] at h2
      obtain ⟨_, hr1, hc1, hmin1⟩ := h1
      obtain ⟨_, hr2, hc2, hmin2⟩ := h2
      have a : p1.2 ≤ p2.2 := hmin1 _ hr2 (conn_mono (fun p hp => (hsame p).mpr hp) hc2)
      have b : p2.2 ≤ p1.2 := hmin2 _ hr1 (conn_mono (fun p hp => (hsame p).mp hp) hc1)
      simp only [Option.map_some, Option.some.injEq]
      omega

end WhVerif.C16UF

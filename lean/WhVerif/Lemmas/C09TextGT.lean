import WhVerif.Model.C09Text
/-!
# C09 text level: the GT and PS tokens round-trip through htslib's writer and reader (as transcribed)
-/
namespace WhVerif.C09.Text.GT
open WhVerif.C04 WhVerif.C09 WhVerif.C09.Text

/-! ### digits -/

theorem digitChar_toNat : ∀ d, d < 10 → (digitChar d).toNat = 48 + d := by decide

theorem isDigit_digitChar (d : Nat) (h : d < 10) : isDigit (digitChar d) = true := by
  unfold isDigit
  rw [digitChar_toNat d h]
  simp
  omega

/-- one step of the decimal accumulator of `digitsVal` -/
def stepD (a : Nat) (c : Char) : Nat := a * 10 + (c.toNat - 48)

theorem renderNat_all (n : Nat) : ∀ c ∈ renderNat n, isDigit c = true := by
  induction n using Nat.strongRecOn with
  | _ n ih =>
    rw [renderNat]
    split
    · intro c hc
      simp at hc
      subst hc
      exact isDigit_digitChar n ‹_›
    · intro c hc
      rw [List.mem_append] at hc
      rcases hc with hc | hc
      · exact ih (n / 10) (by omega) c hc
      · simp at hc
        subst hc
        exact isDigit_digitChar _ (by omega)

theorem renderNat_ne_nil (n : Nat) : renderNat n ≠ [] := by
  rw [renderNat]
  split <;> simp

theorem renderNat_foldl (n : Nat) : (renderNat n).foldl stepD 0 = n := by
  induction n using Nat.strongRecOn with
  | _ n ih =>
    rw [renderNat]
    split
    · rename_i h
      simp [stepD, digitChar_toNat n h]
    · rw [List.foldl_append, ih (n / 10) (by omega)]
      simp [stepD, digitChar_toNat (n % 10) (by omega)]
      omega

theorem digitsVal_all : ∀ (ds : List Char) (pd : Bool) (acc : Nat), (∀ c ∈ ds, isDigit c = true) →
    (ds ≠ [] ∨ pd = true) → digitsVal pd acc ds = some (ds.foldl stepD acc)
  | [], pd, acc, _, h => by
    rcases h with h | h
    · exact absurd rfl h
    · simp [digitsVal, h]
  | c :: r, pd, acc, hd, _ => by
    have hc : isDigit c = true := hd c (by simp)
    rw [digitsVal, if_pos hc, digitsVal_all r true _ (fun x hx => hd x (by simp [hx])) (Or.inr rfl)]
    rfl

theorem all_isDigit_of (l : List Char) (h : ∀ c ∈ l, isDigit c = true) : l.all isDigit = true := by
  rw [List.all_eq_true]; exact h

theorem plainNat_of_digits (l : List Char) (hne : l ≠ []) (h : ∀ c ∈ l, isDigit c = true) :
    plainNat l = some (l.foldl stepD 0) := by
  unfold plainNat
  have h1 : l.isEmpty = false := by cases l <;> simp_all
  rw [h1, all_isDigit_of l h]
  simp only [Bool.not_true, Bool.or_self, Bool.false_eq_true, if_false]
  exact digitsVal_all l false 0 h (Or.inl hne)

theorem plainNat_renderNat (n : Nat) : plainNat (renderNat n) = some n := by
  rw [plainNat_of_digits _ (renderNat_ne_nil n) (renderNat_all n), renderNat_foldl]

theorem head?_ne_of_digits (l : List Char) (h : ∀ c ∈ l, isDigit c = true) (x : Char) (hx : isDigit x = false) :
    l.head? ≠ some x := by
  cases l with
  | nil => simp
  | cons c r =>
    intro he
    simp at he
    subst he
    have := h c (by simp)
    rw [hx] at this
    exact absurd this (by decide)

theorem ne_singleton_of_digits (l : List Char) (h : ∀ c ∈ l, isDigit c = true) (x : Char) (hx : isDigit x = false) :
    l ≠ [x] := by
  intro he
  subst he
  have := h x (by simp)
  rw [hx] at this
  exact absurd this (by decide)

theorem renderNat_ne_dot (n : Nat) : renderNat n ≠ ['.'] :=
  ne_singleton_of_digits _ (renderNat_all n) '.' (by decide)

theorem isSep_of_isDigit (c : Char) (h : isDigit c = true) : isSep c = false := by
  cases hs : isSep c with
  | false => rfl
  | true =>
    unfold isSep at hs
    rw [Bool.or_eq_true] at hs
    rcases hs with hs | hs
    · have := eq_of_beq hs
      subst this
      exact absurd h (by decide)
    · have := eq_of_beq hs
      subst this
      exact absurd h (by decide)

/-! ### split / join -/

theorem splitP_none (p : Char → Bool) : ∀ (a : List Char), (∀ c ∈ a, p c = false) → splitP p a = [a]
  | [], _ => rfl
  | c :: r, h => by
    have hc : p c = false := h c (by simp)
    rw [splitP, splitP_none p r (fun x hx => h x (by simp [hx]))]
    simp [hc]

theorem splitP_append_sep (p : Char → Bool) (s : Char) (r : List Char) (hs : p s = true) :
    ∀ (a : List Char), (∀ c ∈ a, p c = false) → splitP p (a ++ s :: r) = a :: splitP p r
  | [], _ => by
    rw [List.nil_append, splitP, if_pos hs]
  | c :: a, h => by
    have hc : p c = false := h c (by simp)
    rw [List.cons_append, splitP, splitP_append_sep p s r hs a (fun x hx => h x (by simp [hx]))]
    simp [hc]

theorem splitP_joinSep (p : Char → Bool) (s : Char) (hs : p s = true) :
    ∀ (ps : List (List Char)), ps ≠ [] → (∀ a ∈ ps, ∀ c ∈ a, p c = false) → splitP p (joinSep s ps) = ps
  | [], hne, _ => absurd rfl hne
  | [a], _, h => by
    rw [joinSep]
    exact splitP_none p a (h a (by simp))
  | a :: b :: r, _, h => by
    rw [joinSep, splitP_append_sep p s _ hs a (h a (by simp)),
      splitP_joinSep p s hs (b :: r) (by simp) (fun x hx => h x (by simp [hx]))]

theorem filter_none (p : Char → Bool) (a : List Char) (h : ∀ c ∈ a, p c = false) : a.filter p = [] := by
  rw [List.filter_eq_nil_iff]
  intro c hc
  simp [h c hc]

theorem filter_joinSep (p : Char → Bool) (s : Char) (hs : p s = true) :
    ∀ (ps : List (List Char)), (∀ a ∈ ps, ∀ c ∈ a, p c = false) →
      (joinSep s ps).filter p = List.replicate (ps.length - 1) s
  | [], _ => rfl
  | [a], h => by
    rw [joinSep]
    simpa using filter_none p a (h a (by simp))
  | a :: b :: r, h => by
    rw [joinSep, List.filter_append, filter_none p a (h a (by simp)), List.nil_append,
      List.filter_cons_of_pos (by simpa using hs),
      filter_joinSep p s hs (b :: r) (fun x hx => h x (by simp [hx]))]
    simp [List.replicate_succ]

/-! ### PS -/

theorem inRange_of (n : Int) (hlo : int32Lo ≤ n) (hhi : n ≤ int32Hi) : inRange n = some n := by
  unfold inRange
  rw [if_pos ⟨hlo, hhi⟩]

theorem ps_text_roundtrip (n : Int) (hlo : int32Lo ≤ n) (hhi : n ≤ int32Hi) :
    parsePS (renderPS (some n)) = some (some n) := by
  cases n with
  | ofNat k =>
    have hd := renderNat_all k
    have h1 : (renderNat k).isEmpty = false := by
      have := renderNat_ne_nil k
      cases h : renderNat k <;> simp_all
    have h2 : (renderNat k == ['.']) = false := beq_eq_false_iff_ne.mpr (renderNat_ne_dot k)
    have h3 : ((renderNat k).head? == some '-') = false :=
      beq_eq_false_iff_ne.mpr (head?_ne_of_digits _ hd '-' (by decide))
    have h4 : ((renderNat k).head? == some '+') = false :=
      beq_eq_false_iff_ne.mpr (head?_ne_of_digits _ hd '+' (by decide))
    show parsePS (renderNat k) = _
    unfold parsePS
    rw [h1, h2]
    simp only [Bool.or_self, Bool.false_eq_true, if_false, h3, h4, plainNat_renderNat]
    exact congrArg some (inRange_of _ hlo hhi)
  | negSucc k =>
    show parsePS ('-' :: renderNat (k + 1)) = _
    unfold parsePS
    have h2 : (('-' :: renderNat (k + 1)) == ['.']) = false :=
      beq_eq_false_iff_ne.mpr (by intro h; injection h with h _; exact absurd h (by decide))
    rw [h2]
    simp only [List.isEmpty_cons, Bool.or_self, Bool.false_eq_true, if_false, List.head?_cons,
      List.tail_cons, plainNat_renderNat]
    have he : (-((k + 1 : Nat) : Int)) = Int.negSucc k := by
      rw [Int.negSucc_eq]; omega
    refine Eq.trans (b := some (inRange (-((k + 1 : Nat) : Int)))) rfl ?_
    rw [he]
    exact congrArg some (inRange_of _ hlo hhi)

theorem ps_text_roundtrip_missing : parsePS (renderPS none) = some none := by decide

/-! ### GT -/

theorem renderAllele_nosep (a : Option Nat) : ∀ c ∈ renderAllele a, isSep c = false := by
  cases a with
  | none =>
    intro c hc
    simp [renderAllele] at hc
    subst hc
    decide
  | some x =>
    intro c hc
    exact isSep_of_isDigit c (renderNat_all x c hc)

theorem alleleOfPiece_render (nal : Nat) (a : Option Nat) (h : ∀ x, a = some x → x < nal) :
    alleleOfPiece nal (renderAllele a) = some a := by
  cases a with
  | none => rfl
  | some x =>
    have h2 : (renderNat x == ['.']) = false := beq_eq_false_iff_ne.mpr (renderNat_ne_dot x)
    show alleleOfPiece nal (renderNat x) = _
    unfold alleleOfPiece
    rw [h2]
    simp only [Bool.false_eq_true, if_false, plainNat_renderNat, Option.map_some, if_pos (h x rfl)]

theorem mapM_alleles (nal : Nat) : ∀ (g : Gt), (∀ a ∈ g, ∀ x, a = some x → x < nal) →
    (g.map renderAllele).mapM (alleleOfPiece nal) = some g
  | [], _ => by simp
  | a :: r, h => by
    rw [List.map_cons, List.mapM_cons, alleleOfPiece_render nal a (h a (by simp)),
      mapM_alleles nal r (fun y hy => h y (by simp [hy]))]
    rfl

theorem all_replicate_sep (n : Nat) (s : Char) :
    (List.replicate n s).all (· == '|') = (decide (n = 0) || (s == '|')) := by
  induction n with
  | zero => simp
  | succ n ih =>
    rw [List.replicate_succ, List.all_cons, ih]
    cases (s == '|') <;> simp

theorem gt_text_roundtrip (nal : Nat) (g : Gt) (ph : Bool) (hne : g ≠ [])
    (hal : ∀ a ∈ g, ∀ x, a = some x → x < nal) :
    parseGT nal (renderGT g ph) = some (g, ph || decide (g.length = 1)) := by
  have hs : isSep (if ph then '|' else '/') = true := by cases ph <;> decide
  have hp : ∀ a ∈ g.map renderAllele, ∀ c ∈ a, isSep c = false := by
    intro a ha
    rw [List.mem_map] at ha
    obtain ⟨b, _, rfl⟩ := ha
    exact renderAllele_nosep b
  have hne' : g.map renderAllele ≠ [] := by simpa using hne
  unfold parseGT renderGT
  rw [splitP_joinSep isSep _ hs _ hne' hp, mapM_alleles nal g hal,
    filter_joinSep isSep _ hs _ hp, all_replicate_sep, List.length_map]
  have hl : 0 < g.length := List.length_pos_iff.mpr hne
  cases ph with
  | true => simp
  | false =>
    have : ((if false = true then '|' else '/') == '|') = false := by decide
    simp only [this, Bool.or_false, Bool.false_or]
    congr 2
    by_cases h1 : g.length = 1
    · simp [h1]
    · have : ¬ (g.length - 1 = 0) := by omega
      simp [h1, this]

/-! ### concrete tokens -/

example : parseGT 3 "0|2".toList = some ([some 0, some 2], true) := by decide
example : parseGT 2 "0/1|1".toList = some ([some 0, some 1, some 1], false) := by decide
example : parseGT 2 "0|2".toList = some ([some 0, none], true) := by decide
example : parseGT 2 "./.".toList = some ([none, none], false) := by decide
example : parseGT 2 "1".toList = some ([some 1], true) := by decide
example : parseGT 2 "0|".toList = none := by decide
example : parseGT 2 "+1/0".toList = none := by decide
example : renderGT [some 0, none, some 12] true = ['0', '|', '.', '|', '1', '2'] := by
  simp [renderGT, renderAllele, joinSep, renderNat]; decide
example : parsePS "007".toList = some (some 7) := by decide
example : parsePS "-12".toList = some (some (-12)) := by decide
example : parsePS "2147483648".toList = some none := by decide
example : parsePS "-2147483641".toList = some none := by decide
example : parsePS ".".toList = some none := by decide
example : parsePS "5,6".toList = none := by decide
example : renderPS (some (-12)) = ['-', '1', '2'] := by
  show '-' :: renderNat 12 = _
  simp [renderNat]; decide

end WhVerif.C09.Text.GT

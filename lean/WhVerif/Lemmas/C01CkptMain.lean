import WhVerif.Lemmas.C01CkptWitness
import WhVerif.Lemmas.C01WitnessAlleles
/-!
# C01: the witness theorems for `compute_table` as coded. Core Lean only.
-/
set_option linter.unusedSimpArgs false
set_option linter.unusedVariables false
namespace WhVerif.C01
open WhVerif.Cost

/-! ### `⌊√n⌋` -/

theorem isqrt_fold (n : Nat) : ∀ m, let r := (List.range (m + 1)).foldl (fun k x => if x * x ≤ n then x else k) 0
    r ≤ m ∧ r * r ≤ n ∧ ∀ x, x ≤ m → x * x ≤ n → x ≤ r := by
  intro m
  induction m with
  | zero =>
    refine ⟨by simp, by simp, ?_⟩
    intro x hx _
    simp; omega
  | succ m ih =>
    simp only at ih ⊢
    rw [List.range_succ, List.foldl_append]
    simp only [List.foldl_cons, List.foldl_nil]
    obtain ⟨h1, h2, h3⟩ := ih
    by_cases hm : (m + 1) * (m + 1) ≤ n
    · rw [if_pos hm]
      exact ⟨Nat.le_refl _, hm, fun x hx _ => hx⟩
    · rw [if_neg hm]
      refine ⟨by omega, h2, ?_⟩
      intro x hx hxx
      by_cases hxm : x = m + 1
      · subst hxm; exact absurd hxx hm
      · exact h3 x (by omega) hxx

/-- `isqrt` is the integer square root -/
theorem isqrt_spec (n : Nat) : isqrt n * isqrt n ≤ n ∧ n < (isqrt n + 1) * (isqrt n + 1) := by
  obtain ⟨h1, h2, h3⟩ := isqrt_fold n n
  refine ⟨h2, ?_⟩
  apply Classical.byContradiction
  intro hlt
  have hle : (isqrt n + 1) * (isqrt n + 1) ≤ n := by omega
  have hself : isqrt n + 1 ≤ (isqrt n + 1) * (isqrt n + 1) := Nat.le_mul_self _
  have := h3 (isqrt n + 1) (by omega) hle
  unfold isqrt at this
  omega

theorem isqrt_pos (n : Nat) (h : 1 ≤ n) : 1 ≤ isqrt n := by
  obtain ⟨_, _, h3⟩ := isqrt_fold n n
  exact h3 1 h (by omega)

/-! ### refinement of the older model -/

/-- run in index order, `compute_table` with any spacing returns exactly `witnessPath` -/
theorem ckptPathK_idx (I : Inst) (k : Nat) (hk : 1 ≤ k) : ckptPathK I idxOrd k = witnessPath I := by
  rw [ckptPathK_eq_witnessPathO I idxOrd idxOrd_ok k hk, witnessPathO_idx]

/-- … and, for sorted reads that all lie in some column, exactly `witness` -/
theorem ckptWitnessK_idx (I : Inst) (h : WF I) (hs : InCols I) (k : Nat) (hk : 1 ≤ k) :
    ckptWitnessK I idxOrd k = witness I := by
  unfold ckptWitnessK
  rw [ckptPathK_idx I k hk, witness_eq]
  cases hp : witnessPath I with
  | none => rfl
  | some path =>
    simp only [Option.map_some, Option.some.injEq, Prod.mk.injEq, and_true]
    by_cases h0 : I.ncols = 0
    · have : path = [] := by
        unfold witnessPath at hp
        rw [if_pos h0] at hp
        cases hp; rfl
      subst this
      apply List.ext_getElem
      · rw [partOf_length]; simp [betaOf]
      · intro r h1 _
        rw [partOf_length] at h1
        have := hs r h1
        omega
    · exact partOf_eq_betaOf I h hs path (witnessPath_spec I h0 path hp).1

/-! ### the witness of `compute_table` -/

theorem ckptPathK_spec (I : Inst) (ord : Ord) (hord : OrdOk ord) (k : Nat) (hk : 1 ≤ k) (h0 : I.ncols ≠ 0)
    (path : List (Nat × Nat)) (hp : ckptPathK I ord k = some path) :
    PathOk I (I.ncols - 1) path ∧ pathCost I path (I.ncols - 1) = dpCost I := by
  rw [ckptPathK_eq_witnessPathO I ord hord k hk] at hp
  exact witnessPathO_spec I ord hord h0 path hp

theorem ckptPathK_zero (I : Inst) (ord : Ord) (k : Nat) (h0 : I.ncols = 0) : ckptPathK I ord k = some [] := by
  simp [ckptPathK, h0]

theorem ckpt_dp_witness (I : Inst) (h : WF I) (ord : Ord) (hord : OrdOk ord) (k : Nat) (hk : 1 ≤ k)
    (β : List Bool) (τ : List Nat) (hw : ckptWitnessK I ord k = some (β, τ)) :
    β.length = I.nreads ∧ τ.length = I.ncols ∧ (∀ t ∈ τ, t < I.ntrans) ∧ totalCost I β τ = dpCost I := by
  unfold ckptWitnessK at hw
  obtain ⟨path, hpath, heq⟩ := Option.map_eq_some_iff.mp hw
  simp only [Prod.mk.injEq] at heq
  obtain ⟨rfl, rfl⟩ := heq
  refine ⟨partOf_length I path, ?_⟩
  by_cases h0 : I.ncols = 0
  · rw [ckptPathK_zero I ord k h0] at hpath
    cases hpath
    refine ⟨by simp [h0], by simp, ?_⟩
    simp [totalCost, dpCost, h0]
  · obtain ⟨hok, hcost⟩ := ckptPathK_spec I ord hord k hk h0 path hpath
    refine ⟨by rw [List.length_map, hok.len]; omega, ?_, ?_⟩
    · intro t ht
      obtain ⟨x, hx, rfl⟩ := List.mem_map.mp ht
      obtain ⟨j, hj, rfl⟩ := List.getElem_of_mem hx
      have := (hok.bnd j (by rw [hok.len] at hj; omega)).2
      simpa [List.getD_eq_getElem?_getD, hj] using this
    · unfold totalCost
      rw [if_neg h0, costUpTo_partOf I h _ path hok _ (Nat.le_refl _), hcost]

theorem ckpt_witness_none_iff (I : Inst) (ord : Ord) (hord : OrdOk ord) (k : Nat) (hk : 1 ≤ k) :
    ckptWitnessK I ord k = none ↔ dpCost I = none := by
  unfold ckptWitnessK
  rw [Option.map_eq_none_iff, ckptPathK_eq_witnessPathO I ord hord k hk]
  exact witnessPathO_none_iff I ord hord

/-! ### super reads -/

theorem ckpt_path_length (I : Inst) (ord : Ord) (hord : OrdOk ord) (k : Nat) (hk : 1 ≤ k)
    (path : List (Nat × Nat)) (hp : ckptPathK I ord k = some path) : path.length = I.ncols := by
  by_cases h0 : I.ncols = 0
  · rw [ckptPathK_zero I ord k h0] at hp
    cases hp; simp [h0]
  · rw [(ckptPathK_spec I ord hord k hk h0 path hp).1.len]; omega

/-- `get_super_reads` runs `get_alleles` on the restriction of the returned bipartition under the returned
transmission value -/
theorem ckpt_superreads (I : Inst) (h : WF I) (ord : Ord) (hord : OrdOk ord) (k : Nat) (hk : 1 ≤ k)
    (path : List (Nat × Nat)) (hp : ckptPathK I ord k = some path) :
    superReadsOf I path = (List.range I.ncols).map (fun c =>
      getAlleles I c (restrict (partOf I path) (I.activeAt c)) ((path.map (·.2)).getD c 0)) := by
  unfold superReadsOf
  rw [ckpt_path_length I ord hord k hk path hp]
  apply List.map_congr_left
  intro c hc
  have hc' : c < I.ncols := List.mem_range.mp hc
  have hok := (ckptPathK_spec I ord hord k hk (by omega) path hp).1
  rw [restrict_partOf I h _ path hok c (by omega), getD_map_snd]

end WhVerif.C01

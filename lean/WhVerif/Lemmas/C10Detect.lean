import WhVerif.Model.C10Detect
import WhVerif.Lemmas.C06NoRef
/-!
# C10 — lemmas for `Model/C10Detect.lean`: the merge rule of `create_read_from_group`, the aligned query index
-/
namespace WhVerif.C10

/-! ## `create_read_from_group`: the merge of the variants of several alignments -/

/-- a `Read` holds at most one variant per position -/
def DistinctPos (l : List RV) : Prop := l.Pairwise (fun a b => a.pos ≠ b.pos)

theorem mem_insertSortedRV (v w : RV) (l : List RV) : w ∈ insertSorted v l ↔ w = v ∨ w ∈ l := by
  induction l with
  | nil => simp [insertSorted]
  | cons x xs ih =>
    simp only [insertSorted]
    split
    · simp
    · simp only [List.mem_cons, ih]
      constructor
      · rintro (h | h | h) <;> simp [h]
      · rintro (h | h | h) <;> simp [h]

theorem mem_foldr_insertSortedRV (w : RV) (l : List RV) : w ∈ l.foldr insertSorted [] ↔ w ∈ l := by
  induction l with
  | nil => simp
  | cons x xs ih => simp only [List.foldr_cons, mem_insertSortedRV, ih, List.mem_cons]

theorem find_of_distinct {l : List RV} (hd : DistinctPos l) {v : RV} (hv : v ∈ l) :
    l.find? (·.pos == v.pos) = some v := by
  induction l with
  | nil => cases hv
  | cons x xs ih =>
    rw [DistinctPos, List.pairwise_cons] at hd
    rcases List.mem_cons.1 hv with rfl | h
    · simp
    · have : x.pos ≠ v.pos := hd.1 v h
      simp only [List.find?_cons]
      have : (x.pos == v.pos) = false := by simpa using this
      rw [this]
      exact ih hd.2 h

theorem eq_of_distinct {l : List RV} (hd : DistinctPos l) {v w : RV} (hv : v ∈ l) (hw : w ∈ l) (hp : v.pos = w.pos) :
    v = w := by
  have h1 := find_of_distinct hd hv
  have h2 := find_of_distinct hd hw
  rw [hp, h2] at h1
  exact (Option.some.inj h1).symm

theorem find_append_singleton (acc : List RV) (v v' : RV) (h : v.pos ≠ v'.pos) :
    (acc ++ [v]).find? (·.pos == v'.pos) = acc.find? (·.pos == v'.pos) := by
  rw [List.find?_append]
  have : (v.pos == v'.pos) = false := by simpa using h
  simp [List.find?_cons, this]

/-- the `variants` dict after the alignments so far plus one more: old entries stay (first inserted wins, with ITS
quality), the new alignment adds the positions not yet present -/
theorem mergeVariants_fst (acc : List RV) (skip : List Nat) (vs : List RV) (hd : DistinctPos vs) :
    (mergeVariants acc skip vs).1 = acc ++ vs.filter (fun v => (acc.find? (·.pos == v.pos)).isNone) := by
  induction vs generalizing acc skip with
  | nil => simp [mergeVariants]
  | cons v vs ih =>
    rw [DistinctPos, List.pairwise_cons] at hd
    simp only [mergeVariants]
    cases hf : acc.find? (·.pos == v.pos) with
    | some w =>
      simp only [List.filter_cons, hf, Option.isNone_some, Bool.false_eq_true, if_false]
      exact ih _ _ hd.2
    | none =>
      simp only [List.filter_cons, hf, Option.isNone_none, if_true]
      rw [ih _ _ hd.2, List.append_assoc]
      congr 1
      simp only [List.singleton_append]
      congr 1
      apply List.filter_congr
      intro v' hv'
      rw [find_append_singleton acc v v' (hd.1 v' hv')]

/-- the `skip` set: a position gets in exactly when the new alignment shows another ALLELE than the entry present
(the qualities are never looked at) -/
theorem mergeVariants_snd (acc : List RV) (skip : List Nat) (vs : List RV) (hd : DistinctPos vs) (p : Nat) :
    p ∈ (mergeVariants acc skip vs).2 ↔
      p ∈ skip ∨ ∃ v ∈ vs, v.pos = p ∧ ∃ w, acc.find? (·.pos == v.pos) = some w ∧ w.allele ≠ v.allele := by
  induction vs generalizing acc skip with
  | nil => simp [mergeVariants]
  | cons v vs ih =>
    rw [DistinctPos, List.pairwise_cons] at hd
    simp only [mergeVariants]
    cases hf : acc.find? (·.pos == v.pos) with
    | some w =>
      simp only []
      rw [ih _ _ hd.2]
      constructor
      · rintro (h | ⟨v', hv', hp, hw⟩)
        · split at h
          · rcases List.mem_cons.1 h with rfl | h
            · exact Or.inr ⟨v, List.mem_cons_self, rfl, w, hf, by assumption⟩
            · exact Or.inl h
          · exact Or.inl h
        · exact Or.inr ⟨v', List.mem_cons_of_mem _ hv', hp, hw⟩
      · rintro (h | ⟨v', hv', hp, w', hw', hne⟩)
        · left; split
          · exact List.mem_cons_of_mem _ h
          · exact h
        · rcases List.mem_cons.1 hv' with rfl | hv'
          · rw [hf] at hw'; cases hw'
            left; rw [if_pos hne, ← hp]; exact List.mem_cons_self
          · exact Or.inr ⟨v', hv', hp, w', hw', hne⟩
    | none =>
      simp only []
      rw [ih _ _ hd.2]
      constructor
      · rintro (h | ⟨v', hv', hp, w', hw', hne⟩)
        · exact Or.inl h
        · rw [find_append_singleton acc v v' (hd.1 v' hv')] at hw'
          exact Or.inr ⟨v', List.mem_cons_of_mem _ hv', hp, w', hw', hne⟩
      · rintro (h | ⟨v', hv', hp, w', hw', hne⟩)
        · exact Or.inl h
        · rcases List.mem_cons.1 hv' with rfl | hv'
          · rw [hf] at hw'; cases hw'
          · refine Or.inr ⟨v', hv', hp, w', ?_, hne⟩
            rw [find_append_singleton acc v v' (hd.1 v' hv')]; exact hw'

/-- the variants of the union read of two primary alignments (mates) -/
theorem groupRead_pair (thr : Int) (a1 a2 : AlnRead) (h1 : a1.supplementary = false) (h2 : a2.supplementary = false)
    (hd1 : DistinctPos a1.variants) (hd2 : DistinctPos a2.variants) :
    ∃ start vars, groupRead true thr [a1, a2] = some (start, vars) ∧
      ∀ w, w ∈ vars ↔
        (w ∈ a1.variants ∨ (w ∈ a2.variants ∧ a1.variants.find? (·.pos == w.pos) = none)) ∧
        ¬ ∃ v ∈ a2.variants, v.pos = w.pos ∧ ∃ u, a1.variants.find? (·.pos == v.pos) = some u ∧ u.allele ≠ v.allele := by
  have hlp : lastPrimary [a1, a2] = some a2 := by simp [lastPrimary, h2]
  have hfl : ([a1, a2].filter (!·.supplementary)).length = 2 := by simp [h1, h2]
  have hused : ([a1, a2].filter fun r => (true && !r.supplementary) ||
      (r.reverse == a2.reverse && decide (alnDistance a2 r ≤ thr))) = [a1, a2] := by simp [h1, h2]
  unfold groupRead
  simp only [hlp, hfl, hused, List.foldl_cons, List.foldl_nil]
  refine ⟨_, _, rfl, ?_⟩
  intro w
  rw [mem_foldr_insertSortedRV, List.mem_filter]
  have e1 : (mergeVariants [] [] a1.variants).1 = a1.variants := by
    rw [mergeVariants_fst _ _ _ hd1]; simp
  have e2 : ∀ p, p ∉ (mergeVariants [] [] a1.variants).2 := by
    intro p hp
    rw [mergeVariants_snd _ _ _ hd1] at hp
    rcases hp with hp | ⟨v, _, _, u, hu, _⟩
    · cases hp
    · simp at hu
  rw [mergeVariants_fst _ _ _ hd2, e1]
  simp only [List.mem_append, List.mem_filter, Option.isNone_iff_eq_none, Bool.not_eq_true', List.contains_eq_mem,
    decide_eq_false_iff_not]
  rw [mergeVariants_snd _ _ _ hd2]
  constructor
  · rintro ⟨hm, hn⟩
    exact ⟨hm, fun hex => hn (Or.inr hex)⟩
  · rintro ⟨hm, hn⟩
    refine ⟨hm, ?_⟩
    rintro (h | h)
    · exact e2 _ h
    · exact hn h

end WhVerif.C10

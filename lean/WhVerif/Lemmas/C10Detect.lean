import WhVerif.Model.C10Detect
import WhVerif.Lemmas.C06NoRef
import WhVerif.Lemmas.C06Enum
/-!
# C10 — lemmas for `Model/C10Detect.lean`: the merge rule of `create_read_from_group`, the aligned query index
-/
namespace WhVerif.C10

/-! ## `create_read_from_group`: the merge of the variants of several alignments -/

/-- a `Read` holds at most one variant per position -/
def DistinctPos (l : List RV) : Prop := l.Pairwise (fun a b => a.pos ≠ b.pos)

theorem mem_insertSortedRV (v w : RV) (l : List RV) : w ∈ insertSorted v l ↔ w = v ∨ w ∈ l := by
  induction l with
  | nil => simp [insertSorted]
  | cons x xs ih =>
    simp only [insertSorted]
    split
    · simp
    · simp only [List.mem_cons, ih]
      constructor
      · rintro (h | h | h) <;> simp [h]
      · rintro (h | h | h) <;> simp [h]

theorem mem_foldr_insertSortedRV (w : RV) (l : List RV) : w ∈ l.foldr insertSorted [] ↔ w ∈ l := by
  induction l with
  | nil => simp
  | cons x xs ih => simp only [List.foldr_cons, mem_insertSortedRV, ih, List.mem_cons]

theorem find_of_distinct {l : List RV} (hd : DistinctPos l) {v : RV} (hv : v ∈ l) :
    l.find? (·.pos == v.pos) = some v := by
  induction l with
  | nil => cases hv
  | cons x xs ih =>
    rw [DistinctPos, List.pairwise_cons] at hd
    rcases List.mem_cons.1 hv with rfl | h
    · simp
    · have : x.pos ≠ v.pos := hd.1 v h
      simp only [List.find?_cons]
      have : (x.pos == v.pos) = false := by simpa using this
      rw [this]
      exact ih hd.2 h

theorem eq_of_distinct {l : List RV} (hd : DistinctPos l) {v w : RV} (hv : v ∈ l) (hw : w ∈ l) (hp : v.pos = w.pos) :
    v = w := by
  have h1 := find_of_distinct hd hv
  have h2 := find_of_distinct hd hw
  rw [hp, h2] at h1
  exact (Option.some.inj h1).symm

theorem find_append_singleton (acc : List RV) (v v' : RV) (h : v.pos ≠ v'.pos) :
    (acc ++ [v]).find? (·.pos == v'.pos) = acc.find? (·.pos == v'.pos) := by
  rw [List.find?_append]
  have : (v.pos == v'.pos) = false := by simpa using h
  simp [List.find?_cons, this]

/-- the `variants` dict after the alignments so far plus one more: old entries stay (first inserted wins, with ITS
quality), the new alignment adds the positions not yet present -/
theorem mergeVariants_fst (acc : List RV) (skip : List Nat) (vs : List RV) (hd : DistinctPos vs) :
    (mergeVariants acc skip vs).1 = acc ++ vs.filter (fun v => (acc.find? (·.pos == v.pos)).isNone) := by
  induction vs generalizing acc skip with
  | nil => simp [mergeVariants]
  | cons v vs ih =>
    rw [DistinctPos, List.pairwise_cons] at hd
    simp only [mergeVariants]
    cases hf : acc.find? (·.pos == v.pos) with
    | some w =>
      simp only [List.filter_cons, hf, Option.isNone_some, Bool.false_eq_true, if_false]
      exact ih _ _ hd.2
    | none =>
      simp only [List.filter_cons, hf, Option.isNone_none, if_true]
      rw [ih _ _ hd.2, List.append_assoc]
      congr 1
      simp only [List.singleton_append]
      congr 1
      apply List.filter_congr
      intro v' hv'
      rw [find_append_singleton acc v v' (hd.1 v' hv')]

/-- the `skip` set: a position gets in exactly when the new alignment shows another ALLELE than the entry present
(the qualities are never looked at) -/
theorem mergeVariants_snd (acc : List RV) (skip : List Nat) (vs : List RV) (hd : DistinctPos vs) (p : Nat) :
    p ∈ (mergeVariants acc skip vs).2 ↔
      p ∈ skip ∨ ∃ v ∈ vs, v.pos = p ∧ ∃ w, acc.find? (·.pos == v.pos) = some w ∧ w.allele ≠ v.allele := by
  induction vs generalizing acc skip with
  | nil => simp [mergeVariants]
  | cons v vs ih =>
    rw [DistinctPos, List.pairwise_cons] at hd
    simp only [mergeVariants]
    cases hf : acc.find? (·.pos == v.pos) with
    | some w =>
      simp only []
      rw [ih _ _ hd.2]
      constructor
      · rintro (h | ⟨v', hv', hp, hw⟩)
        · split at h
          · rcases List.mem_cons.1 h with rfl | h
            · exact Or.inr ⟨v, List.mem_cons_self, rfl, w, hf, by assumption⟩
            · exact Or.inl h
          · exact Or.inl h
        · exact Or.inr ⟨v', List.mem_cons_of_mem _ hv', hp, hw⟩
      · rintro (h | ⟨v', hv', hp, w', hw', hne⟩)
        · left; split
          · exact List.mem_cons_of_mem _ h
          · exact h
        · rcases List.mem_cons.1 hv' with rfl | hv'
          · rw [hf] at hw'; cases hw'
            left; rw [if_pos hne, ← hp]; exact List.mem_cons_self
          · exact Or.inr ⟨v', hv', hp, w', hw', hne⟩
    | none =>
      simp only []
      rw [ih _ _ hd.2]
      constructor
      · rintro (h | ⟨v', hv', hp, w', hw', hne⟩)
        · exact Or.inl h
        · rw [find_append_singleton acc v v' (hd.1 v' hv')] at hw'
          exact Or.inr ⟨v', List.mem_cons_of_mem _ hv', hp, w', hw', hne⟩
      · rintro (h | ⟨v', hv', hp, w', hw', hne⟩)
        · exact Or.inl h
        · rcases List.mem_cons.1 hv' with rfl | hv'
          · rw [hf] at hw'; cases hw'
          · refine Or.inr ⟨v', hv', hp, w', ?_, hne⟩
            rw [find_append_singleton acc v v' (hd.1 v' hv')]; exact hw'

/-- the variants of the union read of two primary alignments (mates) -/
theorem groupRead_pair (thr : Int) (a1 a2 : AlnRead) (h1 : a1.supplementary = false) (h2 : a2.supplementary = false)
    (hd1 : DistinctPos a1.variants) (hd2 : DistinctPos a2.variants) :
    ∃ start vars, groupRead true thr [a1, a2] = some (start, vars) ∧
      ∀ w, w ∈ vars ↔
        (w ∈ a1.variants ∨ (w ∈ a2.variants ∧ a1.variants.find? (·.pos == w.pos) = none)) ∧
        ¬ ∃ v ∈ a2.variants, v.pos = w.pos ∧ ∃ u, a1.variants.find? (·.pos == v.pos) = some u ∧ u.allele ≠ v.allele := by
  have hlp : lastPrimary [a1, a2] = some a2 := by simp [lastPrimary, h2]
  have hfl : ([a1, a2].filter (!·.supplementary)).length = 2 := by simp [h1, h2]
  have hused : ([a1, a2].filter fun r => (true && !r.supplementary) ||
      (r.reverse == a2.reverse && decide (alnDistance a2 r ≤ thr))) = [a1, a2] := by simp [h1, h2]
  unfold groupRead
  simp only [hlp, hfl, hused, List.foldl_cons, List.foldl_nil]
  refine ⟨_, _, rfl, ?_⟩
  intro w
  rw [mem_foldr_insertSortedRV, List.mem_filter]
  have e1 : (mergeVariants [] [] a1.variants).1 = a1.variants := by
    rw [mergeVariants_fst _ _ _ hd1]; simp
  have e2 : ∀ p, p ∉ (mergeVariants [] [] a1.variants).2 := by
    intro p hp
    rw [mergeVariants_snd _ _ _ hd1] at hp
    rcases hp with hp | ⟨v, _, _, u, hu, _⟩
    · cases hp
    · simp at hu
  rw [mergeVariants_fst _ _ _ hd2, e1]
  simp only [List.mem_append, List.mem_filter, Option.isNone_iff_eq_none, Bool.not_eq_true', List.contains_eq_mem,
    decide_eq_false_iff_not]
  rw [mergeVariants_snd _ _ _ hd2]
  constructor
  · rintro ⟨hm, hn⟩
    exact ⟨hm, fun hex => hn (Or.inr hex)⟩
  · rintro ⟨hm, hn⟩
    refine ⟨hm, ?_⟩
    rintro (h | h)
    · exact e2 _ h
    · exact hn h

/-! ## the no-reference walker on SNVs: calls ↔ aligned query index -/
section Walker
open WhVerif.C06

theorem mem_dropWhile_of_not {α} (p : α → Bool) (l : List α) (x : α) (hx : x ∈ l) (hp : p x = false) : x ∈ l.dropWhile p := by
  induction l with
  | nil => cases hx
  | cons y ys ih =>
    simp only [List.dropWhile_cons]
    by_cases hy : p y = true
    · simp only [hy, if_true]
      rcases List.mem_cons.1 hx with rfl | h
      · rw [hp] at hy; cases hy
      · exact ih h
    · simp only [hy]; exact hx

theorem mem_takeWhile_sorted (vps : List VP) (hs : SortedP vps) (b : Nat) (x : VP) (hx : x ∈ vps) (hb : x.2.pos < b) :
    x ∈ vps.takeWhile (fun p => p.2.pos < b) := by
  induction vps with
  | nil => cases hx
  | cons y ys ih =>
    simp only [SortedP, List.pairwise_cons] at hs
    simp only [List.takeWhile_cons]
    rcases List.mem_cons.1 hx with rfl | h
    · simp [hb]
    · have : y.2.pos < b := by have := hs.1 x h; omega
      simp only [this, decide_true, if_true]
      exact List.mem_cons_of_mem _ (ih hs.2 h)

/-- every call of the walker is the call of an SNV of the list by the query base aligned to it -/
theorem snvExpected_sound (query : Seq) (quals : Option (List Nat)) (c : Cigar) :
    ∀ (rp qp : Nat) (vps : List VP), SortedP vps → ∀ t ∈ snvExpected query quals rp qp vps c,
      ∃ x ∈ vps, ∃ q, mIdx x.2.pos rp qp c = some q ∧ snvCall query quals x.1 x.2 q = some t := by
  induction c with
  | nil => intro rp qp vps _ t ht; simp [snvExpected] at ht
  | cons x rest ih =>
    obtain ⟨op, len⟩ := x
    intro rp qp vps hs t ht
    have hs' := sortedP_dropWhile vps hs (fun p => decide (p.2.pos < rp))
    have hge := dropWhile_ge_sorted vps hs rp
    simp only [snvExpected] at ht
    simp only [mIdx]
    by_cases hm : isMatch op = true
    · simp only [hm, if_true] at ht ⊢
      rcases List.mem_append.1 ht with h | h
      · obtain ⟨y, hy, hcall⟩ := List.mem_filterMap.1 h
        obtain ⟨hlt, hyd⟩ := mem_takeWhile_both _ _ y hy
        have hlt' : y.2.pos < rp + len := by simpa using hlt
        have h1 := hge y hyd
        exact ⟨y, mem_dropWhile_mem _ _ _ hyd, qp + (y.2.pos - rp), by simp [h1, hlt'], hcall⟩
      · obtain ⟨y, hy, q, hq, hcall⟩ := ih (rp + len) (qp + len) _ (sortedP_dropWhile _ hs' _) t h
        have hy1 := mem_dropWhile_mem _ _ _ hy
        have h2 := dropWhile_ge_sorted _ hs' (rp + len) y hy
        refine ⟨y, mem_dropWhile_mem _ _ _ hy1, q, ?_, hcall⟩
        have : ¬ (rp ≤ y.2.pos ∧ y.2.pos < rp + len) := by omega
        simp only [this, if_false]; exact hq
    · simp only [hm, Bool.false_eq_true, if_false] at ht ⊢
      by_cases h14 : (op == 1 || op == 4) = true
      · simp only [h14, if_true] at ht ⊢
        obtain ⟨y, hy, q, hq, hcall⟩ := ih rp (qp + len) _ hs' t ht
        exact ⟨y, mem_dropWhile_mem _ _ _ hy, q, hq, hcall⟩
      · simp only [h14, Bool.false_eq_true, if_false] at ht ⊢
        by_cases h23 : (op == 2 || op == 3) = true
        · simp only [h23, if_true] at ht ⊢
          obtain ⟨y, hy, q, hq, hcall⟩ := ih (rp + len) qp _ (sortedP_dropWhile _ hs' _) t ht
          have hy1 := mem_dropWhile_mem _ _ _ hy
          have h2 := dropWhile_ge_sorted _ hs' (rp + len) y hy
          refine ⟨y, mem_dropWhile_mem _ _ _ hy1, q, ?_, hcall⟩
          have : ¬ (rp ≤ y.2.pos ∧ y.2.pos < rp + len) := by omega
          simp only [this, if_false]; exact hq
        · simp only [h23, Bool.false_eq_true, if_false] at ht ⊢
          obtain ⟨y, hy, q, hq, hcall⟩ := ih rp qp _ hs' t ht
          exact ⟨y, mem_dropWhile_mem _ _ _ hy, q, hq, hcall⟩

/-- `mIdx` finds nothing left of the running reference position -/
theorem mIdx_lt (p : Nat) (c : Cigar) : ∀ rp qp, p < rp → mIdx p rp qp c = none := by
  induction c with
  | nil => intros; rfl
  | cons x rest ih =>
    obtain ⟨op, len⟩ := x
    intro rp qp h
    simp only [mIdx]
    have h1 : ¬ (rp ≤ p ∧ p < rp + len) := by omega
    simp only [h1, if_false]
    split
    · exact ih _ _ (by omega)
    · split
      · exact ih _ _ h
      · split
        · exact ih _ _ (by omega)
        · exact ih _ _ h

/-- … and every SNV of the (position-sorted) list that lies in an M/=/X block is called by the base aligned to it -/
theorem snvExpected_complete (query : Seq) (quals : Option (List Nat)) (c : Cigar) :
    ∀ (rp qp : Nat) (vps : List VP), SortedP vps → ∀ x ∈ vps, ∀ q t, mIdx x.2.pos rp qp c = some q →
      snvCall query quals x.1 x.2 q = some t → t ∈ snvExpected query quals rp qp vps c := by
  induction c with
  | nil => intro rp qp vps _ x _ q t hq; simp [mIdx] at hq
  | cons y rest ih =>
    obtain ⟨op, len⟩ := y
    intro rp qp vps hs x hx q t hq hcall
    have hs' := sortedP_dropWhile vps hs (fun p => decide (p.2.pos < rp))
    have hrp : rp ≤ x.2.pos := by
      rcases Nat.lt_or_ge x.2.pos rp with h | h
      · rw [mIdx_lt _ _ _ _ h] at hq; cases hq
      · exact h
    have hx' : x ∈ vps.dropWhile (fun p => decide (p.2.pos < rp)) :=
      mem_dropWhile_of_not _ _ _ hx (by simp; omega)
    simp only [snvExpected]
    simp only [mIdx] at hq
    by_cases hm : isMatch op = true
    · simp only [hm, if_true] at hq ⊢
      by_cases hin : x.2.pos < rp + len
      · have : rp ≤ x.2.pos ∧ x.2.pos < rp + len := ⟨hrp, hin⟩
        simp only [this, and_self, if_true, Option.some.injEq] at hq
        subst hq
        exact List.mem_append_left _ (List.mem_filterMap.2 ⟨x, mem_takeWhile_sorted _ hs' _ x hx' hin, hcall⟩)
      · have : ¬ (rp ≤ x.2.pos ∧ x.2.pos < rp + len) := by omega
        simp only [this, if_false] at hq
        exact List.mem_append_right _ (ih _ _ _ (sortedP_dropWhile _ hs' _) x
          (mem_dropWhile_of_not _ _ _ hx' (by simp; omega)) q t hq hcall)
    · simp only [hm, Bool.false_eq_true, if_false] at hq ⊢
      by_cases h14 : (op == 1 || op == 4) = true
      · simp only [h14, if_true] at hq ⊢
        exact ih _ _ _ hs' x hx' q t hq hcall
      · simp only [h14, Bool.false_eq_true, if_false] at hq ⊢
        by_cases h23 : (op == 2 || op == 3) = true
        · simp only [h23, if_true] at hq ⊢
          by_cases hin : x.2.pos < rp + len
          · have : rp ≤ x.2.pos ∧ x.2.pos < rp + len := ⟨hrp, hin⟩
            simp [this] at hq
          · have : ¬ (rp ≤ x.2.pos ∧ x.2.pos < rp + len) := by omega
            simp only [this, if_false] at hq
            exact ih _ _ _ (sortedP_dropWhile _ hs' _) x (mem_dropWhile_of_not _ _ _ hx' (by simp; omega)) q t hq hcall
        · simp only [h23, Bool.false_eq_true, if_false] at hq ⊢
          exact ih _ _ _ hs' x hx' q t hq hcall

/-- the aligned index of a position lies inside the alignment's reference span -/
theorem mIdx_span (p : Nat) (c : Cigar) : ∀ rp qp q, mIdx p rp qp c = some q → rp ≤ p ∧ p < rp + refLen c := by
  induction c with
  | nil => intro rp qp q h; simp [mIdx] at h
  | cons x rest ih =>
    obtain ⟨op, len⟩ := x
    intro rp qp q h
    simp only [mIdx] at h
    simp only [refLen, consumesRef]
    by_cases hm : isMatch op = true
    · simp only [hm, if_true, Bool.true_or] at h ⊢
      by_cases hin : rp ≤ p ∧ p < rp + len
      · omega
      · simp only [hin, if_false] at h
        have := ih _ _ _ h; omega
    · simp only [hm, Bool.false_eq_true, if_false, Bool.false_or] at h ⊢
      by_cases h14 : (op == 1 || op == 4) = true
      · simp only [h14, if_true] at h
        have := ih _ _ _ h
        have h2 : (op == 2 || op == 3) = false := by
          rcases (Bool.or_eq_true_iff).1 h14 with e | e <;> (have := eq_of_beq e; subst this; rfl)
        simp only [h2, Bool.false_eq_true, if_false]; omega
      · simp only [h14, Bool.false_eq_true, if_false] at h
        by_cases h23 : (op == 2 || op == 3) = true
        · simp only [h23, if_true] at h ⊢
          by_cases hin : rp ≤ p ∧ p < rp + len
          · simp [hin] at h
          · simp only [hin, if_false] at h
            have := ih _ _ _ h; omega
        · simp only [h23, Bool.false_eq_true, if_false] at h ⊢
          have := ih _ _ _ h; omega

/-- a leading soft clip moves the query cursor, a leading hard clip nothing: the typed positions stay -/
theorem mIdx_softclip (p n rp qp : Nat) (c : Cigar) : mIdx p rp qp ((4, n) :: c) = mIdx p rp (qp + n) c := by
  simp [mIdx, isMatch]

theorem mIdx_hardclip (p n rp qp : Nat) (c : Cigar) : mIdx p rp qp ((5, n) :: c) = mIdx p rp qp c := by
  simp [mIdx, isMatch]

/-- first aligned base of a match block that follows clips only -/
theorem mIdx_shift (p : Nat) (c : Cigar) : ∀ rp qp k, mIdx p rp (qp + k) c = (mIdx p rp qp c).map (· + k) := by
  induction c with
  | nil => intros; rfl
  | cons x rest ih =>
    obtain ⟨op, len⟩ := x
    intro rp qp k
    simp only [mIdx]
    split
    · split
      · simp; omega
      · rw [show qp + k + len = qp + len + k by omega]; exact ih _ _ _
    · split
      · rw [show qp + k + len = qp + len + k by omega]; exact ih _ _ _
      · split
        · split
          · rfl
          · exact ih _ _ _
        · exact ih _ _ _

/-- a trailing clip types nothing and moves nothing -/
theorem mIdx_append_clip (p : Nat) (c : Cigar) (op n : Nat) (h : op = 4 ∨ op = 5) :
    ∀ rp qp, mIdx p rp qp (c ++ [(op, n)]) = mIdx p rp qp c := by
  induction c with
  | nil => intro rp qp; rcases h with rfl | rfl <;> simp [mIdx, isMatch]
  | cons x rest ih =>
    obtain ⟨o, l⟩ := x
    intro rp qp
    simp only [List.cons_append, mIdx, ih]

theorem enumFrom_fun {α} (l : List α) (n k : Nat) (x y : α) (hx : (k, x) ∈ enumFrom n l) (hy : (k, y) ∈ enumFrom n l) :
    x = y := by
  have a := ((mem_enumFrom' l n k x).1 hx).2
  have b := ((mem_enumFrom' l n k y).1 hy).2
  rw [a] at b
  exact Option.some.inj b

end Walker

end WhVerif.C10

import WhVerif.Model.C05Table
import WhVerif.Lemmas.C05PipelineThm
import WhVerif.Lemmas.C05
import Mathlib.Data.List.Sort
import Mathlib.Data.List.Perm.Subperm
/-!
# C05: the constraint table of the solver comes from the family's genotype table (narrowing the seam `hlink`)

With strictly increasing variant positions and accessible positions, `subset_rows_by_position` + its assertion make the
`c`-th kept row the variant at `accessible_positions[c]`; the trusted constraint row admits exactly the row's number of
ALT alleles.  So "constraint table ↔ input records" (`hlink` of `pedigree_vcf_mendelian_input_gt`) follows from
"VariantTable ↔ input records" (the VCF reader's job) alone.
-/
namespace WhVerif.C05.L
open WhVerif.C05

theorem sorted_subset_eq {P A : List Nat} (hP : P.Pairwise (· < ·)) (hA : A.Pairwise (· < ·)) (hsub : P ⊆ A)
    (hlen : P.length = A.length) : P = A := by
  have hperm : P.Perm A :=
    (List.subperm_of_subset hP.nodup hsub).perm_of_length_le (by omega)
  exact hperm.eq_of_pairwise' hP hA

/-- the kept rows are exactly the accessible positions, in order -/
theorem subsetRows_positions (varPos keep acc rows : List Nat)
    (hkeep : keep.Pairwise (· < ·)) (hk : ∀ i ∈ keep, i < varPos.length)
    (hpos : varPos.Pairwise (· < ·)) (hacc : acc.Pairwise (· < ·))
    (h : subsetRows varPos keep acc = some rows) :
    rows.map (varPos.getD · 0) = acc ∧ (∀ i ∈ rows, i ∈ keep) := by
  unfold subsetRows at h
  simp only at h
  split at h
  · rename_i hlen
    cases h
    refine ⟨sorted_subset_eq ?_ hacc ?_ (by simpa using hlen), fun i hi => (List.mem_filter.mp hi).1⟩
    · -- strictly increasing
      have hrows : (keep.filter (fun i => acc.contains (varPos.getD i 0))).Pairwise
          (fun a b => a < b ∧ a < varPos.length ∧ b < varPos.length) := by
        apply List.Pairwise.filter
        exact (List.pairwise_iff_getElem.mpr (fun i j hi hj hij =>
          ⟨(List.pairwise_iff_getElem.mp hkeep) i j hi hj hij, hk _ (List.getElem_mem hi), hk _ (List.getElem_mem hj)⟩))
      refine List.Pairwise.map _ ?_ hrows
      intro a b ⟨hab, ha, hb⟩
      simp only [List.getD_eq_getElem?_getD, List.getElem?_eq_getElem ha, List.getElem?_eq_getElem hb, Option.getD_some]
      exact (List.pairwise_iff_getElem.mp hpos) a b ha hb hab
    · intro p hp
      obtain ⟨i, hi, rfl⟩ := List.mem_map.mp hp
      have := (List.mem_filter.mp hi).2
      simpa using this
  · cases h

theorem trustedRow_some {g : Gt} {k : Nat} (h : (trustedRow g).getD k none ≠ none) :
    g.length = 2 ∧ (∀ a ∈ g, a ≤ 1) ∧ k = g.sum := by
  unfold trustedRow at h
  by_cases hk : k < 3
  · rw [List.getD_eq_getElem?_getD, List.getElem?_map, List.getElem?_range hk] at h
    simp only [Option.map_some, Option.getD_some] at h
    split at h
    · rename_i hc
      exact ⟨hc.1, by simpa using hc.2.1, hc.2.2⟩
    · exact absurd rfl h
  · rw [List.getD_eq_getElem?_getD, List.getElem?_eq_none (by simp; omega)] at h
    exact absurd rfl h

theorem sortNat_pair (a b : Nat) (ha : a ≤ 1) (hb : b ≤ 1) :
    WhVerif.C04.sortNat [a, b] = WhVerif.C05P.genoAlleles (a + b) := by
  have : a = 0 ∨ a = 1 := by omega
  have : b = 0 ∨ b = 1 := by omega
  rcases ‹a = 0 ∨ a = 1› with rfl | rfl <;> rcases ‹b = 0 ∨ b = 1› with rfl | rfl <;> decide

end WhVerif.C05.L

namespace WhVerif.C05.L
open WhVerif.C05 WhVerif.C01 WhVerif.C05P WhVerif.C04
open WhVerif.C02P (posAt)

theorem trustedGeno_self {I : Inst} {ind c g : Nat} (h : trustedGeno I ind c = some g) : gcost I ind c g ≠ none := by
  unfold trustedGeno at h
  cases h0 : (gcost I ind c 0).isSome <;> cases h1 : (gcost I ind c 1).isSome <;>
    cases h2 : (gcost I ind c 2).isSome <;> simp [List.filter, h0, h1, h2] at h <;> subst h <;>
    intro hn <;> simp [hn] at h0 h1 h2

theorem gcost_buildGeno {I : Inst} {tab : GtTable} {rows : List Nat} (hg : I.geno = buildGeno tab rows)
    {ind c k : Nat} (h : gcost I ind c k ≠ none) :
    c < rows.length ∧ (trustedRow (gtAt tab ind (rows.getD c 0))).getD k none ≠ none := by
  unfold gcost at h
  rw [hg] at h
  unfold buildGeno famGenotypes at h
  simp only [List.map_map, List.getD_eq_getElem?_getD, List.getElem?_map] at h
  cases ht : tab[ind]? with
  | none => simp [ht] at h
  | some gs =>
    simp only [ht, Option.map_some, Option.getD_some, Function.comp, List.getElem?_map] at h
    cases hr : rows[c]? with
    | none => simp [hr] at h
    | some i =>
      simp only [hr, Option.map_some, Option.getD_some] at h
      have hc : c < rows.length := by
        by_contra hn
        rw [List.getElem?_eq_none (by omega)] at hr
        cases hr
      refine ⟨hc, ?_⟩
      have e1 : rows.getD c 0 = i := by simp [List.getD_eq_getElem?_getD, hr]
      have e2 : gtAt tab ind i = gs.getD i [] := by simp [gtAt, List.getD_eq_getElem?_getD, ht]
      rw [e1, e2]
      simpa [List.getD_eq_getElem?_getD] using h

/-- **the seam `hlink` from the table stage**: constraint table built by `buildGeno` from the rows `subset_rows_by_position`
keeps, positions strictly increasing, and the VariantTable's genotype of a member at a variant = the sorted alleles of the
record's call (the VCF reader) ⇒ the solver's trusted genotype in column `c` = the input call at that position -/
theorem hlink_of_table (S : Stage) (hin : PedPipelineOk S) (tab : GtTable) (trios : List (Nat × Nat × Nat)) (incl : Bool)
    (varPos rows : List Nat) (hpos : varPos.Pairwise (· < ·)) (hnv : varPos.length = nVariants tab)
    (hsub : subsetRows varPos (findPhaseableVariants tab trios incl).2 S.pos = some rows)
    (hgeno : S.I.geno = buildGeno tab rows)
    (hreader : ∀ r ∈ S.records, ∀ i, i < varPos.length → r.pos = varPos.getD i 0 → ∀ ind, ind < S.I.nind → ∀ call,
      clookup r.calls (S.names.getD ind "") = some call → gcode call.gt = sortNat (gtAt tab ind i)) :
    ∀ r ∈ S.records, ∀ c, c < S.I.ncols → r.pos = posAt S.pos c → ∀ ind, ind < S.I.nind → ∀ call g,
      clookup r.calls (S.names.getD ind "") = some call → trustedGeno S.I ind c = some g →
      gcode call.gt = genoAlleles g := by
  have hkeep : (findPhaseableVariants tab trios incl).2.Pairwise (· < ·) := by
    unfold findPhaseableVariants
    exact List.Pairwise.filter _ List.pairwise_lt_range
  have hk : ∀ i ∈ (findPhaseableVariants tab trios incl).2, i < varPos.length := by
    intro i hi
    rw [hnv]
    exact (mem_keep.mp hi).1
  obtain ⟨hmap, hmem⟩ := subsetRows_positions varPos _ S.pos rows hkeep hk hpos hin.pos_inc hsub
  intro r hr c hc hp ind hind call g hcall htg
  obtain ⟨hcr, hrow⟩ := gcost_buildGeno hgeno (trustedGeno_self htg)
  have hi : rows.getD c 0 ∈ rows := by
    rw [List.getD_eq_getElem?_getD, List.getElem?_eq_getElem hcr]; exact List.getElem_mem hcr
  have hpc : varPos.getD (rows.getD c 0) 0 = posAt S.pos c := by
    unfold posAt
    rw [← hmap]
    simp [List.getD_eq_getElem?_getD, List.getElem?_map, List.getElem?_eq_getElem hcr]
  rw [hreader r hr _ (hk _ (hmem _ hi)) (by rw [hp, hpc]) ind hind call hcall]
  obtain ⟨hl, hle, hsum⟩ := trustedRow_some hrow
  generalize gtAt tab ind (rows.getD c 0) = e at hl hle hsum
  match e, hl with
  | [a, b], _ =>
    have ha := hle a (by simp)
    have hb := hle b (by simp)
    rw [hsum]
    simpa using sortNat_pair a b ha hb

end WhVerif.C05.L

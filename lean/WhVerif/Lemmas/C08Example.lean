import WhVerif.Lemmas.C08Main
/-! # C08: the concrete instance used by the non-vacuity examples of `Props/C08.lean` -/
namespace WhVerif.C08

/-- one individual; three reads over three columns, a blank entry, a quality-0 entry -/
def exInst : Inst :=
  { nCols := 3, nInd := 1, triples := []
    reads := [⟨0, [(0, 0, 10), (1, 1, 20)]⟩, ⟨0, [(0, 1, 10), (2, 1, 30)]⟩, ⟨0, [(1, 0, 0), (2, 1, 10)]⟩] }

def exParams : Params Rat :=
  { em := fun q => if q = 0 then 9999 / 10000 else 1 / (q + 1)
    rho := fun c => 1 / (c + 3)
    prior := fun i _ g => if g = i % 3 then 1 / 2 else 1 / 4 }

def exScal : Scal Rat :=
  { fw := fun c => if c % 2 = 0 then 2 else 3, bw := fun c => if c = 1 then 1 / 5 else 4, bw2 := fun _ => 7 }

theorem exScal_nonZero : exScal.NonZero := by
  intro c
  refine ⟨?_, ?_, ?_⟩ <;> simp only [exScal] <;> (try split) <;> norm_num


end WhVerif.C08

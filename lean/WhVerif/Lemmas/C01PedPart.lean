import WhVerif.Model.C01Pedigree
import WhVerif.Lemmas.C05SolverPart
/-! C01 glue lemmas II: the recursion of `PedigreePartitions` as coded computes the partition map of the C01 model
(`h2pMap`: roots, then passes over the trio list) on every acyclic pedigree in which each child has one trio. -/
namespace WhVerif.C01
open WhVerif.C05.Solver (PedOK Good iter_good iter_length iter_mono roots_length roots_child roots_root set_after
  isChild_iff)

theorem getD_set_gen {α} (m : List (Option α)) (i j : Nat) (v : Option α) :
    (m.set i v).getD j none = if i = j ∧ i < m.length then v else m.getD j none := by
  simp only [List.getD_eq_getElem?_getD, List.getElem?_set]
  by_cases hij : i = j
  · subst hij
    by_cases hl : i < m.length
    · simp [hl]
    · simp [hl]
  · simp [hij]

/-! ### `triple_indices` -/

def tiStep (ti : List (Option Nat)) (x : (Nat × Nat × Nat) × Nat) : List (Option Nat) := ti.set x.1.2.2 (some x.2)

theorem tripleIndices_eq (n : Nat) (triples : List (Nat × Nat × Nat)) :
    tripleIndices n triples = (triples.zipIdx).foldl tiStep (List.replicate n none) := rfl

theorem ti_foldl_length : ∀ (l : List ((Nat × Nat × Nat) × Nat)) (ti : List (Option Nat)),
    (l.foldl tiStep ti).length = ti.length := by
  intro l
  induction l with
  | nil => intro ti; rfl
  | cons a l ih => intro ti; rw [List.foldl_cons, ih]; simp [tiStep]

theorem ti_foldl_sound : ∀ (l : List ((Nat × Nat × Nat) × Nat)) (ti : List (Option Nat)) (i k : Nat),
    (l.foldl tiStep ti).getD i none = some k → ti.getD i none = some k ∨ ∃ x ∈ l, x.1.2.2 = i ∧ x.2 = k := by
  intro l
  induction l with
  | nil => intro ti i k h; exact Or.inl h
  | cons a l ih =>
    intro ti i k h
    rw [List.foldl_cons] at h
    rcases ih _ i k h with h1 | ⟨x, hx, h2⟩
    · unfold tiStep at h1
      rw [getD_set_gen] at h1
      by_cases hc : a.1.2.2 = i ∧ a.1.2.2 < ti.length
      · rw [if_pos hc] at h1
        exact Or.inr ⟨a, List.mem_cons_self, hc.1, Option.some.inj h1⟩
      · rw [if_neg hc] at h1; exact Or.inl h1
    · exact Or.inr ⟨x, List.mem_cons_of_mem _ hx, h2⟩

theorem ti_foldl_keeps : ∀ (l : List ((Nat × Nat × Nat) × Nat)) (ti : List (Option Nat)) (i : Nat),
    (ti.getD i none).isSome = true → ((l.foldl tiStep ti).getD i none).isSome = true := by
  intro l
  induction l with
  | nil => intro ti i h; exact h
  | cons a l ih =>
    intro ti i h
    rw [List.foldl_cons]
    apply ih
    unfold tiStep
    rw [getD_set_gen]
    by_cases hc : a.1.2.2 = i ∧ a.1.2.2 < ti.length
    · rw [if_pos hc]; rfl
    · rw [if_neg hc]; exact h

theorem ti_foldl_complete : ∀ (l : List ((Nat × Nat × Nat) × Nat)) (ti : List (Option Nat)) (x),
    x ∈ l → x.1.2.2 < ti.length → ((l.foldl tiStep ti).getD x.1.2.2 none).isSome = true := by
  intro l
  induction l with
  | nil => intro ti x h; cases h
  | cons a l ih =>
    intro ti x hx hl
    rw [List.foldl_cons]
    rcases List.mem_cons.mp hx with rfl | hx'
    · apply ti_foldl_keeps
      unfold tiStep
      rw [getD_set_gen, if_pos ⟨rfl, hl⟩]; rfl
    · exact ih _ x hx' (by simpa [tiStep] using hl)

theorem getD_replicate_none (n i : Nat) : (List.replicate n (none : Option Nat)).getD i none = none := by
  simp only [List.getD_eq_getElem?_getD, List.getElem?_replicate]
  split <;> rfl

/-- an entry of `triple_indices` is the index of a triple with that child -/
theorem ti_sound (n : Nat) (triples : List (Nat × Nat × Nat)) (i k : Nat)
    (h : (tripleIndices n triples).getD i none = some k) : ∃ f mo, triples[k]? = some (f, mo, i) := by
  rw [tripleIndices_eq] at h
  rcases ti_foldl_sound _ _ i k h with h1 | ⟨x, hx, h2, h3⟩
  · rw [getD_replicate_none] at h1; cases h1
  · have := List.mem_zipIdx_iff_getElem?.mp hx
    refine ⟨x.1.1, x.1.2.1, ?_⟩
    rw [← h3, ← h2]
    simpa using this

/-- every child of a triple (an existing individual) has an entry -/
theorem ti_complete (n : Nat) (triples : List (Nat × Nat × Nat)) (k f mo i : Nat)
    (h : triples[k]? = some (f, mo, i)) (hi : i < n) : ((tripleIndices n triples).getD i none).isSome = true := by
  rw [tripleIndices_eq]
  have hx : ((f, mo, i), k) ∈ triples.zipIdx := List.mem_zipIdx_iff_getElem?.mpr (by simpa using h)
  exact ti_foldl_complete _ _ ((f, mo, i), k) hx (by simpa using hi)

theorem ti_isSome_iff (I : Inst) (i : Nat) (hi : i < I.nind) :
    ((tripleIndices I.nind I.trios).getD i none).isSome = isChild I i := by
  cases hc : isChild I i with
  | true =>
    obtain ⟨k, f, mo, hk⟩ := (isChild_iff I i).mp hc
    exact ti_complete _ _ k f mo i hk hi
  | false =>
    cases hti : (tripleIndices I.nind I.trios).getD i none with
    | none => rfl
    | some k =>
      obtain ⟨f, mo, hk⟩ := ti_sound _ _ i k hti
      have := (isChild_iff I i).mpr ⟨k, f, mo, hk⟩
      rw [hc] at this; cases this

/-! ### the roots -/

theorem foldl_congr_mem {α β} (f g : β → α → β) : ∀ (l : List α) (b : β), (∀ a ∈ l, ∀ b, f b a = g b a) →
    l.foldl f b = l.foldl g b := by
  intro l
  induction l with
  | nil => intro b _; rfl
  | cons a l ih =>
    intro b h
    rw [List.foldl_cons, List.foldl_cons, h a List.mem_cons_self b]
    exact ih _ (fun x hx => h x (List.mem_cons_of_mem _ hx))

theorem ppRoots_eq (I : Inst) : ppRoots I.nind (tripleIndices I.nind I.trios) = h2pRoots I := by
  unfold ppRoots h2pRoots
  congr 1
  apply foldl_congr_mem
  intro i hi acc
  rw [ti_isSome_iff I i (List.mem_range.mp hi)]

/-! ### the recursion -/

/-- `m` is a partial version of the final map `M` that contains the roots -/
structure Agree (I : Inst) (M m : PMap) : Prop where
  len : m.length = I.nind
  sub : ∀ i p, m.getD i none = some p → M.getD i none = some p
  roots : ∀ i p, (h2pRoots I).getD i none = some p → m.getD i none = some p

/-- the facts about the final map `M = h2pMap I t` that the recursion needs -/
structure Final (I : Inst) (t : Nat) (M : PMap) : Prop where
  len : M.length = I.nind
  total : ∀ i, i < I.nind → ∃ p, M.getD i none = some p
  child : ∀ k f mo i pf pm, I.trios[k]? = some (f, mo, i) → M.getD f none = some pf → M.getD mo none = some pm →
    M.getD i none = some (sel pf (bitOf t (2 * k)), sel pm (bitOf t (2 * k + 1)))
  roots : ∀ i p, (h2pRoots I).getD i none = some p → M.getD i none = some p

theorem h2pMap_final (I : Inst) (hok : PedOK I) (t : Nat) : Final I t (h2pMap I t) := by
  obtain ⟨gen, hgen, hbound⟩ := hok.acyclic
  have htotal : ∀ i, i < I.nind → ∃ p, (h2pMap I t).getD i none = some p :=
    fun i hi => set_after I hok t gen hgen I.nind i hi (hbound i hi)
  refine { len := ?_, total := htotal, child := ?_, roots := ?_ }
  · unfold h2pMap; rw [iter_length, roots_length]
  · intro k f mo i pf pm htr hf hm
    have hmem := List.mem_of_getElem? htr
    have hi : i < I.nind := (hok.members _ hmem).2.2
    obtain ⟨p, hp⟩ := htotal i hi
    have hchild : isChild I i = true := (isChild_iff I i).mpr ⟨k, f, mo, htr⟩
    rcases iter_good I t I.nind i p hp with h | ⟨k', f', mo', pf', pm', h1, h2, h3, h4⟩
    · rw [roots_child I i hi hchild] at h; cases h
    · have hk := hok.oneTrio k k' f mo f' mo' i htr h1
      subst hk
      rw [htr] at h1
      simp only [Option.some.injEq, Prod.mk.injEq, and_true] at h1
      obtain ⟨rfl, rfl⟩ := h1
      have h2' : (h2pMap I t).getD f none = some pf' := h2
      have h3' : (h2pMap I t).getD mo none = some pm' := h3
      rw [hf] at h2'; rw [hm] at h3'
      cases h2'; cases h3'
      rw [hp, h4]
  · intro i p h
    have := iter_mono I t 0 I.nind i p h
    rw [Nat.zero_add] at this
    exact this

theorem ppRec_ok (I : Inst) (hok : PedOK I) (t : Nat) (M : PMap) (hM : Final I t M) (gen : Nat → Nat)
    (hgen : ∀ tr ∈ I.trios, gen tr.1 < gen tr.2.2 ∧ gen tr.2.1 < gen tr.2.2) :
    ∀ fuel i m, Agree I M m → i < I.nind → gen i < fuel →
      ∃ m', ppRec I.trios (tripleIndices I.nind I.trios) t fuel i m = some m' ∧ Agree I M m' ∧
        (∀ j p, m.getD j none = some p → m'.getD j none = some p) ∧ ∃ p, m'.getD i none = some p := by
  intro fuel
  induction fuel with
  | zero => intro i m _ _ h; omega
  | succ fuel ih =>
    intro i m hA hi hg
    unfold ppRec
    cases hmi : m.getD i none with
    | some p => exact ⟨m, rfl, hA, fun _ _ h => h, p, hmi⟩
    | none =>
      simp only
      cases hti : (tripleIndices I.nind I.trios).getD i none with
      | none =>
        exfalso
        have hc : isChild I i = false := by
          rw [← ti_isSome_iff I i hi, hti]; rfl
        obtain ⟨p, hp⟩ := roots_root I i hi hc
        rw [hA.roots i p hp] at hmi; cases hmi
      | some k =>
        simp only
        obtain ⟨f, mo, hk⟩ := ti_sound _ _ i k hti
        have htr : I.trios.getD k default = (f, mo, i) := by
          rw [List.getD_eq_getElem?_getD, hk]; rfl
        rw [htr]
        simp only
        have hmem := List.mem_of_getElem? hk
        have hmb := hok.members _ hmem
        have hgg := hgen _ hmem
        simp only at hmb hgg
        obtain ⟨m1, e1, hA1, mono1, pf, hpf⟩ := ih f m hA hmb.1 (by omega)
        rw [e1]
        simp only
        obtain ⟨m2, e2, hA2, mono2, pm, hpm⟩ := ih mo m1 hA1 hmb.2.1 (by omega)
        rw [e2]
        simp only
        have hpf2 := mono2 f pf hpf
        rw [hpf2, hpm]
        simp only
        have hMi := hM.child k f mo i pf pm hk (hA2.sub f pf hpf2) (hA2.sub mo pm hpm)
        refine ⟨_, rfl, ?_, ?_, ?_⟩
        · refine { len := by simp [hA2.len], sub := ?_, roots := ?_ }
          · intro j p hj
            rw [getD_set_gen] at hj
            by_cases hc : i = j ∧ i < m2.length
            · rw [if_pos hc] at hj; rw [← hc.1, hMi, ← hj]
            · rw [if_neg hc] at hj; exact hA2.sub j p hj
          · intro j p hj
            rw [getD_set_gen]
            by_cases hc : i = j ∧ i < m2.length
            · exfalso
              have := hA.roots j p hj
              rw [← hc.1, hmi] at this; cases this
            · rw [if_neg hc]; exact hA2.roots j p hj
        · intro j p hj
          rw [getD_set_gen]
          by_cases hc : i = j ∧ i < m2.length
          · exfalso; rw [← hc.1, hmi] at hj; cases hj
          · rw [if_neg hc]; exact mono2 j p (mono1 j p hj)
        · refine ⟨(sel pf (bitOf t (2 * k)), sel pm (bitOf t (2 * k + 1))), ?_⟩
          rw [getD_set_gen, if_pos ⟨rfl, by rw [hA2.len]; exact hi⟩]

theorem ppLoop_ok (I : Inst) (hok : PedOK I) (t : Nat) (M : PMap) (hM : Final I t M) (gen : Nat → Nat)
    (hgen : ∀ tr ∈ I.trios, gen tr.1 < gen tr.2.2 ∧ gen tr.2.1 < gen tr.2.2) (fuel : Nat)
    (hfuel : ∀ i, i < I.nind → gen i < fuel) :
    ∀ (is : List Nat) (m : PMap), (∀ i ∈ is, i < I.nind) → Agree I M m →
      ∃ m', ppLoop I.trios (tripleIndices I.nind I.trios) t fuel is m = some m' ∧ Agree I M m' ∧
        (∀ j p, m.getD j none = some p → m'.getD j none = some p) ∧ ∀ i ∈ is, ∃ p, m'.getD i none = some p := by
  intro is
  induction is with
  | nil => intro m _ hA; exact ⟨m, rfl, hA, fun _ _ h => h, fun i hi => by cases hi⟩
  | cons a is ih =>
    intro m hin hA
    obtain ⟨m1, e1, hA1, mono1, p, hp⟩ := ppRec_ok I hok t M hM gen hgen fuel a m hA (hin a List.mem_cons_self)
      (hfuel a (hin a List.mem_cons_self))
    obtain ⟨m2, e2, hA2, mono2, hall⟩ := ih m1 (fun i hi => hin i (List.mem_cons_of_mem _ hi)) hA1
    refine ⟨m2, ?_, hA2, fun j q h => mono2 j q (mono1 j q h), ?_⟩
    · simp only [ppLoop, e1, Option.bind_some, e2]
    · intro i hi
      rcases List.mem_cons.mp hi with rfl | hi'
      · exact ⟨p, mono2 _ p hp⟩
      · exact hall i hi'

/-- **the recursion of `PedigreePartitions` computes the partition map of the C01 model**, with recursion depth at
most `nind + 1`, for every pedigree whose triples name existing individuals, in which no individual is the child of
two triples and which has no cycle -/
theorem ppMapOf_eq_h2pMap (I : Inst) (hok : PedOK I) (t : Nat) : ppMapOf I.nind I.trios t = some (h2pMap I t) := by
  obtain ⟨gen, hgen, hbound⟩ := hok.acyclic
  have hM := h2pMap_final I hok t
  have hA0 : Agree I (h2pMap I t) (h2pRoots I) :=
    { len := roots_length I, sub := hM.roots, roots := fun _ _ h => h }
  obtain ⟨m', e, hA, _, hall⟩ := ppLoop_ok I hok t _ hM gen hgen (I.nind + 1)
    (fun i hi => Nat.lt_succ_of_le (hbound i hi)) (List.range I.nind) (h2pRoots I)
    (fun i hi => List.mem_range.mp hi) hA0
  unfold ppMapOf
  simp only
  rw [ppRoots_eq, e]
  congr 1
  apply List.ext_getElem?
  intro i
  by_cases hi : i < I.nind
  · obtain ⟨p, hp⟩ := hall i (List.mem_range.mpr hi)
    have h1 := hA.sub i p hp
    simp only [List.getD_eq_getElem?_getD] at hp h1
    have l1 : i < m'.length := by rw [hA.len]; exact hi
    have l2 : i < (h2pMap I t).length := by rw [hM.len]; exact hi
    rw [List.getElem?_eq_getElem l1] at hp ⊢
    rw [List.getElem?_eq_getElem l2] at h1 ⊢
    simp only [Option.getD_some] at hp h1
    rw [hp, h1]
  · rw [List.getElem?_eq_none (by rw [hA.len]; omega), List.getElem?_eq_none (by rw [hM.len]; omega)]

end WhVerif.C01

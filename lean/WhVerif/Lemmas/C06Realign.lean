import WhVerif.Model.C06
import WhVerif.Lemmas.C06Lev
/-! Lemmas on the decision of `realign`: stable sort by distance, strict minimum ⇔ an allele is returned. -/
namespace WhVerif.C06

theorem insertDist_perm (x : Nat × Nat) (l : List (Nat × Nat)) : (insertDist x l).Perm (x :: l) := by
  induction l with
  | nil => simp [insertDist]
  | cons y ys ih =>
    simp only [insertDist]
    split
    · exact List.Perm.refl _
    · exact (List.Perm.cons y ih).trans (List.Perm.swap x y ys)

theorem sortDist_perm (l : List (Nat × Nat)) : (sortDist l).Perm l := by
  induction l with
  | nil => simp [sortDist]
  | cons x xs ih => exact (insertDist_perm x (sortDist xs)).trans (List.Perm.cons x ih)

def SortedD (l : List (Nat × Nat)) : Prop := l.Pairwise (fun a b => a.2 ≤ b.2)

theorem insertDist_sorted (x : Nat × Nat) (l : List (Nat × Nat)) (h : SortedD l) : SortedD (insertDist x l) := by
  induction l with
  | nil => simp [insertDist, SortedD]
  | cons y ys ih =>
    simp only [insertDist]
    simp only [SortedD, List.pairwise_cons] at h
    split
    · rename_i hlt
      simp only [SortedD, List.pairwise_cons]
      refine ⟨?_, h⟩
      intro a ha
      rcases List.mem_cons.1 ha with rfl | ha
      · omega
      · have := h.1 a ha; omega
    · rename_i hge
      simp only [SortedD, List.pairwise_cons]
      refine ⟨?_, ih h.2⟩
      intro a ha
      rcases List.mem_cons.1 ((insertDist_perm x ys).mem_iff.1 ha) with rfl | ha
      · omega
      · exact h.1 a ha

theorem sortDist_sorted (l : List (Nat × Nat)) : SortedD (sortDist l) := by
  induction l with
  | nil => simp [sortDist, SortedD]
  | cons x xs ih => exact insertDist_sorted x _ ih

/-- an entry strictly closer than every other one is returned -/
theorem decideAllele_strict (ds : List (Nat × Nat)) (h d : Nat) (hm : (h, d) ∈ ds) (hnd : ds.Nodup)
    (hs : ∀ y ∈ ds, y ≠ (h, d) → d < y.2) : decideAllele ds = .ok (some h) := by
  have p := sortDist_perm ds
  have so := sortDist_sorted ds
  have nd : (sortDist ds).Nodup := p.nodup_iff.2 hnd
  unfold decideAllele
  match hsd : sortDist ds with
  | [] => rw [hsd] at p; have := p.symm.eq_nil; subst this; simp at hm
  | [a] =>
    rw [hsd] at p
    have : (h, d) ∈ [a] := p.mem_iff.2 hm
    simp at this; subst this; rfl
  | a :: b :: r =>
    rw [hsd] at p so nd
    simp only [SortedD, List.pairwise_cons] at so
    have ha : a = (h, d) := by
      by_cases hc : a = (h, d)
      · exact hc
      · exfalso
        have h1 : d < a.2 := hs a (p.mem_iff.1 (by simp)) hc
        have h2 : (h, d) ∈ a :: b :: r := p.mem_iff.2 hm
        rcases List.mem_cons.1 h2 with h3 | h3
        · exact hc h3.symm
        · have := so.1 _ h3; simp at this; omega
    have hb : b ≠ (h, d) := by
      intro hb; rw [List.nodup_cons] at nd; apply nd.1; rw [ha, ← hb]; simp
    have h3 : d < b.2 := hs b (p.mem_iff.1 (by simp)) hb
    simp [ha, h3]

/-- whatever is returned is strictly closer than every other entry (so: a tie at the minimum ⇒ `none`) -/
theorem decideAllele_some (ds : List (Nat × Nat)) (h : Nat) (hr : decideAllele ds = .ok (some h)) :
    ∃ d, (h, d) ∈ ds ∧ ∀ y ∈ ds, y = (h, d) ∨ d < y.2 := by
  have p := sortDist_perm ds
  have so := sortDist_sorted ds
  unfold decideAllele at hr
  match hsd : sortDist ds with
  | [] => rw [hsd] at hr; simp at hr
  | [a] =>
    rw [hsd] at hr p
    simp only [Except.ok.injEq, Option.some.injEq] at hr
    refine ⟨a.2, ?_, ?_⟩
    · rw [← hr]; exact p.mem_iff.1 (by simp)
    · intro y hy; have := p.mem_iff.2 hy; simp at this; left; rw [this, ← hr]
  | a :: b :: r =>
    rw [hsd] at hr p so
    simp only [SortedD, List.pairwise_cons] at so
    by_cases hlt : a.2 < b.2
    · simp only [hlt, if_true, Except.ok.injEq, Option.some.injEq] at hr
      refine ⟨a.2, ?_, ?_⟩
      · rw [← hr]; exact p.mem_iff.1 (by simp)
      · intro y hy
        rcases List.mem_cons.1 (p.mem_iff.2 hy) with h1 | h1
        · left; rw [h1, ← hr]
        · right
          rcases List.mem_cons.1 h1 with h2 | h2
          · rw [h2]; exact hlt
          · have := so.2.1 y h2; omega
    · simp [hlt] at hr

theorem mem_enumFrom {α} (l : List α) (n k : Nat) (x : α) :
    (k, x) ∈ enumFrom n l ↔ n ≤ k ∧ l[k - n]? = some x := by
  induction l generalizing n with
  | nil => simp [enumFrom]
  | cons y ys ih =>
    simp only [enumFrom, List.mem_cons, Prod.mk.injEq, ih]
    constructor
    · rintro (⟨rfl, rfl⟩ | ⟨h1, h2⟩)
      · simp
      · refine ⟨by omega, ?_⟩
        have : k - n = (k - (n + 1)) + 1 := by omega
        rw [this]; simpa using h2
    · rintro ⟨h1, h2⟩
      by_cases hk : k = n
      · left; subst hk; simp at h2; exact ⟨rfl, h2.symm⟩
      · right; refine ⟨by omega, ?_⟩
        have : k - n = (k - (n + 1)) + 1 := by omega
        rw [this] at h2; simpa using h2

theorem enumFrom_map_nodup {α β} (g : α → β) (l : List α) (n : Nat) :
    ((enumFrom n l).map (fun p => (p.1, g p.2))).Nodup := by
  induction l generalizing n with
  | nil => simp [enumFrom]
  | cons y ys ih =>
    simp only [enumFrom, List.map_cons, List.nodup_cons]
    refine ⟨?_, ih (n + 1)⟩
    intro hmem
    rcases List.mem_map.1 hmem with ⟨⟨k, x⟩, hk, heq⟩
    have := (mem_enumFrom ys (n + 1) k x).1 hk
    simp at heq; omega

/-- without a genotype restriction the distance list is the enumerated padded alleles -/
theorem distances_none (dist : Seq → Seq → Nat) (w : Window) :
    distances dist none w = (enumFrom 0 w.padded).map (fun p => (p.1, dist w.query p.2)) := by
  unfold distances
  induction enumFrom 0 w.padded with
  | nil => rfl
  | cons x xs ih => simp [List.filterMap_cons, ih]

theorem mem_distances_none (dist : Seq → Seq → Nat) (w : Window) (k d : Nat) :
    (k, d) ∈ distances dist none w ↔ ∃ pk, w.padded[k]? = some pk ∧ d = dist w.query pk := by
  rw [distances_none, List.mem_map]
  constructor
  · rintro ⟨⟨k', x⟩, hm, heq⟩
    simp only [Prod.mk.injEq] at heq
    obtain ⟨rfl, rfl⟩ := heq
    exact ⟨x, by simpa using ((mem_enumFrom _ 0 k' x).1 hm).2, rfl⟩
  · rintro ⟨pk, h1, rfl⟩
    exact ⟨(k, pk), (mem_enumFrom _ 0 k pk).2 ⟨Nat.zero_le _, by simpa using h1⟩, rfl⟩

end WhVerif.C06

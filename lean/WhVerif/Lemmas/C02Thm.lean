import WhVerif.Lemmas.C02Zero
import WhVerif.Props.C01
/-!
# C02 lemmas, part 2: the four theorems on zero-cost solutions of error-free instances
(`zero_cost_unique` of DESIGN §5 C02, items (i)–(iii)); re-exported from `Props/C02.lean`.
-/
set_option linter.unusedSimpArgs false
namespace WhVerif.C02
open WhVerif.C01 WhVerif.Cost

variable {I : Inst} {hap : Nat → Nat} {src : Nat → Bool}

/-! ## (i) the truth has cost 0, hence the optimum is 0 -/

theorem truthPartition_getD (I : Inst) (src : Nat → Bool) {r : Nat} (hr : r < I.nreads) :
    (truthPartition I src).getD r false = src r := by
  simp [truthPartition, getD_map_range, hr]

theorem getD_replicate_zero (n c : Nat) : (List.replicate n 0).getD c 0 = 0 := by
  rw [List.getD_eq_getElem?_getD, List.getElem?_replicate]
  split <;> rfl

/-- the assignment that gives partition 0 the allele `x` -/
def truthAssign (x : Nat) : Nat := if x = 0 then 2 else 1

theorem flipOf_truthAssign (x : Nat) (hx : x ≤ 1) : flipOf (truthAssign x) x = false := by
  have hx' : x = 0 ∨ x = 1 := by omega
  rcases hx' with rfl | rfl <;> decide

theorem truthAssign_cases (x : Nat) : truthAssign x = 1 ∨ truthAssign x = 2 := by
  unfold truthAssign; split <;> simp

/-- **Theorem 1.** The true bipartition (every read on the haplotype it was drawn from), without
recombination, has cost exactly 0. -/
theorem errfree_truth_cost_zero (h : ErrFree I hap src) :
    totalCost I ((List.range I.nreads).map src) (List.replicate I.ncols 0) = some 0 := by
  rw [totalCost_zero_iff]
  intro c hc
  have hv : viewCost I c 0 (truthAssign (hap c)) (restrict (truthPartition I src) (I.activeAt c)) = 0 := by
    rw [viewCost_zero_iff h c 0 _ (truthAssign_cases _)]
    intro r hcov
    rw [truthPartition_getD I src (covers_lt hcov), flipOf_truthAssign _ (h.hap01 c hc)]
    simp
  have hcc : colCost I c (restrict (truthPartition I src) (I.activeAt c)) 0 = some 0 := by
    rw [colCost_het h c 0 hc]
    rcases truthAssign_cases (hap c) with e | e <;> rw [e] at hv <;> simp [hv]
  show colTotal I (truthPartition I src) (List.replicate I.ncols 0) c = some 0
  simp only [colTotal, getD_replicate_zero, hcc]
  simp [popcount_zero, cadd]

/-- **Theorem 1, corollary.** The solver reports cost 0 on every sorted error-free instance. -/
theorem errfree_dpCost_zero (h : ErrFree I hap src) (hwf : WF I) : dpCost I = some 0 := by
  have hs := (WhVerif.Props.C01.dp_optimal_spelled I hwf).1 ((List.range I.nreads).map src)
    (List.replicate I.ncols 0) (by simp [Inst.nreads]) (by simp)
    (by intro t ht; rw [List.eq_of_mem_replicate ht]; exact ntrans_pos I)
  rw [errfree_truth_cost_zero h] at hs
  cases hd : dpCost I with
  | none => rw [hd] at hs; simp [cle] at hs
  | some v => rw [hd] at hs; simp only [cle] at hs; congr; omega

/-! ## (ii) zero cost separates -/

/-- key step: a zero-cost solution puts, in every column, all covering reads on their true side, or all on the
opposite side -/
theorem zero_cost_column (h : ErrFree I hap src) {β : List Bool} {τ : List Nat}
    (hz : totalCost I β τ = some 0) (c : Nat) (hc : c < I.ncols) :
    ∃ s : Bool, ∀ r, covers I r c → β.getD r false = (src r != s) := by
  have hcz := colTotal_zero_colCost ((totalCost_zero_iff I β τ).mp hz c hc)
  obtain ⟨α, hα, hv⟩ := colCost_zero h c _ hc β hcz
  exact ⟨flipOf α (hap c), (viewCost_zero_iff h c _ α hα β).mp hv⟩

/-- **Theorem 2.** A zero-cost bipartition puts two reads that share a column on the same side iff they come
from the same true haplotype. -/
theorem zero_cost_separates (h : ErrFree I hap src) {β : List Bool} {τ : List Nat}
    (hz : totalCost I β τ = some 0) (r1 r2 : Nat) (hl : Linked I r1 r2) :
    (β.getD r1 false = β.getD r2 false ↔ src r1 = src r2) := by
  obtain ⟨c, h1, h2⟩ := hl
  obtain ⟨s, hs⟩ := zero_cost_column h hz c (covers_active h h1).2
  rw [hs r1 h1, hs r2 h2]
  cases src r1 <;> cases src r2 <;> cases s <;> simp

/-! ## (iii) per connected component: the truth or its swap -/

theorem zero_cost_connected (h : ErrFree I hap src) {β : List Bool} {τ : List Nat}
    (hz : totalCost I β τ = some 0) {r0 r : Nat} (hc : Connected I r0 r) :
    β.getD r false = (src r != (β.getD r0 false != src r0)) := by
  induction hc with
  | refl _ => cases β.getD r0 false <;> cases src r0 <;> rfl
  | @step r2 r3 _ _ hl ih =>
    have := zero_cost_separates h hz r2 r3 hl
    revert this ih
    cases β.getD r2 false <;> cases β.getD r3 false <;> cases src r2 <;> cases src r3 <;>
      cases (β.getD r0 false != src r0) <;> simp

/-- **Theorem 3.** On every read-connected component a zero-cost bipartition is the true one or its swap. -/
theorem zero_cost_component (h : ErrFree I hap src) {β : List Bool} {τ : List Nat}
    (hz : totalCost I β τ = some 0) (r0 : Nat) :
    (∀ r, Connected I r0 r → β.getD r false = src r) ∨
    (∀ r, Connected I r0 r → β.getD r false = !src r) := by
  cases hs : (β.getD r0 false != src r0)
  · left; intro r hc; rw [zero_cost_connected h hz hc, hs]; simp
  · right; intro r hc; rw [zero_cost_connected h hz hc, hs]; simp

/-! ## (iv) no tie, and the phased alleles are the truth up to the swap -/

theorem h2p_single (h : ErrFree I hap src) (t hh : Nat) : h2p I t 0 hh = if hh = 0 then 0 else 1 := by
  simp [h2p, h2pMap_single h, h2pOf]

theorem getAlleles_het (h : ErrFree I hap src) (c t : Nat) (hc : c < I.ncols) (bs : List Bool) :
    getAlleles I c bs t =
      some [if viewCost I c t 1 bs = viewCost I c t 2 bs then (3, 3)
            else if viewCost I c t 2 bs ≤ viewCost I c t 1 bs then (0, 1) else (1, 0)] := by
  have b10 : bitOf 1 0 = 1 := by decide
  have b11 : bitOf 1 1 = 0 := by decide
  have b20 : bitOf 2 0 = 0 := by decide
  have b21 : bitOf 2 1 = 1 := by decide
  generalize hv1 : viewCost I c t 1 bs = v1
  generalize hv2 : viewCost I c t 2 bs = v2
  simp only [getAlleles, assignments_het h c t hc, List.map_cons, List.map_nil, hv1, hv2, h.nind]
  simp only [List.range_succ, List.range_zero, List.nil_append, List.map_cons, List.map_nil, h2p_single h,
    if_true, b10, b20, b21, Nat.zero_add, List.filter_cons, List.filter_nil]
  have cs : ∀ a b : Nat, cmin (some a) (some b) = some (min a b) := fun _ _ => rfl
  have hh : ([(1, v1), (2, v2)] : List (Nat × Nat)).head! = (1, v1) := rfl
  rw [hh]
  by_cases e : v1 = v2
  · subst e
    simp [b10, b11, b20, b21, cs]
  · have e' : ¬ v2 = v1 := fun x => e x.symm
    by_cases hle : v2 ≤ v1
    · have hm : min v1 v2 = v2 := by omega
      simp [b10, b11, b20, b21, cs, e, e', hle, hm]
    · have hm : min v1 v2 = v1 := by omega
      simp [b10, b11, b20, b21, cs, e, e', hle, hm]

/-- **Theorem 4.** Under a zero-cost solution a covered column is never a tie (no allele 3), and the super-read
alleles are the true haplotypes, swapped iff the covering reads sit on the side opposite to their origin. -/
theorem zero_cost_no_tie (h : ErrFree I hap src) {β : List Bool} {τ : List Nat}
    (hz : totalCost I β τ = some 0) (c : Nat) (hc : c < I.ncols) (t : Nat) (r : Nat) (hcov : covers I r c) :
    getAlleles I c (restrict β (I.activeAt c)) t =
      some [if β.getD r false = src r then (hap c, 1 - hap c) else (1 - hap c, hap c)] := by
  have hcz := colTotal_zero_colCost ((totalCost_zero_iff I β τ).mp hz c hc)
  rw [colCost_het h c _ hc] at hcz
  have hx := h.hap01 c hc
  have hx' : hap c = 0 ∨ hap c = 1 := by omega
  have i1 := viewCost_zero_iff h c t 1 (Or.inl rfl) β
  have i2 := viewCost_zero_iff h c t 2 (Or.inr rfl) β
  have hc1 := colCost_het h c t hc (restrict β (I.activeAt c))
  have hc2 := colCost_het h c (τ.getD c 0) hc (restrict β (I.activeAt c))
  -- the mismatch weights do not depend on the transmission value
  have ht : ∀ α, viewCost I c (τ.getD c 0) α (restrict β (I.activeAt c))
      = viewCost I c t α (restrict β (I.activeAt c)) := by
    intro α; simp only [viewCost, h2pMap_single h]
  rw [ht 1, ht 2] at hcz
  simp only [Option.some.injEq] at hcz
  rw [getAlleles_het h c t hc]
  generalize viewCost I c t 1 (restrict β (I.activeAt c)) = v1 at *
  generalize viewCost I c t 2 (restrict β (I.activeAt c)) = v2 at *
  have f12 := flipOf_one_two (hap c) hx
  by_cases h1 : v1 = 0
  · have a1 := i1.mp h1 r hcov
    have n2 : v2 ≠ 0 := by
      intro h2
      have a2 := i2.mp h2 r hcov
      rw [a1, f12] at a2
      revert a2; cases src r <;> cases flipOf 2 (hap c) <;> simp
    have hne : ¬ v1 = v2 := by omega
    have hle : ¬ v2 ≤ v1 := by omega
    simp only [hne, hle, if_false]
    rw [a1]
    rcases hx' with e | e <;> rw [e] <;> cases src r <;> simp [flipOf, show bitOf 1 0 = 1 by decide]
  · have h2 : v2 = 0 := by omega
    have a2 := i2.mp h2 r hcov
    have hne : ¬ v1 = v2 := by omega
    have hle : v2 ≤ v1 := by omega
    simp only [hne, hle, if_false, if_true]
    rw [a2]
    rcases hx' with e | e <;> rw [e] <;> cases src r <;> simp [flipOf, show bitOf 2 0 = 0 by decide]

end WhVerif.C02

import WhVerif.Lemmas.C11Poly
/-!
Pruning of `switchflipcalculator.cpp` preserves the column minima: every erased permutation is dominated by a kept
one (`score p + switchCost * d(t,p) ≤ score t`), and `d` (number of differing positions of two permutations of the
same length) satisfies the triangle inequality.  Hence the coded DP returns the same cost as the un-pruned one.
-/
namespace WhVerif.C11

theorem hamming_symm (s t : List Nat) : hamming s t = hamming t s := by
  induction s generalizing t with
  | nil => cases t <;> simp [hamming]
  | cons a s ih =>
    cases t with
    | nil => simp [hamming]
    | cons b t => simp [hamming, ih t, eq_comm]

theorem hamming_refl (s : List Nat) : hamming s s = 0 := by
  induction s with
  | nil => simp [hamming]
  | cons a s ih => simp [hamming, ih]

theorem hamming_triangle (a b c : List Nat) (h1 : a.length = b.length) (h2 : b.length = c.length) :
    hamming a c ≤ hamming a b + hamming b c := by
  induction a generalizing b c with
  | nil => cases c <;> simp [hamming]
  | cons x a ih =>
    cases b with
    | nil => simp at h1
    | cons y b =>
      cases c with
      | nil => simp at h2
      | cons z c =>
        have := ih b c (by simpa using h1) (by simpa using h2)
        simp only [hamming]
        have hx : (if x = z then 0 else 1) ≤ (if x = y then 0 else 1) + (if y = z then 0 else 1) := by
          split <;> split <;> split <;> omega
        omega

/-- every permutation of `ps` is dominated by an entry of `col`; the entries carry the scores `w` -/
def Kept (col : List Entry) (ps : List Perm) (w : Perm → Nat) (sc : Nat) : Prop :=
  (∀ e ∈ col, e.perm ∈ ps ∧ e.score = w e.perm) ∧
  (∀ t ∈ ps, ∃ e ∈ col, e.score + sc * numSwitches t e.perm ≤ w t)

theorem Tracks.mem_perm {col : List Entry} {ps : List Perm} {w : Perm → Nat} (h : Tracks col ps w)
    {e : Entry} (he : e ∈ col) : e.perm ∈ ps := by
  rw [← h.1]; exact List.mem_map.2 ⟨e, he, rfl⟩

theorem Tracks.exists_entry {col : List Entry} {ps : List Perm} {w : Perm → Nat} (h : Tracks col ps w)
    {t : Perm} (ht : t ∈ ps) : ∃ e ∈ col, e.perm = t := by
  rw [← h.1] at ht
  obtain ⟨e, he, rfl⟩ := List.mem_map.1 ht
  exact ⟨e, he, rfl⟩

theorem Tracks.kept {col : List Entry} {ps : List Perm} {w : Perm → Nat} (h : Tracks col ps w) (sc : Nat) :
    Kept col ps w sc := by
  refine ⟨fun e he => ⟨h.mem_perm he, h.2 e he⟩, ?_⟩
  intro t ht
  obtain ⟨e, he, rfl⟩ := h.exists_entry ht
  exact ⟨e, he, by simp [numSwitches, hamming_refl, h.2 e he]⟩

/-- with a dominating kept column the recurrence sees the same minimum as with the full column -/
theorem kept_step_min (ps : List Perm) (p sc : Nat) (hlen : ∀ q ∈ ps, q.length = p) (prev : List Entry)
    (w : Perm → Nat) (hk : Kept prev ps w sc) (r : Perm) (hr : r ∈ ps) :
    listMin (prev.map fun e => e.score + sc * numSwitches r e.perm)
      = listMin (ps.map fun q => w q + sc * numSwitches r q) := by
  have hps : ps ≠ [] := List.ne_nil_of_mem hr
  obtain ⟨e0, he0, _⟩ := hk.2 r hr
  have hprev : prev ≠ [] := List.ne_nil_of_mem he0
  apply Nat.le_antisymm
  · -- the minimum over `ps` is attained at some q, which is dominated by a kept entry
    have hm := listMin_mem (l := ps.map fun q => w q + sc * numSwitches r q) (by simpa using hps)
    obtain ⟨q, hq, hqe⟩ := List.mem_map.1 hm
    obtain ⟨e, he, hdom⟩ := hk.2 q hq
    have hle : listMin (prev.map fun e => e.score + sc * numSwitches r e.perm) ≤ e.score + sc * numSwitches r e.perm :=
      listMin_le_of_mem (List.mem_map.2 ⟨e, he, rfl⟩)
    have htri : numSwitches r e.perm ≤ numSwitches r q + numSwitches q e.perm := by
      simp only [numSwitches]
      exact hamming_triangle r q e.perm (by rw [hlen r hr, hlen q hq]) (by rw [hlen q hq, hlen _ (hk.1 e he).1])
    have : sc * numSwitches r e.perm ≤ sc * numSwitches r q + sc * numSwitches q e.perm := by
      rw [← Nat.mul_add]; exact Nat.mul_le_mul_left _ htri
    rw [← hqe]
    omega
  · have hm := listMin_mem (l := prev.map fun e => e.score + sc * numSwitches r e.perm) (by simpa using hprev)
    obtain ⟨e, he, hee⟩ := List.mem_map.1 hm
    rw [← hee, (hk.1 e he).2]
    exact listMin_le_of_mem (List.mem_map.2 ⟨e.perm, (hk.1 e he).1, rfl⟩)

theorem fullColumn_tracks_of_kept (ps : List Perm) (p sc fc : Nat) (hlen : ∀ q ∈ ps, q.length = p)
    (prev : List Entry) (w : Perm → Nat) (c0 c1 : List Nat) (hk : Kept prev ps w sc) :
    Tracks (fullColumn ps sc fc prev c0 c1) ps (stepW ps sc fc w (c0, c1)) := by
  constructor
  · simp [fullColumn, List.map_map, Function.comp_def]
  · intro e he
    simp only [fullColumn, List.mem_map] at he
    obtain ⟨r, hr, rfl⟩ := he
    simp only [stepW]
    rw [kept_step_min ps p sc hlen prev w hk r hr]

/-- the loop over the open entries: every open entry survives or is dominated by an initially profitable or a
surviving entry -/
theorem pruneLoop_spec (p sc : Nat) (prof0 : List Entry) (opn prof acc : List Entry)
    (hinv : ∀ q ∈ prof, q ∈ prof0 ∨ q ∈ acc) :
    (∀ a ∈ acc, a ∈ pruneLoop p sc opn prof acc) ∧
    (∀ a ∈ pruneLoop p sc opn prof acc, a ∈ acc ∨ a ∈ opn) ∧
    (∀ t ∈ opn, t ∈ pruneLoop p sc opn prof acc ∨
      ∃ q, (q ∈ prof0 ∨ q ∈ pruneLoop p sc opn prof acc) ∧ q.score + sc * numSwitches t.perm q.perm ≤ t.score) := by
  induction opn generalizing prof acc with
  | nil => simp [pruneLoop]
  | cons t rest ih =>
    simp only [pruneLoop]
    split
    · -- `t` survives
      have hinv' : ∀ q ∈ (if prof.length < p then prof ++ [t] else prof), q ∈ prof0 ∨ q ∈ t :: acc := by
        intro q hq
        split at hq
        · rcases List.mem_append.1 hq with hq | hq
          · rcases hinv q hq with h | h
            · exact Or.inl h
            · exact Or.inr (List.mem_cons_of_mem _ h)
          · simp at hq; subst hq; exact Or.inr List.mem_cons_self
        · rcases hinv q hq with h | h
          · exact Or.inl h
          · exact Or.inr (List.mem_cons_of_mem _ h)
      obtain ⟨h1, h2, h3⟩ := ih _ (t :: acc) hinv'
      refine ⟨fun a ha => h1 a (List.mem_cons_of_mem _ ha), ?_, ?_⟩
      · intro a ha
        rcases h2 a ha with h | h
        · rcases List.mem_cons.1 h with rfl | h
          · exact Or.inr List.mem_cons_self
          · exact Or.inl h
        · exact Or.inr (List.mem_cons_of_mem _ h)
      · intro x hx
        rcases List.mem_cons.1 hx with rfl | hx
        · exact Or.inl (h1 _ List.mem_cons_self)
        · exact h3 x hx
    · -- `t` is erased: some profitable entry dominates it
      rename_i hnot
      obtain ⟨h1, h2, h3⟩ := ih prof acc hinv
      refine ⟨h1, ?_, ?_⟩
      · intro a ha
        rcases h2 a ha with h | h
        · exact Or.inl h
        · exact Or.inr (List.mem_cons_of_mem _ h)
      · intro x hx
        rcases List.mem_cons.1 hx with rfl | hx
        · right
          simp only [List.all_eq_true, decide_eq_true_eq] at hnot
          obtain ⟨q, hq'⟩ := Classical.not_forall.1 hnot
          obtain ⟨hq, hlt⟩ := Classical.not_imp.1 hq'
          refine ⟨q, ?_, by omega⟩
          rcases hinv q hq with h | h
          · exact Or.inl h
          · exact Or.inr (h1 q h)
        · exact h3 x hx

theorem prune_kept (ps : List Perm) (p sc : Nat) (full : List Entry) (w : Perm → Nat) (h : Tracks full ps w) :
    Kept (prune p sc full) ps w sc := by
  have hsub : ∀ e ∈ prune p sc full, e ∈ full := by
    intro e he; simp only [prune] at he; exact (List.mem_filter.1 he).1
  refine ⟨fun e he => ⟨h.mem_perm (hsub e he), h.2 e (hsub e he)⟩, ?_⟩
  intro t ht
  obtain ⟨et, het, rfl⟩ := h.exists_entry ht
  -- abbreviations
  generalize hm : listMin (full.map (·.score)) = m
  have hspec := pruneLoop_spec p sc (full.filter (fun e => decide (e.score ≤ m)))
    (full.filter (fun e => decide (m < e.score))) (full.filter (fun e => decide (e.score ≤ m))) []
    (fun q hq => Or.inl hq)
  obtain ⟨_, hres, hdom⟩ := hspec
  have hkeptOpen : ∀ q ∈ pruneLoop p sc (full.filter (fun e => decide (m < e.score)))
      (full.filter (fun e => decide (e.score ≤ m))) [], q ∈ prune p sc full := by
    intro q hq
    have hq' : q ∈ full := by
      rcases hres q hq with h0 | h0
      · cases h0
      · exact (List.mem_filter.1 h0).1
    simp only [prune, hm]
    refine List.mem_filter.2 ⟨hq', ?_⟩
    simp only [Bool.or_eq_true, List.any_eq_true]
    exact Or.inr ⟨q, hq, by simp⟩
  have hprof : ∀ q ∈ full.filter (fun e => decide (e.score ≤ m)), q ∈ prune p sc full := by
    intro q hq
    simp only [prune, hm]
    obtain ⟨hq1, hq2⟩ := List.mem_filter.1 hq
    exact List.mem_filter.2 ⟨hq1, by simp only [Bool.or_eq_true]; exact Or.inl hq2⟩
  have hself : ∀ e : Entry, e.score + sc * numSwitches e.perm e.perm ≤ e.score := by
    intro e; simp [numSwitches, hamming_refl]
  by_cases hle : et.score ≤ m
  · exact ⟨et, hprof et (List.mem_filter.2 ⟨het, by simpa using hle⟩), by rw [← h.2 et het]; exact hself et⟩
  · have hopen : et ∈ full.filter (fun e => decide (m < e.score)) :=
      List.mem_filter.2 ⟨het, by simp; omega⟩
    rcases hdom et hopen with hk | ⟨q, hq, hqd⟩
    · exact ⟨et, hkeptOpen et hk, by rw [← h.2 et het]; exact hself et⟩
    · refine ⟨q, ?_, by rw [← h.2 et het]; exact hqd⟩
      rcases hq with hq | hq
      · exact hprof q hq
      · exact hkeptOpen q hq

theorem runColumns_kept (ps : List Perm) (p sc fc : Nat) (hlen : ∀ q ∈ ps, q.length = p)
    (col : List Entry) (w : Perm → Nat) (rest : List (List Nat × List Nat)) (hk : Kept col ps w sc) :
    Kept (runColumns p ps sc fc col rest) ps (runW ps sc fc w rest) sc := by
  induction rest generalizing col w with
  | nil => exact hk
  | cons c cs ih =>
    obtain ⟨c0, c1⟩ := c
    simp only [runColumns, runW, nextColumn]
    exact ih _ _ (prune_kept ps p sc _ _ (fullColumn_tracks_of_kept ps p sc fc hlen col w c0 c1 hk))

theorem kept_final_min (ps : List Perm) (hne : ps ≠ []) (sc : Nat) (col : List Entry) (w : Perm → Nat)
    (hk : Kept col ps w sc) : listMin (col.map (·.score)) = listMin (ps.map w) := by
  obtain ⟨t0, ht0⟩ := List.exists_mem_of_ne_nil ps hne
  obtain ⟨e0, he0, _⟩ := hk.2 t0 ht0
  apply Nat.le_antisymm
  · have hm := listMin_mem (l := ps.map w) (by simpa using hne)
    obtain ⟨q, hq, hqe⟩ := List.mem_map.1 hm
    obtain ⟨e, he, hdom⟩ := hk.2 q hq
    have : listMin (col.map (·.score)) ≤ e.score := listMin_le_of_mem (List.mem_map.2 ⟨e, he, rfl⟩)
    rw [← hqe]; omega
  · have hm := listMin_mem (l := col.map (·.score)) (by simpa using List.ne_nil_of_mem he0)
    obtain ⟨e, he, hee⟩ := List.mem_map.1 hm
    rw [← hee, (hk.1 e he).2]
    exact listMin_le_of_mem (List.mem_map.2 ⟨e.perm, (hk.1 e he).1, rfl⟩)

/-- the coded (pruned) DP and the un-pruned DP return the same cost -/
theorem polyCompare_cost_eq_full (fixA : Bool) (p sc fc : Nat) (hne : perms p ≠ [])
    (hlen : ∀ q ∈ perms p, q.length = p) (cols : List (List Nat × List Nat)) :
    (polyCompare fixA p sc fc cols).cost = (polyCompareFull p sc fc cols).1 := by
  cases cols with
  | nil => simp [polyCompare, polyCompareFull]
  | cons c rest =>
    obtain ⟨c0, c1⟩ := c
    have h0 := firstColumn_tracks (perms p) fc c0 c1
    have hk := runColumns_kept (perms p) p sc fc hlen _ _ rest (h0.kept sc)
    have hf := runColumnsFull_tracks (perms p) sc fc _ _ rest h0
    simp only [polyCompare, polyCompareFull]
    rw [kept_final_min (perms p) hne sc _ _ hk, kept_final_min (perms p) hne sc _ _ (hf.kept sc)]

end WhVerif.C11

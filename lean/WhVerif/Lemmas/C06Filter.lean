import WhVerif.Model.C06Filter
/-!
Lemmas on the alignment filter and the construction of reads from the alignments that pass it.
-/
namespace WhVerif.C06

/-! ## streams -/

theorem mem_oks {α} (l : List (Except RErr α)) (a : α) : a ∈ oks l ↔ Except.ok a ∈ l := by
  induction l with
  | nil => simp [oks]
  | cons x l ih =>
    cases x with
    | error e => simp [oks, ih]
    | ok b => simp [oks, ih]

theorem oks_map_ok {α} (l : List α) : oks (l.map (Except.ok (ε := RErr))) = l := by
  induction l with
  | nil => rfl
  | cons x l ih => simp [oks, ih]

theorem firstError_map_ok {α} (l : List α) : firstError (l.map (Except.ok (ε := RErr))) = none := by
  induction l with
  | nil => rfl
  | cons x l ih => simp [firstError, ih]

theorem oks_append {α} (l m : List (Except RErr α)) : oks (l ++ m) = oks l ++ oks m := by
  induction l with
  | nil => rfl
  | cons x l ih => cases x <;> simp [oks, ih]

theorem oks_filter_sublist {α} (l : List (Except RErr α)) (p : Except RErr α → Bool) :
    (oks (l.filter p)).Sublist (oks l) := by
  induction l with
  | nil => simp [oks]
  | cons x l ih =>
    by_cases hp : p x = true
    · rw [List.filter_cons_of_pos hp]
      cases x with
      | error e => simpa [oks] using ih
      | ok b => simpa [oks] using ih
    · rw [List.filter_cons_of_neg hp]
      cases x with
      | error e => simpa [oks] using ih
      | ok b => simp only [oks]; exact List.Sublist.cons _ ih

/-! ## the filter -/

/-- what `usable` means, flag by flag -/
theorem usable_iff (cfg : ReadCfg) (a : Aln) :
    usable cfg a = true ↔
      (a.supplementary = true → cfg.useSupplementary = true) ∧ cfg.mapqThreshold ≤ a.mapq ∧ a.secondary = false ∧
      a.unmapped = false ∧ (a.duplicate = true → cfg.duplicates = true) ∧ (cfg.skipNoSeq = true → a.query.isSome = true) := by
  unfold usable
  cases hs : a.supplementary <;> cases hu : cfg.useSupplementary <;> cases h2 : a.secondary <;> cases h3 : a.unmapped <;>
    cases hd : a.duplicate <;> cases hcd : cfg.duplicates <;> cases hn : cfg.skipNoSeq <;> cases hq : a.query <;>
    simp <;> omega

theorem fetchSource_sublist (tol : Bool) (s : Source) (sample : Option String) (r : Region) :
    (oks (fetchSource tol s sample r)).Sublist s.alns := by
  unfold fetchSource
  cases sample with
  | none => simp only [oks_map_ok]; exact List.filter_sublist
  | some sm =>
    simp only
    cases s.groupsOf sm with
    | none => simp [oks]
    | some ids =>
      simp only
      refine List.Sublist.trans ?_ (List.filter_sublist (p := (overlapsRegion · r)))
      generalize s.alns.filter (overlapsRegion · r) = l
      induction l with
      | nil => simp [oks]
      | cons a l ih =>
        simp only [List.filterMap_cons]
        cases hrg : rgTest tol ids a with
        | none => exact List.Sublist.cons _ ih
        | some x =>
          simp only
          cases x with
          | error e => simp only [oks]; exact List.Sublist.cons _ ih
          | ok b =>
            have : b = a := by
              unfold rgTest at hrg
              cases h : a.rg with
              | none => simp [h] at hrg
              | some g => simp [h] at hrg; exact hrg.2.symm
            subst this
            simp only [oks]; exact List.Sublist.cons_cons _ ih

theorem mem_usableOfRegion (cfg : ReadCfg) (earlier : List Region) (l : List (Except RErr Aln)) (a : Aln) :
    Except.ok a ∈ usableOfRegion cfg earlier l ↔
      Except.ok a ∈ l ∧ earlier.any (overlapsRegion a) = false ∧ usable cfg a = true := by
  simp [usableOfRegion, List.mem_filter]

theorem mem_usableGo (cfg : ReadCfg) (sources : List Source) (sample : Option String) (done rest : List Region) (a : Aln)
    (h : Except.ok a ∈ usableGo cfg sources sample done rest) : usable cfg a = true := by
  induction rest generalizing done with
  | nil => simp [usableGo] at h
  | cons r rest ih =>
    simp only [usableGo, List.mem_append] at h
    rcases h with h | h
    · exact ((mem_usableOfRegion _ _ _ _).1 h).2.2
    · exact ih _ h

/-- region `(0, None)` contains every alignment -/
theorem overlapsRegion_all (a : Aln) : overlapsRegion a (0, none) = true := by
  unfold overlapsRegion Aln.refEnd
  simp only [Bool.and_true, decide_eq_true_eq]
  split
  · simp
  · cases a.cigar with
    | none => simp
    | some c => simp; omega

/-! ## the merge of a group -/

variable {Q : Type}

theorem mem_insertByPosG (x y : Nat × Nat × Q) (l : List (Nat × Nat × Q)) :
    y ∈ insertByPosG x l ↔ y = x ∨ y ∈ l := by
  induction l with
  | nil => simp [insertByPosG]
  | cons z l ih =>
    simp only [insertByPosG]
    split
    · simp
    · simp only [List.mem_cons, ih]
      constructor
      · rintro (h | h | h) <;> simp [h]
      · rintro (h | h | h) <;> simp [h]

theorem mem_sortByPosG (y : Nat × Nat × Q) (l : List (Nat × Nat × Q)) : y ∈ sortByPosG l ↔ y ∈ l := by
  induction l with
  | nil => simp [sortByPosG]
  | cons x l ih => simp [sortByPosG, mem_insertByPosG, ih]

theorem addVariantsG_subset (acc : List (Nat × Nat × Q)) (skip : List Nat) (xs : List (Nat × Nat × Q))
    (y : Nat × Nat × Q) (h : y ∈ (addVariantsG acc skip xs).1) : y ∈ acc ∨ y ∈ xs := by
  induction xs generalizing acc skip with
  | nil => simp [addVariantsG] at h; exact Or.inl h
  | cons x xs ih =>
    simp only [addVariantsG] at h
    split at h
    · rcases ih _ _ h with h | h
      · exact Or.inl h
      · exact Or.inr (List.mem_cons_of_mem _ h)
    · rcases ih _ _ h with h | h
      · simp only [List.mem_append, List.mem_singleton] at h
        rcases h with h | h
        · exact Or.inl h
        · exact Or.inr (by simp [h])
      · exact Or.inr (List.mem_cons_of_mem _ h)

theorem foldl_addVariantsG_subset (used : List AlignedQ) (st : List (Nat × Nat × Int) × List Nat) (y : Nat × Nat × Int)
    (h : y ∈ (used.foldl (fun st r => addVariantsG st.1 st.2 r.variants) st).1) :
    y ∈ st.1 ∨ ∃ r ∈ used, y ∈ r.variants := by
  induction used generalizing st with
  | nil => exact Or.inl h
  | cons r used ih =>
    simp only [List.foldl_cons] at h
    rcases ih _ h with h | ⟨r', hr', hy⟩
    · rcases addVariantsG_subset _ _ _ _ h with h | h
      · exact Or.inl h
      · exact Or.inr ⟨r, by simp, h⟩
    · exact Or.inr ⟨r', List.mem_cons_of_mem _ hr', hy⟩

/-- provenance through `create_read_from_group`: the read is named after a primary alignment of the group, and each of
its alleles was detected on an alignment of the group -/
theorem mergeGroupQ_prov (f12 : Bool) (g : List AlignedQ) (thr : Int) (r : ReadOut) (h : mergeGroupQ f12 g thr = some r) :
    (∃ prim ∈ g, prim.supplementary = false ∧ r.name = prim.name ∧ r.sourceId = prim.sourceId) ∧
    ∀ y ∈ r.variants, ∃ a ∈ g, y ∈ a.variants := by
  unfold mergeGroupQ at h
  simp only at h
  split at h
  · cases h
  · rename_i primary hprim
    split at h
    · cases h
    · cases h
      have hmem : primary ∈ g.filter (fun r => !r.supplementary) := List.mem_of_getLast? hprim
      rw [List.mem_filter] at hmem
      refine ⟨⟨primary, hmem.1, by simpa using hmem.2, rfl, rfl⟩, ?_⟩
      intro y hy
      simp only [mem_sortByPosG, List.mem_filter] at hy
      rcases foldl_addVariantsG_subset _ _ _ hy.1 with h0 | ⟨a, ha, hya⟩
      · cases h0
      · exact ⟨a, (List.mem_filter.1 ha).1, hya⟩

/-! ## grouping -/

def sameKey (a b : AlignedQ) : Prop := a.sourceId = b.sourceId ∧ a.name = b.name

theorem groupInsert_inv (a : AlignedQ) (gs : List (List AlignedQ)) (S : AlignedQ → Prop)
    (hS : ∀ g ∈ gs, ∀ b ∈ g, S b) (ha : S a)
    (hK : ∀ g ∈ gs, ∀ b ∈ g, ∀ c ∈ g, sameKey b c) :
    (∀ g ∈ groupInsert a gs, ∀ b ∈ g, S b) ∧ (∀ g ∈ groupInsert a gs, ∀ b ∈ g, ∀ c ∈ g, sameKey b c) := by
  induction gs with
  | nil =>
    simp only [groupInsert, List.mem_singleton]
    constructor
    · intro g hg b hb; subst hg; simp at hb; subst hb; exact ha
    · intro g hg b hb c hc; subst hg; simp at hb hc; subst hb hc; exact ⟨rfl, rfl⟩
  | cons g gs ih =>
    simp only [groupInsert]
    split
    · rename_i hany
      simp only [List.any_eq_true, Bool.and_eq_true, beq_iff_eq] at hany
      obtain ⟨w, hw, hw1, hw2⟩ := hany
      constructor
      · intro g' hg' b hb
        rcases List.mem_cons.1 hg' with rfl | hg'
        · rcases List.mem_append.1 hb with hb | hb
          · exact hS g (by simp) b hb
          · simp at hb; subst hb; exact ha
        · exact hS g' (List.mem_cons_of_mem _ hg') b hb
      · intro g' hg' b hb c hc
        rcases List.mem_cons.1 hg' with rfl | hg'
        · have key : ∀ z ∈ g ++ [a], sameKey z w := by
            intro z hz
            rcases List.mem_append.1 hz with hz | hz
            · exact hK g (by simp) z hz w hw
            · simp at hz; subst hz; exact ⟨hw1.symm, hw2.symm⟩
          have kb := key b hb
          have kc := key c hc
          exact ⟨kb.1.trans kc.1.symm, kb.2.trans kc.2.symm⟩
        · exact hK g' (List.mem_cons_of_mem _ hg') b hb c hc
    · have := ih (fun g' hg' => hS g' (List.mem_cons_of_mem _ hg')) (fun g' hg' => hK g' (List.mem_cons_of_mem _ hg'))
      constructor
      · intro g' hg' b hb
        rcases List.mem_cons.1 hg' with rfl | hg'
        · exact hS g' (by simp) b hb
        · exact this.1 g' hg' b hb
      · intro g' hg' b hb c hc
        rcases List.mem_cons.1 hg' with rfl | hg'
        · exact hK g' (by simp) b hb c hc
        · exact this.2 g' hg' b hb c hc

theorem groupBy_inv (l : List AlignedQ) :
    (∀ g ∈ groupBy l, ∀ b ∈ g, b ∈ l) ∧ (∀ g ∈ groupBy l, ∀ b ∈ g, ∀ c ∈ g, sameKey b c) := by
  unfold groupBy
  suffices H : ∀ (gs : List (List AlignedQ)) (S : AlignedQ → Prop), (∀ g ∈ gs, ∀ b ∈ g, S b) → (∀ a ∈ l, S a) →
      (∀ g ∈ gs, ∀ b ∈ g, ∀ c ∈ g, sameKey b c) →
      (∀ g ∈ l.foldl (fun gs a => groupInsert a gs) gs, ∀ b ∈ g, S b) ∧
      (∀ g ∈ l.foldl (fun gs a => groupInsert a gs) gs, ∀ b ∈ g, ∀ c ∈ g, sameKey b c) by
    exact H [] (· ∈ l) (by simp) (fun a ha => ha) (by simp)
  induction l with
  | nil => intro gs S h1 _ h3; exact ⟨h1, h3⟩
  | cons a l ih =>
    intro gs S h1 h2 h3
    simp only [List.foldl_cons]
    have := groupInsert_inv a gs S h1 (h2 a (by simp)) h3
    exact ih _ S this.1 (fun b hb => h2 b (List.mem_cons_of_mem _ hb)) this.2

/-! ## `_alignments_to_reads` -/

theorem toReadsGo_mem (cfg : ReadCfg) (variants : List Variant) (reference : Option Seq) (positions : List Nat)
    (i : Nat) (st : List (Except RErr Aln)) (reads : List AlignedQ)
    (h : toReadsGo cfg variants reference positions i st = .ok reads) (aq : AlignedQ) (haq : aq ∈ reads) :
    ∃ a i' det, Except.ok a ∈ st ∧ aq.name = a.name ∧ aq.sourceId = a.sourceId ∧
      aq.supplementary = a.supplementary ∧ detectAln cfg variants reference i' a = .ok det ∧
      aq.variants = det.map (fun t => ((variants[t.1]?).map (·.pos) |>.getD 0, t.2.1, t.2.2)) := by
  induction st generalizing i reads with
  | nil => simp [toReadsGo] at h; subst h; cases haq
  | cons x st ih =>
    cases x with
    | error e => simp [toReadsGo] at h
    | ok a =>
      simp only [toReadsGo] at h
      split at h
      · cases h
      · rename_i ps hps
        split at h
        · cases h
        · rename_i det hdet
          split at h
          · cases h
          · rename_i more hmore
            split at h
            · cases h
              obtain ⟨a', i', det', h1, h2⟩ := ih _ _ hmore haq
              exact ⟨a', i', det', List.mem_cons_of_mem _ h1, h2⟩
            · cases h
              rcases List.mem_cons.1 haq with rfl | haq
              · exact ⟨a, _, det, by simp, rfl, rfl, rfl, hdet, rfl⟩
              · obtain ⟨a', i', det', h1, h2⟩ := ih _ _ hmore haq
                exact ⟨a', i', det', List.mem_cons_of_mem _ h1, h2⟩

end WhVerif.C06

import WhVerif.Lemmas.C02PipelineWrite
import WhVerif.Spec.C05Pipeline
/-!
# C05 pipeline, part 2: reader (C09) ∘ writer (C04, repaired) on MULTI-SAMPLE records

Generalisation of `C02P.readChrom_writeChrom` from one sample / one target to any header sample list and any list of
targets: every call of a target sample decodes to the writer's phase statement `C09.written` of ITS target (whatever
phase information it carried in the input), a call of a non-target sample (required to carry no phase information of
its own, otherwise the reader may legitimately raise `MixedPhasingError`) decodes to nothing.
-/
namespace WhVerif.C05P
open WhVerif.C04
open WhVerif.C02P (StOk encOf biallelic writeRecord_prev readCall_written)

/-- the phase statement expected in the written file for the call of sample `n` at position `pos` -/
def expPhase (cfg : Cfg) (pos : Nat) (n : String) : Option C09.Phase :=
  match findTarget cfg n with
  | some t => C09.written false t pos
  | none => none

/-- the same, gated by whether the writer reaches the tagging code for the record -/
def gatedPhase (cfg : Cfg) (prev : Option Nat) (r : Record) (n : String) : Option C09.Phase :=
  match findTarget cfg n with
  | some t => if reaches cfg prev r then C09.written false t r.pos else none
  | none => none

/-- a multi-sample input record: calls as pysam presents them, samples from the header, non-target samples
without phase information -/
structure CallsOk (cfg : Cfg) (r : Record) : Prop where
  wf : ∀ nc ∈ r.calls, C09.WfCall r.format nc.2
  hdr : ∀ nc ∈ r.calls, nc.1 ∈ cfg.samples
  other : ∀ nc ∈ r.calls, findTarget cfg nc.1 = none → nc.2.phased = false ∧ nc.2.get "HP" = .missing

theorem readCall_other (st : Option C09.Enc) (fmt : List String) (c : Call) (h1 : c.phased = false)
    (h2 : c.get "HP" = .missing) : C09.readCall st fmt c = .ok (st, none) := by
  simp [C09.readCall, C09.callPhases, C09.extractHP, C09.extractGTPS, h1, h2, C09.detect, bind, Except.bind,
    pure, Except.pure]

theorem readCalls_written (cfg : Cfg) (hr : cfg.repaired = true) (hm : cfg.mav = false) (prev : Option Nat)
    (r : Record) : ∀ (calls : List (String × Call)) (st : Option C09.Enc), StOk cfg.tag st →
    (∀ nc ∈ calls, C09.WfCall r.format nc.2) →
    (∀ nc ∈ calls, findTarget cfg nc.1 = none → nc.2.phased = false ∧ nc.2.get "HP" = .missing) →
    ∃ st', StOk cfg.tag st' ∧
      C09.readCalls st (writeRecord cfg prev r).record.format
          (calls.map fun nc => (nc.1, finalCall cfg prev r nc.1 nc.2)) =
        .ok (st', calls.map fun nc => gatedPhase cfg prev r nc.1)
  | [], st, hst, _, _ => ⟨st, hst, rfl⟩
  | (n, c) :: rest, st, hst, hwf, hoth => by
    have hwf' : ∀ nc ∈ rest, C09.WfCall r.format nc.2 := fun nc h => hwf nc (List.mem_cons_of_mem _ h)
    have hoth' : ∀ nc ∈ rest, findTarget cfg nc.1 = none → nc.2.phased = false ∧ nc.2.get "HP" = .missing :=
      fun nc h => hoth nc (List.mem_cons_of_mem _ h)
    cases hft : findTarget cfg n with
    | none =>
      obtain ⟨h1, h2⟩ := hoth (n, c) List.mem_cons_self hft
      obtain ⟨st', hst', ih⟩ := readCalls_written cfg hr hm prev r rest st hst hwf' hoth'
      refine ⟨st', hst', ?_⟩
      have hfin : finalCall cfg prev r n c = c := by simp only [finalCall, hft]
      simp only [List.map_cons, C09.readCalls, hfin, readCall_other st _ c h1 h2, ih, gatedPhase, hft, bind,
        Except.bind, pure, Except.pure]
    | some t =>
      obtain ⟨st1, hst1, hrc⟩ :=
        readCall_written cfg hr hm prev r n t hft c (hwf (n, c) List.mem_cons_self) st hst
      obtain ⟨st', hst', ih⟩ := readCalls_written cfg hr hm prev r rest st1 hst1 hwf' hoth'
      refine ⟨st', hst', ?_⟩
      simp only [List.map_cons, C09.readCalls, hrc, ih, gatedPhase, hft, bind, Except.bind, pure, Except.pure]

/-- for a biallelic record at a new position, `reaches` only depends on whether some header sample has something to
write; a target that has is such a sample -/
theorem gated_eq (cfg : Cfg) (hm : cfg.mav = false) (hs : cfg.onlySnvs = false) (prev : Option Nat) (r : Record)
    (hb : biallelic r = true) (hprev : ∀ p, prev = some p → p < r.pos) (n : String) (hn : n ∈ cfg.samples) :
    gatedPhase cfg prev r n = expPhase cfg r.pos n := by
  unfold gatedPhase expPhase
  cases hft : findTarget cfg n with
  | none => rfl
  | some t =>
    simp only
    have hp : (prev == some r.pos) = false := by
      cases prev with
      | none => rfl
      | some p => have := hprev p rfl; simp; omega
    have hre : reaches cfg prev r = anyPhased cfg r.pos := by
      simp only [biallelic, Bool.not_eq_true', Bool.or_eq_false_iff] at hb
      simp [reaches, hb.1, hb.2, hp, hs, hm]
    cases hw : C09.written false t r.pos with
    | none => simp
    | some ph =>
      have hany : anyPhased cfg r.pos = true := by
        unfold anyPhased
        rw [List.any_eq_true]
        refine ⟨n, hn, ?_⟩
        rw [hft, hm]
        unfold C09.written at hw
        cases h1 : alookup t.comps r.pos <;> cases h2 : lookupPhase false t r.pos <;> simp [h1, h2] at hw ⊢
      rw [hre, hany]; rfl

section chrom
variable (cfg : Cfg) (hr : cfg.repaired = true) (hm : cfg.mav = false) (hs : cfg.onlySnvs = false)
include hr hm hs

theorem readChrom_writeChrom_multi : ∀ (rs : List Record) (prevW prevR : Option Nat) (st : Option C09.Enc),
    StOk cfg.tag st → (∀ r ∈ rs, CallsOk cfg r) → rs.Pairwise (fun a b => a.pos < b.pos) →
    (∀ p, prevW = some p → ∀ r ∈ rs, p < r.pos) → (∀ p, prevR = some p → ∀ r ∈ rs, p < r.pos) →
    ∃ st' rows, C09.readChrom false st prevR (outRecords (writeChrom cfg prevW rs)) = .ok (st', rows) ∧
      rows.map rowPhases =
        (rs.filter biallelic).map (fun r => (r.pos, r.calls.map (fun nc => expPhase cfg r.pos nc.1)))
  | [], _, _, st, _, _, _, _, _ => ⟨st, [], rfl, rfl⟩
  | r :: rs, prevW, prevR, st, hst, hok, hpw, hW, hR => by
    obtain ⟨hwf, hhdr, hoth⟩ := hok r List.mem_cons_self
    rw [List.pairwise_cons] at hpw
    have hok' : ∀ r' ∈ rs, CallsOk cfg r' := fun r' h' => hok r' (List.mem_cons_of_mem _ h')
    have hW' : ∀ p, (writeRecord cfg prevW r).prev = some p → ∀ r' ∈ rs, p < r'.pos := by
      intro p hp r' h'
      rcases C02P.writeRecord_prev cfg prevW r with e | e
      · rw [e] at hp; cases hp; exact hpw.1 r' h'
      · rw [e] at hp; exact hW p hp r' (List.mem_cons_of_mem _ h')
    obtain ⟨_, hpos, href, halts⟩ := writeRecord_site cfg prevW r
    simp only [writeChrom, outRecords, List.map_cons]
    unfold C09.readChrom
    rw [halts, hpos, href, writeRecord_calls]
    cases hb : biallelic r with
    | false =>
      have hb' : (r.alts.isEmpty || decide (r.alts.length > 1)) = true := by
        unfold biallelic at hb; revert hb; cases (r.alts.isEmpty || decide (r.alts.length > 1)) <;> simp
      rw [if_pos hb']
      have hR' : ∀ p, prevR = some p → ∀ r' ∈ rs, p < r'.pos :=
        fun p hp r' h' => hR p hp r' (List.mem_cons_of_mem _ h')
      obtain ⟨st', rows, h1, h2⟩ := readChrom_writeChrom_multi rs _ prevR st hst hok' hpw.2 hW' hR'
      refine ⟨st', rows, h1, ?_⟩
      rw [h2, List.filter_cons, hb]; rfl
    | true =>
      have hb' : (r.alts.isEmpty || decide (r.alts.length > 1)) = false := by
        unfold biallelic at hb; revert hb; cases (r.alts.isEmpty || decide (r.alts.length > 1)) <;> simp
      obtain ⟨st1, hst1, hrc⟩ := readCalls_written cfg hr hm prevW r r.calls st hst hwf hoth
      have hgate : (r.calls.map fun nc => gatedPhase cfg prevW r nc.1) =
          r.calls.map (fun nc => expPhase cfg r.pos nc.1) := by
        apply List.map_congr_left
        intro nc hnc
        exact gated_eq cfg hm hs prevW r hb (fun p hp => hW p hp r List.mem_cons_self) nc.1 (hhdr nc hnc)
      rw [hgate] at hrc
      have hR' : ∀ p, some r.pos = some p → ∀ r' ∈ rs, p < r'.pos := by
        intro p hp r' h'; cases hp; exact hpw.1 r' h'
      obtain ⟨st', rows, h1, h2⟩ := readChrom_writeChrom_multi rs _ (some r.pos) st1 hst1 hok' hpw.2 hW' hR'
      refine ⟨st', ⟨r.pos, r.ref, r.alts.headD "",
        ((r.calls.map fun nc => (nc.1, finalCall cfg prevW r nc.1 nc.2)).map (fun nc => gcode nc.2.gt)).zip
          (r.calls.map (fun nc => expPhase cfg r.pos nc.1))⟩ :: rows, ?_, ?_⟩
      · have hlt : ∀ p, prevR = some p → p < r.pos := fun p hp => hR p hp r List.mem_cons_self
        simp only [outRecords] at h1
        cases prevR with
        | none => simp [hb', hrc, bind, Except.bind, pure, Except.pure, h1]
        | some p =>
          have h5 := hlt p rfl
          have h6 : ¬ r.pos < p := by omega
          have h7 : ¬ p = r.pos := by omega
          simp [hb', hrc, bind, Except.bind, pure, Except.pure, h1, h6, h7]
      · rw [List.filter_cons, hb]
        simp only [if_true, List.map_cons, h2, rowPhases]
        congr 2
        rw [List.map_snd_zip]
        simp
end chrom

end WhVerif.C05P

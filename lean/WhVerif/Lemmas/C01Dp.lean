import WhVerif.Lemmas.C01Sys
/-! The table DP of the model computes the abstract interface DP; hence the optimum. Core Lean only. -/
set_option linter.unusedSimpArgs false
set_option linter.unusedVariables false
namespace WhVerif.C01
open WhVerif.Cost WhVerif.InterfaceDp

theorem shared_le_active (I : Inst) (h : WF I) (c : Nat) :
    (I.sharedAt c).length ≤ (I.activeAt (c + 1)).length := by
  have := congrArg List.length (shared_prefix I h c)
  simp only [List.length_take] at this
  omega

def sysOf (I : Inst) (h : WF I) : Sys X V Ifc where
  n := I.ncols
  univ := solutions I
  v := vw I
  i := ifc I
  p := pj I
  q := qj I
  g := gc I
  views := viewsAt I
  hp := by
    intro c x
    simp only [ifc, pj, vw, fwdBits_restrict]
  hq := by
    intro c x
    simp only [ifc, qj, vw, Nat.add_sub_cancel, Prod.mk.injEq, and_true]
    unfold restrict
    rw [← List.map_take, shared_prefix I h c]
  hviews := hviews I
  glue := glue I

theorem past_eq (I : Inst) (h : WF I) (c : Nat) (x : X) :
    past (sysOf I h) c x = costUpTo I x.1 x.2 c := by
  induction c with
  | zero => simp [past, costUpTo, sysOf, gc, vw, colTotal]
  | succ c ih =>
    simp only [past, costUpTo, ih]
    simp [sysOf, gc, vw, colTotal]

/-! ### bucketMin -/

theorem foldl_modify_size {α} (items : List α) (key : α → Nat) (f : α → Option Nat) (arr : Array (Option Nat)) :
    (items.foldl (fun arr a => arr.modify (key a) (fun old => cmin old (f a))) arr).size = arr.size := by
  induction items generalizing arr with
  | nil => rfl
  | cons a l ih => simp [ih]

theorem bucketMin_getD {α} (n : Nat) (items : List α) (key : α → Nat) (f : α → Option Nat) (k : Nat) (hk : k < n) :
    (bucketMin n items key f).getD k none = minOver (items.filter (fun a => key a == k)) f := by
  unfold bucketMin
  rw [foldl_bucket _ _ _ _ _ (by simpa using hk)]
  simp [Array.getD_eq_getD_getElem?, hk]

/-! ### arithmetic of table indices -/

theorem enc_inj (M a b t t' : Nat) (ht : t < M) (ht' : t' < M) (h : a * M + t = b * M + t') : a = b ∧ t = t' := by
  have hM : 0 < M := by omega
  have h1 : (a * M + t) / M = a := by
    rw [Nat.mul_comm, Nat.mul_add_div hM, Nat.div_eq_of_lt ht]; rfl
  have h2 : (b * M + t') / M = b := by
    rw [Nat.mul_comm, Nat.mul_add_div hM, Nat.div_eq_of_lt ht']; rfl
  have hab : a = b := by rw [← h1, ← h2, h]
  subst hab
  exact ⟨rfl, by omega⟩

theorem enc_lt (M W f t : Nat) (hf : f < W) (ht : t < M) : f * M + t < W * M := by
  have : (f + 1) * M ≤ W * M := Nat.mul_le_mul_right M hf
  rw [Nat.add_mul] at this
  omega

theorem filterMap_zip_length {α β} (l : List α) (bs : List β) (P : α → Bool) (hl : bs.length = l.length) :
    ((l.zip bs).filterMap (fun rb => if P rb.1 then some rb.2 else none)).length = (l.filter P).length := by
  induction l generalizing bs with
  | nil => simp
  | cons a l ih =>
    cases bs with
    | nil => simp at hl
    | cons b bs =>
      simp only [List.zip_cons_cons, List.filterMap_cons, List.filter_cons]
      by_cases h : P a <;> simp [h, ih bs (by simpa using hl)]

theorem fwdBits_length (I : Inst) (c : Nat) (bs : List Bool) (h : bs.length = (I.activeAt c).length) :
    (fwdBits I c bs).length = (I.sharedAt c).length := by
  unfold fwdBits Inst.sharedAt
  have := filterMap_zip_length (I.activeAt c) bs (fun r => decide (c + 1 ≤ (I.read r).last)) h
  simpa using this

/-! ### the table computes the abstract projection -/

/-- specification of a projection table of column `c` -/
def TableOk (I : Inst) (h : WF I) (c : Nat) (tab : Array (Option Nat)) : Prop :=
  ∀ fs t, fs.length = (I.sharedAt c).length → t < I.ntrans →
    tab.getD (natOfBits fs * I.ntrans + t) none = dp (sysOf I h) c (fs, t)

theorem dpCell_zero (I : Inst) (h : WF I) (prev : Array (Option Nat)) (idx t : Nat) :
    dpCell I 0 prev idx t = cell (sysOf I h) 0 (bitsOf (I.activeAt 0).length idx, t, t) := by
  simp [dpCell, cell, sysOf, gc, Nat.xor_self, popcount]

theorem dpCell_succ (I : Inst) (h : WF I) (c : Nat) (prev : Array (Option Nat)) (hprev : TableOk I h c prev)
    (idx t : Nat) (hidx : idx < 2 ^ (I.activeAt (c + 1)).length) :
    dpCell I (c + 1) prev idx t =
      minOver (List.range I.ntrans) (fun j => cell (sysOf I h) (c + 1) (bitsOf (I.activeAt (c + 1)).length idx, j, t)) := by
  simp only [dpCell, Nat.add_sub_cancel, if_neg (Nat.succ_ne_zero c)]
  rw [cadd_minOver]
  apply minOver_congr_fun
  intro j hj
  have hj : j < I.ntrans := List.mem_range.mp hj
  simp only [cell, sysOf, qj, gc]
  have hbp : idx % 2 ^ (I.sharedAt c).length
      = natOfBits ((bitsOf (I.activeAt (c + 1)).length idx).take (I.sharedAt c).length) := by
    rw [natOfBits_take, natOfBits_bitsOf _ _ hidx]
  rw [hbp, hprev _ j (by simp only [List.length_take, bitsOf_length]; exact Nat.min_eq_left (shared_le_active I h c)) hj]
  have hlc : ∀ a b c : Option Nat, cadd a (cadd b c) = cadd b (cadd a c) := by
    intro a b c; cases a <;> cases b <;> cases c <;> simp [cadd]; omega
  exact hlc _ _ _

theorem key_eq_iff (I : Inst) (c : Nat) (idx t : Nat) (fs : List Bool) (t0 : Nat)
    (hfs : fs.length = (I.sharedAt c).length) (ht : t < I.ntrans) (ht0 : t0 < I.ntrans) :
    (natOfBits (fwdBits I c (bitsOf (I.activeAt c).length idx)) * I.ntrans + t == natOfBits fs * I.ntrans + t0) = true
      ↔ pj I c (bitsOf (I.activeAt c).length idx, (0 : Nat), t) = (fs, t0) := by
  simp only [beq_iff_eq, pj, Prod.mk.injEq]
  constructor
  · intro hk
    have := enc_inj _ _ _ _ _ ht ht0 hk
    refine ⟨natOfBits_inj _ _ ?_ this.1, this.2⟩
    rw [fwdBits_length I c _ (by simp), hfs]
  · rintro ⟨h1, h2⟩
    rw [h1, h2]

theorem projTable_ok (I : Inst) (h : WF I) (c : Nat) (prev : Array (Option Nat))
    (hprev : c = 0 ∨ TableOk I h (c - 1) prev) : TableOk I h c (projTable I c prev) := by
  intro fs t0 hfs ht0
  have hMpos := ntrans_pos I
  unfold projTable
  simp only
  rw [bucketMin_getD _ _ _ _ _ (enc_lt _ _ _ _ (by rw [← hfs]; exact natOfBits_lt fs) ht0)]
  rw [dp]
  cases c with
  | zero =>
    -- column 0: views are (bs, t, t)
    rw [minOver_congr_fun _ _ (fun it => cell (sysOf I h) 0 (bitsOf (I.activeAt 0).length it.1, it.2, it.2))
      (fun it _ => dpCell_zero I h prev it.1 it.2)]
    rw [← minOver_map _ (fun it : Nat × Nat => ((bitsOf (I.activeAt 0).length it.1, it.2, it.2) : V))
      (fun a => cell (sysOf I h) 0 a)]
    apply minOver_congr_mem
    rintro ⟨bs, j, t⟩
    simp only [List.mem_map, List.mem_filter, Prod.exists, mem_pairs, sysOf]
    constructor
    · rintro ⟨idx, t', ⟨⟨hidx, ht'⟩, hkey⟩, heq⟩
      simp only [Prod.mk.injEq] at heq
      obtain ⟨rfl, rfl, rfl⟩ := heq
      have hk := (key_eq_iff I 0 idx t' fs t0 hfs ht' ht0).mp hkey
      refine ⟨(mem_viewsAt I 0 _).mpr ⟨by simp, ht', ht', fun _ => rfl⟩, ?_⟩
      simpa [pj] using hk
    · rintro ⟨hv, hp⟩
      have hv' := (mem_viewsAt I 0 _).mp hv
      simp only at hv'
      have hjt : j = t := by simpa using hv'.2.2.2
      subst hjt
      have hp' : pj I 0 (bs, j, j) = (fs, t0) := of_decide_eq_true hp
      refine ⟨natOfBits bs, j, ⟨⟨by rw [← hv'.1]; exact natOfBits_lt bs, hv'.2.1⟩, ?_⟩, ?_⟩
      · apply (key_eq_iff I 0 _ j fs t0 hfs hv'.2.1 ht0).mpr
        rw [← hv'.1, bitsOf_natOfBits]
        simpa [pj] using hp'
      · rw [← hv'.1, bitsOf_natOfBits]
  | succ c =>
    have hprev' : TableOk I h c prev := by
      rcases hprev with h0 | h1
      · omega
      · simpa using h1
    have hfun : ∀ it ∈ (pairs (2 ^ (I.activeAt (c + 1)).length) I.ntrans).filter (fun it =>
          natOfBits (fwdBits I (c + 1) (bitsOf (I.activeAt (c + 1)).length it.1)) * I.ntrans + it.2
            == natOfBits fs * I.ntrans + t0),
        dpCell I (c + 1) prev it.1 it.2 =
          minOver ((List.range I.ntrans).map (fun j => ((bitsOf (I.activeAt (c + 1)).length it.1, j, it.2) : V)))
            (fun a => cell (sysOf I h) (c + 1) a) := by
      rintro ⟨idx, t⟩ hit
      simp only [List.mem_filter, mem_pairs] at hit
      rw [minOver_map]
      exact dpCell_succ I h c prev hprev' idx t hit.1.1
    rw [minOver_congr_fun _ _ _ hfun, ← minOver_flatMap]
    apply minOver_congr_mem
    rintro ⟨bs, j, t⟩
    simp only [List.mem_flatMap, List.mem_map, List.mem_filter, Prod.exists, mem_pairs, sysOf, List.mem_range]
    constructor
    · rintro ⟨idx, t', ⟨⟨hidx, ht'⟩, hkey⟩, j', hj', heq⟩
      simp only [Prod.mk.injEq] at heq
      obtain ⟨rfl, rfl, rfl⟩ := heq
      have hk := (key_eq_iff I (c + 1) idx t' fs t0 hfs ht' ht0).mp hkey
      refine ⟨(mem_viewsAt I (c + 1) _).mpr ⟨by simp, hj', ht', fun h0 => absurd h0 (Nat.succ_ne_zero c)⟩, ?_⟩
      simpa [pj] using hk
    · rintro ⟨hv, hp⟩
      have hv' := (mem_viewsAt I (c + 1) _).mp hv
      simp only at hv'
      have hp' : pj I (c + 1) (bs, j, t) = (fs, t0) := of_decide_eq_true hp
      refine ⟨natOfBits bs, t, ⟨⟨by rw [← hv'.1]; exact natOfBits_lt bs, hv'.2.2.1⟩, ?_⟩, j, hv'.2.1, ?_⟩
      · apply (key_eq_iff I (c + 1) _ t fs t0 hfs hv'.2.2.1 ht0).mpr
        rw [← hv'.1, bitsOf_natOfBits]
        simpa [pj] using hp'
      · rw [← hv'.1, bitsOf_natOfBits]

theorem tableAt_ok (I : Inst) (h : WF I) (c : Nat) : TableOk I h c (tableAt I c) := by
  induction c with
  | zero => exact projTable_ok I h 0 #[] (Or.inl rfl)
  | succ c ih => exact projTable_ok I h (c + 1) (tableAt I c) (Or.inr (by simpa using ih))


/-! ### the optimum -/

theorem lastCol_eq (I : Inst) (h : WF I) (c : Nat) (prev : Array (Option Nat))
    (hprev : c = 0 ∨ TableOk I h (c - 1) prev) :
    minOver (pairs (2 ^ (I.activeAt c).length) I.ntrans) (fun it => dpCell I c prev it.1 it.2)
      = minOver (viewsAt I c) (fun a => cell (sysOf I h) c a) := by
  cases c with
  | zero =>
    rw [minOver_congr_fun _ _ (fun it => cell (sysOf I h) 0 (bitsOf (I.activeAt 0).length it.1, it.2, it.2))
      (fun it _ => dpCell_zero I h prev it.1 it.2)]
    rw [← minOver_map _ (fun it : Nat × Nat => ((bitsOf (I.activeAt 0).length it.1, it.2, it.2) : V))
      (fun a => cell (sysOf I h) 0 a)]
    apply minOver_congr_mem
    rintro ⟨bs, j, t⟩
    simp only [List.mem_map, Prod.exists, mem_pairs]
    constructor
    · rintro ⟨idx, t', ⟨hidx, ht'⟩, heq⟩
      simp only [Prod.mk.injEq] at heq
      obtain ⟨rfl, rfl, rfl⟩ := heq
      exact (mem_viewsAt I 0 _).mpr ⟨by simp, ht', ht', fun _ => rfl⟩
    · intro hv
      have hv' := (mem_viewsAt I 0 _).mp hv
      simp only at hv'
      have hjt : j = t := by simpa using hv'.2.2.2
      subst hjt
      exact ⟨natOfBits bs, j, ⟨by rw [← hv'.1]; exact natOfBits_lt bs, hv'.2.1⟩, by rw [← hv'.1, bitsOf_natOfBits]⟩
  | succ c =>
    have hprev' : TableOk I h c prev := by
      rcases hprev with h0 | h1
      · omega
      · simpa using h1
    have hfun : ∀ it ∈ pairs (2 ^ (I.activeAt (c + 1)).length) I.ntrans,
        dpCell I (c + 1) prev it.1 it.2 =
          minOver ((List.range I.ntrans).map (fun j => ((bitsOf (I.activeAt (c + 1)).length it.1, j, it.2) : V)))
            (fun a => cell (sysOf I h) (c + 1) a) := by
      rintro ⟨idx, t⟩ hit
      simp only [mem_pairs] at hit
      rw [minOver_map]
      exact dpCell_succ I h c prev hprev' idx t hit.1
    rw [minOver_congr_fun _ _ _ hfun, ← minOver_flatMap]
    apply minOver_congr_mem
    rintro ⟨bs, j, t⟩
    simp only [List.mem_flatMap, List.mem_map, Prod.exists, mem_pairs, List.mem_range]
    constructor
    · rintro ⟨idx, t', ⟨hidx, ht'⟩, j', hj', heq⟩
      simp only [Prod.mk.injEq] at heq
      obtain ⟨rfl, rfl, rfl⟩ := heq
      exact (mem_viewsAt I (c + 1) _).mpr ⟨by simp, hj', ht', fun h0 => absurd h0 (Nat.succ_ne_zero c)⟩
    · intro hv
      have hv' := (mem_viewsAt I (c + 1) _).mp hv
      simp only at hv'
      exact ⟨natOfBits bs, t, ⟨by rw [← hv'.1]; exact natOfBits_lt bs, hv'.2.2.1⟩, j, hv'.2.1,
        by rw [← hv'.1, bitsOf_natOfBits]⟩

theorem solutions_ne_nil (I : Inst) : ∃ x, x ∈ solutions I := by
  refine ⟨(List.replicate I.nreads false, List.replicate I.ncols 0), ?_⟩
  rw [mem_solutions]
  refine ⟨by simp, by simp, ?_⟩
  intro t ht
  rw [List.mem_replicate] at ht
  rw [ht.2]; exact ntrans_pos I

/-- **the DP value is the true optimum of the (Ped)MEC objective** -/
theorem dpCost_eq_optCost (I : Inst) (h : WF I) : dpCost I = optCost I := by
  unfold dpCost optCost
  by_cases h0 : I.ncols = 0
  · rw [if_pos h0]
    obtain ⟨x, hx⟩ := solutions_ne_nil I
    have h1 := minOver_isMin (solutions I) (fun s => totalCost I s.1 s.2)
    have h2 : IsMinOf (fun s => s ∈ solutions I) (fun s => totalCost I s.1 s.2) (some 0) :=
      ⟨fun y _ => by simp [totalCost, h0, cle], Or.inr ⟨x, hx, by simp [totalCost, h0]⟩⟩
    exact h2.unique h1
  · rw [if_neg h0]
    simp only
    have hc : I.ncols - 1 < (sysOf I h).n := by simp [sysOf]; omega
    have hprev : I.ncols - 1 = 0 ∨ TableOk I h (I.ncols - 1 - 1)
        (if I.ncols - 1 = 0 then #[] else tableAt I (I.ncols - 1 - 1)) := by
      by_cases h1 : I.ncols - 1 = 0
      · exact Or.inl h1
      · right; rw [if_neg h1]; exact tableAt_ok I h _
    rw [lastCol_eq I h (I.ncols - 1) _ hprev]
    have hall := all_spec (sysOf I h) (I.ncols - 1) hc
    have hvs : (sysOf I h).views (I.ncols - 1) = viewsAt I (I.ncols - 1) := rfl
    rw [hvs] at hall
    have hopt := minOver_isMin (solutions I) (fun s => totalCost I s.1 s.2)
    have : IsMinOf (fun s => s ∈ solutions I) (fun s => totalCost I s.1 s.2)
        (minOver (viewsAt I (I.ncols - 1)) (fun a => cell (sysOf I h) (I.ncols - 1) a)) := by
      refine ⟨fun x hx => ?_, ?_⟩
      · have := hall.lb x hx
        rw [past_eq] at this
        simpa [totalCost, h0] using this
      · rcases hall.att with e | ⟨x, hx, e⟩
        · exact Or.inl e
        · right
          refine ⟨x, hx, ?_⟩
          rw [past_eq] at e
          simpa [totalCost, h0] using e
    exact this.unique hopt

end WhVerif.C01

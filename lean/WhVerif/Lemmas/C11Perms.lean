import WhVerif.Model.C11
import WhVerif.Spec.C11
import Mathlib.Data.List.Nodup
/-!
# C11: the permutation states of the polyploid calculator, for EVERY ploidy

`perms p` (= `getPermutations()` in `next_permutation` order) is characterised for all `p`:
`σ ∈ perms p ↔ σ.length = p ∧ σ.Nodup ∧ ∀ x ∈ σ, x < p`; it is never empty, closed under composition and inverse,
every member is a rearrangement of `range p`, and as a LIST it equals the naive specification enumeration
`Spec.bijections p` (duplicate-free lists among all `p^p`, both lexicographic).  These facts were `decide`d for
`p ≤ 4` before; everything built on them (optimality of the DP, soundness of the pruning, realisability,
invariance under the listing order) now holds for every ploidy.
-/
namespace WhVerif.C11

theorem permsAux_length : ∀ (k : Nat) (l : List Nat), ∀ q ∈ permsAux k l, q.length = k
  | 0, l, q, h => by simp [permsAux] at h; simp [h]
  | k+1, l, q, h => by
    simp only [permsAux, List.mem_flatMap, List.mem_map] at h
    obtain ⟨x, _, q', hq', rfl⟩ := h
    simp [permsAux_length k _ q' hq']

theorem permsAux_mem : ∀ (k : Nat) (l : List Nat), ∀ q ∈ permsAux k l, ∀ x ∈ q, x ∈ l
  | 0, l, q, h, x, hx => by simp [permsAux] at h; subst h; simp at hx
  | k+1, l, q, h, x, hx => by
    simp only [permsAux, List.mem_flatMap, List.mem_map] at h
    obtain ⟨y, hy, q', hq', rfl⟩ := h
    rcases List.mem_cons.1 hx with rfl | hx
    · exact hy
    · exact List.mem_of_mem_erase (permsAux_mem k _ q' hq' x hx)

theorem permsAux_perm : ∀ (k : Nat) (l : List Nat), ∀ q ∈ permsAux k l, ∃ rest, l.Perm (q ++ rest)
  | 0, l, q, h => by simp [permsAux] at h; subst h; exact ⟨l, by simp⟩
  | k+1, l, q, h => by
    simp only [permsAux, List.mem_flatMap, List.mem_map] at h
    obtain ⟨y, hy, q', hq', rfl⟩ := h
    obtain ⟨rest, hr⟩ := permsAux_perm k _ q' hq'
    exact ⟨rest, (List.perm_cons_erase hy).trans (by simpa using hr.cons y)⟩

theorem mem_permsAux : ∀ (k : Nat) (l q : List Nat), q.length = k → q.Nodup → (∀ x ∈ q, x ∈ l) → q ∈ permsAux k l
  | 0, l, q, hl, _, _ => by simp [permsAux, List.eq_nil_of_length_eq_zero hl]
  | k+1, l, [], hl, _, _ => by simp at hl
  | k+1, l, x :: q', hl, hn, hs => by
    simp only [permsAux, List.mem_flatMap, List.mem_map]
    have hn' := List.nodup_cons.1 hn
    refine ⟨x, hs x (by simp), q', mem_permsAux k _ q' (by simpa using hl) hn'.2 ?_, rfl⟩
    intro y hy
    exact (List.mem_erase_of_ne (by rintro rfl; exact hn'.1 hy)).2 (hs y (by simp [hy]))

theorem perms_length (p : Nat) : ∀ q ∈ perms p, q.length = p := permsAux_length p _

theorem perms_entries_lt (p : Nat) : ∀ σ ∈ perms p, ∀ x ∈ σ, x < p := fun σ h x hx =>
  List.mem_range.1 (permsAux_mem p _ σ h x hx)

theorem perms_perm_range (p : Nat) : ∀ υ ∈ perms p, υ.Perm (List.range p) := by
  intro υ h
  obtain ⟨rest, hr⟩ := permsAux_perm p _ υ h
  have hl := hr.length_eq
  rw [List.length_append, List.length_range, perms_length p υ h] at hl
  have : rest = [] := List.eq_nil_of_length_eq_zero (by omega)
  subst this
  simpa using hr.symm

theorem perms_nodup (p : Nat) : ∀ υ ∈ perms p, υ.Nodup := fun υ h =>
  (perms_perm_range p υ h).nodup_iff.2 List.nodup_range

/-- membership in the calculator's state list, for every ploidy -/
theorem mem_perms_iff (p : Nat) (σ : Perm) : σ ∈ perms p ↔ σ.length = p ∧ σ.Nodup ∧ ∀ x ∈ σ, x < p :=
  ⟨fun h => ⟨perms_length p σ h, perms_nodup p σ h, perms_entries_lt p σ h⟩,
   fun ⟨h1, h2, h3⟩ => mem_permsAux p _ σ h1 h2 (fun x hx => List.mem_range.2 (h3 x hx))⟩

theorem perms_ne_nil (p : Nat) : perms p ≠ [] := by
  have : List.range p ∈ perms p :=
    (mem_perms_iff p _).2 ⟨List.length_range, List.nodup_range, fun x hx => List.mem_range.1 hx⟩
  exact List.ne_nil_of_mem this

theorem getD_mem_of_lt (σ : List Nat) (x : Nat) (h : x < σ.length) : σ.getD x 0 ∈ σ := by
  rw [List.getD_eq_getElem?_getD, List.getElem?_eq_getElem h]
  exact List.getElem_mem h

theorem getD_inj_of_nodup (σ : List Nat) (hn : σ.Nodup) (x y : Nat) (hx : x < σ.length) (hy : y < σ.length)
    (h : σ.getD x 0 = σ.getD y 0) : x = y := by
  rw [List.getD_eq_getElem?_getD, List.getD_eq_getElem?_getD, List.getElem?_eq_getElem hx,
    List.getElem?_eq_getElem hy] at h
  exact (List.Nodup.getElem_inj_iff hn).1 h

theorem perms_comp (p : Nat) : ∀ υ ∈ perms p, ∀ σ ∈ perms p, relabel υ σ ∈ perms p := by
  intro υ hυ σ hσ
  obtain ⟨u1, u2, u3⟩ := (mem_perms_iff p υ).1 hυ
  obtain ⟨s1, s2, s3⟩ := (mem_perms_iff p σ).1 hσ
  refine (mem_perms_iff p _).2 ⟨by simp [relabel, u1], ?_, ?_⟩
  · apply List.Nodup.map_on _ u2
    intro x hx y hy h
    exact getD_inj_of_nodup σ s2 x y (by rw [s1]; exact u3 x hx) (by rw [s1]; exact u3 y hy) h
  · intro x hx
    obtain ⟨y, hy, rfl⟩ := List.mem_map.1 hx
    exact s3 _ (getD_mem_of_lt σ y (by rw [s1]; exact u3 y hy))

/-- the inverse of a state, as an index list -/
def invPerm (p : Nat) (τ : Perm) : Perm := (List.range p).map fun y => τ.idxOf y

theorem invPerm_spec (p : Nat) (τ : Perm) (hτ : τ ∈ perms p) :
    invPerm p τ ∈ perms p ∧ τ.length = p ∧ (invPerm p τ).length = p ∧
    ∀ x, x < p → ((invPerm p τ).getD x 0 < p ∧ τ.getD ((invPerm p τ).getD x 0) 0 = x ∧ τ.getD x 0 < p ∧
      (invPerm p τ).getD (τ.getD x 0) 0 = x) := by
  obtain ⟨t1, t2, t3⟩ := (mem_perms_iff p τ).1 hτ
  have hmem : ∀ x, x < p → x ∈ τ := fun x hx =>
    (perms_perm_range p τ hτ).mem_iff.2 (List.mem_range.2 hx)
  have hget : ∀ x, x < p → (invPerm p τ).getD x 0 = τ.idxOf x := by
    intro x hx
    simp [invPerm, List.getD_eq_getElem?_getD, List.getElem?_map, List.getElem?_range hx]
  have hidx : ∀ x, x < p → τ.idxOf x < p := fun x hx => by
    rw [← t1]; exact List.idxOf_lt_length_of_mem (hmem x hx)
  have hback : ∀ x, x < p → τ.getD (τ.idxOf x) 0 = x := by
    intro x hx
    have h := hidx x hx
    rw [List.getD_eq_getElem?_getD, List.getElem?_eq_getElem (by rw [t1]; exact h)]
    simp
  have hfwd : ∀ x, x < p → τ.getD x 0 < p := fun x hx => t3 _ (getD_mem_of_lt τ x (by rw [t1]; exact hx))
  have hround : ∀ x, x < p → τ.idxOf (τ.getD x 0) = x := by
    intro x hx
    have h1 := hfwd x hx
    exact getD_inj_of_nodup τ t2 _ _ (by rw [t1]; exact hidx _ h1) (by rw [t1]; exact hx) (hback _ h1)
  refine ⟨(mem_perms_iff p _).2 ⟨by simp [invPerm], ?_, ?_⟩, t1, by simp [invPerm], ?_⟩
  · apply List.Nodup.map_on _ List.nodup_range
    intro x hx y hy h
    have hx' := List.mem_range.1 hx
    have hy' := List.mem_range.1 hy
    rw [← hback x hx', ← hback y hy', h]
  · intro x hx
    obtain ⟨y, hy, rfl⟩ := List.mem_map.1 hx
    exact hidx y (List.mem_range.1 hy)
  · intro x hx
    refine ⟨by rw [hget x hx]; exact hidx x hx, by rw [hget x hx]; exact hback x hx, hfwd x hx, ?_⟩
    rw [hget _ (hfwd x hx)]; exact hround x hx

/-! ### `perms p = Spec.bijections p` as lists -/

/-- all lists of length `k` over the alphabet `l`, first element first -/
def allListsOf (l : List Nat) : Nat → List (List Nat)
  | 0 => [[]]
  | k + 1 => l.flatMap fun x => (allListsOf l k).map (x :: ·)

theorem allLists_eq (p k : Nat) : Spec.allLists p k = allListsOf (List.range p) k := by
  induction k with
  | zero => rfl
  | succ k ih => simp only [Spec.allLists, allListsOf, ih]

theorem filter_map_cons (f : List Nat → Bool) (x : Nat) (L : List (List Nat)) :
    (L.map (x :: ·)).filter f = (L.filter fun t => f (x :: t)).map (x :: ·) := by
  induction L with
  | nil => rfl
  | cons a L ih =>
    simp only [List.map_cons, List.filter_cons]
    split <;> simp [ih]

theorem flatMap_filter_eq {β} (q : Nat → Bool) (l : List Nat) (g : Nat → List β) :
    (l.filter q).flatMap g = l.flatMap fun x => if q x then g x else [] := by
  induction l with
  | nil => rfl
  | cons a l ih =>
    simp only [List.filter_cons, List.flatMap_cons]
    split <;> simp [ih]

theorem allListsOf_filter (q : Nat → Bool) (l : List Nat) (k : Nat) :
    (allListsOf l k).filter (fun t => t.all q) = allListsOf (l.filter q) k := by
  induction k with
  | zero => simp [allListsOf]
  | succ k ih =>
    simp only [allListsOf, List.filter_flatMap, flatMap_filter_eq, filter_map_cons, List.all_cons]
    congr 1
    funext x
    cases hq : q x
    · simp
    · simp [← ih]

theorem permsAux_eq_filter : ∀ (k : Nat) (l : List Nat), l.Nodup →
    permsAux k l = (allListsOf l k).filter Spec.nodupB
  | 0, l, _ => by rfl
  | k+1, l, hn => by
    simp only [permsAux, allListsOf, List.filter_flatMap, filter_map_cons, Spec.nodupB]
    congr 1
    funext x
    congr 1
    rw [permsAux_eq_filter k (l.erase x) (hn.erase x), hn.erase_eq_filter x, ← allListsOf_filter,
      List.filter_filter]
    congr 1
    funext t
    have h : (t.all fun y => y != x) = !t.contains x := by
      induction t with
      | nil => rfl
      | cons a t ih =>
        simp only [List.all_cons, ih, List.contains_cons]
        by_cases hax : a = x
        · subst hax; simp
        · have hxa : ¬ x = a := fun h => hax h.symm
          have e1 : (a != x) = true := by simp [bne, hax]
          have e2 : (x == a) = false := by simp [hxa]
          simp [e1, e2]
    rw [h, Bool.and_comm]

/-- the calculator's state list IS the specification's enumeration of all bijections, for every ploidy -/
theorem perms_eq_bijections (p : Nat) : perms p = Spec.bijections p := by
  simp only [perms, Spec.bijections, allLists_eq]
  exact permsAux_eq_filter p _ List.nodup_range

end WhVerif.C11

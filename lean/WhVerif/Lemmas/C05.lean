import WhVerif.Model.C05
/-!
# Helper lemmas for C05: fuel monotonicity of the partition recursion, what compatibility gives per
individual, the child's alleles when a parent is homozygous, `get_alleles` when all admissible
assignments agree at an individual.
-/
namespace WhVerif.C05.L
open WhVerif.C05

/-! ### the partition recursion -/

theorem partOf_mono (ped : Ped) (t : Nat) : ∀ (fuel i : Nat) (x : Nat × Nat),
    partOf ped t fuel i = some x → partOf ped t (fuel + 1) i = some x := by
  intro fuel
  induction fuel with
  | zero => intro i x h; simp [partOf] at h
  | succ n ih =>
    intro i x h
    rw [partOf] at h
    rw [partOf]
    cases hk : tripleIndex ped i with
    | none => simpa [hk] using h
    | some k =>
      simp only [hk] at h ⊢
      cases htr : ped.triples[k]? with
      | none => simp [htr] at h
      | some tr =>
        obtain ⟨f, m, c⟩ := tr
        simp only [htr] at h ⊢
        cases hf : partOf ped t n f with
        | none => simp [hf] at h
        | some pf =>
          cases hm : partOf ped t n m with
          | none => simp [hf, hm] at h
          | some pm =>
            rw [ih f pf hf, ih m pm hm]
            simpa [hf, hm] using h

theorem sel_not (p : Nat × Nat) (b : Bool) : sel p (!b) = if b then p.1 else p.2 := by
  cases b <;> simp [sel]

/-- structure of the recursion: a child's haplotype 0 is in the father's partition chosen by bit `2k`,
haplotype 1 in the mother's partition chosen by bit `2k+1` -/
theorem child_partitions (ped : Ped) (t i k f m c : Nat) (pc : Nat × Nat)
    (hk : tripleIndex ped i = some k) (htr : ped.triples[k]? = some (f, m, c))
    (h : hapToPartition ped t i = some pc) :
    ∃ pf pm, hapToPartition ped t f = some pf ∧ hapToPartition ped t m = some pm ∧
      pc.1 = (if t.testBit (2 * k) then pf.1 else pf.2) ∧
      pc.2 = (if t.testBit (2 * k + 1) then pm.1 else pm.2) := by
  unfold hapToPartition at h ⊢
  cases hs : ped.size with
  | zero => rw [hs] at h; simp [partOf] at h
  | succ n =>
    rw [hs] at h
    rw [partOf] at h
    simp only [hk, htr] at h
    cases hf : partOf ped t n f with
    | none => simp [hf] at h
    | some pf =>
      cases hm : partOf ped t n m with
      | none => simp [hf, hm] at h
      | some pm =>
        simp only [hf, hm, Option.some.injEq] at h
        refine ⟨pf, pm, partOf_mono ped t n f pf hf, partOf_mono ped t n m pm hm, ?_, ?_⟩
        · rw [← h]; exact sel_not pf _
        · rw [← h]; exact sel_not pm _

/-! ### compatibility, per individual -/

theorem compatible_at {ped : Ped} {t : Nat} {gts : List Gt} {asg : Nat}
    (h : compatible ped t gts asg = true) {i : Nat} (hi : i < ped.size) :
    ∃ a0 a1 g, indivAlleles ped t asg i = some (a0, a1) ∧ gts[i]? = some g ∧ mkGt2 a0 a1 = g := by
  unfold compatible at h
  have := (List.all_eq_true.mp h) i (List.mem_range.mpr hi)
  cases ha : indivAlleles ped t asg i with
  | none => simp [ha] at this
  | some al =>
    obtain ⟨a0, a1⟩ := al
    cases hg : gts[i]? with
    | none => simp [ha, hg] at this
    | some g =>
      simp only [ha, hg] at this
      exact ⟨a0, a1, g, rfl, rfl, by simpa using this⟩

theorem mem_mkGt2_left (a b : Nat) : a ∈ mkGt2 a b := by
  unfold mkGt2; split <;> simp

theorem mem_mkGt2_right (a b : Nat) : b ∈ mkGt2 a b := by
  unfold mkGt2; split <;> simp

theorem indivAlleles_eq {ped : Ped} {t asg i : Nat} {p : Nat × Nat} (h : hapToPartition ped t i = some p) :
    indivAlleles ped t asg i = some (alleleOf asg p.1, alleleOf asg p.2) := by
  simp [indivAlleles, h]

theorem alleleOf_le (asg p : Nat) : alleleOf asg p ≤ 1 := by
  unfold alleleOf; omega

/-- under a compatible assignment the child's alleles are copies of the parental alleles selected by the
transmission bits -/
theorem child_alleles {ped : Ped} {t : Nat} {gts : List Gt} {asg : Nat}
    (h : compatible ped t gts asg = true) {c k f m c' : Nat}
    (hk : tripleIndex ped c = some k) (htr : ped.triples[k]? = some (f, m, c'))
    (hc : c < ped.size) (hf : f < ped.size) (hm : m < ped.size) :
    ∃ ca0 ca1 fa0 fa1 ma0 ma1 gc gf gm,
      indivAlleles ped t asg c = some (ca0, ca1) ∧ indivAlleles ped t asg f = some (fa0, fa1) ∧
      indivAlleles ped t asg m = some (ma0, ma1) ∧
      gts[c]? = some gc ∧ gts[f]? = some gf ∧ gts[m]? = some gm ∧
      mkGt2 ca0 ca1 = gc ∧ mkGt2 fa0 fa1 = gf ∧ mkGt2 ma0 ma1 = gm ∧
      ca0 = (if t.testBit (2 * k) then fa0 else fa1) ∧
      ca1 = (if t.testBit (2 * k + 1) then ma0 else ma1) := by
  obtain ⟨ca0, ca1, gc, hca, hgc, hmc⟩ := compatible_at h hc
  obtain ⟨fa0, fa1, gf, hfa, hgf, hmf⟩ := compatible_at h hf
  obtain ⟨ma0, ma1, gm, hma, hgm, hmm⟩ := compatible_at h hm
  refine ⟨ca0, ca1, fa0, fa1, ma0, ma1, gc, gf, gm, hca, hfa, hma, hgc, hgf, hgm, hmc, hmf, hmm, ?_⟩
  -- partitions
  cases hpc : hapToPartition ped t c with
  | none => simp [indivAlleles, hpc] at hca
  | some pc =>
    obtain ⟨pf, pm, hpf, hpm, h1, h2⟩ := child_partitions ped t c k f m c' pc hk htr hpc
    rw [indivAlleles_eq hpc] at hca
    rw [indivAlleles_eq hpf] at hfa
    rw [indivAlleles_eq hpm] at hma
    simp only [Option.some.injEq, Prod.mk.injEq] at hca hfa hma
    obtain ⟨hc0, hc1⟩ := hca
    obtain ⟨hf0, hf1⟩ := hfa
    obtain ⟨hm0, hm1⟩ := hma
    constructor
    · rw [← hc0, h1, ← hf0, ← hf1]; split <;> rfl
    · rw [← hc1, h2, ← hm0, ← hm1]; split <;> rfl

theorem mkGt2_eq_het {a b : Nat} (h : mkGt2 a b = [1, 0]) : (a = 1 ∧ b = 0) ∨ (a = 0 ∧ b = 1) := by
  unfold mkGt2 at h
  split at h
  · simp at h; exact Or.inl h
  · simp at h; exact Or.inr ⟨h.2, h.1⟩

theorem mkGt2_eq_hom {a b x : Nat} (h : mkGt2 a b = [x, x]) : a = x ∧ b = x := by
  unfold mkGt2 at h
  split at h
  · simp at h; exact h
  · simp at h; exact ⟨h.2, h.1⟩

/-- child heterozygous (0/1) and a parent homozygous: every compatible assignment gives the child the same
ordered allele pair -/
theorem child_alleles_determined {ped : Ped} {t : Nat} {gts : List Gt} {asg : Nat}
    (h : compatible ped t gts asg = true) {c k f m c' : Nat}
    (hk : tripleIndex ped c = some k) (htr : ped.triples[k]? = some (f, m, c'))
    (hc : c < ped.size) (hf : f < ped.size) (hm : m < ped.size)
    (hgc : gts[c]? = some [1, 0]) :
    (∀ x, gts[f]? = some [x, x] → indivAlleles ped t asg c = some (x, 1 - x) ∧ x ≤ 1) ∧
    (∀ y, gts[m]? = some [y, y] → indivAlleles ped t asg c = some (1 - y, y) ∧ y ≤ 1) := by
  obtain ⟨ca0, ca1, fa0, fa1, ma0, ma1, gc, gf, gm, hca, hfa, hma, hgc', hgf, hgm, hmc, hmf, hmm, h0, h1⟩ :=
    child_alleles h hk htr hc hf hm
  rw [hgc] at hgc'
  have hgc'' : gc = [1, 0] := (Option.some.inj hgc').symm
  rw [hgc''] at hmc
  have hhet := mkGt2_eq_het hmc
  constructor
  · intro x hx
    rw [hgf] at hx
    have : gf = [x, x] := Option.some.inj hx
    rw [this] at hmf
    obtain ⟨e0, e1⟩ := mkGt2_eq_hom hmf
    have hca0 : ca0 = x := by rw [h0]; split <;> assumption
    rw [hca]
    rcases hhet with ⟨ha, hb⟩ | ⟨ha, hb⟩
    · have : x = 1 := by omega
      subst this; subst ha; subst hb; exact ⟨rfl, by omega⟩
    · have : x = 0 := by omega
      subst this; subst ha; subst hb; exact ⟨rfl, by omega⟩
  · intro y hy
    rw [hgm] at hy
    have : gm = [y, y] := Option.some.inj hy
    rw [this] at hmm
    obtain ⟨e0, e1⟩ := mkGt2_eq_hom hmm
    have hca1 : ca1 = y := by rw [h1]; split <;> assumption
    rw [hca]
    rcases hhet with ⟨ha, hb⟩ | ⟨ha, hb⟩
    · have : y = 0 := by omega
      subst this; subst ha; subst hb; exact ⟨rfl, by omega⟩
    · have : y = 1 := by omega
      subst this; subst ha; subst hb; exact ⟨rfl, by omega⟩

/-! ### `get_alleles` -/

theorem lastBest_mem (cost : Nat → Nat) : ∀ (l : List Nat) (b : Nat), lastBest cost l = some b → b ∈ l := by
  intro l
  induction l with
  | nil => intro b h; simp [lastBest] at h
  | cons a rest ih =>
    intro b h
    simp only [lastBest] at h
    cases hr : lastBest cost rest with
    | none => simp [hr] at h; simp [h]
    | some r =>
      simp only [hr] at h
      split at h
      · simp at h; simp [h]
      · simp at h; subst h; exact List.mem_cons_of_mem _ (ih r hr)

theorem lastBest_isSome (cost : Nat → Nat) : ∀ (l : List Nat), l ≠ [] → ∃ b, lastBest cost l = some b := by
  intro l hl
  cases l with
  | nil => exact absurd rfl hl
  | cons a rest =>
    simp only [lastBest]
    cases lastBest cost rest with
    | none => exact ⟨a, rfl⟩
    | some r =>
      by_cases h : cost a < cost r
      · exact ⟨a, by simp [h]⟩
      · exact ⟨r, by simp [h]⟩

theorem minCostWith_none (cost : Nat → Nat) (pred : Nat → Bool) : ∀ (l : List Nat),
    (∀ a ∈ l, pred a = false) → minCostWith cost pred l = none := by
  intro l
  induction l with
  | nil => intro _; rfl
  | cons a rest ih =>
    intro h
    simp only [minCostWith]
    have ha := h a (List.mem_cons_self ..)
    simp only [ha, Bool.false_eq_true, if_false]
    exact ih (fun x hx => h x (List.mem_cons_of_mem _ hx))

theorem minCostWith_some (cost : Nat → Nat) (pred : Nat → Bool) : ∀ (l : List Nat),
    (∃ a ∈ l, pred a = true) → ∃ v, minCostWith cost pred l = some v := by
  intro l
  induction l with
  | nil => rintro ⟨a, ha, _⟩; cases ha
  | cons a rest ih =>
    rintro ⟨x, hx, hp⟩
    simp only [minCostWith]
    by_cases hpa : pred a = true
    · simp only [hpa, if_true]
      cases minCostWith cost pred rest with
      | none => exact ⟨_, rfl⟩
      | some m => exact ⟨_, rfl⟩
    · have hpa' : pred a = false := by simpa using hpa
      simp only [hpa', Bool.false_eq_true, if_false]
      rcases List.mem_cons.mp hx with rfl | hx'
      · rw [hp] at hpa'; cases hpa'
      · exact ih ⟨x, hx', hp⟩

theorem bestCostFor_none (ped : Ped) (t : Nat) (cost : Nat → Nat) (adm : List Nat) (i h a : Nat)
    (hno : ∀ asg ∈ adm, ∀ al, indivAlleles ped t asg i = some al → (if h = 0 then al.1 else al.2) ≠ a) :
    bestCostFor ped t cost adm i h a = none := by
  unfold bestCostFor
  apply minCostWith_none
  intro asg hasg
  cases hal : indivAlleles ped t asg i with
  | none => rfl
  | some al => simpa using hno asg hasg al hal

theorem bestCostFor_some (ped : Ped) (t : Nat) (cost : Nat → Nat) (adm : List Nat) (i h a : Nat)
    (hex : ∃ asg ∈ adm, ∃ al, indivAlleles ped t asg i = some al ∧ (if h = 0 then al.1 else al.2) = a) :
    ∃ w, bestCostFor ped t cost adm i h a = some w := by
  unfold bestCostFor
  apply minCostWith_some
  obtain ⟨asg, hasg, al, hal, he⟩ := hex
  exact ⟨asg, hasg, by simp [hal, he]⟩

/-- not a tie: one allele occurs (finite best cost), the other never (UINT_MAX) -/
theorem no_tie (ped : Ped) (t : Nat) (cost : Nat → Nat) (adm : List Nat) (i h u : Nat) (hu : u ≤ 1)
    (hall : ∀ asg ∈ adm, ∀ al, indivAlleles ped t asg i = some al → (if h = 0 then al.1 else al.2) = u)
    (hex : ∃ asg ∈ adm, ∃ al, indivAlleles ped t asg i = some al) :
    (bestCostFor ped t cost adm i h 0 == bestCostFor ped t cost adm i h 1) = false := by
  obtain ⟨asg, hasg, al, hal⟩ := hex
  have hsome := bestCostFor_some ped t cost adm i h u ⟨asg, hasg, al, hal, hall asg hasg al hal⟩
  obtain ⟨w, hw⟩ := hsome
  have hnone : bestCostFor ped t cost adm i h (1 - u) = none := by
    apply bestCostFor_none
    intro asg' hasg' al' hal'
    rw [hall asg' hasg' al' hal']; omega
  have : u = 0 ∨ u = 1 := by omega
  rcases this with rfl | rfl
  · rw [hw]; simp at hnone; rw [hnone]; rfl
  · rw [hw]; simp at hnone; rw [hnone]; rfl

/-- if every admissible assignment gives individual `i` the allele pair `(u, v)`, then `get_alleles` reports
exactly `(u, v)` for `i` (no `EQUAL_SCORES`), whatever the read costs are -/
theorem getAlleles_determined (ped : Ped) (t : Nat) (gts : List Gt) (cp : PartCosts) (i u v : Nat)
    (hi : i < ped.size) (hne : admissible ped t gts ≠ [])
    (hall : ∀ asg ∈ admissible ped t gts, indivAlleles ped t asg i = some (u, v)) :
    ∃ res, getAlleles ped t gts cp = some res ∧ res[i]? = some (u, v) := by
  unfold getAlleles
  obtain ⟨best, hbest⟩ := lastBest_isSome (asgCost ped cp) _ hne
  have hmem := lastBest_mem _ _ _ hbest
  simp only [hbest]
  refine ⟨_, rfl, ?_⟩
  rw [List.getElem?_map, List.getElem?_range hi]
  simp only [Option.map_some]
  have hb := hall best hmem
  -- u, v are alleles
  have huv : u ≤ 1 ∧ v ≤ 1 := by
    unfold indivAlleles at hb
    cases hp : hapToPartition ped t i with
    | none => simp [hp] at hb
    | some p =>
      simp only [hp, Option.map_some, Option.some.injEq, Prod.mk.injEq] at hb
      exact ⟨by rw [← hb.1]; exact alleleOf_le _ _, by rw [← hb.2]; exact alleleOf_le _ _⟩
  have t0 := no_tie ped t (asgCost ped cp) (admissible ped t gts) i 0 u huv.1
    (fun asg hasg al hal => by rw [hall asg hasg] at hal; cases hal; rfl) ⟨best, hmem, _, hb⟩
  have t1 := no_tie ped t (asgCost ped cp) (admissible ped t gts) i 1 v huv.2
    (fun asg hasg al hal => by rw [hall asg hasg] at hal; cases hal; rfl) ⟨best, hmem, _, hb⟩
  unfold allelesFor
  simp only [t0, t1, hb, Option.getD_some, Bool.false_eq_true, if_false]

theorem mem_admissible {ped : Ped} {t : Nat} {gts : List Gt} {asg : Nat} :
    asg ∈ admissible ped t gts ↔ asg < 2 ^ partitionCount ped ∧ compatible ped t gts asg = true := by
  unfold admissible
  rw [List.mem_filter, List.mem_range]

/-! ### the genotypes realised by an assignment -/

/-- genotype of every individual under assignment `asg` -/
def realized (ped : Ped) (t asg : Nat) : List (Option Gt) :=
  (List.range ped.size).map (fun i => (indivAlleles ped t asg i).map (fun al => mkGt2 al.1 al.2))

theorem compatible_realized {ped : Ped} {t : Nat} {gts : List Gt} {asg : Nat}
    (h : compatible ped t gts asg = true) (hlen : gts.length = ped.size) :
    realized ped t asg = gts.map some := by
  apply List.ext_getElem?
  intro i
  unfold realized
  rw [List.getElem?_map, List.getElem?_map]
  by_cases hi : i < ped.size
  · obtain ⟨a0, a1, g, ha, hg, hm⟩ := compatible_at h hi
    rw [List.getElem?_range hi, hg]
    simp [ha, hm]
  · have h1 : (List.range ped.size)[i]? = none := by
      rw [List.getElem?_eq_none_iff]; simp; omega
    have h2 : gts[i]? = none := by
      rw [List.getElem?_eq_none_iff]; omega
    rw [h1, h2]; rfl

/-! ### a compatible assignment leaves no Mendelian conflict (any pedigree) -/

theorem mendelianConflict_mkGt2 (gm gf : Gt) (x y : Nat) (hx : x ∈ gf) (hy : y ∈ gm) :
    mendelianConflict gm gf (mkGt2 x y) = some false := by
  have h1 : gm.contains y = true := by simpa using hy
  have h2 : gf.contains x = true := by simpa using hx
  unfold mkGt2
  split
  · -- [x, y]: second test: c1 = y ∈ gm, c0 = x ∈ gf
    simp only [mendelianConflict, List.getElem?_cons_zero, List.getElem?_cons_succ, h1, h2, Bool.and_self, if_true]
    split <;> rfl
  · simp only [mendelianConflict, List.getElem?_cons_zero, List.getElem?_cons_succ, h1, h2, Bool.and_self, if_true]

theorem compatible_no_conflict {ped : Ped} {t : Nat} {gts : List Gt} {asg : Nat}
    (h : compatible ped t gts asg = true) {c k f m c' : Nat}
    (hk : tripleIndex ped c = some k) (htr : ped.triples[k]? = some (f, m, c'))
    (hc : c < ped.size) (hf : f < ped.size) (hm : m < ped.size) :
    ∃ gc gf gm, gts[c]? = some gc ∧ gts[f]? = some gf ∧ gts[m]? = some gm ∧
      mendelianConflict gm gf gc = some false := by
  obtain ⟨ca0, ca1, fa0, fa1, ma0, ma1, gc, gf, gm, _, _, _, hgc, hgf, hgm, hmc, hmf, hmm, h0, h1⟩ :=
    child_alleles h hk htr hc hf hm
  refine ⟨gc, gf, gm, hgc, hgf, hgm, ?_⟩
  rw [← hmc]
  apply mendelianConflict_mkGt2
  · rw [← hmf, h0]; split
    · exact mem_mkGt2_left _ _
    · exact mem_mkGt2_right _ _
  · rw [← hmm, h1]; split
    · exact mem_mkGt2_left _ _
    · exact mem_mkGt2_right _ _

/-! ### phasable variants, accessible positions, writer -/

theorem retained_spec {tab : GtTable} {trios : List (Nat × Nat × Nat)} {incl : Bool} {i : Nat}
    (h : retained tab trios incl i = true) : missingAt tab i = false ∧ conflictAt tab trios i = false := by
  unfold retained at h
  simp only [Bool.and_eq_true, Bool.not_eq_true'] at h
  exact ⟨h.1.2, h.2⟩

theorem mem_keep {tab : GtTable} {trios : List (Nat × Nat × Nat)} {incl : Bool} {i : Nat} :
    i ∈ (findPhaseableVariants tab trios incl).2 ↔ i < nVariants tab ∧ retained tab trios incl i = true := by
  unfold findPhaseableVariants
  simp only [List.mem_filter, List.mem_range]

theorem mem_hom {tab : GtTable} {trios : List (Nat × Nat × Nat)} {incl : Bool} {i : Nat} :
    i ∈ (findPhaseableVariants tab trios incl).1 ↔
      (i < nVariants tab ∧ retained tab trios incl i = true) ∧ homAt tab i = true := by
  unfold findPhaseableVariants
  simp only [List.mem_filter, List.mem_range]

theorem accessible_spec {R rp hp : List Nat} {fam : Nat} {g : Bool} {acc : List Nat}
    (h : accessiblePositions R rp hp fam g = some acc) :
    (∀ p ∈ acc, p ∈ R) ∧ (∀ p, p ∈ acc ↔ p ∈ rp ∨ ((fam > 1 ∧ g = true) ∧ p ∈ hp)) := by
  unfold accessiblePositions at h
  by_cases hc : (decide (fam > 1) && g) = true
  · have hfg : fam > 1 ∧ g = true := by simpa using hc
    simp only [hc, if_true] at h
    by_cases hall : ((rp ++ hp).eraseDups.all fun x => R.contains x) = true
    · simp only [hall, if_true, Option.some.injEq] at h
      subst h
      refine ⟨fun p hp' => by simpa using (List.all_eq_true.mp hall) p hp', fun p => ?_⟩
      simp [List.mem_eraseDups, hfg]
    · rw [if_neg hall] at h; cases h
  · have hfg : ¬ (fam > 1 ∧ g = true) := by simpa using hc
    simp only [hc, if_false, Bool.false_eq_true] at h
    by_cases hall : (rp.eraseDups.all fun x => R.contains x) = true
    · simp only [hall, if_true, Option.some.injEq] at h
      subst h
      refine ⟨fun p hp' => by simpa using (List.all_eq_true.mp hall) p hp', fun p => ?_⟩
      simp [List.mem_eraseDups, hfg]
    · rw [if_neg hall] at h; cases h

theorem writerPhase_some {comps : List (Nat × Nat)} {sr : List (Nat × Nat × Nat)} {het : Bool} {pos : Nat}
    {x : Nat × Nat × Nat} (h : writerPhase comps sr het pos = some x) : ∃ c, comps.lookup pos = some c := by
  unfold writerPhase at h
  cases hc : comps.lookup pos with
  | none => simp [hc] at h
  | some c => exact ⟨c, rfl⟩

theorem writerPhase_of {comps : List (Nat × Nat)} {sr : List (Nat × Nat × Nat)} {pos c a0 a1 : Nat}
    (hc : comps.lookup pos = some c) (hs : sr.lookup pos = some (a0, a1)) (h0 : a0 ≤ 1) (h1 : a1 ≤ 1) :
    writerPhase comps sr true pos = some (c + 1, a0, a1) := by
  unfold writerPhase
  simp [hc, hs, h0, h1]

end WhVerif.C05.L

import WhVerif.Lemmas.C11Prune
/-! Assembly: coded polyploid DP = un-pruned DP = brute force over all sequences of bijections (every ploidy). -/
namespace WhVerif.C11

theorem polyBrute_cost (p sc fc : Nat) (cols : List (List Nat × List Nat)) :
    (Spec.polyBrute p sc fc cols).1
      = listMin ((Spec.seqs (Spec.bijections p) cols.length).map
          fun s => sc * Spec.seqSwitches s + fc * Spec.seqFlips s cols) := by
  simp [Spec.polyBrute, List.map_map, Function.comp_def]

theorem polyCompareFull_eq_brute (p sc fc : Nat) (cols : List (List Nat × List Nat)) :
    (polyCompareFull p sc fc cols).1 = (Spec.polyBrute p sc fc cols).1 := by
  rw [polyCompareFull_cost p sc fc (perms_ne_nil p) cols, polyBrute_cost, perms_eq_bijections p]

theorem polyCompare_eq_brute (fixA : Bool) (p sc fc : Nat) (cols : List (List Nat × List Nat)) :
    (polyCompare fixA p sc fc cols).cost = (Spec.polyBrute p sc fc cols).1 := by
  rw [polyCompare_cost_eq_full fixA p sc fc (perms_ne_nil p) (perms_length p) cols,
    polyCompareFull_eq_brute p sc fc cols]

end WhVerif.C11

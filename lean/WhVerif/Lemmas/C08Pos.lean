import WhVerif.Lemmas.C08Main
import WhVerif.Lemmas.C08Example
import Mathlib.Algebra.Order.Field.Basic
import Mathlib.Algebra.Order.BigOperators.Group.Finset
import Mathlib.Tactic.Linarith
import Mathlib.Tactic.Positivity
/-!
# C08 lemmas, part 10: for positive parameters the normalisation of every column is non-zero.
-/
namespace WhVerif.C08
open Finset

variable {K : Type} [Field K] [LinearOrder K] [IsStrictOrderedRing K]

/-- all weights of the first `n` columns are positive -/
structure Weights.Pos (W : Weights K) (n : Nat) : Prop where
  nT_pos : 0 < W.nT
  nA_pos : 0 < W.nA
  emit_pos : ∀ c bits t a, c < n → t < W.nT → a < W.nA → 0 < W.emit c bits t a
  asg_pos : ∀ c t a, c < n → t < W.nT → a < W.nA → 0 < W.asg c t a
  trans_pos : ∀ c j t, c < n → j < W.nT → t < W.nT → 0 < W.trans c j t

theorem mem_states (W : Weights K) (s : Nat × Nat) : s ∈ W.states ↔ s.1 < W.nT ∧ s.2 < W.nA := by
  unfold Weights.states
  simp only [List.mem_flatMap, List.mem_map, List.mem_range]
  constructor
  · rintro ⟨t, ht, a, ha, rfl⟩; exact ⟨ht, ha⟩
  · rintro ⟨h1, h2⟩; exact ⟨s.1, h1, s.2, h2, rfl⟩

theorem list_sum_pos {α : Type} (l : List α) (f : α → K) (hne : l ≠ []) (h : ∀ x ∈ l, 0 < f x) :
    0 < (l.map f).sum := by
  induction l with
  | nil => exact absurd rfl hne
  | cons a l ih =>
    simp only [List.map_cons, List.sum_cons]
    by_cases hl : l = []
    · subst hl; simpa using h a (by simp)
    · exact add_pos (h a (by simp)) (ih hl (fun x hx => h x (by simp [hx])))

theorem paths_ne_nil {σ : Type} (ls : List σ) (hne : ls ≠ []) (k : Nat) : paths ls k ≠ [] := by
  induction k with
  | zero => simp [paths]
  | succ k ih =>
    obtain ⟨a, l, rfl⟩ := List.exists_cons_of_ne_nil hne
    obtain ⟨p, ps, hp⟩ := List.exists_cons_of_ne_nil ih
    simp [paths, hp]

variable (F : Frame) (W : Weights K)

theorem pathW_pos (hW : W.Pos F.nCols) (β : Nat) : ∀ (k c : Nat) (prev : Option (Nat × Nat)) (p : List (Nat × Nat)),
    p ∈ paths W.states k → c + k ≤ F.nCols → (∀ q, prev = some q → q.1 < W.nT) → 0 < pathW F W β c prev p := by
  intro k
  induction k with
  | zero =>
    intro c prev p hp _ _
    simp [paths] at hp; subst hp; simp [pathW]
  | succ k ih =>
    intro c prev p hp hc hprev
    simp only [paths, List.mem_flatMap, List.mem_map] at hp
    obtain ⟨s, hs, q, hq, rfl⟩ := hp
    have hs' := (mem_states W s).mp hs
    simp only [pathW]
    apply mul_pos
    · unfold stepW
      apply mul_pos
      · apply mul_pos
        · cases prev with
          | none => exact one_pos
          | some q' => exact hW.trans_pos c q'.1 s.1 (by omega) (hprev q' rfl) hs'.1
        · exact hW.emit_pos c _ s.1 s.2 (by omega) hs'.1 hs'.2
      · exact hW.asg_pos c s.1 s.2 (by omega) hs'.1 hs'.2
    · exact ih (c + 1) (some s) q hq (by omega) (by intro q' h; cases h; exact hs'.1)

theorem specNumer_true_pos (hW : W.Pos F.nCols) (c : Nat) (hc : c < F.nCols) :
    0 < specNumer F W c (fun _ _ => true) := by
  unfold specNumer
  simp only []
  rw [sumN_eq_sum]
  apply sum_pos
  · intro β _
    rw [sumL_eq_sum]
    have hst : W.states ≠ [] := by
      intro h
      have := (mem_states W (0, 0)).mpr ⟨hW.nT_pos, hW.nA_pos⟩
      rw [h] at this; simp at this
    apply list_sum_pos _ _ (paths_ne_nil _ hst _)
    intro p hp
    have hlen := length_of_mem_paths _ _ _ hp
    have : selAt (fun _ _ => true) p c = true := by
      unfold selAt
      rw [List.getElem?_eq_getElem (by omega)]
    rw [this]
    simp only [if_true]
    exact pathW_pos F W hW β _ 0 none p hp (by omega) (by intro q h; cases h)
  · simp

theorem specNumer_nonneg (hW : W.Pos F.nCols) (c : Nat) (sel : Nat → Nat → Bool) : 0 ≤ specNumer F W c sel := by
  unfold specNumer
  simp only []
  rw [sumN_eq_sum]
  apply sum_nonneg
  intro β _
  rw [sumL_eq_sum]
  apply List.sum_nonneg
  intro x hx
  rw [List.mem_map] at hx
  obtain ⟨p, hp, rfl⟩ := hx
  split
  · exact le_of_lt (pathW_pos F W hW β _ 0 none p hp (by omega) (by intro q h; cases h))
  · exact le_refl _

theorem total_ne_zero (S : Scal K) (hWF : F.WF) (hS : S.NonZero) (hW : W.Pos F.nCols) (c : Nat) (hc : c < F.nCols) :
    total F W S c ≠ 0 := by
  obtain ⟨z, hz, h⟩ := numer_scale F W S hS c
  unfold total
  rw [h, numer_eq_specNumer F W hWF c hc]
  exact mul_ne_zero hz (ne_of_gt (specNumer_true_pos F W hW c hc))

theorem likelihoodSel_nonneg (S : Scal K) (hWF : F.WF) (hS : S.NonZero) (hW : W.Pos F.nCols) (c : Nat) (hc : c < F.nCols)
    (sel : Nat → Nat → Bool) : 0 ≤ likelihoodSel F W S c sel := by
  rw [likelihoodSel_eq_posteriorSel F W S hWF hS c hc]
  unfold posteriorSel
  exact div_nonneg (specNumer_nonneg F W hW c sel) (le_of_lt (specNumer_true_pos F W hW c hc))

/-! ### the genotyper's weights are positive for positive parameters -/

/-- error probabilities and recombination probabilities strictly between 0 and 1, positive priors -/
def Params.Pos (p : Params K) : Prop :=
  (∀ q, 0 < p.em q ∧ p.em q < 1) ∧ (∀ c, 0 < p.rho c ∧ p.rho c < 1) ∧ (∀ i c g, 0 < p.prior i c g)

theorem emitCol_pos (em : Nat → K) (hem : ∀ q, 0 < em q ∧ em q < 1) (parts : Nat → Nat × Nat) (a : Nat) :
    ∀ (es : List (Option (Nat × Bool × Nat))) (bs : List Bool), 0 < emitCol em parts a es bs
  | [], _ => by simp [emitCol]
  | some (ind, alt, q) :: es, [] => by simp [emitCol]
  | none :: es, [] => by simp [emitCol]
  | none :: es, b :: bs => by simp only [emitCol]; exact emitCol_pos em hem parts a es bs
  | some (ind, alt, q) :: es, b :: bs => by
    simp only [emitCol]
    have h1 : 0 < 1 - em q := sub_pos.mpr (hem q).2
    apply mul_pos
    · split <;> split <;> first | exact h1 | exact (hem q).1
    · exact emitCol_pos em hem parts a es bs

theorem powNat_pos (x : K) (hx : 0 < x) (n : Nat) : 0 < powNat x n := by
  induction n with
  | zero => simp [powNat]
  | succ n ih => simp only [powNat]; exact mul_pos ih hx

theorem foldl_mul_pos {α : Type} (l : List α) (f : α → K) (hf : ∀ x, 0 < f x) (init : K) (hi : 0 < init) :
    0 < l.foldl (fun acc x => acc * f x) init := by
  induction l generalizing init with
  | nil => simpa
  | cons a l ih => simp only [List.foldl_cons]; exact ih _ (mul_pos hi (hf a))

theorem sumN_pos (n : Nat) (hn : 0 < n) (f : Nat → K) (hf : ∀ i, i < n → 0 < f i) : 0 < sumN n f := by
  rw [sumN_eq_sum]
  apply sum_pos
  · intro i hi; exact hf i (mem_range.mp hi)
  · exact ⟨0, mem_range.mpr hn⟩

theorem Inst.weights_pos (inst : Inst) (p : Params K) (hp : p.Pos) : (inst.weights p).Pos inst.nCols := by
  obtain ⟨hem, hrho, hprior⟩ := hp
  have hnT : 0 < inst.nTrans := by unfold Inst.nTrans; exact Nat.pow_pos (by omega)
  have hnA : 0 < 2 ^ inst.nPart := Nat.pow_pos (by omega)
  refine ⟨hnT, hnA, ?_, ?_, ?_⟩
  · intro c bits t a _ _ _
    exact emitCol_pos p.em hem _ a _ bits
  · intro c t a hc ht ha
    have ht : t < inst.nTrans := ht
    have ha : a < 2 ^ inst.nPart := ha
    simp only [Inst.weights]
    rw [tblAt_mkTbl_lt _ (idx2_lt (idx2_lt hc ht) ha)]
    apply div_pos
    · apply div_pos
      · exact foldl_mul_pos _ _ (fun i => hprior _ _ _) 1 one_pos
      · rw [Nat.cast_pos]
        apply List.length_pos_of_mem (a := ((c * inst.nTrans + t) * 2 ^ inst.nPart + a) % 2 ^ inst.nPart)
        simp only [List.mem_filter, List.mem_range, decide_eq_true_eq, and_true]
        exact Nat.mod_lt _ hnA
    · apply sumN_pos _ hnA
      intro a' ha'
      apply div_pos
      · exact foldl_mul_pos _ _ (fun i => hprior _ _ _) 1 one_pos
      · rw [Nat.cast_pos]
        apply List.length_pos_of_mem (a := a')
        simp only [List.mem_filter, List.mem_range, decide_eq_true_eq, and_true]
        exact ha'
  · intro c j t hc hj ht
    have hj : j < inst.nTrans := hj
    have ht : t < inst.nTrans := ht
    simp only [Inst.weights]
    rw [tblAt_mkTbl_lt _ (idx2_lt (idx2_lt hc hj) ht)]
    have hb : ∀ (cc x : Nat), 0 < powNat (p.rho cc) x * powNat (1 - p.rho cc) (2 * inst.triples.length - x) := by
      intro cc x
      apply mul_pos (powNat_pos _ (hrho cc).1 _)
      exact powNat_pos _ (sub_pos.mpr (hrho cc).2) _
    apply div_pos (hb _ _)
    exact sumN_pos _ hnT _ (fun t' _ => hb _ _)

theorem exParams_pos : exParams.Pos := by
  refine ⟨fun q => ?_, fun c => ?_, fun i c g => ?_⟩
  · simp only [exParams]
    split
    · norm_num
    · have h : (0 : Rat) < (q : Rat) + 1 := by positivity
      have hq : q ≠ 0 := by assumption
      have h1 : (1 : Rat) < (q : Rat) + 1 := by
        have : (0 : Rat) < (q : Rat) := by exact_mod_cast Nat.pos_of_ne_zero hq
        linarith
      exact ⟨by positivity, by rw [div_lt_one h]; exact h1⟩
  · simp only [exParams]
    have h : (0 : Rat) < (c : Rat) + 3 := by positivity
    exact ⟨by positivity, by rw [div_lt_one h]; have : (0 : Rat) ≤ (c : Rat) := Nat.cast_nonneg c; linarith⟩
  · simp only [exParams]; split <;> norm_num

end WhVerif.C08

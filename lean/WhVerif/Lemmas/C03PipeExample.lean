import WhVerif.Lemmas.C03ReadList
/-!
# C03 pipeline: concrete runs used as non-vacuity witnesses in Props/C03.lean

* `exFam`: one sample, three selected reads forming two INTERLEAVED components {10, 30, 50} and {20, 40};
* `exTrio`: father / mother / child, one read each, position 30 homozygous in the mother: with genetic haplotyping the
  master block is empty here (30 is covered by nobody and not retained), position 40 homozygous and retained joins the
  father's and the child's components.
-/
namespace WhVerif.C03.Pipe.Ex
open WhVerif.C03 WhVerif.C04

def exReads : List (List SelRead) :=
  [[⟨"a", 0, 0, [(10, 0, 30), (30, 1, 30)]⟩, ⟨"c", 0, 0, [(30, 1, 30), (50, 0, 30)]⟩,
    ⟨"b", 0, 0, [(20, 1, 30), (40, 0, 30)]⟩]]

/-- super-reads: 10, 20, 30 heterozygous; 40 carries equal alleles (ends up homozygous); 50 heterozygous -/
def exSuper : SuperReads := ⟨0, [(10, 0, 1), (20, 1, 0), (30, 1, 0), (40, 1, 1), (50, 0, 1)]⟩

def exFam : FamilyIn := ⟨[⟨"S", 0⟩], exReads, [], [exSuper]⟩

def exComps : List (Nat × Nat) := [(10, 10), (20, 20), (30, 10), (40, 20), (50, 10)]

def exOut : FamilyOut :=
  ⟨[⟨"a", 0, 0, [(10, 0, 30), (30, 1, 30)]⟩, ⟨"b", 0, 0, [(20, 1, 30), (40, 0, 30)]⟩, ⟨"c", 0, 0, [(30, 1, 30), (50, 0, 30)]⟩],
   [10, 20, 30, 40, 50], exComps, [toTarget "S" exSuper exComps]⟩

theorem exFam_stage : familyStage false true exFam = .ok exOut := by rfl

def mkRec (pos : Nat) (gt : Gt) : Record := ⟨"s", pos, "A", ["C"], ["GT"], [("S", ⟨some gt, false, []⟩)]⟩

def exRecords : List Record :=
  [mkRec 10 [some 0, some 1], mkRec 20 [some 0, some 1], mkRec 30 [some 0, some 1], mkRec 40 [some 0, some 1],
   mkRec 50 [some 0, some 1]]

def exRc (tag : Tag) : RunCfg := ⟨tag, false, false, true, ["S"], []⟩
def exChrom : ChromIn := ⟨"chr1", [exFam], exRecords⟩

/-- the decoded phase statements of sample S in the written records -/
def decodedOf (outs : List Out) (n : String) : List (Nat × Option WhVerif.C09.Phase) :=
  outs.map fun o => (o.record.pos, (clookup o.record.calls n).bind (decodeCall o.record.format))

def runDecoded (rc : RunCfg) (c : ChromIn) (n : String) : Option (List (Nat × Option WhVerif.C09.Phase)) :=
  match phaseChrom rc c with
  | .ok outs => some (decodedOf outs n)
  | .error _ => none

theorem ex_run (tag : Tag) : runDecoded (exRc tag) exChrom "S" =
    some [(10, some ⟨some 11, [some 0, some 1]⟩), (20, some ⟨some 21, [some 1, some 0]⟩),
          (30, some ⟨some 11, [some 1, some 0]⟩), (40, none), (50, some ⟨some 11, [some 0, some 1]⟩)] := by
  cases tag <;> rfl

theorem mkRec_wf (pos : Nat) (gt : Gt) : ∀ nc ∈ (mkRec pos gt).calls, WhVerif.C09.WfCall (mkRec pos gt).format nc.2 := by
  intro nc hnc
  simp only [mkRec, List.mem_singleton] at hnc
  subst hnc
  exact ⟨fun k _ => rfl, fun h => by cases h⟩

theorem exRecords_wf : ∀ r ∈ exChrom.records, ∀ nc ∈ r.calls, WhVerif.C09.WfCall r.format nc.2 := by
  intro r hr
  simp only [exChrom, exRecords, List.mem_cons, List.not_mem_nil, or_false] at hr
  rcases hr with rfl | rfl | rfl | rfl | rfl <;> exact mkRec_wf _ _

/-! a trio -/

def trioFam : FamilyIn :=
  ⟨[⟨"F", 0⟩, ⟨"M", 1⟩, ⟨"C", 2⟩],
   [[⟨"f1", 0, 0, [(10, 0, 30), (20, 1, 30)]⟩], [], [⟨"c1", 0, 2, [(40, 1, 30), (50, 0, 30)]⟩]],
   [20, 40, 30],
   [⟨0, [(10, 0, 1), (20, 1, 1), (40, 0, 1), (50, 0, 1)]⟩, ⟨1, [(10, 0, 0), (20, 0, 1), (40, 1, 1), (50, 0, 1)]⟩,
    ⟨2, [(10, 0, 0), (20, 1, 0), (40, 1, 1), (50, 0, 1)]⟩]⟩

theorem trio_stage_genetic : (match familyStage false true trioFam with
      | .ok o => some (o.accessible, o.comps)
      | .error _ => none) =
    some ([10, 20, 30, 40, 50], [(10, 10), (20, 10), (30, 10), (40, 10), (50, 10)]) := by rfl

theorem trio_stage_nogenetic : (match familyStage false false trioFam with
      | .ok o => some (o.accessible, o.comps)
      | .error _ => none) =
    some ([10, 20, 40, 50], [(10, 10), (20, 10), (40, 40), (50, 40)]) := by rfl

end WhVerif.C03.Pipe.Ex

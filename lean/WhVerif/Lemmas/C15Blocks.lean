import WhVerif.Model.C15
/-! Helper lemmas for `Props/C15.lean`: permute_blocks, compute_cut_positions, component dictionary. -/
namespace WhVerif.C15

/-! ### permute_blocks -/

theorem map_getD_range {α} (col : List α) (d : α) :
    (List.range col.length).map (fun j => col.getD j d) = col := by
  apply List.ext_getElem
  · simp
  · intro i h1 h2
    simp only [List.length_map, List.length_range] at h1
    simp [h1]

theorem permuteCol_perm {α} [Inhabited α] (perm : List Nat) (col : List α)
    (h : perm.Perm (List.range col.length)) : (permuteCol perm col).Perm col := by
  have := h.map (fun j => col.getD j default)
  rw [map_getD_range] at this
  exact this

/-- every column is a rearrangement of the corresponding original column -/
def ColsInv {α} (orig st : List (List α)) : Prop :=
  st.length = orig.length ∧ ∀ q, (st.getD q []).Perm (orig.getD q [])

theorem ColsInv.set {α} [Inhabited α] {orig st : List (List α)} (hinv : ColsInv orig st) (p : Nat) (perm : List Nat)
    (k : Nat) (hcols : ∀ c ∈ orig, c.length = k) (hperm : perm.Perm (List.range k)) :
    ColsInv orig (st.set p (permuteCol perm (orig.getD p []))) := by
  refine ⟨by simp [hinv.1], ?_⟩
  intro q
  by_cases hp : p < st.length
  · by_cases hq : p = q
    · subst hq
      have hpo : p < orig.length := hinv.1 ▸ hp
      have hget : (st.set p (permuteCol perm (orig.getD p []))).getD p [] = permuteCol perm (orig.getD p []) := by
        simp [List.getD_eq_getElem?_getD, hp]
      rw [hget]
      apply permuteCol_perm
      have : (orig.getD p []).length = k := by
        apply hcols
        simp [List.getD_eq_getElem?_getD, hpo]
      rw [this]; exact hperm
    · have hget : (st.set p (permuteCol perm (orig.getD p []))).getD q [] = st.getD q [] := by
        simp [List.getD_eq_getElem?_getD, hq]
      rw [hget]; exact hinv.2 q
  · have : st.set p (permuteCol perm (orig.getD p [])) = st := by
      apply List.set_eq_of_length_le; omega
    rw [this]; exact hinv.2 q

theorem ColsInv.writeRange {α} [Inhabited α] {orig : List (List α)} (perm : List Nat) (k : Nat)
    (hcols : ∀ c ∈ orig, c.length = k) (hperm : perm.Perm (List.range k)) (ps : List Nat) :
    ∀ st, ColsInv orig st → ColsInv orig (writeRange orig perm st ps) := by
  induction ps with
  | nil => intro st h; exact h
  | cons p ps ih =>
    intro st h
    unfold C15.writeRange
    exact ih _ (h.set p perm k hcols hperm)

theorem ColsInv.permuteLoop {α} [Inhabited α] {orig : List (List α)} (k : Nat)
    (hcols : ∀ c ∈ orig, c.length = k) (blocks : List ((Nat × Nat) × List Nat))
    (hperms : ∀ b ∈ blocks, b.2.Perm (List.range k)) :
    ∀ st, ColsInv orig st → ColsInv orig (permuteLoop orig st blocks) := by
  induction blocks with
  | nil => intro st h; exact h
  | cons b rest ih =>
    intro st h
    obtain ⟨⟨s, e⟩, perm⟩ := b
    unfold C15.permuteLoop
    apply ih (fun b hb => hperms b (List.mem_cons_of_mem _ hb))
    exact ColsInv.writeRange perm k hcols (hperms _ (List.mem_cons_self)) _ st h

/-! ### compute_cut_positions -/

section cuts
variable {C L : Type} (A : ConfArith C L) (ploidy B : Nat)

/-- the loop only ever appends cuts -/
theorem cutLoop_suffix (st : CutState L) (bs : List (Breakpoint C)) :
    ∃ pre, (cutLoop A ploidy B st bs).cutsRev = pre ++ st.cutsRev := by
  induction bs generalizing st with
  | nil => exact ⟨[], by simp [cutLoop]⟩
  | cons b bs ih =>
    unfold cutLoop
    split
    · exact ih st
    · split
      · exact ⟨[], by simp⟩
      · split
        · obtain ⟨pre, h⟩ := ih ⟨b.position :: st.cutsRev, addHapCuts st.hapCutsRev (List.range ploidy) b.position,
            List.replicate ploidy A.zero⟩
          exact ⟨pre ++ [b.position], by simp [h]⟩
        · dsimp only
          split
          · obtain ⟨pre, h⟩ := ih ⟨b.position :: st.cutsRev, addHapCuts st.hapCutsRev b.haplotypes b.position,
              List.replicate ploidy A.zero⟩
            exact ⟨pre ++ [b.position], by simp [h]⟩
          · obtain ⟨pre, h⟩ := ih { st with remaining := _ }
            exact ⟨pre, h⟩

/-- every cut is the position of a breakpoint (or was there before) -/
theorem cutLoop_mem (st : CutState L) (bs : List (Breakpoint C)) :
    ∀ c ∈ (cutLoop A ploidy B st bs).cutsRev, c ∈ st.cutsRev ∨ ∃ b ∈ bs, b.position = c := by
  induction bs generalizing st with
  | nil => intro c hc; left; simpa [cutLoop] using hc
  | cons b bs ih =>
    unfold cutLoop
    split
    · intro c hc
      rcases ih st c hc with h | ⟨b', hb', e⟩
      · exact Or.inl h
      · exact Or.inr ⟨b', List.mem_cons_of_mem _ hb', e⟩
    · split
      · intro c hc; exact Or.inl hc
      · split
        · intro c hc
          rcases ih _ c hc with h | ⟨b', hb', e⟩
          · rcases List.mem_cons.mp h with h | h
            · exact Or.inr ⟨b, List.mem_cons_self, h.symm⟩
            · exact Or.inl h
          · exact Or.inr ⟨b', List.mem_cons_of_mem _ hb', e⟩
        · dsimp only
          split
          · intro c hc
            rcases ih _ c hc with h | ⟨b', hb', e⟩
            · rcases List.mem_cons.mp h with h | h
              · exact Or.inr ⟨b, List.mem_cons_self, h.symm⟩
              · exact Or.inl h
            · exact Or.inr ⟨b', List.mem_cons_of_mem _ hb', e⟩
          · intro c hc
            rcases ih _ c hc with h | ⟨b', hb', e⟩
            · exact Or.inl h
            · exact Or.inr ⟨b', List.mem_cons_of_mem _ hb', e⟩

/-- with breakpoints sorted by position, the cut list stays strictly increasing -/
theorem cutLoop_sorted (st : CutState L) (bs : List (Breakpoint C))
    (hs : bs.Pairwise (fun a b => a.position ≤ b.position))
    (hc : st.cutsRev.Pairwise (fun a b => a > b))
    (hle : ∀ c ∈ st.cutsRev, ∀ b ∈ bs, c ≤ b.position) :
    (cutLoop A ploidy B st bs).cutsRev.Pairwise (fun a b => a > b) := by
  induction bs generalizing st with
  | nil => simpa [cutLoop] using hc
  | cons b bs ih =>
    have hs' := List.pairwise_cons.mp hs
    have hle' : ∀ c ∈ st.cutsRev, ∀ b' ∈ bs, c ≤ b'.position :=
      fun c hc' b' hb' => hle c hc' b' (List.mem_cons_of_mem _ hb')
    -- when `b` is not a duplicate of the last cut, it lies strictly right of all cuts
    have hnew : ¬ ((st.cutsRev.head? == some b.position) = true) →
        (b.position :: st.cutsRev).Pairwise (fun a b => a > b) ∧
        ∀ c ∈ b.position :: st.cutsRev, ∀ b' ∈ bs, c ≤ b'.position := by
      intro hdup
      constructor
      · refine List.pairwise_cons.mpr ⟨?_, hc⟩
        intro c hcm
        cases hcr : st.cutsRev with
        | nil => rw [hcr] at hcm; simp at hcm
        | cons last rest =>
          rw [hcr] at hdup hcm hc
          have hne : last ≠ b.position := by simpa using hdup
          have hl : last ≤ b.position := hle last (by rw [hcr]; simp) b List.mem_cons_self
          rcases List.mem_cons.mp hcm with h | h
          · subst h; omega
          · have := (List.pairwise_cons.mp hc).1 c h
            omega
      · intro c hcm b' hb'
        rcases List.mem_cons.mp hcm with h | h
        · subst h; exact hs'.1 b' hb'
        · exact hle' c h b' hb'
    unfold cutLoop
    split
    · exact ih st hs'.2 hc hle'
    · rename_i hdup
      have hdup' := hnew hdup
      split
      · exact hc
      · split
        · exact ih _ hs'.2 hdup'.1 hdup'.2
        · dsimp only
          split
          · exact ih _ hs'.2 hdup'.1 hdup'.2
          · exact ih _ hs'.2 hc hle'

end cuts

/-! ### component dictionary -/

theorem dictGet_foldl (w : List (Nat × Nat)) (k : Nat) (r : Option Nat) :
    w.foldl (fun r kv => if kv.1 = k then some kv.2 else r) r = (dictGet w k).or r := by
  induction w generalizing r with
  | nil => simp [dictGet]
  | cons kv w ih =>
    simp only [List.foldl_cons, dictGet]
    rw [ih, ih (if kv.1 = k then some kv.2 else none)]
    cases dictGet w k with
    | some v => simp
    | none => by_cases h : kv.1 = k <;> simp [h]

theorem dictGet_append (w1 w2 : List (Nat × Nat)) (k : Nat) :
    dictGet (w1 ++ w2) k = (dictGet w2 k).or (dictGet w1 k) := by
  unfold dictGet
  rw [List.foldl_append]
  exact dictGet_foldl w2 k _

theorem blockWrites_succ (acc : List Nat) (v s n : Nat) :
    blockWrites acc v s (n + 1) =
      blockWrites acc v s n ++ [(acc.getD (s + n) 0, v), (acc.getD (s + n) 0 + 1, v)] := by
  simp [blockWrites, List.range'_concat]

/-- no write of the block touches key `k` -/
theorem dictGet_blockWrites_none (acc : List Nat) (v s n k : Nat)
    (h : ∀ pos, s ≤ pos → pos < s + n → acc.getD pos 0 ≠ k ∧ acc.getD pos 0 + 1 ≠ k) :
    dictGet (blockWrites acc v s n) k = none := by
  induction n with
  | zero => simp [blockWrites, dictGet]
  | succ n ih =>
    rw [blockWrites_succ, dictGet_append]
    have h1 := h (s + n) (by omega) (by omega)
    have : dictGet [(acc.getD (s + n) 0, v), (acc.getD (s + n) 0 + 1, v)] k = none := by
      simp only [dictGet, List.foldl_cons, List.foldl_nil, if_neg h1.1, if_neg h1.2]
    rw [this, ih (fun pos hp1 hp2 => h pos hp1 (by omega))]
    rfl

/-- inside a block over strictly increasing positions, every position of the block maps to the block name -/
theorem dictGet_blockWrites_hit (acc : List Nat) (v s n p : Nat) (hp1 : s ≤ p) (hp2 : p < s + n)
    (hm : ∀ i j, i < j → j < s + n → acc.getD i 0 < acc.getD j 0) :
    dictGet (blockWrites acc v s n) (acc.getD p 0) = some v := by
  induction n with
  | zero => omega
  | succ n ih =>
    rw [blockWrites_succ, dictGet_append]
    by_cases hlast : p = s + n
    · subst hlast
      simp [dictGet]
    · have hlt : acc.getD p 0 < acc.getD (s + n) 0 := hm p (s + n) (by omega) (by omega)
      have : dictGet [(acc.getD (s + n) 0, v), (acc.getD (s + n) 0 + 1, v)] (acc.getD p 0) = none := by
        have h1 : acc.getD (s + n) 0 ≠ acc.getD p 0 := by omega
        have h2 : acc.getD (s + n) 0 + 1 ≠ acc.getD p 0 := by omega
        simp only [dictGet, List.foldl_cons, List.foldl_nil, if_neg h1, if_neg h2]
      rw [this, ih (by omega) (fun i j hij hj => hm i j hij (by omega))]
      rfl

/-- The component dictionary for strictly increasing cuts `s :: rest` (all `< numVars`) over strictly
increasing accessible positions: every index `p ≥ s` is mapped to the position of the greatest cut `≤ p`,
and no key below `acc[s]` is written. -/
theorem componentWrites_lookup (acc : List Nat) (numVars : Nat)
    (hm : ∀ i j, i < j → j < numVars → acc.getD i 0 < acc.getD j 0) :
    ∀ (rest : List Nat) (s : Nat), (s :: rest).Pairwise (fun a b => a < b) → (∀ c ∈ s :: rest, c < numVars) →
      (∀ p, s ≤ p → p < numVars →
        ∃ c ∈ s :: rest, c ≤ p ∧ (∀ c' ∈ s :: rest, c' ≤ p → c' ≤ c) ∧
          dictGet (componentWrites acc numVars (s :: rest)) (acc.getD p 0) = some (acc.getD c 0))
      ∧ (∀ k, k < acc.getD s 0 → dictGet (componentWrites acc numVars (s :: rest)) k = none) := by
  intro rest
  induction rest with
  | nil =>
    intro s _ hlt
    have hs : s < numVars := hlt s (by simp)
    constructor
    · intro p hp1 hp2
      refine ⟨s, by simp, hp1, ?_, ?_⟩
      · intro c' hc' _; simp at hc'; omega
      · simp only [componentWrites]
        exact dictGet_blockWrites_hit acc _ s (numVars - s) p hp1 (by omega)
          (fun i j hij hj => hm i j hij (by omega))
    · intro k hk
      simp only [componentWrites]
      apply dictGet_blockWrites_none
      intro pos h1 h2
      have : acc.getD s 0 ≤ acc.getD pos 0 := by
        by_cases h : s = pos
        · subst h; exact Nat.le_refl _
        · exact Nat.le_of_lt (hm s pos (by omega) (by omega))
      omega
  | cons e rest ih =>
    intro s hpw hlt
    have hpw' := List.pairwise_cons.mp hpw
    have hse : s < e := hpw'.1 e (by simp)
    have he : e < numVars := hlt e (by simp)
    obtain ⟨ih1, ih2⟩ := ih e hpw'.2 (fun c hc => hlt c (List.mem_cons_of_mem _ hc))
    constructor
    · intro p hp1 hp2
      simp only [componentWrites]
      rw [dictGet_append]
      by_cases hpe : e ≤ p
      · obtain ⟨c, hc, hcp, hmax, hget⟩ := ih1 p hpe hp2
        refine ⟨c, List.mem_cons_of_mem _ hc, hcp, ?_, ?_⟩
        · intro c' hc' hc'p
          rcases List.mem_cons.mp hc' with h | h
          · subst h
            have := hmax e (by simp) hpe
            omega
          · exact hmax c' h hc'p
        · rw [hget]; rfl
      · have hpe' : p < e := by omega
        refine ⟨s, by simp, hp1, ?_, ?_⟩
        · intro c' hc' hc'p
          rcases List.mem_cons.mp hc' with h | h
          · omega
          · have : e ≤ c' := by
              rcases List.mem_cons.mp h with h | h
              · omega
              · exact Nat.le_of_lt ((List.pairwise_cons.mp hpw'.2).1 c' h)
            omega
        · have hnone := ih2 (acc.getD p 0) (hm p e hpe' he)
          rw [hnone]
          simp only [Option.none_or]
          exact dictGet_blockWrites_hit acc _ s (e - s) p hp1 (by omega)
            (fun i j hij hj => hm i j hij (by omega))
    · intro k hk
      simp only [componentWrites]
      rw [dictGet_append, ih2 k (by have := hm s e hse he; omega)]
      simp only [Option.none_or]
      apply dictGet_blockWrites_none
      intro pos h1 h2
      have : acc.getD s 0 ≤ acc.getD pos 0 := by
        by_cases h : s = pos
        · subst h; exact Nat.le_refl _
        · exact Nat.le_of_lt (hm s pos (by omega) (by omega))
      omega

end WhVerif.C15

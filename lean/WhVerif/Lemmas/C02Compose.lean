import WhVerif.Props.C01
import WhVerif.Lemmas.C02Thm
/-! Solver-level composition for C02 (kept outside Props/C02.lean so that other properties' proofs can use it
without importing Props/C02, which itself builds on their models). -/
namespace WhVerif.C02
open WhVerif.C01 WhVerif.Cost

variable {I : Inst} {hap : Nat → Nat} {src : Nat → Bool}

/-- **Composition (solver level).**  Error-free reads, sorted instance, ANY witness `(β, τ)` that achieves the
reported cost (C01's witness clause): for every read-connected component (represented by a read `r0`), every
column covered by a read of that component gets exactly the true alleles `(hap c, 1 - hap c)` — or, for the
whole component at once, the swapped pair.  One swap per component, no tie flags. -/
theorem pipeline_truth_solver (h : ErrFree I hap src) (hwf : WF I) (β : List Bool) (τ : List Nat)
    (hw : totalCost I β τ = dpCost I) (r0 r c : Nat) (hconn : Connected I r0 r) (hcov : covers I r c)
    (hc : c < I.ncols) :
    getAlleles I c (restrict β (I.activeAt c)) (τ.getD c 0) =
      some [if β.getD r0 false = src r0 then (hap c, 1 - hap c) else (1 - hap c, hap c)] := by
  have hz : totalCost I β τ = some 0 := by rw [hw]; exact WhVerif.C02.errfree_dpCost_zero h hwf
  rw [WhVerif.C02.zero_cost_no_tie h hz c hc (τ.getD c 0) r hcov]
  have hr := WhVerif.C02.zero_cost_connected h hz hconn
  have : (β.getD r false = src r) ↔ (β.getD r0 false = src r0) := by
    rw [hr]
    cases src r <;> cases src r0 <;> cases β.getD r0 false <;> simp
  by_cases h0 : β.getD r0 false = src r0
  · rw [if_pos h0, if_pos (this.mpr h0)]
  · rw [if_neg h0, if_neg (fun hh => h0 (this.mp hh))]


end WhVerif.C02

import WhVerif.Lemmas.C10Run
/-! C10: the contig loop of `run_haplotag` -/
namespace WhVerif.C10

theorem fetchSkip_nil {α} : ∀ (rs : List Region) (p : Option Int), fetchSkip ([] : List (Aln α)) p rs = [] := by
  intro rs
  induction rs with
  | nil => intro p; rfl
  | cons r rest ih => intro p; simp [fetchSkip, ih]

theorem mem_fetchSkip {α} {alns : List (Aln α)} {a : Aln α} : ∀ (rs : List Region) (p : Option Int),
    a ∈ fetchSkip alns p rs → a ∈ alns := by
  intro rs
  induction rs with
  | nil => intro p h; cases h
  | cons r rest ih =>
    intro p h
    simp only [fetchSkip, List.mem_append, List.mem_filter] at h
    rcases h with h | h
    · exact h.1
    · exact ih _ h

theorem flatMap_congr_mem {β γ} {f g : β → List γ} : ∀ {l : List β}, (∀ x ∈ l, f x = g x) → l.flatMap f = l.flatMap g := by
  intro l
  induction l with
  | nil => intro _; rfl
  | cons x xs ih =>
    intro h
    rw [List.flatMap_cons, List.flatMap_cons, h x List.mem_cons_self, ih (fun y hy => h y (List.mem_cons_of_mem _ hy))]

/-! ### the head of the loop body -/

theorem planContig_none {α} {cfg : Config} {i : Nat} {c : ContigIn α} (h : planContig cfg i c = .ok none) :
    c.alns = [] ∨ (c.inVcf = false ∧ cfg.writeMissing = false) := by
  unfold planContig at h
  split at h
  · left; rename_i he; exact List.isEmpty_iff.1 he
  · split at h
    · rename_i hv
      split at h
      · split at h
        · cases h
        · rename_i hw
          right
          exact ⟨by simpa using hv, by simpa using hw⟩
      · cases h
    · simp only at h
      split at h <;> cases h

theorem planContig_some {α} {cfg : Config} {i : Nat} {c : ContigIn α} {ctx : ChromCtx}
    (h : planContig cfg i c = .ok (some ctx)) :
    c.alns ≠ [] ∧
    ((c.inVcf = false ∧ cfg.writeMissing = true ∧ cfg.skipMissing = true ∧ ctx = emptyCtx cfg) ∨
     (c.inVcf = true ∧ (prepareAll cfg.ploidy cfg.cutoff cfg.ignoreLinked c.samples).error = none ∧
       ctx = ⟨(prepareAll cfg.ploidy cfg.cutoff cfg.ignoreLinked c.samples).readToHap,
              (prepareAll cfg.ploidy cfg.cutoff cfg.ignoreLinked c.samples).bxToHap,
              cfg.cutoff, cfg.ignoreLinked, cfg.tagSupplementary⟩)) := by
  unfold planContig at h
  split at h
  · cases h
  · rename_i he
    refine ⟨fun e => he (by simp [e]), ?_⟩
    split at h
    · rename_i hv
      left
      split at h
      · rename_i hs
        split at h
        · rename_i hw
          simp only [Except.ok.injEq, Option.some.injEq] at h
          exact ⟨by simpa using hv, hw, hs, h.symm⟩
        · cases h
      · cases h
    · rename_i hv
      right
      simp only at h
      split at h
      · cases h
      · rename_i hn
        simp only [Except.ok.injEq, Option.some.injEq] at h
        exact ⟨by simpa using hv, hn, h.symm⟩

/-- without `--skip-missing-contigs` a run that ends normally has met no contig with reads that the VCF lacks -/
theorem planContig_ok_noskip {α} {cfg : Config} {i : Nat} {c : ContigIn α} {r : Option ChromCtx}
    (hs : cfg.skipMissing = false) (h : planContig cfg i c = .ok r) : c.alns = [] ∨ c.inVcf = true := by
  unfold planContig at h
  split at h
  · left; rename_i he; exact List.isEmpty_iff.1 he
  · split at h
    · simp [hs] at h
    · rename_i hv; right; simpa using hv

/-! ### the loop -/

theorem haplotagLoop_erase {α} (cfg : Config) : ∀ (l : List (Nat × ContigIn α × List Region)) (w : List (Written α)),
    haplotagLoop cfg l = .ok w →
    w.map (fun t => (t.1, t.2.1.erase)) =
      l.flatMap fun t => if t.2.1.inVcf || cfg.writeMissing
        then (fetchSkip t.2.1.alns none t.2.2).map (fun a => (t.1, a.erase)) else [] := by
  intro l
  induction l with
  | nil => intro w h; simp only [haplotagLoop, Except.ok.injEq] at h; subst h; rfl
  | cons t rest ih =>
    obtain ⟨i, c, regions⟩ := t
    intro w h
    simp only [haplotagLoop] at h
    cases hp : planContig cfg i c with
    | error e => rw [hp] at h; cases h
    | ok r =>
      rw [hp] at h
      cases r with
      | none =>
        simp only at h
        rw [List.flatMap_cons, ih w h]
        rcases planContig_none hp with he | ⟨h1, h2⟩
        · simp [he, fetchSkip_nil]
        · simp [h1, h2]
      | some ctx =>
        simp only at h
        cases hr : haplotagLoop cfg rest with
        | error e => rw [hr] at h; cases h
        | ok w' =>
          rw [hr] at h
          simp only [Except.ok.injEq] at h
          subst h
          have hk : (c.inVcf || cfg.writeMissing) = true := by
            rcases (planContig_some hp).2 with ⟨_, hw, _, _⟩ | ⟨hv, _, _⟩
            · simp [hw]
            · simp [hv]
          rw [List.flatMap_cons, List.map_append, ih w' hr]
          simp only [hk, if_true, writeContig, List.map_map]
          congr 1
          apply List.map_congr_left
          intro a _
          simp only [Function.comp]
          have : (tagAln ctx a).erase = a.erase := by unfold tagAln Aln.erase; split <;> rfl
          rw [this]

theorem haplotagLoop_mem {α} (cfg : Config) : ∀ (l : List (Nat × ContigIn α × List Region)) (w : List (Written α)),
    haplotagLoop cfg l = .ok w → ∀ t ∈ w, ∃ c regions ctx, (t.1, c, regions) ∈ l ∧
      planContig cfg t.1 c = .ok (some ctx) ∧ ∃ a ∈ c.alns, t.2.1 = tagAln ctx a ∧ t.2.2 = listEntry ctx a := by
  intro l
  induction l with
  | nil => intro w h t ht; simp only [haplotagLoop, Except.ok.injEq] at h; subst h; cases ht
  | cons x rest ih =>
    obtain ⟨i, c, regions⟩ := x
    intro w h t ht
    simp only [haplotagLoop] at h
    cases hp : planContig cfg i c with
    | error e => rw [hp] at h; cases h
    | ok r =>
      rw [hp] at h
      cases r with
      | none =>
        simp only at h
        obtain ⟨c', rg', ctx', hm, rest'⟩ := ih w h t ht
        exact ⟨c', rg', ctx', List.mem_cons_of_mem _ hm, rest'⟩
      | some ctx =>
        simp only at h
        cases hr : haplotagLoop cfg rest with
        | error e => rw [hr] at h; cases h
        | ok w' =>
          rw [hr] at h
          simp only [Except.ok.injEq] at h
          subst h
          rcases List.mem_append.1 ht with ht | ht
          · simp only [writeContig, List.mem_map] at ht
            obtain ⟨a, ha, rfl⟩ := ht
            exact ⟨c, regions, ctx, List.mem_cons_self, hp, a, mem_fetchSkip _ _ ha, rfl, rfl⟩
          · obtain ⟨c', rg', ctx', hm, rest'⟩ := ih w' hr t ht
            exact ⟨c', rg', ctx', List.mem_cons_of_mem _ hm, rest'⟩

/-- a run that ends normally without `--skip-missing-contigs`: every selected contig with reads is in the VCF -/
theorem haplotagLoop_noskip {α} (cfg : Config) (hs : cfg.skipMissing = false) :
    ∀ (l : List (Nat × ContigIn α × List Region)) (w : List (Written α)),
    haplotagLoop cfg l = .ok w → ∀ t ∈ l, t.2.1.alns = [] ∨ t.2.1.inVcf = true := by
  intro l
  induction l with
  | nil => intro w _ t ht; cases ht
  | cons x rest ih =>
    obtain ⟨i, c, regions⟩ := x
    intro w h t ht
    simp only [haplotagLoop] at h
    cases hp : planContig cfg i c with
    | error e => rw [hp] at h; cases h
    | ok r =>
      rw [hp] at h
      have hrest : ∃ w', haplotagLoop cfg rest = .ok w' := by
        cases r with
        | none => exact ⟨w, h⟩
        | some ctx =>
          simp only at h
          cases hr : haplotagLoop cfg rest with
          | error e => rw [hr] at h; cases h
          | ok w' => exact ⟨w', rfl⟩
      obtain ⟨w', hw'⟩ := hrest
      rcases List.mem_cons.1 ht with e | e
      · subst e; exact planContig_ok_noskip hs hp
      · exact ih w' hw' t e

/-! ### the selection of contigs and regions -/

/-- the regions the loop uses for the contig with header index `i` (empty: the contig is not visited) -/
def regionsFor (regions : Option (List (Nat × Region))) (i : Nat) : List Region :=
  match regions with
  | none => [(0, none)]
  | some user => normalizeRegions (requestedFor user i)

theorem normalizeRegions_nil : normalizeRegions [] = [] := rfl

theorem select_flatMap {β γ} (regions : Option (List (Nat × Region))) (G : Nat → β → List Region → List γ)
    (hG : ∀ i c, G i c [] = []) (l : List (β × Nat)) :
    ((l.filterMap fun (c, i) =>
        match regions with
        | none => some (i, c, [((0 : Int), (none : Option Int))])
        | some user =>
          let rq := requestedFor user i
          if rq.isEmpty then none else some (i, c, normalizeRegions rq)).flatMap fun t => G t.1 t.2.1 t.2.2)
    = l.flatMap fun (c, i) => G i c (regionsFor regions i) := by
  cases regions with
  | none =>
    induction l with
    | nil => rfl
    | cons ci t ih =>
      obtain ⟨c, i⟩ := ci
      simp only [List.filterMap_cons, List.flatMap_cons, regionsFor] at ih ⊢
      rw [ih]
  | some user =>
    induction l with
    | nil => rfl
    | cons ci t ih =>
      obtain ⟨c, i⟩ := ci
      rw [List.filterMap_cons, List.flatMap_cons]
      simp only
      by_cases hrq : (requestedFor user i).isEmpty
      · have : requestedFor user i = [] := List.isEmpty_iff.1 hrq
        simp only [hrq, if_true]
        rw [ih]
        simp [regionsFor, this, normalizeRegions_nil, hG]
      · simp only [hrq, Bool.false_eq_true, if_false, List.flatMap_cons]
        rw [ih]
        simp [regionsFor]

theorem mem_selectContigs {β} {xs : List β} {regions : Option (List (Nat × Region))} {t : Nat × β × List Region}
    (h : t ∈ selectContigs xs regions) : xs[t.1]? = some t.2.1 := by
  unfold selectContigs at h
  obtain ⟨ci, hci, he⟩ := List.mem_filterMap.1 h
  obtain ⟨c, i⟩ := ci
  have hg : xs[i]? = some c := by
    have := List.mem_zipIdx_iff_getElem?.1 hci
    simpa using this
  cases regions with
  | none =>
    simp only [Option.some.injEq] at he
    subst he
    exact hg
  | some user =>
    simp only at he
    split at he
    · cases he
    · simp only [Option.some.injEq] at he
      subst he
      exact hg

theorem getElem?_of_mem_zipIdx {β} {l : List β} {c : β} {i : Nat} (h : (c, i) ∈ l.zipIdx) : l[i]? = some c := by
  have := List.mem_zipIdx_iff_getElem?.1 h
  simpa using this

/-- one contig: the write loop over the contig's regions emits exactly the wanted alignments, in file order -/
theorem fetchSkip_regionsFor {α} (regions : Option (List (Nat × Region))) (i : Nat) (alns : List (Aln α))
    (hnone : regions = none → ∀ a ∈ alns, 0 ≤ a.refStart)
    (hsome : ∀ user, regions = some user → ValidRegions user ∧ alns.Pairwise fun a b => a.refStart ≤ b.refStart) :
    fetchSkip alns none (regionsFor regions i) = alns.filter fun a => wantedAln regions (i, a) := by
  cases regions with
  | none =>
    simp only [regionsFor, fetchSkip, List.append_nil, wantedAln]
    apply List.filter_congr
    intro a ha
    have := hnone rfl a ha
    simp only [startsBefore, Bool.not_false, Bool.and_true, overlaps, decide_eq_true_eq]
    omega
  | some user =>
    obtain ⟨hv, hs⟩ := hsome user rfl
    simp only [regionsFor, wantedAln]
    rw [fetchSkip_normalizeRegions hs _ (fun r hr => hv (i, r) (mem_requestedFor hr))]
    apply List.filter_congr
    intro a _
    exact (requestedAln_eq user i a).symm

theorem flatMap_expected {α} (cfg : Config) (l : List (ContigIn α × Nat))
    (hnone : cfg.regions = none → ∀ ci ∈ l, ∀ a ∈ ci.1.alns, 0 ≤ a.refStart)
    (hsome : ∀ user, cfg.regions = some user → ValidRegions user ∧
      ∀ ci ∈ l, ci.1.alns.Pairwise fun a b => a.refStart ≤ b.refStart) :
    (l.flatMap fun (c, i) => if c.inVcf || cfg.writeMissing
        then (fetchSkip c.alns none (regionsFor cfg.regions i)).map (fun a => (i, a.erase)) else [])
    = (l.flatMap fun (c, i) =>
        if c.inVcf || cfg.writeMissing then (c.alns.filter fun a => wantedAln cfg.regions (i, a)).map fun a => (i, a) else []).map
        fun ia => (ia.1, ia.2.erase) := by
  induction l with
  | nil => rfl
  | cons ci t ih =>
    obtain ⟨c, i⟩ := ci
    simp only [List.flatMap_cons, List.map_append]
    rw [ih (fun h x hx => hnone h x (List.mem_cons_of_mem _ hx))
      (fun u hu => ⟨(hsome u hu).1, fun x hx => (hsome u hu).2 x (List.mem_cons_of_mem _ hx)⟩)]
    congr 1
    split
    · rw [fetchSkip_regionsFor cfg.regions i c.alns (fun h => hnone h (c, i) List.mem_cons_self)
        (fun u hu => ⟨(hsome u hu).1, (hsome u hu).2 (c, i) List.mem_cons_self⟩), List.map_map]
      rfl
    · rfl

/-! ### when the run ends normally -/

theorem planContig_ok {α} {cfg : Config} (i : Nat) {c : ContigIn α}
    (h1 : c.alns = [] ∨ c.inVcf = true ∨ cfg.skipMissing = true)
    (h2 : (prepareAll cfg.ploidy cfg.cutoff cfg.ignoreLinked c.samples).error = none) :
    ∃ r, planContig cfg i c = .ok r := by
  unfold planContig
  split
  · exact ⟨_, rfl⟩
  · rename_i he
    split
    · rename_i hv
      rcases h1 with h | h | h
      · exact absurd (by simp [h]) he
      · simp [h] at hv
      · simp only [h, if_true]; exact ⟨_, rfl⟩
    · simp only [h2]; exact ⟨_, rfl⟩

theorem haplotagLoop_ok {α} (cfg : Config) : ∀ l : List (Nat × ContigIn α × List Region),
    (∀ t ∈ l, (t.2.1.alns = [] ∨ t.2.1.inVcf = true ∨ cfg.skipMissing = true) ∧
      (prepareAll cfg.ploidy cfg.cutoff cfg.ignoreLinked t.2.1.samples).error = none) →
    ∃ w, haplotagLoop cfg l = .ok w := by
  intro l
  induction l with
  | nil => intro _; exact ⟨[], rfl⟩
  | cons x rest ih =>
    obtain ⟨i, c, regions⟩ := x
    intro h
    obtain ⟨w', hw'⟩ := ih (fun t ht => h t (List.mem_cons_of_mem _ ht))
    obtain ⟨r, hr⟩ := planContig_ok (cfg := cfg) i (h (i, c, regions) List.mem_cons_self).1 (h (i, c, regions) List.mem_cons_self).2
    simp only [haplotagLoop, hr, hw']
    cases r with
    | none => exact ⟨_, rfl⟩
    | some ctx => exact ⟨_, rfl⟩

theorem mem_of_mem_selectContigs {β} {xs : List β} {regions : Option (List (Nat × Region))} {t : Nat × β × List Region}
    (h : t ∈ selectContigs xs regions) : t.2.1 ∈ xs :=
  List.mem_of_getElem? (mem_selectContigs h)

end WhVerif.C10

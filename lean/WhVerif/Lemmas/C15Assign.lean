import WhVerif.Model.C15Solve
import WhVerif.Lemmas.C15Glue
/-! `get_optimal_assignments` (branch without affiliations): every assignment is a permutation of `range(ploidy)`. -/
namespace WhVerif.C15

/-- sequential writes `c[ts[i]] = vs[i]` -/
def setMany {α} (c : List α) : List Nat → List α → List α
  | t :: ts, v :: vs => setMany (c.set t v) ts vs
  | _, _ => c

theorem foldl_zip_set {α β} (g : β → Nat) : ∀ (ls : List β) (rs : List α) (c : List α),
    (ls.zip rs).foldl (fun nxt lr => nxt.set (g lr.1) lr.2) c = setMany c (ls.map g) rs
  | [], rs, c => by simp [setMany]
  | l :: ls, [], c => by simp [setMany]
  | l :: ls, r :: rs, c => by
    simp only [List.zip_cons_cons, List.foldl_cons, List.map_cons, setMany]
    exact foldl_zip_set g ls rs _

theorem count_setMany_add (c : List Nat) (ts : List Nat) (vs : List Nat) (hnd : ts.Nodup)
    (hr : ∀ t ∈ ts, t < c.length) (hl : vs.length = ts.length) (a : Nat) :
    (setMany c ts vs).count a + (ts.map (fun t => c.getD t 0)).count a = c.count a + vs.count a := by
  induction ts generalizing c vs with
  | nil => cases vs with
    | nil => simp [setMany]
    | cons v vs => simp at hl
  | cons t ts ih =>
    cases vs with
    | nil => simp at hl
    | cons v vs =>
      simp only [List.nodup_cons] at hnd
      have ht : t < c.length := hr t (by simp)
      have ih' := ih (c.set t v) vs hnd.2 (by intro x hx; simpa using hr x (List.mem_cons_of_mem _ hx))
        (by simpa using hl)
      have hdis : ts.map (fun x => (c.set t v).getD x 0) = ts.map (fun x => c.getD x 0) := by
        apply List.map_congr_left
        intro x hx
        have : x ≠ t := fun e => hnd.1 (e ▸ hx)
        simp [List.getD_eq_getElem?_getD, List.getElem?_set, Ne.symm this]
      rw [hdis, List.count_set ht] at ih'
      simp only [setMany, List.map_cons, List.count_cons]
      have hg : c.getD t 0 = c[t] := by simp [List.getD_eq_getElem?_getD, ht]
      rw [hg]
      have hpos : (if (c[t] == a) = true then 1 else 0) ≤ c.count a := by
        by_cases e : (c[t] == a) = true
        · simp only [e, if_true]
          have : a ∈ c := by
            have := List.getElem_mem ht
            simpa using (beq_iff_eq.mp e) ▸ this
          exact List.count_pos_iff.mpr this
        · simp [e]
      omega

/-- one step of the local-optimum branch: relinking the affected haplotypes leaves a rearrangement -/
theorem applyPerm_perm (prevA perm : List Nat) (hnd : perm.Nodup) (hsub : ∀ x ∈ perm, x ∈ prevA) :
    (applyPerm prevA perm).Perm prevA := by
  unfold applyPerm
  rw [foldl_zip_set (fun l => prevA.idxOf l)]
  have hS := isort_perm (fun a b => decide (a ≤ b)) perm
  generalize isort (fun a b => decide (a ≤ b)) perm = S at hS
  have hSnd : S.Nodup := hS.symm.nodup hnd
  have hSsub : ∀ x ∈ S, x ∈ prevA := fun x hx => hsub x (hS.subset hx)
  have hlt : ∀ x ∈ S, prevA.idxOf x < prevA.length := fun x hx => List.idxOf_lt_length_of_mem (hSsub x hx)
  have hget : ∀ x ∈ S, prevA.getD (prevA.idxOf x) 0 = x := by
    intro x hx
    have h := hlt x hx
    simp [List.getD_eq_getElem?_getD, h, List.getElem_idxOf h]
  have hmap : (S.map (fun l => prevA.idxOf l)).map (fun t => prevA.getD t 0) = S := by
    rw [List.map_map]
    conv => rhs; rw [← List.map_id S]
    apply List.map_congr_left
    intro x hx
    simpa using hget x hx
  have hnodup : (S.map (fun l => prevA.idxOf l)).Nodup := by
    rw [List.nodup_iff_pairwise_ne] at hSnd ⊢
    rw [List.pairwise_map]
    apply List.Pairwise.imp_of_mem _ hSnd
    intro a b ha hb hab heq
    apply hab
    rw [← hget a ha, ← hget b hb, heq]
  apply List.perm_iff_count.mpr
  intro a
  have := count_setMany_add prevA (S.map (fun l => prevA.idxOf l)) perm hnodup
    (by intro t ht; obtain ⟨x, hx, rfl⟩ := List.mem_map.mp ht; exact hlt x hx)
    (by rw [List.length_map]; exact hS.length_eq.symm) a
  rw [hmap] at this
  have := hS.count_eq a
  omega

theorem assignmentsFrom_perm (k : Nat) : ∀ (choices : List (List Nat)) (a : List Nat), a.Perm (List.range k) →
    (∀ ch ∈ choices, ch.Nodup ∧ ∀ x ∈ ch, x < k) → ∀ b ∈ assignmentsFrom a choices, b.Perm (List.range k)
  | [], a, ha, _ => by simp [assignmentsFrom]; exact ha
  | p :: ps, a, ha, h => by
    intro b hb
    simp only [assignmentsFrom, List.mem_cons] at hb
    rcases hb with rfl | hb
    · exact ha
    · have hp := h p (by simp)
      have : (applyPerm a p).Perm a := applyPerm_perm a p hp.1 (fun x hx => by
        apply ha.symm.subset
        exact List.mem_range.mpr (hp.2 x hx))
      exact assignmentsFrom_perm k ps _ (this.trans ha) (fun ch hch => h ch (List.mem_cons_of_mem _ hch)) b hb

end WhVerif.C15

import WhVerif.Lemmas.C06Window
import WhVerif.Spec.C06Indel
/-! Lemmas for the window lemma with a D/I operation (or several M/=/X blocks) inside the window. -/
namespace WhVerif.C06

theorem qLen_matches (W : Cigar) (h : W.all isMatchOp = true) : qLen W = refLen W := by
  induction W with
  | nil => rfl
  | cons x xs ih =>
    obtain ⟨op, len⟩ := x
    simp only [List.all_cons, Bool.and_eq_true, isMatchOp] at h
    simp [qLen, refLen, consumesRef, consumesQuery, h.1, ih h.2]

/-- at the end of the window the walk stops with what it has -/
theorem prefixGo_ends (f : Bool) (k rp qp : Nat) (X : Cigar) (hX : endsWindow f X = true) (hk : rp < k) :
    prefixGo f k rp qp X = .ok (rp, qp) := by
  induction X with
  | nil => simp [prefixGo, hk]
  | cons x rest ih =>
    obtain ⟨op, len⟩ := x
    simp only [endsWindow] at hX
    by_cases h45 : (op == 4 || op == 5) = true
    · simp only [h45, if_true] at hX
      have hm : isMatch op = false := by
        simp only [Bool.or_eq_true, beq_iff_eq] at h45
        rcases h45 with rfl | rfl <;> decide
      have h1 : (op == 1) = false := by
        simp only [Bool.or_eq_true, beq_iff_eq] at h45
        rcases h45 with rfl | rfl <;> decide
      have h2 : (op == 2) = false := by
        simp only [Bool.or_eq_true, beq_iff_eq] at h45
        rcases h45 with rfl | rfl <;> decide
      simp [prefixGo, hm, h1, h2, h45, ih hX]
    · simp only [h45, Bool.false_eq_true, if_false, Bool.and_eq_true, beq_iff_eq] at hX
      obtain ⟨hf, rfl⟩ := hX
      simp [prefixGo, isMatch, hf]

theorem endsWindow_of_clips (f : Bool) (X : Cigar) (h : X.all isClip = true) : endsWindow f X = true := by
  induction X with
  | nil => rfl
  | cons x rest ih =>
    obtain ⟨op, len⟩ := x
    simp only [List.all_cons, Bool.and_eq_true, isClip] at h
    simp [endsWindow, h.1, ih h.2]

/-- prefix length over a run of M/=/X blocks followed by `X`: either the run is long enough or only clips follow -/
theorem prefixGo_matches (f : Bool) (k : Nat) (Ms X : Cigar) (hM : Ms.all isMatchOp = true) (rp qp : Nat) (hk : rp < k)
    (hreach : k ≤ rp + refLen Ms ∨ endsWindow f X = true) :
    prefixGo f k rp qp (Ms ++ X) = .ok (min k (rp + refLen Ms), qp + (min k (rp + refLen Ms) - rp)) := by
  induction Ms generalizing rp qp with
  | nil =>
    have hX : endsWindow f X = true := by
      rcases hreach with h | h
      · simp only [refLen] at h; omega
      · exact h
    simp only [List.nil_append, prefixGo_ends f k rp qp X hX hk, refLen]
    congr 2 <;> omega
  | cons x xs ih =>
    obtain ⟨op, len⟩ := x
    simp only [List.all_cons, Bool.and_eq_true, isMatchOp] at hM
    have hr : consumesRef op = true := by simp [consumesRef, hM.1]
    simp only [List.cons_append, prefixGo, hM.1, if_true, refLen, hr]
    by_cases hge : rp + len ≥ k
    · simp only [hge, if_true]; congr 2 <;> omega
    · simp only [hge, if_false]
      rw [ih hM.2 (rp + len) (qp + len) (by omega) (by
        rcases hreach with h | h
        · left; simp only [refLen, hr, if_true] at h; omega
        · right; exact h)]
      congr 2 <;> omega

theorem prefix_matches (f : Bool) (k : Nat) (Ms X : Cigar) (hM : Ms.all isMatchOp = true) (hk : 0 < k)
    (hreach : k ≤ refLen Ms ∨ endsWindow f X = true) :
    cigarPrefixLength f (Ms ++ X) k = .ok (min k (refLen Ms), min k (refLen Ms)) := by
  unfold cigarPrefixLength
  rw [prefixGo_matches f k Ms X hM 0 0 hk (by simpa using hreach)]
  congr 2 <;> omega

/-- right half starting with the deletion of the variant -/
theorem prefix_del (f : Bool) (L oh : Nat) (W2 B : Cigar) (hoh : 0 < oh) (hW2 : W2.all isMatchOp = true)
    (hreach : oh ≤ refLen W2 ∨ endsWindow f B = true) :
    cigarPrefixLength f ((2, L) :: (W2 ++ B)) (L + oh) = .ok (L + min oh (refLen W2), min oh (refLen W2)) := by
  unfold cigarPrefixLength
  have h1 : ¬ (0 + L ≥ L + oh) := by omega
  have hm : isMatch 2 = false := by decide
  simp only [prefixGo, hm, Bool.false_eq_true, if_false, beq_self_eq_true, if_true, h1]
  rw [prefixGo_matches f (L + oh) W2 B hW2 (0 + L) 0 (by omega) (by
    rcases hreach with h | h
    · left; omega
    · right; exact h)]
  congr 2 <;> omega

/-- right half starting with the insertion of the variant -/
theorem prefix_ins (f : Bool) (n oh : Nat) (W2 B : Cigar) (hoh : 0 < oh) (hW2 : W2.all isMatchOp = true)
    (hreach : oh ≤ refLen W2 ∨ endsWindow f B = true) :
    cigarPrefixLength f ((1, n) :: (W2 ++ B)) oh = .ok (min oh (refLen W2), n + min oh (refLen W2)) := by
  unfold cigarPrefixLength
  have hm : isMatch 1 = false := by decide
  have h2 : ((1 : Nat) == 2) = false := by decide
  simp only [prefixGo, hm, Bool.false_eq_true, if_false, beq_self_eq_true, if_true, h2]
  rw [prefixGo_matches f oh W2 B hW2 0 (0 + n) hoh (by
    rcases hreach with h | h
    · left; omega
    · right; exact h)]
  congr 2 <;> omega

theorem splitLeft_at (P Q : Cigar) (op len d : Nat) (h : d ≤ len) :
    splitLeft (P ++ (op, len) :: Q) P.length d = .ok ((if d > 0 then [(op, d)] else []) ++ P.reverse) := by
  simp [splitLeft, h]

theorem splitRight_at (P Q : Cigar) (op len d : Nat) (h : d < len) :
    splitRight (P ++ (op, len) :: Q) P.length d = .ok ((op, len - d) :: Q) := by
  simp [splitRight, h, drop_append_length_succ]

theorem slice_transfer {α} (q hp : List α) (a s Q u n : Nat) (h : slice q a Q = slice hp s Q) (hun : u + n ≤ Q) :
    slice q (a + u) n = slice hp (s + u) n := by
  rw [← slice_slice q a Q u n hun, h, slice_slice _ s Q u n hun]

/-- the window of `realign`, given the two halves of the split and their prefix lengths -/
theorem window_core (f14 : Bool) (R query : Seq) (pos : Nat) (ref a : Seq) (alts : List Seq) (cigar : Cigar)
    (i d qp oh : Nat) (Lc Rc : Cigar) (lw rr rq : Nat)
    (hl : splitLeft cigar i d = .ok Lc) (hpl : cigarPrefixLength f14 Lc oh = .ok (lw, lw))
    (hr : splitRight cigar i d = .ok Rc) (hpr : cigarPrefixLength f14 Rc (ref.length + oh) = .ok (rr, rq))
    (hR : slice R pos ref.length = ref)
    (hlw : lw ≤ pos) (hlq : lw ≤ qp) (hLrr : ref.length ≤ rr) (hrq : rq = a.length + (rr - ref.length))
    (hend : pos + rr ≤ R.length)
    (hq : slice query (qp - lw) (lw + rq) = slice (hapOf R pos ref.length a) (pos - lw) (lw + rq)) :
    window f14 ⟨pos, ref, alts⟩ query cigar i d ((qp : Nat) : Int) R oh =
      .ok ⟨slice R (pos - lw) lw ++ a ++ slice R (pos + ref.length) (rr - ref.length),
           (ref :: alts).map (fun x => slice R (pos - lw) lw ++ x ++ slice R (pos + ref.length) (rr - ref.length))⟩ := by
  have hposR : pos ≤ R.length := by omega
  have hA1 : ¬ pos < lw := by omega
  have hA2 : ¬ pos + rr > R.length := by omega
  simp only [window, hl, hpl, hr, hpr, hA1, hA2, if_false, List.map_cons]
  have i1 : ((qp : Nat) : Int) - (lw : Int) = ((qp - lw : Nat) : Int) := by omega
  have i2 : ((qp : Nat) : Int) + (rq : Int) = ((qp + rq : Nat) : Int) := by omega
  have i3 : (pos : Int) - (lw : Int) = ((pos - lw : Nat) : Int) := by omega
  have i4 : (pos : Int) + (ref.length : Int) = ((pos + ref.length : Nat) : Int) := by omega
  have i5 : (pos : Int) + (rr : Int) = ((pos + rr : Nat) : Int) := by omega
  rw [i1, i2, i3, i4, i5]
  simp only [pySlice_nat]
  have e1 : pos - (pos - lw) = lw := by omega
  have e2 : pos + rr - (pos + ref.length) = rr - ref.length := by omega
  have e3 : pos + rr - (pos - lw) = (pos - (pos - lw)) + rr := by omega
  have e4 : qp + rq - (qp - lw) = lw + rq := by omega
  rw [e1, e2, e4]
  have hRd := ref_decomp R ref pos hR
  have hpadref : slice R (pos - lw) (pos + rr - (pos - lw)) =
      slice R (pos - lw) lw ++ ref ++ slice R (pos + ref.length) (rr - ref.length) := by
    rw [e3]
    conv => lhs; rw [hRd]
    have := slice_hap R ref pos ref.length (pos - lw) rr (by omega) hposR hLrr
    rw [this, e1]
  have hqs : slice query (qp - lw) (lw + rq) =
      slice R (pos - lw) lw ++ a ++ slice R (pos + ref.length) (rr - ref.length) := by
    rw [hq]
    unfold hapOf
    have := slice_hap R a pos ref.length (pos - lw) (a.length + (rr - ref.length)) (by omega) hposR (by omega)
    rw [e1] at this
    rw [hrq, this]
    congr 2
    omega
  rw [hpadref, hqs]

/-- `window_is_padded_allele`, all variant types: the CIGAR is `A ++ W1 ++ [(op, len)] ++ W2 ++ B`, `W1`/`W2` runs of
M/=/X blocks, and `(op, len)` the operation the variant position lies in, at offset `d` — an M/=/X block (read
carrying an allele as long as REF: REF itself, an SNV, an MNP), the deletion of the variant (read carrying the empty
allele) or the insertion of the variant (REF empty, read carrying the inserted allele). -/
theorem window_canonical (f14 : Bool) (R query : Seq) (pos : Nat) (ref a : Seq) (alts : List Seq)
    (A W1 W2 B : Cigar) (op len d start oh : Nat) (hoh : 0 < oh)
    (hW1 : W1.all isMatchOp = true) (hW2 : W2.all isMatchOp = true)
    (hshape : (isMatch op = true ∧ d < len ∧ a.length = ref.length)
      ∨ (op = 2 ∧ a = [] ∧ len = ref.length ∧ d = 0 ∧ 0 < len)
      ∨ (op = 1 ∧ ref = [] ∧ len = a.length ∧ d = 0 ∧ 0 < len))
    (hpos : pos = start + refLen A + refLen W1 + d)
    (hR : slice R pos ref.length = ref)
    (hcov : pos + ref.length ≤ start + refLen A + refLen (W1 ++ (op, len) :: W2))
    (hin : start + refLen A + refLen (W1 ++ (op, len) :: W2) ≤ R.length)
    (hleft : oh ≤ refLen W1 + d ∨ endsWindow f14 A.reverse = true)
    (hright : pos + ref.length + oh ≤ start + refLen A + refLen (W1 ++ (op, len) :: W2) ∨ endsWindow f14 B = true)
    (hq : slice query (qLen A) (qLen (W1 ++ (op, len) :: W2)) =
      slice (hapOf R pos ref.length a) (start + refLen A) (qLen (W1 ++ (op, len) :: W2))) :
    ∃ lp rp, window f14 ⟨pos, ref, alts⟩ query (A ++ W1 ++ (op, len) :: (W2 ++ B)) (A ++ W1).length d
        ((qLen (A ++ W1) + d : Nat) : Int) R oh
      = .ok ⟨lp ++ a ++ rp, (ref :: alts).map (fun x => lp ++ x ++ rp)⟩ := by
  have hq1 := qLen_matches W1 hW1
  have hq2 := qLen_matches W2 hW2
  have hW1r : W1.reverse.all isMatchOp = true := by rw [all_reverse]; exact hW1
  simp only [refLen_append, qLen_append, refLen, qLen] at hcov hin hright hq
  generalize hs : start + refLen A = s at *
  have hrev : ∀ X : Cigar, X ++ (A ++ W1).reverse = (X ++ W1.reverse) ++ A.reverse := by
    intro X; simp [List.reverse_append, List.append_assoc]
  rcases hshape with ⟨hm, hd, hal⟩ | ⟨rfl, rfl, rfl, rfl, h0⟩ | ⟨rfl, rfl, hl, rfl, h0⟩
  · -- the variant position lies in an M/=/X block
    have hcr : consumesRef op = true := by simp [consumesRef, hm]
    have hcq : consumesQuery op = true := by simp [consumesQuery, hm]
    simp only [hcr, hcq, if_true] at hcov hin hright hq
    have hML : ((if d > 0 then [(op, d)] else []) ++ W1.reverse).all isMatchOp = true := by
      by_cases h : d > 0 <;> simp [h, isMatchOp, hm, hW1r]
    have hMLr : refLen ((if d > 0 then [(op, d)] else []) ++ W1.reverse) = refLen W1 + d := by
      by_cases h : d > 0
      · simp [h, refLen, hcr, refLen_reverse]; omega
      · have : d = 0 := by omega
        simp [this, refLen_reverse]
    have hMR : ((op, len - d) :: W2).all isMatchOp = true := by simp [isMatchOp, hm, hW2]
    have hMRr : refLen ((op, len - d) :: W2) = len - d + refLen W2 := by simp [refLen, hcr]
    have hsl := splitLeft_at (A ++ W1) (W2 ++ B) op len d (Nat.le_of_lt hd)
    rw [hrev] at hsl
    have hsr := splitRight_at (A ++ W1) (W2 ++ B) op len d hd
    have hpl := prefix_matches f14 oh _ A.reverse hML hoh (by
      rw [hMLr]
      rcases hleft with h | h
      · left; exact h
      · right; exact h)
    have hpr := prefix_matches f14 (ref.length + oh) ((op, len - d) :: W2) B hMR (by omega) (by
      rw [hMRr]
      rcases hright with h | h
      · left; omega
      · right; exact h)
    rw [hMLr] at hpl
    rw [hMRr] at hpr
    rw [show ((op, len - d) :: W2) ++ B = (op, len - d) :: (W2 ++ B) from rfl] at hpr
    generalize hlw : min oh (refLen W1 + d) = lw at *
    generalize hrr : min (ref.length + oh) (len - d + refLen W2) = rr at *
    have hw := window_core f14 R query pos ref a alts _ _ d (qLen (A ++ W1) + d) oh _ _ lw rr rr hsl hpl hsr hpr hR
      (by omega) (by rw [qLen_append]; omega) (by omega) (by omega) (by omega) (by
        have := slice_transfer query _ (qLen A) s _ (refLen W1 + d - lw) (lw + rr) hq (by omega)
        have e1 : qLen (A ++ W1) + d - lw = qLen A + (refLen W1 + d - lw) := by rw [qLen_append]; omega
        have e2 : pos - lw = s + (refLen W1 + d - lw) := by omega
        rw [e1, e2]; exact this)
    exact ⟨_, _, hw⟩
  · -- the deletion of the variant
    have hcr : consumesRef 2 = true := by decide
    have hcq : consumesQuery 2 = false := by decide
    simp only [hcr, hcq, if_true, Bool.false_eq_true, if_false] at hcov hin hright hq
    have hsl := splitLeft_at (A ++ W1) (W2 ++ B) 2 ref.length 0 (Nat.zero_le _)
    rw [hrev] at hsl
    have hsr := splitRight_at (A ++ W1) (W2 ++ B) 2 ref.length 0 h0
    simp only [Nat.lt_irrefl, gt_iff_lt, if_false, List.nil_append, Nat.sub_zero] at hsl hsr
    have hpl := prefix_matches f14 oh _ A.reverse hW1r hoh (by
      rw [refLen_reverse]
      rcases hleft with h | h
      · left; omega
      · right; exact h)
    rw [refLen_reverse] at hpl
    have hpr := prefix_del f14 ref.length oh W2 B hoh hW2 (by
      rcases hright with h | h
      · left; omega
      · right; exact h)
    generalize hlw : min oh (refLen W1) = lw at *
    generalize hrw : min oh (refLen W2) = rw at *
    have hw := window_core f14 R query pos ref [] alts _ _ 0 (qLen (A ++ W1) + 0) oh _ _ lw (ref.length + rw) rw hsl hpl hsr hpr hR
      (by omega) (by rw [qLen_append]; omega) (by omega) (by simp) (by omega) (by
        have := slice_transfer query _ (qLen A) s _ (refLen W1 - lw) (lw + rw) hq (by omega)
        have e1 : qLen (A ++ W1) + 0 - lw = qLen A + (refLen W1 - lw) := by rw [qLen_append]; omega
        have e2 : pos - lw = s + (refLen W1 - lw) := by omega
        rw [e1, e2]; exact this)
    exact ⟨_, _, hw⟩
  · -- the insertion of the variant
    have hcr : consumesRef 1 = false := by decide
    have hcq : consumesQuery 1 = true := by decide
    simp only [hcr, hcq, if_true, Bool.false_eq_true, if_false, List.length_nil] at hcov hin hright hq
    have hsl := splitLeft_at (A ++ W1) (W2 ++ B) 1 len 0 (Nat.zero_le _)
    rw [hrev] at hsl
    have hsr := splitRight_at (A ++ W1) (W2 ++ B) 1 len 0 h0
    simp only [Nat.lt_irrefl, gt_iff_lt, if_false, List.nil_append, Nat.sub_zero] at hsl hsr
    have hpl := prefix_matches f14 oh _ A.reverse hW1r hoh (by
      rw [refLen_reverse]
      rcases hleft with h | h
      · left; omega
      · right; exact h)
    rw [refLen_reverse] at hpl
    have hpr := prefix_ins f14 len oh W2 B hoh hW2 (by
      rcases hright with h | h
      · left; omega
      · right; exact h)
    generalize hlw : min oh (refLen W1) = lw at *
    generalize hrw : min oh (refLen W2) = rw at *
    have hpr' : cigarPrefixLength f14 ((1, len) :: (W2 ++ B)) (([] : Seq).length + oh) = .ok (rw, len + rw) := by
      simpa using hpr
    have hw := window_core f14 R query pos [] a alts _ _ 0 (qLen (A ++ W1) + 0) oh _ _ lw rw (len + rw) hsl hpl hsr hpr' hR
      (by omega) (by rw [qLen_append]; omega) (by simp) (by simp [hl]) (by omega) (by
        have := slice_transfer query _ (qLen A) s _ (refLen W1 - lw) (lw + (len + rw)) hq (by omega)
        have e1 : qLen (A ++ W1) + 0 - lw = qLen A + (refLen W1 - lw) := by rw [qLen_append]; omega
        have e2 : pos - lw = s + (refLen W1 - lw) := by omega
        rw [e1, e2]; exact this)
    exact ⟨_, _, hw⟩

/-! ### the walker's split point for the canonical alignment -/

/-- skipping a prefix that ends strictly before `p` -/
theorem locate_skip_lt (A C : Cigar) (p i rp qp : Nat) (h : rp + refLen A < p) :
    locate p i rp qp (A ++ C) = locate p (i + A.length) (rp + refLen A) (qp + qLen A) C := by
  induction A generalizing i rp qp with
  | nil => simp [refLen, qLen]
  | cons x rest ih =>
    obtain ⟨op, l⟩ := x
    simp only [refLen] at h
    simp only [List.cons_append]
    have hstep : locate p i rp qp ((op, l) :: (rest ++ C)) =
        locate p (i + 1) (rp + (if consumesRef op then l else 0)) (qp + (if consumesQuery op then l else 0))
          (rest ++ C) := by
      by_cases hr : consumesRef op = true
      · simp only [hr, if_true] at h
        exact locate_step p i rp qp op l _ (by omega) (by omega) (by omega) (by omega)
      · have hr' : consumesRef op = false := by simpa using hr
        have hmm : ¬ isMatch op = true := by intro hm; simp [consumesRef, hm] at hr'
        have h2 : op ≠ 2 := by intro e; subst e; simp [consumesRef] at hr'
        have h3 : op ≠ 3 := by intro e; subst e; simp [consumesRef] at hr'
        simp only [hr', Bool.false_eq_true, if_false, Nat.zero_add] at h
        exact locate_step p i rp qp op l _ (fun h => hmm h.1) (by omega) (fun h => h2 h.1) (fun h => h3 h.1)
    rw [hstep, ih (i + 1) _ _ (by omega)]
    simp only [refLen, qLen, List.length_cons]
    have e1 : i + 1 + rest.length = i + (rest.length + 1) := by omega
    rw [e1, Nat.add_assoc rp, Nat.add_assoc qp]

/-- skipping a run of M/=/X blocks that ends at or before `p` -/
theorem locate_skip_matches (W C : Cigar) (hW : W.all isMatchOp = true) (p i rp qp : Nat) (h : rp + refLen W ≤ p) :
    locate p i rp qp (W ++ C) = locate p (i + W.length) (rp + refLen W) (qp + qLen W) C := by
  induction W generalizing i rp qp with
  | nil => simp [refLen, qLen]
  | cons x rest ih =>
    obtain ⟨op, l⟩ := x
    simp only [List.all_cons, Bool.and_eq_true, isMatchOp] at hW
    have hcr : consumesRef op = true := by simp [consumesRef, hW.1]
    have hcq : consumesQuery op = true := by simp [consumesQuery, hW.1]
    simp only [refLen, hcr, if_true] at h
    have h1 : op ≠ 1 := by intro e; subst e; exact absurd hW.1 (by decide)
    have h2 : op ≠ 2 := by intro e; subst e; exact absurd hW.1 (by decide)
    have h3 : op ≠ 3 := by intro e; subst e; exact absurd hW.1 (by decide)
    simp only [List.cons_append]
    rw [locate_step p i rp qp op l _ (by omega) (fun h => h1 h.1) (fun h => h2 h.1) (fun h => h3 h.1),
      ih hW.2 (i + 1) _ _ (by simp only [hcr, if_true]; omega)]
    simp only [refLen, qLen, List.length_cons, hcr, hcq, if_true]
    have e1 : i + 1 + rest.length = i + (rest.length + 1) := by omega
    rw [e1, Nat.add_assoc rp, Nat.add_assoc qp]

/-- the walker's split point for the canonical alignment: the operation the variant position lies in (an M/=/X block,
the variant's deletion, the variant's insertion), given at least one matched base (the anchor) before it -/
theorem locate_canonical (A W1 C : Cigar) (op len d pos start : Nat) (hW1 : W1.all isMatchOp = true)
    (hop : (isMatch op = true ∧ d < len) ∨ (op = 2 ∧ d = 0 ∧ 0 < len) ∨ (op = 1 ∧ d = 0))
    (hpos : pos = start + refLen A + refLen W1 + d) (hanch : 0 < refLen W1 + d) :
    locate pos 0 start 0 (A ++ W1 ++ (op, len) :: C) = some ((A ++ W1).length, d, qLen (A ++ W1) + d) := by
  rw [List.append_assoc, locate_skip_lt A _ pos 0 start 0 (by omega),
    locate_skip_matches W1 _ hW1 pos _ _ _ (by omega)]
  simp only [Nat.zero_add, List.length_append, qLen_append]
  rcases hop with ⟨hm, hd⟩ | ⟨rfl, rfl, h0⟩ | ⟨rfl, rfl⟩
  · have : start + refLen A + refLen W1 ≤ pos ∧ pos < start + refLen A + refLen W1 + len := by omega
    simp only [locate, hm, this, and_self, if_true]
    try simp only [Option.some.injEq, Prod.mk.injEq]
    refine ⟨?_, ?_, ?_⟩ <;> first | trivial | omega
  · have hm : isMatch 2 = false := by decide
    have : start + refLen A + refLen W1 ≤ pos ∧ pos < start + refLen A + refLen W1 + len := by omega
    have h21 : ((2 : Nat) == 1) = false := by decide
    simp only [locate, hm, this, and_self, if_true, Bool.false_eq_true, if_false, beq_self_eq_true, h21]
    try simp only [Option.some.injEq, Prod.mk.injEq]
    refine ⟨?_, ?_, ?_⟩ <;> first | trivial | omega
  · have hm : isMatch 1 = false := by decide
    have : pos = start + refLen A + refLen W1 := by omega
    simp only [locate, hm, this, if_true, Bool.false_eq_true, if_false, beq_self_eq_true]
    try simp only [Option.some.injEq, Prod.mk.injEq]
    refine ⟨?_, ?_, ?_⟩ <;> first | trivial | omega

end WhVerif.C06

import WhVerif.Model.C11
import WhVerif.Spec.C11
import WhVerif.Lemmas.C11Perms
/-!
Polyploid switch/flip calculator: the un-pruned dynamic program (`polyCompareFull`, the recurrences of
`switchflipcalculator.cpp` with nothing erased) returns the minimum of the brute-force objective over ALL
sequences of permutations (Viterbi argument: lower bound + attainment, by induction on the positions).
Core Lean only.
-/
namespace WhVerif.C11

/-! ### `listMin` -/

theorem foldl_min_le_init (l : List Nat) (a : Nat) : l.foldl min a ≤ a := by
  induction l generalizing a with
  | nil => simp
  | cons b t ih => simp only [List.foldl_cons]; exact Nat.le_trans (ih _) (Nat.min_le_left _ _)

theorem foldl_min_le_mem (l : List Nat) (a x : Nat) (h : x ∈ l) : l.foldl min a ≤ x := by
  induction l generalizing a with
  | nil => cases h
  | cons b t ih =>
    simp only [List.foldl_cons]
    rcases List.mem_cons.1 h with rfl | h
    · exact Nat.le_trans (foldl_min_le_init _ _) (Nat.min_le_right _ _)
    · exact ih _ h

theorem foldl_min_mem (l : List Nat) (a : Nat) : l.foldl min a = a ∨ l.foldl min a ∈ l := by
  induction l generalizing a with
  | nil => simp
  | cons b t ih =>
    simp only [List.foldl_cons]
    rcases ih (min a b) with h | h
    · rw [h]
      rcases Nat.le_total a b with hab | hab
      · left; exact Nat.min_eq_left hab
      · right; rw [Nat.min_eq_right hab]; exact List.mem_cons_self
    · right; exact List.mem_cons_of_mem _ h

theorem listMin_le_of_mem {l : List Nat} {x : Nat} (h : x ∈ l) : listMin l ≤ x := by
  cases l with
  | nil => cases h
  | cons a t =>
    simp only [listMin]
    rcases List.mem_cons.1 h with rfl | h
    · exact foldl_min_le_init _ _
    · exact foldl_min_le_mem _ _ _ h

theorem listMin_mem {l : List Nat} (h : l ≠ []) : listMin l ∈ l := by
  cases l with
  | nil => exact absurd rfl h
  | cons a t =>
    simp only [listMin]
    rcases foldl_min_mem t a with h | h
    · rw [h]; exact List.mem_cons_self
    · exact List.mem_cons_of_mem _ h

theorem listMin_eq_of {l : List Nat} {m : Nat} (hm : m ∈ l) (hle : ∀ x ∈ l, m ≤ x) : listMin l = m := by
  have h1 := listMin_le_of_mem hm
  have h2 := hle _ (listMin_mem (List.ne_nil_of_mem hm))
  omega

/-! ### the recurrences as functions on scores -/

/-- cost of continuing from permutation `q` through the permutations `s` at the positions `cols` -/
def chainCost (sc fc : Nat) : Perm → List Perm → List (List Nat × List Nat) → Nat
  | q, r :: s, (c0, c1) :: cs => sc * numSwitches r q + fc * numFlips r c0 c1 + chainCost sc fc r s cs
  | _, _, _ => 0

/-- score of `r` in the next (un-pruned) column, from the scores `w` of the previous one -/
def stepW (ps : List Perm) (sc fc : Nat) (w : Perm → Nat) (c : List Nat × List Nat) (r : Perm) : Nat :=
  listMin (ps.map fun q => w q + sc * numSwitches r q) + fc * numFlips r c.1 c.2

def runW (ps : List Perm) (sc fc : Nat) : (Perm → Nat) → List (List Nat × List Nat) → (Perm → Nat)
  | w, [] => w
  | w, c :: cs => runW ps sc fc (stepW ps sc fc w c) cs

/-- lower bound: the final minimum is below the cost of every path -/
theorem runW_le (ps : List Perm) (sc fc : Nat) (w : Perm → Nat) (cols : List (List Nat × List Nat))
    (q : Perm) (hq : q ∈ ps) (s : List Perm) (hs : ∀ r ∈ s, r ∈ ps) (hlen : s.length = cols.length) :
    listMin (ps.map (runW ps sc fc w cols)) ≤ w q + chainCost sc fc q s cols := by
  induction cols generalizing w q s with
  | nil =>
    cases s with
    | nil =>
      simp only [runW, chainCost, Nat.add_zero]
      exact listMin_le_of_mem (List.mem_map.2 ⟨q, hq, rfl⟩)
    | cons _ _ => simp at hlen
  | cons c cs ih =>
    cases s with
    | nil => simp at hlen
    | cons r s =>
      obtain ⟨c0, c1⟩ := c
      have hr : r ∈ ps := hs r List.mem_cons_self
      have := ih (stepW ps sc fc w (c0, c1)) r hr s (fun x hx => hs x (List.mem_cons_of_mem _ hx))
        (by simpa using hlen)
      simp only [runW, chainCost]
      refine Nat.le_trans this ?_
      have hstep : stepW ps sc fc w (c0, c1) r ≤ w q + sc * numSwitches r q + fc * numFlips r c0 c1 := by
        simp only [stepW]
        have : listMin (ps.map fun q => w q + sc * numSwitches r q) ≤ w q + sc * numSwitches r q :=
          listMin_le_of_mem (List.mem_map.2 ⟨q, hq, rfl⟩)
        omega
      omega

/-- attainment: some path realises the final minimum -/
theorem runW_attained (ps : List Perm) (hne : ps ≠ []) (sc fc : Nat) (w : Perm → Nat)
    (cols : List (List Nat × List Nat)) :
    ∃ q ∈ ps, ∃ s : List Perm, (∀ r ∈ s, r ∈ ps) ∧ s.length = cols.length ∧
      listMin (ps.map (runW ps sc fc w cols)) = w q + chainCost sc fc q s cols := by
  induction cols generalizing w with
  | nil =>
    have hm := listMin_mem (l := ps.map (runW ps sc fc w [])) (by simpa using hne)
    obtain ⟨q, hq, hqe⟩ := List.mem_map.1 hm
    exact ⟨q, hq, [], by simp, rfl, by simp [chainCost, runW] at hqe ⊢; exact hqe.symm⟩
  | cons c cs ih =>
    obtain ⟨c0, c1⟩ := c
    obtain ⟨r, hr, s, hs, hlen, heq⟩ := ih (stepW ps sc fc w (c0, c1))
    have hm := listMin_mem (l := ps.map fun q => w q + sc * numSwitches r q) (by simpa using hne)
    obtain ⟨q, hq, hqe⟩ := List.mem_map.1 hm
    refine ⟨q, hq, r :: s, ?_, by simp [hlen], ?_⟩
    · intro x hx
      rcases List.mem_cons.1 hx with rfl | hx
      · exact hr
      · exact hs x hx
    · simp only [runW, chainCost]
      rw [heq]
      simp only [stepW]
      omega

/-! ### all sequences and the brute-force objective -/

theorem mem_seqs (bs : List Perm) (n : Nat) (s : List Perm) :
    s ∈ Spec.seqs bs n ↔ s.length = n ∧ ∀ r ∈ s, r ∈ bs := by
  induction n generalizing s with
  | zero =>
    simp only [Spec.seqs, List.mem_singleton]
    constructor
    · rintro rfl; simp
    · rintro ⟨h, _⟩; exact List.length_eq_zero_iff.1 h
  | succ k ih =>
    simp only [Spec.seqs, List.mem_flatMap, List.mem_map]
    constructor
    · rintro ⟨b, hb, t, ht, rfl⟩
      obtain ⟨h1, h2⟩ := (ih t).1 ht
      refine ⟨by simp [h1], ?_⟩
      intro r hr
      rcases List.mem_cons.1 hr with rfl | hr
      · exact hb
      · exact h2 r hr
    · rintro ⟨hl, hall⟩
      cases s with
      | nil => simp at hl
      | cons b t =>
        exact ⟨b, hall b List.mem_cons_self, t,
          (ih t).2 ⟨by simpa using hl, fun r hr => hall r (List.mem_cons_of_mem _ hr)⟩, rfl⟩

/-- cost of a whole sequence = first-column flips + chain -/
theorem seq_cost_eq (sc fc : Nat) (q : Perm) (s : List Perm) (c0 c1 : List Nat) (cs : List (List Nat × List Nat))
    (hlen : s.length = cs.length) :
    sc * Spec.seqSwitches (q :: s) + fc * Spec.seqFlips (q :: s) ((c0, c1) :: cs)
      = fc * numFlips q c0 c1 + chainCost sc fc q s cs := by
  induction s generalizing q c0 c1 cs with
  | nil =>
    cases cs with
    | nil => simp [Spec.seqSwitches, Spec.seqFlips, chainCost]
    | cons _ _ => simp at hlen
  | cons r s ih =>
    cases cs with
    | nil => simp at hlen
    | cons c cs =>
      obtain ⟨d0, d1⟩ := c
      have := ih r d0 d1 cs (by simpa using hlen)
      simp only [Spec.seqSwitches, Spec.seqFlips, chainCost] at this ⊢
      have hsym : hamming q r = numSwitches r q := by simp [numSwitches, hamming_comm_poly]
      rw [hsym]
      simp only [Nat.mul_add] at this ⊢
      omega
where
  hamming_comm_poly : ∀ (s t : List Nat), hamming s t = hamming t s := by
    intro s
    induction s with
    | nil => intro t; cases t <;> simp [hamming]
    | cons a s ih =>
      intro t
      cases t with
      | nil => simp [hamming]
      | cons b t => simp [hamming, ih t, eq_comm]

/-! ### the entry-list model computes `runW` -/

/-- the column `col` holds exactly the permutations `ps` (in order) with the scores `w` -/
def Tracks (col : List Entry) (ps : List Perm) (w : Perm → Nat) : Prop :=
  col.map (·.perm) = ps ∧ ∀ e ∈ col, e.score = w e.perm

theorem Tracks.scores {col : List Entry} {ps : List Perm} {w : Perm → Nat} (h : Tracks col ps w)
    (f : Perm → Nat → Nat) : col.map (fun e => f e.perm e.score) = ps.map (fun q => f q (w q)) := by
  rw [← h.1, List.map_map]
  apply List.map_congr_left
  intro e he
  simp [h.2 e he]

theorem firstColumn_tracks (ps : List Perm) (fc : Nat) (c0 c1 : List Nat) :
    Tracks (firstColumn ps fc c0 c1) ps (fun π => fc * numFlips π c0 c1) := by
  constructor
  · simp [firstColumn, List.map_map, Function.comp_def]
  · intro e he
    simp only [firstColumn, List.mem_map] at he
    obtain ⟨π, _, rfl⟩ := he
    rfl

theorem fullColumn_tracks (ps : List Perm) (sc fc : Nat) (prev : List Entry) (w : Perm → Nat) (c0 c1 : List Nat)
    (h : Tracks prev ps w) :
    Tracks (fullColumn ps sc fc prev c0 c1) ps (stepW ps sc fc w (c0, c1)) := by
  constructor
  · simp [fullColumn, List.map_map, Function.comp_def]
  · intro e he
    simp only [fullColumn, List.mem_map] at he
    obtain ⟨r, _, rfl⟩ := he
    simp only [stepW]
    rw [h.scores (fun q s => s + sc * numSwitches r q)]

theorem runColumnsFull_tracks (ps : List Perm) (sc fc : Nat) (col : List Entry) (w : Perm → Nat)
    (rest : List (List Nat × List Nat)) (h : Tracks col ps w) :
    Tracks (runColumnsFull ps sc fc col rest) ps (runW ps sc fc w rest) := by
  induction rest generalizing col w with
  | nil => exact h
  | cons c cs ih =>
    obtain ⟨c0, c1⟩ := c
    simp only [runColumnsFull, runW]
    exact ih _ _ (fullColumn_tracks ps sc fc col w c0 c1 h)

/-- the un-pruned DP returns the minimum cost over all sequences of elements of `perms p` -/
theorem polyCompareFull_cost (p sc fc : Nat) (hne : perms p ≠ []) (cols : List (List Nat × List Nat)) :
    (polyCompareFull p sc fc cols).1
      = listMin ((Spec.seqs (perms p) cols.length).map
          fun s => sc * Spec.seqSwitches s + fc * Spec.seqFlips s cols) := by
  cases cols with
  | nil => simp [polyCompareFull, Spec.seqs, Spec.seqSwitches, Spec.seqFlips, listMin]
  | cons c rest =>
    obtain ⟨c0, c1⟩ := c
    have ht := runColumnsFull_tracks (perms p) sc fc _ _ rest (firstColumn_tracks (perms p) fc c0 c1)
    have hcost : (polyCompareFull p sc fc ((c0, c1) :: rest)).1
        = listMin ((perms p).map (runW (perms p) sc fc (fun π => fc * numFlips π c0 c1) rest)) := by
      simp only [polyCompareFull]
      have := ht.scores (fun _ s => s)
      rw [← this]
    rw [hcost]
    symm
    apply listMin_eq_of
    · -- attained
      obtain ⟨q, hq, s, hs, hlen, heq⟩ := runW_attained (perms p) hne sc fc (fun π => fc * numFlips π c0 c1) rest
      refine List.mem_map.2 ⟨q :: s, ?_, ?_⟩
      · refine (mem_seqs _ _ _).2 ⟨by simp [hlen], ?_⟩
        intro r hr
        rcases List.mem_cons.1 hr with rfl | hr
        · exact hq
        · exact hs r hr
      · rw [seq_cost_eq sc fc q s c0 c1 rest hlen, heq]
    · -- lower bound
      intro x hx
      obtain ⟨s, hs, rfl⟩ := List.mem_map.1 hx
      obtain ⟨hl, hall⟩ := (mem_seqs _ _ _).1 hs
      cases s with
      | nil => simp at hl
      | cons q s =>
        have hlen : s.length = rest.length := by simpa using hl
        rw [seq_cost_eq sc fc q s c0 c1 rest hlen]
        exact runW_le (perms p) sc fc _ rest q (hall q List.mem_cons_self) s
          (fun r hr => hall r (List.mem_cons_of_mem _ hr)) hlen

end WhVerif.C11

import WhVerif.Lemmas.C05
/-!
# Finite tables for C05 (3 genotypes per member; every order of the family members in the pedigree)
-/
namespace WhVerif.C05.T
open WhVerif.C05 WhVerif.C05.L

/-- the three diploid biallelic genotypes as `as_vector()` -/
def G3 : List Gt := [[0, 0], [1, 0], [1, 1]]

/-- all placements (father, mother, child) of a trio on the individual indices 0..2 -/
def perms3 : List (Nat × Nat × Nat) := [(0, 1, 2), (0, 2, 1), (1, 0, 2), (1, 2, 0), (2, 0, 1), (2, 1, 0)]

def ped3 (a : Nat × Nat × Nat) : Ped := ⟨3, [a]⟩

def gts3 (a : Nat × Nat × Nat) (gf gm gc : Gt) : List Gt :=
  (List.range 3).map (fun i => if i = a.1 then gf else if i = a.2.1 then gm else gc)

/-- all placements (father, mother, child1, child2) of a quartet on the indices 0..3 -/
def perms4 : List (Nat × Nat × Nat × Nat) :=
  (List.range 4).flatMap fun a => (List.range 4).flatMap fun b => (List.range 4).flatMap fun c =>
    (List.range 4).filterMap fun d =>
      if a ≠ b ∧ a ≠ c ∧ a ≠ d ∧ b ≠ c ∧ b ≠ d ∧ c ≠ d then some (a, b, c, d) else none

def ped4 (a : Nat × Nat × Nat × Nat) : Ped := ⟨4, [(a.1, a.2.1, a.2.2.1), (a.1, a.2.1, a.2.2.2)]⟩

def gts4 (a : Nat × Nat × Nat × Nat) (gf gm g1 g2 : Gt) : List Gt :=
  (List.range 4).map (fun i => if i = a.1 then gf else if i = a.2.1 then gm else if i = a.2.2.1 then g1 else g2)

set_option maxRecDepth 100000 in
/-- trio: for EVERY transmission value, an admissible assignment exists iff there is no Mendelian conflict -/
theorem trio_table : ∀ a ∈ perms3, ∀ gf ∈ G3, ∀ gm ∈ G3, ∀ gc ∈ G3, ∀ t ∈ List.range 4,
    (mendelianConflict gm gf gc = some false ↔ admissible (ped3 a) t (gts3 a gf gm gc) ≠ []) := by
  decide +kernel

/-! quartet: explicit witnesses for the "no conflict ⇒ feasible" direction -/

/-- parental haplotypes (low allele first) -/
def hapsOf (g : Gt) : Nat × Nat := (g.getD 1 0, g.getD 0 0)

/-- (father's haplotype index, mother's haplotype index) transmitted to a child of genotype `gc` -/
def transOf (gf gm gc : Gt) : Nat × Nat :=
  let hi := gc.getD 0 0; let lo := gc.getD 1 0
  let xy := if gf.contains hi && gm.contains lo then (hi, lo) else (lo, hi)
  (if (hapsOf gf).1 = xy.1 then 0 else 1, if (hapsOf gm).1 = xy.2 then 0 else 1)

/-- witness transmission value: bit = 1 - haplotype index -/
def witT (gf gm g1 g2 : Gt) : Nat :=
  let t1 := transOf gf gm g1; let t2 := transOf gf gm g2
  (1 - t1.1) + 2 * (1 - t1.2) + 4 * (1 - t2.1) + 8 * (1 - t2.2)

/-- witness assignment: parental alleles on the parents' partitions (roots in index order) -/
def witAsg (a : Nat × Nat × Nat × Nat) (gf gm : Gt) : Nat :=
  let rf := if a.1 < a.2.1 then 0 else 1
  let rm := 1 - rf
  (hapsOf gf).1 * 2 ^ (2 * rf) + (hapsOf gf).2 * 2 ^ (2 * rf + 1)
    + (hapsOf gm).1 * 2 ^ (2 * rm) + (hapsOf gm).2 * 2 ^ (2 * rm + 1)

set_option maxRecDepth 100000 in
theorem quartet_witness_table : ∀ a ∈ perms4, ∀ gf ∈ G3, ∀ gm ∈ G3, ∀ g1 ∈ G3, ∀ g2 ∈ G3,
    mendelianConflict gm gf g1 = some false → mendelianConflict gm gf g2 = some false →
    (witT gf gm g1 g2 < 16 ∧ witAsg a gf gm < 16 ∧
      compatible (ped4 a) (witT gf gm g1 g2) (gts4 a gf gm g1 g2) (witAsg a gf gm) = true) := by
  decide +kernel

theorem quartet_shape : ∀ a ∈ perms4,
    tripleIndex (ped4 a) a.2.2.1 = some 0 ∧ tripleIndex (ped4 a) a.2.2.2 = some 1 ∧
    a.1 < 4 ∧ a.2.1 < 4 ∧ a.2.2.1 < 4 ∧ a.2.2.2 < 4 := by
  decide +kernel

theorem quartet_gts : ∀ a ∈ perms4, ∀ gf ∈ G3, ∀ gm ∈ G3, ∀ g1 ∈ G3, ∀ g2 ∈ G3,
    (gts4 a gf gm g1 g2)[a.1]? = some gf ∧ (gts4 a gf gm g1 g2)[a.2.1]? = some gm ∧
    (gts4 a gf gm g1 g2)[a.2.2.1]? = some g1 ∧ (gts4 a gf gm g1 g2)[a.2.2.2]? = some g2 := by
  decide +kernel

/-- two-child quartet: some transmission value has an admissible assignment iff neither child's trio has a
Mendelian conflict -/
theorem quartet_feasible_iff : ∀ a ∈ perms4, ∀ gf ∈ G3, ∀ gm ∈ G3, ∀ g1 ∈ G3, ∀ g2 ∈ G3,
    ((mendelianConflict gm gf g1 = some false ∧ mendelianConflict gm gf g2 = some false) ↔
      ∃ t, t < 16 ∧ admissible (ped4 a) t (gts4 a gf gm g1 g2) ≠ []) := by
  intro a ha gf hgf gm hgm g1 hg1 g2 hg2
  constructor
  · rintro ⟨h1, h2⟩
    obtain ⟨ht, hasg, hc⟩ := quartet_witness_table a ha gf hgf gm hgm g1 hg1 g2 hg2 h1 h2
    refine ⟨_, ht, ?_⟩
    have : witAsg a gf gm ∈ admissible (ped4 a) (witT gf gm g1 g2) (gts4 a gf gm g1 g2) :=
      mem_admissible.mpr ⟨hasg, hc⟩
    intro hnil; rw [hnil] at this; cases this
  · rintro ⟨t, _, hne⟩
    obtain ⟨asg, hasg⟩ := List.exists_mem_of_ne_nil _ hne
    have hc := (mem_admissible.mp hasg).2
    obtain ⟨hk1, hk2, hf, hm, hc1, hc2⟩ := quartet_shape a ha
    obtain ⟨e1, e2, e3, e4⟩ := quartet_gts a ha gf hgf gm hgm g1 hg1 g2 hg2
    constructor
    · obtain ⟨gc', gf', gm', x1, x2, x3, hcf⟩ :=
        compatible_no_conflict (c' := a.2.2.1) hc hk1 (by rfl) hc1 hf hm
      rw [e3] at x1; rw [e1] at x2; rw [e2] at x3
      cases x1; cases x2; cases x3; exact hcf
    · obtain ⟨gc', gf', gm', x1, x2, x3, hcf⟩ :=
        compatible_no_conflict (c' := a.2.2.2) hc hk2 (by rfl) hc2 hf hm
      rw [e4] at x1; rw [e1] at x2; rw [e2] at x3
      cases x1; cases x2; cases x3; exact hcf

end WhVerif.C05.T

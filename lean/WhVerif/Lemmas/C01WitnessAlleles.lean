import WhVerif.Model.C01Witness
import WhVerif.Lemmas.MinLemmas
/-!
# C01, super reads: the tie flag of `get_alleles` (`getAlleles`) is exact. Core Lean only.

For a column `c`, a bipartition of its active reads `bs` and a transmission value `t`:
* `getAlleles` throws (`none`) iff there is no genotype-compatible allele assignment (`getAlleles_none_iff`);
* a reported allele `a ≠ 3` is the allele that EVERY cost-optimal admissible assignment gives to that haplotype,
  and an allele `3` (`EQUAL_SCORES`) is reported iff cost-optimal assignments with allele 0 and with allele 1
  both exist (`nontie_forced`), equivalently iff the best cost with allele 0 equals the best cost with allele 1
  (`tie_iff_equal_minima`).
-/
namespace WhVerif.C01
open WhVerif.Cost

/-! ### the pieces of `getAlleles`, named -/

def candsOf (I : Inst) (c : Nat) (bs : List Bool) (t : Nat) : List (Nat × Nat) :=
  (assignments I c t).map (fun ag => (ag.1, ag.2 + viewCost I c t ag.1 bs))

def bestOf (cands : List (Nat × Nat)) : Nat := (cands.map (·.2)).foldl min (cands.head!.2)

def bestAOf (cands : List (Nat × Nat)) : Nat :=
  ((cands.filter (fun ac => ac.2 == bestOf cands)).getLast?.map (·.1)).getD 0

/-- best cost over the candidates whose partition `p` carries allele `b` -/
def sideMin (cands : List (Nat × Nat)) (p b : Nat) : Option Nat :=
  minOver (cands.filter (fun ac => bitOf ac.1 p == b)) (fun ac => some ac.2)

def hapAllele (I : Inst) (c : Nat) (bs : List Bool) (t ind h : Nat) : Nat :=
  let cands := candsOf I c bs t
  let p := h2p I t ind h
  if sideMin cands p 0 == sideMin cands p 1 then 3 else bitOf (bestAOf cands) p

theorem getAlleles_none_iff (I : Inst) (c : Nat) (bs : List Bool) (t : Nat) :
    getAlleles I c bs t = none ↔ assignments I c t = [] := by
  unfold getAlleles
  cases h : assignments I c t with
  | nil => simp
  | cons a l => simp

theorem getAlleles_eq (I : Inst) (c : Nat) (bs : List Bool) (t : Nat) (h : assignments I c t ≠ []) :
    getAlleles I c bs t = some ((List.range I.nind).map (fun ind =>
      (hapAllele I c bs t ind 0, hapAllele I c bs t ind 1))) := by
  unfold getAlleles hapAllele sideMin bestAOf bestOf candsOf
  cases h' : assignments I c t with
  | nil => exact absurd h' h
  | cons a l => rfl

/-! ### minima -/

theorem foldl_min_eq (l : List Nat) (x : Nat) : some (l.foldl min x) = cmin (some x) (minOver l some) := by
  induction l generalizing x with
  | nil => simp
  | cons a l ih =>
    simp only [List.foldl_cons, minOver_cons]
    rw [ih, ← cmin_assoc]
    rfl

theorem bestOf_eq (cands : List (Nat × Nat)) (h : cands ≠ []) :
    some (bestOf cands) = minOver cands (fun ac => some ac.2) := by
  cases cands with
  | nil => exact absurd rfl h
  | cons x xs =>
    unfold bestOf
    rw [foldl_min_eq, minOver_map]
    simp only [List.head!, minOver_cons, ← cmin_assoc]
    congr 1
    simp [cmin]

theorem minOver_filter_ge {α} (l : List α) (P : α → Bool) (f : α → Option Nat) :
    cle (minOver l f) (minOver (l.filter P) f) := by
  rcases (minOver_isMin (l.filter P) f).att with e | ⟨x, hx, e⟩
  · rw [e]; cases minOver l f <;> simp [cle]
  · rw [← e]
    exact (minOver_isMin l f).lb x ((List.mem_filter.mp hx).1)

theorem colCost_eq_cands (I : Inst) (c : Nat) (bs : List Bool) (t : Nat) :
    colCost I c bs t = minOver (candsOf I c bs t) (fun ac => some ac.2) := by
  unfold colCost candsOf
  rw [minOver_map]

/-- a candidate of overall-minimal cost makes its side's minimum the overall minimum -/
theorem sideMin_of_opt (cands : List (Nat × Nat)) (p : Nat) (ac : Nat × Nat) (hac : ac ∈ cands)
    (hopt : some ac.2 = minOver cands (fun ac => some ac.2)) :
    sideMin cands p (bitOf ac.1 p) = minOver cands (fun ac => some ac.2) := by
  apply cle_antisymm
  · rw [← hopt]
    exact (minOver_isMin _ (fun ac : Nat × Nat => some ac.2)).lb ac (by simp [List.mem_filter, hac])
  · exact minOver_filter_ge _ _ _

theorem bestA_spec (cands : List (Nat × Nat)) (h : cands ≠ []) :
    ∃ ac ∈ cands, ac.1 = bestAOf cands ∧ some ac.2 = minOver cands (fun ac => some ac.2) := by
  have hb := bestOf_eq cands h
  rcases (minOver_isMin cands (fun ac : Nat × Nat => some ac.2)).att with e | ⟨x, hx, e⟩
  · rw [e] at hb; cases hb
  · have hx2 : x.2 = bestOf cands := by
      rw [← hb] at e; exact Option.some.inj e
    have hmem : x ∈ cands.filter (fun ac => ac.2 == bestOf cands) := by
      simp [List.mem_filter, hx, hx2]
    have hne : cands.filter (fun ac => ac.2 == bestOf cands) ≠ [] := List.ne_nil_of_mem hmem
    have hlast := List.getLast?_eq_some_getLast hne
    have hin := List.getLast_mem hne
    refine ⟨_, (List.mem_filter.mp hin).1, ?_, ?_⟩
    · unfold bestAOf; rw [hlast]; rfl
    · have := (List.mem_filter.mp hin).2
      simp only [beq_iff_eq] at this
      rw [this, hb]

theorem bitOf_lt (x p : Nat) : bitOf x p = 0 ∨ bitOf x p = 1 := by
  unfold bitOf; omega

theorem hapAllele_cases (I : Inst) (c : Nat) (bs : List Bool) (t ind h : Nat) :
    (hapAllele I c bs t ind h = 3 ∧
        sideMin (candsOf I c bs t) (h2p I t ind h) 0 = sideMin (candsOf I c bs t) (h2p I t ind h) 1) ∨
    (hapAllele I c bs t ind h = bitOf (bestAOf (candsOf I c bs t)) (h2p I t ind h) ∧
        hapAllele I c bs t ind h ≠ 3 ∧
        sideMin (candsOf I c bs t) (h2p I t ind h) 0 ≠ sideMin (candsOf I c bs t) (h2p I t ind h) 1) := by
  unfold hapAllele
  simp only
  by_cases he : sideMin (candsOf I c bs t) (h2p I t ind h) 0 = sideMin (candsOf I c bs t) (h2p I t ind h) 1
  · left; simp [he]
  · right
    have : (sideMin (candsOf I c bs t) (h2p I t ind h) 0 == sideMin (candsOf I c bs t) (h2p I t ind h) 1) = false := by
      simpa using he
    rw [this]
    refine ⟨by simp, ?_, he⟩
    simp only [Bool.false_eq_true, if_false]
    rcases bitOf_lt (bestAOf (candsOf I c bs t)) (h2p I t ind h) with e | e <;> rw [e] <;> decide

/-- the set of cost-optimal admissible assignments of a column -/
def IsOptAssign (I : Inst) (c : Nat) (bs : List Bool) (t : Nat) (ag : Nat × Nat) : Prop :=
  ag ∈ assignments I c t ∧ some (ag.2 + viewCost I c t ag.1 bs) = colCost I c bs t

theorem opt_to_cand (I : Inst) (c : Nat) (bs : List Bool) (t : Nat) (ag : Nat × Nat)
    (h : IsOptAssign I c bs t ag) :
    (ag.1, ag.2 + viewCost I c t ag.1 bs) ∈ candsOf I c bs t ∧
      some (ag.2 + viewCost I c t ag.1 bs) = minOver (candsOf I c bs t) (fun ac => some ac.2) := by
  refine ⟨?_, by rw [← colCost_eq_cands]; exact h.2⟩
  unfold candsOf
  exact List.mem_map.mpr ⟨ag, h.1, rfl⟩

theorem cand_to_opt (I : Inst) (c : Nat) (bs : List Bool) (t : Nat) (ac : Nat × Nat)
    (hac : ac ∈ candsOf I c bs t) (hopt : some ac.2 = minOver (candsOf I c bs t) (fun ac => some ac.2)) :
    ∃ ag, IsOptAssign I c bs t ag ∧ ag.1 = ac.1 := by
  unfold candsOf at hac
  obtain ⟨ag, hag, rfl⟩ := List.mem_map.mp hac
  exact ⟨ag, ⟨hag, by rw [colCost_eq_cands]; exact hopt⟩, rfl⟩

/-- **exactness of the tie flag** of one haplotype allele, in terms of `hapAllele` -/
theorem hapAllele_spec (I : Inst) (c : Nat) (bs : List Bool) (t ind h : Nat) (hne : assignments I c t ≠ []) :
    (hapAllele I c bs t ind h = 0 ∨ hapAllele I c bs t ind h = 1 ∨ hapAllele I c bs t ind h = 3) ∧
    (hapAllele I c bs t ind h ≠ 3 → ∀ ag, IsOptAssign I c bs t ag →
        bitOf ag.1 (h2p I t ind h) = hapAllele I c bs t ind h) ∧
    (hapAllele I c bs t ind h = 3 →
        (∃ ag, IsOptAssign I c bs t ag ∧ bitOf ag.1 (h2p I t ind h) = 0) ∧
        (∃ ag, IsOptAssign I c bs t ag ∧ bitOf ag.1 (h2p I t ind h) = 1)) := by
  have hcne : candsOf I c bs t ≠ [] := by
    unfold candsOf; simpa using hne
  obtain ⟨acA, hacA, hA1, hA2⟩ := bestA_spec _ hcne
  have hsideA := sideMin_of_opt _ (h2p I t ind h) acA hacA hA2
  rw [hA1] at hsideA
  rcases hapAllele_cases I c bs t ind h with ⟨h3, heq⟩ | ⟨hb, hn3, hneq⟩
  · refine ⟨Or.inr (Or.inr h3), fun hn => absurd h3 hn, fun _ => ?_⟩
    -- both sides equal the overall minimum, which is finite
    have hboth : ∀ b, b = 0 ∨ b = 1 → sideMin (candsOf I c bs t) (h2p I t ind h) b
        = minOver (candsOf I c bs t) (fun ac => some ac.2) := by
      intro b hb
      rcases bitOf_lt (bestAOf (candsOf I c bs t)) (h2p I t ind h) with e | e <;> rw [e] at hsideA <;>
        rcases hb with rfl | rfl
      · exact hsideA
      · rw [← heq]; exact hsideA
      · rw [heq]; exact hsideA
      · exact hsideA
    have hatt : ∀ b, b = 0 ∨ b = 1 → ∃ ag, IsOptAssign I c bs t ag ∧ bitOf ag.1 (h2p I t ind h) = b := by
      intro b hb
      have hs := hboth b hb
      rcases (minOver_isMin ((candsOf I c bs t).filter (fun ac => bitOf ac.1 (h2p I t ind h) == b))
          (fun ac : Nat × Nat => some ac.2)).att with e | ⟨x, hx, e⟩
      · unfold sideMin at hs
        rw [e, ← hA2] at hs; cases hs
      · have hx' := List.mem_filter.mp hx
        unfold sideMin at hs
        obtain ⟨ag, hag, hag1⟩ := cand_to_opt I c bs t x hx'.1 (by rw [← hs]; exact e)
        refine ⟨ag, hag, ?_⟩
        rw [hag1]; simpa using hx'.2
    exact ⟨hatt 0 (Or.inl rfl), hatt 1 (Or.inr rfl)⟩
  · refine ⟨?_, fun _ ag hag => ?_, fun h3 => absurd h3 hn3⟩
    · rw [hb]
      rcases bitOf_lt (bestAOf (candsOf I c bs t)) (h2p I t ind h) with e | e <;> simp [e]
    · obtain ⟨hmem, hopt⟩ := opt_to_cand I c bs t ag hag
      have hside := sideMin_of_opt _ (h2p I t ind h) _ hmem hopt
      simp only at hside
      rw [hb]
      rcases bitOf_lt (bestAOf (candsOf I c bs t)) (h2p I t ind h) with e | e <;>
        rcases bitOf_lt ag.1 (h2p I t ind h) with e' | e' <;> rw [e] at hsideA ⊢ <;> rw [e'] at hside ⊢
      · exact absurd (hside.trans hsideA.symm) (fun h => hneq h.symm)
      · exact absurd (hside.trans hsideA.symm) hneq

/-- the allele reported for haplotype `h` of individual `ind` in a `get_alleles` result -/
def reported (L : List (Nat × Nat)) (ind h : Nat) : Nat :=
  if h = 0 then (L.getD ind (0, 0)).1 else (L.getD ind (0, 0)).2

theorem getAlleles_length (I : Inst) (c : Nat) (bs : List Bool) (t : Nat) (L : List (Nat × Nat))
    (hL : getAlleles I c bs t = some L) : L.length = I.nind := by
  have hne : assignments I c t ≠ [] := by
    intro h; rw [(getAlleles_none_iff I c bs t).mpr h] at hL; cases hL
  rw [getAlleles_eq I c bs t hne] at hL
  cases hL; simp

theorem reported_eq (I : Inst) (c : Nat) (bs : List Bool) (t : Nat) (L : List (Nat × Nat))
    (hL : getAlleles I c bs t = some L) (ind h : Nat) (hind : ind < I.nind) (hh : h = 0 ∨ h = 1) :
    reported L ind h = hapAllele I c bs t ind h := by
  have hne : assignments I c t ≠ [] := by
    intro h; rw [(getAlleles_none_iff I c bs t).mpr h] at hL; cases hL
  rw [getAlleles_eq I c bs t hne] at hL
  cases hL
  unfold reported
  rcases hh with rfl | rfl <;> simp [List.getD_eq_getElem?_getD, hind]

/-- **Non-tie alleles are forced; tie flags are exact.**  If `get_alleles` (column `c`, active-read bipartition
`bs`, transmission value `t`) returns `L`, then for every individual and haplotype the reported allele `a` is
0, 1 or 3; if `a ≠ 3`, EVERY cost-optimal admissible allele assignment of the column gives allele `a` to the
partition of that haplotype; if `a = 3`, there are cost-optimal admissible assignments giving it allele 0 and
others giving it allele 1. -/
theorem nontie_forced (I : Inst) (c : Nat) (bs : List Bool) (t : Nat) (L : List (Nat × Nat))
    (hL : getAlleles I c bs t = some L) (ind h : Nat) (hind : ind < I.nind) (hh : h = 0 ∨ h = 1) :
    (reported L ind h = 0 ∨ reported L ind h = 1 ∨ reported L ind h = 3) ∧
    (reported L ind h ≠ 3 → ∀ ag, IsOptAssign I c bs t ag → bitOf ag.1 (h2p I t ind h) = reported L ind h) ∧
    (reported L ind h = 3 →
        (∃ ag, IsOptAssign I c bs t ag ∧ bitOf ag.1 (h2p I t ind h) = 0) ∧
        (∃ ag, IsOptAssign I c bs t ag ∧ bitOf ag.1 (h2p I t ind h) = 1)) := by
  have hne : assignments I c t ≠ [] := by
    intro h; rw [(getAlleles_none_iff I c bs t).mpr h] at hL; cases hL
  rw [reported_eq I c bs t L hL ind h hind hh]
  exact hapAllele_spec I c bs t ind h hne

/-- the tie flag in terms of minima: allele 3 iff the best cost over admissible assignments with allele 0 on
that haplotype's partition equals the best cost over those with allele 1 -/
theorem tie_iff_equal_minima (I : Inst) (c : Nat) (bs : List Bool) (t : Nat) (L : List (Nat × Nat))
    (hL : getAlleles I c bs t = some L) (ind h : Nat) (hind : ind < I.nind) (hh : h = 0 ∨ h = 1) :
    reported L ind h = 3 ↔
      minOver ((assignments I c t).filter (fun ag => bitOf ag.1 (h2p I t ind h) == 0))
          (fun ag => some (ag.2 + viewCost I c t ag.1 bs))
        = minOver ((assignments I c t).filter (fun ag => bitOf ag.1 (h2p I t ind h) == 1))
          (fun ag => some (ag.2 + viewCost I c t ag.1 bs)) := by
  rw [reported_eq I c bs t L hL ind h hind hh]
  have hside : ∀ b, sideMin (candsOf I c bs t) (h2p I t ind h) b
      = minOver ((assignments I c t).filter (fun ag => bitOf ag.1 (h2p I t ind h) == b))
          (fun ag => some (ag.2 + viewCost I c t ag.1 bs)) := by
    intro b
    unfold sideMin candsOf
    rw [List.filter_map, minOver_map]
    rfl
  rw [← hside 0, ← hside 1]
  rcases hapAllele_cases I c bs t ind h with ⟨h3, heq⟩ | ⟨_, hn3, hneq⟩
  · exact ⟨fun _ => heq, fun _ => h3⟩
  · exact ⟨fun h3 => absurd h3 hn3, fun he => absurd he hneq⟩

/-- when `get_alleles` succeeds, a cost-optimal admissible assignment exists (so `nontie_forced` is not vacuous) -/
theorem opt_assign_exists (I : Inst) (c : Nat) (bs : List Bool) (t : Nat) (h : assignments I c t ≠ []) :
    ∃ ag, IsOptAssign I c bs t ag := by
  have hcne : candsOf I c bs t ≠ [] := by
    unfold candsOf; simpa using h
  obtain ⟨ac, hac, _, h2⟩ := bestA_spec _ hcne
  obtain ⟨ag, hag, _⟩ := cand_to_opt I c bs t ac hac h2
  exact ⟨ag, hag⟩

end WhVerif.C01

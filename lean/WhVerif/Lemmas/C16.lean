import WhVerif.Model.C16
/-! Helper lemmas for `Props/C16.lean`: strict total orders, their lexicographic products, and the fact
that a sort by a total order whose ties are equal elements is a function of the multiset. -/
namespace WhVerif.C16

/-- strict total order, Bool-valued -/
structure STO {α} (lt : α → α → Bool) : Prop where
  irrefl : ∀ a, lt a a = false
  trans : ∀ a b c, lt a b = true → lt b c = true → lt a c = true
  tri : ∀ a b, lt a b = true ∨ a = b ∨ lt b a = true

theorem STO.asymm {α} {lt : α → α → Bool} (h : STO lt) (a b : α) : lt a b = true → lt b a = false := by
  intro hab
  cases hba : lt b a with
  | false => rfl
  | true => have := h.trans a b a hab hba; rw [h.irrefl] at this; cases this

/-- the induced non-strict order `¬ (b < a)` is total, transitive, and its ties are equalities -/
theorem STO.le_total {α} {lt : α → α → Bool} (h : STO lt) (a b : α) : (!lt b a || !lt a b) = true := by
  cases hba : lt b a with
  | false => simp
  | true => simp [h.asymm b a hba]

theorem STO.le_trans {α} {lt : α → α → Bool} (h : STO lt) (a b c : α) :
    (!lt b a) = true → (!lt c b) = true → (!lt c a) = true := by
  intro h1 h2
  have h1' : lt b a = false := by simpa using h1
  have h2' : lt c b = false := by simpa using h2
  cases hca : lt c a with
  | false => rfl
  | true =>
    exfalso
    rcases h.tri a b with hab | hab | hab
    · have := h.trans c a b hca hab; rw [h2'] at this; cases this
    · subst hab; rw [h2'] at hca; cases hca
    · rw [h1'] at hab; cases hab

theorem STO.le_antisymm {α} {lt : α → α → Bool} (h : STO lt) (a b : α) :
    (!lt b a) = true → (!lt a b) = true → a = b := by
  intro h1 h2
  rcases h.tri a b with hab | hab | hab
  · simp [hab] at h2
  · exact hab
  · simp [hab] at h1

/-- lexicographic product of two strict total orders -/
def lexLt {α β} [DecidableEq α] (lt₁ : α → α → Bool) (lt₂ : β → β → Bool) (a b : α × β) : Bool :=
  lt₁ a.1 b.1 || (decide (a.1 = b.1) && lt₂ a.2 b.2)

theorem STO.lex {α β} [DecidableEq α] {lt₁ : α → α → Bool} {lt₂ : β → β → Bool} (h₁ : STO lt₁) (h₂ : STO lt₂) :
    STO (lexLt lt₁ lt₂) := by
  constructor
  · intro a; simp [lexLt, h₁.irrefl, h₂.irrefl]
  · intro a b c hab hbc
    simp only [lexLt, Bool.or_eq_true, Bool.and_eq_true, decide_eq_true_eq] at *
    rcases hab with hab | ⟨e1, hab⟩
    · rcases hbc with hbc | ⟨e2, _⟩
      · exact Or.inl (h₁.trans _ _ _ hab hbc)
      · exact Or.inl (e2 ▸ hab)
    · rcases hbc with hbc | ⟨e2, hbc⟩
      · exact Or.inl (e1 ▸ hbc)
      · exact Or.inr ⟨e1.trans e2, h₂.trans _ _ _ hab hbc⟩
  · intro a b
    simp only [lexLt, Bool.or_eq_true, Bool.and_eq_true, decide_eq_true_eq]
    rcases h₁.tri a.1 b.1 with h | h | h
    · exact Or.inl (Or.inl h)
    · rcases h₂.tri a.2 b.2 with h' | h' | h'
      · exact Or.inl (Or.inr ⟨h, h'⟩)
      · exact Or.inr (Or.inl (Prod.ext h h'))
      · exact Or.inr (Or.inr (Or.inr ⟨h.symm, h'⟩))
    · exact Or.inr (Or.inr (Or.inl h))

theorem sto_nat : STO (fun a b : Nat => decide (a < b)) :=
  ⟨by intro a; simp, by intro a b c; simp; omega, by intro a b; simp; omega⟩

theorem sto_int : STO (fun a b : Int => decide (a < b)) :=
  ⟨by intro a; simp, by intro a b c; simp; omega, by intro a b; simp; omega⟩

theorem sto_bool : STO (fun a b : Bool => !a && b) :=
  ⟨by intro a; cases a <;> rfl, by intro a b c; cases a <;> cases b <;> cases c <;> simp,
   by intro a b; cases a <;> cases b <;> simp⟩

theorem sto_str : STO strLt := by
  constructor
  · intro a; induction a with
    | nil => rfl
    | cons x xs ih => simp [strLt, ih]
  · intro a
    induction a with
    | nil => intro b c h1 h2; cases b <;> cases c <;> simp_all [strLt]
    | cons x xs ih =>
      intro b c h1 h2
      cases b with
      | nil => simp [strLt] at h1
      | cons y ys =>
        cases c with
        | nil => simp [strLt] at h2
        | cons z zs =>
          simp only [strLt] at h1 h2 ⊢
          by_cases hxy : x < y
          · by_cases hyz : y < z
            · have : x < z := by omega
              simp [this]
            · by_cases hzy : z < y
              · simp [hyz, hzy] at h2
              · have : y = z := by omega
                subst this; simp [hxy]
          · by_cases hyx : y < x
            · simp [hxy, hyx] at h1
            · have e : x = y := by omega
              subst e
              simp only [hxy, if_false] at h1
              by_cases hxz : x < z
              · simp [hxz]
              · by_cases hzx : z < x
                · simp [hxz, hzx] at h2
                · simp only [hxz, hzx, if_false] at h2 ⊢
                  exact ih ys zs h1 h2
  · intro a
    induction a with
    | nil => intro b; cases b <;> simp [strLt]
    | cons x xs ih =>
      intro b
      cases b with
      | nil => simp [strLt]
      | cons y ys =>
        simp only [strLt]
        by_cases hxy : x < y
        · simp [hxy]
        · by_cases hyx : y < x
          · simp [hxy, hyx]
          · have e : x = y := by omega
            subst e
            simp only [hxy, if_false]
            rcases ih ys with h | h | h
            · exact Or.inl h
            · exact Or.inr (Or.inl (by rw [h]))
            · exact Or.inr (Or.inr h)

/-! ### the read comparator as a lexicographic order -/

/-- the fields `read_comparator_t` distinguishes -/
def code (r : ReadKey) : Bool × Nat × Nat × List Nat × Int :=
  (r.hasVariants, if r.hasVariants then r.firstPos else 0, r.nameHash, r.name, r.sourceId)

def codeLt : (Bool × Nat × Nat × List Nat × Int) → (Bool × Nat × Nat × List Nat × Int) → Bool :=
  lexLt (fun a b : Bool => !a && b) (lexLt (fun a b : Nat => decide (a < b))
    (lexLt (fun a b : Nat => decide (a < b)) (lexLt strLt (fun a b : Int => decide (a < b)))))

theorem sto_code : STO codeLt := sto_bool.lex (sto_nat.lex (sto_nat.lex (sto_str.lex sto_int)))

theorem readLt_eq_codeLt (a b : ReadKey) : readLt a b = codeLt (code a) (code b) := by
  obtain ⟨av, ap, ah, an, as⟩ := a
  obtain ⟨bv, bp, bh, bn, bs⟩ := b
  simp only [readLt, readLt.tie, codeLt, code, lexLt]
  cases av <;> cases bv <;> simp
  · by_cases h : ah = bh <;> by_cases h2 : an = bn <;> simp [h, h2, sto_str.irrefl]
  · by_cases h0 : ap = bp <;> by_cases h : ah = bh <;> by_cases h2 : an = bn <;> simp [h0, h, h2, sto_str.irrefl]

/-! ### sorting -/

/-- A merge sort by a total transitive `le` whose ties (among the elements present) are equalities returns the
same list for every arrangement of the same elements. -/
theorem mergeSort_eq_of_perm {α} (le : α → α → Bool)
    (trans : ∀ a b c, le a b = true → le b c = true → le a c = true)
    (total : ∀ a b, (le a b || le b a) = true)
    (l₁ l₂ : List α) (h : l₁.Perm l₂)
    (anti : ∀ a b, a ∈ l₁ → b ∈ l₁ → le a b = true → le b a = true → a = b) :
    l₁.mergeSort le = l₂.mergeSort le := by
  apply List.Perm.eq_of_pairwise (le := fun a b => le a b = true)
  · intro a b ha hb hab hba
    have ha' : a ∈ l₁ := (List.mergeSort_perm l₁ le).subset ha
    have hb' : b ∈ l₁ := h.symm.subset ((List.mergeSort_perm l₂ le).subset hb)
    exact anti a b ha' hb' hab hba
  · exact List.pairwise_mergeSort trans total l₁
  · exact List.pairwise_mergeSort trans total l₂
  · exact (List.mergeSort_perm l₁ le).trans (h.trans (List.mergeSort_perm l₂ le).symm)

end WhVerif.C16

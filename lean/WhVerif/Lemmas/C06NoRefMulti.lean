import WhVerif.Lemmas.C06IndelNoRef
/-! The no-reference walk `noRefGo` treats the variants independently: its output is the concatenation of the outputs
of the walks that carry one queue entry / one variant alone. -/
namespace WhVerif.C06

/-- well-formed AlleleProgress: failed, or the counters add up and respect their targets -/
def APWF (a : AP) : Prop :=
  a.length = a.matchTarget + a.insertTarget + a.deleteTarget ∧
  (a.progress < 0 ∨ (a.progress = ((a.matched + a.inserted + a.deleted : Nat) : Int) ∧ a.matched ≤ a.matchTarget ∧
    a.inserted ≤ a.insertTarget ∧ a.deleted ≤ a.deleteTarget))

def EntryWF (e : Entry) : Prop := e.alleles.length = 1 + e.v.alts.length ∧ ∀ a ∈ e.alleles, APWF a

/-- the non-failed alternative of `APWF` -/
def APok (a : AP) : Prop :=
  a.length = a.matchTarget + a.insertTarget + a.deleteTarget ∧
  a.progress = ((a.matched + a.inserted + a.deleted : Nat) : Int) ∧ a.matched ≤ a.matchTarget ∧
    a.inserted ≤ a.insertTarget ∧ a.deleted ≤ a.deleteTarget

/-- failed or complete -/
def AFin (a : AP) : Prop := a.progress < 0 ∨ (a.length : Int) ≤ a.progress

theorem APok_of_APWF {a : AP} (h : APWF a) (hp : ¬ a.progress < 0) : APok a := by
  unfold APWF at h; unfold APok; omega

theorem APWF_of_APok {a : AP} (h : APok a) : APWF a := by
  unfold APok at h; unfold APWF; omega

theorem APWF_fail {a : AP} (h : APok a) : APWF { a with progress := -1 } := by
  unfold APok at h; unfold APWF; dsimp only; omega

/-! ### the handlers preserve well-formedness -/

theorem matchLoop_APok (adv : Bool) (query : Seq) (quals : Option (List Nat)) (al : Seq) (len : Nat) (fuel : Nat) :
    ∀ (qp : Int) (a : AP) (ops : Nat) (r : AP × Nat), APok a →
      matchLoop adv query quals al qp len fuel a ops = .ok r → APok r.1 := by
  induction fuel with
  | zero =>
    intro qp a ops r ha h
    simp only [matchLoop, Except.ok.injEq] at h
    subst h; exact ha
  | succ f ih =>
    intro qp a ops r ha h
    simp only [matchLoop] at h
    by_cases hc : a.matched < a.matchTarget ∧ ops < len
    · rw [if_pos hc] at h
      have hnext : ∀ qual, APok ⟨a.progress + 1, a.length, a.quality + qual, a.matched + 1, a.matchTarget,
          a.inserted, a.insertTarget, a.deleted, a.deleteTarget⟩ := by
        intro qual; unfold APok at ha ⊢; dsimp only; omega
      cases hq : pyGet query qp with
      | none => simp [hq] at h
      | some qb =>
        cases hv : al[a.matched + a.inserted]? with
        | none => simp [hq, hv] at h
        | some vb =>
          simp only [hq, hv] at h
          by_cases hb : (qb == vb) = true
          · rw [if_pos hb] at h
            cases quals with
            | none => exact ih _ _ _ _ (hnext 30) h
            | some qs =>
              cases hx : pyGet qs qp with
              | none => simp [hx] at h
              | some x =>
                simp only [hx] at h
                exact ih _ _ _ _ (hnext x) h
          · rw [if_neg hb] at h
            simp only [Except.ok.injEq] at h
            subst h; exact ha
    · rw [if_neg hc] at h
      simp only [Except.ok.injEq] at h
      subst h; exact ha

theorem insertLoop_APok (query : Seq) (al : Seq) (qs : Int) (len : Nat) (fuel : Nat) :
    ∀ (a : AP) (ops : Nat) (r : AP × Nat), APok a → insertLoop query al qs len fuel a ops = .ok r → APok r.1 := by
  induction fuel with
  | zero =>
    intro a ops r ha h
    simp only [insertLoop, Except.ok.injEq] at h
    subst h; exact ha
  | succ f ih =>
    intro a ops r ha h
    simp only [insertLoop] at h
    by_cases hc : a.inserted < a.insertTarget ∧ ops < len
    · rw [if_pos hc] at h
      have hnext : APok ⟨a.progress + 1, a.length, a.quality + 30, a.matched, a.matchTarget,
          a.inserted + 1, a.insertTarget, a.deleted, a.deleteTarget⟩ := by
        unfold APok at ha ⊢; dsimp only; omega
      cases hq : pyGet query (qs + a.matched + a.inserted) with
      | none => simp [hq] at h
      | some qb =>
        cases hv : al[a.matched + a.inserted]? with
        | none => simp [hq, hv] at h
        | some vb =>
          simp only [hq, hv] at h
          by_cases hb : (qb == vb) = true
          · rw [if_pos hb] at h
            exact ih _ _ _ hnext h
          · rw [if_neg hb] at h
            simp only [Except.ok.injEq] at h
            subst h; exact ha
    · rw [if_neg hc] at h
      simp only [Except.ok.injEq] at h
      subst h; exact ha

theorem handleMatch_APWF (adv : Bool) (query : Seq) (quals : Option (List Nat)) (e : Entry) (oq len i : Nat) (a b : AP)
    (ha : APWF a) (h : handleMatch adv query quals e oq len i a = .ok b) : APWF b := by
  unfold handleMatch at h
  by_cases hp : a.progress < 0
  · rw [if_pos hp] at h
    simp only [Except.ok.injEq] at h
    subst h; exact ha
  · rw [if_neg hp] at h
    have hok := APok_of_APWF ha hp
    split at h
    · simp at h
    · dsimp only at h
      split at h
      · simp at h
      · rename_i a' ops hm
        have h' := matchLoop_APok _ _ _ _ _ _ _ _ _ _ hok hm
        simp only [Except.ok.injEq] at h
        subst h
        split
        · exact APWF_fail h'
        · exact APWF_of_APok h'

theorem handleInsert_APWF (query : Seq) (e : Entry) (len i : Nat) (a b : AP)
    (ha : APWF a) (h : handleInsert query e len i a = .ok b) : APWF b := by
  unfold handleInsert at h
  by_cases hp : a.progress < 0
  · rw [if_pos hp] at h
    simp only [Except.ok.injEq] at h
    subst h; exact ha
  · rw [if_neg hp] at h
    have hok := APok_of_APWF ha hp
    split at h
    · simp at h
    · split at h
      · simp at h
      · rename_i a' ops hm
        have h' := insertLoop_APok _ _ _ _ _ _ _ _ hok hm
        simp only [Except.ok.injEq] at h
        subst h
        split
        · exact APWF_fail h'
        · exact APWF_of_APok h'

theorem handleDelete_APWF (len : Nat) (a : AP) (ha : APWF a) : APWF (handleDelete len a) := by
  unfold handleDelete
  by_cases hp : a.progress < 0
  · rw [if_pos hp]; exact ha
  · rw [if_neg hp]
    have hok := APok_of_APWF ha hp
    have h' : APok ⟨a.progress + (min (a.deleteTarget - a.deleted) len : Nat), a.length,
        a.quality + 30 * min (a.deleteTarget - a.deleted) len, a.matched, a.matchTarget, a.inserted, a.insertTarget,
        a.deleted + min (a.deleteTarget - a.deleted) len, a.deleteTarget⟩ := by
      unfold APok at hok ⊢; dsimp only; omega
    dsimp only
    split
    · exact APWF_fail h'
    · exact APWF_of_APok h'

theorem mapIdxM_pres (P : AP → Prop) (f : Nat → AP → Except Err AP) (hf : ∀ i a b, P a → f i a = .ok b → P b) :
    ∀ (l : List AP) (i : Nat) (l' : List AP), (∀ a ∈ l, P a) → mapIdxM f i l = .ok l' →
      l'.length = l.length ∧ ∀ b ∈ l', P b := by
  intro l
  induction l with
  | nil =>
    intro i l' _ h
    simp only [mapIdxM, Except.ok.injEq] at h
    subst h; simp
  | cons x xs ih =>
    intro i l' hl h
    cases hfx : f i x with
    | error err => simp [mapIdxM, hfx, bind, Except.bind] at h
    | ok y =>
      cases hr : mapIdxM f (i + 1) xs with
      | error err => simp [mapIdxM, hfx, hr, bind, Except.bind] at h
      | ok ys =>
        simp [mapIdxM, hfx, hr, bind, Except.bind, pure, Except.pure] at h
        subst h
        obtain ⟨h1, h2⟩ := ih (i + 1) ys (fun a ha => hl a (by simp [ha])) hr
        refine ⟨by simp [h1], ?_⟩
        intro b hb
        rcases List.mem_cons.1 hb with rfl | hb
        · exact hf i x _ (hl x (by simp)) hfx
        · exact h2 b hb

theorem handleEntry_WF (adv : Bool) (op : Nat) (query : Seq) (quals : Option (List Nat)) (oq len : Nat) (e e' : Entry)
    (hwf : EntryWF e) (h : handleEntry adv op query quals oq len e = .ok e') : EntryWF e' := by
  unfold handleEntry at h
  by_cases hm : isMatch op = true
  · rw [if_pos hm] at h
    cases hr : mapIdxM (handleMatch adv query quals e oq len) 0 e.alleles with
    | error err => simp [hr, bind, Except.bind] at h
    | ok l =>
      simp [hr, bind, Except.bind, pure, Except.pure] at h
      subst h
      obtain ⟨h1, h2⟩ := mapIdxM_pres APWF _ (fun i a b ha hb => handleMatch_APWF _ _ _ _ _ _ _ _ _ ha hb) _ _ _ hwf.2 hr
      exact ⟨by simp only [h1]; exact hwf.1, h2⟩
  · rw [if_neg hm] at h
    by_cases h1 : (op == 1) = true
    · rw [if_pos h1] at h
      cases hr : mapIdxM (handleInsert query e len) 0 e.alleles with
      | error err => simp [hr, bind, Except.bind] at h
      | ok l =>
        simp [hr, bind, Except.bind, pure, Except.pure] at h
        subst h
        obtain ⟨h1, h2⟩ := mapIdxM_pres APWF _ (fun i a b ha hb => handleInsert_APWF _ _ _ _ _ _ ha hb) _ _ _ hwf.2 hr
        exact ⟨by simp only [h1]; exact hwf.1, h2⟩
    · rw [if_neg h1] at h
      simp [bind, Except.bind, pure, Except.pure] at h
      subst h
      refine ⟨by simp only [List.length_map]; exact hwf.1, ?_⟩
      intro b hb
      simp only [List.mem_map] at hb
      obtain ⟨a, ha, rfl⟩ := hb
      exact handleDelete_APWF _ _ (hwf.2 a ha)

theorem buildVarProgress_WF (id : Nat) (v : Variant) (qs : Int) : EntryWF ⟨id, v, qs, buildVarProgress v⟩ := by
  refine ⟨by simp [buildVarProgress]; omega, ?_⟩
  intro a ha
  simp only [buildVarProgress, List.mem_cons, List.mem_map] at ha
  rcases ha with rfl | ⟨alt, _, rfl⟩ <;> (unfold APWF AP.mk'; dsimp only; omega)

/-! ### a finished entry is left alone -/

theorem mem_enumFrom {α} (l : List α) (n : Nat) (a : α) (h : a ∈ l) : ∃ k, (k, a) ∈ enumFrom n l := by
  induction l generalizing n with
  | nil => cases h
  | cons x xs ih =>
    rcases List.mem_cons.1 h with rfl | h
    · exact ⟨n, by simp [enumFrom]⟩
    · obtain ⟨k, hk⟩ := ih (n + 1) h
      exact ⟨k, by simp [enumFrom, hk]⟩

theorem pending_fin (as : List AP) (h : (pendingIdx as).isEmpty = true) : ∀ a ∈ as, AFin a := by
  intro a ha
  obtain ⟨k, hk⟩ := mem_enumFrom as 0 a ha
  simp only [pendingIdx, List.isEmpty_iff, List.map_eq_nil_iff, List.filter_eq_nil_iff] at h
  have := h (k, a) hk
  simp only [decide_eq_true_eq] at this
  unfold AFin; omega

theorem insertLoop_done (query al : Seq) (qs : Int) (len fuel : Nat) (a : AP) (ops : Nat)
    (h : ¬ a.inserted < a.insertTarget) : insertLoop query al qs len fuel a ops = .ok (a, ops) := by
  cases fuel with
  | zero => rfl
  | succ f => simp [insertLoop, h]

theorem handleMatch_fin (adv : Bool) (query : Seq) (quals : Option (List Nat)) (e : Entry) (oq len i : Nat) (a : AP)
    (ha : APWF a) (hf : AFin a) (al : Seq) (hal : getAllele e.v i = some al) :
    handleMatch adv query quals e oq len i a = .ok a := by
  by_cases hp : a.progress < 0
  · simp [handleMatch, hp]
  · have hok := APok_of_APWF ha hp
    unfold APok at hok; unfold AFin at hf
    rw [handleMatch_nomatch adv query quals e oq len i a al hp hal (by omega)]
    rw [if_neg (by omega)]

theorem handleInsert_fin (query : Seq) (e : Entry) (len i : Nat) (a : AP)
    (ha : APWF a) (hf : AFin a) (al : Seq) (hal : getAllele e.v i = some al) :
    handleInsert query e len i a = .ok a := by
  by_cases hp : a.progress < 0
  · simp [handleInsert, hp]
  · have hok := APok_of_APWF ha hp
    unfold APok at hok; unfold AFin at hf
    simp only [handleInsert, hp, if_false, hal, insertLoop_done _ _ _ _ _ _ _ (show ¬ a.inserted < a.insertTarget by omega)]
    rw [if_neg (by omega)]

theorem handleDelete_fin (len : Nat) (a : AP) (ha : APWF a) (hf : AFin a) : handleDelete len a = a := by
  obtain ⟨p, l, q, m, mt, i, it, d, dt⟩ := a
  unfold APWF at ha; unfold AFin at hf
  dsimp only at ha hf
  by_cases hp : p < 0
  · simp [handleDelete, hp]
  · have hd : dt - d = 0 := by omega
    have hl : ¬ (p < (l : Int)) := by omega
    simp [handleDelete, hp, hd, hl]

theorem mapIdxM_id (f : Nat → AP → Except Err AP) :
    ∀ (l : List AP) (i : Nat), (∀ j a, l[j]? = some a → f (i + j) a = .ok a) → mapIdxM f i l = .ok l := by
  intro l
  induction l with
  | nil => intro i _; rfl
  | cons x xs ih =>
    intro i h
    have h0 : f i x = .ok x := by simpa using h 0 x (by simp)
    have ht := ih (i + 1) (fun j a hj => by
      have := h (j + 1) a (by simpa using hj)
      rwa [show i + 1 + j = i + (j + 1) by omega])
    simp [mapIdxM, h0, ht, bind, Except.bind, pure, Except.pure]

theorem handleEntry_fin (adv : Bool) (op : Nat) (query : Seq) (quals : Option (List Nat)) (oq len : Nat) (e : Entry)
    (hwf : EntryWF e) (hp : (pendingIdx e.alleles).isEmpty = true) :
    handleEntry adv op query quals oq len e = .ok e := by
  have hF := pending_fin _ hp
  have hget : ∀ j a, e.alleles[j]? = some a → ∃ s, getAllele e.v j = some s := by
    intro j a hj
    obtain ⟨hlt, _⟩ := List.getElem?_eq_some_iff.1 hj
    rw [hwf.1] at hlt
    unfold getAllele
    exact ⟨_, List.getElem?_eq_getElem (by simp only [List.length_cons]; omega)⟩
  unfold handleEntry
  by_cases hm : isMatch op = true
  · rw [if_pos hm, mapIdxM_id _ _ 0 (fun j a hj => by
      obtain ⟨s, hs⟩ := hget j a hj
      have hmem := List.mem_of_getElem? hj
      rw [Nat.zero_add]
      exact handleMatch_fin _ _ _ _ _ _ _ _ (hwf.2 a hmem) (hF a hmem) s hs)]
    rfl
  · rw [if_neg hm]
    by_cases h1 : (op == 1) = true
    · rw [if_pos h1, mapIdxM_id _ _ 0 (fun j a hj => by
        obtain ⟨s, hs⟩ := hget j a hj
        have hmem := List.mem_of_getElem? hj
        rw [Nat.zero_add]
        exact handleInsert_fin _ _ _ _ _ (hwf.2 a hmem) (hF a hmem) s hs)]
      rfl
    · rw [if_neg h1]
      have : e.alleles.map (handleDelete len) = e.alleles := by
        conv => rhs; rw [← List.map_id e.alleles]
        exact List.map_congr_left (fun a ha => handleDelete_fin _ _ (hwf.2 a ha) (hF a ha))
      rw [this]
      rfl

/-- STABILITY: a queue that consists of one finished entry yields it at the end (if it has a resolved allele) and
never fails -/
theorem noRefGo_finished (fx : Fixes) (query : Seq) (quals : Option (List Nat)) (C : Cigar) (hC : ∀ p ∈ C, p.1 ≤ 8)
    (e : Entry) (hwf : EntryWF e) (hp : (pendingIdx e.alleles).isEmpty = true) (anch : Bool) (rp qp : Nat) :
    noRefGo fx query quals anch rp qp [] [e] C =
      ((if !(resolvedIdx e.alleles).isEmpty then (yieldOf e).toList else []), none) := by
  induction C generalizing anch rp qp with
  | nil =>
    have hp' : pendingIdx e.alleles = [] := List.isEmpty_iff.1 hp
    by_cases hr : resolvedIdx e.alleles = [] <;> simp [noRefGo, flushQueue, hp', hr]
  | cons x rest ih =>
    obtain ⟨op, len⟩ := x
    have hop : op ≤ 8 := hC (op, len) (by simp)
    have hrest : ∀ p ∈ rest, p.1 ≤ 8 := fun p hp => hC p (by simp [hp])
    have ih' := fun anch rp qp => ih hrest anch rp qp
    simp only [noRefGo, List.dropWhile_nil]
    by_cases h3 : op = 3
    · subst h3; simp [ih']
    · by_cases h4 : op = 4
      · subst h4; simp [ih']
      · by_cases h5 : op = 5
        · subst h5; simp [ih']
        · by_cases h6 : op = 6
          · subst h6; simp [ih']
          · have hv := op_cases op hop h3 h4 h5 h6
            have hv' : (isMatch op || op == 1 || op == 2) = true := by
              rcases hv with h | rfl | rfl <;> simp [*]
            have hh := handleEntry_fin fx.f13 op query quals qp len e hwf hp
            cases hr : (resolvedIdx e.alleles).isEmpty <;>
              simp [h3, h4, h5, h6, queueLoop, hv', mapM', hh, bind, Except.bind, pure, Except.pure, popResolved, hp, hr,
                noRefGo_empty fx query quals rest hrest]

end WhVerif.C06

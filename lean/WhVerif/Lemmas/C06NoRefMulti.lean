import WhVerif.Lemmas.C06IndelNoRef
/-! The no-reference walk `noRefGo` treats the variants independently: its output is the concatenation of the outputs
of the walks that carry one queue entry / one variant alone. -/
namespace WhVerif.C06

/-- well-formed AlleleProgress: failed, or the counters add up and respect their targets -/
def APWF (a : AP) : Prop :=
  a.length = a.matchTarget + a.insertTarget + a.deleteTarget ∧
  (a.progress < 0 ∨ (a.progress = ((a.matched + a.inserted + a.deleted : Nat) : Int) ∧ a.matched ≤ a.matchTarget ∧
    a.inserted ≤ a.insertTarget ∧ a.deleted ≤ a.deleteTarget))

def EntryWF (e : Entry) : Prop := e.alleles.length = 1 + e.v.alts.length ∧ ∀ a ∈ e.alleles, APWF a

/-- the non-failed alternative of `APWF` -/
def APok (a : AP) : Prop :=
  a.length = a.matchTarget + a.insertTarget + a.deleteTarget ∧
  a.progress = ((a.matched + a.inserted + a.deleted : Nat) : Int) ∧ a.matched ≤ a.matchTarget ∧
    a.inserted ≤ a.insertTarget ∧ a.deleted ≤ a.deleteTarget

/-- failed or complete -/
def AFin (a : AP) : Prop := a.progress < 0 ∨ (a.length : Int) ≤ a.progress

theorem APok_of_APWF {a : AP} (h : APWF a) (hp : ¬ a.progress < 0) : APok a := by
  unfold APWF at h; unfold APok; omega

theorem APWF_of_APok {a : AP} (h : APok a) : APWF a := by
  unfold APok at h; unfold APWF; omega

theorem APWF_fail {a : AP} (h : APok a) : APWF { a with progress := -1 } := by
  unfold APok at h; unfold APWF; dsimp only; omega

/-! ### the handlers preserve well-formedness -/

theorem matchLoop_APok (adv : Bool) (query : Seq) (quals : Option (List Nat)) (al : Seq) (len : Nat) (fuel : Nat) :
    ∀ (qp : Int) (a : AP) (ops : Nat) (r : AP × Nat), APok a →
      matchLoop adv query quals al qp len fuel a ops = .ok r → APok r.1 := by
  induction fuel with
  | zero =>
    intro qp a ops r ha h
    simp only [matchLoop, Except.ok.injEq] at h
    subst h; exact ha
  | succ f ih =>
    intro qp a ops r ha h
    simp only [matchLoop] at h
    by_cases hc : a.matched < a.matchTarget ∧ ops < len
    · rw [if_pos hc] at h
      have hnext : ∀ qual, APok ⟨a.progress + 1, a.length, a.quality + qual, a.matched + 1, a.matchTarget,
          a.inserted, a.insertTarget, a.deleted, a.deleteTarget⟩ := by
        intro qual; unfold APok at ha ⊢; dsimp only; omega
      cases hq : pyGet query qp with
      | none => simp [hq] at h
      | some qb =>
        cases hv : al[a.matched + a.inserted]? with
        | none => simp [hq, hv] at h
        | some vb =>
          simp only [hq, hv] at h
          by_cases hb : (qb == vb) = true
          · rw [if_pos hb] at h
            cases quals with
            | none => exact ih _ _ _ _ (hnext 30) h
            | some qs =>
              cases hx : pyGet qs qp with
              | none => simp [hx] at h
              | some x =>
                simp only [hx] at h
                exact ih _ _ _ _ (hnext x) h
          · rw [if_neg hb] at h
            simp only [Except.ok.injEq] at h
            subst h; exact ha
    · rw [if_neg hc] at h
      simp only [Except.ok.injEq] at h
      subst h; exact ha

theorem insertLoop_APok (query : Seq) (al : Seq) (qs : Int) (len : Nat) (fuel : Nat) :
    ∀ (a : AP) (ops : Nat) (r : AP × Nat), APok a → insertLoop query al qs len fuel a ops = .ok r → APok r.1 := by
  induction fuel with
  | zero =>
    intro a ops r ha h
    simp only [insertLoop, Except.ok.injEq] at h
    subst h; exact ha
  | succ f ih =>
    intro a ops r ha h
    simp only [insertLoop] at h
    by_cases hc : a.inserted < a.insertTarget ∧ ops < len
    · rw [if_pos hc] at h
      have hnext : APok ⟨a.progress + 1, a.length, a.quality + 30, a.matched, a.matchTarget,
          a.inserted + 1, a.insertTarget, a.deleted, a.deleteTarget⟩ := by
        unfold APok at ha ⊢; dsimp only; omega
      cases hq : pyGet query (qs + a.matched + a.inserted) with
      | none => simp [hq] at h
      | some qb =>
        cases hv : al[a.matched + a.inserted]? with
        | none => simp [hq, hv] at h
        | some vb =>
          simp only [hq, hv] at h
          by_cases hb : (qb == vb) = true
          · rw [if_pos hb] at h
            exact ih _ _ _ hnext h
          · rw [if_neg hb] at h
            simp only [Except.ok.injEq] at h
            subst h; exact ha
    · rw [if_neg hc] at h
      simp only [Except.ok.injEq] at h
      subst h; exact ha

theorem handleMatch_APWF (adv : Bool) (query : Seq) (quals : Option (List Nat)) (e : Entry) (oq len i : Nat) (a b : AP)
    (ha : APWF a) (h : handleMatch adv query quals e oq len i a = .ok b) : APWF b := by
  unfold handleMatch at h
  by_cases hp : a.progress < 0
  · rw [if_pos hp] at h
    simp only [Except.ok.injEq] at h
    subst h; exact ha
  · rw [if_neg hp] at h
    have hok := APok_of_APWF ha hp
    split at h
    · simp at h
    · dsimp only at h
      split at h
      · simp at h
      · rename_i a' ops hm
        have h' := matchLoop_APok _ _ _ _ _ _ _ _ _ _ hok hm
        simp only [Except.ok.injEq] at h
        subst h
        split
        · exact APWF_fail h'
        · exact APWF_of_APok h'

theorem handleInsert_APWF (query : Seq) (e : Entry) (len i : Nat) (a b : AP)
    (ha : APWF a) (h : handleInsert query e len i a = .ok b) : APWF b := by
  unfold handleInsert at h
  by_cases hp : a.progress < 0
  · rw [if_pos hp] at h
    simp only [Except.ok.injEq] at h
    subst h; exact ha
  · rw [if_neg hp] at h
    have hok := APok_of_APWF ha hp
    split at h
    · simp at h
    · split at h
      · simp at h
      · rename_i a' ops hm
        have h' := insertLoop_APok _ _ _ _ _ _ _ _ hok hm
        simp only [Except.ok.injEq] at h
        subst h
        split
        · exact APWF_fail h'
        · exact APWF_of_APok h'

theorem handleDelete_APWF (len : Nat) (a : AP) (ha : APWF a) : APWF (handleDelete len a) := by
  unfold handleDelete
  by_cases hp : a.progress < 0
  · rw [if_pos hp]; exact ha
  · rw [if_neg hp]
    have hok := APok_of_APWF ha hp
    have h' : APok ⟨a.progress + (min (a.deleteTarget - a.deleted) len : Nat), a.length,
        a.quality + 30 * min (a.deleteTarget - a.deleted) len, a.matched, a.matchTarget, a.inserted, a.insertTarget,
        a.deleted + min (a.deleteTarget - a.deleted) len, a.deleteTarget⟩ := by
      unfold APok at hok ⊢; dsimp only; omega
    dsimp only
    split
    · exact APWF_fail h'
    · exact APWF_of_APok h'

theorem mapIdxM_pres (P : AP → Prop) (f : Nat → AP → Except Err AP) (hf : ∀ i a b, P a → f i a = .ok b → P b) :
    ∀ (l : List AP) (i : Nat) (l' : List AP), (∀ a ∈ l, P a) → mapIdxM f i l = .ok l' →
      l'.length = l.length ∧ ∀ b ∈ l', P b := by
  intro l
  induction l with
  | nil =>
    intro i l' _ h
    simp only [mapIdxM, Except.ok.injEq] at h
    subst h; simp
  | cons x xs ih =>
    intro i l' hl h
    cases hfx : f i x with
    | error err => simp [mapIdxM, hfx, bind, Except.bind] at h
    | ok y =>
      cases hr : mapIdxM f (i + 1) xs with
      | error err => simp [mapIdxM, hfx, hr, bind, Except.bind] at h
      | ok ys =>
        simp [mapIdxM, hfx, hr, bind, Except.bind, pure, Except.pure] at h
        subst h
        obtain ⟨h1, h2⟩ := ih (i + 1) ys (fun a ha => hl a (by simp [ha])) hr
        refine ⟨by simp [h1], ?_⟩
        intro b hb
        rcases List.mem_cons.1 hb with rfl | hb
        · exact hf i x _ (hl x (by simp)) hfx
        · exact h2 b hb

theorem handleEntry_WF (adv : Bool) (op : Nat) (query : Seq) (quals : Option (List Nat)) (oq len : Nat) (e e' : Entry)
    (hwf : EntryWF e) (h : handleEntry adv op query quals oq len e = .ok e') : EntryWF e' := by
  unfold handleEntry at h
  by_cases hm : isMatch op = true
  · rw [if_pos hm] at h
    cases hr : mapIdxM (handleMatch adv query quals e oq len) 0 e.alleles with
    | error err => simp [hr, bind, Except.bind] at h
    | ok l =>
      simp [hr, bind, Except.bind, pure, Except.pure] at h
      subst h
      obtain ⟨h1, h2⟩ := mapIdxM_pres APWF _ (fun i a b ha hb => handleMatch_APWF _ _ _ _ _ _ _ _ _ ha hb) _ _ _ hwf.2 hr
      exact ⟨by simp only [h1]; exact hwf.1, h2⟩
  · rw [if_neg hm] at h
    by_cases h1 : (op == 1) = true
    · rw [if_pos h1] at h
      cases hr : mapIdxM (handleInsert query e len) 0 e.alleles with
      | error err => simp [hr, bind, Except.bind] at h
      | ok l =>
        simp [hr, bind, Except.bind, pure, Except.pure] at h
        subst h
        obtain ⟨h1, h2⟩ := mapIdxM_pres APWF _ (fun i a b ha hb => handleInsert_APWF _ _ _ _ _ _ ha hb) _ _ _ hwf.2 hr
        exact ⟨by simp only [h1]; exact hwf.1, h2⟩
    · rw [if_neg h1] at h
      simp [bind, Except.bind, pure, Except.pure] at h
      subst h
      refine ⟨by simp only [List.length_map]; exact hwf.1, ?_⟩
      intro b hb
      simp only [List.mem_map] at hb
      obtain ⟨a, ha, rfl⟩ := hb
      exact handleDelete_APWF _ _ (hwf.2 a ha)

theorem buildVarProgress_WF (id : Nat) (v : Variant) (qs : Int) : EntryWF ⟨id, v, qs, buildVarProgress v⟩ := by
  refine ⟨by simp [buildVarProgress]; omega, ?_⟩
  intro a ha
  simp only [buildVarProgress, List.mem_cons, List.mem_map] at ha
  rcases ha with rfl | ⟨alt, _, rfl⟩ <;> (unfold APWF AP.mk'; dsimp only; omega)

/-! ### a finished entry is left alone -/

theorem mem_enumFrom_ex {α} (l : List α) (n : Nat) (a : α) (h : a ∈ l) : ∃ k, (k, a) ∈ enumFrom n l := by
  induction l generalizing n with
  | nil => cases h
  | cons x xs ih =>
    rcases List.mem_cons.1 h with rfl | h
    · exact ⟨n, by simp [enumFrom]⟩
    · obtain ⟨k, hk⟩ := ih (n + 1) h
      exact ⟨k, by simp [enumFrom, hk]⟩

theorem pending_fin (as : List AP) (h : (pendingIdx as).isEmpty = true) : ∀ a ∈ as, AFin a := by
  intro a ha
  obtain ⟨k, hk⟩ := mem_enumFrom_ex as 0 a ha
  simp only [pendingIdx, List.isEmpty_iff, List.map_eq_nil_iff, List.filter_eq_nil_iff] at h
  have := h (k, a) hk
  simp only [decide_eq_true_eq] at this
  unfold AFin; omega

theorem insertLoop_done (query al : Seq) (qs : Int) (len fuel : Nat) (a : AP) (ops : Nat)
    (h : ¬ a.inserted < a.insertTarget) : insertLoop query al qs len fuel a ops = .ok (a, ops) := by
  cases fuel with
  | zero => rfl
  | succ f => simp [insertLoop, h]

theorem handleMatch_fin (adv : Bool) (query : Seq) (quals : Option (List Nat)) (e : Entry) (oq len i : Nat) (a : AP)
    (ha : APWF a) (hf : AFin a) (al : Seq) (hal : getAllele e.v i = some al) :
    handleMatch adv query quals e oq len i a = .ok a := by
  by_cases hp : a.progress < 0
  · simp [handleMatch, hp]
  · have hok := APok_of_APWF ha hp
    unfold APok at hok; unfold AFin at hf
    rw [handleMatch_nomatch adv query quals e oq len i a al hp hal (by omega)]
    rw [if_neg (by omega)]

theorem handleInsert_fin (query : Seq) (e : Entry) (len i : Nat) (a : AP)
    (ha : APWF a) (hf : AFin a) (al : Seq) (hal : getAllele e.v i = some al) :
    handleInsert query e len i a = .ok a := by
  by_cases hp : a.progress < 0
  · simp [handleInsert, hp]
  · have hok := APok_of_APWF ha hp
    unfold APok at hok; unfold AFin at hf
    simp only [handleInsert, hp, if_false, hal, insertLoop_done _ _ _ _ _ _ _ (show ¬ a.inserted < a.insertTarget by omega)]
    rw [if_neg (by omega)]

theorem handleDelete_fin (len : Nat) (a : AP) (ha : APWF a) (hf : AFin a) : handleDelete len a = a := by
  obtain ⟨p, l, q, m, mt, i, it, d, dt⟩ := a
  unfold APWF at ha; unfold AFin at hf
  dsimp only at ha hf
  by_cases hp : p < 0
  · simp [handleDelete, hp]
  · have hd : dt - d = 0 := by omega
    have hl : ¬ (p < (l : Int)) := by omega
    simp [handleDelete, hp, hd, hl]

theorem mapIdxM_id (f : Nat → AP → Except Err AP) :
    ∀ (l : List AP) (i : Nat), (∀ j a, l[j]? = some a → f (i + j) a = .ok a) → mapIdxM f i l = .ok l := by
  intro l
  induction l with
  | nil => intro i _; rfl
  | cons x xs ih =>
    intro i h
    have h0 : f i x = .ok x := by simpa using h 0 x (by simp)
    have ht := ih (i + 1) (fun j a hj => by
      have := h (j + 1) a (by simpa using hj)
      rwa [show i + 1 + j = i + (j + 1) by omega])
    simp [mapIdxM, h0, ht, bind, Except.bind, pure, Except.pure]

theorem handleEntry_fin (adv : Bool) (op : Nat) (query : Seq) (quals : Option (List Nat)) (oq len : Nat) (e : Entry)
    (hwf : EntryWF e) (hp : (pendingIdx e.alleles).isEmpty = true) :
    handleEntry adv op query quals oq len e = .ok e := by
  have hF := pending_fin _ hp
  have hget : ∀ j a, e.alleles[j]? = some a → ∃ s, getAllele e.v j = some s := by
    intro j a hj
    obtain ⟨hlt, _⟩ := List.getElem?_eq_some_iff.1 hj
    rw [hwf.1] at hlt
    unfold getAllele
    exact ⟨_, List.getElem?_eq_getElem (by simp only [List.length_cons]; omega)⟩
  unfold handleEntry
  by_cases hm : isMatch op = true
  · rw [if_pos hm, mapIdxM_id _ _ 0 (fun j a hj => by
      obtain ⟨s, hs⟩ := hget j a hj
      have hmem := List.mem_of_getElem? hj
      rw [Nat.zero_add]
      exact handleMatch_fin _ _ _ _ _ _ _ _ (hwf.2 a hmem) (hF a hmem) s hs)]
    rfl
  · rw [if_neg hm]
    by_cases h1 : (op == 1) = true
    · rw [if_pos h1, mapIdxM_id _ _ 0 (fun j a hj => by
        obtain ⟨s, hs⟩ := hget j a hj
        have hmem := List.mem_of_getElem? hj
        rw [Nat.zero_add]
        exact handleInsert_fin _ _ _ _ _ (hwf.2 a hmem) (hF a hmem) s hs)]
      rfl
    · rw [if_neg h1]
      have : e.alleles.map (handleDelete len) = e.alleles := by
        conv => rhs; rw [← List.map_id e.alleles]
        exact List.map_congr_left (fun a ha => handleDelete_fin _ _ (hwf.2 a ha) (hF a ha))
      rw [this]
      rfl

/-- STABILITY: a queue that consists of one finished entry yields it at the end (if it has a resolved allele) and
never fails -/
theorem noRefGo_finished (fx : Fixes) (query : Seq) (quals : Option (List Nat)) (C : Cigar) (hC : ∀ p ∈ C, p.1 ≤ 8)
    (e : Entry) (hwf : EntryWF e) (hp : (pendingIdx e.alleles).isEmpty = true) (anch : Bool) (rp qp : Nat) :
    noRefGo fx query quals anch rp qp [] [e] C =
      ((if !(resolvedIdx e.alleles).isEmpty then (yieldOf e).toList else []), none) := by
  induction C generalizing anch rp qp with
  | nil =>
    have hp' : pendingIdx e.alleles = [] := List.isEmpty_iff.1 hp
    by_cases hr : resolvedIdx e.alleles = [] <;> simp [noRefGo, flushQueue, hp', hr]
  | cons x rest ih =>
    obtain ⟨op, len⟩ := x
    have hop : op ≤ 8 := hC (op, len) (by simp)
    have hrest : ∀ p ∈ rest, p.1 ≤ 8 := fun p hp => hC p (by simp [hp])
    have ih' := fun anch rp qp => ih hrest anch rp qp
    simp only [noRefGo, List.dropWhile_nil]
    by_cases h3 : op = 3
    · subst h3; simp [ih']
    · by_cases h4 : op = 4
      · subst h4; simp [ih']
      · by_cases h5 : op = 5
        · subst h5; simp [ih']
        · by_cases h6 : op = 6
          · subst h6; simp [ih']
          · have hv := op_cases op hop h3 h4 h5 h6
            have hv' : (isMatch op || op == 1 || op == 2) = true := by
              rcases hv with h | rfl | rfl <;> simp [*]
            have hh := handleEntry_fin fx.f13 op query quals qp len e hwf hp
            cases hr : (resolvedIdx e.alleles).isEmpty <;>
              simp [h3, h4, h5, h6, queueLoop, hv', mapM', hh, bind, Except.bind, pure, Except.pure, popResolved, hp, hr,
                noRefGo_empty fx query quals rest hrest]

/-! ### list helpers -/

theorem flatMap_congr' {α β} (l : List α) (f g : α → List β) (h : ∀ x ∈ l, f x = g x) : l.flatMap f = l.flatMap g := by
  induction l with
  | nil => rfl
  | cons x xs ih =>
    simp only [List.flatMap_cons]
    rw [h x (by simp), ih (fun y hy => h y (by simp [hy]))]

theorem flatMap_map' {α β γ} (l : List α) (g : α → β) (F : β → List γ) :
    (l.map g).flatMap F = l.flatMap (fun x => F (g x)) := by
  induction l with
  | nil => rfl
  | cons x xs ih => simp only [List.map_cons, List.flatMap_cons, ih]

theorem flatMap_flatMap' {α β γ} (l : List α) (q : α → List β) (F : β → List γ) :
    (l.flatMap q).flatMap F = l.flatMap (fun x => (q x).flatMap F) := by
  induction l with
  | nil => rfl
  | cons x xs ih => simp only [List.flatMap_cons, List.flatMap_append, ih]

theorem flatMap_dropWhile' {α β} (p : α → Bool) (f : α → List β) (l : List α) (h : ∀ x ∈ l, p x = true → f x = []) :
    l.flatMap f = (l.dropWhile p).flatMap f := by
  induction l with
  | nil => rfl
  | cons x xs ih =>
    cases hp : p x with
    | true =>
      rw [List.dropWhile_cons_of_pos hp, List.flatMap_cons, h x (by simp) hp, List.nil_append]
      exact ih (fun y hy => h y (by simp [hy]))
    | false => rw [List.dropWhile_cons_of_neg (by simp [hp])]

/-- `mapM'` succeeds only if every element does -/
theorem mapM'_ok_elem {α β} (f : α → Except Err β) :
    ∀ (l : List α) (ys : List β), mapM' f l = .ok ys → ∀ x ∈ l, ∃ y, f x = .ok y := by
  intro l
  induction l with
  | nil => intro _ _ x hx; cases hx
  | cons a as ih =>
    intro ys h x hx
    cases hfa : f a with
    | error err => simp [mapM', hfa, bind, Except.bind] at h
    | ok y =>
      cases hr : mapM' f as with
      | error err => simp [mapM', hfa, hr, bind, Except.bind] at h
      | ok zs =>
        rcases List.mem_cons.1 hx with rfl | hx
        · exact ⟨y, hfa⟩
        · exact ih zs hr x hx

theorem dw_self (vps : List VP) (rp : Nat) (h : ∀ p ∈ vps, rp ≤ p.2.pos) :
    vps.dropWhile (fun p => decide (p.2.pos < rp)) = vps := by
  cases vps with
  | nil => rfl
  | cons x xs =>
    have := h x (by simp)
    rw [List.dropWhile_cons_of_neg]
    simp only [decide_eq_true_eq]; omega

theorem dw_drop (vp : VP) (rp : Nat) (h : vp.2.pos < rp) :
    [vp].dropWhile (fun p => decide (p.2.pos < rp)) = [] := by
  simp [List.dropWhile, h]

theorem noRefGo_dw (fx : Fixes) (query : Seq) (quals : Option (List Nat)) (anch : Bool) (rp qp : Nat) (vps : List VP)
    (Q : List Entry) (C : Cigar) :
    noRefGo fx query quals anch rp qp vps Q C =
      noRefGo fx query quals anch rp qp (vps.dropWhile (fun p => decide (p.2.pos < rp))) Q C := by
  cases C with
  | nil => simp [noRefGo]
  | cons x rest =>
    obtain ⟨op, len⟩ := x
    simp only [noRefGo, dropWhile_idem]

/-! ### one step of the walk -/

def nextRp (op len rp : Nat) : Nat := if isMatch op || op == 2 then rp + len else rp
def nextQp (op len qp : Nat) : Nat := if isMatch op || op == 1 then qp + len else qp
def refEndOf (fx : Fixes) (op len rp : Nat) : Nat := if fx.f16 && op == 1 then rp + 1 else rp + len
def skOf (fx : Fixes) (anch : Bool) (op : Nat) : Bool := fx.f15 && !anch && isMatch op

/-- the part of one M/I/D step after the queueing -/
def stepOut (fx : Fixes) (query : Seq) (quals : Option (List Nat)) (op len rp qp : Nat) (rest : Cigar)
    (Q1 : List Entry) (R : List VP) : List (Nat × Nat × Nat) × Option Err :=
  match mapM' (handleEntry fx.f13 op query quals qp len) Q1 with
  | .error e => ([], some e)
  | .ok Q2 =>
    ((popResolved Q2).1 ++
      (noRefGo fx query quals true (nextRp op len rp) (nextQp op len qp) R (popResolved Q2).2 rest).1,
     (noRefGo fx query quals true (nextRp op len rp) (nextQp op len qp) R (popResolved Q2).2 rest).2)

theorem noRefGo_step (fx : Fixes) (query : Seq) (quals : Option (List Nat)) (anch : Bool) (rp qp op len : Nat)
    (rest : Cigar) (vps : List VP) (Q : List Entry) (h3 : (op == 3) = false) (h4 : (op == 4) = false)
    (h56 : (op == 5 || op == 6) = false) (hv : (isMatch op || op == 1 || op == 2) = true) :
    noRefGo fx query quals anch rp qp vps Q ((op, len) :: rest) =
      stepOut fx query quals op len rp qp rest
        (Q ++ (queueLoop (skOf fx anch op) op rp qp (refEndOf fx op len rp)
          (vps.dropWhile (fun p => decide (p.2.pos < rp)))).1)
        (queueLoop (skOf fx anch op) op rp qp (refEndOf fx op len rp)
          (vps.dropWhile (fun p => decide (p.2.pos < rp)))).2 := by
  simp only [noRefGo, h3, h4, h56, hv, Bool.false_eq_true, if_false, Bool.not_true, stepOut, skOf, refEndOf, nextRp,
    nextQp]
  split <;> (rename_i heq; rw [heq])

theorem noRefGo_skipop (fx : Fixes) (query : Seq) (quals : Option (List Nat)) (anch : Bool) (rp qp op len : Nat)
    (rest : Cigar) (h : op = 3 ∨ op = 4 ∨ op = 5 ∨ op = 6) :
    ∃ a' rp' qp', ∀ vps Q, noRefGo fx query quals anch rp qp vps Q ((op, len) :: rest) =
      noRefGo fx query quals a' rp' qp' (vps.dropWhile (fun p => decide (p.2.pos < rp))) Q rest := by
  rcases h with rfl | rfl | rfl | rfl
  · exact ⟨false, rp + len, qp, fun vps Q => by simp [noRefGo]⟩
  · exact ⟨anch, rp, qp + len, fun vps Q => by simp [noRefGo]⟩
  · exact ⟨anch, rp, qp, fun vps Q => by simp [noRefGo]⟩
  · exact ⟨anch, rp, qp, fun vps Q => by simp [noRefGo]⟩

def hStep (fx : Fixes) (query : Seq) (quals : Option (List Nat)) (op len qp : Nat) (e : Entry) : Entry :=
  match handleEntry fx.f13 op query quals qp len e with
  | .ok e' => e'
  | .error _ => e

theorem stepOut_single_ok (fx : Fixes) (query : Seq) (quals : Option (List Nat)) (op len rp qp : Nat) (rest : Cigar)
    (hrest : ∀ p ∈ rest, p.1 ≤ 8) (e e' : Entry) (hwf : EntryWF e)
    (he : handleEntry fx.f13 op query quals qp len e = .ok e') :
    stepOut fx query quals op len rp qp rest [e] [] =
      noRefGo fx query quals true (nextRp op len rp) (nextQp op len qp) [] [e'] rest := by
  have hwf' := handleEntry_WF _ _ _ _ _ _ _ _ hwf he
  cases hp : (pendingIdx e'.alleles).isEmpty with
  | false => simp [stepOut, mapM', he, bind, Except.bind, pure, Except.pure, popResolved, hp]
  | true =>
    rw [noRefGo_finished fx query quals rest hrest e' hwf' hp]
    cases hr : (resolvedIdx e'.alleles).isEmpty <;>
      simp [stepOut, mapM', he, bind, Except.bind, pure, Except.pure, popResolved, hp, hr,
        noRefGo_empty fx query quals rest hrest]

theorem stepOut_single_err (fx : Fixes) (query : Seq) (quals : Option (List Nat)) (op len rp qp : Nat) (rest : Cigar)
    (e : Entry) (err : Err) (he : handleEntry fx.f13 op query quals qp len e = .error err) :
    stepOut fx query quals op len rp qp rest [e] [] = ([], some err) := by
  simp [stepOut, mapM', he, bind, Except.bind]

theorem ok_of_single (fx : Fixes) (query : Seq) (quals : Option (List Nat)) (op len rp qp : Nat) (rest : Cigar)
    (hrest : ∀ p ∈ rest, p.1 ≤ 8) (e : Entry) (hwf : EntryWF e)
    (h : (stepOut fx query quals op len rp qp rest [e] []).2 = none) :
    handleEntry fx.f13 op query quals qp len e = .ok (hStep fx query quals op len qp e) ∧
    stepOut fx query quals op len rp qp rest [e] [] =
      noRefGo fx query quals true (nextRp op len rp) (nextQp op len qp) [] [hStep fx query quals op len qp e] rest ∧
    EntryWF (hStep fx query quals op len qp e) := by
  cases hh : handleEntry fx.f13 op query quals qp len e with
  | error err =>
    rw [stepOut_single_err fx query quals op len rp qp rest e err hh] at h
    simp at h
  | ok e' =>
    have hg : hStep fx query quals op len qp e = e' := by simp [hStep, hh]
    rw [hg]
    exact ⟨rfl, stepOut_single_ok fx query quals op len rp qp rest hrest e e' hwf hh,
      handleEntry_WF _ _ _ _ _ _ _ _ hwf hh⟩

/-- the pop loop only removes finished entries, whose single walks yield exactly what the pop loop yields -/
theorem popResolved_flat (F : Entry → List (Nat × Nat × Nat))
    (hF : ∀ e, EntryWF e → (pendingIdx e.alleles).isEmpty = true →
      F e = if !(resolvedIdx e.alleles).isEmpty then (yieldOf e).toList else []) :
    ∀ (L : List Entry), (∀ e ∈ L, EntryWF e) →
      (popResolved L).1 ++ (popResolved L).2.flatMap F = L.flatMap F ∧ ∀ e ∈ (popResolved L).2, e ∈ L := by
  intro L
  induction L with
  | nil => intro _; simp [popResolved]
  | cons e es ih =>
    intro hL
    obtain ⟨ih1, ih2⟩ := ih (fun x hx => hL x (by simp [hx]))
    cases hp : (pendingIdx e.alleles).isEmpty with
    | false => simp [popResolved, hp]
    | true =>
      have hFe := hF e (hL e (by simp)) hp
      cases hr : (resolvedIdx e.alleles).isEmpty with
      | false =>
        simp only [hr, Bool.not_false, if_true] at hFe
        refine ⟨?_, ?_⟩
        · simp only [popResolved, hp, hr, Bool.not_false, Bool.and_self, if_true, List.flatMap_cons, hFe,
            List.append_assoc, ih1]
        · intro x hx
          simp only [popResolved, hp, hr, Bool.not_false, Bool.and_self, if_true] at hx
          exact List.mem_cons_of_mem _ (ih2 x hx)
      | true =>
        simp only [hr, Bool.not_true, Bool.false_eq_true, if_false] at hFe
        refine ⟨?_, ?_⟩
        · simp only [popResolved, hp, hr, Bool.not_true, Bool.false_and, Bool.false_eq_true, if_false,
            List.flatMap_cons, hFe, List.nil_append, ih1]
        · intro x hx
          simp only [popResolved, hp, hr, Bool.not_true, Bool.false_and, Bool.false_eq_true, if_false] at hx
          exact List.mem_cons_of_mem _ (ih2 x hx)

/-! ### the queueing loop works variant by variant -/

theorem queueLoop_far (sk : Bool) (op rp qp refEnd : Nat) (vp : VP) (h : vp.2.pos ≥ refEnd) :
    queueLoop sk op rp qp refEnd [vp] = ([], [vp]) := by
  obtain ⟨id, v⟩ := vp
  dsimp only at h
  simp only [queueLoop, h, if_true]

theorem queueLoop_single (sk : Bool) (op rp qp refEnd : Nat) (vp : VP) :
    queueLoop sk op rp qp refEnd [vp] = ([], [vp]) ∨
    ((queueLoop sk op rp qp refEnd [vp]).2 = [] ∧
      ((queueLoop sk op rp qp refEnd [vp]).1 = [] ∨
        ∃ e, (queueLoop sk op rp qp refEnd [vp]).1 = [e] ∧ EntryWF e)) := by
  obtain ⟨id, v⟩ := vp
  by_cases h1 : v.pos ≥ refEnd
  · left; simp only [queueLoop, h1, if_true]
  · by_cases h2 : (op == 1) = true ∧ v.ref.length > 0
    · left; simp only [queueLoop, h1, if_false, if_pos h2]
    · by_cases h3 : (op == 2) = true ∧ (v.ref.length == 0) = true
      · right; simp only [queueLoop, h1, if_false, if_neg h2, if_pos h3]; simp
      · by_cases h4 : sk = true ∧ (v.ref.length == 0) = true ∧ (v.pos == rp) = true
        · right; simp only [queueLoop, h1, if_false, if_neg h2, if_neg h3, if_pos h4]; simp
        · right
          have hq : ∃ qs, queueLoop sk op rp qp refEnd [(id, v)] = ([⟨id, v, qs, buildVarProgress v⟩], []) :=
            ⟨_, by simp only [queueLoop, h1, if_false, if_neg h2, if_neg h3, if_neg h4]; rfl⟩
          obtain ⟨qs, hq⟩ := hq
          rw [hq]
          exact ⟨rfl, Or.inr ⟨_, rfl, buildVarProgress_WF _ _ _⟩⟩

theorem queueLoop_cons_pass (sk : Bool) (op rp qp refEnd id : Nat) (v : Variant) (rest : List VP)
    (h1 : ¬ v.pos ≥ refEnd) (h2 : ¬ ((op == 1) = true ∧ v.ref.length > 0)) :
    queueLoop sk op rp qp refEnd ((id, v) :: rest) =
      ((queueLoop sk op rp qp refEnd [(id, v)]).1 ++ (queueLoop sk op rp qp refEnd rest).1,
        (queueLoop sk op rp qp refEnd rest).2) ∧
    (queueLoop sk op rp qp refEnd [(id, v)]).2 = [] := by
  by_cases h3 : (op == 2) = true ∧ (v.ref.length == 0) = true
  · simp only [queueLoop, h1, if_false, if_neg h2, if_pos h3]; simp
  · by_cases h4 : sk = true ∧ (v.ref.length == 0) = true ∧ (v.pos == rp) = true
    · simp only [queueLoop, h1, if_false, if_neg h2, if_neg h3, if_pos h4]; simp
    · simp only [queueLoop, h1, if_false, if_neg h2, if_neg h3, if_neg h4]; simp

theorem queueLoop_split (sk : Bool) (op rp qp refEnd : Nat) (hend : op = 1 → refEnd ≤ rp + 1) (vps : List VP)
    (hs : vps.Pairwise (fun a b => a.2.pos < b.2.pos)) (hge : ∀ p ∈ vps, rp ≤ p.2.pos) :
    ∃ A B, vps = A ++ B ∧
      (queueLoop sk op rp qp refEnd vps).1 = A.flatMap (fun vp => (queueLoop sk op rp qp refEnd [vp]).1) ∧
      (queueLoop sk op rp qp refEnd vps).2 = B ∧
      (∀ vp ∈ A, (queueLoop sk op rp qp refEnd [vp]).2 = []) ∧
      (∀ vp ∈ B, queueLoop sk op rp qp refEnd [vp] = ([], [vp])) := by
  induction vps with
  | nil => exact ⟨[], [], rfl, by simp [queueLoop], by simp [queueLoop], by simp, by simp⟩
  | cons x rest ih =>
    obtain ⟨id, v⟩ := x
    have hs' := List.pairwise_cons.1 hs
    have hrp : rp ≤ v.pos := hge (id, v) (by simp)
    by_cases h1 : v.pos ≥ refEnd
    · refine ⟨[], (id, v) :: rest, rfl, by simp only [queueLoop, h1, if_true]; rfl,
        by simp only [queueLoop, h1, if_true], by simp, ?_⟩
      intro vp hvp
      apply queueLoop_far
      rcases List.mem_cons.1 hvp with rfl | hvp
      · exact h1
      · have := hs'.1 vp hvp
        dsimp only at this; omega
    · by_cases h2 : (op == 1) = true ∧ v.ref.length > 0
      · refine ⟨[], (id, v) :: rest, rfl, by simp only [queueLoop, h1, if_false, if_pos h2]; rfl,
          by simp only [queueLoop, h1, if_false, if_pos h2], by simp, ?_⟩
        intro vp hvp
        rcases List.mem_cons.1 hvp with rfl | hvp
        · simp only [queueLoop, h1, if_false, if_pos h2]
        · apply queueLoop_far
          have h5 := hs'.1 vp hvp
          have h6 := hend (by simpa using h2.1)
          dsimp only at h5; omega
      · obtain ⟨A, B, hAB, hq1, hq2, hA, hB⟩ := ih hs'.2 (fun p hp => hge p (by simp [hp]))
        obtain ⟨hc, hc2⟩ := queueLoop_cons_pass sk op rp qp refEnd id v rest h1 h2
        refine ⟨(id, v) :: A, B, by simp [hAB], ?_, ?_, ?_, hB⟩
        · rw [hc, List.flatMap_cons, hq1]
        · rw [hc, hq2]
        · intro vp hvp
          rcases List.mem_cons.1 hvp with rfl | hvp
          · exact hc2
          · exact hA vp hvp

/-! ### independence -/

def Indep (fx : Fixes) (query : Seq) (quals : Option (List Nat)) (C : Cigar) : Prop :=
  ∀ (anch : Bool) (rp qp : Nat) (vps : List VP) (Q : List Entry),
    vps.Pairwise (fun a b => a.2.pos < b.2.pos) → (∀ e ∈ Q, EntryWF e) →
    (∀ e ∈ Q, (noRefGo fx query quals anch rp qp [] [e] C).2 = none) →
    (∀ vp ∈ vps, (noRefGo fx query quals anch rp qp [vp] [] C).2 = none) →
    noRefGo fx query quals anch rp qp vps Q C =
      (Q.flatMap (fun e => (noRefGo fx query quals anch rp qp [] [e] C).1) ++
       vps.flatMap (fun vp => (noRefGo fx query quals anch rp qp [vp] [] C).1), none)

theorem indep_step (fx : Fixes) (h16 : fx.f16 = true) (query : Seq) (quals : Option (List Nat)) (op len : Nat)
    (rest : Cigar) (hop : op ≤ 8) (hrest : ∀ p ∈ rest, p.1 ≤ 8) (ih : Indep fx query quals rest)
    (anch : Bool) (rp qp : Nat) (vps : List VP) (Q : List Entry)
    (hs : vps.Pairwise (fun a b => a.2.pos < b.2.pos)) (hge : ∀ vp ∈ vps, rp ≤ vp.2.pos)
    (hwf : ∀ e ∈ Q, EntryWF e)
    (hQ : ∀ e ∈ Q, (noRefGo fx query quals anch rp qp [] [e] ((op, len) :: rest)).2 = none)
    (hV : ∀ vp ∈ vps, (noRefGo fx query quals anch rp qp [vp] [] ((op, len) :: rest)).2 = none) :
    noRefGo fx query quals anch rp qp vps Q ((op, len) :: rest) =
      (Q.flatMap (fun e => (noRefGo fx query quals anch rp qp [] [e] ((op, len) :: rest)).1) ++
       vps.flatMap (fun vp => (noRefGo fx query quals anch rp qp [vp] [] ((op, len) :: rest)).1), none) := by
  have hdw := dw_self vps rp hge
  have hdw1 : ∀ vp ∈ vps, [vp].dropWhile (fun p => decide (p.2.pos < rp)) = [vp] := fun vp hvp =>
    dw_self [vp] rp (by simpa using hge vp hvp)
  by_cases hsk : op = 3 ∨ op = 4 ∨ op = 5 ∨ op = 6
  · obtain ⟨a', rp', qp', e1⟩ := noRefGo_skipop fx query quals anch rp qp op len rest hsk
    have hQ' : ∀ e ∈ Q, (noRefGo fx query quals a' rp' qp' [] [e] rest).2 = none := fun e he => by
      have := hQ e he
      rwa [e1, List.dropWhile_nil] at this
    have hV' : ∀ vp ∈ vps, (noRefGo fx query quals a' rp' qp' [vp] [] rest).2 = none := fun vp hvp => by
      have := hV vp hvp
      rwa [e1, hdw1 vp hvp] at this
    have fQ := flatMap_congr' Q (fun e => (noRefGo fx query quals anch rp qp [] [e] ((op, len) :: rest)).1)
      (fun e => (noRefGo fx query quals a' rp' qp' [] [e] rest).1)
      (fun e _ => by simp only [e1, List.dropWhile_nil])
    have fV := flatMap_congr' vps (fun vp => (noRefGo fx query quals anch rp qp [vp] [] ((op, len) :: rest)).1)
      (fun vp => (noRefGo fx query quals a' rp' qp' [vp] [] rest).1)
      (fun vp hvp => by simp only [e1, hdw1 vp hvp])
    rw [e1, hdw, ih a' rp' qp' vps Q hs hwf hQ' hV', fQ, fV]
  · have h3 : op ≠ 3 := fun h => hsk (Or.inl h)
    have h4 : op ≠ 4 := fun h => hsk (Or.inr (Or.inl h))
    have h5 : op ≠ 5 := fun h => hsk (Or.inr (Or.inr (Or.inl h)))
    have h6 : op ≠ 6 := fun h => hsk (Or.inr (Or.inr (Or.inr h)))
    have hv := op_cases op hop h3 h4 h5 h6
    have hv' : (isMatch op || op == 1 || op == 2) = true := by
      rcases hv with h | rfl | rfl <;> simp [*]
    have h3' : (op == 3) = false := by simpa using h3
    have h4' : (op == 4) = false := by simpa using h4
    have h56' : (op == 5 || op == 6) = false := by simp [h5, h6]
    have step := fun vps Q => noRefGo_step fx query quals anch rp qp op len rest vps Q h3' h4' h56' hv'
    have hend : op = 1 → refEndOf fx op len rp ≤ rp + 1 := by
      intro h; subst h; simp [refEndOf, h16]
    obtain ⟨A, B, hAB, hq1, hq2, hA2, hB⟩ :=
      queueLoop_split (skOf fx anch op) op rp qp (refEndOf fx op len rp) hend vps hs hge
    -- abbreviations
    generalize hsk' : skOf fx anch op = sk at *
    generalize hre : refEndOf fx op len rp = refEnd at *
    have hAmem : ∀ vp ∈ A, vp ∈ vps := fun vp h => by rw [hAB]; exact List.mem_append_left _ h
    have hBmem : ∀ vp ∈ B, vp ∈ vps := fun vp h => by rw [hAB]; exact List.mem_append_right _ h
    -- the single walks
    have sE : ∀ e, noRefGo fx query quals anch rp qp [] [e] ((op, len) :: rest) =
        stepOut fx query quals op len rp qp rest [e] [] := by
      intro e; rw [step]; simp [queueLoop]
    have sV : ∀ vp ∈ vps, noRefGo fx query quals anch rp qp [vp] [] ((op, len) :: rest) =
        stepOut fx query quals op len rp qp rest (queueLoop sk op rp qp refEnd [vp]).1
          (queueLoop sk op rp qp refEnd [vp]).2 := by
      intro vp hvp; rw [step, hdw1 vp hvp, List.nil_append]
    have sB : ∀ vp ∈ B, noRefGo fx query quals anch rp qp [vp] [] ((op, len) :: rest) =
        noRefGo fx query quals true (nextRp op len rp) (nextQp op len qp) [vp] [] rest := by
      intro vp hvp
      rw [sV vp (hBmem vp hvp), hB vp hvp]
      simp [stepOut, mapM', popResolved]
    have hA1 : ∀ vp ∈ A, (queueLoop sk op rp qp refEnd [vp]).1 = [] ∨
        ∃ e, (queueLoop sk op rp qp refEnd [vp]).1 = [e] ∧ EntryWF e := by
      intro vp hvp
      rcases queueLoop_single sk op rp qp refEnd vp with h | h
      · have := hA2 vp hvp
        rw [h] at this; simp at this
      · exact h.2
    have sA : ∀ vp ∈ A, noRefGo fx query quals anch rp qp [vp] [] ((op, len) :: rest) =
        stepOut fx query quals op len rp qp rest (queueLoop sk op rp qp refEnd [vp]).1 [] := by
      intro vp hvp
      rw [sV vp (hAmem vp hvp), hA2 vp hvp]
    have sA1 : ∀ vp ∈ A, (noRefGo fx query quals anch rp qp [vp] [] ((op, len) :: rest)).1 =
        (queueLoop sk op rp qp refEnd [vp]).1.flatMap
          (fun e => (stepOut fx query quals op len rp qp rest [e] []).1) := by
      intro vp hvp
      rw [sA vp hvp]
      rcases hA1 vp hvp with h | ⟨e, h, _⟩
      · rw [h]; simp [stepOut, mapM', popResolved, noRefGo_empty fx query quals rest hrest]
      · rw [h]; simp
    -- every handled entry
    have hk : ∀ e ∈ Q ++ A.flatMap (fun vp => (queueLoop sk op rp qp refEnd [vp]).1),
        EntryWF e ∧ (stepOut fx query quals op len rp qp rest [e] []).2 = none := by
      intro e he
      rcases List.mem_append.1 he with he | he
      · exact ⟨hwf e he, by rw [← sE]; exact hQ e he⟩
      · obtain ⟨vp, hvp, hevp⟩ := List.mem_flatMap.1 he
        rcases hA1 vp hvp with h | ⟨e0, h, hw0⟩
        · rw [h] at hevp; cases hevp
        · rw [h] at hevp
          have : e = e0 := by simpa using hevp
          subst this
          refine ⟨hw0, ?_⟩
          have := hV vp (hAmem vp hvp)
          rwa [sA vp hvp, h] at this
    have hg := fun e he => ok_of_single fx query quals op len rp qp rest hrest e (hk e he).1 (hk e he).2
    -- the multi walk
    have hwf2 : ∀ e ∈ (Q ++ A.flatMap (fun vp => (queueLoop sk op rp qp refEnd [vp]).1)).map
        (hStep fx query quals op len qp), EntryWF e := by
      intro e he
      obtain ⟨e0, he0, rfl⟩ := List.mem_map.1 he
      exact (hg e0 he0).2.2
    obtain ⟨hflat, hsub⟩ := popResolved_flat
      (fun e => (noRefGo fx query quals true (nextRp op len rp) (nextQp op len qp) [] [e] rest).1)
      (fun e hw hp => by rw [noRefGo_finished fx query quals rest hrest e hw hp]) _ hwf2
    have hsB : B.Pairwise (fun a b => a.2.pos < b.2.pos) :=
      List.Pairwise.sublist (by rw [hAB]; exact List.sublist_append_right A B) hs
    have hQp : ∀ e ∈ (popResolved ((Q ++ A.flatMap (fun vp => (queueLoop sk op rp qp refEnd [vp]).1)).map
        (hStep fx query quals op len qp))).2,
        (noRefGo fx query quals true (nextRp op len rp) (nextQp op len qp) [] [e] rest).2 = none := by
      intro e he
      obtain ⟨e0, he0, rfl⟩ := List.mem_map.1 (hsub e he)
      rw [← (hg e0 he0).2.1]
      exact (hk e0 he0).2
    have hVp : ∀ vp ∈ B,
        (noRefGo fx query quals true (nextRp op len rp) (nextQp op len qp) [vp] [] rest).2 = none := by
      intro vp hvp
      rw [← sB vp hvp]
      exact hV vp (hBmem vp hvp)
    have hih := ih true (nextRp op len rp) (nextQp op len qp) B _ hsB (fun e he => hwf2 e (hsub e he)) hQp hVp
    rw [step, hdw, hq1, hq2]
    unfold stepOut
    rw [mapM'_map_ok _ (hStep fx query quals op len qp) _ (fun e he => (hg e he).1)]
    dsimp only
    rw [hih]
    dsimp only
    -- the right-hand side
    have r1 : Q.flatMap (fun e => (noRefGo fx query quals anch rp qp [] [e] ((op, len) :: rest)).1) =
        Q.flatMap (fun e => (stepOut fx query quals op len rp qp rest [e] []).1) :=
      flatMap_congr' _ _ _ (fun e _ => by rw [sE])
    have r2 : A.flatMap (fun vp => (noRefGo fx query quals anch rp qp [vp] [] ((op, len) :: rest)).1) =
        (A.flatMap (fun vp => (queueLoop sk op rp qp refEnd [vp]).1)).flatMap
          (fun e => (stepOut fx query quals op len rp qp rest [e] []).1) := by
      rw [flatMap_flatMap']
      exact flatMap_congr' _ _ _ (fun vp hvp => sA1 vp hvp)
    have r3 : B.flatMap (fun vp => (noRefGo fx query quals anch rp qp [vp] [] ((op, len) :: rest)).1) =
        B.flatMap (fun vp =>
          (noRefGo fx query quals true (nextRp op len rp) (nextQp op len qp) [vp] [] rest).1) :=
      flatMap_congr' _ _ _ (fun vp hvp => by rw [sB vp hvp])
    have r4 : (Q ++ A.flatMap (fun vp => (queueLoop sk op rp qp refEnd [vp]).1)).flatMap
          (fun e => (stepOut fx query quals op len rp qp rest [e] []).1) =
        ((Q ++ A.flatMap (fun vp => (queueLoop sk op rp qp refEnd [vp]).1)).map
          (hStep fx query quals op len qp)).flatMap
          (fun e => (noRefGo fx query quals true (nextRp op len rp) (nextQp op len qp) [] [e] rest).1) := by
      rw [flatMap_map']
      exact flatMap_congr' _ _ _ (fun e he => by rw [(hg e he).2.1])
    conv => rhs; rw [hAB, List.flatMap_append, r1, r2, r3, ← List.append_assoc, ← List.flatMap_append, r4, ← hflat]
    rw [List.append_assoc]

theorem noRefGo_indep_all (fx : Fixes) (h16 : fx.f16 = true) (query : Seq) (quals : Option (List Nat)) :
    ∀ (C : Cigar), (∀ p ∈ C, p.1 ≤ 8) → Indep fx query quals C := by
  intro C
  induction C with
  | nil =>
    intro _ anch rp qp vps Q _ _ _ _
    simp [noRefGo, flushQueue]
  | cons x rest ih =>
    intro hC anch rp qp vps Q hs hwf hQ hV
    obtain ⟨op, len⟩ := x
    have hop : op ≤ 8 := hC (op, len) (by simp)
    have hrest : ∀ p ∈ rest, p.1 ≤ 8 := fun p hp => hC p (by simp [hp])
    have hge := dropWhile_ge_sorted vps (List.Pairwise.imp (fun h => Nat.le_of_lt h) hs) rp
    have hs' : (vps.dropWhile (fun p => decide (p.2.pos < rp))).Pairwise (fun a b => a.2.pos < b.2.pos) :=
      List.Pairwise.sublist (List.dropWhile_sublist _) hs
    have hV' : ∀ vp ∈ vps.dropWhile (fun p => decide (p.2.pos < rp)),
        (noRefGo fx query quals anch rp qp [vp] [] ((op, len) :: rest)).2 = none :=
      fun vp hvp => hV vp (mem_dropWhile_mem _ _ _ hvp)
    rw [noRefGo_dw, flatMap_dropWhile' (fun p => decide (p.2.pos < rp)) _ vps (fun vp _ hp => by
      have hlt : vp.2.pos < rp := by simpa using hp
      rw [noRefGo_dw, dw_drop vp rp hlt, noRefGo_empty fx query quals _ hC])]
    exact indep_step fx h16 query quals op len rest hop hrest (ih hrest) anch rp qp _ Q hs' hge hwf hQ hV'

/-- INDEPENDENCE: the walk over a strictly sorted list of variants (and a queue of well-formed entries) yields the
concatenation of the outputs of the walks that carry one queue entry / one variant alone -/
theorem noRefGo_independent (fx : Fixes) (h16 : fx.f16 = true) (query : Seq) (quals : Option (List Nat))
    (cigar : Cigar) (hops : ∀ p ∈ cigar, p.1 ≤ 8) (anch : Bool) (rp qp : Nat)
    (vps : List VP) (hs : vps.Pairwise (fun a b => a.2.pos < b.2.pos))
    (Q : List Entry) (hwf : ∀ e ∈ Q, EntryWF e)
    (hQ : ∀ e ∈ Q, (noRefGo fx query quals anch rp qp [] [e] cigar).2 = none)
    (hV : ∀ vp ∈ vps, (noRefGo fx query quals anch rp qp [vp] [] cigar).2 = none) :
    noRefGo fx query quals anch rp qp vps Q cigar =
      (Q.flatMap (fun e => (noRefGo fx query quals anch rp qp [] [e] cigar).1) ++
       vps.flatMap (fun vp => (noRefGo fx query quals anch rp qp [vp] [] cigar).1), none) :=
  noRefGo_indep_all fx h16 query quals cigar hops anch rp qp vps Q hs hwf hQ hV

theorem detectNoRef_independent (fx : Fixes) (h16 : fx.f16 = true) (variants : List Variant) (first start : Nat)
    (cigar : Cigar) (query : Seq) (quals : Option (List Nat)) (hops : ∀ p ∈ cigar, p.1 ≤ 8) (vps : List VP)
    (hvps : vps = (((nonOverlapping (variants.map normalize)).filterMap
      (fun id => ((variants.map normalize)[id]?).map (fun v => (id, v)))).drop first).dropWhile
        (fun p => p.2.pos < start))
    (hs : vps.Pairwise (fun a b => a.2.pos < b.2.pos))
    (hV : ∀ vp ∈ vps, (noRefGo fx query quals false start 0 [vp] [] cigar).2 = none) :
    detectNoRef fx variants first start cigar query quals =
      (vps.flatMap (fun vp => (noRefGo fx query quals false start 0 [vp] [] cigar).1), none) := by
  unfold detectNoRef
  dsimp only
  rw [← hvps, noRefGo_independent fx h16 query quals cigar hops false start 0 vps hs [] (by simp) (by simp) hV]
  simp

end WhVerif.C06

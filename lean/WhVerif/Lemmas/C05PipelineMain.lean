import WhVerif.Lemmas.C05PipelineWrite
import WhVerif.Lemmas.C05PipelineSolver
/-!
# C05 pipeline, part 3: assembling solver + components + multi-sample writer + reader for a family
-/
namespace WhVerif.C05P
open WhVerif.C01 WhVerif.C04 WhVerif.C05.Solver
open WhVerif.C02P (posAt srOf target phaseEntry phasesOf_target biallelic)

/-- the `get_alleles` entry of individual `ind` in column `c` under the witness `(β, τ)` -/
def colEntry (I : Inst) (β : List Bool) (τ : List Nat) (c ind : Nat) : Nat × Nat :=
  ((superReadColumn I β τ c).getD []).getD ind (0, 0)

/-! ### small list facts -/

theorem zip_map_eq {γ δ} (pos : List Nat) (cols : List γ) (h : pos.length = cols.length) (g : γ → δ) (d : γ) :
    (pos.zip cols).map (fun pc => (pc.1, g pc.2)) =
      (List.range pos.length).map (fun c => (posAt pos c, g (cols.getD c d))) := by
  apply List.ext_getElem
  · simp [h]
  · intro i h1 h2
    simp at h1 h2
    have h3 : i < cols.length := by omega
    simp [posAt, h2, h3]

theorem range_map_getD (l : List String) : (List.range l.length).map (fun i => l.getD i "") = l := by
  apply List.ext_getElem
  · simp
  · intro i h1 h2
    simp at h1
    simp [h1]

theorem allowed_nat (a : Nat) : allowed false (a : Int) = true ↔ a ≤ 1 := by
  unfold allowed
  simp
  omega

/-! ### the writer's phase statement for a family member's target -/

theorem lookupPhase_srOf_some {s : String} {pos : List Nat} {n : Nat} {a : Nat → Nat × Nat}
    {comps : List (Nat × Nat)} {p : Nat} {v : List Nat}
    (h : lookupPhase false (target s (srOf pos n a) comps) p = some v) :
    ∃ c, c < n ∧ p = posAt pos c ∧ (a c).1 ≤ 1 ∧ (a c).2 ≤ 1 ∧ v = [(a c).1, (a c).2] := by
  unfold lookupPhase alookupLast at h
  have hm := List.mem_reverse.mp (alookup_mem h)
  rw [phasesOf_target] at hm
  obtain ⟨c, hc, he⟩ := List.mem_filterMap.mp hm
  unfold phaseEntry at he
  split at he
  · rename_i hal
    rw [Bool.and_eq_true, allowed_nat, allowed_nat] at hal
    simp only [Option.some.injEq, Prod.mk.injEq] at he
    exact ⟨c, List.mem_range.mp hc, he.1.symm, hal.1, hal.2, he.2.symm⟩
  · cases he

/-- soundness of the written phase statement: it is the (tie-free, heterozygous) super-read entry of a column -/
theorem written_srOf_some {s : String} {pos : List Nat} {n : Nat} {a : Nat → Nat × Nat}
    {comps : List (Nat × Nat)} {p : Nat} {ph : C09.Phase}
    (h : C09.written false (target s (srOf pos n a) comps) p = some ph) :
    ∃ c m, c < n ∧ p = posAt pos c ∧ (a c).1 ≤ 1 ∧ (a c).2 ≤ 1 ∧ (a c).1 ≠ (a c).2 ∧
      alookup comps p = some m ∧ ph = ⟨some ((m : Int) + 1), [some (a c).1, some (a c).2]⟩ := by
  unfold C09.written at h
  cases hc : alookup (target s (srOf pos n a) comps).comps p with
  | none => rw [hc] at h; cases h
  | some m =>
    cases hl : lookupPhase false (target s (srOf pos n a) comps) p with
    | none => rw [hc, hl] at h; cases h
    | some v =>
      obtain ⟨c, hcn, hp, h1, h2, hv⟩ := lookupPhase_srOf_some hl
      rw [hc, hl] at h
      subst hv
      have hx : (a c).1 = 0 ∨ (a c).1 = 1 := by omega
      have hy : (a c).2 = 0 ∨ (a c).2 = 1 := by omega
      refine ⟨c, m, hcn, hp, h1, h2, ?_, hc, ?_⟩
      · rcases hx with e1 | e1 <;> rcases hy with e2 | e2 <;> rw [e1, e2] at h <;>
          simp [sortNat, insertNat, isHom] at h <;> omega
      · rcases hx with e1 | e1 <;> rcases hy with e2 | e2 <;> rw [e1, e2] at h ⊢ <;>
          simp [sortNat, insertNat, isHom] at h <;> exact h.symm

/-! ### the stage -/

/-- side conditions on the stage input that the pipeline establishes by construction -/
structure PedPipelineOk (S : Stage) : Prop where
  /-- the columns' genomic positions are strictly increasing, one per column -/
  pos_inc : S.pos.Pairwise (· < ·)
  pos_len : S.pos.length = S.I.ncols
  /-- one distinct sample name per individual, all in the VCF header -/
  names_len : S.names.length = S.I.nind
  names_nd : S.names.Nodup
  names_hdr : ∀ n ∈ S.names, n ∈ S.header
  /-- every record has one call per header sample, as pysam presents them -/
  rec_names : ∀ r ∈ S.records, r.calls.map (·.1) = S.header
  rec_wf : ∀ r ∈ S.records, ∀ nc ∈ r.calls, C09.WfCall r.format nc.2
  /-- samples outside the family carry no phase information of their own (else `MixedPhasingError` is legitimate) -/
  rec_other : ∀ r ∈ S.records, ∀ nc ∈ r.calls, nc.1 ∉ S.names → nc.2.phased = false ∧ nc.2.get "HP" = .missing
  /-- the chromosome's records are sorted by position, no duplicates -/
  rec_inc : S.records.Pairwise (fun a b => a.pos < b.pos)

/-- the target of individual `ind` in closed form -/
def memberTarget (S : Stage) (β : List Bool) (τ : List Nat) (comps : List (Nat × Nat)) (ind : Nat) : Target :=
  target (S.names.getD ind "") (srOf S.pos S.pos.length (fun c => colEntry S.I β τ c ind)) comps

theorem stageTargets_eq (S : Stage) (hwf : WF S.I) (hlen : S.pos.length = S.I.ncols) (β : List Bool) (τ : List Nat)
    (hw : witness S.I = some (β, τ)) (comps : List (Nat × Nat)) (hcomps : components S = .ok comps) :
    stageTargets S = some ((List.range S.I.nind).map (memberTarget S β τ comps)) := by
  obtain ⟨cols, hcols, hcl, hcol⟩ := solverColumns_some S.I hwf β τ hw
  unfold stageTargets
  rw [hcols, hcomps]
  simp only [Option.some.injEq]
  apply List.map_congr_left
  intro ind _
  unfold famTarget memberTarget
  congr 1
  rw [zip_map_eq S.pos cols (by omega) (fun L : List (Nat × Nat) => L.getD ind (0, 0)) []]
  unfold srOf
  apply List.map_congr_left
  intro c hc
  obtain ⟨L, hL, hLc⟩ := hcol c (by have := List.mem_range.mp hc; omega)
  have : cols.getD c [] = L := by rw [List.getD_eq_getElem?_getD, hLc]; rfl
  rw [this]
  unfold colEntry
  simp only [hL, Option.getD_some]

theorem findTarget_member (S : Stage) (hin : PedPipelineOk S) (β : List Bool) (τ : List Nat)
    (comps : List (Nat × Nat)) (ind : Nat) (hind : ind < S.I.nind) :
    findTarget (cfg S ((List.range S.I.nind).map (memberTarget S β τ comps))) (S.names.getD ind "") =
      some (memberTarget S β τ comps ind) := by
  have hnames : ((cfg S ((List.range S.I.nind).map (memberTarget S β τ comps))).targets.map (·.name)) = S.names := by
    simp only [cfg, List.map_map]
    rw [← hin.names_len]
    exact range_map_getD S.names
  exact findTarget_of_mem (t := memberTarget S β τ comps ind) (by rw [hnames]; exact hin.names_nd)
    (List.mem_map.mpr ⟨ind, List.mem_range.mpr hind, rfl⟩)

theorem findTarget_nonmember (S : Stage) (hin : PedPipelineOk S) (β : List Bool) (τ : List Nat)
    (comps : List (Nat × Nat)) (n : String) (hn : n ∉ S.names) :
    findTarget (cfg S ((List.range S.I.nind).map (memberTarget S β τ comps))) n = none := by
  cases h : findTarget (cfg S ((List.range S.I.nind).map (memberTarget S β τ comps))) n with
  | none => rfl
  | some t =>
    obtain ⟨hname, hmem⟩ := findTarget_name h
    obtain ⟨ind, hind, rfl⟩ := List.mem_map.mp hmem
    exfalso; apply hn
    rw [← hname]
    change S.names.getD ind "" ∈ S.names
    have hi : ind < S.names.length := by rw [hin.names_len]; exact List.mem_range.mp hind
    rw [List.getD_eq_getElem?_getD, List.getElem?_eq_getElem hi]
    exact List.getElem_mem hi

/-- the whole chain for a family: the stages do not raise, the reader returns one row per biallelic record, and
the decoded phase of every header sample in that row is the writer's statement `C09.written` for that sample's
target (nothing for samples outside the family) -/
theorem ped_stage_rows (S : Stage) (hwf : WF S.I) (hin : PedPipelineOk S) (β : List Bool) (τ : List Nat)
    (hw : witness S.I = some (β, τ)) (comps : List (Nat × Nat)) (hcomps : components S = .ok comps) :
    ∃ rows, pipeline S = some rows ∧
      stageTargets S = some ((List.range S.I.nind).map (memberTarget S β τ comps)) ∧
      rows.map rowPhases = (S.records.filter biallelic).map (fun r => (r.pos,
        S.header.map (expPhase (cfg S ((List.range S.I.nind).map (memberTarget S β τ comps))) r.pos))) := by
  have hT := stageTargets_eq S hwf hin.pos_len β τ hw comps hcomps
  generalize hts : (List.range S.I.nind).map (memberTarget S β τ comps) = ts at hT
  have hok : ∀ r ∈ S.records, CallsOk (cfg S ts) r := by
    intro r hr
    refine ⟨hin.rec_wf r hr, ?_, ?_⟩
    · intro nc hnc
      change nc.1 ∈ S.header
      rw [← hin.rec_names r hr]
      exact List.mem_map.mpr ⟨nc, hnc, rfl⟩
    · intro nc hnc hnone
      apply hin.rec_other r hr nc hnc
      intro hmem
      obtain ⟨ind, hi, he⟩ := List.getElem_of_mem hmem
      have hind : ind < S.I.nind := by rw [← hin.names_len]; exact hi
      have := findTarget_member S hin β τ comps ind hind
      rw [hts] at this
      have hg : S.names.getD ind "" = nc.1 := by
        rw [List.getD_eq_getElem?_getD, List.getElem?_eq_getElem hi, he]; rfl
      rw [hg, hnone] at this
      cases this
  obtain ⟨st', rows, h1, h2⟩ := readChrom_writeChrom_multi (cfg S ts) rfl rfl rfl S.records none none none
    (Or.inl rfl) hok hin.rec_inc (by intro p hp; cases hp) (by intro p hp; cases hp)
  refine ⟨rows, ?_, hT, ?_⟩
  · unfold pipeline writtenRecords
    rw [hT]
    simp only [Option.map_some, h1]
  · rw [h2]
    apply List.map_congr_left
    intro r hr
    have hr' := (List.mem_filter.mp hr).1
    rw [← hin.rec_names r hr', List.map_map]
    rfl

/-- membership form: a decoded phase of header sample `j` in some row is the writer's statement for that sample -/
theorem row_expPhase {rows : List C09.Row} {records : List Record} {header : List String} {cfg : Cfg}
    (h2 : rows.map rowPhases = (records.filter biallelic).map (fun r => (r.pos, header.map (expPhase cfg r.pos))))
    {row : C09.Row} (hrow : row ∈ rows) :
    (∃ r ∈ records, biallelic r = true ∧ r.pos = row.pos) ∧
    ∀ j n, header[j]? = some n → samplePhase row j = expPhase cfg row.pos n := by
  have hm : rowPhases row ∈ rows.map rowPhases := List.mem_map.mpr ⟨row, hrow, rfl⟩
  rw [h2] at hm
  obtain ⟨r, hr, he⟩ := List.mem_map.mp hm
  have hpos : r.pos = row.pos := congrArg Prod.fst he
  have hcalls : header.map (expPhase cfg r.pos) = row.calls.map (·.2) := congrArg Prod.snd he
  refine ⟨⟨r, (List.mem_filter.mp hr).1, (List.mem_filter.mp hr).2, hpos⟩, ?_⟩
  intro j n hj
  have := congrArg (fun l => l[j]?) hcalls
  simp only [List.getElem?_map, hj, Option.map_some] at this
  unfold samplePhase
  cases hc : row.calls[j]? with
  | none => rw [hc] at this; cases this
  | some x =>
    rw [hc] at this
    simp only [Option.map_some, Option.some.injEq] at this
    rw [← hpos, this]; rfl

end WhVerif.C05P

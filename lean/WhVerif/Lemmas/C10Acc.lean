import WhVerif.Lemmas.C10
/-! C10: the accumulation loop computes the spec sums -/
namespace WhVerif.C10

theorem length_bump (s ph : List Nat) (a q : Nat) : (bump s ph a q).length = s.length := by
  simp [bump]

theorem getElem_bump (s ph : List Nat) (a q k : Nat) (hk : k < (bump s ph a q).length) :
    (bump s ph a q)[k] = if ph[k]? = some a then s[k]'(by simpa [bump] using hk) + q else s[k]'(by simpa [bump] using hk) := by
  simp [bump]

theorem lookup_touch (ploidy : Nat) (ps : Int) (ph : List Nat) (a q : Nat) (sc : Scores) (P : Int) :
    (touch ploidy ps ph a q sc).lookup P =
      if P = ps then some (bump ((sc.lookup ps).getD (List.replicate ploidy 0)) ph a q) else sc.lookup P := by
  induction sc with
  | nil =>
    by_cases h : P = ps
    · subst h; simp [touch, List.lookup]
    · have : (P == ps) = false := by simpa using h
      simp [touch, List.lookup, this, h]
  | cons e rest ih =>
    obtain ⟨p, s⟩ := e
    by_cases hp : p = ps
    · subst hp
      by_cases h : P = p
      · subst h; simp [touch, List.lookup]
      · have : (P == p) = false := by simpa using h
        simp [touch, List.lookup, this, h]
    · have hps : (ps == p) = false := by simpa using Ne.symm hp
      simp only [touch, hp, if_false, List.lookup_cons, hps]
      by_cases h : P = ps
      · subst h; simp [hps, ih]
      · cases hPp : (P == p) <;> simp [h, ih]

theorem length_touch (ploidy : Nat) (ps : Int) (ph : List Nat) (a q : Nat) (sc : Scores)
    (h : ∀ e ∈ sc, e.2.length = ploidy) : ∀ e ∈ touch ploidy ps ph a q sc, e.2.length = ploidy := by
  induction sc with
  | nil => intro e he; simp [touch] at he; subst he; simp [length_bump]
  | cons x rest ih =>
    obtain ⟨p, s⟩ := x
    intro e he
    by_cases hp : p = ps
    · simp only [touch, hp, if_true, List.mem_cons] at he
      rcases he with rfl | he
      · simpa [length_bump] using h (p, s) List.mem_cons_self
      · exact h e (List.mem_cons_of_mem _ he)
    · simp only [touch, hp, if_false, List.mem_cons] at he
      rcases he with rfl | he
      · exact h (p, s) List.mem_cons_self
      · exact ih (fun e he => h e (List.mem_cons_of_mem _ he)) e he

theorem keys_touch (ploidy : Nat) (ps : Int) (ph : List Nat) (a q : Nat) (sc : Scores) :
    (touch ploidy ps ph a q sc).map (·.1) = if ps ∈ sc.map (·.1) then sc.map (·.1) else sc.map (·.1) ++ [ps] := by
  induction sc with
  | nil => simp [touch]
  | cons x rest ih =>
    obtain ⟨p, s⟩ := x
    by_cases hp : p = ps
    · simp [touch, hp]
    · have : ¬ ps = p := Ne.symm hp
      simp only [touch, hp, if_false, List.map_cons, ih, List.mem_cons, this, false_or]
      split <;> simp

theorem nodup_touch (ploidy : Nat) (ps : Int) (ph : List Nat) (a q : Nat) (sc : Scores)
    (h : (sc.map (·.1)).Nodup) : ((touch ploidy ps ph a q sc).map (·.1)).Nodup := by
  rw [keys_touch]
  split
  · exact h
  · rename_i hn
    rw [List.nodup_append]
    refine ⟨h, by simp, ?_⟩
    intro x hx y hy
    simp at hy; subst hy
    intro e; subst e; exact hn hx

theorem lookup_of_mem {sc : Scores} (hn : (sc.map (·.1)).Nodup) {P : Int} {s : List Nat} (h : (P, s) ∈ sc) :
    sc.lookup P = some s := by
  induction sc with
  | nil => cases h
  | cons x rest ih =>
    obtain ⟨p, t⟩ := x
    simp only [List.map_cons, List.nodup_cons] at hn
    rcases List.mem_cons.1 h with e | h'
    · injection e with e1 e2; subst e1 e2; simp [List.lookup]
    · have hne : P ≠ p := by
        intro e; subst e
        exact hn.1 (List.mem_map.2 ⟨(P, s), h', rfl⟩)
      have : (P == p) = false := by simpa using hne
      simp [List.lookup, this, ih hn.2 h']

theorem mem_of_lookup {sc : Scores} {P : Int} {s : List Nat} (h : sc.lookup P = some s) : (P, s) ∈ sc := by
  induction sc with
  | nil => simp [List.lookup] at h
  | cons x rest ih =>
    obtain ⟨p, t⟩ := x
    simp only [List.lookup_cons] at h
    cases hb : (P == p) with
    | true =>
      rw [hb] at h; simp at h hb; subst h hb; exact List.mem_cons_self
    | false =>
      rw [hb] at h; exact List.mem_cons_of_mem _ (ih h)

/-- what the loop has established after the variants `done` -/
structure Inv (ploidy : Nat) (info : PhaseInfo) (done : List RV) (sc : Scores) : Prop where
  nodup : (sc.map (·.1)).Nodup
  len : ∀ e ∈ sc, e.2.length = ploidy
  some_ : ∀ P s, sc.lookup P = some s → s = agreeScores ploidy info done P ∧ done.any (touches info P) = true
  none_ : ∀ P, sc.lookup P = none → done.any (touches info P) = false

theorem contrib_eq_zero_of_not_touches {info : PhaseInfo} {P : Int} {v : RV} (h : touches info P v = false) (j : Nat) :
    contrib info P j v = 0 := by
  unfold contrib; unfold touches at h
  split
  · rename_i ps ph heq
    rw [heq] at h
    by_cases hp : ps = P
    · subst hp
      simp at h
      by_cases hc : ph[j]? = some v.allele
      · exact absurd (List.mem_of_getElem? hc) (by simpa using h)
      · simp [hc]
    · simp [hp]
  · rfl

theorem agreeScore_eq_zero {info : PhaseInfo} {P : Int} {rvs : List RV} (h : rvs.any (touches info P) = false) (j : Nat) :
    agreeScore info rvs P j = 0 := by
  induction rvs with
  | nil => simp [agreeScore]
  | cons v vs ih =>
    simp only [List.any_cons, Bool.or_eq_false_iff] at h
    simp only [agreeScore, List.map_cons, List.sum_cons] at ih ⊢
    rw [contrib_eq_zero_of_not_touches h.1, ih h.2]

theorem agreeScore_append (info : PhaseInfo) (a b : List RV) (P : Int) (j : Nat) :
    agreeScore info (a ++ b) P j = agreeScore info a P j + agreeScore info b P j := by
  simp [agreeScore, List.sum_append]

theorem length_agreeScores (ploidy : Nat) (info : PhaseInfo) (rvs : List RV) (P : Int) :
    (agreeScores ploidy info rvs P).length = ploidy := by simp [agreeScores]

theorem getElem_agreeScores (ploidy : Nat) (info : PhaseInfo) (rvs : List RV) (P : Int) (j : Nat)
    (hj : j < (agreeScores ploidy info rvs P).length) :
    (agreeScores ploidy info rvs P)[j] = agreeScore info rvs P j := by simp [agreeScores]

theorem inv_step {ploidy : Nat} {info : PhaseInfo} {done : List RV} {sc sc' : Scores} {v : RV}
    (hi : Inv ploidy info done sc) (hs : step ploidy info sc v = .ok sc') : Inv ploidy info (done ++ [v]) sc' := by
  unfold step at hs
  by_cases ha : 2 ≤ v.allele
  · simp [ha] at hs
  simp only [ha, if_false] at hs
  cases hl : info.lookup v.pos with
  | none => simp [hl] at hs
  | some e =>
    obtain ⟨ps, ph⟩ := e
    simp only [hl] at hs
    injection hs with hs
    have hcontrib : ∀ P j, contrib info P j v = if ps = P ∧ ph[j]? = some v.allele then v.qual else 0 := by
      intro P j; simp [contrib, hl]
    have htouch : ∀ P, touches info P v = (ps == P && ph.contains v.allele) := by
      intro P; simp [touches, hl]
    by_cases hc : ph.contains v.allele = true
    · simp only [hc, if_true] at hs
      subst hs
      have hmem : v.allele ∈ ph := by simpa using hc
      refine ⟨nodup_touch _ _ _ _ _ _ hi.nodup, length_touch _ _ _ _ _ _ hi.len, ?_, ?_⟩
      · intro P s hP
        rw [lookup_touch] at hP
        by_cases hPp : P = ps
        · subst hPp
          simp only [if_true, Option.some.injEq] at hP
          refine ⟨?_, by simp [htouch, hmem]⟩
          have hbase : (sc.lookup P).getD (List.replicate ploidy 0) = agreeScores ploidy info done P := by
            cases ho : sc.lookup P with
            | none =>
              simp only [Option.getD_none]
              apply List.ext_getElem (by simp [length_agreeScores])
              intro k _ _
              simp [getElem_agreeScores, agreeScore_eq_zero (hi.none_ P ho)]
            | some t => simpa using (hi.some_ P t ho).1
          rw [hbase] at hP
          subst hP
          apply List.ext_getElem (by simp [length_bump, length_agreeScores])
          intro k h1 h2
          rw [getElem_bump, getElem_agreeScores, getElem_agreeScores, agreeScore_append]
          have hone : agreeScore info [v] P k = if ph[k]? = some v.allele then v.qual else 0 := by
            simp [agreeScore, hcontrib]
          rw [hone]
          split <;> simp
        · simp only [hPp, if_false] at hP
          obtain ⟨h1, h2⟩ := hi.some_ P s hP
          refine ⟨?_, by simp [h2]⟩
          subst h1
          apply List.ext_getElem (by simp [length_agreeScores])
          intro k _ _
          have hne : ¬ ps = P := fun e => hPp e.symm
          simp [getElem_agreeScores, agreeScore, hcontrib, hne]
      · intro P hP
        rw [lookup_touch] at hP
        by_cases hPp : P = ps
        · simp [hPp] at hP
        · simp only [hPp, if_false] at hP
          have hne : (ps == P) = false := by simpa using fun e : ps = P => hPp e.symm
          simp [hi.none_ P hP, htouch, hne]
    · simp only [hc] at hs
      simp only [Bool.false_eq_true, if_false] at hs
      subst hs
      have hc' : ph.contains v.allele = false := by simpa using hc
      have hnm : v.allele ∉ ph := by simpa using hc'
      have hz : ∀ P k, contrib info P k v = 0 := by
        intro P k
        apply contrib_eq_zero_of_not_touches
        simp [htouch, hnm]
      refine ⟨hi.nodup, hi.len, ?_, ?_⟩
      · intro P s hP
        obtain ⟨h1, h2⟩ := hi.some_ P s hP
        refine ⟨?_, by simp [h2]⟩
        subst h1
        apply List.ext_getElem (by simp [length_agreeScores])
        intro k _ _
        simp [getElem_agreeScores, agreeScore, hz]
      · intro P hP
        have := hi.none_ P hP
        simp only [List.any_eq_false] at this
        simp only [List.any_append, List.any_cons, List.any_nil, Bool.or_false, Bool.or_eq_false_iff]
        exact ⟨by simpa using this, by simp [htouch, hnm]⟩

theorem inv_accumulate {ploidy : Nat} {info : PhaseInfo} {done rvs : List RV} {sc sc' : Scores}
    (hi : Inv ploidy info done sc) (hs : accumulate ploidy info sc rvs = .ok sc') :
    Inv ploidy info (done ++ rvs) sc' := by
  induction rvs generalizing done sc with
  | nil => simp [accumulate] at hs; subst hs; simpa using hi
  | cons v vs ih =>
    simp only [accumulate] at hs
    cases h1 : step ploidy info sc v with
    | error e => simp [h1] at hs
    | ok sc1 =>
      simp only [h1] at hs
      have := ih (inv_step hi h1) hs
      simpa using this

theorem inv_nil (ploidy : Nat) (info : PhaseInfo) : Inv ploidy info [] [] :=
  ⟨by simp, by simp, by simp [List.lookup], by simp⟩

end WhVerif.C10

import WhVerif.Model.C06
import WhVerif.Lemmas.C06Iter
import WhVerif.Lemmas.C06NoRef
/-! Lemmas on `enumFrom` (index/position pairs of the variant list). -/
namespace WhVerif.C06

theorem mem_enumFrom' {α} (l : List α) (n k : Nat) (x : α) :
    (k, x) ∈ enumFrom n l ↔ n ≤ k ∧ l[k - n]? = some x := by
  induction l generalizing n with
  | nil => simp [enumFrom]
  | cons y ys ih =>
    simp only [enumFrom, List.mem_cons, Prod.mk.injEq, ih]
    constructor
    · rintro (⟨rfl, rfl⟩ | ⟨h1, h2⟩)
      · simp
      · refine ⟨by omega, ?_⟩
        have : k - n = (k - (n + 1)) + 1 := by omega
        rw [this]; simpa using h2
    · rintro ⟨h1, h2⟩
      by_cases hk : k = n
      · left; subst hk; simp at h2; exact ⟨rfl, h2.symm⟩
      · right; refine ⟨by omega, ?_⟩
        have : k - n = (k - (n + 1)) + 1 := by omega
        rw [this] at h2; simpa using h2

theorem enumFrom_sorted (l : List Nat) (n : Nat) (hs : l.Pairwise (· < ·)) : SortedV (enumFrom n l) := by
  induction l generalizing n with
  | nil => simp [enumFrom, SortedV]
  | cons x xs ih =>
    simp only [List.pairwise_cons] at hs
    simp only [enumFrom, SortedV, List.pairwise_cons]
    refine ⟨?_, ih (n + 1) hs.2⟩
    intro b hb
    obtain ⟨k, y⟩ := b
    have := ((mem_enumFrom' xs (n + 1) k y).1 hb).2
    exact hs.1 y (List.mem_of_getElem? this)

theorem enumFrom_drop {α} (l : List α) (n j : Nat) : (enumFrom n l).drop j = enumFrom (n + j) (l.drop j) := by
  induction j generalizing l n with
  | zero => simp
  | succ j ih =>
    cases l with
    | nil => simp [enumFrom]
    | cons x xs => simp only [enumFrom, List.drop_succ_cons, ih]; congr 1; omega

/-- the variants a yield can refer to: index ≥ `j`, position = `positions[index]` -/
theorem mem_varRefsFrom (positions : List Nat) (j k p : Nat) (h : (k, p) ∈ varRefsFrom positions j) :
    j ≤ k ∧ positions[k]? = some p := by
  unfold varRefsFrom at h
  rw [enumFrom_drop] at h
  have := (mem_enumFrom' _ _ k p).1 h
  refine ⟨by omega, ?_⟩
  have h2 := this.2
  rw [List.getElem?_drop] at h2
  have e : j + (k - (0 + j)) = k := by omega
  rwa [e] at h2

theorem mem_enumFrom_snd {α} (l : List α) (n k : Nat) (x : α) (h : (k, x) ∈ enumFrom n l) : x ∈ l :=
  List.mem_of_getElem? ((mem_enumFrom' l n k x).1 h).2

theorem enumFrom_sortedP (l : List Variant) (n : Nat) (hs : l.Pairwise (fun a b => a.pos < b.pos)) :
    SortedP (enumFrom n l) := by
  induction l generalizing n with
  | nil => simp [enumFrom, SortedP]
  | cons x xs ih =>
    simp only [List.pairwise_cons] at hs
    simp only [enumFrom, SortedP, List.pairwise_cons]
    refine ⟨?_, ih (n + 1) hs.2⟩
    intro b hb
    obtain ⟨k, y⟩ := b
    exact Nat.le_of_lt (hs.1 y (mem_enumFrom_snd xs (n + 1) k y hb))


end WhVerif.C06

import WhVerif.Lemmas.C11Real
/-!
# C11: listing the haplotypes of either phasing in another order (polyploid part)

`relabelHaps τ ph` lists the haplotypes of `ph` in the order `τ` (new haplotype `k` = old haplotype `τ k`).
A sequence of correspondences for `(ph0, ph1)` is carried to one for the relabelled instance with the SAME
switch and flip counts: `σ ↦ σ ∘ υ` when phasing 1 is relabelled by `υ`, `σ ↦ τ⁻¹ ∘ σ` when phasing 0 is relabelled
by `τ`.  Hence the set of attainable `(switches, flips)` pairs, the brute-force minimum and the cost the calculator
returns are the same for every listing order; where the cost determines the pair (the two cost regimes `compare_block`
uses) so is the reported pair.
-/
namespace WhVerif.C11

/-- `ι` is the inverse of `τ` on `{0..p-1}` -/
def IsInv (p : Nat) (τ ι : Perm) : Prop :=
  τ.length = p ∧ ι.length = p ∧
    ∀ x, x < p → (ι.getD x 0 < p ∧ τ.getD (ι.getD x 0) 0 = x ∧ τ.getD x 0 < p ∧ ι.getD (τ.getD x 0) 0 = x)

instance (p : Nat) (τ ι : Perm) : Decidable (IsInv p τ ι) := by unfold IsInv; infer_instance

theorem IsInv.symm {p : Nat} {τ ι : Perm} (h : IsInv p τ ι) : IsInv p ι τ :=
  ⟨h.2.1, h.1, fun x hx => ⟨(h.2.2 x hx).2.2.1, (h.2.2 x hx).2.2.2, (h.2.2 x hx).1, (h.2.2 x hx).2.1⟩⟩

/-! ### small list facts -/

theorem getD_map_lt {α β} (l : List α) (f : α → β) (k : Nat) (d : α) (e : β) (h : k < l.length) :
    (l.map f).getD k e = f (l.getD k d) := by
  simp [List.getD_eq_getElem?_getD, List.getElem?_map, List.getElem?_eq_getElem h]

theorem eq_range_map {α} (l : List α) (d : α) : (List.range l.length).map (l.getD · d) = l := by
  apply List.ext_getElem
  · simp
  · intro i h1 h2
    simp [List.getD_eq_getElem?_getD, List.getElem?_eq_getElem h2]

theorem hamming_map_map {α} (ι : List α) (f g : α → Nat) :
    hamming (ι.map f) (ι.map g) = ι.countP (fun j => f j != g j) := by
  induction ι with
  | nil => simp [hamming]
  | cons a ι ih =>
    simp only [List.map_cons, hamming, ih, List.countP_cons]
    by_cases h : f a = g a <;> simp [h] <;> omega

theorem numFlips_map_map (ι : List Nat) (f g : Nat → Nat) (c0 : List Nat) :
    numFlips (ι.map f) c0 (ι.map g) = ι.countP (fun j => c0.getD (f j) 0 != g j) := by
  simp only [numFlips, List.zip_map', List.filter_map, List.length_map, List.countP_eq_length_filter]
  rfl

theorem numFlips_map_left (σ : List Nat) (g : Nat → Nat) (c0 c0' c1 : List Nat)
    (h : ∀ x ∈ σ, c0'.getD (g x) 0 = c0.getD x 0) :
    numFlips (σ.map g) c0' c1 = numFlips σ c0 c1 := by
  induction σ generalizing c1 with
  | nil => simp [numFlips]
  | cons x σ ih =>
    cases c1 with
    | nil => simp [numFlips]
    | cons y c1 =>
      have ih' := ih c1 (fun z hz => h z (List.mem_cons_of_mem _ hz))
      have hx := h x List.mem_cons_self
      simp only [numFlips, List.map_cons, List.zip_cons_cons, List.filter_cons, hx] at ih' ⊢
      split <;> simp only [List.length_cons, ih']

theorem hamming_map_inj (a b : List Nat) (g : Nat → Nat)
    (h : ∀ x ∈ a, ∀ y ∈ b, g x = g y → x = y) : hamming (a.map g) (b.map g) = hamming a b := by
  induction a generalizing b with
  | nil => simp [hamming]
  | cons x a ih =>
    cases b with
    | nil => simp [hamming]
    | cons y b =>
      have ih' := ih b (fun u hu v hv => h u (List.mem_cons_of_mem _ hu) v (List.mem_cons_of_mem _ hv))
      have hxy := h x List.mem_cons_self y List.mem_cons_self
      simp only [List.map_cons, hamming, ih']
      by_cases e : x = y
      · simp [e]
      · have : g x ≠ g y := fun c => e (hxy c)
        simp [e, this]

/-! ### the two actions on a single correspondence -/

/-- phasing 1 relabelled by `υ`, correspondence `σ ∘ υ` -/
theorem numFlips_relabel_right (p : Nat) (υ σ c0 c1 : List Nat) (hυ : υ.Perm (List.range p))
    (hσ : σ.length = p) (hc : c1.length = p) :
    numFlips (relabel υ σ) c0 (relabel υ c1) = numFlips σ c0 c1 := by
  have h1 : numFlips σ c0 c1 = numFlips ((List.range p).map (σ.getD · 0)) c0 ((List.range p).map (c1.getD · 0)) := by
    conv => lhs; rw [← eq_range_map σ 0, ← eq_range_map c1 0, hσ, hc]
  rw [h1]
  simp only [relabel, numFlips_map_map]
  exact hυ.countP_eq _

theorem hamming_relabel_right (p : Nat) (υ a b : List Nat) (hυ : υ.Perm (List.range p))
    (ha : a.length = p) (hb : b.length = p) :
    hamming (relabel υ a) (relabel υ b) = hamming a b := by
  have h1 : hamming a b = hamming ((List.range p).map (a.getD · 0)) ((List.range p).map (b.getD · 0)) := by
    conv => lhs; rw [← eq_range_map a 0, ← eq_range_map b 0, ha, hb]
  rw [h1]
  simp only [relabel, hamming_map_map]
  exact hυ.countP_eq _

/-- phasing 0 relabelled by `τ`, correspondence `τ⁻¹ ∘ σ` (= `relabel σ ι`) -/
theorem numFlips_relabel_left (p : Nat) (τ ι σ c0 c1 : List Nat) (hinv : IsInv p τ ι) (hσ : ∀ x ∈ σ, x < p) :
    numFlips (relabel σ ι) (relabel τ c0) c1 = numFlips σ c0 c1 := by
  apply numFlips_map_left
  intro x hx
  obtain ⟨h1, h2, h3⟩ := hinv
  obtain ⟨h4, h5, _, _⟩ := h3 x (hσ x hx)
  rw [relabel, getD_map_lt τ _ _ 0 0 (by omega), h5]

theorem hamming_relabel_left (p : Nat) (τ ι a b : List Nat) (hinv : IsInv p τ ι)
    (ha : ∀ x ∈ a, x < p) (hb : ∀ x ∈ b, x < p) :
    hamming (relabel a ι) (relabel b ι) = hamming a b := by
  apply hamming_map_inj
  intro x hx y hy hxy
  have h1 := (hinv.2.2 x (ha x hx)).2.1
  have h2 := (hinv.2.2 y (hb y hy)).2.1
  rw [← h1, ← h2, hxy]

/-! ### transport of whole sequences -/

theorem seq_transport (ps : List Perm) (T : Perm → Perm)
    (C : (List Nat × List Nat) → (List Nat × List Nat)) (cols : List (List Nat × List Nat))
    (hT : ∀ σ ∈ ps, T σ ∈ ps)
    (hH : ∀ a ∈ ps, ∀ b ∈ ps, hamming (T a) (T b) = hamming a b)
    (hF : ∀ σ ∈ ps, ∀ c ∈ cols, numFlips (T σ) (C c).1 (C c).2 = numFlips σ c.1 c.2)
    (s : List Perm) (hs : ∀ r ∈ s, r ∈ ps) :
    (∀ r ∈ s.map T, r ∈ ps) ∧ Spec.seqSwitches (s.map T) = Spec.seqSwitches s ∧
      Spec.seqFlips (s.map T) (cols.map C) = Spec.seqFlips s cols := by
  refine ⟨?_, ?_, ?_⟩
  · intro r hr
    obtain ⟨q, hq, rfl⟩ := List.mem_map.1 hr
    exact hT q (hs q hq)
  · induction s with
    | nil => rfl
    | cons a s ih =>
      cases s with
      | nil => rfl
      | cons b s =>
        have ih' := ih (fun r hr => hs r (List.mem_cons_of_mem _ hr))
        simp only [List.map_cons, Spec.seqSwitches] at ih' ⊢
        rw [ih', hH a (hs a List.mem_cons_self) b (hs b (List.mem_cons_of_mem _ List.mem_cons_self))]
  · induction s generalizing cols with
    | nil => cases cols <;> simp [Spec.seqFlips]
    | cons a s ih =>
      cases cols with
      | nil => simp [Spec.seqFlips]
      | cons c cs =>
        obtain ⟨c0, c1⟩ := c
        have ih' := ih cs (fun σ hσ c hc => hF σ hσ c (List.mem_cons_of_mem _ hc))
          (fun r hr => hs r (List.mem_cons_of_mem _ hr))
        have h0 := hF a (hs a List.mem_cons_self) (c0, c1) List.mem_cons_self
        simp only [List.map_cons, Spec.seqFlips] at ih' ⊢
        show numFlips (T a) (C (c0, c1)).1 (C (c0, c1)).2 + _ = _
        rw [h0, ih']

/-- the brute-force value: minimum of the objective over all sequences of elements of `ps` -/
def bruteValue (ps : List Perm) (sc fc : Nat) (cols : List (List Nat × List Nat)) : Nat :=
  listMin ((Spec.seqs ps cols.length).map fun s => sc * Spec.seqSwitches s + fc * Spec.seqFlips s cols)

theorem seqs_ne_nil (ps : List Perm) (hne : ps ≠ []) (n : Nat) : Spec.seqs ps n ≠ [] := by
  obtain ⟨q, hq⟩ := List.exists_mem_of_ne_nil ps hne
  refine List.ne_nil_of_mem (a := List.replicate n q) ((mem_seqs ps n _).2 ⟨by simp, ?_⟩)
  intro r hr
  rw [(List.mem_replicate.1 hr).2]; exact hq

theorem bruteValue_transport_le (ps : List Perm) (hne : ps ≠ []) (sc fc : Nat) (T : Perm → Perm)
    (C : (List Nat × List Nat) → (List Nat × List Nat)) (cols : List (List Nat × List Nat))
    (hT : ∀ σ ∈ ps, T σ ∈ ps)
    (hH : ∀ a ∈ ps, ∀ b ∈ ps, hamming (T a) (T b) = hamming a b)
    (hF : ∀ σ ∈ ps, ∀ c ∈ cols, numFlips (T σ) (C c).1 (C c).2 = numFlips σ c.1 c.2) :
    bruteValue ps sc fc (cols.map C) ≤ bruteValue ps sc fc cols := by
  have hm := listMin_mem (l := (Spec.seqs ps cols.length).map
    fun s => sc * Spec.seqSwitches s + fc * Spec.seqFlips s cols) (by simpa using seqs_ne_nil ps hne _)
  obtain ⟨s, hs, hse⟩ := List.mem_map.1 hm
  obtain ⟨hl, hall⟩ := (mem_seqs _ _ _).1 hs
  obtain ⟨h1, h2, h3⟩ := seq_transport ps T C cols hT hH hF s hall
  unfold bruteValue
  rw [← hse, ← h2, ← h3]
  apply listMin_le_of_mem
  refine List.mem_map.2 ⟨s.map T, (mem_seqs _ _ _).2 ⟨by simp [hl], h1⟩, ?_⟩
  simp

/-- the calculator's cost is the brute-force value -/
theorem polyCompare_cost_eq_bruteValue (fixA : Bool) (p sc fc : Nat)
    (cols : List (List Nat × List Nat)) :
    (polyCompare fixA p sc fc cols).cost = bruteValue (perms p) sc fc cols := by
  rw [polyCompare_cost_eq_full fixA p sc fc (perms_ne_nil p) (perms_length p) cols,
    polyCompareFull_cost p sc fc (perms_ne_nil p) cols]
  rfl

/-! ### facts about `perms p` for every `p`: `Lemmas/C11Perms.lean` -/

theorem perms_inverse (p : Nat) : ∀ τ ∈ perms p, ∃ ι ∈ perms p, IsInv p τ ι := by
  intro τ hτ
  obtain ⟨h1, h2, h3, h4⟩ := invPerm_spec p τ hτ
  exact ⟨invPerm p τ, h1, h2, h3, h4⟩

end WhVerif.C11

import WhVerif.Model.C03Header
/-! helper lemmas for the text of a phase set identifier (`Model/C03Header.lean`) -/
namespace WhVerif.C03.Header.L
open WhVerif.C03.Header

theorem parseDigit_digitChar_fin : ∀ d : Fin 10, parseDigit (digitChar d.val) = some d.val := by decide

theorem parseDigit_digitChar (d : Nat) (h : d < 10) : parseDigit (digitChar d) = some d :=
  parseDigit_digitChar_fin ⟨d, h⟩

theorem parseRev_decRevF : ∀ (fuel n : Nat), n < fuel → parseRev (decRevF fuel n) = some n := by
  intro fuel
  induction fuel with
  | zero => intro n h; omega
  | succ fuel ih =>
    intro n h
    unfold decRevF
    by_cases h10 : n < 10
    · simp only [h10, if_true, parseRev]
      exact parseDigit_digitChar n h10
    · simp only [h10, if_false]
      have hlt : n / 10 < fuel := by omega
      have hrec := ih (n / 10) hlt
      cases hcs : decRevF fuel (n / 10) with
      | nil => rw [hcs] at hrec; simp [parseRev] at hrec
      | cons c cs =>
        rw [hcs] at hrec
        have hd := parseDigit_digitChar (n % 10) (by omega)
        simp only [parseRev, hd, hrec]
        congr 1
        omega

theorem parseDec_renderDec (n : Nat) : parseDec (renderDec n) = some n := by
  unfold parseDec renderDec decRev
  rw [List.reverse_reverse]
  exact parseRev_decRevF (n + 1) n (by omega)

theorem shiftFor_zero_of_lt (fuel n : Nat) (h : n < 2 ^ 24) : shiftFor fuel n 0 = 0 := by
  cases fuel with
  | zero => rfl
  | succ f => simp [shiftFor, h]

theorem toF32_of_lt (n : Nat) (h : n < 2 ^ 24) : toF32 n = n := by
  simp [toF32, shiftFor_zero_of_lt n n h]

end WhVerif.C03.Header.L

import Mathlib.Data.Nat.Choose.Basic
import WhVerif.Model.C19
import WhVerif.Spec.C19
/-!
# The combinatorial number system behind `get_index` / `convert_index_to_alleles`

* `binom = Nat.choose` (loop invariant `result = C(n, i)`),
* `getIndexL g = Σ_k C(k + a_k - 1, k)` (`idxSum`), on a snoc: `idx (g ++ [x]) = idx g + C(|g| + x, |g| + 1)`,
* `idx_lt`: alleles `≤ a` ⇒ `idx g < C(p + a, p)` (Pascal),
* `findAllele_spec`: the linear search returns the largest allele whose block starts at or before `leftover`,
  capped by `max_allele_index`,
* `loop_roundtrip`, `loop_inverse`: the two directions of the bijection.
-/
namespace WhVerif.C19
open Nat

/-! ## binomial.cpp -/

theorem binomLoop_choose (n : Nat) : ∀ (cnt i : Nat), i + cnt ≤ n → binomLoop n cnt i (choose n i) = choose n (i + cnt) := by
  intro cnt
  induction cnt with
  | zero => intro i _; rfl
  | succ cnt ih =>
    intro i h
    simp only [binomLoop]
    have : choose n i * (n - i) / (i + 1) = choose n (i + 1) := by
      rw [← Nat.choose_succ_right_eq, Nat.mul_div_cancel _ (by omega)]
    rw [this, ih (i + 1) (by omega)]
    congr 1; omega

theorem binom_eq (n k : Nat) : binom n k = choose n k := by
  unfold binom
  by_cases h : n < k
  · simp [h, Nat.choose_eq_zero_of_lt h]
  · simp only [h, if_false]
    have := binomLoop_choose n
    by_cases hk : k > n - k
    · simp only [hk, if_true]
      have h1 := this (n - k) 0 (by omega)
      simp only [Nat.choose_zero_right, Nat.zero_add] at h1
      rw [h1, Nat.choose_symm (by omega)]
    · simp only [hk, if_false]
      have h1 := this k 0 (by omega)
      simpa using h1

theorem binomInt_eq (n k : Int) :
    binomInt n k = if k < 0 ∨ n < 0 ∨ n < k then 0 else (choose n.toNat k.toNat : Int) := by
  unfold binomInt; rw [binom_eq]

/-- the term `binomial_coefficient(k + allele - 1, allele - 1)` of `get_index` -/
theorem binomInt_term (k a : Nat) (hk : 1 ≤ k) :
    binomInt ((k : Int) + (a : Int) - 1) ((a : Int) - 1) = (choose (k + a - 1) k : Int) := by
  rw [binomInt_eq]
  cases a with
  | zero =>
    have h0 : (((0 : Nat) : Int) - 1 < 0 ∨ (k : Int) + ((0 : Nat) : Int) - 1 < 0 ∨
        (k : Int) + ((0 : Nat) : Int) - 1 < ((0 : Nat) : Int) - 1) := Or.inl (by omega)
    rw [if_pos h0]
    have : choose (k + 0 - 1) k = 0 := Nat.choose_eq_zero_of_lt (by omega)
    rw [this]; rfl
  | succ a =>
    have h1 : ¬ (((a + 1 : Nat) : Int) - 1 < 0 ∨ (k : Int) + ((a + 1 : Nat) : Int) - 1 < 0 ∨
        (k : Int) + ((a + 1 : Nat) : Int) - 1 < ((a + 1 : Nat) : Int) - 1) := by omega
    rw [if_neg h1]
    have e1 : ((k : Int) + ((a + 1 : Nat) : Int) - 1).toNat = k + a := by omega
    have e2 : (((a + 1 : Nat) : Int) - 1).toNat = a := by omega
    rw [e1, e2]
    have : k + (a + 1) - 1 = k + a := by omega
    rw [this]
    have := Nat.choose_symm (n := k + a) (k := k) (by omega)
    rw [← this]
    congr 2; omega

/-! ## get_index -/

def idxSum : Nat → List Nat → Nat
  | _, [] => 0
  | k, a :: as => choose (k + a - 1) k + idxSum (k + 1) as

theorem getIndexLoop_eq : ∀ (g : List Nat) (k : Nat) (acc : Int), 1 ≤ k →
    getIndexLoop k acc g = acc + (idxSum k g : Int) := by
  intro g
  induction g with
  | nil => intro k acc _; simp [getIndexLoop, idxSum]
  | cons a as ih =>
    intro k acc hk
    simp only [getIndexLoop, idxSum]
    rw [ih (k + 1) _ (by omega), binomInt_term k a hk]
    push_cast; omega

def idx (g : List Nat) : Nat := idxSum 1 g

theorem getIndexL_eq (g : List Nat) : getIndexL g = idx g := by
  unfold getIndexL idx
  rw [getIndexLoop_eq g 1 0 (by omega)]
  simp

theorem idxSum_snoc : ∀ (g : List Nat) (k x : Nat),
    idxSum k (g ++ [x]) = idxSum k g + choose (k + g.length + x - 1) (k + g.length) := by
  intro g
  induction g with
  | nil => intro k x; simp [idxSum]
  | cons a as ih =>
    intro k x
    simp only [List.cons_append, idxSum, ih, List.length_cons]
    have e1 : k + 1 + as.length + x - 1 = k + (as.length + 1) + x - 1 := by omega
    have e2 : k + 1 + as.length = k + (as.length + 1) := by omega
    rw [e1, e2]; omega

theorem idx_nil : idx [] = 0 := rfl

theorem idx_snoc (g : List Nat) (x : Nat) : idx (g ++ [x]) = idx g + choose (g.length + x) (g.length + 1) := by
  unfold idx
  rw [idxSum_snoc]
  have e1 : 1 + g.length + x - 1 = g.length + x := by omega
  have e2 : 1 + g.length = g.length + 1 := by omega
  rw [e1, e2]

/-! ## bounds -/

theorem exists_snoc (g : List Nat) (p : Nat) (hl : g.length = p + 1) : ∃ g' x, g = g' ++ [x] := by
  rcases List.eq_nil_or_concat g with h | ⟨L, b, h⟩
  · subst h; simp at hl
  · exact ⟨L, b, by rw [h, List.concat_eq_append]⟩

abbrev Asc (g : List Nat) : Prop := g.Pairwise (· ≤ ·)

theorem asc_snoc (g : List Nat) (x : Nat) : Asc (g ++ [x]) ↔ Asc g ∧ ∀ y ∈ g, y ≤ x := by
  unfold Asc
  rw [List.pairwise_append]
  simp

theorem pascal (n k : Nat) : choose (n + 1) (k + 1) = choose n k + choose n (k + 1) := Nat.choose_succ_succ n k

/-- alleles `≤ a` ⇒ index below the number of multisets over `a + 1` alleles -/
theorem idx_lt : ∀ (p : Nat) (g : List Nat) (a : Nat), g.length = p → Asc g → (∀ y ∈ g, y ≤ a) →
    idx g < choose (p + a) p := by
  intro p
  induction p with
  | zero =>
    intro g a hl _ _
    have : g = [] := List.length_eq_zero_iff.mp hl
    subst this; simp [idx_nil]
  | succ p ih =>
    intro g a hl hs ha
    obtain ⟨g', x, rfl⟩ := exists_snoc g p hl
    have hl' : g'.length = p := by simp at hl; omega
    rw [asc_snoc] at hs
    have hx : x ≤ a := ha x (by simp)
    have h1 := ih g' x hl' hs.1 hs.2
    rw [idx_snoc, hl']
    have h2 : choose (p + x + 1) (p + 1) = choose (p + x) p + choose (p + x) (p + 1) := pascal _ _
    have h3 : choose (p + x + 1) (p + 1) ≤ choose (p + 1 + a) (p + 1) := Nat.choose_le_choose _ (by omega)
    omega

theorem le_choose (p a : Nat) (hp : 1 ≤ p) : a ≤ choose (p + a - 1) p := by
  induction p with
  | zero => omega
  | succ p ih =>
    by_cases hp0 : p = 0
    · subst hp0; simp
    · have := ih (by omega)
      cases a with
      | zero => omega
      | succ a =>
        have e : p + 1 + (a + 1) - 1 = (p + a) + 1 := by omega
        rw [e, pascal]
        have e2 : p + (a + 1) - 1 = p + a := by omega
        rw [e2] at this
        omega

theorem succ_le_choose (p i : Nat) (hp : 1 ≤ p) : i + 1 ≤ choose (p + i) p := by
  have := le_choose p (i + 1) hp
  have e : p + (i + 1) - 1 = p + i := by omega
  rwa [e] at this

/-- every allele of an ascending genotype is at most its index (so `max_allele_index = index` never binds) -/
theorem mem_le_idx : ∀ (p : Nat) (g : List Nat), g.length = p → Asc g → ∀ y ∈ g, y ≤ idx g := by
  intro p
  induction p with
  | zero =>
    intro g hl _ y hy
    have : g = [] := List.length_eq_zero_iff.mp hl
    subst this; simp at hy
  | succ p ih =>
    intro g hl hs y hy
    obtain ⟨g', x, rfl⟩ := exists_snoc g p hl
    have hl' : g'.length = p := by simp at hl; omega
    rw [asc_snoc] at hs
    rw [idx_snoc, hl']
    have hx := le_choose (p + 1) x (by omega)
    have e : p + 1 + x - 1 = p + x := by omega
    rw [e] at hx
    have : y ≤ x := by
      rcases List.mem_append.mp hy with h | h
      · exact hs.2 y h
      · simp at h; omega
    omega

/-! ## the inner search -/

theorem choose_strict (pth a : Nat) (hp : 1 ≤ pth) : choose (pth + a - 1) pth < choose (pth + a) pth := by
  obtain ⟨q, rfl⟩ : ∃ q, pth = q + 1 := ⟨pth - 1, by omega⟩
  have e : q + 1 + a - 1 = q + a := by omega
  have e2 : q + 1 + a = (q + a) + 1 := by omega
  rw [e, e2, pascal]
  have : 0 < choose (q + a) q := Nat.choose_pos (by omega)
  omega

theorem findAllele_spec (pth L M : Nat) (hp : 1 ≤ pth) :
    ∀ (a : Nat), a ≤ M → (∀ a', a' < a → choose (pth + a' - 1) pth < L) →
      findAllele pth L M a ≤ M ∧ choose (pth + findAllele pth L M a - 1) pth ≤ L ∧
      (findAllele pth L M a = M ∨ L < choose (pth + findAllele pth L M a) pth) := by
  intro a
  induction h : M - a generalizing a with
  | zero =>
    intro ha hinv
    have haM : a = M := by omega
    unfold findAllele
    rw [binom_eq]
    have c1 : choose (pth + a - 1) pth ≥ L ∨ a ≥ M := Or.inr (by omega)
    simp only [c1, if_true]
    by_cases c2 : choose (pth + a - 1) pth > L
    · simp only [c2, if_true]
      have ha0 : a ≠ 0 := by
        intro h0; subst h0
        have : choose (pth + 0 - 1) pth = 0 := Nat.choose_eq_zero_of_lt (by omega)
        omega
      have hprev := hinv (a - 1) (by omega)
      have e : pth + (a - 1) = pth + a - 1 := by omega
      refine ⟨by omega, by omega, Or.inr ?_⟩
      rw [e]; exact c2
    · simp only [c2, if_false]
      exact ⟨by omega, by omega, Or.inl haM⟩
  | succ d ih =>
    intro ha hinv
    unfold findAllele
    rw [binom_eq]
    by_cases c1 : choose (pth + a - 1) pth ≥ L ∨ a ≥ M
    · simp only [c1, if_true]
      have c1' : choose (pth + a - 1) pth ≥ L := by omega
      by_cases c2 : choose (pth + a - 1) pth > L
      · simp only [c2, if_true]
        have ha0 : a ≠ 0 := by
          intro h0; subst h0
          have : choose (pth + 0 - 1) pth = 0 := Nat.choose_eq_zero_of_lt (by omega)
          omega
        have hprev := hinv (a - 1) (by omega)
        have e : pth + (a - 1) = pth + a - 1 := by omega
        refine ⟨by omega, by omega, Or.inr ?_⟩
        rw [e]; exact c2
      · simp only [c2, if_false]
        have := choose_strict pth a hp
        exact ⟨by omega, by omega, Or.inr (by omega)⟩
    · simp only [c1, if_false]
      apply ih (a + 1) (by omega) (by omega)
      intro a' ha'
      by_cases e : a' = a
      · subst e; omega
      · exact hinv a' (by omega)

/-! ## the outer loop: both directions -/

/-- alleles → index → alleles -/
theorem loop_roundtrip : ∀ (p : Nat) (g : List Nat) (M : Nat), g.length = p → Asc g → (∀ y ∈ g, y ≤ M) →
    indexToAllelesLoop p M (idx g) = g := by
  intro p
  induction p with
  | zero =>
    intro g M hl _ _
    have : g = [] := List.length_eq_zero_iff.mp hl
    subst this; rfl
  | succ p ih =>
    intro g M hl hs hM
    obtain ⟨g', x, rfl⟩ := exists_snoc g p hl
    have hl' : g'.length = p := by simp at hl; omega
    rw [asc_snoc] at hs
    have hxM : x ≤ M := hM x (by simp)
    have hlt := idx_lt p g' x hl' hs.1 hs.2
    simp only [indexToAllelesLoop]
    obtain ⟨r1, r2, r3⟩ := findAllele_spec (p + 1) (idx (g' ++ [x])) M (by omega) 0 (by omega) (by intro a' h; omega)
    generalize findAllele (p + 1) (idx (g' ++ [x])) M 0 = r at r1 r2 r3
    have hidx : idx (g' ++ [x]) = idx g' + choose (p + x) (p + 1) := by rw [idx_snoc, hl']
    have hrx : r = x := by
      have hP : choose (p + x + 1) (p + 1) = choose (p + x) p + choose (p + x) (p + 1) := pascal _ _
      by_cases hlt' : r < x
      · -- the block of r ends before the index
        have hne : ¬ r = M := by omega
        have h3 : idx (g' ++ [x]) < choose (p + 1 + r) (p + 1) := by
          rcases r3 with h | h
          · exact absurd h hne
          · exact h
        have hm : choose (p + 1 + r) (p + 1) ≤ choose (p + x) (p + 1) := Nat.choose_le_choose _ (by omega)
        omega
      · by_cases hgt : x < r
        · have hm : choose (p + x + 1) (p + 1) ≤ choose (p + 1 + r - 1) (p + 1) := Nat.choose_le_choose _ (by omega)
          omega
        · omega
    subst hrx
    rw [binom_eq]
    have e : p + 1 + r - 1 = p + r := by omega
    rw [e, hidx, Nat.add_sub_cancel, ih g' r hl' hs.1 hs.2]

/-- index → alleles → index, with shape -/
theorem loop_inverse : ∀ (p M L : Nat), L < choose (p + M) p →
    (indexToAllelesLoop p M L).length = p ∧ Asc (indexToAllelesLoop p M L) ∧
    (∀ y ∈ indexToAllelesLoop p M L, y ≤ M) ∧ idx (indexToAllelesLoop p M L) = L := by
  intro p
  induction p with
  | zero =>
    intro M L h
    simp at h
    subst h
    simp [indexToAllelesLoop, idx_nil, Asc]
  | succ p ih =>
    intro M L h
    simp only [indexToAllelesLoop]
    obtain ⟨r1, r2, r3⟩ := findAllele_spec (p + 1) L M (by omega) 0 (by omega) (by intro a' h; omega)
    generalize findAllele (p + 1) L M 0 = r at r1 r2 r3
    rw [binom_eq]
    have e : p + 1 + r - 1 = p + r := by omega
    rw [e] at r2 ⊢
    have hlt : L < choose (p + r + 1) (p + 1) := by
      rcases r3 with h' | h'
      · subst h'; have e2 : p + 1 + r = p + r + 1 := by omega
        rw [e2] at h; exact h
      · have e2 : p + 1 + r = p + r + 1 := by omega
        rw [e2] at h'; exact h'
    have hP : choose (p + r + 1) (p + 1) = choose (p + r) p + choose (p + r) (p + 1) := pascal _ _
    obtain ⟨i1, i2, i3, i4⟩ := ih r (L - choose (p + r) (p + 1)) (by omega)
    refine ⟨by simp [i1], ?_, ?_, ?_⟩
    · rw [asc_snoc]; exact ⟨i2, i3⟩
    · intro y hy
      rcases List.mem_append.mp hy with h' | h'
      · have := i3 y h'; omega
      · simp at h'; omega
    · rw [idx_snoc, i1, i4]; omega

/-! ## counting -/

theorem multichoose_eq : ∀ (p a : Nat), Spec.multichoose p a = choose (p + a - 1) p := by
  intro p
  induction p with
  | zero => intro a; simp [Spec.multichoose]
  | succ p ihp =>
    intro a
    induction a with
    | zero =>
      simp only [Spec.multichoose]
      exact (Nat.choose_eq_zero_of_lt (by omega)).symm
    | succ a iha =>
      simp only [Spec.multichoose]
      rw [ihp (a + 1), iha]
      have e1 : p + (a + 1) - 1 = p + a := by omega
      have e2 : p + 1 + a - 1 = p + a := by omega
      have e3 : p + 1 + (a + 1) - 1 = p + a + 1 := by omega
      rw [e1, e2, e3, pascal]

end WhVerif.C19

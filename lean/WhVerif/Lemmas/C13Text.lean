import WhVerif.Model.C13Text
import WhVerif.Lemmas.C13
/-! Helper lemmas for the text level of C13 (`Model/C13Text.lean`): split / join round trips, decimal numbers, the GT token,
the cleanliness invariant of tokenised lines and the round trip `parseT (renderT t) = t` on clean lines. -/
namespace WhVerif.C13.Text
open WhVerif.C13 WhVerif.Lemmas.C13

/-! ## split / join -/

theorem splitOn_ne_nil (sep : Char) (s : Str) : splitOn sep s ≠ [] := by
  induction s with
  | nil => simp [splitOn]
  | cons c cs ih =>
    unfold splitOn
    split
    · simp
    · split <;> simp

theorem join_cons_head (sep c : Char) (w : Str) (ws : List Str) :
    join sep ((c :: w) :: ws) = c :: join sep (w :: ws) := by
  cases ws <;> simp [join]

theorem join_splitOn (sep : Char) (s : Str) : join sep (splitOn sep s) = s := by
  induction s with
  | nil => simp [splitOn, join]
  | cons c cs ih =>
    unfold splitOn
    split
    · next h =>
      cases hr : splitOn sep cs with
      | nil => exact absurd hr (splitOn_ne_nil _ _)
      | cons w ws => rw [hr] at ih; simp [join, ih, h]
    · cases hr : splitOn sep cs with
      | nil => exact absurd hr (splitOn_ne_nil _ _)
      | cons w ws => rw [hr] at ih; simp [join_cons_head, ih]

theorem splitOn_of_not_mem (sep : Char) (w : Str) (h : sep ∉ w) : splitOn sep w = [w] := by
  induction w with
  | nil => rfl
  | cons c cs ih =>
    have hc : c ≠ sep := by intro e; apply h; simp [e]
    have hcs : sep ∉ cs := by intro e; apply h; simp [e]
    simp [splitOn, hc, ih hcs]

theorem splitOn_append_sep (sep : Char) (w rest : Str) (h : sep ∉ w) :
    splitOn sep (w ++ sep :: rest) = w :: splitOn sep rest := by
  induction w with
  | nil => simp [splitOn]
  | cons c cs ih =>
    have hc : c ≠ sep := by intro e; apply h; simp [e]
    have hcs : sep ∉ cs := by intro e; apply h; simp [e]
    simp [splitOn, hc, ih hcs]

theorem splitOn_join (sep : Char) : ∀ (ws : List Str), ws ≠ [] → (∀ w ∈ ws, sep ∉ w) → splitOn sep (join sep ws) = ws
  | [], h, _ => absurd rfl h
  | [w], _, hs => by simp [join, splitOn_of_not_mem sep w (hs w (by simp))]
  | w :: w' :: ws, _, hs => by
    simp only [join]
    rw [splitOn_append_sep sep w _ (hs w (by simp)),
      splitOn_join sep (w' :: ws) (by simp) (fun x hx => hs x (List.mem_cons_of_mem _ hx))]

theorem splitOn_noSep (sep : Char) (s : Str) : ∀ w ∈ splitOn sep s, sep ∉ w := by
  induction s with
  | nil => simp [splitOn]
  | cons c cs ih =>
    unfold splitOn
    split
    · intro w hw
      simp at hw
      rcases hw with rfl | hw
      · simp
      · exact ih w hw
    · next hc =>
      cases hr : splitOn sep cs with
      | nil => exact absurd hr (splitOn_ne_nil _ _)
      | cons w ws =>
        rw [hr] at ih
        intro x hx
        simp at hx
        rcases hx with rfl | hx
        · have := ih w (by simp)
          simp [this]
          exact fun e => hc e.symm
        · exact ih x (by simp [hx])

theorem splitOn_sub (sep : Char) (s : Str) : ∀ w ∈ splitOn sep s, ∀ c ∈ w, c ∈ s := by
  induction s with
  | nil => simp [splitOn]
  | cons c cs ih =>
    unfold splitOn
    split
    · intro w hw
      simp at hw
      rcases hw with rfl | hw
      · simp
      · intro x hx; exact List.mem_cons_of_mem _ (ih w hw x hx)
    · cases hr : splitOn sep cs with
      | nil => exact absurd hr (splitOn_ne_nil _ _)
      | cons w ws =>
        rw [hr] at ih
        intro x hx
        simp at hx
        rcases hx with rfl | hx
        · intro y hy
          simp at hy
          rcases hy with rfl | hy
          · simp
          · exact List.mem_cons_of_mem _ (ih w (by simp) y hy)
        · intro y hy; exact List.mem_cons_of_mem _ (ih x (by simp [hx]) y hy)

theorem mem_join (sep : Char) : ∀ (ws : List Str) (c : Char), c ∈ join sep ws → c = sep ∨ ∃ w ∈ ws, c ∈ w
  | [], c, h => by simp [join] at h
  | [w], c, h => by simp [join] at h; exact Or.inr ⟨w, by simp, h⟩
  | w :: w' :: ws, c, h => by
    simp only [join, List.mem_append, List.mem_cons] at h
    rcases h with h | rfl | h
    · exact Or.inr ⟨w, by simp, h⟩
    · exact Or.inl rfl
    · rcases mem_join sep (w' :: ws) c h with h | ⟨x, hx, hc⟩
      · exact Or.inl h
      · exact Or.inr ⟨x, List.mem_cons_of_mem _ hx, hc⟩

/-! ## mapOpt -/

theorem mapOpt_map_of_left_inv {α β : Type} (f : α → Option β) (g : β → α) (h : ∀ b, f (g b) = some b) :
    ∀ bs : List β, mapOpt f (bs.map g) = some bs
  | [] => rfl
  | b :: bs => by simp [mapOpt, h b, mapOpt_map_of_left_inv f g h bs]

theorem mapOpt_length {α β : Type} (f : α → Option β) : ∀ (as : List α) (bs : List β), mapOpt f as = some bs → bs.length = as.length
  | [], bs, h => by simp [mapOpt] at h; simp [← h]
  | a :: as, bs, h => by
    unfold mapOpt at h
    split at h
    · next b bs' hb hbs => simp at h; subst h; simp [mapOpt_length f as bs' hbs]
    · simp at h

/-- a map that commutes with `f` up to `h` commutes with `mapOpt f` -/
theorem mapOpt_map_comm {α β : Type} (f : α → Option β) (g : α → α) (h : β → β) (hc : ∀ a, f (g a) = (f a).map h) :
    ∀ as : List α, mapOpt f (as.map g) = (mapOpt f as).map (List.map h)
  | [] => rfl
  | a :: as => by
    simp only [List.map_cons, mapOpt, hc a, mapOpt_map_comm f g h hc as]
    cases f a <;> cases mapOpt f as <;> simp

/-! ## decimal numbers -/

theorem digitVal_digitChar (d : Nat) (h : d < 10) : digitVal? (digitChar d) = some d := by
  have : d = 0 ∨ d = 1 ∨ d = 2 ∨ d = 3 ∨ d = 4 ∨ d = 5 ∨ d = 6 ∨ d = 7 ∨ d = 8 ∨ d = 9 := by omega
  rcases this with rfl | rfl | rfl | rfl | rfl | rfl | rfl | rfl | rfl | rfl <;> rfl

/-- the characters that separate something in a data line, and `.` -/
def special (c : Char) : Bool := c == '/' || c == '|' || c == ':' || c == '\t' || c == '.'

theorem digitChar_not_special (d : Nat) : special (digitChar d) = false := by
  unfold digitChar
  split <;> decide

theorem digitsRev_ne_nil (n : Nat) : digitsRev n ≠ [] := by
  unfold digitsRev
  split <;> simp

theorem valRev_digitsRev (n : Nat) : valRev (digitsRev n) = some n := by
  induction n using Nat.strongRecOn with
  | _ n ih =>
    unfold digitsRev
    split
    · next h => simp [valRev, digitVal_digitChar _ h]
    · next h =>
      have h1 := ih (n / 10) (by omega)
      cases hd : digitsRev (n / 10) with
      | nil => exact absurd hd (digitsRev_ne_nil _)
      | cons c' cs =>
        rw [hd] at h1
        simp [valRev, h1, digitVal_digitChar _ (Nat.mod_lt n (by omega))]
        omega

theorem parseNat_natStr (n : Nat) : parseNat (natStr n) = some n := by
  simp [parseNat, natStr, valRev_digitsRev]

theorem digitsRev_not_special (n : Nat) : ∀ c ∈ digitsRev n, special c = false := by
  induction n using Nat.strongRecOn with
  | _ n ih =>
    unfold digitsRev
    split
    · intro c hc; simp at hc; subst hc; exact digitChar_not_special _
    · next h =>
      intro c hc
      simp at hc
      rcases hc with rfl | hc
      · exact digitChar_not_special _
      · exact ih (n / 10) (by omega) c hc

theorem natStr_not_special (n : Nat) : ∀ c ∈ natStr n, special c = false := by
  intro c hc
  exact digitsRev_not_special n c (by simpa [natStr] using hc)

theorem natStr_ne_dot (n : Nat) : natStr n ≠ ['.'] := by
  intro h
  have := natStr_not_special n '.' (by simp [h])
  simp [special] at this

/-! ## the GT token -/

theorem parseAllele_renderAllele (a : Option Nat) : parseAllele (renderAllele a) = some a := by
  cases a with
  | none => simp [parseAllele, renderAllele]
  | some n => simp [parseAllele, renderAllele, natStr_ne_dot, parseNat_natStr]

/-- the characters of a rendered allele: `.` or a digit -/
theorem renderAllele_chars (a : Option Nat) : ∀ c ∈ renderAllele a, c = '.' ∨ special c = false := by
  cases a with
  | none => simp [renderAllele]
  | some n => intro c hc; exact Or.inr (natStr_not_special n c hc)

theorem renderGT_chars (als : List (Option Nat)) :
    ∀ c ∈ renderGT { alleles := als, phased := false }, c = '/' ∨ c = '.' ∨ special c = false := by
  intro c hc
  simp only [renderGT] at hc
  rcases mem_join _ _ _ hc with h | ⟨w, hw, hcw⟩
  · exact Or.inl (by simpa using h)
  · simp at hw
    obtain ⟨a, _, rfl⟩ := hw
    exact Or.inr (renderAllele_chars a c hcw)

theorem renderGT_no (als : List (Option Nat)) (x : Char) (hx : special x = true) (h1 : x ≠ '/') (h2 : x ≠ '.') :
    x ∉ renderGT { alleles := als, phased := false } := by
  intro h
  rcases renderGT_chars als x h with h | h | h
  · exact h1 h
  · exact h2 h
  · simp [hx] at h

theorem parseGTTok_renderGT (als : List (Option Nat)) (hne : als ≠ []) :
    parseGTTok (renderGT { alleles := als, phased := false }) = some { alleles := als, phased := false } := by
  have hbar : '|' ∉ renderGT { alleles := als, phased := false } := renderGT_no als '|' (by decide) (by decide) (by decide)
  have hmap : (renderGT { alleles := als, phased := false }).map barToSlash = renderGT { alleles := als, phased := false } := by
    have : ∀ c ∈ renderGT { alleles := als, phased := false }, barToSlash c = id c := by
      intro c hc
      have : c ≠ '|' := fun e => hbar (e ▸ hc)
      simp [barToSlash, this]
    rw [List.map_congr_left this, List.map_id]
  have hsplit : splitOn '/' (renderGT { alleles := als, phased := false }) = als.map renderAllele := by
    simp only [renderGT]
    apply splitOn_join
    · simpa using hne
    · intro w hw
      simp at hw
      obtain ⟨a, _, rfl⟩ := hw
      intro hc
      rcases renderAllele_chars a '/' hc with h | h
      · exact absurd h (by decide)
      · simp [special] at h
  unfold parseGTTok
  rw [hmap, hsplit, mapOpt_map_of_left_inv parseAllele renderAllele parseAllele_renderAllele]
  simp [hbar]

theorem parseGTTok_alleles_ne_nil {tok : Str} {g : GT} (h : parseGTTok tok = some g) : g.alleles ≠ [] := by
  unfold parseGTTok at h
  cases hm : mapOpt parseAllele (splitOn '/' (tok.map barToSlash)) with
  | none => simp [hm] at h
  | some a =>
    simp [hm] at h
    subst h
    have hl := mapOpt_length _ _ _ hm
    intro e
    simp at e
    subst e
    simp at hl
    exact splitOn_ne_nil _ _ (List.eq_nil_of_length_eq_zero hl.symm)

theorem sortAlleles_ne_nil {l : List (Option Nat)} (h : l ≠ []) : sortAlleles l ≠ [] := by
  intro e
  have := (sortAlleles_perm l).length_eq
  rw [e] at this
  cases l <;> simp_all

/-- the token written for a genotype of the grammar parses to the unphased genotype -/
theorem parseGTTok_unphaseGTTok (tok : Str) : parseGTTok (unphaseGTTok tok) = (parseGTTok tok).map unphaseGT := by
  unfold unphaseGTTok
  cases h : parseGTTok tok with
  | none => simp [h]
  | some g =>
    simp only [Option.map_some]
    exact parseGTTok_renderGT _ (sortAlleles_ne_nil (parseGTTok_alleles_ne_nil h))

theorem unphaseGTTok_of_parse {tok : Str} {g : GT} (h : parseGTTok tok = some g) :
    unphaseGTTok tok = renderGT (unphaseGT g) := by
  simp [unphaseGTTok, h]

theorem unphaseGTTok_idem (tok : Str) : unphaseGTTok (unphaseGTTok tok) = unphaseGTTok tok := by
  have h := parseGTTok_unphaseGTTok tok
  cases hp : parseGTTok tok with
  | none => simp [unphaseGTTok, hp]
  | some g =>
    rw [hp] at h
    simp only [Option.map_some] at h
    rw [unphaseGTTok_of_parse h, unphaseGTTok_of_parse hp]
    simp [unphaseGT, sortAlleles_idem]

/-- a GT token of the grammar comes out without `|`, `:` or tab -/
theorem unphaseGTTok_no {tok : Str} {g : GT} (h : parseGTTok tok = some g) (x : Char) (hx : special x = true)
    (h1 : x ≠ '/') (h2 : x ≠ '.') : x ∉ unphaseGTTok tok := by
  unfold unphaseGTTok
  rw [h]
  exact renderGT_no _ x hx h1 h2

theorem unphaseGTTok_keeps_clean (tok : Str) (x : Char) (hx : special x = true) (h1 : x ≠ '/') (h2 : x ≠ '.')
    (hin : x ∉ tok) : x ∉ unphaseGTTok tok := by
  cases h : parseGTTok tok with
  | none => simpa [unphaseGTTok, h] using hin
  | some g => exact unphaseGTTok_no h x hx h1 h2

end WhVerif.C13.Text

import WhVerif.Model.C13Text
import WhVerif.Lemmas.C13
/-! Helper lemmas for the text level of C13 (`Model/C13Text.lean`): split / join round trips, decimal numbers, the GT token,
the cleanliness invariant of tokenised lines and the round trip `parseT (renderT t) = t` on clean lines. -/
namespace WhVerif.C13.Text
open WhVerif.C13 WhVerif.Lemmas.C13

/-! ## split / join -/

theorem splitOn_ne_nil (sep : Char) (s : Str) : splitOn sep s ≠ [] := by
  induction s with
  | nil => simp [splitOn]
  | cons c cs ih =>
    unfold splitOn
    split
    · simp
    · split <;> simp

theorem join_cons_head (sep c : Char) (w : Str) (ws : List Str) :
    join sep ((c :: w) :: ws) = c :: join sep (w :: ws) := by
  cases ws <;> simp [join]

theorem join_splitOn (sep : Char) (s : Str) : join sep (splitOn sep s) = s := by
  induction s with
  | nil => simp [splitOn, join]
  | cons c cs ih =>
    unfold splitOn
    split
    · next h =>
      cases hr : splitOn sep cs with
      | nil => exact absurd hr (splitOn_ne_nil _ _)
      | cons w ws => rw [hr] at ih; simp [join, ih, h]
    · cases hr : splitOn sep cs with
      | nil => exact absurd hr (splitOn_ne_nil _ _)
      | cons w ws => rw [hr] at ih; simp [join_cons_head, ih]

theorem splitOn_of_not_mem (sep : Char) (w : Str) (h : sep ∉ w) : splitOn sep w = [w] := by
  induction w with
  | nil => rfl
  | cons c cs ih =>
    have hc : c ≠ sep := by intro e; apply h; simp [e]
    have hcs : sep ∉ cs := by intro e; apply h; simp [e]
    simp [splitOn, hc, ih hcs]

theorem splitOn_append_sep (sep : Char) (w rest : Str) (h : sep ∉ w) :
    splitOn sep (w ++ sep :: rest) = w :: splitOn sep rest := by
  induction w with
  | nil => simp [splitOn]
  | cons c cs ih =>
    have hc : c ≠ sep := by intro e; apply h; simp [e]
    have hcs : sep ∉ cs := by intro e; apply h; simp [e]
    simp [splitOn, hc, ih hcs]

theorem splitOn_join (sep : Char) : ∀ (ws : List Str), ws ≠ [] → (∀ w ∈ ws, sep ∉ w) → splitOn sep (join sep ws) = ws
  | [], h, _ => absurd rfl h
  | [w], _, hs => by simp [join, splitOn_of_not_mem sep w (hs w (by simp))]
  | w :: w' :: ws, _, hs => by
    simp only [join]
    rw [splitOn_append_sep sep w _ (hs w (by simp)),
      splitOn_join sep (w' :: ws) (by simp) (fun x hx => hs x (List.mem_cons_of_mem _ hx))]

theorem splitOn_noSep (sep : Char) (s : Str) : ∀ w ∈ splitOn sep s, sep ∉ w := by
  induction s with
  | nil => simp [splitOn]
  | cons c cs ih =>
    unfold splitOn
    split
    · intro w hw
      simp at hw
      rcases hw with rfl | hw
      · simp
      · exact ih w hw
    · next hc =>
      cases hr : splitOn sep cs with
      | nil => exact absurd hr (splitOn_ne_nil _ _)
      | cons w ws =>
        rw [hr] at ih
        intro x hx
        simp at hx
        rcases hx with rfl | hx
        · have := ih w (by simp)
          simp [this]
          exact fun e => hc e.symm
        · exact ih x (by simp [hx])

theorem splitOn_sub (sep : Char) (s : Str) : ∀ w ∈ splitOn sep s, ∀ c ∈ w, c ∈ s := by
  induction s with
  | nil => simp [splitOn]
  | cons c cs ih =>
    unfold splitOn
    split
    · intro w hw
      simp at hw
      rcases hw with rfl | hw
      · simp
      · intro x hx; exact List.mem_cons_of_mem _ (ih w hw x hx)
    · cases hr : splitOn sep cs with
      | nil => exact absurd hr (splitOn_ne_nil _ _)
      | cons w ws =>
        rw [hr] at ih
        intro x hx
        simp at hx
        rcases hx with rfl | hx
        · intro y hy
          simp at hy
          rcases hy with rfl | hy
          · simp
          · exact List.mem_cons_of_mem _ (ih w (by simp) y hy)
        · intro y hy; exact List.mem_cons_of_mem _ (ih x (by simp [hx]) y hy)

theorem mem_join (sep : Char) : ∀ (ws : List Str) (c : Char), c ∈ join sep ws → c = sep ∨ ∃ w ∈ ws, c ∈ w
  | [], c, h => by simp [join] at h
  | [w], c, h => by simp [join] at h; exact Or.inr ⟨w, by simp, h⟩
  | w :: w' :: ws, c, h => by
    simp only [join, List.mem_append, List.mem_cons] at h
    rcases h with h | rfl | h
    · exact Or.inr ⟨w, by simp, h⟩
    · exact Or.inl rfl
    · rcases mem_join sep (w' :: ws) c h with h | ⟨x, hx, hc⟩
      · exact Or.inl h
      · exact Or.inr ⟨x, List.mem_cons_of_mem _ hx, hc⟩

/-! ## mapOpt -/

theorem mapOpt_map_of_left_inv {α β : Type} (f : α → Option β) (g : β → α) (h : ∀ b, f (g b) = some b) :
    ∀ bs : List β, mapOpt f (bs.map g) = some bs
  | [] => rfl
  | b :: bs => by simp [mapOpt, h b, mapOpt_map_of_left_inv f g h bs]

theorem mapOpt_length {α β : Type} (f : α → Option β) : ∀ (as : List α) (bs : List β), mapOpt f as = some bs → bs.length = as.length
  | [], bs, h => by simp [mapOpt] at h; simp [← h]
  | a :: as, bs, h => by
    unfold mapOpt at h
    split at h
    · next b bs' hb hbs => simp at h; subst h; simp [mapOpt_length f as bs' hbs]
    · simp at h

/-- a map that commutes with `f` up to `h` commutes with `mapOpt f` -/
theorem mapOpt_map_comm {α β : Type} (f f' : α → Option β) (g : α → α) (h : β → β) (hc : ∀ a, f' (g a) = (f a).map h) :
    ∀ as : List α, mapOpt f' (as.map g) = (mapOpt f as).map (List.map h)
  | [] => rfl
  | a :: as => by
    simp only [List.map_cons, mapOpt, hc a, mapOpt_map_comm f f' g h hc as]
    cases f a <;> cases mapOpt f as <;> simp

/-! ## decimal numbers -/

theorem digitVal_digitChar (d : Nat) (h : d < 10) : digitVal? (digitChar d) = some d := by
  have : d = 0 ∨ d = 1 ∨ d = 2 ∨ d = 3 ∨ d = 4 ∨ d = 5 ∨ d = 6 ∨ d = 7 ∨ d = 8 ∨ d = 9 := by omega
  rcases this with rfl | rfl | rfl | rfl | rfl | rfl | rfl | rfl | rfl | rfl <;> rfl

/-- the characters that separate something in a data line, and `.` -/
def special (c : Char) : Bool := c == '/' || c == '|' || c == ':' || c == '\t' || c == '.'

theorem digitChar_not_special (d : Nat) : special (digitChar d) = false := by
  unfold digitChar
  split <;> decide

theorem digitsRev_ne_nil (n : Nat) : digitsRev n ≠ [] := by
  unfold digitsRev
  split <;> simp

theorem valRev_digitsRev (n : Nat) : valRev (digitsRev n) = some n := by
  induction n using Nat.strongRecOn with
  | _ n ih =>
    unfold digitsRev
    split
    · next h => simp [valRev, digitVal_digitChar _ h]
    · next h =>
      have h1 := ih (n / 10) (by omega)
      cases hd : digitsRev (n / 10) with
      | nil => exact absurd hd (digitsRev_ne_nil _)
      | cons c' cs =>
        rw [hd] at h1
        simp [valRev, h1, digitVal_digitChar _ (Nat.mod_lt n (by omega))]
        omega

theorem parseNat_natStr (n : Nat) : parseNat (natStr n) = some n := by
  simp [parseNat, natStr, valRev_digitsRev]

theorem digitsRev_not_special (n : Nat) : ∀ c ∈ digitsRev n, special c = false := by
  induction n using Nat.strongRecOn with
  | _ n ih =>
    unfold digitsRev
    split
    · intro c hc; simp at hc; subst hc; exact digitChar_not_special _
    · next h =>
      intro c hc
      simp at hc
      rcases hc with rfl | hc
      · exact digitChar_not_special _
      · exact ih (n / 10) (by omega) c hc

theorem natStr_not_special (n : Nat) : ∀ c ∈ natStr n, special c = false := by
  intro c hc
  exact digitsRev_not_special n c (by simpa [natStr] using hc)

theorem natStr_ne_dot (n : Nat) : natStr n ≠ ['.'] := by
  intro h
  have := natStr_not_special n '.' (by simp [h])
  simp [special] at this

/-! ## the GT token -/

theorem parseAllele_renderAllele (a : Option Nat) : parseAllele (renderAllele a) = some a := by
  cases a with
  | none => simp [parseAllele, renderAllele]
  | some n => simp [parseAllele, renderAllele, natStr_ne_dot, parseNat_natStr]

/-- the characters of a rendered allele: `.` or a digit -/
theorem renderAllele_chars (a : Option Nat) : ∀ c ∈ renderAllele a, c = '.' ∨ special c = false := by
  cases a with
  | none => simp [renderAllele]
  | some n => intro c hc; exact Or.inr (natStr_not_special n c hc)

theorem renderGT_chars (als : List (Option Nat)) :
    ∀ c ∈ renderGT { alleles := als, phased := false }, c = '/' ∨ c = '.' ∨ special c = false := by
  intro c hc
  simp only [renderGT] at hc
  rcases mem_join _ _ _ hc with h | ⟨w, hw, hcw⟩
  · exact Or.inl (by simpa using h)
  · simp at hw
    obtain ⟨a, _, rfl⟩ := hw
    exact Or.inr (renderAllele_chars a c hcw)

theorem renderGT_no (als : List (Option Nat)) (x : Char) (hx : special x = true) (h1 : x ≠ '/') (h2 : x ≠ '.') :
    x ∉ renderGT { alleles := als, phased := false } := by
  intro h
  rcases renderGT_chars als x h with h | h | h
  · exact h1 h
  · exact h2 h
  · simp [hx] at h

theorem parseGTTok_renderGT (als : List (Option Nat)) (hne : als ≠ []) :
    parseGTTok (renderGT { alleles := als, phased := false }) = some { alleles := als, phased := false } := by
  have hbar : '|' ∉ renderGT { alleles := als, phased := false } := renderGT_no als '|' (by decide) (by decide) (by decide)
  have hmap : (renderGT { alleles := als, phased := false }).map barToSlash = renderGT { alleles := als, phased := false } := by
    have : ∀ c ∈ renderGT { alleles := als, phased := false }, barToSlash c = id c := by
      intro c hc
      have : c ≠ '|' := fun e => hbar (e ▸ hc)
      simp [barToSlash, this]
    rw [List.map_congr_left this, List.map_id]
  have hsplit : splitOn '/' (renderGT { alleles := als, phased := false }) = als.map renderAllele := by
    simp only [renderGT]
    apply splitOn_join
    · simpa using hne
    · intro w hw
      simp at hw
      obtain ⟨a, _, rfl⟩ := hw
      intro hc
      rcases renderAllele_chars a '/' hc with h | h
      · exact absurd h (by decide)
      · simp [special] at h
  unfold parseGTTok
  rw [hmap, hsplit, mapOpt_map_of_left_inv parseAllele renderAllele parseAllele_renderAllele]
  simp [hbar]

theorem parseGTTok_alleles_ne_nil {tok : Str} {g : GT} (h : parseGTTok tok = some g) : g.alleles ≠ [] := by
  unfold parseGTTok at h
  cases hm : mapOpt parseAllele (splitOn '/' (tok.map barToSlash)) with
  | none => simp [hm] at h
  | some a =>
    simp [hm] at h
    subst h
    have hl := mapOpt_length _ _ _ hm
    intro e
    simp at e
    subst e
    simp at hl
    exact splitOn_ne_nil _ _ (List.eq_nil_of_length_eq_zero hl.symm)

theorem sortAlleles_ne_nil {l : List (Option Nat)} (h : l ≠ []) : sortAlleles l ≠ [] := by
  intro e
  have := (sortAlleles_perm l).length_eq
  rw [e] at this
  cases l <;> simp_all

/-- the token written for a genotype of the grammar parses to the unphased genotype -/
theorem parseGTTok_unphaseGTTok (tok : Str) : parseGTTok (unphaseGTTok tok) = (parseGTTok tok).map unphaseGT := by
  unfold unphaseGTTok
  cases h : parseGTTok tok with
  | none => simp [h]
  | some g =>
    simp only [Option.map_some]
    exact parseGTTok_renderGT _ (sortAlleles_ne_nil (parseGTTok_alleles_ne_nil h))

theorem unphaseGTTok_of_parse {tok : Str} {g : GT} (h : parseGTTok tok = some g) :
    unphaseGTTok tok = renderGT (unphaseGT g) := by
  simp [unphaseGTTok, h]

theorem unphaseGTTok_idem (tok : Str) : unphaseGTTok (unphaseGTTok tok) = unphaseGTTok tok := by
  have h := parseGTTok_unphaseGTTok tok
  cases hp : parseGTTok tok with
  | none => simp [unphaseGTTok, hp]
  | some g =>
    rw [hp] at h
    simp only [Option.map_some] at h
    rw [unphaseGTTok_of_parse h, unphaseGTTok_of_parse hp]
    simp [unphaseGT, sortAlleles_idem]

/-- a GT token of the grammar comes out without `|`, `:` or tab -/
theorem unphaseGTTok_no {tok : Str} {g : GT} (h : parseGTTok tok = some g) (x : Char) (hx : special x = true)
    (h1 : x ≠ '/') (h2 : x ≠ '.') : x ∉ unphaseGTTok tok := by
  unfold unphaseGTTok
  rw [h]
  exact renderGT_no _ x hx h1 h2

theorem unphaseGTTok_keeps_clean (tok : Str) (x : Char) (hx : special x = true) (h1 : x ≠ '/') (h2 : x ≠ '.')
    (hin : x ∉ tok) : x ∉ unphaseGTTok tok := by
  cases h : parseGTTok tok with
  | none => simpa [unphaseGTTok, h] using hin
  | some g => exact unphaseGTTok_no h x hx h1 h2

/-! ## keys and values -/

theorem gtKey_not_phase : isPhaseTagC gtKey = false := by decide

theorem zip_dropTags : ∀ (ks vs : List Str),
    (unphaseKeys ks).zip (dropTags ks vs) = (ks.zip vs).filter (fun kv => !isPhaseTagC kv.1)
  | [], vs => by simp [unphaseKeys, dropTags]
  | k :: ks, [] => by simp [dropTags]
  | k :: ks, v :: vs => by
    have ih := zip_dropTags ks vs
    simp only [unphaseKeys, dropTags] at ih ⊢
    cases hk : isPhaseTagC k <;> simp [hk, ih]

theorem zipS_dropTags (ks vs : List Str) : zipS (unphaseKeys ks) (dropTags ks vs) = stripTags (zipS ks vs) := by
  simp only [zipS, zip_dropTags, stripTags, List.filter_map]
  congr 1

theorem dropTags_length : ∀ (ks vs : List Str), vs.length = ks.length → (dropTags ks vs).length = (unphaseKeys ks).length
  | [], vs, _ => by simp [dropTags, unphaseKeys]
  | k :: ks, [], h => by simp at h
  | k :: ks, v :: vs, h => by
    have ih := dropTags_length ks vs (by simpa using h)
    simp only [unphaseKeys, dropTags] at ih ⊢
    cases hk : isPhaseTagC k <;> simp [hk, ih]

theorem dropTags_of_clean : ∀ (ks vs : List Str), (∀ k ∈ ks, isPhaseTagC k = false) → vs.length = ks.length →
    dropTags ks vs = vs
  | [], vs, _, h => by
    have : vs = [] := List.eq_nil_of_length_eq_zero (by simpa using h)
    simp [dropTags, this]
  | k :: ks, [], _, h => by simp at h
  | k :: ks, v :: vs, hk, h => by
    have ih := dropTags_of_clean ks vs (fun x hx => hk x (List.mem_cons_of_mem _ hx)) (by simpa using h)
    have h0 := hk k (by simp)
    simp only [dropTags] at ih ⊢
    simp [h0, ih]

theorem mem_dropTags (ks vs : List Str) : ∀ v ∈ dropTags ks vs, v ∈ vs := by
  intro v hv
  simp only [dropTags, List.mem_map, List.mem_filter] at hv
  obtain ⟨kv, ⟨hm, _⟩, rfl⟩ := hv
  exact (List.of_mem_zip hm).2

theorem unphaseKeys_clean (ks : List Str) : ∀ k ∈ unphaseKeys ks, isPhaseTagC k = false := by
  intro k hk
  simp [unphaseKeys] at hk
  exact hk.2

theorem unphaseKeys_idem (ks : List Str) : unphaseKeys (unphaseKeys ks) = unphaseKeys ks := by
  simp [unphaseKeys, List.filter_filter]

theorem unphaseKeys_cons_gt (ks : List Str) : unphaseKeys (gtKey :: ks) = gtKey :: unphaseKeys ks := by
  simp [unphaseKeys, gtKey_not_phase]

theorem mem_unphaseKeys {ks : List Str} {k : Str} (h : k ∈ unphaseKeys ks) : k ∈ ks := by
  simp [unphaseKeys] at h
  exact h.1

theorem unphaseVals_noGT {ks : List Str} (h : gtKey ∉ ks) (vs : List Str) : unphaseVals ks vs = dropTags ks vs := by
  unfold unphaseVals
  split
  · next k ks' v vs' =>
    have : k ≠ gtKey := fun e => h (by simp [e])
    simp [this]
  · rfl

theorem toCall_noGT {ks : List Str} (h : gtKey ∉ ks) (vs : List Str) : toCall ks vs = some { gt := none, fields := zipS ks vs } := by
  unfold toCall
  split
  · next k ks' v vs' =>
    have : k ≠ gtKey := fun e => h (by simp [e])
    simp [this]
  · rfl

theorem unphaseVals_length (ks vs : List Str) (h : vs.length = ks.length) :
    (unphaseVals ks vs).length = (unphaseKeys ks).length := by
  unfold unphaseVals
  split
  · next k ks' v vs' =>
    split
    · next hk =>
      subst hk
      rw [unphaseKeys_cons_gt]
      simp [dropTags_length ks' vs' (by simpa using h)]
    · exact dropTags_length _ _ h
  · exact dropTags_length _ _ h

/-- one sample: the tokens after unphase parse to the unphased call -/
theorem toCall_unphaseVals (ks vs : List Str) (hwf : gtKey ∉ ks.tail) :
    toCall (unphaseKeys ks) (unphaseVals ks vs) = (toCall ks vs).map unphaseCall := by
  match ks, vs with
  | [], vs => simp [unphaseVals, unphaseKeys, dropTags, toCall, zipS, unphaseCall, stripTags]
  | k :: ks', [] =>
    have : unphaseVals (k :: ks') [] = [] := by simp [unphaseVals, dropTags]
    rw [this]
    have h1 : ∀ l : List Str, toCall l [] = some { gt := none, fields := [] } := by
      intro l; cases l <;> simp [toCall, zipS]
    simp [h1, unphaseCall, stripTags]
  | k :: ks', v :: vs' =>
    by_cases hk : k = gtKey
    · subst hk
      rw [unphaseKeys_cons_gt]
      simp only [unphaseVals, toCall, if_true]
      rw [parseGTTok_unphaseGTTok, zipS_dropTags]
      cases parseGTTok v <;> simp [unphaseCall]
    · have hno : gtKey ∉ k :: ks' := by
        intro h
        simp at h
        rcases h with h | h
        · exact hk h.symm
        · exact hwf (by simpa using h)
      have hno' : gtKey ∉ unphaseKeys (k :: ks') := fun h => hno (mem_unphaseKeys h)
      rw [unphaseVals_noGT hno, toCall_noGT hno, toCall_noGT hno', zipS_dropTags]
      simp [unphaseCall]

theorem unphaseVals_idem (ks vs : List Str) (hwf : gtKey ∉ ks.tail) (hl : vs.length = ks.length) :
    unphaseVals (unphaseKeys ks) (unphaseVals ks vs) = unphaseVals ks vs := by
  match ks, vs with
  | [], vs => simp [unphaseVals, unphaseKeys, dropTags]
  | k :: ks', [] => simp at hl
  | k :: ks', v :: vs' =>
    by_cases hk : k = gtKey
    · subst hk
      rw [unphaseKeys_cons_gt]
      simp only [unphaseVals, if_true]
      rw [unphaseGTTok_idem, dropTags_of_clean _ _ (unphaseKeys_clean ks') (dropTags_length ks' vs' (by simpa using hl))]
    · have hno : gtKey ∉ k :: ks' := by
        intro h
        simp at h
        rcases h with h | h
        · exact hk h.symm
        · exact hwf (by simpa using h)
      have hno' : gtKey ∉ unphaseKeys (k :: ks') := fun h => hno (mem_unphaseKeys h)
      rw [unphaseVals_noGT hno, unphaseVals_noGT hno',
        dropTags_of_clean _ _ (unphaseKeys_clean _) (dropTags_length _ _ hl)]

/-! ## clean tokenised lines and the round trip through the text -/

def CleanTok (s : Str) : Prop := ':' ∉ s ∧ '\t' ∉ s

structure Clean (t : TLine) : Prop where
  fixed : ∀ c ∈ t.fixed, '\t' ∉ c
  none_len : t.body = none → t.fixed ≠ [] ∧ t.fixed.length ≤ 8
  some_ok : ∀ keys samples, t.body = some (keys, samples) →
    t.fixed.length = 8 ∧ (∀ k ∈ keys, CleanTok k ∧ k ≠ ['.']) ∧
      ∀ vs ∈ samples, vs.length = keys.length ∧ ∀ v ∈ vs, CleanTok v

theorem padTo_length (n : Nat) (vs : List Str) : (padTo n vs).length = n := by
  simp [padTo]

theorem mem_padTo (n : Nat) (vs : List Str) : ∀ v ∈ padTo n vs, v ∈ vs ∨ v = ['.'] := by
  intro v hv
  have := List.mem_of_mem_take hv
  simp at this
  rcases this with h | h
  · exact Or.inl h
  · exact Or.inr h.2

theorem padTo_self (vs : List Str) : padTo vs.length vs = vs := by
  simp [padTo]

theorem clean_parseCols (cols : List Str) (hne : cols ≠ []) (ht : ∀ c ∈ cols, '\t' ∉ c) : Clean (parseCols cols) := by
  unfold parseCols
  split
  · next hd =>
    refine ⟨ht, fun _ => ⟨hne, ?_⟩, fun _ _ h => by simp at h⟩
    have := List.drop_eq_nil_iff.mp hd
    exact this
  · next fmt samples hd =>
    have hlen : 8 < cols.length := by
      have := congrArg List.length hd
      simp at this
      omega
    have hfmt : fmt ∈ cols := List.mem_of_mem_drop (by rw [hd]; simp)
    have hsm : ∀ s ∈ samples, s ∈ cols := fun s hs => List.mem_of_mem_drop (by rw [hd]; simp [hs])
    refine ⟨fun c hc => ht c (List.mem_of_mem_take hc), fun h => by simp at h, ?_⟩
    intro keys smp h
    simp at h
    obtain ⟨rfl, rfl⟩ := h
    refine ⟨by simp; omega, ?_, ?_⟩
    · intro k hk
      simp [parseKeys] at hk
      refine ⟨⟨splitOn_noSep _ _ k hk.1, ?_⟩, hk.2⟩
      intro hc
      exact ht fmt hfmt (splitOn_sub _ _ k hk.1 _ hc)
    · intro vs hvs
      simp at hvs
      obtain ⟨s, hs, rfl⟩ := hvs
      refine ⟨padTo_length _ _, ?_⟩
      intro v hv
      rcases mem_padTo _ _ v hv with h | h
      · exact ⟨splitOn_noSep _ _ v h, fun hc => ht s (hsm s hs) (splitOn_sub _ _ v h _ hc)⟩
      · subst h; exact ⟨by decide, by decide⟩

theorem clean_parseT (l : Str) : Clean (parseT l) :=
  clean_parseCols _ (splitOn_ne_nil _ _) (splitOn_noSep _ _)

theorem clean_unphaseT {t : TLine} (h : Clean t) : Clean (unphaseT t) := by
  unfold unphaseT
  split
  · exact h
  · next keys samples hb =>
    obtain ⟨h8, hk, hs⟩ := h.some_ok keys samples hb
    refine ⟨h.fixed, fun h' => by simp at h', ?_⟩
    intro keys' smp' he
    simp at he
    obtain ⟨rfl, rfl⟩ := he
    refine ⟨h8, fun k hk' => hk k (mem_unphaseKeys hk'), ?_⟩
    intro vs' hvs'
    simp at hvs'
    obtain ⟨vs, hvs, rfl⟩ := hvs'
    obtain ⟨hl, hv⟩ := hs vs hvs
    refine ⟨unphaseVals_length _ _ hl, ?_⟩
    intro v hv'
    unfold unphaseVals at hv'
    split at hv'
    · next k ks' v0 vs0 =>
      split at hv'
      · simp at hv'
        rcases hv' with rfl | hv'
        · have := hv v0 (by simp)
          exact ⟨unphaseGTTok_keeps_clean _ ':' (by decide) (by decide) (by decide) this.1,
                 unphaseGTTok_keeps_clean _ '\t' (by decide) (by decide) (by decide) this.2⟩
        · exact hv v (List.mem_cons_of_mem _ (mem_dropTags _ _ v hv'))
      · exact hv v (mem_dropTags _ _ v hv')
    · exact hv v (mem_dropTags _ _ v hv')

theorem renderList_no_tab (ws : List Str) (h : ∀ w ∈ ws, '\t' ∉ w) : '\t' ∉ renderList ws := by
  unfold renderList
  split
  · decide
  · intro hc
    rcases mem_join _ _ _ hc with h' | ⟨w, hw, hcw⟩
    · exact absurd h' (by decide)
    · exact h w hw hcw

theorem parseKeys_renderList (keys : List Str) (h : ∀ k ∈ keys, CleanTok k ∧ k ≠ ['.']) :
    parseKeys (renderList keys) = keys := by
  unfold renderList
  split
  · next he => subst he; rfl
  · next hne =>
    unfold parseKeys
    rw [splitOn_join _ _ hne (fun k hk => (h k hk).1.1)]
    apply List.filter_eq_self.mpr
    intro k hk
    simpa using (h k hk).2

theorem padTo_splitOn_renderList (n : Nat) (vs : List Str) (hl : vs.length = n) (h : ∀ v ∈ vs, CleanTok v) :
    padTo n (splitOn ':' (renderList vs)) = vs := by
  unfold renderList
  split
  · next he => subst he; simp at hl; subst hl; simp [padTo]
  · next hne =>
    rw [splitOn_join _ _ hne (fun v hv => (h v hv).1), ← hl, padTo_self]

theorem parseCols_render {t : TLine} (h : Clean t) : parseCols (splitOn '\t' (renderT t)) = t := by
  obtain ⟨fixed, body⟩ := t
  cases body with
  | none =>
    obtain ⟨hne, hle⟩ := h.none_len rfl
    simp only [renderT]
    rw [splitOn_join _ _ hne h.fixed]
    unfold parseCols
    rw [List.drop_eq_nil_iff.mpr hle]
  | some ks =>
    obtain ⟨keys, samples⟩ := ks
    obtain ⟨h8, hk, hs⟩ := h.some_ok keys samples rfl
    simp only [renderT]
    rw [splitOn_join _ _ (by simp)]
    · unfold parseCols
      have hd : (fixed ++ renderList keys :: samples.map renderList).drop 8 = renderList keys :: samples.map renderList := by
        simp at h8
        rw [← h8]; exact List.drop_left
      have htk : (fixed ++ renderList keys :: samples.map renderList).take 8 = fixed := by
        simp at h8
        rw [← h8]; exact List.take_left
      rw [hd]
      simp only [htk, parseKeys_renderList keys hk, List.map_map]
      congr 3
      have : ∀ vs ∈ samples, ((fun s => padTo keys.length (splitOn ':' s)) ∘ renderList) vs = id vs := by
        intro vs hvs
        exact padTo_splitOn_renderList _ _ (hs vs hvs).1 (hs vs hvs).2
      rw [List.map_congr_left this, List.map_id]
    · intro w hw
      simp at hw
      rcases hw with hw | rfl | ⟨vs, hvs, rfl⟩
      · exact h.fixed w hw
      · exact renderList_no_tab _ (fun k hk' => (hk k hk').1.2)
      · exact renderList_no_tab _ (fun v hv => ((hs vs hvs).2 v hv).2)

/-- the tokens of the output text are the unphased tokens of the input text -/
theorem parseT_unphaseLineText (l : Str) : parseT (unphaseLineText l) = unphaseT (parseT l) :=
  parseCols_render (clean_unphaseT (clean_parseT l))

theorem unphaseT_idem {t : TLine} (h : Clean t) (hwf : GtFirstOnly t) : unphaseT (unphaseT t) = unphaseT t := by
  obtain ⟨fixed, body⟩ := t
  cases body with
  | none => rfl
  | some ks =>
    obtain ⟨keys, samples⟩ := ks
    obtain ⟨_, _, hs⟩ := h.some_ok keys samples rfl
    simp only [unphaseT, unphaseKeys_idem, List.map_map]
    congr 3
    have : ∀ vs ∈ samples, (unphaseVals (unphaseKeys keys) ∘ unphaseVals keys) vs = unphaseVals keys vs := by
      intro vs hvs
      exact unphaseVals_idem keys vs (hwf keys samples rfl) (hs vs hvs).1
    exact List.map_congr_left this

theorem toRecord_unphaseT (t : TLine) (hwf : GtFirstOnly t) : toRecord (unphaseT t) = (toRecord t).map unphaseRecord := by
  obtain ⟨fixed, body⟩ := t
  cases body with
  | none => simp [unphaseT, toRecord, unphaseRecord]
  | some ks =>
    obtain ⟨keys, samples⟩ := ks
    have hw := hwf keys samples rfl
    simp only [unphaseT, toRecord]
    rw [mapOpt_map_comm (toCall keys) (toCall (unphaseKeys keys)) (unphaseVals keys) unphaseCall
      (fun vs => toCall_unphaseVals keys vs hw)]
    cases mapOpt (toCall keys) samples <;> simp [unphaseRecord]

/-! ## what else the theorems of `Props/C13.lean` need -/

theorem zip_unphaseVals_nonGT (ks vs : List Str) :
    ((unphaseKeys ks).zip (unphaseVals ks vs)).filter (fun kv => kv.1 ≠ gtKey) =
      ((ks.zip vs).filter (fun kv => kv.1 ≠ gtKey)).filter (fun kv => !isPhaseTagC kv.1) := by
  unfold unphaseVals
  split
  · next k ks' v vs' =>
    split
    · next hk =>
      subst hk
      rw [unphaseKeys_cons_gt]
      simp [zip_dropTags, List.filter_filter, Bool.and_comm]
    · rw [zip_dropTags]; simp [List.filter_filter, Bool.and_comm]
  · rw [zip_dropTags]; simp [List.filter_filter, Bool.and_comm]

theorem gtTokens_unphaseT (t : TLine) (hwf : GtFirstOnly t) :
    ∀ tok ∈ gtTokens (unphaseT t), ∃ v ∈ gtTokens t, tok = unphaseGTTok v := by
  obtain ⟨fixed, body⟩ := t
  cases body with
  | none => simp [unphaseT, gtTokens]
  | some ks =>
    obtain ⟨keys, samples⟩ := ks
    have hw := hwf keys samples rfl
    cases keys with
    | nil => simp [unphaseT, unphaseKeys, gtTokens]
    | cons k ks' =>
      by_cases hk : k = gtKey
      · subst hk
        intro tok htok
        simp only [unphaseT, unphaseKeys_cons_gt, gtTokens, if_true, List.mem_filterMap, List.mem_map] at htok ⊢
        obtain ⟨vs', ⟨vs, hvs, rfl⟩, hh⟩ := htok
        cases vs with
        | nil => simp [unphaseVals, dropTags] at hh
        | cons v vs0 =>
          simp [unphaseVals] at hh
          exact ⟨v, ⟨v :: vs0, hvs, by simp⟩, hh.symm⟩
      · have hno : gtKey ∉ k :: ks' := by
          intro h
          simp at h
          rcases h with h | h
          · exact hk h.symm
          · exact hw (by simpa using h)
        intro tok htok
        simp only [unphaseT, gtTokens] at htok
        split at htok
        · next k' rest smp he =>
          simp at he
          have hk' : k' ∈ unphaseKeys (k :: ks') := by rw [he.1]; simp
          have : k' ≠ gtKey := fun e => hno (e ▸ mem_unphaseKeys hk')
          simp [this] at htok
        · simp at htok

theorem unphaseGTTok_bar (v : Str) : '|' ∉ unphaseGTTok v ∨ (parseGTTok v = none ∧ unphaseGTTok v = v) := by
  cases h : parseGTTok v with
  | none => exact Or.inr ⟨rfl, by simp [unphaseGTTok, h]⟩
  | some g => exact Or.inl (unphaseGTTok_no h '|' (by decide) (by decide) (by decide))

theorem padTo_append_dot (n : Nat) (vs : List Str) : padTo n (vs ++ [['.']]) = padTo n vs := by
  unfold padTo
  have e : vs ++ [['.']] ++ List.replicate n ['.'] = (vs ++ List.replicate n ['.']) ++ [['.']] := by
    rw [List.append_assoc, List.append_assoc]
    congr 1
    have : [['.']] ++ List.replicate n ['.'] = List.replicate (n + 1) ['.'] := rfl
    rw [this, List.replicate_succ']
  rw [e, List.take_append_of_le_length (by simp)]

theorem splitOn_append_sep_dot (sep : Char) (s : Str) : splitOn sep (s ++ [sep, '.']) = splitOn sep s ++ [['.']] ∨ sep = '.' := by
  by_cases hd : sep = '.'
  · exact Or.inr hd
  · left
    have hd' : ('.' : Char) ≠ sep := fun e => hd e.symm
    induction s with
    | nil => simp [splitOn, hd']
    | cons c cs ih =>
      simp only [List.cons_append]
      unfold splitOn
      split
      · simp [ih]
      · rw [ih]
        cases hr : splitOn sep cs with
        | nil => exact absurd hr (splitOn_ne_nil _ _)
        | cons w ws => simp

end WhVerif.C13.Text

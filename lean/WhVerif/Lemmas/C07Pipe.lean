import WhVerif.Model.C07Pipe
import WhVerif.Lemmas.C07Term
import WhVerif.Lemmas.C07Fam
import WhVerif.Lemmas.C07CompletePerm
/-!
# C07 pipeline helpers: totality of `readselection` on well-formed reads with ≥ 2 variants, the per-sample cap
arithmetic (Python `max(1, k // m)` on integers), the shape of `sampleStage` / `familySel`.
-/
namespace WhVerif.C07
open List

/-- on reads with ≥ 2 strictly increasing positions and one quality per position `readselection` returns a selection:
no `ValueError`, no misuse, and the loops end (`phases_terminate`) -/
theorem readselection_total (fixed : Bool) (reads : List Read) (k : Nat) (br : Bool) (cs : List Nat)
    (h2 : ∀ r ∈ reads, 2 ≤ r.pos.length) (hwf : ∀ r ∈ reads, r.wf = true) :
    ∃ sel, readselection fixed reads k br cs = .ok sel := by
  have hany : (reads.any fun r => decide (r.pos.length < 2)) = false := by
    rw [List.any_eq_false]
    intro r hr
    have := h2 r hr
    simp only [decide_eq_true_eq]; omega
  have hall : (reads.all Read.wf) = true := by
    rw [List.all_eq_true]; exact hwf
  have ht := phases_terminate fixed reads k br cs h2
  unfold readselection
  simp only [hany, hall, Bool.false_eq_true, if_false, Bool.not_true, ht.1, ht.2, List.isEmpty_nil, Bool.or_self]
  exact ⟨_, rfl⟩

theorem countSel_perm {reads : List Read} {a b : List Nat} (h : a ~ b) (p : Nat) :
    countSel reads a p = countSel reads b p := h.countP_eq _

theorem sortNat_perm (l : List Nat) : sortNat l ~ l := sortBy_perm _ l

/-! ### `max(1, k // m)` -/

theorem perSampleCapInt_ge_one (k : Int) (m : Nat) : 1 ≤ perSampleCapInt k m := by
  unfold perSampleCapInt
  have : (1 : Int) ≤ max 1 (k / (m : Int)) := Int.le_max_left _ _
  omega

theorem perSampleCapInt_natCast (k m : Nat) : perSampleCapInt (k : Int) m = perSampleCap k m := by
  unfold perSampleCapInt perSampleCap
  have h : ((k : Int) / (m : Int)) = ((k / m : Nat) : Int) := by
    exact (Int.natCast_ediv k m).symm
  rw [h]
  generalize k / m = d
  omega

/-- a cap of `0` or below behaves like cap `1` per sample -/
theorem perSampleCapInt_nonpos (k : Int) (m : Nat) (hk : k ≤ 0) : perSampleCapInt k m = 1 := by
  unfold perSampleCapInt
  have h : k / (m : Int) ≤ 0 := by
    rcases Nat.eq_zero_or_pos m with rfl | hm
    · simp
    · have hm' : (0 : Int) < (m : Int) := by omega
      have := Int.ediv_le_ediv hm' hk
      simpa using this
  have : max (1 : Int) (k / (m : Int)) = 1 := Int.max_eq_left (by omega)
  rw [this]; rfl

/-- the members' shares add up to at most the cap when the family has at most `k` members -/
theorem perSampleCapInt_mul_le (k : Int) (m : Nat) (hm : (m : Int) ≤ k) : m * perSampleCapInt k m ≤ k.toNat := by
  have hk : 0 ≤ k := by omega
  obtain ⟨n, rfl⟩ := Int.eq_ofNat_of_zero_le hk
  rw [perSampleCapInt_natCast]
  simp only [Int.toNat_natCast]
  exact perSampleCap_mul_le (by omega)

theorem perSampleCapInt_le (k : Int) (m : Nat) (hk : 1 ≤ k) : (perSampleCapInt k m : Int) ≤ k := by
  have hk0 : 0 ≤ k := by omega
  obtain ⟨n, rfl⟩ := Int.eq_ofNat_of_zero_le hk0
  rw [perSampleCapInt_natCast]
  unfold perSampleCap
  have : n / m ≤ n := Nat.div_le_self n m
  have h1 : 1 ≤ n := by omega
  have : max 1 (n / m) ≤ n := Nat.max_le.mpr ⟨h1, this⟩
  omega

/-! ### the stage -/

theorem candidates_long (rs : List SRead) : ∀ r ∈ candidates rs, r ∈ rs ∧ 2 ≤ r.pos.length := by
  intro r hr
  unfold candidates longEnough at hr
  obtain ⟨h1, h2⟩ := List.mem_filter.mp hr
  exact ⟨h1, by simpa using h2⟩

structure StageSpec (rs : List SRead) (cap : Nat) (prefIds : List Nat) (choices : List Nat) (o : SampleOut) : Prop where
  cands : o.cands = candidates rs
  sel : ∃ sel, readselection true ((candidates rs).map (SRead.toRead prefIds)) cap true choices = .ok sel ∧
          o.selIdx = sortNat sel
  selected : o.selected = o.selIdx.map (fun i => (candidates rs).getD i default)

theorem sampleStage_spec {rs : List SRead} {cap : Nat} {prefIds choices : List Nat} {o : SampleOut}
    (h : sampleStage rs cap prefIds choices = .ok o) : StageSpec rs cap prefIds choices o := by
  unfold sampleStage at h
  simp only at h
  split at h
  · rename_i sel hsel
    simp only [Except.ok.injEq] at h
    subst h
    exact ⟨rfl, ⟨sel, hsel, rfl⟩, rfl⟩
  · cases h
  · cases h
  · cases h

/-- a read of the sample's read set that is well-formed in the sense of `Read`/`ReadSet` -/
def SRead.wf (r : SRead) : Bool := strictSorted r.pos && r.qual.length == r.pos.length

theorem sampleStage_ok (rs : List SRead) (cap : Nat) (prefIds choices : List Nat) (hwf : ∀ r ∈ rs, r.wf = true) :
    ∃ o, sampleStage rs cap prefIds choices = .ok o := by
  obtain ⟨sel, hsel⟩ := readselection_total true ((candidates rs).map (SRead.toRead prefIds)) cap true choices
    (by
      intro r hr
      obtain ⟨x, hx, rfl⟩ := List.mem_map.mp hr
      exact (candidates_long rs x hx).2)
    (by
      intro r hr
      obtain ⟨x, hx, rfl⟩ := List.mem_map.mp hr
      exact hwf x (candidates_long rs x hx).1)
  unfold sampleStage
  simp only [hsel]
  exact ⟨_, rfl⟩

theorem getRead_map_toRead (prefIds : List Nat) (cands : List SRead) (i : Nat) (hi : i < cands.length) :
    getRead (cands.map (SRead.toRead prefIds)) i = (cands.getD i default).toRead prefIds := by
  simp [getRead, List.getD_eq_getElem?_getD, List.getElem?_map, List.getElem?_eq_getElem hi]

theorem familyStageSel_spec (k : Int) (m : Nat) : ∀ (xs : List MemberIn) (os : List SampleOut),
    familyStageSel k xs m = .ok os →
      os.length = xs.length ∧
      ∀ x o, (x, o) ∈ xs.zip os → sampleStage x.reads (perSampleCapInt k m) x.prefIds x.choices = .ok o
  | [], os, h => by simp only [familyStageSel, Except.ok.injEq] at h; subst h; simp
  | x :: xs, os, h => by
    simp only [familyStageSel] at h
    split at h
    · cases h
    · rename_i o ho
      split at h
      · cases h
      · rename_i os' hos'
        simp only [Except.ok.injEq] at h
        subst h
        obtain ⟨h1, h2⟩ := familyStageSel_spec k m xs os' hos'
        refine ⟨by simp [h1], fun y p hyp => ?_⟩
        simp only [List.zip_cons_cons, List.mem_cons, Prod.mk.injEq] at hyp
        rcases hyp with ⟨rfl, rfl⟩ | hyp
        · exact ho
        · exact h2 y p hyp

end WhVerif.C07

import WhVerif.Model.C04
/-! Helper lemmas about the record-level writer model (used by Props/C04, Props/C09, Props/C20). -/
set_option linter.unusedSimpArgs false
namespace WhVerif.C04

/-! ### fields -/

theorem fget_fset_same (f : Fields) (k : String) (v : Val) : fget (fset f k v) k = v := by
  induction f with
  | nil => simp [fset, fget]
  | cons kv r ih =>
    obtain ⟨k', v'⟩ := kv
    by_cases h : k' = k
    · simp [fset, fget, h]
    · simp [fset, fget, h, ih]

theorem fget_fset_other (f : Fields) (k k' : String) (v : Val) (h : k' ≠ k) :
    fget (fset f k v) k' = fget f k' := by
  induction f with
  | nil => simp [fset, fget, Ne.symm h]
  | cons kv r ih =>
    obtain ⟨k2, v2⟩ := kv
    by_cases h2 : k2 = k
    · subst h2
      simp [fset, fget, Ne.symm h]
    · by_cases h3 : k2 = k'
      · subst h3
        simp [fset, fget, h2]
      · simp [fset, fget, h2, h3, ih]

@[simp] theorem Call.get_set_same (c : Call) (k : String) (v : Val) : (c.set k v).get k = v :=
  fget_fset_same _ _ _

theorem Call.get_set_other (c : Call) (k k' : String) (v : Val) (h : k' ≠ k) : (c.set k v).get k' = c.get k' :=
  fget_fset_other _ _ _ _ h

@[simp] theorem Call.set_gt (c : Call) (k : String) (v : Val) : (c.set k v).gt = c.gt := rfl
@[simp] theorem Call.set_phased (c : Call) (k : String) (v : Val) : (c.set k v).phased = c.phased := rfl

/-! ### insertion sort -/

theorem insertNat_perm (a : Nat) (l : List Nat) : (insertNat a l).Perm (a :: l) := by
  induction l with
  | nil => simp [insertNat]
  | cons b r ih =>
    unfold insertNat
    split
    · exact List.Perm.refl _
    · exact (List.Perm.cons b ih).trans (List.Perm.swap a b r)

theorem sortNat_perm (l : List Nat) : (sortNat l).Perm l := by
  induction l with
  | nil => exact List.Perm.refl _
  | cons a r ih => exact (insertNat_perm a (sortNat r)).trans (List.Perm.cons a ih)

theorem insertNat_comm (a b : Nat) (l : List Nat) :
    insertNat a (insertNat b l) = insertNat b (insertNat a l) := by
  induction l with
  | nil =>
    simp only [insertNat]
    by_cases h1 : a ≤ b <;> by_cases h2 : b ≤ a <;> simp [insertNat, h1, h2]
    · omega
    · omega
  | cons c r ih =>
    by_cases hac : a ≤ c <;> by_cases hbc : b ≤ c <;> by_cases hab : a ≤ b <;> by_cases hba : b ≤ a <;>
      simp [insertNat, hac, hbc, hab, hba, ih] <;> omega

theorem sortNat_eq_of_perm {l₁ l₂ : List Nat} (h : l₁.Perm l₂) : sortNat l₁ = sortNat l₂ := by
  induction h with
  | nil => rfl
  | cons a _ ih => simp [sortNat, ih]
  | swap a b l => simp [sortNat, insertNat_comm]
  | trans _ _ ih1 ih2 => exact ih1.trans ih2

theorem sortNat_idem (l : List Nat) : sortNat (sortNat l) = sortNat l :=
  sortNat_eq_of_perm (sortNat_perm l)

theorem sortNat_reverse (l : List Nat) : sortNat l.reverse = sortNat l :=
  sortNat_eq_of_perm (List.reverse_perm l)

theorem perm_of_sortNat_eq {l₁ l₂ : List Nat} (h : sortNat l₁ = sortNat l₂) : l₁.Perm l₂ :=
  (sortNat_perm l₁).symm.trans (h ▸ sortNat_perm l₂)

theorem sortNat_eq_nil {l : List Nat} (h : sortNat l = []) : l = [] := by
  have := (sortNat_perm l).length_eq
  rw [h] at this
  exact List.eq_nil_of_length_eq_zero this.symm

/-! ### genotypes -/

theorem filterMap_id_map_some (l : List Nat) : (l.map some).filterMap id = l := by
  induction l with
  | nil => rfl
  | cons a r ih => simp [List.filterMap_cons, ih]

theorem all_isSome_map_some (l : List Nat) : (l.map some).all Option.isSome = true := by
  induction l with
  | nil => rfl
  | cons a r ih => simp [ih]

theorem map_some_filterMap_id {g : Gt} (h : g.all Option.isSome = true) : (g.filterMap id).map some = g := by
  induction g with
  | nil => rfl
  | cons a r ih =>
    cases a with
    | none => simp at h
    | some x =>
      simp only [List.all_cons, Option.isSome_some, Bool.true_and] at h
      simp [List.filterMap_cons, ih h]

@[simp] theorem gcode_map_some (l : List Nat) : gcode (some (l.map some)) = sortNat l := by
  simp [gcode, all_isSome_map_some, filterMap_id_map_some]

theorem gcode_sortGt {g : Gt} (h : g.all Option.isSome = true) : gcode (some (sortGt g)) = gcode (some g) := by
  simp [sortGt, gcode_map_some, gcode, h, sortNat_idem]

theorem sortGt_perm {g : Gt} (h : g.all Option.isSome = true) : (sortGt g).Perm g := by
  have h1 : (sortGt g).Perm ((g.filterMap id).map some) := (sortNat_perm _).map some
  rwa [map_some_filterMap_id h] at h1

theorem all_isSome_of_perm {g g' : Gt} (h : g.Perm g') : g.all Option.isSome = g'.all Option.isSome := by
  induction h with
  | nil => rfl
  | cons a _ ih => simp [ih]
  | swap a b l => simp [Bool.and_left_comm]
  | trans _ _ ih1 ih2 => exact ih1.trans ih2

theorem gcode_eq_of_perm {g g' : Gt} (h : g.Perm g') : gcode (some g) = gcode (some g') := by
  simp only [gcode, all_isSome_of_perm h]
  split
  · exact sortNat_eq_of_perm (h.filterMap id)
  · rfl

/-- a fully called genotype is determined up to order by its code -/
theorem perm_of_gcode_eq {g : Gt} {p : List Nat} (hp : p ≠ []) (h : sortNat p = gcode (some g)) :
    (p.map some).Perm g := by
  simp only [gcode] at h
  split at h
  · rename_i hall
    have := (perm_of_sortNat_eq h).map some
    rwa [map_some_filterMap_id hall] at this
  · exact absurd (sortNat_eq_nil h) hp

/-! ### `unphaseGt`, `clearPhasing` -/

theorem unphaseGt_fields (c : Call) : (unphaseGt c).fields = c.fields := by
  unfold unphaseGt; split
  · rfl
  · split <;> rfl

theorem unphaseGt_gcode (c : Call) : gcode (unphaseGt c).gt = gcode c.gt := by
  unfold unphaseGt; split
  · rfl
  · rename_i g hg
    split
    · rename_i h; simp [hg, gcode_sortGt h]
    · simp [hg]

theorem unphaseGt_phased (c : Call) (h : c.gt.isSome) : (unphaseGt c).phased = false := by
  unfold unphaseGt; split
  · rename_i hg; simp [hg] at h
  · split <;> rfl

/-- relation "same alleles up to order" on optional genotypes -/
def GtPerm : Option Gt → Option Gt → Prop
  | none, none => True
  | some a, some b => a.Perm b
  | _, _ => False

theorem GtPerm.refl (g : Option Gt) : GtPerm g g := by
  cases g <;> simp [GtPerm]

theorem GtPerm.trans {a b c : Option Gt} (h1 : GtPerm a b) (h2 : GtPerm b c) : GtPerm a c := by
  cases a <;> cases b <;> cases c <;> simp_all [GtPerm]
  exact h1.trans h2

theorem GtPerm.gcode_eq {a b : Option Gt} (h : GtPerm a b) : gcode a = gcode b := by
  cases a <;> cases b <;> simp_all [GtPerm]
  exact gcode_eq_of_perm h

theorem unphaseGt_gtPerm (c : Call) : GtPerm (unphaseGt c).gt c.gt := by
  unfold unphaseGt; split
  · exact GtPerm.refl _
  · rename_i g hg
    split
    · rename_i h; simp only [hg, GtPerm]; exact sortGt_perm h
    · simp only [hg, GtPerm]; exact List.Perm.refl _

theorem clearKey_gt (fmt : List String) (k : String) (c : Call) : (clearKey fmt k c).gt = c.gt := by
  unfold clearKey; split <;> rfl

theorem clearKey_phased (fmt : List String) (k : String) (c : Call) : (clearKey fmt k c).phased = c.phased := by
  unfold clearKey; split <;> rfl

theorem clearKey_get_other (fmt : List String) (k k' : String) (c : Call) (h : k' ≠ k) :
    (clearKey fmt k c).get k' = c.get k' := by
  unfold clearKey; split
  · exact Call.get_set_other _ _ _ _ h
  · rfl

theorem clearKey_get_same (fmt : List String) (k : String) (c : Call) (h : k ∈ fmt) :
    (clearKey fmt k c).get k = .missing := by
  simp [clearKey, h]

theorem clearPhasing_gtPerm (cfg : Cfg) (fmt : List String) (c : Call) : GtPerm (clearPhasing cfg fmt c).gt c.gt := by
  unfold clearPhasing
  split
  · rw [clearKey_gt, clearKey_gt]; exact unphaseGt_gtPerm c
  · split
    · exact unphaseGt_gtPerm c
    · exact GtPerm.refl _

theorem clearPhasing_gcode (cfg : Cfg) (fmt : List String) (c : Call) : gcode (clearPhasing cfg fmt c).gt = gcode c.gt :=
  (clearPhasing_gtPerm cfg fmt c).gcode_eq

theorem clearPhasing_get_other (cfg : Cfg) (fmt : List String) (c : Call) (k : String)
    (h1 : k ≠ "PS") (h2 : k ≠ "HP") : (clearPhasing cfg fmt c).get k = c.get k := by
  unfold clearPhasing
  split
  · rw [clearKey_get_other _ _ _ _ h2, clearKey_get_other _ _ _ _ h1]
    simp [Call.get, unphaseGt_fields]
  · split
    · simp [Call.get, unphaseGt_fields]
    · rfl

/-! ### phases handed to the writer -/

theorem alookup_mem {β} {l : List (Nat × β)} {p : Nat} {v : β} (h : alookup l p = some v) : (p, v) ∈ l := by
  induction l with
  | nil => simp [alookup] at h
  | cons kv r ih =>
    obtain ⟨k, w⟩ := kv
    simp only [alookup] at h
    split at h
    · rename_i hk; cases h; simp [hk]
    · exact List.mem_cons_of_mem _ (ih h)

theorem lookupPhase_length {mav : Bool} {t : Target} {pos : Nat} {p : List Nat}
    (h : lookupPhase mav t pos = some p) : p.length = 2 := by
  have hm := alookup_mem h
  rw [List.mem_reverse] at hm
  simp only [phasesOf, List.mem_filterMap] at hm
  obtain ⟨⟨v0, v1⟩, _, hv⟩ := hm
  split at hv
  · cases hv; rfl
  · cases hv

theorem lookupPhase_ne_nil {mav : Bool} {t : Target} {pos : Nat} {p : List Nat}
    (h : lookupPhase mav t pos = some p) : p ≠ [] := by
  intro hp; have := lookupPhase_length h; simp [hp] at this

/-- without `mav` every allele of a phase handed to the writer is 0 or 1 -/
theorem lookupPhase_alleles {t : Target} {pos : Nat} {p : List Nat}
    (h : lookupPhase false t pos = some p) : ∀ a ∈ p, a = 0 ∨ a = 1 := by
  have hm := alookup_mem h
  rw [List.mem_reverse] at hm
  simp only [phasesOf, List.mem_filterMap] at hm
  obtain ⟨⟨v0, v1⟩, _, hv⟩ := hm
  split at hv
  · rename_i hal
    cases hv
    simp only [allowed, Bool.false_or, Bool.and_eq_true, Bool.or_eq_true, beq_iff_eq] at hal
    intro a ha
    simp only [List.mem_cons, List.not_mem_nil, or_false] at ha
    rcases ha with rfl | rfl
    · rcases hal.1 with h0 | h1
      · left; simp [h0]
      · right; simp [h1]
    · rcases hal.2 with h0 | h1
      · left; simp [h0]
      · right; simp [h1]
  · cases hv

/-! ### `updateCall` -/

theorem gcode_changedGt (cfg : Cfg) (p : List Nat) : gcode (some (changedGt cfg p)) = sortNat p := by
  unfold changedGt
  split
  · rw [gcode_map_some, sortNat_idem]
  · rw [gcode_map_some, sortNat_reverse, sortNat_idem]

theorem setTag_get_other (tag : Tag) (c : Call) (comp : Nat) (p : List Nat) (k : String) (h : k ≠ tag.key) :
    (setTag tag c comp p).get k = c.get k := by
  cases tag
  · exact fget_fset_other _ _ _ _ h
  · exact fget_fset_other _ _ _ _ h

theorem changeStep_fields (cfg : Cfg) (t : Target) (r : Record) (c : Call) :
    (changeStep cfg t r c).1.fields = c.fields := by
  unfold changeStep
  split
  · split <;> rfl
  · rfl

/-- every FORMAT key other than the tag keeps its value in `updateCall` -/
theorem updateCall_get_other (cfg : Cfg) (t : Target) (r : Record) (c : Call) (k : String) (h : k ≠ cfg.tag.key) :
    (updateCall cfg t r c).1.get k = c.get k := by
  have hf := changeStep_fields cfg t r c
  unfold updateCall
  generalize changeStep cfg t r c = cs at hf
  obtain ⟨c1, chg, isHet⟩ := cs
  simp only at hf ⊢
  split
  · split
    · rw [setTag_get_other _ _ _ _ _ h]; simp [Call.get, hf]
    · rw [Call.get_set_other _ _ _ _ h]; simp [Call.get, hf]
  · rw [Call.get_set_other _ _ _ _ h]; simp [Call.get, hf]

/-- the change row of `updateCall` is the one of `changeStep` -/
theorem updateCall_snd (cfg : Cfg) (t : Target) (r : Record) (c : Call) :
    (updateCall cfg t r c).2 = (changeStep cfg t r c).2.1 := by
  unfold updateCall
  generalize changeStep cfg t r c = cs
  obtain ⟨c1, chg, isHet⟩ := cs
  simp only
  split
  · split <;> rfl
  · rfl

/-- the final genotype of `updateCall`: either the one after the change step, or (tag PS, phased) the phase -/
theorem updateCall_gt (cfg : Cfg) (t : Target) (r : Record) (c : Call) :
    (updateCall cfg t r c).1.gt = (changeStep cfg t r c).1.gt ∨
    ∃ p, lookupPhase cfg.mav t r.pos = some p ∧ (updateCall cfg t r c).1.gt = some (p.map some) := by
  unfold updateCall
  generalize changeStep cfg t r c = cs
  obtain ⟨c1, chg, isHet⟩ := cs
  simp only
  split
  · rename_i comp p hc hp
    split
    · cases htag : cfg.tag
      · right; exact ⟨p, hp, rfl⟩
      · left; rfl
    · left; rfl
  · left; rfl

/-- no change row: the alleles are those of the input call, up to order -/
theorem updateCall_unchanged (cfg : Cfg) (t : Target) (r : Record) (c : Call)
    (h : (updateCall cfg t r c).2 = none) : GtPerm (updateCall cfg t r c).1.gt c.gt := by
  rw [updateCall_snd] at h
  have hgt := updateCall_gt cfg t r c
  unfold changeStep at h hgt
  split at h
  · rename_i p hp
    split at h
    · cases h
    · rename_i heq
      have heq : sortNat p = gcode c.gt := by simpa using heq
      simp only [hp] at hgt
      rcases hgt with hgt | ⟨p', hp', hgt⟩
      · simp only [heq, ne_eq, not_true_eq_false, ↓reduceIte] at hgt
        rw [hgt]; exact GtPerm.refl _
      · cases hp'
        rw [hgt]
        cases hg : c.gt with
        | none =>
          rw [hg] at heq
          exact absurd (sortNat_eq_nil heq) (lookupPhase_ne_nil hp)
        | some g =>
          rw [hg] at heq
          exact perm_of_gcode_eq (lookupPhase_ne_nil hp) heq
  · rename_i hp
    simp only [hp] at hgt
    rcases hgt with hgt | ⟨p', hp', _⟩
    · rw [hgt]; exact GtPerm.refl _
    · cases hp'

/-- a change row records exactly the old and the new genotype, and they differ -/
theorem updateCall_changed (cfg : Cfg) (t : Target) (r : Record) (c : Call) (row : GtChange)
    (h : (updateCall cfg t r c).2 = some row) :
    row.sample = t.name ∧ row.pos = r.pos ∧ row.ref = r.ref ∧ row.alts = r.alts ∧
    row.oldGt = gcode c.gt ∧ row.newGt = gcode (updateCall cfg t r c).1.gt ∧ row.oldGt ≠ row.newGt := by
  rw [updateCall_snd] at h
  have hgt := updateCall_gt cfg t r c
  unfold changeStep at h hgt
  split at h
  · rename_i p hp
    split at h
    · rename_i hne
      simp only [hp] at hgt
      rw [if_pos hne] at hgt
      cases h
      have hnew : gcode (updateCall cfg t r c).1.gt = sortNat p := by
        rcases hgt with hgt | ⟨p', hp', hgt⟩
        · rw [hgt]; exact gcode_changedGt cfg p
        · cases hp'; rw [hgt]; exact gcode_map_some p
      refine ⟨rfl, rfl, rfl, rfl, rfl, hnew.symm, ?_⟩
      exact fun h => hne h.symm
    · cases h
  · cases h

/-! ### record level: what `writeRecord` does to each call -/

def applyT (cfg : Cfg) (f : Target → Call → Call) (n : String) (c : Call) : Call :=
  match findTarget cfg n with
  | some t => f t c
  | none => c

theorem mapTargets_eq (cfg : Cfg) (f : Target → Call → Call) (calls : List (String × Call)) :
    mapTargets cfg f calls = calls.map fun nc => (nc.1, applyT cfg f nc.1 nc.2) := by
  unfold mapTargets
  apply List.map_congr_left
  intro nc _
  unfold applyT
  cases h : findTarget cfg nc.1 <;> simp

theorem filterMap_congr' {α β} {f g : α → Option β} {l : List α} (h : ∀ a ∈ l, f a = g a) :
    l.filterMap f = l.filterMap g := by
  induction l with
  | nil => rfl
  | cons a r ih =>
    have h1 := h a (List.mem_cons_self)
    have h2 := ih fun x hx => h x (List.mem_cons_of_mem _ hx)
    simp only [List.filterMap_cons, h1, h2]

theorem clookup_map (g : String → Call → Call) (calls : List (String × Call)) (n : String) :
    clookup (calls.map fun nc => (nc.1, g nc.1 nc.2)) n = (clookup calls n).map (g n) := by
  induction calls with
  | nil => rfl
  | cons nc r ih =>
    obtain ⟨k, c⟩ := nc
    by_cases h : k = n
    · subst h; simp [clookup]
    · simp [clookup, h, ih]

theorem clookup_mapTargets (cfg : Cfg) (f : Target → Call → Call) (calls : List (String × Call)) (n : String) :
    clookup (mapTargets cfg f calls) n = (clookup calls n).map (applyT cfg f n) := by
  rw [mapTargets_eq]; exact clookup_map _ _ _

/-- the call of sample `n` after `write` has processed the record -/
def finalCall (cfg : Cfg) (prev : Option Nat) (r : Record) (n : String) (c : Call) : Call :=
  match findTarget cfg n with
  | some t =>
    if reaches cfg prev r then (updateCall cfg t r (clearPhasing cfg r.format c)).1 else clearPhasing cfg r.format c
  | none => c

theorem writeRecord_calls (cfg : Cfg) (prev : Option Nat) (r : Record) :
    (writeRecord cfg prev r).record.calls = r.calls.map fun nc => (nc.1, finalCall cfg prev r nc.1 nc.2) := by
  unfold writeRecord
  simp only [mapTargets_eq]
  split
  · rename_i h
    simp only [List.map_map]
    apply List.map_congr_left
    intro nc _
    simp only [Function.comp, finalCall, applyT, h, if_true]
    split <;> rfl
  · rename_i h
    apply List.map_congr_left
    intro nc _
    simp only [finalCall, applyT, h]
    split <;> simp

theorem writeRecord_clookup (cfg : Cfg) (prev : Option Nat) (r : Record) (n : String) :
    clookup (writeRecord cfg prev r).record.calls n = (clookup r.calls n).map (finalCall cfg prev r n) := by
  rw [writeRecord_calls]; exact clookup_map _ _ _

theorem writeRecord_site (cfg : Cfg) (prev : Option Nat) (r : Record) :
    (writeRecord cfg prev r).record.site = r.site ∧ (writeRecord cfg prev r).record.pos = r.pos ∧
    (writeRecord cfg prev r).record.ref = r.ref ∧ (writeRecord cfg prev r).record.alts = r.alts := by
  unfold writeRecord; split <;> simp

theorem writeRecord_format (cfg : Cfg) (prev : Option Nat) (r : Record) :
    (writeRecord cfg prev r).record.format = if reaches cfg prev r then addKey r.format cfg.tag.key else r.format := by
  unfold writeRecord; split <;> simp

theorem find_name_of_mem {l : List Target} (hnd : (l.map (·.name)).Nodup) {t : Target} (ht : t ∈ l) :
    l.find? (fun x => x.name = t.name) = some t := by
  induction l with
  | nil => cases ht
  | cons a r ih =>
    simp only [List.map_cons, List.nodup_cons] at hnd
    by_cases h : a.name = t.name
    · have : t = a := by
        rcases List.mem_cons.mp ht with rfl | hr
        · rfl
        · exact absurd (h ▸ List.mem_map_of_mem (f := (·.name)) hr) hnd.1
      subst this; simp
    · have htr : t ∈ r := by
        rcases List.mem_cons.mp ht with rfl | hr
        · exact absurd rfl h
        · exact hr
      simp [List.find?_cons, h, ih hnd.2 htr]

theorem findTarget_of_mem {cfg : Cfg} (hnd : (cfg.targets.map (·.name)).Nodup) {t : Target} (ht : t ∈ cfg.targets) :
    findTarget cfg t.name = some t := find_name_of_mem hnd ht

theorem findTarget_name {cfg : Cfg} {n : String} {t : Target} (h : findTarget cfg n = some t) :
    t.name = n ∧ t ∈ cfg.targets := by
  unfold findTarget at h
  have := List.find?_some h
  exact ⟨by simpa using this, List.mem_of_find?_eq_some h⟩

theorem findTarget_isSome_of_mem {cfg : Cfg} {t : Target} (ht : t ∈ cfg.targets) :
    ∃ t', findTarget cfg t.name = some t' := by
  unfold findTarget
  have : (cfg.targets.find? (fun x => x.name = t.name)).isSome := by
    rw [List.find?_isSome]; exact ⟨t, ht, by simp⟩
  exact Option.isSome_iff_exists.mp this

/-- the change rows of a record, spelled out -/
theorem writeRecord_changes (cfg : Cfg) (prev : Option Nat) (r : Record) :
    (writeRecord cfg prev r).changes =
      if reaches cfg prev r then
        cfg.targets.filterMap fun t =>
          (clookup r.calls t.name).bind fun c => (updateCall cfg t r (clearPhasing cfg r.format c)).2
      else [] := by
  unfold writeRecord
  split
  · simp only
    apply filterMap_congr'
    intro t ht
    rw [clookup_mapTargets]
    obtain ⟨t', ht'⟩ := findTarget_isSome_of_mem ht
    cases hc : clookup r.calls t.name with
    | none => simp
    | some c => simp [applyT, ht']
  · rfl

/-- a call without a change row keeps its alleles (up to order) -/
theorem writeRecord_gtPerm_of_no_row (cfg : Cfg) (prev : Option Nat) (r : Record) (n : String) (c c' : Call)
    (hc : clookup r.calls n = some c) (hc' : clookup (writeRecord cfg prev r).record.calls n = some c')
    (hno : ∀ row ∈ (writeRecord cfg prev r).changes, row.sample ≠ n) : GtPerm c'.gt c.gt := by
  rw [writeRecord_clookup, hc] at hc'
  simp only [Option.map_some, Option.some.injEq] at hc'
  subst hc'
  unfold finalCall
  cases hft : findTarget cfg n with
  | none => exact GtPerm.refl _
  | some t =>
    simp only
    obtain ⟨hname, hmem⟩ := findTarget_name hft
    split
    · rename_i hreach
      have hnone : (updateCall cfg t r (clearPhasing cfg r.format c)).2 = none := by
        cases hu : (updateCall cfg t r (clearPhasing cfg r.format c)).2 with
        | none => rfl
        | some row =>
          exfalso
          apply hno row
          · rw [writeRecord_changes, if_pos hreach, List.mem_filterMap]
            exact ⟨t, hmem, by rw [hname, hc]; exact hu⟩
          · rw [(updateCall_changed cfg t r _ row hu).1, hname]
      exact (updateCall_unchanged cfg t r _ hnone).trans (clearPhasing_gtPerm cfg r.format c)
    · exact clearPhasing_gtPerm cfg r.format c

/-- phases with the alleles of the input genotypes produce no change rows -/
theorem writeRecord_changes_nil_of_trusted (cfg : Cfg) (prev : Option Nat) (r : Record)
    (htrust : ∀ t ∈ cfg.targets, ∀ c p, clookup r.calls t.name = some c →
        lookupPhase cfg.mav t r.pos = some p → sortNat p = gcode c.gt) :
    (writeRecord cfg prev r).changes = [] := by
  rw [writeRecord_changes]
  split
  · rw [List.filterMap_eq_nil_iff]
    intro t ht
    cases hc : clookup r.calls t.name with
    | none => rfl
    | some c =>
      simp only [Option.bind_some, updateCall_snd, changeStep]
      split
      · rename_i p hp
        have := htrust t ht c p hc hp
        rw [clearPhasing_gcode, if_neg (by simpa using this)]
      · rfl
  · rfl

/-- every output of `writeChrom` sits at the index of the input record it was made from -/
theorem writeChrom_getElem (cfg : Cfg) (rs : List Record) (prev : Option Nat) (i : Nat) (o : Out)
    (h : (writeChrom cfg prev rs)[i]? = some o) : ∃ prev' r, rs[i]? = some r ∧ o = writeRecord cfg prev' r := by
  induction rs generalizing prev i with
  | nil => simp [writeChrom] at h
  | cons r rest ih =>
    cases i with
    | zero =>
      simp only [writeChrom, List.getElem?_cons_zero, Option.some.injEq] at h
      exact ⟨prev, r, rfl, h.symm⟩
    | succ j =>
      simp only [writeChrom, List.getElem?_cons_succ] at h
      obtain ⟨p', r', h1, h2⟩ := ih _ j h
      exact ⟨p', r', by simpa using h1, h2⟩

theorem writeChrom_length (cfg : Cfg) (rs : List Record) (prev : Option Nat) :
    (writeChrom cfg prev rs).length = rs.length := by
  induction rs generalizing prev with
  | nil => rfl
  | cons r rest ih => simp [writeChrom, ih]


end WhVerif.C04

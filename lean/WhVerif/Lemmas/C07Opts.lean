import WhVerif.Model.C07Opts
/-! helper lemmas for the option glue of C07 -/
namespace WhVerif.C07

theorem firstRejection_none (a : PhaseArgs) (h : firstRejection a = none) : capAccepted (parsedCap a) = true := by
  unfold firstRejection at h
  rw [Option.map_eq_none_iff, List.find?_eq_none] at h
  have := h (!capAccepted (parsedCap a), .capAbove23) (by simp [checks])
  simpa using this

theorem validateCap_ok (a : PhaseArgs) (k : Int) (h : validateCap a = .ok k) :
    k = parsedCap a ∧ capAccepted (parsedCap a) = true := by
  unfold validateCap at h
  split at h
  · contradiction
  · rename_i hn
    simp only [Except.ok.injEq] at h
    exact ⟨h.symm, firstRejection_none a hn⟩

end WhVerif.C07

import WhVerif.Spec.C09Cap
import Mathlib.Data.List.Perm.Subperm
namespace WhVerif.C09.Cap

/-- selected sets: distinct, and sets of the input -/
def Inv (spans : List Span) (sel : List Nat) : Prop := sel.Nodup ∧ ∀ j ∈ sel, j < spans.length

theorem inv_step (cap : Nat) (ps : List Nat) (spans : List Span) (sel : List Nat) (i : Nat) (h : Inv spans sel) :
    Inv spans (step cap ps spans sel i) := by
  unfold step
  split
  · exact h
  · rename_i hi
    split
    · rename_i ha
      simp only [Bool.and_eq_true, decide_eq_true_eq] at ha
      refine ⟨List.nodup_cons.mpr ⟨hi, h.1⟩, ?_⟩
      intro j hj
      rcases List.mem_cons.mp hj with rfl | hj
      · exact ha.1
      · exact h.2 j hj
    · exact h

theorem mem_step_of_mem (cap : Nat) (ps : List Nat) (spans : List Span) (sel : List Nat) (i j : Nat) (h : j ∈ sel) :
    j ∈ step cap ps spans sel i := by
  unfold step
  split
  · exact h
  · split
    · exact List.mem_cons_of_mem _ h
    · exact h

theorem mem_foldl_of_mem (cap : Nat) (ps : List Nat) (spans : List Span) (order : List Nat) (sel : List Nat) (j : Nat)
    (h : j ∈ sel) : j ∈ order.foldl (step cap ps spans) sel := by
  induction order generalizing sel with
  | nil => exact h
  | cons a t ih => exact ih _ (mem_step_of_mem cap ps spans sel a j h)

/-- pigeonhole: the selected sets other than `i` that span `p` are fewer than all sets that span `p` -/
theorem cov_lt_depth (spans : List Span) (sel : List Nat) (i p : Nat) (h : Inv spans sel) (hi : i ∉ sel)
    (hlt : i < spans.length) (hov : over spans p i = true) : covIdx spans sel p < depthAt spans p := by
  unfold depthAt covIdx
  have hnd : (i :: sel).Nodup := List.nodup_cons.mpr ⟨hi, h.1⟩
  have hsub : (i :: sel) ⊆ List.range spans.length := by
    intro j hj
    rcases List.mem_cons.mp hj with rfl | hj
    · exact List.mem_range.mpr hlt
    · exact List.mem_range.mpr (h.2 j hj)
  have hle := ((hnd.subperm hsub).filter (over spans p)).length_le
  simp only [List.filter_cons, hov, if_true, List.length_cons] at hle
  omega

theorem admitted_of_fits (cap : Nat) (ps : List Nat) (spans : List Span) (sel : List Nat) (i : Nat) (h : Inv spans sel)
    (hi : i ∉ sel) (hlt : i < spans.length) (hf : fits cap ps spans i = true) : admitted cap ps spans sel i = true := by
  unfold admitted
  unfold fits at hf
  rw [List.all_eq_true] at hf ⊢
  intro p hp
  have := hf p hp
  cases hov : over spans p i with
  | false => simp
  | true =>
    simp only [hov, Bool.not_true, Bool.false_or, decide_eq_true_eq] at this ⊢
    have := cov_lt_depth spans sel i p h hi hlt hov
    omega

theorem step_selects (cap : Nat) (ps : List Nat) (spans : List Span) (sel : List Nat) (i : Nat) (h : Inv spans sel)
    (hlt : i < spans.length) (hf : fits cap ps spans i = true) : i ∈ step cap ps spans sel i := by
  unfold step
  split
  · assumption
  · rename_i hi
    have ha := admitted_of_fits cap ps spans sel i h hi hlt hf
    simp [hlt, ha]

theorem foldl_selects (cap : Nat) (ps : List Nat) (spans : List Span) (order : List Nat) (sel : List Nat) (i : Nat)
    (h : Inv spans sel) (hlt : i < spans.length) (hf : fits cap ps spans i = true) (hmem : i ∈ order) :
    i ∈ order.foldl (step cap ps spans) sel := by
  induction order generalizing sel with
  | nil => cases hmem
  | cons a t ih =>
    rcases List.mem_cons.mp hmem with rfl | ht
    · exact mem_foldl_of_mem cap ps spans t _ _ (step_selects cap ps spans sel _ h hlt hf)
    · exact ih _ (inv_step cap ps spans sel a h) ht

end WhVerif.C09.Cap

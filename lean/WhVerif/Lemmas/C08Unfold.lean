import WhVerif.Lemmas.C08Sum
/-!
# C08 lemmas, part 2: the table-building steps of the model written as `Finset` sums.
-/
namespace WhVerif.C08
open Finset

theorem idx2_div {n t : Nat} (p : Nat) (h : t < n) : (p * n + t) / n = p := by
  have hn : 0 < n := by omega
  rw [Nat.add_comm, Nat.add_mul_div_right _ _ hn, Nat.div_eq_of_lt h, Nat.zero_add]

theorem idx2_mod {n t : Nat} (p : Nat) (h : t < n) : (p * n + t) % n = t := by
  rw [Nat.add_comm, Nat.add_mul_mod_self_right, Nat.mod_eq_of_lt h]

theorem idx2_lt {P n p t : Nat} (hp : p < P) (h : t < n) : p * n + t < P * n := by
  calc p * n + t < p * n + n := by omega
    _ = (p + 1) * n := by rw [Nat.add_mul, Nat.one_mul]
    _ ≤ P * n := Nat.mul_le_mul_right _ hp

section
variable {K : Type} [Field K] (F : Frame) (W : Weights K) (S : Scal K)

theorem sumPrev_eq (c : Nat) (co : Col) (prev : Array K) (idx t : Nat) :
    sumPrev W c co prev idx t =
      if c = 0 then 1 else ∑ j ∈ range W.nT, tblAt prev ((idx % 2 ^ co.bwdW) * W.nT + j) * W.trans c j t := by
  unfold sumPrev; rw [sumN_eq_sum]

theorem fwdStep_at (c : Nat) (prev : Array K) {p t : Nat} (hp : p < 2 ^ (F.col c).fwdPos.length) (ht : t < W.nT) :
    tblAt (fwdStep F W S c prev) (p * W.nT + t) =
      ∑ idx ∈ range (2 ^ (F.col c).nAct),
        if gather (F.col c).fwdPos idx = p then ∑ a ∈ range W.nA, cell W S c (F.col c) prev idx t a else 0 := by
  unfold fwdStep
  simp only []
  rw [tblAt_mkTbl_lt _ (idx2_lt hp ht), sumN_eq_sum, idx2_div p ht, idx2_mod p ht]
  apply sum_congr rfl
  intro idx hidx
  rw [mem_range] at hidx
  rw [tblAt_mkTbl_lt _ (idx2_lt hidx ht), sumN_eq_sum, idx2_div idx ht, idx2_mod idx ht]

theorem bwdStep_at (c : Nat) (next : Array K) {p j : Nat} (hp : p < 2 ^ (F.col c).bwdW) (hj : j < W.nT) :
    tblAt (bwdStep F W S c next) (p * W.nT + j) =
      (∑ idx ∈ range (2 ^ (F.col c).nAct),
        if idx % 2 ^ (F.col c).bwdW = p then
          ∑ t ∈ range W.nT, (bRaw F W c next (gather (F.col c).fwdPos idx) t *
            ∑ a ∈ range W.nA, W.emit c (bitsOf (F.col c).nAct idx) t a * W.asg c t a) * W.trans c j t
        else 0) / S.bw c := by
  unfold bwdStep
  simp only []
  rw [tblAt_mkTbl_lt _ (idx2_lt hp hj), sumN_eq_sum, idx2_div p hj, idx2_mod p hj]
  congr 1
  apply sum_congr rfl
  intro idx hidx
  rw [mem_range] at hidx
  split
  · rw [sumN_eq_sum]
    apply sum_congr rfl
    intro t ht
    rw [mem_range] at ht
    rw [tblAt_mkTbl_lt _ (idx2_lt hidx ht), sumN_eq_sum, idx2_div idx ht, idx2_mod idx ht]
  · rfl

theorem numerOf_fbCells (c : Nat) (sel : Nat → Nat → Bool) :
    numer F W S c sel =
      ∑ idx ∈ range (2 ^ (F.col c).nAct), ∑ t ∈ range W.nT, ∑ a ∈ range W.nA,
        if sel t a then
          cell W S c (F.col c) (prevTbl F W S c) idx t a
            * bwdAt F W S c (bwdOf F W S c) (gather (F.col c).fwdPos idx) t
        else 0 := by
  unfold numer numerOf fbCells
  simp only []
  rw [sumN_eq_sum]
  apply sum_congr rfl; intro idx hidx; rw [mem_range] at hidx
  rw [sumN_eq_sum]
  apply sum_congr rfl; intro t ht; rw [mem_range] at ht
  rw [sumN_eq_sum]
  apply sum_congr rfl; intro a ha; rw [mem_range] at ha
  split
  · have h1 : (idx * W.nT + t) * W.nA + a < 2 ^ (F.col c).nAct * W.nT * W.nA := idx2_lt (idx2_lt hidx ht) ha
    rw [tblAt_mkTbl_lt _ h1, idx2_div _ ha, idx2_mod _ ha, idx2_div _ ht, idx2_mod _ ht]
  · rfl

end
end WhVerif.C08

import WhVerif.Model.C07Cov
/-! helper lemmas for the array model of `CovMonitor` (`Model/C07Cov.lean`) -/
namespace WhVerif.C07.Mon

theorem le_foldl_max (k : Nat) : ∀ (xs : List Nat) (x : Nat), k ≤ xs.foldl max x ↔ (k ≤ x ∨ ∃ y ∈ xs, k ≤ y)
  | [], x => by simp
  | y :: ys, x => by
    rw [List.foldl_cons, le_foldl_max k ys (max x y)]
    have hm : k ≤ max x y ↔ k ≤ x ∨ k ≤ y := by omega
    simp only [hm, List.mem_cons, exists_eq_or_imp, or_assoc]

theorem addRead_length (w : Option Nat) (cov : List Nat) (b e : Nat) : (addRead w cov b e).length = cov.length := by
  simp [addRead]

theorem addRead_get (w : Option Nat) (cov : List Nat) (b e i : Nat) :
    (addRead w cov b e)[i]? = cov[i]?.map (fun x => if b ≤ i ∧ i < e then inc w x else x) := by
  simp [addRead, List.getElem?_mapIdx]

theorem slice_get (cov : List Nat) (b e j : Nat) :
    (slice cov b e)[j]? = if b + j < e then cov[b + j]? else none := by
  simp [slice, List.getElem?_drop, List.getElem?_take]

theorem mem_slice (cov : List Nat) (b e x : Nat) :
    x ∈ slice cov b e ↔ ∃ i, b ≤ i ∧ i < e ∧ cov[i]? = some x := by
  rw [List.mem_iff_getElem?]
  constructor
  · rintro ⟨j, hj⟩
    rw [slice_get] at hj
    split at hj
    · exact ⟨b + j, by omega, by omega, hj⟩
    · cases hj
  · rintro ⟨i, h1, h2, h3⟩
    refine ⟨i - b, ?_⟩
    rw [slice_get]
    have : b + (i - b) = i := by omega
    rw [this, if_pos h2, h3]

/-- the test of the callers: `max(coverage[b:e]) >= k` iff some counter in the range is `≥ k` -/
theorem maxIn_ge (cov : List Nat) (b e k m : Nat) (h : maxIn cov b e = some m) :
    k ≤ m ↔ ∃ i, b ≤ i ∧ i < e ∧ ∃ x, cov[i]? = some x ∧ k ≤ x := by
  unfold maxIn at h
  split at h
  · cases h
  · rename_i x xs hs
    cases h
    rw [le_foldl_max]
    have hm : ∀ y, (y = x ∨ y ∈ xs) ↔ ∃ i, b ≤ i ∧ i < e ∧ cov[i]? = some y := by
      intro y
      rw [← mem_slice, hs, List.mem_cons]
    constructor
    · rintro (h | ⟨y, hy, hk⟩)
      · obtain ⟨i, h1, h2, h3⟩ := (hm x).1 (Or.inl rfl)
        exact ⟨i, h1, h2, x, h3, h⟩
      · obtain ⟨i, h1, h2, h3⟩ := (hm y).1 (Or.inr hy)
        exact ⟨i, h1, h2, y, h3, hk⟩
    · rintro ⟨i, h1, h2, y, h3, hk⟩
      rcases (hm y).2 ⟨i, h1, h2, h3⟩ with h | h
      · exact Or.inl (h ▸ hk)
      · exact Or.inr ⟨y, h, hk⟩

theorem maxIn_isSome (cov : List Nat) (b e : Nat) (h1 : b < e) (h2 : e ≤ cov.length) : ∃ m, maxIn cov b e = some m := by
  unfold maxIn
  split
  · rename_i hs
    have : cov[b] ∈ slice cov b e := (mem_slice cov b e _).2 ⟨b, Nat.le_refl _, h1, by simp⟩
    rw [hs] at this
    cases this
  · exact ⟨_, rfl⟩

theorem init_get (n i : Nat) : (init n)[i]? = if i < n then some 0 else none := by
  simp [init, List.getElem?_replicate]

theorem count_cons (c : Nat × Nat) (calls : List (Nat × Nat)) (i : Nat) :
    count (c :: calls) i = count calls i + (if c.1 ≤ i ∧ i < c.2 then 1 else 0) := by
  simp only [count, List.countP_cons, contains, Bool.and_eq_true, decide_eq_true_eq]

/-- invariant of the guarded run with exact counters: every counter is the number of admitted calls over it, and `≤ k` -/
def Good (k n : Nat) (s : St) : Prop :=
  s.cov.length = n ∧ ∀ i, i < n → s.cov[i]? = some (count s.admitted i) ∧ count s.admitted i ≤ k

theorem good_init (k n : Nat) : Good k n ⟨init n, []⟩ := by
  refine ⟨by simp [init], fun i hi => ?_⟩
  simp [init_get, hi, count]

theorem good_step (k n : Nat) (s : St) (c : Nat × Nat) (h : Good k n s) : Good k n (step none k s c) := by
  unfold step
  split
  · rename_i m hm
    split
    · exact h
    · rename_i hk
      have hlt : ∀ i, c.1 ≤ i → i < c.2 → i < n → count s.admitted i < k := by
        intro i h1 h2 h3
        apply Nat.lt_of_not_le
        intro hge
        exact hk ((maxIn_ge s.cov c.1 c.2 k m hm).2 ⟨i, h1, h2, _, (h.2 i h3).1, hge⟩)
      refine ⟨by simp [addRead_length, h.1], fun i hi => ?_⟩
      simp only [addRead_get, (h.2 i hi).1, Option.map_some, count_cons, inc]
      by_cases hc : c.1 ≤ i ∧ i < c.2
      · simp only [hc, and_self, if_true]
        exact ⟨by trivial, hlt i hc.1 hc.2 hi⟩
      · simp only [hc, if_false, Nat.add_zero]
        exact ⟨by trivial, (h.2 i hi).2⟩
  · exact h

theorem good_run (k n : Nat) (calls : List (Nat × Nat)) : ∀ s, Good k n s → Good k n (calls.foldl (step none k) s) := by
  induction calls with
  | nil => intro s h; exact h
  | cons c cs ih => intro s h; exact ih _ (good_step k n s c h)

/-- invariant of a `b`-bit monitor: every counter is `< 2^b` -/
def Small (b n : Nat) (cov : List Nat) : Prop := cov.length = n ∧ ∀ (i x : Nat), cov[i]? = some x → x < 2 ^ b

theorem small_init (b n : Nat) : Small b n (init n) := by
  refine ⟨by simp [init], fun i x h => ?_⟩
  rw [init_get] at h
  split at h
  · cases h; exact Nat.two_pow_pos b
  · cases h

theorem small_add (b n : Nat) (cov : List Nat) (lo hi : Nat) (h : Small b n cov) : Small b n (addRead (some b) cov lo hi) := by
  refine ⟨by simp [addRead_length, h.1], fun i x hx => ?_⟩
  rw [addRead_get] at hx
  cases hc : cov[i]? with
  | none => simp [hc] at hx
  | some y =>
    simp only [hc, Option.map_some, Option.some.injEq] at hx
    subst hx
    split
    · exact Nat.mod_lt _ (Nat.two_pow_pos b)
    · exact h.2 i y hc

theorem narrow_run (b k n : Nat) (hk : 2 ^ b ≤ k) (calls : List (Nat × Nat)) (hc : ∀ c ∈ calls, c.1 < c.2 ∧ c.2 ≤ n) :
    ∀ s, Small b n s.cov →
      Small b n (calls.foldl (step (some b) k) s).cov ∧ (calls.foldl (step (some b) k) s).admitted = calls.reverse ++ s.admitted := by
  induction calls with
  | nil => intro s h; exact ⟨h, by simp⟩
  | cons c cs ih =>
    intro s h
    have hcc := hc c (List.mem_cons_self)
    obtain ⟨m, hm⟩ := maxIn_isSome s.cov c.1 c.2 hcc.1 (by rw [h.1]; exact hcc.2)
    have hlt : ¬ k ≤ m := by
      intro hge
      obtain ⟨i, -, -, x, hx, hkx⟩ := (maxIn_ge s.cov c.1 c.2 k m hm).1 hge
      have := h.2 i x hx
      omega
    have hs : step (some b) k s c = ⟨addRead (some b) s.cov c.1 c.2, c :: s.admitted⟩ := by
      simp [step, hm, hlt]
    have := ih (fun c' h' => hc c' (List.mem_cons_of_mem _ h')) (step (some b) k s c) (by rw [hs]; exact small_add b n _ _ _ h)
    simp only [List.foldl_cons]
    refine ⟨this.1, ?_⟩
    rw [this.2, hs]
    simp

end WhVerif.C07.Mon

import WhVerif.Lemmas.C19Word
/-!
# The constructor from an index, the packed word, the documented order

* `pack_ok`: packing an ascending list of at most 15 alleles `< 16` (both constructors do exactly this) – what every
  nibble of the resulting word holds;
* `packLoopC_of_packLoop`, `checkLoopC_ok`, `checkLoopC_fuel`: the guarded accessors never fire within ploidy ≤ 15;
* `ofIndex_ok`: `Genotype(index, ploidy)` succeeds below the count and builds the same word as the vector constructor;
* `word_lt`, `word_ext`: the word fits 64 bits and is determined by its 16 nibbles;
* `idx_lt_iff_lex`: the index order is the lexicographic order of the descending allele vectors.
-/
namespace WhVerif.C19
open Nat

/-! ## packing an ascending list -/

/-- the word both constructors build from the sorted alleles `s` -/
def packed (s : List Nat) (g0 : Genotype) : Genotype := g0.setPosition MAX_PLOIDY s.length

theorem pack_ok (s : List Nat) (hp : s.length ≤ 15) (ha : ∀ a ∈ s, a < 16) (hs : Asc s) :
    ∃ g0, packLoop s.length 0 s ⟨0⟩ = .ok g0 ∧
      (packed s g0).getPloidy = s.length ∧
      (∀ q, q < s.length → (packed s g0).getPosition q = s.getD (s.length - 1 - q) 0) ∧
      (∀ q, s.length ≤ q → q < 15 → (packed s g0).getPosition q = 0) ∧
      (packed s g0).descending = true ∧ (packed s g0).allelesAsc = s ∧ (packed s g0).asVector = s.reverse := by
  obtain ⟨g0, h1, h2⟩ := packLoop_spec s.length hp s 0 ⟨0⟩ ha (by omega)
  simp only [Nat.sub_zero, getPosition_zero] at h2
  have hpl : (packed s g0).getPloidy = s.length := by
    unfold packed Genotype.getPloidy MAX_PLOIDY
    rw [getPosition_setPosition _ _ _ _ (by omega) (by omega) (by omega)]; simp
  have hpos : ∀ q, q < s.length → (packed s g0).getPosition q = s.getD (s.length - 1 - q) 0 := by
    intro q hq
    unfold packed MAX_PLOIDY
    rw [getPosition_setPosition _ _ _ _ (by omega) (by omega) (by omega), if_neg (by omega), h2 q (by omega), if_pos hq]
  have hzero : ∀ q, s.length ≤ q → q < 15 → (packed s g0).getPosition q = 0 := by
    intro q hq hq2
    unfold packed MAX_PLOIDY
    rw [getPosition_setPosition _ _ _ _ (by omega) (by omega) (by omega), if_neg (by omega), h2 q (by omega), if_neg (by omega)]
  have hdesc : (packed s g0).descending = true := by
    unfold Genotype.descending
    rw [hpl, List.all_eq_true]
    intro i hi
    have hi' : i < s.length - 1 := by simpa using hi
    rw [hpos i (by omega), hpos (i + 1) (by omega)]
    have := asc_getD s hs (s.length - 1 - (i + 1)) (s.length - 1 - i) (by omega) (by omega)
    simp only [Bool.not_eq_eq_eq_not, Bool.not_true, decide_eq_false_iff_not]
    omega
  refine ⟨g0, h1, hpl, hpos, hzero, hdesc, ?_, ?_⟩
  · unfold Genotype.allelesAsc
    rw [hpl]
    apply List.ext_getElem
    · simp
    · intro i hi1 hi2
      simp only [List.length_map, List.length_range] at hi1
      simp only [List.getElem_map, List.getElem_range]
      rw [hpos _ (by omega)]
      have e : s.length - 1 - (s.length - i - 1) = i := by omega
      rw [e, getD_of_lt]
  · unfold Genotype.asVector
    rw [hpl]
    apply List.ext_getElem
    · simp
    · intro i hi1 hi2
      simp only [List.length_map, List.length_range] at hi1
      simp only [List.getElem_map, List.getElem_range, List.getElem_reverse]
      rw [hpos _ (by omega), ← getD_of_lt]

/-- the vector constructor in terms of `packed` -/
theorem ofAlleles_eq_packed (l : List Nat) (hp : l.length < 15) (ha : ∀ a ∈ l, a < 16) :
    ∃ g0, packLoop l.length 0 (sortAsc l) ⟨0⟩ = .ok g0 ∧ Genotype.ofAlleles l = .ok (packed (sortAsc l) g0) := by
  have hsl := sortAsc_length l
  obtain ⟨g0, h1, _, _, _, hdesc, _, _⟩ := pack_ok (sortAsc l) (by omega) (fun a h => ha a ((mem_sortAsc l a).mp h)) (sortAsc_asc l)
  rw [hsl] at h1
  refine ⟨g0, h1, ?_⟩
  have hnp : ¬ l.length ≥ MAX_PLOIDY := by unfold MAX_PLOIDY; omega
  unfold Genotype.ofAlleles
  simp only []
  rw [if_neg hnp, h1]
  unfold packed at hdesc
  rw [hsl] at hdesc
  simp only [hdesc]
  simp [packed, hsl]

/-! ## the guarded accessors -/

theorem packLoopC_of_packLoop (p : Nat) (hp : p ≤ 16) : ∀ (rest : List Nat) (i : Nat) (g g' : Genotype),
    packLoop p i rest g = .ok g' → packLoopC p i rest g = .ok g' := by
  intro rest
  induction rest with
  | nil => intro i g g' h; simpa [packLoop, packLoopC] using h
  | cons a as ih =>
    intro i g g' h
    simp only [packLoop] at h
    simp only [packLoopC]
    by_cases c : a ≥ MAX_ALLELES
    · rw [if_pos c] at h; cases h
    · rw [if_neg c] at h
      rw [if_neg c]
      have hs : g.setPositionC (p - i - 1) a = .ok (g.setPosition (p - i - 1) a) := by
        unfold Genotype.setPositionC
        rw [if_neg (by unfold MAX_PLOIDY; omega), if_neg c]
      rw [hs]
      exact ih (i + 1) _ g' h

theorem checkLoopC_ok (g : Genotype) (bound : Nat) (hb : bound ≤ 14)
    (hd : ∀ i, i < bound → ¬ g.getPosition i < g.getPosition (i + 1)) :
    ∀ fuel i, checkLoopC g bound fuel i = .ok () := by
  intro fuel
  induction fuel with
  | zero => intro i; rfl
  | succ fuel ih =>
    intro i
    simp only [checkLoopC]
    by_cases c : i < bound
    · rw [if_pos c]
      have h1 : g.getPositionC i = .ok (g.getPosition i) := by
        unfold Genotype.getPositionC; rw [if_neg (by unfold MAX_PLOIDY; omega)]
      have h2 : g.getPositionC (i + 1) = .ok (g.getPosition (i + 1)) := by
        unfold Genotype.getPositionC; rw [if_neg (by unfold MAX_PLOIDY; omega)]
      rw [h1, h2]
      simp only []
      rw [if_neg (hd i c)]
      exact ih (i + 1)
    · rw [if_neg c]

/-- `fuel = 17` is never exhausted: `get_position(16)` throws -/
theorem checkLoopC_fuel (g : Genotype) (bound : Nat) : ∀ (d i fuel fuel' : Nat), i + d = 16 → i + fuel ≥ 17 → i + fuel' ≥ 17 →
    checkLoopC g bound fuel i = checkLoopC g bound fuel' i := by
  intro d
  induction d with
  | zero =>
    intro i fuel fuel' hi h1 h2
    obtain ⟨f, rfl⟩ : ∃ f, fuel = f + 1 := ⟨fuel - 1, by omega⟩
    obtain ⟨f', rfl⟩ : ∃ f', fuel' = f' + 1 := ⟨fuel' - 1, by omega⟩
    simp only [checkLoopC]
    have h16 : g.getPositionC i = .error .getPos := by
      unfold Genotype.getPositionC; rw [if_pos (by unfold MAX_PLOIDY; omega)]
    rw [h16]
  | succ d ih =>
    intro i fuel fuel' hi h1 h2
    obtain ⟨f, rfl⟩ : ∃ f, fuel = f + 1 := ⟨fuel - 1, by omega⟩
    obtain ⟨f', rfl⟩ : ∃ f', fuel' = f' + 1 := ⟨fuel' - 1, by omega⟩
    simp only [checkLoopC]
    rw [ih (i + 1) f f' (by omega) (by omega) (by omega)]

/-! ## the constructor from an index -/

/-- the tail of `Genotype(index, ploidy)` once `convert_index_to_alleles` returned the ascending list `s` -/
theorem ofIndex_of_convert (i p : Nat) (s : List Nat) (hc : convertW i p = s) (hl : s.length = p) (hp1 : 1 ≤ p) (hp : p ≤ 15)
    (ha : ∀ a ∈ s, a < 16) (hs : Asc s) :
    ∃ g0, packLoop p 0 s ⟨0⟩ = .ok g0 ∧ Genotype.ofIndex i p = .ok (packed s g0) := by
  obtain ⟨g0, h1, hpl, _, _, hdesc, _, _⟩ := pack_ok s (by omega) ha hs
  rw [hl] at h1
  refine ⟨g0, h1, ?_⟩
  -- (eliminate `decU32 p` before anything is simplified: its literal 2³²−1 must never be unfolded)
  have hdec : decU32 p = p - 1 := decU32_pos p hp1 (by omega)
  have hsp : g0.setPositionC MAX_PLOIDY p = .ok (packed s g0) := by
    unfold Genotype.setPositionC packed
    rw [if_neg (by omega), if_neg (by unfold MAX_ALLELES; omega), hl]
  have hd : ∀ j, j < p - 1 → ¬ (packed s g0).getPosition j < (packed s g0).getPosition (j + 1) := by
    intro j hj
    unfold Genotype.descending at hdesc
    rw [hpl, List.all_eq_true] at hdesc
    have := hdesc j (by simp; omega)
    simpa using this
  have hck := checkLoopC_ok (packed s g0) (p - 1) (by omega) hd 17 0
  unfold Genotype.ofIndex
  rw [hdec, hc, sortAsc_of_asc s hs, packLoopC_of_packLoop p (by omega) s 0 ⟨0⟩ g0 h1]
  simp only [hsp, hck]

/-- `Genotype(index, ploidy)` below the count: succeeds, holds `indexToAlleles`, and is the word the vector constructor
builds from those alleles -/
theorem ofIndex_ok (i p a : Nat) (hp1 : 1 ≤ p) (hp : p ≤ 15) (ha : a ≤ 16) (hpa : p + a ≤ 30)
    (hi : i < choose (p + a - 1) p) :
    ∃ g, Genotype.ofIndex i p = .ok g ∧ g.getPloidy = p ∧ g.allelesAsc = indexToAlleles i p ∧
      g.asVector = (indexToAlleles i p).reverse ∧ (∀ y ∈ indexToAlleles i p, y < a) ∧ idx (indexToAlleles i p) = i ∧
      (p ≤ 14 → Genotype.ofAlleles (indexToAlleles i p) = .ok g) := by
  have hM : i < choose (p + i) p := by
    have := succ_le_choose p i hp1; omega
  obtain ⟨h1, h2, _, h4⟩ := loop_inverse p i i hM
  have hlt : ∀ y ∈ indexToAlleles i p, y < a := by
    intro y hy
    by_cases hya : y < a
    · exact hya
    · exfalso
      obtain ⟨q, rfl⟩ : ∃ q, p = q + 1 := ⟨p - 1, by omega⟩
      unfold indexToAlleles at hy
      obtain ⟨g', x, hgx⟩ := exists_snoc _ q h1
      rw [hgx] at h2 h4 hy h1
      have hl' : g'.length = q := by simp at h1; omega
      rw [asc_snoc] at h2
      rw [idx_snoc, hl'] at h4
      have hyx : y ≤ x := by
        rcases List.mem_append.mp hy with h | h
        · exact h2.2 y h
        · simp at h; omega
      have : choose (q + 1 + a - 1) (q + 1) ≤ choose (q + x) (q + 1) := Nat.choose_le_choose _ (by omega)
      omega
  have hc := convertW_eq i p a hpa hi
  have hl : (indexToAlleles i p).length = p := h1
  have hasc : Asc (indexToAlleles i p) := h2
  have hlt16 : ∀ y ∈ indexToAlleles i p, y < 16 := fun y hy => by have := hlt y hy; omega
  obtain ⟨g0, hg0, hok⟩ := ofIndex_of_convert i p _ hc hl hp1 hp hlt16 hasc
  obtain ⟨g0', hg0', hpl, _, _, _, hasc', hvec⟩ := pack_ok (indexToAlleles i p) (by omega) hlt16 hasc
  rw [hl] at hg0'
  have : g0' = g0 := by rw [hg0] at hg0'; exact (Except.ok.inj hg0').symm
  subst this
  refine ⟨_, hok, by rw [hpl, hl], hasc', hvec, hlt, h4, ?_⟩
  intro hp14
  obtain ⟨g1, hg1, hof⟩ := ofAlleles_eq_packed (indexToAlleles i p) (by omega) hlt16
  rw [sortAsc_of_asc _ hasc, hl] at hg1
  rw [sortAsc_of_asc _ hasc] at hof
  have : g1 = g0' := by rw [hg0] at hg1; exact (Except.ok.inj hg1).symm
  rw [hof, this]

/-! ## the word -/

theorem setPosition_lt (g : Genotype) (p a : Nat) (hg : g.gt < 2 ^ 64) (hp : p ≤ 15) (ha : a < 16) :
    (g.setPosition p a).gt < 2 ^ 64 := by
  apply Nat.lt_pow_two_of_testBit
  intro i hi
  unfold Genotype.setPosition
  simp only [Nat.testBit_or, Nat.testBit_and, Nat.testBit_shiftLeft]
  have h1 : g.gt.testBit i = false := Nat.testBit_lt_two_pow (Nat.lt_of_lt_of_le hg (Nat.pow_le_pow_right (by decide) hi))
  have h2 : a.testBit (i - p * 4) = false := testBit_lt16 a _ ha (by omega)
  simp [h1, h2]

theorem packLoop_lt (p : Nat) (hp : p ≤ 15) : ∀ (rest : List Nat) (i : Nat) (g g' : Genotype), g.gt < 2 ^ 64 →
    packLoop p i rest g = .ok g' → g'.gt < 2 ^ 64 := by
  intro rest
  induction rest with
  | nil => intro i g g' hg h; simp only [packLoop] at h; cases h; exact hg
  | cons a as ih =>
    intro i g g' hg h
    simp only [packLoop] at h
    by_cases c : a ≥ MAX_ALLELES
    · rw [if_pos c] at h; cases h
    · rw [if_neg c] at h
      exact ih (i + 1) _ g' (setPosition_lt g _ a hg (by omega) (by unfold MAX_ALLELES at c; omega)) h

/-- a 64-bit word is determined by its 16 nibbles -/
theorem word_ext (g h : Genotype) (hg : g.gt < 2 ^ 64) (hh : h.gt < 2 ^ 64)
    (hq : ∀ q, q ≤ 15 → g.getPosition q = h.getPosition q) : g = h := by
  cases g with | mk x => cases h with | mk y =>
  congr 1
  apply Nat.eq_of_testBit_eq
  intro j
  by_cases hj : j < 64
  · have e := hq (j / 4) (by omega)
    have := congrArg (fun v => v.testBit (j % 4)) e
    simp only [getPosition_testBit] at this
    have e2 : j / 4 * 4 + j % 4 = j := by omega
    have e3 : j % 4 < 4 := by omega
    simpa [e2, e3] using this
  · have h1 : x.testBit j = false := Nat.testBit_lt_two_pow (Nat.lt_of_lt_of_le hg (Nat.pow_le_pow_right (by decide) (by omega)))
    have h2 : y.testBit j = false := Nat.testBit_lt_two_pow (Nat.lt_of_lt_of_le hh (Nat.pow_le_pow_right (by decide) (by omega)))
    rw [h1, h2]

/-! ## the documented order -/

theorem idx_lt_iff_lex : ∀ (p : Nat) (g h : List Nat), g.length = p → h.length = p → Asc g → Asc h →
    (idx g < idx h ↔ Spec.lexLt g.reverse h.reverse = true) := by
  intro p
  induction p with
  | zero =>
    intro g h hg hh _ _
    have e1 : g = [] := List.length_eq_zero_iff.mp hg
    have e2 : h = [] := List.length_eq_zero_iff.mp hh
    subst e1; subst e2
    simp [Spec.lexLt]
  | succ p ih =>
    intro g h hg hh ag ah
    obtain ⟨g', x, rfl⟩ := exists_snoc g p hg
    obtain ⟨h', y, rfl⟩ := exists_snoc h p hh
    have hg' : g'.length = p := by simp at hg; omega
    have hh' : h'.length = p := by simp at hh; omega
    rw [asc_snoc] at ag ah
    have bg := idx_lt p g' x hg' ag.1 ag.2
    have bh := idx_lt p h' y hh' ah.1 ah.2
    rw [idx_snoc, idx_snoc, hg', hh']
    simp only [List.reverse_append, List.reverse_cons, List.reverse_nil, List.nil_append, List.singleton_append, Spec.lexLt]
    have hPx : choose (p + x + 1) (p + 1) = choose (p + x) p + choose (p + x) (p + 1) := pascal _ _
    have hPy : choose (p + y + 1) (p + 1) = choose (p + y) p + choose (p + y) (p + 1) := pascal _ _
    rcases Nat.lt_trichotomy x y with c | c | c
    · have hm : choose (p + x + 1) (p + 1) ≤ choose (p + y) (p + 1) := Nat.choose_le_choose _ (by omega)
      have : idx g' + choose (p + x) (p + 1) < idx h' + choose (p + y) (p + 1) := by omega
      simp [c, this]
    · subst c
      have := ih g' h' hg' hh' ag.1 ah.1
      simp only [Nat.lt_irrefl, decide_false, beq_self_eq_true, Bool.true_and, Bool.false_or]
      rw [← this]; omega
    · have hm : choose (p + y + 1) (p + 1) ≤ choose (p + x) (p + 1) := Nat.choose_le_choose _ (by omega)
      have h1 : ¬ idx g' + choose (p + x) (p + 1) < idx h' + choose (p + y) (p + 1) := by omega
      have h2 : ¬ x < y := by omega
      have h3 : (x == y) = false := by simp; omega
      simp [h1, h2, h3]

/-! ## outside the range -/

theorem convertLoopW_length : ∀ (p M L : Nat), (convertLoopW p M L).length = p := by
  intro p
  induction p with
  | zero => intro M L; rfl
  | succ p ih => intro M L; simp [convertLoopW, ih]

theorem convertW_length (i p : Nat) : (convertW i p).length = p := convertLoopW_length _ _ _

/-- an allele `≥ 16` anywhere in the (sorted) vector makes the packing loop throw "Maximum alleles exceeded" -/
theorem packLoopC_alleles (p : Nat) (hp : p ≤ 16) : ∀ (rest : List Nat) (i : Nat) (g : Genotype), i + rest.length = p →
    (∃ y ∈ rest, y ≥ 16) → packLoopC p i rest g = .error .alleles := by
  intro rest
  induction rest with
  | nil => intro i g _ h; obtain ⟨y, hy, _⟩ := h; simp at hy
  | cons a as ih =>
    intro i g hl h
    simp only [List.length_cons] at hl
    simp only [packLoopC]
    by_cases c : a ≥ MAX_ALLELES
    · rw [if_pos c]
    · rw [if_neg c]
      have hs : g.setPositionC (p - i - 1) a = .ok (g.setPosition (p - i - 1) a) := by
        unfold Genotype.setPositionC
        rw [if_neg (by unfold MAX_PLOIDY; omega), if_neg c]
      rw [hs]
      simp only []
      apply ih (i + 1) _ (by omega)
      obtain ⟨y, hy, hy16⟩ := h
      rcases List.mem_cons.mp hy with rfl | hy'
      · exact absurd hy16 (by unfold MAX_ALLELES at c; omega)
      · exact ⟨y, hy', hy16⟩

theorem findAlleleW_ge_pred (pth L M : Nat) (hM : M < 4294967296) :
    ∀ a, 1 ≤ a → a ≤ M → a - 1 ≤ findAlleleW pth L M a := by
  intro a
  induction h : M - a generalizing a with
  | zero =>
    intro h1 haM
    unfold findAlleleW
    have c1 : binomU (decU32 (pth + a)) pth ≥ L ∨ a ≥ M := Or.inr (by omega)
    simp only [c1, if_true]
    split
    · rw [decU32_pos a h1 (by omega)]
    · omega
  | succ d ih =>
    intro h1 haM
    unfold findAlleleW
    by_cases c1 : binomU (decU32 (pth + a)) pth ≥ L ∨ a ≥ M
    · simp only [c1, if_true]
      split
      · rw [decU32_pos a h1 (by omega)]
      · omega
    · simp only [c1, if_false]
      have := ih (a + 1) (by omega) (by omega) (by omega)
      omega

/-- if the blocks of all alleles `< A` end at or before `leftover`, the search returns an allele `≥ A` – whatever the
(possibly wrapped) binomials beyond `A` are -/
theorem findAlleleW_ge (pth L M A : Nat) (hp : 1 ≤ pth) (hE : Exact pth A) (hL : choose (pth + A - 1) pth ≤ L)
    (hAM : A ≤ M) (hM : M < 4294967296) :
    ∀ a, a ≤ A → A ≤ findAlleleW pth L M a := by
  intro a
  induction h : A - a generalizing a with
  | zero =>
    intro ha
    have haA : a = A := by omega
    subst haA
    unfold findAlleleW
    rw [hE a (Nat.le_refl _)]
    by_cases c1 : choose (pth + a - 1) pth ≥ L ∨ a ≥ M
    · simp only [c1, if_true]
      rw [if_neg (by omega)]
    · simp only [c1, if_false]
      have := findAlleleW_ge_pred pth L M hM (a + 1) (by omega) (by omega)
      omega
  | succ d ih =>
    intro ha
    unfold findAlleleW
    rw [hE a ha]
    have hlt : choose (pth + a - 1) pth < L := by
      have h1 := choose_strict pth a hp
      have h2 : choose (pth + a) pth ≤ choose (pth + A - 1) pth := Nat.choose_le_choose _ (by omega)
      omega
    have c1 : ¬ (choose (pth + a - 1) pth ≥ L ∨ a ≥ M) := by omega
    simp only [c1, if_false]
    exact ih (a + 1) (by omega) (by omega)

/-- **beyond the count** (ploidy ≤ 14): every 32-bit index that is not the index of a genotype over 16 alleles is
rejected with "Maximum alleles exceeded" – also where the binomials of larger alleles wrap around -/
theorem ofIndex_beyond (i p : Nat) (hp1 : 1 ≤ p) (hp : p ≤ 14) (hi : choose (p + 15) p ≤ i) (hi2 : i < 4294967296) :
    Genotype.ofIndex i p = .error .alleles := by
  obtain ⟨q, rfl⟩ : ∃ q, p = q + 1 := ⟨p - 1, by omega⟩
  have h16 : 16 ≤ i := by
    have := le_choose (q + 1) 16 (by omega)
    have e : q + 1 + 16 - 1 = q + 1 + 15 := by omega
    rw [e] at this; omega
  have hr : 16 ≤ findAlleleW (q + 1) i i 0 :=
    findAlleleW_ge (q + 1) i i 16 (by omega) (exact_of_small _ _ (by omega) (by omega) (by omega))
      (by have e : q + 1 + 16 - 1 = q + 1 + 15 := by omega
          rw [e]; exact hi) h16 hi2 0 (by omega)
  have hmem : ∃ y ∈ sortAsc (convertW i (q + 1)), y ≥ 16 := by
    refine ⟨findAlleleW (q + 1) i i 0, ?_, hr⟩
    rw [mem_sortAsc]
    unfold convertW
    have e : i % 4294967296 = i := by omega
    rw [e]
    simp [convertLoopW]
  have hpack := packLoopC_alleles (q + 1) (by omega) (sortAsc (convertW i (q + 1))) 0 ⟨0⟩
    (by rw [sortAsc_length, convertW_length]; omega) hmem
  unfold Genotype.ofIndex
  rw [hpack]

theorem packLoopC_16 : ∀ (rest : List Nat) (i : Nat) (g : Genotype), i + rest.length = 16 →
    (∃ g', packLoopC 16 i rest g = .ok g') ∨ packLoopC 16 i rest g = .error .alleles := by
  intro rest
  induction rest with
  | nil => intro i g _; exact Or.inl ⟨g, rfl⟩
  | cons a as ih =>
    intro i g hl
    simp only [List.length_cons] at hl
    simp only [packLoopC]
    by_cases c : a ≥ MAX_ALLELES
    · rw [if_pos c]; exact Or.inr rfl
    · rw [if_neg c]
      have hs : g.setPositionC (16 - i - 1) a = .ok (g.setPosition (16 - i - 1) a) := by
        unfold Genotype.setPositionC
        rw [if_neg (by unfold MAX_PLOIDY; omega), if_neg c]
      rw [hs]
      exact ih (i + 1) _ (by omega)

/-- **ploidy ≥ 16 is never accepted** by the index constructor (16: `set_ploidy` throws "Invalid set allele";
≥ 17: `set_position` throws "Invalid set position"; or an allele ≥ 16 is met first) -/
theorem ofIndex_ploidy_ge_16 (i p : Nat) (hp : 16 ≤ p) :
    Genotype.ofIndex i p = .error .alleles ∨ Genotype.ofIndex i p = .error .setPos ∨
      Genotype.ofIndex i p = .error .setAllele := by
  have hlen : (sortAsc (convertW i p)).length = p := by rw [sortAsc_length, convertW_length]
  unfold Genotype.ofIndex
  generalize sortAsc (convertW i p) = s at hlen
  by_cases h17 : 17 ≤ p
  · cases s with
    | nil => simp at hlen; omega
    | cons a as =>
      simp only [packLoopC]
      by_cases c : a ≥ MAX_ALLELES
      · rw [if_pos c]; exact Or.inl rfl
      · rw [if_neg c]
        have hs : (⟨0⟩ : Genotype).setPositionC (p - 0 - 1) a = .error .setPos := by
          unfold Genotype.setPositionC
          rw [if_pos (by unfold MAX_PLOIDY; omega)]
        rw [hs]; exact Or.inr (Or.inl rfl)
  · have hp16 : p = 16 := by omega
    subst hp16
    rcases packLoopC_16 s 0 ⟨0⟩ (by omega) with ⟨g', hg'⟩ | herr
    · rw [hg']
      have hs : g'.setPositionC MAX_PLOIDY 16 = .error .setAllele := by
        unfold Genotype.setPositionC
        rw [if_neg (by omega), if_pos (by unfold MAX_ALLELES; omega)]
      refine Or.inr (Or.inr ?_)
      simp only [hs]
    · rw [herr]; exact Or.inl rfl

/-- **ploidy 0**: `ploidy - 1` wraps to 2³²−1 and the final loop runs into `get_position(16)` -/
theorem ofIndex_ploidy_zero (i : Nat) : Genotype.ofIndex i 0 = .error .getPos := by
  have : convertW i 0 = [] := rfl
  unfold Genotype.ofIndex
  rw [this]
  decide

/-- **narrowing**: the 64-bit index is reduced modulo 2³² -/
theorem ofIndex_narrowing (i k p : Nat) : Genotype.ofIndex (i + 4294967296 * k) p = Genotype.ofIndex i p := by
  unfold Genotype.ofIndex convertW
  rw [Nat.add_mul_mod_self_left]

/-! ## the constructor depends only on the multiset; the small observers -/

theorem sortAsc_perm_eq (l1 l2 : List Nat) (h : l1.Perm l2) : sortAsc l1 = sortAsc l2 := by
  have hp : (sortAsc l1).Perm (sortAsc l2) := ((sortAsc_perm l1).trans h).trans (sortAsc_perm l2).symm
  exact List.Perm.eq_of_pairwise (fun a b _ _ h1 h2 => Nat.le_antisymm h1 h2) (sortAsc_asc l1) (sortAsc_asc l2) hp

theorem ofAlleles_perm (l1 l2 : List Nat) (h : l1.Perm l2) : Genotype.ofAlleles l1 = Genotype.ofAlleles l2 := by
  unfold Genotype.ofAlleles
  rw [sortAsc_perm_eq l1 l2 h, h.length_eq]

theorem asVector_length (g : Genotype) : g.asVector.length = g.getPloidy := by simp [Genotype.asVector]

theorem toStringL_eq (g : Genotype) : g.toStringL = if g.getPloidy = 0 then none else some g.allelesAsc := by
  unfold Genotype.toStringL Genotype.isNone Genotype.allelesAsc
  by_cases h : g.getPloidy = 0
  · simp [h]
  · obtain ⟨n, hn⟩ : ∃ n, g.getPloidy = n + 1 := ⟨g.getPloidy - 1, by omega⟩
    rw [hn]
    simp [List.range_succ_eq_map]

theorem isHomozygous_iff (g : Genotype) :
    g.isHomozygous = true ↔ g.getPloidy ≠ 0 ∧ ∀ x ∈ g.asVector, x = g.getPosition 0 := by
  unfold Genotype.isHomozygous Genotype.isNone Genotype.asVector
  by_cases h : g.getPloidy = 0
  · simp [h]
  · obtain ⟨n, hn⟩ : ∃ n, g.getPloidy = n + 1 := ⟨g.getPloidy - 1, by omega⟩
    rw [hn]
    simp [List.range_succ_eq_map]

theorem isDiploidAndBiallelic_iff (g : Genotype) :
    g.isDiploidAndBiallelic = true ↔ g.getPloidy = 2 ∧ ∀ x ∈ g.asVector, x ≤ 1 := by
  unfold Genotype.isDiploidAndBiallelic Genotype.asVector
  by_cases h : g.getPloidy = 2
  · simp [h]
  · simp [h]

end WhVerif.C19

import WhVerif.Lemmas.C08Unfold
import WhVerif.Lemmas.C08Bits
import WhVerif.Lemmas.C08Path
/-!
# C08 lemmas, part 6: splitting sums over bit patterns; how one column's weight depends on the global bipartition.
-/
namespace WhVerif.C08
open Finset

section Sums
variable {K : Type} [Field K]

theorem sum_range_mul_split (a b : Nat) (f : Nat → K) :
    ∑ i ∈ range (a * b), f i = ∑ lo ∈ range a, ∑ hi ∈ range b, f (lo + a * hi) := by
  induction b with
  | zero => simp
  | succ b ih =>
    rw [Nat.mul_succ, sum_range_add, ih]
    have : ∀ lo ∈ range a, ∑ hi ∈ range (b + 1), f (lo + a * hi) = ∑ hi ∈ range b, f (lo + a * hi) + f (a * b + lo) := by
      intro lo _; rw [sum_range_succ, Nat.add_comm lo (a * b)]
    rw [sum_congr rfl this, sum_add_distrib]

theorem sum_pow_split (a b : Nat) (f : Nat → K) :
    ∑ i ∈ range (2 ^ (a + b)), f i = ∑ lo ∈ range (2 ^ a), ∑ hi ∈ range (2 ^ b), f (lo + 2 ^ a * hi) := by
  rw [Nat.pow_add, sum_range_mul_split]

theorem add_mul_mod_pow {a lo hi : Nat} (h : lo < 2 ^ a) : (lo + 2 ^ a * hi) % 2 ^ a = lo := by
  rw [Nat.add_mul_mod_self_left, Nat.mod_eq_of_lt h]

theorem testBit_add_mul_pow {a lo hi r : Nat} (h : lo < 2 ^ a) (hr : r < a) :
    (lo + 2 ^ a * hi).testBit r = lo.testBit r := by
  rw [Nat.add_comm, Nat.testBit_two_pow_mul_add _ h]; simp [hr]

/-- regroup a sum by the value of `g` -/
theorem sum_fiber {α : Type} (s : Finset α) (N : Nat) (g : α → Nat) (hg : ∀ x ∈ s, g x < N) (h : Nat → α → K) :
    ∑ p ∈ range N, ∑ x ∈ s, (if g x = p then h p x else 0) = ∑ x ∈ s, h (g x) x := by
  rw [sum_comm]
  apply sum_congr rfl
  intro x hx
  rw [sum_ite_eq]
  simp [hg x hx]

end Sums

section Step
variable {K : Type} [Field K] (F : Frame) (W : Weights K)

/-- column weight as a function of the column index -/
def stepI (c : Nat) (prev : Option (Nat × Nat)) (idx : Nat) (s : Nat × Nat) : K :=
  (match prev with | none => 1 | some q => W.trans c q.1 s.1)
    * W.emit c (bitsOf (F.col c).nAct idx) s.1 s.2 * W.asg c s.1 s.2

theorem stepW_eq_stepI (β c : Nat) (prev : Option (Nat × Nat)) (s : Nat × Nat) :
    stepW F W β c prev s = stepI F W c prev (gather (F.active c) β) s := by
  unfold stepW stepI
  rw [Frame.col_nAct, bitsOf_gather]
  cases prev <;> rfl

theorem stepW_congr {β β' : Nat} (c : Nat) (h : ∀ r ∈ F.active c, β.testBit r = β'.testBit r)
    (prev : Option (Nat × Nat)) (s : Nat × Nat) : stepW F W β c prev s = stepW F W β' c prev s := by
  unfold stepW
  rw [List.map_congr_left h]

theorem fwP_congr (hWF : F.WF) {β β' : Nat} (c : Nat) (h : ∀ r, r < F.m c → β.testBit r = β'.testBit r) (s : Nat × Nat) :
    fwP F W β c s = fwP F W β' c s := by
  induction c generalizing s with
  | zero =>
    simp only [fwP]
    exact stepW_congr F W 0 (fun r hr => h r (Frame.active_lt hWF hr (Nat.le_refl _))) _ _
  | succ c ih =>
    simp only [fwP]
    apply sum_congr rfl; intro s' _
    rw [ih (fun r hr => h r (Nat.lt_of_lt_of_le hr (Frame.m_mono hWF c))),
        stepW_congr F W (c + 1) (fun r hr => h r (Frame.active_lt hWF hr (Nat.le_refl _)))]

theorem fwP_lo (hWF : F.WF) (c : Nat) {lo : Nat} (hlo : lo < 2 ^ F.m c) (hi : Nat) (s : Nat × Nat) :
    fwP F W (lo + 2 ^ F.m c * hi) c s = fwP F W lo c s :=
  fwP_congr F W hWF c (fun _ hr => testBit_add_mul_pow hlo hr) s

/-- column index of the next column: shared reads keep their side, the reads starting there are appended -/
theorem colIdx_succ (hWF : F.WF) (c : Nat) {lo new : Nat} (hlo : lo < 2 ^ F.m c)
    (hnew : new < 2 ^ (F.m (c + 1) - F.m c)) :
    gather (F.active (c + 1)) (lo + 2 ^ F.m c * new) = gather (F.shared c) lo + 2 ^ (F.shared c).length * new := by
  rw [Frame.active_succ hWF, gather_append, gather_range' _ _ _ _ hlo hnew]
  congr 1
  apply gather_congr
  intro r hr
  have : r ∈ F.active c := (List.mem_filter.mp hr).1
  exact testBit_add_mul_pow hlo (Frame.active_lt hWF this (Nat.le_refl _))

theorem colIdx_lo (hWF : F.WF) (c : Nat) {lo : Nat} (hlo : lo < 2 ^ F.m c) (hi : Nat) :
    gather (F.active c) (lo + 2 ^ F.m c * hi) = gather (F.active c) lo := by
  apply gather_congr
  intro r hr
  exact testBit_add_mul_pow hlo (Frame.active_lt hWF hr (Nat.le_refl _))

theorem nAct_succ (hWF : F.WF) (c : Nat) :
    (F.col (c + 1)).nAct = (F.shared c).length + (F.m (c + 1) - F.m c) := by
  rw [Frame.col_nAct, Frame.active_succ hWF]; simp

theorem nAct_zero (hWF : F.WF) : (F.col 0).nAct = F.m 0 := by
  rw [Frame.col_nAct, Frame.active_zero hWF]; simp

end Step
end WhVerif.C08

import WhVerif.Lemmas.C11PolyMain
/-! Every `(switches, flips)` pair the coded back-tracking may return has the optimal cost. -/
namespace WhVerif.C11

/-- every pair recorded at an entry realises that entry's score -/
def PairsOK (sc fc : Nat) (col : List Entry) : Prop :=
  ∀ e ∈ col, ∀ sf ∈ e.pairs, sc * sf.1 + fc * sf.2 = e.score

theorem firstColumn_pairsOK (ps : List Perm) (sc fc : Nat) (c0 c1 : List Nat) :
    PairsOK sc fc (firstColumn ps fc c0 c1) := by
  intro e he sf hsf
  simp only [firstColumn, List.mem_map] at he
  obtain ⟨π, _, rfl⟩ := he
  simp at hsf
  subst hsf
  simp

theorem fullColumn_pairsOK (ps : List Perm) (sc fc : Nat) (prev : List Entry) (c0 c1 : List Nat)
    (h : PairsOK sc fc prev) : PairsOK sc fc (fullColumn ps sc fc prev c0 c1) := by
  intro e he sf hsf
  simp only [fullColumn, List.mem_map] at he
  obtain ⟨r, _, rfl⟩ := he
  simp only [dedupPairs, List.mem_eraseDups, List.mem_flatMap, List.mem_map, List.mem_filter] at hsf
  obtain ⟨e, ⟨he, harg⟩, sf0, hsf0, rfl⟩ := hsf
  have := h e he sf0 hsf0
  simp only [beq_iff_eq] at harg
  simp only [Nat.mul_add]
  omega

theorem prune_pairsOK (p sc fc : Nat) (full : List Entry) (h : PairsOK sc fc full) :
    PairsOK sc fc (prune p sc full) := by
  intro e he
  simp only [prune] at he
  exact h e (List.mem_filter.1 he).1

theorem runColumns_pairsOK (p : Nat) (ps : List Perm) (sc fc : Nat) (col : List Entry)
    (rest : List (List Nat × List Nat)) (h : PairsOK sc fc col) :
    PairsOK sc fc (runColumns p ps sc fc col rest) := by
  induction rest generalizing col with
  | nil => exact h
  | cons c cs ih =>
    obtain ⟨c0, c1⟩ := c
    simp only [runColumns, nextColumn]
    exact ih _ (prune_pairsOK p sc fc _ (fullColumn_pairsOK ps sc fc col c0 c1 h))

/-- every pair the (repaired, or ≥ 2 positions) back-tracking may return costs exactly the reported minimum -/
theorem polyCompare_admissible_cost (fixA : Bool) (p sc fc : Nat) (cols : List (List Nat × List Nat))
    (hq : fixA = true ∨ 2 ≤ cols.length) :
    ∀ sf ∈ (polyCompare fixA p sc fc cols).admissible,
      sc * sf.1 + fc * sf.2 = (polyCompare fixA p sc fc cols).cost := by
  cases cols with
  | nil => intro sf hsf; simp [polyCompare] at hsf ⊢; subst hsf; simp
  | cons c rest =>
    obtain ⟨c0, c1⟩ := c
    intro sf hsf
    have hok := runColumns_pairsOK p (perms p) sc fc _ rest (firstColumn_pairsOK (perms p) sc fc c0 c1)
    have hquirk : (if (rest.isEmpty && !fixA) = true then p - 1 else 0) = 0 := by
      rcases hq with h | h
      · simp [h]
      · cases rest with
        | nil => simp at h
        | cons _ _ => simp
    simp only [polyCompare, hquirk, dedupPairs, List.mem_eraseDups, List.mem_flatMap, List.mem_map,
      List.mem_filter, Nat.add_zero] at hsf ⊢
    obtain ⟨e, ⟨he, harg⟩, sf0, hsf0, rfl⟩ := hsf
    have := hok e he sf0 hsf0
    simp only [beq_iff_eq] at harg
    simp only
    omega

end WhVerif.C11

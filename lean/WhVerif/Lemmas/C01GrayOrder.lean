import WhVerif.Lemmas.C01Dp
import WhVerif.Lemmas.C01Gray
/-! The projection column does not depend on the order in which the bipartitions of a column are visited:
visiting them in Gray-code order (as `compute_column` does) gives the same table as the index order the
executable model uses. -/
set_option linter.unusedSimpArgs false
namespace WhVerif.C01
open WhVerif.Cost

/-- the (index, transmission) cells in the order the code visits them: Gray-code order of the indices -/
def grayPairs (k m : Nat) : List (Nat × Nat) :=
  ((grayList k).map Prod.fst).flatMap (fun i => (List.range m).map (fun t => (i, t)))

theorem mem_grayPairs (k m i t : Nat) : (i, t) ∈ grayPairs k m ↔ i < 2 ^ k ∧ t < m := by
  simp only [grayPairs, List.mem_flatMap, List.mem_map, List.mem_range, Prod.mk.injEq]
  constructor
  · rintro ⟨i', ⟨p, hp, rfl⟩, t', ht', rfl, rfl⟩
    exact ⟨(gray_enumerates k).2.2.2.1 p hp, ht'⟩
  · rintro ⟨hi, ht⟩
    obtain ⟨p, hp, hpi⟩ := List.mem_map.mp (gray_complete k i hi)
    exact ⟨i, ⟨p, hp, hpi⟩, t, ht, rfl, rfl⟩

/-- bucketed minima only depend on the set of items -/
theorem bucketMin_congr_mem {α} (n : Nat) (l1 l2 : List α) (key : α → Nat) (f : α → Option Nat)
    (h : ∀ a, a ∈ l1 ↔ a ∈ l2) (k : Nat) (hk : k < n) :
    (bucketMin n l1 key f).getD k none = (bucketMin n l2 key f).getD k none := by
  rw [bucketMin_getD _ _ _ _ _ hk, bucketMin_getD _ _ _ _ _ hk]
  apply minOver_congr_mem
  intro a
  simp only [List.mem_filter, h a]

/-- the forward projection column computed in Gray-code order equals the one computed in index order -/
theorem projTable_gray_order (I : Inst) (c : Nat) (prev : Array (Option Nat)) (k : Nat)
    (hk : k < 2 ^ (I.sharedAt c).length * I.ntrans) :
    (bucketMin (2 ^ (I.sharedAt c).length * I.ntrans) (grayPairs (I.activeAt c).length I.ntrans)
        (fun it => natOfBits (fwdBits I c (bitsOf (I.activeAt c).length it.1)) * I.ntrans + it.2)
        (fun it => dpCell I c prev it.1 it.2)).getD k none
      = (projTable I c prev).getD k none := by
  unfold projTable
  apply bucketMin_congr_mem _ _ _ _ _ _ k hk
  rintro ⟨i, t⟩
  rw [mem_grayPairs, mem_pairs]

/-- and so does the optimum of the last column -/
theorem lastCol_gray_order (I : Inst) (c : Nat) (prev : Array (Option Nat)) :
    minOver (grayPairs (I.activeAt c).length I.ntrans) (fun it => dpCell I c prev it.1 it.2)
      = minOver (pairs (2 ^ (I.activeAt c).length) I.ntrans) (fun it => dpCell I c prev it.1 it.2) := by
  apply minOver_congr_mem
  rintro ⟨i, t⟩
  rw [mem_grayPairs, mem_pairs]

end WhVerif.C01

import WhVerif.Spec.C09Pseudo
import WhVerif.Spec.C02
import WhVerif.Lemmas.C09
import WhVerif.Lemmas.C01Sys
/-!
# C09: the pseudo-read instance is sorted and error-free (helper lemmas for `pseudo_reads_reproduce_sets`)
-/
namespace WhVerif.C09
open WhVerif.C04

/-! ### `colOf` on a strictly increasing list -/

theorem colOf_lt {cols : List Nat} {p : Nat} (h : p ∈ cols) : colOf cols p < cols.length := by
  unfold colOf
  apply List.findIdx_lt_length_of_exists
  exact ⟨p, h, by simp⟩

theorem getElem_colOf {cols : List Nat} {p : Nat} (h : p ∈ cols) : cols[colOf cols p]'(colOf_lt h) = p := by
  have := List.findIdx_getElem (p := (· == p)) (xs := cols) (w := colOf_lt h)
  exact beq_iff_eq.mp this

theorem getElem?_colOf {cols : List Nat} {p : Nat} (h : p ∈ cols) : cols[colOf cols p]? = some p := by
  rw [List.getElem?_eq_getElem (colOf_lt h), getElem_colOf h]

theorem colOf_mono {cols : List Nat} (hs : cols.Pairwise (· < ·)) {p q : Nat} (hp : p ∈ cols) (hq : q ∈ cols)
    (hpq : p ≤ q) : colOf cols p ≤ colOf cols q := by
  rw [List.pairwise_iff_getElem] at hs
  by_cases h : colOf cols p ≤ colOf cols q
  · exact h
  · have := hs _ _ (colOf_lt hq) (colOf_lt hp) (by omega)
    rw [getElem_colOf hp, getElem_colOf hq] at this
    omega

theorem colOf_inj {cols : List Nat} {p q : Nat} (hp : p ∈ cols) (hq : q ∈ cols)
    (h : colOf cols p = colOf cols q) : p = q := by
  have h1 := getElem?_colOf hp
  have h2 := getElem?_colOf hq
  rw [h, h2] at h1
  exact (Option.some.inj h1).symm

/-- bounds of a strictly increasing list -/
theorem sorted_bounds {l : List Nat} (h : l.Pairwise (· < ·)) {p : Nat} (hp : p ∈ l) :
    (l.head?).getD 0 ≤ p ∧ p ≤ (l.getLast?).getD 0 := by
  induction l generalizing p with
  | nil => cases hp
  | cons x xs ih =>
    rw [List.pairwise_cons] at h
    constructor
    · simp only [List.head?_cons, Option.getD_some]
      rcases List.mem_cons.mp hp with rfl | hp'
      · exact Nat.le_refl _
      · exact Nat.le_of_lt (h.1 p hp')
    · cases xs with
      | nil => simp at hp; simp [hp]
      | cons y ys =>
        rw [List.getLast?_cons_cons]
        rcases List.mem_cons.mp hp with hpx | hp'
        · have h1 := h.1 y List.mem_cons_self
          have h2 := (ih h.2 (p := y) List.mem_cons_self).2
          omega
        · exact (ih h.2 hp').2

/-! ### rows sorted by position -/

def PosSorted (rows : List VarPhase) : Prop := rows.Pairwise (fun a b => a.pos < b.pos)

theorem PosSorted.sublist {l l' : List VarPhase} (h : PosSorted l) (hs : l'.Sublist l) : PosSorted l' :=
  List.Pairwise.sublist hs h

theorem PosSorted.inj {l : List VarPhase} (h : PosSorted l) {u v : VarPhase} (hu : u ∈ l) (hv : v ∈ l)
    (hp : u.pos = v.pos) : u = v := by
  obtain ⟨i, hi, rfl⟩ := List.mem_iff_getElem.mp hu
  obtain ⟨j, hj, rfl⟩ := List.mem_iff_getElem.mp hv
  unfold PosSorted at h
  rw [List.pairwise_iff_getElem] at h
  rcases Nat.lt_trichotomy i j with hij | rfl | hij
  · have := h i j hi hj hij; omega
  · rfl
  · have := h j i hj hi hij; omega

theorem PosSorted.map_pos {l : List VarPhase} (h : PosSorted l) : (l.map (·.pos)).Pairwise (· < ·) := by
  unfold PosSorted at h
  rw [List.pairwise_map]; exact h

theorem coveredRows_sublist (rows : List VarPhase) : (coveredRows rows).Sublist rows :=
  List.Sublist.trans List.filter_sublist List.filter_sublist

theorem blockRows_sublist (rows : List VarPhase) (b : Option Int) : (blockRows rows b).Sublist rows :=
  List.Sublist.trans List.filter_sublist List.filter_sublist

theorem pseudoCols_sorted {rows : List VarPhase} (h : PosSorted rows) : (pseudoCols rows).Pairwise (· < ·) :=
  (h.sublist (coveredRows_sublist rows)).map_pos

theorem mem_blockRows {rows : List VarPhase} {b : Option Int} {v : VarPhase} :
    v ∈ blockRows rows b ↔ v ∈ rows ∧ eligible 2 v = true ∧ blockOfRow v = b := by
  simp only [blockRows, List.mem_filter, beq_iff_eq]
  constructor
  · rintro ⟨⟨a, b⟩, c⟩; exact ⟨a, b, c⟩
  · rintro ⟨a, b, c⟩; exact ⟨⟨a, b⟩, c⟩

/-- a row of a block with at least two eligible rows is covered -/
theorem blockRows_covered {rows : List VarPhase} {b : Option Int} (hlen : (blockRows rows b).length > 1)
    {v : VarPhase} (hv : v ∈ blockRows rows b) : v ∈ coveredRows rows := by
  obtain ⟨h1, h2, h3⟩ := mem_blockRows.mp hv
  simp only [coveredRows, List.mem_filter, decide_eq_true_eq]
  exact ⟨⟨h1, h2⟩, by rw [h3]; exact hlen⟩

theorem pos_mem_pseudoCols {rows : List VarPhase} {v : VarPhase} (hv : v ∈ coveredRows rows) :
    v.pos ∈ pseudoCols rows := List.mem_map.mpr ⟨v, hv, rfl⟩

/-- the row in the column of a covered row is that row -/
theorem coveredRows_colOf {rows : List VarPhase} (h : PosSorted rows) {v : VarPhase} (hv : v ∈ coveredRows rows) :
    (coveredRows rows)[colOf (pseudoCols rows) v.pos]? = some v := by
  have hp := pos_mem_pseudoCols hv
  have hlt := colOf_lt hp
  have hlt' : colOf (pseudoCols rows) v.pos < (coveredRows rows).length := by simpa [pseudoCols] using hlt
  rw [List.getElem?_eq_getElem hlt']
  congr 1
  apply (h.sublist (coveredRows_sublist rows)).inj (List.getElem_mem _) hv
  have := getElem_colOf hp
  simpa [pseudoCols] using this

/-! ### the shape of a pseudo read -/

theorem pseudoRead_eq (rows : List VarPhase) (b : Option Int) (i : Nat) :
    pseudoRead (rows.filter (eligible 2)) b i = (blockRows rows b).map fun v => (v.pos, alleleAt i v) := rfl

/-- what membership in `blocksAsReads` means, in terms of `blockRows` -/
theorem mem_blocksAsReads' {rows : List VarPhase} {t : PRead} (ht : t ∈ blocksAsReads 2 rows) :
    (t.2.1 = 0 ∨ t.2.1 = 1) ∧ t.2.2 = (blockRows rows t.1).map (fun v => (v.pos, alleleAt t.2.1 v)) ∧
      (blockRows rows t.1).length > 1 := by
  obtain ⟨b, i, rd⟩ := t
  obtain ⟨_, hi, hrd, hlen⟩ := mem_blocksAsReads.mp ht
  refine ⟨hi, by rw [hrd, pseudoRead_eq], ?_⟩
  rw [hrd, pseudoRead_eq] at hlen
  simpa using hlen

theorem blocksAsReads_of_block {rows : List VarPhase} {b : Option Int} (hlen : (blockRows rows b).length > 1)
    (i : Nat) (hi : i = 0 ∨ i = 1) :
    (b, i, (blockRows rows b).map (fun v => (v.pos, alleleAt i v))) ∈ blocksAsReads 2 rows := by
  rw [mem_blocksAsReads]
  refine ⟨?_, hi, by rw [pseudoRead_eq], by simpa using hlen⟩
  have hne : blockRows rows b ≠ [] := by intro h0; rw [h0] at hlen; simp at hlen
  obtain ⟨v, hv⟩ := List.exists_mem_of_ne_nil _ hne
  obtain ⟨hv1, hv2⟩ := List.mem_filter.mp hv
  simp only [blockKeys, List.mem_eraseDups, List.mem_map]
  exact ⟨v, hv1, by simpa using hv2⟩

/-- exactly the positions of pseudo reads are columns -/
theorem mem_pseudoCols {rows : List VarPhase} {p : Nat} :
    p ∈ pseudoCols rows ↔ ∃ t ∈ blocksAsReads 2 rows, p ∈ t.2.2.map (·.1) := by
  constructor
  · intro hp
    obtain ⟨v, hv, rfl⟩ := List.mem_map.mp hp
    simp only [coveredRows, List.mem_filter, decide_eq_true_eq] at hv
    obtain ⟨⟨h1, h2⟩, h3⟩ := hv
    refine ⟨_, blocksAsReads_of_block h3 0 (Or.inl rfl), ?_⟩
    simp only [List.map_map, List.mem_map, Function.comp]
    exact ⟨v, mem_blockRows.mpr ⟨h1, h2, rfl⟩, rfl⟩
  · rintro ⟨t, ht, hp⟩
    obtain ⟨_, hrd, hlen⟩ := mem_blocksAsReads' ht
    rw [hrd] at hp
    simp only [List.map_map, List.mem_map, Function.comp] at hp
    obtain ⟨v, hv, rfl⟩ := hp
    exact pos_mem_pseudoCols (blockRows_covered hlen hv)

theorem positions_of_mem {rows : List VarPhase} {t : PRead} (ht : t ∈ blocksAsReads 2 rows) :
    t.2.2.map (·.1) = (blockRows rows t.1).map (·.pos) := by
  rw [(mem_blocksAsReads' ht).2.1]; simp [Function.comp]

theorem firstPos_mem {rows : List VarPhase} {t : PRead} (ht : t ∈ blocksAsReads 2 rows) :
    firstPos t ∈ pseudoCols rows ∧ lastPos t ∈ pseudoCols rows := by
  have hlen := (mem_blocksAsReads' ht).2.2
  have hpos := positions_of_mem ht
  have hne : t.2.2.map (·.1) ≠ [] := by
    rw [hpos]; intro h0
    rw [List.map_eq_nil_iff] at h0
    rw [h0] at hlen; simp at hlen
  constructor
  · apply mem_pseudoCols.mpr ⟨t, ht, ?_⟩
    unfold firstPos
    cases h : t.2.2.map (·.1) with
    | nil => exact absurd h hne
    | cons x xs => simp
  · apply mem_pseudoCols.mpr ⟨t, ht, ?_⟩
    unfold lastPos
    rw [List.getLast?_eq_some_getLast hne]
    simp only [Option.getD_some]
    exact List.getLast_mem hne

end WhVerif.C09

import WhVerif.Model.C19Word
import WhVerif.Lemmas.C19Geno
/-!
# The machine level of `genotype.cpp` refines the unbounded model within the limits

* `binom32_eq`: the `int` loop with wrap-around equals `binom` whenever the peak intermediate product is `< 2³¹`
  (`binomPeak`, for every `n ≤ 29`);
* `getIndexW_eq`: `get_index()` on `uint32_t` equals the unbounded `getIndex` for **every** 64-bit word
  (ploidy and alleles are nibbles: `n ≤ 15 + 15 - 1 = 29`, the sum stays below 2³¹);
* `convertW_eq`: `convert_index_to_alleles` on `uint32_t` equals `indexToAlleles` for every index below
  `C(p + a - 1, p)` with `p + a ≤ 30`.
-/
namespace WhVerif.C19
open Nat

/-! ## conversions -/

theorem wrapI32_id (x : Int) (h1 : -2147483648 ≤ x) (h2 : x < 2147483648) : wrapI32 x = x := by
  unfold wrapI32; omega

theorem toU32_natCast (x : Nat) (h : x < 4294967296) : toU32 (x : Int) = x := by
  unfold toU32; omega

theorem decU32_pos (x : Nat) (h1 : 1 ≤ x) (h2 : x ≤ 4294967296) : decU32 x = x - 1 := by
  unfold decU32; omega

theorem decU32_zero : decU32 0 = 4294967295 := by decide

theorem decU32_lt (x : Nat) : decU32 x < 4294967296 := by
  unfold decU32; omega

/-! ## binomial_coefficient on `int` -/

theorem le_binomPeakLoop (n : Nat) : ∀ (cnt i r p : Nat), p ≤ binomPeakLoop n cnt i r p := by
  intro cnt
  induction cnt with
  | zero => intro i r p; simp [binomPeakLoop]
  | succ cnt ih =>
    intro i r p
    simp only [binomPeakLoop]
    exact Nat.le_trans (Nat.le_max_left _ _) (ih _ _ _)

theorem binom32Loop_eq (n : Nat) : ∀ (cnt i r p : Nat), i + cnt ≤ n → binomPeakLoop n cnt i r p < 2147483648 →
    binom32Loop (n : Int) cnt (i : Int) (r : Int) = (binomLoop n cnt i r : Nat) := by
  intro cnt
  induction cnt with
  | zero => intro i r p _ _; simp [binom32Loop, binomLoop]
  | succ cnt ih =>
    intro i r p hi hpk
    simp only [binom32Loop, binomLoop]
    simp only [binomPeakLoop] at hpk
    have h1 : max p (r * (n - i)) ≤ binomPeakLoop n cnt (i + 1) (r * (n - i) / (i + 1)) (max p (r * (n - i))) :=
      le_binomPeakLoop n _ _ _ _
    have h2 : r * (n - i) < 2147483648 := by
      have := Nat.le_max_right p (r * (n - i)); omega
    have e1 : (r : Int) * ((n : Int) - (i : Int)) = ((r * (n - i) : Nat) : Int) := by
      have : ((n - i : Nat) : Int) = (n : Int) - (i : Int) := by omega
      rw [← this]; norm_cast
    rw [e1, wrapI32_id _ (by omega) (by omega)]
    have e2 : ((r * (n - i) : Nat) : Int).tdiv ((i : Int) + 1) = ((r * (n - i) / (i + 1) : Nat) : Int) := by
      rw [Int.tdiv_eq_ediv_of_nonneg (by omega)]
      norm_cast
    rw [e2]
    have := ih (i + 1) (r * (n - i) / (i + 1)) (max p (r * (n - i))) (by omega) hpk
    simpa using this

theorem binom32_eq (n k : Nat) (hpk : binomPeak n k < 2147483648) : binom32 (n : Int) (k : Int) = (binom n k : Nat) := by
  unfold binom32 binom
  by_cases h : n < k
  · have : (k : Int) < 0 ∨ (n : Int) < 0 ∨ (n : Int) < (k : Int) := Or.inr (Or.inr (by omega))
    rw [if_pos this, if_pos h]; rfl
  · have hn : ¬ ((k : Int) < 0 ∨ (n : Int) < 0 ∨ (n : Int) < (k : Int)) := by omega
    rw [if_neg hn, if_neg h]
    unfold binomPeak at hpk
    rw [if_neg h] at hpk
    by_cases hk : k > n - k
    · have hk' : (k : Int) > (n : Int) - (k : Int) := by omega
      simp only [hk, hk', if_true] at hpk ⊢
      have e : ((n : Int) - (k : Int)).toNat = n - k := by omega
      rw [e]
      have := binom32Loop_eq n (n - k) 0 1 1 (by omega) hpk
      simpa using this
    · have hk' : ¬ (k : Int) > (n : Int) - (k : Int) := by omega
      simp only [hk, hk', if_false] at hpk ⊢
      have e : ((k : Int)).toNat = k := by omega
      rw [e]
      have := binom32Loop_eq n k 0 1 1 (by omega) hpk
      simpa using this

theorem binomPeak_small (n k : Nat) (hn : n ≤ 29) : binomPeak n k < 2147483648 := by
  have table : ∀ n, n < 30 → ∀ k, k < 30 → binomPeak n k < 2147483648 := by decide
  by_cases hk : k < 30
  · exact table n (by omega) k hk
  · unfold binomPeak; rw [if_pos (by omega)]; decide

theorem binom_small (n k : Nat) (hn : n ≤ 29) : binom n k < 2147483648 := by
  have table : ∀ n, n < 30 → ∀ k, k < 30 → binom n k < 2147483648 := by decide
  by_cases hk : k < 30
  · exact table n (by omega) k hk
  · unfold binom; rw [if_pos (by omega)]; decide

theorem choose_small (n k : Nat) (hn : n ≤ 29) : choose n k < 2147483648 := by
  rw [← binom_eq]; exact binom_small n k hn

/-- the call with `uint32_t` arguments is exact for `n ≤ 29` -/
theorem binomU_eq (n k : Nat) (hn : n ≤ 29) (hk : k ≤ 29) : binomU n k = choose n k := by
  unfold binomU
  rw [wrapI32_id _ (by omega) (by omega), wrapI32_id _ (by omega) (by omega), binom32_eq n k (binomPeak_small n k hn),
    toU32_natCast _ (by have := binom_small n k hn; omega), binom_eq]

/-- on `int` arguments: `binom32 = binomInt` for `n ≤ 29` (all the genotype code ever asks for, see below) -/
theorem binom32_eq_binomInt (n k : Int) (hn : n ≤ 29) : binom32 n k = binomInt n k := by
  unfold binomInt
  by_cases h : k < 0 ∨ n < 0 ∨ n < k
  · unfold binom32; rw [if_pos h, if_pos h]
  · rw [if_neg h]
    obtain ⟨n', rfl⟩ : ∃ n' : Nat, n = n' := ⟨n.toNat, by omega⟩
    obtain ⟨k', rfl⟩ : ∃ k' : Nat, k = k' := ⟨k.toNat, by omega⟩
    rw [binom32_eq _ _ (binomPeak_small _ _ (by omega))]
    simp

/-! ## get_index on `uint32_t` -/

/-- the summand `binomial_coefficient(k + allele - 1, allele - 1)` as executed (`allele - 1` wraps to `-1` for allele 0) -/
theorem termW_eq (k a : Nat) (hk : 1 ≤ k) (hk2 : k ≤ 15) (ha : a < 16) :
    toU32 (binom32 (wrapI32 ((decU32 (k + a) : Nat) : Int)) (wrapI32 ((decU32 a : Nat) : Int))) = choose (k + a - 1) k := by
  rw [decU32_pos (k + a) (by omega) (by omega), wrapI32_id _ (by omega) (by omega)]
  cases a with
  | zero =>
    rw [decU32_zero]
    have : wrapI32 ((4294967295 : Nat) : Int) = -1 := by decide
    rw [this]
    have : choose (k + 0 - 1) k = 0 := Nat.choose_eq_zero_of_lt (by omega)
    rw [this]
    unfold binom32
    rw [if_pos (Or.inl (by omega))]; rfl
  | succ a =>
    rw [decU32_pos (a + 1) (by omega) (by omega), wrapI32_id _ (by omega) (by omega),
      binom32_eq _ _ (binomPeak_small _ _ (by omega)), toU32_natCast _ (by have := binom_small (k + (a + 1) - 1) (a + 1 - 1) (by omega); omega),
      binom_eq]
    have e : a + 1 - 1 = k + (a + 1) - 1 - k := by omega
    rw [e, Nat.choose_symm (by omega)]

theorem term_small (k a : Nat) (hk2 : k ≤ 15) (ha : a < 16) : choose (k + a - 1) k < 134217728 := by
  have table : ∀ k, k < 16 → ∀ a, a < 16 → binom (k + a - 1) k < 134217728 := by decide
  rw [← binom_eq]; exact table k (by omega) a ha

theorem idxSum_bound : ∀ (g : List Nat) (k : Nat), k + g.length ≤ 16 → (∀ a ∈ g, a < 16) →
    idxSum k g ≤ g.length * 134217728 := by
  intro g
  induction g with
  | nil => intro k _ _; simp [idxSum]
  | cons a as ih =>
    intro k hk ha
    simp only [idxSum, List.length_cons] at hk ⊢
    have h1 := term_small k a (by omega) (ha a (by simp))
    have h2 := ih (k + 1) (by omega) (fun x hx => ha x (by simp [hx]))
    rw [Nat.add_mul]; omega

theorem getIndexLoopW_eq : ∀ (g : List Nat) (k acc : Nat), 1 ≤ k → k + g.length ≤ 16 → (∀ a ∈ g, a < 16) →
    acc + idxSum k g < 4294967296 → getIndexLoopW k acc g = acc + idxSum k g := by
  intro g
  induction g with
  | nil => intro k acc _ _ _ _; simp [getIndexLoopW, idxSum]
  | cons a as ih =>
    intro k acc hk hl ha hb
    simp only [List.length_cons] at hl
    simp only [idxSum] at hb
    simp only [getIndexLoopW, idxSum]
    rw [termW_eq k a hk (by omega) (ha a (by simp))]
    have e1 : (k + 1) % 4294967296 = k + 1 := by omega
    have e2 : (acc + choose (k + a - 1) k) % 4294967296 = acc + choose (k + a - 1) k := by omega
    rw [e1, e2, ih (k + 1) _ (by omega) (by omega) (fun x hx => ha x (by simp [hx])) (by omega)]
    omega

theorem allelesAsc_length (g : Genotype) : g.allelesAsc.length = g.getPloidy := by
  simp [Genotype.allelesAsc]

theorem allelesAsc_lt (g : Genotype) : ∀ a ∈ g.allelesAsc, a < 16 := by
  intro a ha
  simp only [Genotype.allelesAsc, List.mem_map] at ha
  obtain ⟨i, _, rfl⟩ := ha
  exact getPosition_lt g _

/-- **`get_index()` never wraps**: for every 64-bit word the `uint32_t` computation equals the unbounded one -/
theorem getIndexW_eq (g : Genotype) : g.getIndexW = g.getIndex := by
  unfold Genotype.getIndexW Genotype.getIndex
  rw [getIndexL_eq]
  have hp : g.getPloidy < 16 := getPosition_lt g _
  have hl := allelesAsc_length g
  have hb := idxSum_bound g.allelesAsc 1 (by omega) (allelesAsc_lt g)
  have := getIndexLoopW_eq g.allelesAsc 1 0 (by omega) (by omega) (allelesAsc_lt g) (by omega)
  rw [this]; simp [idx]

/-! ## convert_index_to_alleles on `uint32_t` -/

/-- the binomials the search evaluates for `allele_index ≤ A` are exact -/
def Exact (pth A : Nat) : Prop := ∀ a, a ≤ A → binomU (decU32 (pth + a)) pth = choose (pth + a - 1) pth

theorem exact_of_small (pth A : Nat) (hp : 1 ≤ pth) (hp2 : pth ≤ 29) (h : pth + A ≤ 30) : Exact pth A := by
  intro a ha
  rw [decU32_pos _ (by omega) (by omega), binomU_eq _ _ (by omega) (by omega)]

theorem findAlleleW_eq (pth L M A : Nat) (hp : 1 ≤ pth) (hE : Exact pth A) (hA : A < 4294967296)
    (hstop : choose (pth + A - 1) pth ≥ L ∨ A ≥ M) :
    ∀ a, a ≤ A → findAlleleW pth L M a = findAllele pth L M a := by
  intro a
  induction h : A - a generalizing a with
  | zero =>
    intro ha
    have haA : a = A := by omega
    subst haA
    unfold findAlleleW findAllele
    rw [hE a (Nat.le_refl _), binom_eq]
    simp only [hstop, if_true]
    by_cases c2 : choose (pth + a - 1) pth > L
    · simp only [c2, if_true]
      have ha0 : a ≠ 0 := by
        intro h0; subst h0
        have : choose (pth + 0 - 1) pth = 0 := Nat.choose_eq_zero_of_lt (by omega)
        omega
      exact decU32_pos a (by omega) (by omega)
    · simp only [c2, if_false]
  | succ d ih =>
    intro ha
    unfold findAlleleW findAllele
    rw [hE a ha, binom_eq]
    by_cases c1 : choose (pth + a - 1) pth ≥ L ∨ a ≥ M
    · simp only [c1, if_true]
      by_cases c2 : choose (pth + a - 1) pth > L
      · simp only [c2, if_true]
        have ha0 : a ≠ 0 := by
          intro h0; subst h0
          have : choose (pth + 0 - 1) pth = 0 := Nat.choose_eq_zero_of_lt (by omega)
          omega
        exact decU32_pos a (by omega) (by omega)
      · simp only [c2, if_false]
    · simp only [c1, if_false]
      exact ih (a + 1) (by omega) (by omega)

theorem convertLoopW_eq : ∀ (p A M L : Nat), p + A ≤ 29 → L < choose (p + A) p → L < choose (p + M) p →
    convertLoopW p M L = indexToAllelesLoop p M L := by
  intro p
  induction p with
  | zero => intro A M L _ _ _; rfl
  | succ p ih =>
    intro A M L hpA hLA hLM
    simp only [convertLoopW, indexToAllelesLoop]
    have hE : Exact (p + 1) (A + 1) := exact_of_small _ _ (by omega) (by omega) (by omega)
    have hstop : choose (p + 1 + (A + 1) - 1) (p + 1) ≥ L ∨ A + 1 ≥ M := by
      have e : p + 1 + (A + 1) - 1 = p + 1 + A := by omega
      rw [e]; exact Or.inl (by omega)
    rw [findAlleleW_eq (p + 1) L M (A + 1) (by omega) hE (by omega) hstop 0 (by omega)]
    obtain ⟨r1, r2, r3⟩ := findAllele_spec (p + 1) L M (by omega) 0 (by omega) (by intro a' h; omega)
    generalize findAllele (p + 1) L M 0 = r at r1 r2 r3
    have e : p + 1 + r - 1 = p + r := by omega
    rw [e] at r2
    have hrA : r ≤ A := by
      by_cases c : r ≤ A
      · exact c
      · exfalso
        have : choose (p + 1 + A) (p + 1) ≤ choose (p + r) (p + 1) := Nat.choose_le_choose _ (by omega)
        omega
    have hsub : binomU (decU32 (p + 1 + r)) (p + 1) = choose (p + r) (p + 1) := by
      rw [hE r (by omega), e]
    have hLs : L < 2147483648 := Nat.lt_trans hLA (choose_small _ _ (by omega))
    rw [hsub, binom_eq, e]
    have e3 : (L + 4294967296 - choose (p + r) (p + 1)) % 4294967296 = L - choose (p + r) (p + 1) := by omega
    rw [e3]
    have hP : choose (p + r + 1) (p + 1) = choose (p + r) p + choose (p + r) (p + 1) := pascal _ _
    have hlt : L < choose (p + r + 1) (p + 1) := by
      rcases r3 with h' | h'
      · subst h'; have e2 : p + 1 + r = p + r + 1 := by omega
        rw [e2] at hLM; exact hLM
      · have e2 : p + 1 + r = p + r + 1 := by omega
        rw [e2] at h'; exact h'
    have hmono : choose (p + r) p ≤ choose (p + A) p := Nat.choose_le_choose _ (by omega)
    rw [ih A r (L - choose (p + r) (p + 1)) (by omega) (by omega) (by omega)]

/-- **`convert_index_to_alleles` never wraps** below the count of genotypes over `a` alleles, `p + a ≤ 30` -/
theorem convertW_eq (i p a : Nat) (hpa : p + a ≤ 30) (hi : i < choose (p + a - 1) p) :
    convertW i p = indexToAlleles i p := by
  unfold convertW indexToAlleles
  cases p with
  | zero => rfl
  | succ p =>
    cases a with
    | zero =>
      have : choose (p + 1 + 0 - 1) (p + 1) = 0 := Nat.choose_eq_zero_of_lt (by omega)
      omega
    | succ a =>
      have e : p + 1 + (a + 1) - 1 = p + 1 + a := by omega
      rw [e] at hi
      have hs : i < 2147483648 := Nat.lt_trans hi (choose_small _ _ (by omega))
      have e2 : i % 4294967296 = i := by omega
      rw [e2]
      have hM : i < choose (p + 1 + i) (p + 1) := by
        have := succ_le_choose (p + 1) i (by omega); omega
      exact convertLoopW_eq (p + 1) a i i (by omega) hi hM

end WhVerif.C19

import WhVerif.Lemmas.C18PQ
/-! C18 helper lemmas: facts about the abstract queue (`AStep`, `ARun`, `replay`) and about histories. -/
namespace WhVerif.C18

/-! abstract-queue level facts -/

theorem keys_perm {M N : AMap} (h : M.Perm N) : M.keys.Perm N.keys := h.map _

theorem nodup_of_perm {M N : AMap} (h : M.Perm N) (hn : M.keys.Nodup) : N.keys.Nodup :=
  (keys_perm h).nodup_iff.mp hn

theorem mem_keys_of_mem {M : AMap} {item : Nat} {s : Score} (h : (item, s) ∈ M) : item ∈ M.keys :=
  List.mem_map.mpr ⟨_, h, rfl⟩

theorem filter_ne_of_not_mem {R : AMap} {item : Nat} (h : item ∉ R.keys) :
    R.filter (fun p => p.1 != item) = R := by
  apply List.filter_eq_self.mpr
  intro p hp
  have : p.1 ≠ item := fun e => h (e ▸ List.mem_map.mpr ⟨p, hp, rfl⟩)
  simpa using this

theorem filter_perm_of_cons {M R : AMap} {item : Nat} {s : Score} (hn : M.keys.Nodup)
    (h : M.Perm ((item, s) :: R)) : R.Perm (M.filter (fun p => p.1 != item)) := by
  have hn' := nodup_of_perm h hn
  simp only [AMap.keys, List.map_cons, List.nodup_cons] at hn'
  have := h.filter (fun p => p.1 != item)
  rw [List.filter_cons] at this
  simp only [bne_self_eq_false, Bool.false_eq_true, if_false] at this
  rw [filter_ne_of_not_mem hn'.1] at this
  exact this.symm

theorem keys_filter_nodup {M : AMap} (item : Nat) (hn : M.keys.Nodup) :
    (AMap.keys (M.filter (fun p => p.1 != item))).Nodup := by
  unfold AMap.keys at *
  exact (List.filter_sublist.map _).nodup hn

theorem not_mem_keys_filter (M : AMap) (item : Nat) : item ∉ AMap.keys (M.filter (fun p => p.1 != item)) := by
  simp [AMap.keys]

theorem lookup_of_mem {M : AMap} {item : Nat} {s : Score} (hn : M.keys.Nodup) (h : (item, s) ∈ M) :
    M.lookup item = some s := by
  induction M with
  | nil => simp at h
  | cons p M ih =>
    obtain ⟨k, v⟩ := p
    simp only [AMap.keys, List.map_cons, List.nodup_cons] at hn
    rcases List.mem_cons.mp h with e | h'
    · cases e; simp [List.lookup]
    · have : item ≠ k := fun e => hn.1 (e ▸ mem_keys_of_mem h')
      simp only [List.lookup]
      have : (item == k) = false := by simpa using this
      rw [this]; exact ih hn.2 h'

theorem lookup_of_not_mem {M : AMap} {item : Nat} (h : item ∉ M.keys) : M.lookup item = none := by
  induction M with
  | nil => rfl
  | cons p M ih =>
    obtain ⟨k, v⟩ := p
    simp only [AMap.keys, List.map_cons, List.mem_cons, not_or] at h
    have : (item == k) = false := by simpa using h.1
    simp only [List.lookup, this]; exact ih h.2

theorem lookup_perm {M N : AMap} (hn : M.keys.Nodup) (h : M.Perm N) (item : Nat) :
    M.lookup item = N.lookup item := by
  by_cases hk : item ∈ M.keys
  · obtain ⟨p, hp, rfl⟩ := List.mem_map.mp hk
    rw [lookup_of_mem hn hp, lookup_of_mem (nodup_of_perm h hn) (h.mem_iff.mp hp)]
  · rw [lookup_of_not_mem hk, lookup_of_not_mem (fun hh => hk ((keys_perm h).mem_iff.mpr hh))]

/-- one abstract step: keys stay distinct, the answer is `Allowed`, and the successor map is the replayed one -/
theorem astep_replay {M M' N : AMap} {op : Op} {o : Out} (hn : M.keys.Nodup) (hMN : M.Perm N)
    (h : AStep M op M' o) : M'.keys.Nodup ∧ M'.Perm (replayStep N op o) ∧ Allowed N op o := by
  have hnN := nodup_of_perm hMN hn
  have hk : ∀ x, x ∈ M.keys ↔ x ∈ N.keys := fun x => (keys_perm hMN).mem_iff
  cases h with
  | push hnot hperm =>
    refine ⟨?_, ?_, ?_⟩
    · apply nodup_of_perm hperm.symm
      simp only [AMap.keys, List.map_cons, List.nodup_cons]
      exact ⟨hnot, hn⟩
    · exact hperm.trans (hMN.cons _)
    · simp only [Allowed]; rw [if_neg (fun hh => hnot ((hk _).mpr hh))]; trivial
  | pushQueued hin =>
    refine ⟨hn, hMN, ?_⟩
    have h' := (hk _).mp hin
    simp [Allowed, h']
  | popEmpty =>
    refine ⟨hn, hMN, ?_⟩
    left; exact ⟨hMN.nil_eq.symm ▸ rfl, rfl⟩
  | pop hperm hmax =>
    refine ⟨?_, ?_, ?_⟩
    · have := nodup_of_perm hperm hn
      simp only [AMap.keys, List.map_cons, List.nodup_cons] at this
      exact this.2
    · exact (filter_perm_of_cons hn hperm).trans (hMN.filter _)
    · right
      refine ⟨_, _, rfl, hMN.mem_iff.mp (hperm.mem_iff.mpr (List.mem_cons_self ..)), ?_⟩
      intro p hp; exact hmax p (hMN.mem_iff.mpr hp)
  | change h1 h2 =>
    have hR := filter_perm_of_cons hn h1
    refine ⟨?_, ?_, ?_⟩
    · apply nodup_of_perm h2.symm
      have := nodup_of_perm h1 hn
      simp only [AMap.keys, List.map_cons, List.nodup_cons] at this ⊢
      exact this
    · exact h2.trans ((hR.trans (hMN.filter _)).cons _)
    · simp only [Allowed]
      rw [if_pos ((hk _).mp (mem_keys_of_mem (h1.mem_iff.mpr (List.mem_cons_self ..))))]
      trivial
  | changeAbsent hnot =>
    refine ⟨hn, hMN, ?_⟩
    simp only [Allowed]; rw [if_neg (fun hh => hnot ((hk _).mpr hh))]; trivial
  | getSome hmem =>
    refine ⟨hn, hMN, ?_⟩
    simp only [Allowed]; rw [← lookup_perm hn hMN, lookup_of_mem hn hmem]
  | getNone hnot =>
    refine ⟨hn, hMN, ?_⟩
    simp only [Allowed]; rw [← lookup_perm hn hMN, lookup_of_not_mem hnot]
  | len => exact ⟨hn, hMN, by simp only [Allowed]; rw [hMN.length_eq]⟩
  | isEmpty =>
    refine ⟨hn, hMN, ?_⟩
    simp only [Allowed]
    have := hMN.length_eq
    cases M <;> cases N <;> simp_all


theorem arun_length {M : AMap} {ops : List Op} {outs : List Out} (h : ARun M ops outs) :
    outs.length = ops.length := by
  induction h with
  | nil => rfl
  | cons _ _ ih => simp [ih]

/-- every answer of an abstract history is `Allowed` by the map replayed from the earlier answers -/
theorem arun_allowed {M N : AMap} {ops : List Op} {outs : List Out} (h : ARun M ops outs)
    (hn : M.keys.Nodup) (hMN : M.Perm N) (k : Nat) (hk : k < ops.length) :
    (replay N (ops.take k) (outs.take k)).keys.Nodup ∧
      Allowed (replay N (ops.take k) (outs.take k)) ops[k] (outs[k]'(by rw [arun_length h]; exact hk)) := by
  induction h generalizing N k with
  | nil => simp at hk
  | cons hs hr ih =>
    obtain ⟨hn', hperm', hall⟩ := astep_replay hn hMN hs
    cases k with
    | zero => exact ⟨nodup_of_perm hMN hn, by simpa [replay] using hall⟩
    | succ k =>
      simp only [List.take_succ_cons, replay, List.getElem_cons_succ]
      exact ih hn' hperm' k (by simpa using hk)

theorem run_length (q : PQ) (ops : List Op) : (run q ops).length = ops.length := by
  induction ops generalizing q with
  | nil => rfl
  | cons op ops ih => simp [run, ih]

theorem run_append (q : PQ) (a b : List Op) : run q (a ++ b) = run q a ++ run (exec q a) b := by
  induction a generalizing q with
  | nil => rfl
  | cons op a ih => simp [run, exec, ih]

/-! pops only -/

theorem arun_pops_mem {M : AMap} {k : Nat} {outs : List Out} (h : ARun M (List.replicate k .pop) outs) :
    ∀ s item, Out.popped s item ∈ outs → (item, s) ∈ M := by
  induction k generalizing M outs with
  | zero => cases h; simp
  | succ k ih =>
    rw [List.replicate_succ] at h
    cases h with
    | cons hs hr =>
      intro s item hmem
      cases hs with
      | popEmpty =>
        rcases List.mem_cons.mp hmem with e | hm
        · cases e
        · exact ih hr s item hm
      | pop hperm hmax =>
        rcases List.mem_cons.mp hmem with e | hm
        · cases e; exact hperm.mem_iff.mpr (List.mem_cons_self ..)
        · exact hperm.mem_iff.mpr (List.mem_cons_of_mem _ (ih hr s item hm))

/-- relation "not increasing" between two answers (only `popped` answers are constrained) -/
def Out.NonIncr (o1 o2 : Out) : Prop :=
  ∀ s1 i1 s2 i2, o1 = .popped s1 i1 → o2 = .popped s2 i2 → scoreLower s1 s2 = false

theorem arun_pops_pairwise {M : AMap} {k : Nat} {outs : List Out}
    (h : ARun M (List.replicate k .pop) outs) : outs.Pairwise Out.NonIncr := by
  induction k generalizing M outs with
  | zero => cases h; exact .nil
  | succ k ih =>
    rw [List.replicate_succ] at h
    cases h with
    | cons hs hr =>
      refine List.Pairwise.cons ?_ (ih hr)
      intro o2 ho2 s1 i1 s2 i2 e1 e2
      subst e2
      cases hs with
      | popEmpty => cases e1
      | pop hperm hmax =>
        cases e1
        have := arun_pops_mem hr s2 i2 ho2
        exact hmax _ (hperm.mem_iff.mpr (List.mem_cons_of_mem _ this))

theorem arun_drain {M : AMap} {outs : List Out} (h : ARun M (List.replicate M.length .pop) outs) :
    outs.Perm (M.map (fun p => Out.popped p.2 p.1)) := by
  generalize hk : M.length = k at h
  induction k generalizing M outs with
  | zero =>
    cases h
    have : M = [] := List.eq_nil_of_length_eq_zero hk
    subst this; exact .refl _
  | succ k ih =>
    rw [List.replicate_succ] at h
    cases h with
    | cons hs hr =>
      cases hs with
      | popEmpty => simp at hk
      | pop hperm hmax =>
        have hl := hperm.length_eq
        simp only [List.length_cons] at hl
        have := ih (by omega) hr
        have h2 := (hperm.map (fun p : Nat × Score => Out.popped p.2 p.1)).symm
        exact (this.cons _).trans h2

end WhVerif.C18

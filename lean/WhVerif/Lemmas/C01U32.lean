import WhVerif.Model.C01U32
import WhVerif.Lemmas.C01WitnessPath
/-!
# C01, 32-bit arithmetic: below the bound `ubAll I < UINT_MAX` nothing wraps and nothing finite reaches the
# sentinel, so the DP in `unsigned int` arithmetic is the unbounded DP. Core Lean only.
-/
set_option linter.unusedSimpArgs false
set_option linter.unusedVariables false
namespace WhVerif.C01
open WhVerif.Cost

/-! ### strict-`<` folds over `Nat` with `UINT_MAX` as start value -/

/-- minimum of `v` over a list, `UINT_MAX` for the empty list -/
def minNat {α} (l : List α) (v : α → Nat) : Nat := l.foldr (fun a acc => min (v a) acc) INF32

@[simp] theorem minNat_nil {α} (v : α → Nat) : minNat [] v = INF32 := rfl
@[simp] theorem minNat_cons {α} (a : α) (l : List α) (v : α → Nat) : minNat (a :: l) v = min (v a) (minNat l v) := rfl

theorem minNat_le {α} (l : List α) (v : α → Nat) : minNat l v ≤ INF32 := by
  induction l with
  | nil => exact Nat.le_refl _
  | cons a l ih => rw [minNat_cons]; exact Nat.le_trans (Nat.min_le_right _ _) ih

theorem foldl_lt_eq_min {α} (l : List α) (v : α → Nat) (b : Nat) (hb : b ≤ INF32) :
    l.foldl (fun best a => if v a < best then v a else best) b = min b (minNat l v) := by
  induction l generalizing b with
  | nil => simp [Nat.min_eq_left hb]
  | cons a l ih =>
    simp only [List.foldl_cons, minNat_cons]
    have hstep : (if v a < b then v a else b) = min b (v a) := by
      by_cases h : v a < b
      · rw [if_pos h, Nat.min_eq_right (by omega)]
      · rw [if_neg h, Nat.min_eq_left (by omega)]
    rw [hstep, ih _ (Nat.le_trans (Nat.min_le_left _ _) hb), Nat.min_assoc]

theorem minNat_congr {α} (l : List α) (v v' : α → Nat) (h : ∀ a ∈ l, v a = v' a) : minNat l v = minNat l v' := by
  induction l with
  | nil => rfl
  | cons a l ih =>
    rw [minNat_cons, minNat_cons, h a List.mem_cons_self, ih (fun b hb => h b (List.mem_cons_of_mem _ hb))]

theorem enc32_cmin (x y : Option Nat) (hx : ∀ a, x = some a → a ≤ INF32) (hy : ∀ a, y = some a → a ≤ INF32) :
    enc32 (cmin x y) = min (enc32 x) (enc32 y) := by
  cases x with
  | none =>
    cases y with
    | none => simp [enc32, cmin]
    | some b => simp [enc32, cmin, Nat.min_eq_right (hy b rfl)]
  | some a =>
    cases y with
    | none => simp [enc32, cmin, Nat.min_eq_left (hx a rfl)]
    | some b => simp [enc32, cmin]

theorem minOver_le_INF {α} (l : List α) (f : α → Option Nat) (h : ∀ a ∈ l, ∀ x, f a = some x → x ≤ INF32) :
    ∀ x, minOver l f = some x → x ≤ INF32 := by
  intro x hx
  rcases (minOver_isMin l f).att with e | ⟨a, ha, e⟩
  · rw [e] at hx; cases hx
  · rw [hx] at e; exact h a ha x e

theorem minNat_enc {α} (l : List α) (f : α → Option Nat) (h : ∀ a ∈ l, ∀ x, f a = some x → x ≤ INF32) :
    minNat l (fun a => enc32 (f a)) = enc32 (minOver l f) := by
  induction l with
  | nil => rfl
  | cons a l ih =>
    have hl : ∀ b ∈ l, ∀ x, f b = some x → x ≤ INF32 := fun b hb => h b (List.mem_cons_of_mem _ hb)
    rw [minNat_cons, minOver_cons, ih hl, enc32_cmin _ _ (h a List.mem_cons_self) (minOver_le_INF l f hl)]

theorem enc32_le (x : Option Nat) (h : ∀ a, x = some a → a ≤ INF32) : enc32 x ≤ INF32 := by
  cases x with
  | none => exact Nat.le_refl _
  | some a => exact h a rfl

theorem wrap32_of_lt (x : Nat) (h : x < INF32) : wrap32 x = x := by
  unfold wrap32
  apply Nat.mod_eq_of_lt
  unfold INF32 at h
  omega

/-- the bucketed strict-`<` fold of the projection column -/
theorem foldl_bucket32 {α} (items : List α) (key : α → Nat) (v : α → Nat) (arr : Array Nat) (k : Nat)
    (hk : k < arr.size) (harr : arr.getD k INF32 ≤ INF32) :
    (items.foldl (fun arr a => arr.modify (key a) (fun old => if v a < old then v a else old)) arr).getD k INF32
      = min (arr.getD k INF32) (minNat (items.filter (fun a => key a == k)) v) := by
  induction items generalizing arr with
  | nil =>
    simp only [List.foldl_nil, List.filter_nil, minNat_nil]
    exact (Nat.min_eq_left harr).symm
  | cons a l ih =>
    simp only [List.foldl_cons]
    by_cases hka : key a = k
    · subst hka
      have hmod : (arr.modify (key a) (fun old => if v a < old then v a else old)).getD (key a) INF32
          = min (arr.getD (key a) INF32) (v a) := by
        simp only [Array.getD_eq_getD_getElem?, Array.getElem?_modify, if_true, Array.getElem?_eq_getElem hk,
          Option.map_some, Option.getD_some]
        by_cases h : v a < arr[key a]
        · rw [if_pos h, Nat.min_eq_right (by omega)]
        · rw [if_neg h, Nat.min_eq_left (by omega)]
      rw [ih _ (by simpa using hk) (by rw [hmod]; exact Nat.le_trans (Nat.min_le_left _ _) harr), hmod]
      simp [List.filter_cons, Nat.min_assoc]
    · have hne : (key a == k) = false := by simpa using hka
      have hmod : (arr.modify (key a) (fun old => if v a < old then v a else old)).getD k INF32
          = arr.getD k INF32 := by
        simp [Array.getD_eq_getD_getElem?, Array.getElem?_modify, hka]
      rw [ih _ (by simpa using hk) (by rw [hmod]; exact harr), hmod]
      simp [List.filter_cons, hne]

theorem foldl_modify32_size {α} (items : List α) (key : α → Nat) (v : α → Nat) (arr : Array Nat) :
    (items.foldl (fun arr a => arr.modify (key a) (fun old => if v a < old then v a else old)) arr).size
      = arr.size := by
  induction items generalizing arr with
  | nil => rfl
  | cons a l ih => simp [ih]

/-! ### bounds on the summands -/

theorem zip_map_sum_le {β} (l : List Nat) (bs : List β) (f : Nat × β → Nat) (g : Nat → Nat)
    (h : ∀ r b, f (r, b) ≤ g r) : ((l.zip bs).map f).sum ≤ (l.map g).sum := by
  induction l generalizing bs with
  | nil => simp
  | cons a l ih =>
    cases bs with
    | nil => simp
    | cons b bs =>
      simp only [List.zip_cons_cons, List.map_cons, List.sum_cons]
      have := ih bs
      have := h a b
      omega

theorem ite_zero_le (p : Prop) [Decidable p] (w : Nat) : (if p then 0 else w) ≤ w := by
  split <;> omega

theorem viewCost_le (I : Inst) (c t α : Nat) (bs : List Bool) : viewCost I c t α bs ≤ colW I c := by
  unfold viewCost colW
  apply zip_map_sum_le
  intro r b
  simp only [readCost]
  cases (I.read r).entryAt c with
  | none => simp
  | some e =>
    obtain ⟨al, w⟩ := e
    exact ite_zero_le _ _

theorem foldl_cadd_none {α} (l : List α) (h : α → Option Nat) :
    l.foldl (fun acc x => cadd acc (h x)) none = none := by
  induction l with
  | nil => rfl
  | cons a l ih => simp [ih]

theorem foldl_cadd_le {α} (l : List α) (h : α → Option Nat) (M : α → Nat)
    (hM : ∀ a x, h a = some x → x ≤ M a) : ∀ (s g : Nat),
    l.foldl (fun acc x => cadd acc (h x)) (some s) = some g → g ≤ s + (l.map M).sum := by
  induction l with
  | nil => intro s g hg; simp at hg; simp; omega
  | cons a l ih =>
    intro s g hg
    simp only [List.foldl_cons] at hg
    cases hx : h a with
    | none => rw [hx] at hg; simp [foldl_cadd_none] at hg
    | some x =>
      rw [hx] at hg
      have := ih (s + x) g (by simpa [cadd] using hg)
      have := hM a x hx
      simp only [List.map_cons, List.sum_cons]
      omega

theorem bitOf_le (x i : Nat) : bitOf x i ≤ 1 := by
  unfold bitOf
  omega

theorem gcost_le_maxG (I : Inst) (ind c k x : Nat) (hk : k ≤ 2) (h : gcost I ind c k = some x) :
    x ≤ maxG I ind c := by
  unfold maxG
  have h3 : k = 0 ∨ k = 1 ∨ k = 2 := by omega
  rcases h3 with rfl | rfl | rfl <;> simp [h] <;> omega

theorem assign_le (I : Inst) (c t : Nat) (ag : Nat × Nat) (h : ag ∈ assignments I c t) : ag.2 ≤ colG I c := by
  unfold assignments at h
  rw [List.mem_filterMap] at h
  obtain ⟨α, _, hα⟩ := h
  obtain ⟨g, hg, rfl⟩ := Option.map_eq_some_iff.mp hα
  unfold assignCost at hg
  have := foldl_cadd_le (List.range I.nind)
    (fun ind => gcost I ind c (bitOf α (h2pOf (h2pMap I t) ind 0) + bitOf α (h2pOf (h2pMap I t) ind 1)))
    (fun ind => maxG I ind c)
    (fun ind x hx => gcost_le_maxG I ind c _ x (by
      have := bitOf_le α (h2pOf (h2pMap I t) ind 0)
      have := bitOf_le α (h2pOf (h2pMap I t) ind 1)
      omega) hx) 0 g hg
  unfold colG
  simpa using this

/-- every candidate sum of `get_cost()` is bounded by the column's genotype and weight totals -/
theorem cand_le (I : Inst) (c t : Nat) (bs : List Bool) (ag : Nat × Nat) (h : ag ∈ assignments I c t) :
    ag.2 + viewCost I c t ag.1 bs ≤ colG I c + colW I c := by
  have := assign_le I c t ag h
  have := viewCost_le I c t ag.1 bs
  omega

theorem colCost_le (I : Inst) (c t : Nat) (bs : List Bool) (v : Nat) (h : colCost I c bs t = some v) :
    v ≤ colG I c + colW I c := by
  unfold colCost at h
  rcases (minOver_isMin (assignments I c t) (fun ag => some (ag.2 + viewCost I c t ag.1 bs))).att with e | ⟨ag, hag, e⟩
  · rw [e] at h; cases h
  · rw [h] at e
    cases e
    exact cand_le I c t bs ag hag

theorem popcount_le (n : Nat) : ∀ x, x < 2 ^ n → popcount x ≤ n := by
  induction n with
  | zero =>
    intro x hx
    have : x = 0 := by simpa using hx
    subst this
    unfold popcount; simp
  | succ n ih =>
    intro x hx
    unfold popcount
    by_cases h0 : x = 0
    · simp [h0]
    · rw [dif_neg h0]
      have : x / 2 < 2 ^ n := by
        apply Nat.div_lt_of_lt_mul
        rw [Nat.pow_succ] at hx
        omega
      have := ih (x / 2) this
      omega

theorem popcount_xor_le (I : Inst) (t j : Nat) (ht : t < I.ntrans) (hj : j < I.ntrans) :
    popcount (t ^^^ j) ≤ 2 * I.trios.length := by
  have h4 : I.ntrans = 2 ^ (2 * I.trios.length) := by
    unfold Inst.ntrans
    rw [Nat.pow_mul]
  rw [h4] at ht hj
  exact popcount_le _ _ (Nat.xor_lt_two_pow ht hj)

/-! ### the terms of the inner loop, unbounded -/

/-- `previous_cost` of the inner loop -/
def prevTerm (I : Inst) (c : Nat) (prev : Array (Option Nat)) (idx j : Nat) : Option Nat :=
  if c = 0 then some 0 else prev.getD (idx % 2 ^ (I.sharedAt (c - 1)).length * I.ntrans + j) none

/-- `val` of the inner loop over `j`, in the order the code adds: (column cost + previous cost) + recombination -/
def termO (I : Inst) (c : Nat) (prev : Array (Option Nat)) (idx t j : Nat) : Option Nat :=
  cadd (cadd (colCost I c (bitsOf (I.activeAt c).length idx) t) (prevTerm I c prev idx j))
    (some (popcount (t ^^^ j) * I.recombAt c))

theorem minOver_recomb0 (I : Inst) (t : Nat) (ht : t < I.ntrans) (R : Nat) :
    minOver (List.range I.ntrans) (fun j => some (popcount (t ^^^ j) * R)) = some 0 := by
  have h := minOver_isMin (List.range I.ntrans) (fun j => some (popcount (t ^^^ j) * R))
  have h' : IsMinOf (fun x => x ∈ List.range I.ntrans) (fun j => some (popcount (t ^^^ j) * R)) (some 0) := by
    refine ⟨?_, Or.inr ⟨t, List.mem_range.mpr ht, ?_⟩⟩
    · intro x _; simp [cle]
    · have : popcount 0 = 0 := by unfold popcount; simp
      simp [Nat.xor_self, this]
  exact h.unique h'

/-- the DP cell is the minimum of the code's inner-loop values -/
theorem dpCell_eq_terms (I : Inst) (c : Nat) (prev : Array (Option Nat)) (idx t : Nat) (ht : t < I.ntrans) :
    dpCell I c prev idx t = minOver (List.range I.ntrans) (termO I c prev idx t) := by
  unfold dpCell termO prevTerm
  simp only
  by_cases h0 : c = 0
  · subst h0
    simp only [if_true]
    have : ∀ j, cadd (cadd (colCost I 0 (bitsOf (I.activeAt 0).length idx) t) (some 0))
        (some (popcount (t ^^^ j) * I.recombAt 0))
        = cadd (colCost I 0 (bitsOf (I.activeAt 0).length idx) t) (some (popcount (t ^^^ j) * I.recombAt 0)) := by
      intro j; rw [cadd_zero_right]
    simp only [this]
    rw [← cadd_minOver, minOver_recomb0 I t ht, cadd_zero_right]
  · simp only [if_neg h0]
    rw [cadd_minOver]
    apply minOver_congr_fun
    intro j _
    rw [cadd_assoc]

/-! ### every value the DP touches is bounded by `ubUpTo` -/

theorem ubUpTo_mono (I : Inst) (c d : Nat) : ubUpTo I c ≤ ubUpTo I (c + d) := by
  induction d with
  | zero => exact Nat.le_refl _
  | succ d ih =>
    have : c + (d + 1) = (c + d) + 1 := by omega
    rw [this]
    simp only [ubUpTo]
    omega

theorem ubUpTo_le_all (I : Inst) (c : Nat) (hc : c < I.ncols) : ubUpTo I c ≤ ubAll I := by
  unfold ubAll
  rw [if_neg (by omega)]
  have := ubUpTo_mono I c (I.ncols - 1 - c)
  have e : c + (I.ncols - 1 - c) = I.ncols - 1 := by omega
  rw [e] at this
  exact this

theorem col_le_ubUpTo (I : Inst) (c : Nat) : colG I c + colW I c + colR I c ≤ ubUpTo I c := by
  cases c with
  | zero => simp only [ubUpTo]; omega
  | succ c => simp only [ubUpTo]; omega

/-- all inner-loop values and all projection entries of column `c` are at most `ubUpTo I c` -/
theorem values_bounded (I : Inst) (c : Nat) :
    (∀ idx t j x, t < I.ntrans → j < I.ntrans → termO I c (prevOf I c) idx t j = some x → x ≤ ubUpTo I c) ∧
    (∀ k x, (tableAt I c).getD k none = some x → x ≤ ubUpTo I c) := by
  induction c with
  | zero =>
    have hterm : ∀ idx t j x, t < I.ntrans → j < I.ntrans → termO I 0 (prevOf I 0) idx t j = some x →
        x ≤ ubUpTo I 0 := by
      intro idx t j x ht hj hx
      unfold termO prevTerm at hx
      simp only [if_true] at hx
      obtain ⟨a, r, ha, hr, rfl⟩ := cadd_eq_some hx
      obtain ⟨a', z, ha', hz, rfl⟩ := cadd_eq_some ha
      cases hz; cases hr
      have h1 := colCost_le I 0 t _ a' ha'
      have h2 := popcount_xor_le I t j ht hj
      have h3 : popcount (t ^^^ j) * I.recombAt 0 ≤ colR I 0 := by
        unfold colR; exact Nat.mul_le_mul_right _ h2
      simp only [ubUpTo]
      omega
    refine ⟨hterm, ?_⟩
    intro k x hx
    rw [tableAt_eq_proj] at hx
    unfold projTable at hx
    simp only at hx
    by_cases hk : k < 2 ^ (I.sharedAt 0).length * I.ntrans
    · rw [bucketMin_getD _ _ _ _ _ hk] at hx
      rcases (minOver_isMin _ _).att with e | ⟨it, hit, e⟩
      · rw [e] at hx; cases hx
      · rw [hx] at e
        have hmem := (List.mem_filter.mp hit).1
        obtain ⟨i, t⟩ := it
        rw [mem_pairs] at hmem
        simp only at e
        rw [dpCell_eq_terms I 0 _ i t hmem.2] at e
        rcases (minOver_isMin (List.range I.ntrans) (termO I 0 (prevOf I 0) i t)).att with e' | ⟨j, hj, e'⟩
        · rw [e'] at e; cases e
        · rw [e] at e'
          exact hterm i t j x hmem.2 (List.mem_range.mp hj) e'
    · have hsz : (bucketMin (2 ^ (I.sharedAt 0).length * I.ntrans) (pairs (2 ^ (I.activeAt 0).length) I.ntrans)
          (fun it => natOfBits (fwdBits I 0 (bitsOf (I.activeAt 0).length it.1)) * I.ntrans + it.2)
          (fun it => dpCell I 0 (prevOf I 0) it.1 it.2)).size = 2 ^ (I.sharedAt 0).length * I.ntrans := by
        unfold bucketMin; rw [foldl_modify_size]; simp
      rw [Array.getD_eq_getD_getElem?, Array.getElem?_eq_none (by rw [hsz]; omega)] at hx
      cases hx
  | succ c ih =>
    have hprev : prevOf I (c + 1) = tableAt I c := by simp [prevOf]
    have hterm : ∀ idx t j x, t < I.ntrans → j < I.ntrans → termO I (c + 1) (prevOf I (c + 1)) idx t j = some x →
        x ≤ ubUpTo I (c + 1) := by
      intro idx t j x ht hj hx
      unfold termO prevTerm at hx
      simp only [if_neg (Nat.succ_ne_zero c), Nat.add_sub_cancel, hprev] at hx
      obtain ⟨a, r, ha, hr, rfl⟩ := cadd_eq_some hx
      obtain ⟨a', p, ha', hp, rfl⟩ := cadd_eq_some ha
      cases hr
      have h1 := colCost_le I (c + 1) t _ a' ha'
      have h2 := popcount_xor_le I t j ht hj
      have h3 : popcount (t ^^^ j) * I.recombAt (c + 1) ≤ colR I (c + 1) := by
        unfold colR; exact Nat.mul_le_mul_right _ h2
      have h4 := ih.2 _ p hp
      simp only [ubUpTo]
      omega
    refine ⟨hterm, ?_⟩
    intro k x hx
    rw [tableAt_eq_proj] at hx
    unfold projTable at hx
    simp only at hx
    by_cases hk : k < 2 ^ (I.sharedAt (c + 1)).length * I.ntrans
    · rw [bucketMin_getD _ _ _ _ _ hk] at hx
      rcases (minOver_isMin _ _).att with e | ⟨it, hit, e⟩
      · rw [e] at hx; cases hx
      · rw [hx] at e
        have hmem := (List.mem_filter.mp hit).1
        obtain ⟨i, t⟩ := it
        rw [mem_pairs] at hmem
        simp only at e
        rw [dpCell_eq_terms I (c + 1) _ i t hmem.2] at e
        rcases (minOver_isMin (List.range I.ntrans) (termO I (c + 1) (prevOf I (c + 1)) i t)).att with e' | ⟨j, hj, e'⟩
        · rw [e'] at e; cases e
        · rw [e] at e'
          exact hterm i t j x hmem.2 (List.mem_range.mp hj) e'
    · have hsz : (bucketMin (2 ^ (I.sharedAt (c + 1)).length * I.ntrans)
          (pairs (2 ^ (I.activeAt (c + 1)).length) I.ntrans)
          (fun it => natOfBits (fwdBits I (c + 1) (bitsOf (I.activeAt (c + 1)).length it.1)) * I.ntrans + it.2)
          (fun it => dpCell I (c + 1) (prevOf I (c + 1)) it.1 it.2)).size
            = 2 ^ (I.sharedAt (c + 1)).length * I.ntrans := by
        unfold bucketMin; rw [foldl_modify_size]; simp
      rw [Array.getD_eq_getD_getElem?, Array.getElem?_eq_none (by rw [hsz]; omega)] at hx
      cases hx

/-- every DP cell is bounded -/
theorem dpCell_bounded (I : Inst) (c idx t v : Nat) (ht : t < I.ntrans)
    (h : dpCell I c (prevOf I c) idx t = some v) : v ≤ ubUpTo I c := by
  rw [dpCell_eq_terms I c _ idx t ht] at h
  rcases (minOver_isMin (List.range I.ntrans) (termO I c (prevOf I c) idx t)).att with e | ⟨j, hj, e⟩
  · rw [e] at h; cases h
  · rw [h] at e
    exact (values_bounded I c).1 idx t j v ht (List.mem_range.mp hj) e

/-! ### the 32-bit DP equals the unbounded DP below the bound -/

theorem colCost32_eq (I : Inst) (c t : Nat) (bs : List Bool) (hb : colG I c + colW I c < INF32) :
    colCost32 I c bs t = enc32 (colCost I c bs t) := by
  unfold colCost32 colCost
  have hw : ∀ ag ∈ assignments I c t, wrap32 (ag.2 + viewCost I c t ag.1 bs) = ag.2 + viewCost I c t ag.1 bs := by
    intro ag hag
    exact wrap32_of_lt _ (Nat.lt_of_le_of_lt (cand_le I c t bs ag hag) hb)
  have hfold : ∀ (l : List (Nat × Nat)) (b : Nat), (∀ ag ∈ l, ag ∈ assignments I c t) →
      l.foldl (fun best ag =>
        let cost := wrap32 (ag.2 + viewCost I c t ag.1 bs)
        if cost < best then cost else best) b
      = l.foldl (fun best ag => if ag.2 + viewCost I c t ag.1 bs < best then ag.2 + viewCost I c t ag.1 bs else best) b := by
    intro l
    induction l with
    | nil => intro b _; rfl
    | cons a l ih =>
      intro b hl
      simp only [List.foldl_cons, hw a (hl a List.mem_cons_self)]
      exact ih _ (fun ag hag => hl ag (List.mem_cons_of_mem _ hag))
  rw [hfold _ _ (fun _ h => h), foldl_lt_eq_min _ _ _ (Nat.le_refl _)]
  have hfin : ∀ ag ∈ assignments I c t, ∀ x, some (ag.2 + viewCost I c t ag.1 bs) = some x → x ≤ INF32 := by
    intro ag hag x hx
    cases hx
    exact Nat.le_of_lt (Nat.lt_of_le_of_lt (cand_le I c t bs ag hag) hb)
  have := minNat_enc (assignments I c t) (fun ag => some (ag.2 + viewCost I c t ag.1 bs)) hfin
  simp only [enc32, Option.getD_some] at this
  rw [this]
  exact Nat.min_eq_right (enc32_le _ (minOver_le_INF _ _ hfin))

/-- the 32-bit table is the encoding of the unbounded table -/
def EncOf (prev32 : Array Nat) (prev : Array (Option Nat)) : Prop :=
  ∀ k, prev32.getD k INF32 = enc32 (prev.getD k none)

theorem encOf_map (prev : Array (Option Nat)) : EncOf (prev.map enc32) prev := by
  intro k
  simp only [Array.getD_eq_getD_getElem?, Array.getElem?_map]
  cases prev[k]? <;> rfl

theorem dpCell32_eq (I : Inst) (c : Nat) (prev32 : Array Nat) (idx t : Nat) (ht : t < I.ntrans)
    (henc : EncOf prev32 (prevOf I c)) (hb : ubUpTo I c < INF32) :
    dpCell32 I c prev32 idx t = enc32 (dpCell I c (prevOf I c) idx t) := by
  have hcol : colG I c + colW I c < INF32 := by
    have := col_le_ubUpTo I c; omega
  have hfin : ∀ j ∈ List.range I.ntrans, ∀ x, termO I c (prevOf I c) idx t j = some x → x ≤ INF32 := by
    intro j hj x hx
    have := (values_bounded I c).1 idx t j x ht (List.mem_range.mp hj) hx
    omega
  rw [dpCell_eq_terms I c _ idx t ht, ← minNat_enc _ _ hfin]
  unfold dpCell32
  simp only
  rw [colCost32_eq I c t _ hcol]
  -- the value of one iteration
  have hval : ∀ j ∈ List.range I.ntrans,
      (let pc := if c = 0 then 0 else prev32.getD (idx % 2 ^ (I.sharedAt (c - 1)).length * I.ntrans + j) INF32
       let val := if enc32 (colCost I c (bitsOf (I.activeAt c).length idx) t) < INF32 ∧ pc < INF32
         then wrap32 (enc32 (colCost I c (bitsOf (I.activeAt c).length idx) t) + pc) else INF32
       if val < INF32 then wrap32 (val + popcount (t ^^^ j) * I.recombAt c) else val)
      = enc32 (termO I c (prevOf I c) idx t j) := by
    intro j hj
    have hjlt := List.mem_range.mp hj
    have hpc : (if c = 0 then 0 else prev32.getD (idx % 2 ^ (I.sharedAt (c - 1)).length * I.ntrans + j) INF32)
        = enc32 (prevTerm I c (prevOf I c) idx j) := by
      unfold prevTerm
      by_cases h0 : c = 0
      · simp [h0, enc32]
      · rw [if_neg h0, if_neg h0, henc]
    simp only [hpc]
    have hbound := (values_bounded I c).1 idx t j
    unfold termO at hbound ⊢
    cases hcur : colCost I c (bitsOf (I.activeAt c).length idx) t with
    | none => simp [enc32, cadd]
    | some a =>
      cases hp : prevTerm I c (prevOf I c) idx j with
      | none => simp [enc32, cadd]
      | some p =>
        have hx := hbound (a + p + popcount (t ^^^ j) * I.recombAt c) ht hjlt (by simp [hcur, hp, cadd])
        have h1 : a < INF32 := by omega
        have h2 : p < INF32 := by omega
        have h3 : a + p < INF32 := by omega
        simp only [enc32, Option.getD_some, cadd, h1, h2, and_self, if_true, wrap32_of_lt _ h3, h3]
        exact wrap32_of_lt _ (by omega)
  have hfold : ∀ (l : List Nat) (b : Nat), (∀ j ∈ l, j ∈ List.range I.ntrans) →
      l.foldl (fun mn j =>
        let pc := if c = 0 then 0 else prev32.getD (idx % 2 ^ (I.sharedAt (c - 1)).length * I.ntrans + j) INF32
        let val := if enc32 (colCost I c (bitsOf (I.activeAt c).length idx) t) < INF32 ∧ pc < INF32
          then wrap32 (enc32 (colCost I c (bitsOf (I.activeAt c).length idx) t) + pc) else INF32
        let val := if val < INF32 then wrap32 (val + popcount (t ^^^ j) * I.recombAt c) else val
        if val < mn then val else mn) b
      = l.foldl (fun mn j => if enc32 (termO I c (prevOf I c) idx t j) < mn
          then enc32 (termO I c (prevOf I c) idx t j) else mn) b := by
    intro l
    induction l with
    | nil => intro b _; rfl
    | cons a l ih =>
      intro b hl
      simp only [List.foldl_cons]
      have := hval a (hl a List.mem_cons_self)
      simp only at this
      rw [this]
      exact ih _ (fun j hj => hl j (List.mem_cons_of_mem _ hj))
  rw [hfold _ _ (fun _ h => h), foldl_lt_eq_min _ _ _ (Nat.le_refl _)]
  exact Nat.min_eq_right (minNat_le _ _)

theorem projTable32_size (I : Inst) (c : Nat) (prev : Array Nat) :
    (projTable32 I c prev).size = 2 ^ (I.sharedAt c).length * I.ntrans := by
  unfold projTable32
  simp only
  rw [foldl_modify32_size]
  simp

theorem projTable_size' (I : Inst) (c : Nat) (prev : Array (Option Nat)) :
    (projTable I c prev).size = 2 ^ (I.sharedAt c).length * I.ntrans := by
  unfold projTable bucketMin
  simp only
  rw [foldl_modify_size]
  simp

theorem projTable32_eq (I : Inst) (c : Nat) (prev32 : Array Nat) (henc : EncOf prev32 (prevOf I c))
    (hb : ubUpTo I c < INF32) : projTable32 I c prev32 = (tableAt I c).map enc32 := by
  rw [tableAt_eq_proj]
  apply Array.ext
  · rw [projTable32_size, Array.size_map, projTable_size']
  · intro k hk1 hk2
    have hk : k < 2 ^ (I.sharedAt c).length * I.ntrans := by rw [projTable32_size] at hk1; exact hk1
    have hkp : k < (projTable I c (prevOf I c)).size := by rw [projTable_size']; exact hk
    have e1 : (projTable32 I c prev32)[k] = (projTable32 I c prev32).getD k INF32 := by
      rw [Array.getD_eq_getD_getElem?, Array.getElem?_eq_getElem hk1]; rfl
    have e2 : ((projTable I c (prevOf I c)).map enc32)[k] = enc32 ((projTable I c (prevOf I c)).getD k none) := by
      rw [Array.getElem_map, Array.getD_eq_getD_getElem?, Array.getElem?_eq_getElem hkp]; rfl
    rw [e1, e2]
    unfold projTable32 projTable
    simp only
    have h0 : (Array.replicate (2 ^ (I.sharedAt c).length * I.ntrans) INF32).getD k INF32 = INF32 := by
      simp [Array.getD_eq_getD_getElem?, hk]
    rw [foldl_bucket32 (pairs (2 ^ (I.activeAt c).length) I.ntrans)
        (fun it : Nat × Nat => natOfBits (fwdBits I c (bitsOf (I.activeAt c).length it.1)) * I.ntrans + it.2)
        (fun it : Nat × Nat => dpCell32 I c prev32 it.1 it.2) _ k (by simpa using hk)
        (by rw [h0]; exact Nat.le_refl _),
      h0, bucketMin_getD _ _ _ _ _ hk]
    have hcongr : minNat ((pairs (2 ^ (I.activeAt c).length) I.ntrans).filter
          (fun it => natOfBits (fwdBits I c (bitsOf (I.activeAt c).length it.1)) * I.ntrans + it.2 == k))
          (fun it => dpCell32 I c prev32 it.1 it.2)
        = minNat ((pairs (2 ^ (I.activeAt c).length) I.ntrans).filter
          (fun it => natOfBits (fwdBits I c (bitsOf (I.activeAt c).length it.1)) * I.ntrans + it.2 == k))
          (fun it => enc32 (dpCell I c (prevOf I c) it.1 it.2)) := by
      apply minNat_congr
      rintro ⟨i, t⟩ hit
      have := (mem_pairs _ _ _ _).mp (List.mem_filter.mp hit).1
      exact dpCell32_eq I c prev32 i t this.2 henc hb
    rw [hcongr, minNat_enc]
    · exact Nat.min_eq_right (enc32_le _ (minOver_le_INF _ _ (by
        rintro ⟨i, t⟩ hit x hx
        have := (mem_pairs _ _ _ _).mp (List.mem_filter.mp hit).1
        have := dpCell_bounded I c i t x this.2 hx
        omega)))
    · rintro ⟨i, t⟩ hit x hx
      have := (mem_pairs _ _ _ _).mp (List.mem_filter.mp hit).1
      have := dpCell_bounded I c i t x this.2 hx
      omega

/-- projection column handed to column `c` in the 32-bit DP -/
def prevOf32 (I : Inst) (c : Nat) : Array Nat := if c = 0 then #[] else tableAt32 I (c - 1)

theorem tableAt32_eq (I : Inst) (hb : ubAll I < INF32) : ∀ c, c < I.ncols → tableAt32 I c = (tableAt I c).map enc32 := by
  intro c
  induction c with
  | zero =>
    intro hc
    have h0 := ubUpTo_le_all I 0 hc
    simp only [tableAt32]
    apply projTable32_eq I 0 #[] _ (by omega)
    intro k
    simp [prevOf, enc32, Array.getD_eq_getD_getElem?]
  | succ c ih =>
    intro hc
    have h0 := ubUpTo_le_all I (c + 1) hc
    simp only [tableAt32]
    rw [ih (by omega)]
    apply projTable32_eq I (c + 1) _ _ (by omega)
    have : prevOf I (c + 1) = tableAt I c := by simp [prevOf]
    rw [this]
    exact encOf_map _

/-- **No overflow.**  If the sum of all read weights, of the largest genotype cost of every individual in every
column and of two recombinations per trio and column stays below `UINT_MAX`, then the DP computed with
wrap-around `unsigned int` arithmetic and `UINT_MAX` as infinity returns the value of the unbounded DP. -/
theorem dpCost32_eq (I : Inst) (hb : ubAll I < INF32) : dpCost32 I = enc32 (dpCost I) := by
  unfold dpCost32 dpCost
  by_cases h0 : I.ncols = 0
  · simp [h0, enc32]
  · rw [if_neg h0, if_neg h0]
    simp only
    have hub := ubUpTo_le_all I (I.ncols - 1) (by omega)
    have henc : EncOf (if I.ncols - 1 = 0 then #[] else tableAt32 I (I.ncols - 1 - 1)) (prevOf I (I.ncols - 1)) := by
      unfold prevOf
      by_cases h1 : I.ncols - 1 = 0
      · rw [if_pos h1, if_pos h1]
        intro k
        simp [enc32, Array.getD_eq_getD_getElem?]
      · rw [if_neg h1, if_neg h1, tableAt32_eq I hb _ (by omega)]
        exact encOf_map _
    have hfold : ∀ (l : List (Nat × Nat)) (b : Nat), (∀ it ∈ l, it.2 < I.ntrans) →
        l.foldl (fun best it =>
          let v := dpCell32 I (I.ncols - 1) (if I.ncols - 1 = 0 then #[] else tableAt32 I (I.ncols - 1 - 1)) it.1 it.2
          if v < best then v else best) b
        = l.foldl (fun best it => if enc32 (dpCell I (I.ncols - 1) (prevOf I (I.ncols - 1)) it.1 it.2) < best
            then enc32 (dpCell I (I.ncols - 1) (prevOf I (I.ncols - 1)) it.1 it.2) else best) b := by
      intro l
      induction l with
      | nil => intro b _; rfl
      | cons a l ih =>
        intro b hl
        simp only [List.foldl_cons]
        rw [dpCell32_eq I (I.ncols - 1) _ a.1 a.2 (hl a List.mem_cons_self) henc (by omega)]
        exact ih _ (fun it hit => hl it (List.mem_cons_of_mem _ hit))
    rw [hfold _ _ (fun it hit => by
      obtain ⟨i, t⟩ := it
      exact ((mem_pairs _ _ _ _).mp hit).2)]
    rw [foldl_lt_eq_min _ _ _ (Nat.le_refl _), Nat.min_eq_right (minNat_le _ _)]
    have hfin : ∀ it ∈ pairs (2 ^ (I.activeAt (I.ncols - 1)).length) I.ntrans, ∀ x,
        dpCell I (I.ncols - 1) (prevOf I (I.ncols - 1)) it.1 it.2 = some x → x ≤ INF32 := by
      rintro ⟨i, t⟩ hit x hx
      have := dpCell_bounded I (I.ncols - 1) i t x ((mem_pairs _ _ _ _).mp hit).2 hx
      omega
    rw [minNat_enc _ _ hfin]
    rfl

/-- the optimum itself is below the bound -/
theorem dpCost_bounded (I : Inst) (v : Nat) (h : dpCost I = some v) : v ≤ ubAll I := by
  by_cases h0 : I.ncols = 0
  · simp [dpCost, h0] at h
    subst h; exact Nat.zero_le _
  · rw [dpCost_eq I h0] at h
    rcases (minOver_isMin _ _).att with e | ⟨it, hit, e⟩
    · rw [e] at h; cases h
    · rw [h] at e
      obtain ⟨i, t⟩ := it
      have := dpCell_bounded I (I.ncols - 1) i t v ((mem_pairs _ _ _ _).mp hit).2 e
      have := ubUpTo_le_all I (I.ncols - 1) (by omega)
      omega

/-- the exception of `compute_column`, below the bound: some column admits no allele assignment under any
transmission value -/
theorem throws32_iff (I : Inst) (hb : ubAll I < INF32) :
    throws32 I = true ↔ ∃ c, c < I.ncols ∧ ∀ t, t < I.ntrans → assignments I c t = [] := by
  unfold throws32
  simp only [List.any_eq_true, List.all_eq_true, List.mem_range, beq_iff_eq]
  have hiff : ∀ c, c < I.ncols → ∀ bs t, colCost32 I c bs t = INF32 ↔ assignments I c t = [] := by
    intro c hc bs t
    have hub := ubUpTo_le_all I c hc
    have hcol := col_le_ubUpTo I c
    rw [colCost32_eq I c t bs (by omega)]
    constructor
    · intro h
      cases hcc : colCost I c bs t with
      | some v =>
        rw [hcc] at h
        have := colCost_le I c t bs v hcc
        simp [enc32] at h
        omega
      | none =>
        unfold colCost at hcc
        cases ha : assignments I c t with
        | nil => rfl
        | cons a l =>
          exfalso
          have := (minOver_isMin (assignments I c t) (fun ag => some (ag.2 + viewCost I c t ag.1 bs))).lb a
            (by rw [ha]; exact List.mem_cons_self)
          rw [hcc] at this
          simp [cle] at this
    · intro h
      simp [colCost, h, enc32]
  constructor
  · rintro ⟨c, hc, idx, _, hall⟩
    exact ⟨c, hc, fun t ht => (hiff c hc _ t).mp (hall t ht)⟩
  · rintro ⟨c, hc, hall⟩
    exact ⟨c, hc, 0, Nat.pow_pos (by omega), fun t ht => (hiff c hc _ t).mpr (hall t ht)⟩

end WhVerif.C01

import WhVerif.Lemmas.C11Relabel
import WhVerif.Lemmas.C11Geno
/-!
# C11: the polyploid branch of `compare_block` does not depend on the order the haplotypes are listed in

Cost regimes in which the optimal cost determines the `(switches, flips)` pair (`Determined`), bounds on the counts,
invariance of every ingredient of `compareBlock`'s polyploid branch (`polyBlock`) under `relabelHaps`.
-/
namespace WhVerif.C11

/-! ### bounds on the counts -/

theorem numFlips_le (π c0 c1 : List Nat) : numFlips π c0 c1 ≤ π.length := by
  simp only [numFlips]
  refine Nat.le_trans (List.length_filter_le _ _) ?_
  simp only [List.length_zip]
  exact Nat.min_le_left _ _

theorem hamming_le (a b : List Nat) : hamming a b ≤ a.length := by
  induction a generalizing b with
  | nil => simp [hamming]
  | cons x a ih =>
    cases b with
    | nil => simp [hamming]
    | cons y b =>
      have := ih b
      simp only [hamming, List.length_cons]
      split <;> omega

theorem seqFlips_le (p : Nat) (s : List Perm) (cols : List (List Nat × List Nat)) (h : ∀ r ∈ s, r.length = p) :
    Spec.seqFlips s cols ≤ p * cols.length := by
  induction s generalizing cols with
  | nil => cases cols <;> simp [Spec.seqFlips]
  | cons a s ih =>
    cases cols with
    | nil => simp [Spec.seqFlips]
    | cons c cs =>
      obtain ⟨c0, c1⟩ := c
      have h1 := ih cs (fun r hr => h r (List.mem_cons_of_mem _ hr))
      have h2 := numFlips_le a c0 c1
      rw [h a List.mem_cons_self] at h2
      simp only [Spec.seqFlips, List.length_cons, Nat.mul_succ]
      omega

theorem seqSwitches_le (p : Nat) (s : List Perm) (h : ∀ r ∈ s, r.length = p) :
    Spec.seqSwitches s ≤ p * s.length := by
  induction s with
  | nil => simp [Spec.seqSwitches]
  | cons a s ih =>
    cases s with
    | nil => simp [Spec.seqSwitches]
    | cons b s =>
      have h1 := ih (fun r hr => h r (List.mem_cons_of_mem _ hr))
      have h2 := hamming_le a b
      rw [h a List.mem_cons_self] at h2
      simp only [Spec.seqSwitches, List.length_cons, Nat.mul_succ] at h1 ⊢
      omega

/-! ### cost regimes in which the cost determines the pair -/

/-- on pairs with both counts `≤ B` the objective `sc·s + fc·f` is injective -/
def Determined (sc fc B : Nat) : Prop :=
  ∀ s f s' f', s ≤ B → f ≤ B → s' ≤ B → f' ≤ B → sc * s + fc * f = sc * s' + fc * f' → s = s' ∧ f = f'

theorem divmod_unique (k q a q' a' : Nat) (ha : a < k) (ha' : a' < k) (h : k * q + a = k * q' + a') :
    q = q' ∧ a = a' := by
  have h1 : (k * q + a) % k = a := by rw [Nat.mul_add_mod]; exact Nat.mod_eq_of_lt ha
  have h2 : (k * q' + a') % k = a' := by rw [Nat.mul_add_mod]; exact Nat.mod_eq_of_lt ha'
  have hk : 0 < k := by omega
  have h3 : (k * q + a) / k = q := by rw [Nat.mul_add_div hk, Nat.div_eq_of_lt ha]; rfl
  have h4 : (k * q' + a') / k = q' := by rw [Nat.mul_add_div hk, Nat.div_eq_of_lt ha']; rfl
  rw [h] at h1 h3
  exact ⟨by rw [← h3, h4], by rw [← h1, h2]⟩

/-- the repaired decomposition costs `k`, `k + 1`: lexicographically (switches + flips, flips) -/
theorem determined_lex (k B : Nat) (hB : B < k) : Determined k (k + 1) B := by
  intro s f s' f' _ hf _ hf' h
  have h' : k * (s + f) + f = k * (s' + f') + f' := by
    simp only [Nat.mul_add, Nat.add_mul, Nat.one_mul] at h ⊢; omega
  obtain ⟨h1, h2⟩ := divmod_unique k (s + f) f (s' + f') f' (by omega) (by omega) h'
  omega

/-- the switch-error costs `1`, `F` with a prohibitive `F` -/
theorem determined_prohibitive (F B : Nat) (hB : B < F) : Determined 1 F B := by
  intro s f s' f' hs _ hs' _ h
  have h' : F * f + s = F * f' + s' := by omega
  obtain ⟨h1, h2⟩ := divmod_unique F f s f' s' (by omega) (by omega) h'
  exact ⟨h2, h1⟩

/-- counts of a reported pair are bounded by `ploidy × positions` -/
theorem polyCompare_admissible_bounds (p sc fc : Nat) (cols : List (List Nat × List Nat)) :
    ∀ sf ∈ (polyCompare true p sc fc cols).admissible, sf.1 ≤ p * cols.length ∧ sf.2 ≤ p * cols.length := by
  intro sf hsf
  obtain ⟨s, hs, h1, h2⟩ := polyCompare_admissible_realised true p sc fc cols (Or.inl rfl) sf hsf
  obtain ⟨hl, hall⟩ := (mem_seqs _ _ _).1 hs
  have hlen : ∀ r ∈ s, r.length = p := fun r hr => perms_length p r (hall r hr)
  constructor
  · rw [← h1, ← hl]; exact seqSwitches_le p s hlen
  · rw [← h2]; exact seqFlips_le p s cols hlen

/-- in a determined regime all admissible pairs coincide with the representative -/
theorem polyCompare_admissible_unique (p sc fc : Nat) (cols : List (List Nat × List Nat))
    (hd : Determined sc fc (p * cols.length)) :
    ∀ sf ∈ (polyCompare true p sc fc cols).admissible, sf = (polyCompare true p sc fc cols).rep := by
  intro sf hsf
  have hrep := polyCompare_rep_admissible true p sc fc (perms_ne_nil p) cols
  have c1 := polyCompare_admissible_cost true p sc fc cols (Or.inl rfl) sf hsf
  have c2 := polyCompare_admissible_cost true p sc fc cols (Or.inl rfl) _ hrep
  obtain ⟨b1, b2⟩ := polyCompare_admissible_bounds p sc fc cols sf hsf
  obtain ⟨b3, b4⟩ := polyCompare_admissible_bounds p sc fc cols _ hrep
  obtain ⟨e1, e2⟩ := hd _ _ _ _ b1 b2 b3 b4 (c1.trans c2.symm)
  exact Prod.ext e1 e2

/-- in a determined regime two instances of the same size and the same optimal cost report the same pair -/
theorem polyCompare_rep_eq_of_cost_eq (p sc fc : Nat) (cols cols' : List (List Nat × List Nat))
    (hlen : cols'.length = cols.length) (hd : Determined sc fc (p * cols.length))
    (hc : (polyCompare true p sc fc cols').cost = (polyCompare true p sc fc cols).cost) :
    (polyCompare true p sc fc cols').rep = (polyCompare true p sc fc cols).rep := by
  have r1 := polyCompare_rep_admissible true p sc fc (perms_ne_nil p) cols
  have r2 := polyCompare_rep_admissible true p sc fc (perms_ne_nil p) cols'
  have c1 := polyCompare_admissible_cost true p sc fc cols (Or.inl rfl) _ r1
  have c2 := polyCompare_admissible_cost true p sc fc cols' (Or.inl rfl) _ r2
  obtain ⟨b1, b2⟩ := polyCompare_admissible_bounds p sc fc cols _ r1
  obtain ⟨b3, b4⟩ := polyCompare_admissible_bounds p sc fc cols' _ r2
  rw [hlen] at b3 b4
  obtain ⟨e1, e2⟩ := hd _ _ _ _ b3 b4 b1 b2 (by rw [c2, c1, hc])
  exact Prod.ext e1 e2

/-! ### columns of a relabelled phasing -/

theorem column_relabelHaps (τ : Perm) (ph : List Hap) (i : Nat) :
    column (relabelHaps τ ph) i = relabel τ (column ph i) := by
  simp only [column, relabelHaps, relabel, List.map_map]
  apply List.map_congr_left
  intro k _
  simp only [Function.comp, List.getD_eq_getElem?_getD, List.getElem?_map]
  cases ph[k]? <;> simp

theorem polyCols_relabel_left (τ : Perm) (ph0 ph1 : List Hap) (n : Nat) :
    polyCols (relabelHaps τ ph0) ph1 n = (polyCols ph0 ph1 n).map fun c => (relabel τ c.1, c.2) := by
  simp [polyCols, List.map_map, Function.comp_def, column_relabelHaps]

theorem polyCols_relabel_right (υ : Perm) (ph0 ph1 : List Hap) (n : Nat) :
    polyCols ph0 (relabelHaps υ ph1) n = (polyCols ph0 ph1 n).map fun c => (c.1, relabel υ c.2) := by
  simp [polyCols, List.map_map, Function.comp_def, column_relabelHaps]

theorem relabelHaps_length (τ : Perm) (ph : List Hap) : (relabelHaps τ ph).length = τ.length := by
  simp [relabelHaps]

/-- relabelling by `τ` and then by its inverse gives the phasing back -/
theorem relabelHaps_inv {p : Nat} {τ ι : Perm} (h : IsInv p τ ι) (ph : List Hap) (hl : ph.length = p) :
    relabelHaps ι (relabelHaps τ ph) = ph := by
  obtain ⟨h1, h2, h3⟩ := h
  apply List.ext_getElem
  · simp [relabelHaps, h2, hl]
  · intro x hx1 hx2
    have hxp : x < p := by rw [← hl]; exact hx2
    obtain ⟨h4, h5, _, _⟩ := h3 x hxp
    simp only [relabelHaps, List.getElem_map]
    have e1 : ι[x]'(by omega) = ι.getD x 0 := by
      simp [List.getD_eq_getElem?_getD, List.getElem?_eq_getElem (show x < ι.length by omega)]
    rw [e1, getD_map_lt τ _ _ 0 [] (by omega), h5]
    simp [List.getD_eq_getElem?_getD, List.getElem?_eq_getElem hx2]

theorem polyCols_length (ph0 ph1 : List Hap) (n : Nat) : (polyCols ph0 ph1 n).length = n := by
  simp [polyCols]

/-! ### the calculator's cost under relabelling -/

theorem cost_left_le (p sc fc : Nat) (τ ι : Perm) (hι : ι ∈ perms p) (hinv : IsInv p τ ι)
    (ph0 ph1 : List Hap) (n : Nat) :
    (polyCompare true p sc fc (polyCols (relabelHaps τ ph0) ph1 n)).cost
      ≤ (polyCompare true p sc fc (polyCols ph0 ph1 n)).cost := by
  rw [polyCompare_cost_eq_bruteValue true p sc fc, polyCompare_cost_eq_bruteValue true p sc fc,
    polyCols_relabel_left]
  apply bruteValue_transport_le (perms p) (perms_ne_nil p) sc fc (fun σ => relabel σ ι)
  · intro σ hσ; exact perms_comp p σ hσ ι hι
  · intro a ha b hb
    exact hamming_relabel_left p τ ι a b hinv (perms_entries_lt p a ha) (perms_entries_lt p b hb)
  · intro σ hσ c _
    exact numFlips_relabel_left p τ ι σ c.1 c.2 hinv (perms_entries_lt p σ hσ)

theorem cost_left_eq (p sc fc : Nat) (τ : Perm) (hτ : τ ∈ perms p)
    (ph0 ph1 : List Hap) (n : Nat) (hl : ph0.length = p) :
    (polyCompare true p sc fc (polyCols (relabelHaps τ ph0) ph1 n)).cost
      = (polyCompare true p sc fc (polyCols ph0 ph1 n)).cost := by
  obtain ⟨ι, hι, hinv⟩ := perms_inverse p τ hτ
  apply Nat.le_antisymm (cost_left_le p sc fc τ ι hι hinv ph0 ph1 n)
  have := cost_left_le p sc fc ι τ hτ hinv.symm (relabelHaps τ ph0) ph1 n
  rwa [relabelHaps_inv hinv ph0 hl] at this

theorem column_length (ph : List Hap) (i : Nat) : (column ph i).length = ph.length := by simp [column]

theorem cost_right_le (p sc fc : Nat) (υ : Perm) (hυ : υ ∈ perms p)
    (ph0 ph1 : List Hap) (n : Nat) (hl : ph1.length = p) :
    (polyCompare true p sc fc (polyCols ph0 (relabelHaps υ ph1) n)).cost
      ≤ (polyCompare true p sc fc (polyCols ph0 ph1 n)).cost := by
  rw [polyCompare_cost_eq_bruteValue true p sc fc, polyCompare_cost_eq_bruteValue true p sc fc,
    polyCols_relabel_right]
  apply bruteValue_transport_le (perms p) (perms_ne_nil p) sc fc (fun σ => relabel υ σ)
  · intro σ hσ; exact perms_comp p υ hυ σ hσ
  · intro a ha b hb
    exact hamming_relabel_right p υ a b (perms_perm_range p υ hυ) (perms_length p a ha) (perms_length p b hb)
  · intro σ hσ c hc
    simp only [polyCols, List.mem_map] at hc
    obtain ⟨i, _, rfl⟩ := hc
    exact numFlips_relabel_right p υ σ _ _ (perms_perm_range p υ hυ) (perms_length p σ hσ)
      (by rw [column_length, hl])

theorem cost_right_eq (p sc fc : Nat) (υ : Perm) (hυ : υ ∈ perms p)
    (ph0 ph1 : List Hap) (n : Nat) (hl : ph1.length = p) :
    (polyCompare true p sc fc (polyCols ph0 (relabelHaps υ ph1) n)).cost
      = (polyCompare true p sc fc (polyCols ph0 ph1 n)).cost := by
  obtain ⟨ι, hι, hinv⟩ := perms_inverse p υ hυ
  apply Nat.le_antisymm (cost_right_le p sc fc υ hυ ph0 ph1 n hl)
  have := cost_right_le p sc fc ι hι ph0 (relabelHaps υ ph1) n
    (by rw [relabelHaps_length]; exact perms_length p υ hυ)
  rwa [relabelHaps_inv hinv ph1 hl] at this

/-- both phasings relabelled -/
theorem cost_relabel_eq (p sc fc : Nat) (τ υ : Perm) (hτ : τ ∈ perms p) (hυ : υ ∈ perms p)
    (ph0 ph1 : List Hap) (n : Nat) (h0 : ph0.length = p) (h1 : ph1.length = p) :
    (polyCompare true p sc fc (polyCols (relabelHaps τ ph0) (relabelHaps υ ph1) n)).cost
      = (polyCompare true p sc fc (polyCols ph0 ph1 n)).cost := by
  rw [cost_left_eq p sc fc τ hτ ph0 _ n h0, cost_right_eq p sc fc υ hυ ph0 ph1 n h1]

/-- in a determined regime the reported pair does not depend on the listing order either -/
theorem rep_relabel_eq (p sc fc : Nat) (τ υ : Perm) (hτ : τ ∈ perms p) (hυ : υ ∈ perms p)
    (ph0 ph1 : List Hap) (n : Nat) (h0 : ph0.length = p) (h1 : ph1.length = p)
    (hd : Determined sc fc (p * n)) :
    (polyCompare true p sc fc (polyCols (relabelHaps τ ph0) (relabelHaps υ ph1) n)).rep
      = (polyCompare true p sc fc (polyCols ph0 ph1 n)).rep := by
  apply polyCompare_rep_eq_of_cost_eq p sc fc
  · simp [polyCols_length]
  · rw [polyCols_length]; exact hd
  · exact cost_relabel_eq p sc fc τ υ hτ hυ ph0 ph1 n h0 h1

/-! ### minimum Hamming distance -/

theorem listMin_map_le {α} (l : List α) (hne : l ≠ []) (T : α → α) (g g' : α → Nat)
    (hT : ∀ x ∈ l, T x ∈ l) (hg : ∀ x ∈ l, g' (T x) = g x) : listMin (l.map g') ≤ listMin (l.map g) := by
  have hm := listMin_mem (l := l.map g) (by simpa using hne)
  obtain ⟨x, hx, hxe⟩ := List.mem_map.1 hm
  rw [← hxe, ← hg x hx]
  exact listMin_le_of_mem (List.mem_map.2 ⟨T x, hT x hx, rfl⟩)

theorem permHamming_map_left (σ : List Nat) (g : Nat → Nat) (ph0 ph0' ph1 : List Hap)
    (h : ∀ x ∈ σ, ph0'.getD (g x) [] = ph0.getD x []) :
    permHamming ph0' ph1 (σ.map g) = permHamming ph0 ph1 σ := by
  induction σ generalizing ph1 with
  | nil => simp [permHamming]
  | cons x σ ih =>
    cases ph1 with
    | nil => simp [permHamming]
    | cons y ph1 =>
      have ih' := ih ph1 (fun z hz => h z (List.mem_cons_of_mem _ hz))
      have hx := h x List.mem_cons_self
      simp only [permHamming, List.map_cons, List.zip_cons_cons, List.sum_cons, hx] at ih' ⊢
      rw [ih']

theorem permHamming_relabel_left (p : Nat) (τ ι σ : Perm) (hinv : IsInv p τ ι) (hσ : ∀ x ∈ σ, x < p)
    (ph0 ph1 : List Hap) :
    permHamming (relabelHaps τ ph0) ph1 (relabel σ ι) = permHamming ph0 ph1 σ := by
  apply permHamming_map_left
  intro x hx
  obtain ⟨h1, h2, h3⟩ := hinv
  obtain ⟨h4, h5, _, _⟩ := h3 x (hσ x hx)
  rw [relabelHaps, getD_map_lt τ _ _ 0 [] (by omega), h5]

theorem permHamming_map_map (ι : List Nat) (f : Nat → Nat) (g : Nat → Hap) (ph0 : List Hap) :
    permHamming ph0 (ι.map g) (ι.map f) = (ι.map fun j => hamming (g j) (ph0.getD (f j) [])).sum := by
  simp [permHamming, List.zip_map', List.map_map, Function.comp_def]

theorem permHamming_relabel_right (p : Nat) (υ σ : Perm) (hυ : υ.Perm (List.range p)) (hσ : σ.length = p)
    (ph0 ph1 : List Hap) (h1 : ph1.length = p) :
    permHamming ph0 (relabelHaps υ ph1) (relabel υ σ) = permHamming ph0 ph1 σ := by
  have e : permHamming ph0 ph1 σ
      = permHamming ph0 ((List.range p).map (ph1.getD · [])) ((List.range p).map (σ.getD · 0)) := by
    conv => lhs; rw [← eq_range_map σ 0, ← eq_range_map ph1 [], hσ, h1]
  rw [e]
  simp only [relabelHaps, relabel, permHamming_map_map]
  exact (hυ.map _).sum_nat

theorem minHammingNum_left_le (p : Nat) (τ ι : Perm) (hτ : τ ∈ perms p) (hι : ι ∈ perms p)
    (hinv : IsInv p τ ι) (ph0 ph1 : List Hap) (h0 : ph0.length = p) :
    minHammingNum (relabelHaps τ ph0) ph1 ≤ minHammingNum ph0 ph1 := by
  simp only [minHammingNum, relabelHaps_length, perms_length p τ hτ, h0]
  apply listMin_map_le (perms p) (perms_ne_nil p) (fun σ => relabel σ ι)
  · intro σ hσ; exact perms_comp p σ hσ ι hι
  · intro σ hσ; exact permHamming_relabel_left p τ ι σ hinv (perms_entries_lt p σ hσ) ph0 ph1

theorem minHammingNum_left_eq (p : Nat) (τ : Perm) (hτ : τ ∈ perms p)
    (ph0 ph1 : List Hap) (h0 : ph0.length = p) :
    minHammingNum (relabelHaps τ ph0) ph1 = minHammingNum ph0 ph1 := by
  obtain ⟨ι, hι, hinv⟩ := perms_inverse p τ hτ
  apply Nat.le_antisymm (minHammingNum_left_le p τ ι hτ hι hinv ph0 ph1 h0)
  have := minHammingNum_left_le p ι τ hι hτ hinv.symm (relabelHaps τ ph0) ph1
    (by rw [relabelHaps_length]; exact perms_length p τ hτ)
  rwa [relabelHaps_inv hinv ph0 h0] at this

theorem minHammingNum_right_le (p : Nat) (υ : Perm) (hυ : υ ∈ perms p)
    (ph0 ph1 : List Hap) (h0 : ph0.length = p) (h1 : ph1.length = p) :
    minHammingNum ph0 (relabelHaps υ ph1) ≤ minHammingNum ph0 ph1 := by
  simp only [minHammingNum, h0]
  apply listMin_map_le (perms p) (perms_ne_nil p) (fun σ => relabel υ σ)
  · intro σ hσ; exact perms_comp p υ hυ σ hσ
  · intro σ hσ
    exact permHamming_relabel_right p υ σ (perms_perm_range p υ hυ) (perms_length p σ hσ) ph0 ph1 h1

theorem minHammingNum_right_eq (p : Nat) (υ : Perm) (hυ : υ ∈ perms p)
    (ph0 ph1 : List Hap) (h0 : ph0.length = p) (h1 : ph1.length = p) :
    minHammingNum ph0 (relabelHaps υ ph1) = minHammingNum ph0 ph1 := by
  obtain ⟨ι, hι, hinv⟩ := perms_inverse p υ hυ
  apply Nat.le_antisymm (minHammingNum_right_le p υ hυ ph0 ph1 h0 h1)
  have := minHammingNum_right_le p ι hι ph0 (relabelHaps υ ph1) h0
    (by rw [relabelHaps_length]; exact perms_length p υ hυ)
  rwa [relabelHaps_inv hinv ph1 h1] at this

/-! ### genotype-matching positions -/

theorem relabel_perm (p : Nat) (τ c : List Nat) (hτ : τ.Perm (List.range p)) (hc : c.length = p) :
    (relabel τ c).Perm c := by
  have := hτ.map (c.getD · 0)
  rw [← hc, eq_range_map c 0] at this
  exact this

theorem matchingPos_relabel (p : Nat) (τ υ : Perm) (hτ : τ.Perm (List.range p)) (hυ : υ.Perm (List.range p))
    (ph0 ph1 : List Hap) (n : Nat) (h0 : ph0.length = p) (h1 : ph1.length = p) :
    matchingPos (relabelHaps τ ph0) (relabelHaps υ ph1) n = matchingPos ph0 ph1 n := by
  simp only [matchingPos, column_relabelHaps]
  apply List.filter_congr
  intro i _
  have e0 := (sortNat_eq_iff_perm _ _).2 (relabel_perm p τ (column ph0 i) hτ (by rw [column_length, h0]))
  have e1 := (sortNat_eq_iff_perm _ _).2 (relabel_perm p υ (column ph1 i) hυ (by rw [column_length, h1]))
  rw [e0, e1]

theorem restrict_relabelHaps (τ : Perm) (ph : List Hap) (mp : List Nat) (hτ : ∀ x ∈ τ, x < ph.length) :
    (relabelHaps τ ph).map (restrictTo · mp) = relabelHaps τ (ph.map (restrictTo · mp)) := by
  simp only [relabelHaps, List.map_map]
  apply List.map_congr_left
  intro k hk
  simp only [Function.comp]
  rw [getD_map_lt ph _ k [] [] (hτ k hk)]

/-! ### the polyploid branch of `compare_block` -/

/-- `compareBlock` for well-formed input of ploidy `p ≠ 2` with `n` variants -/
def polyBlock (fixA fixB : Bool) (ph0 ph1 : List Hap) (p n : Nat) : Option PhasingErrors :=
  let mp := matchingPos ph0 ph1 n
  let m0 := ph0.map (restrictTo · mp)
  let m1 := ph1.map (restrictTo · mp)
  let sw := polyCompare fixA p 1 (2 * n * p + 1) (polyCols m0 m1 mp.length)
  let sf := polySwitchFlips fixA fixB ph0 ph1 p n
  if sw.rep.2 ≠ 0 then none
  else some { switches := sw.rep.1, hamming := minHammingNum ph0 ph1, sf := ⟨sf.rep.1, sf.rep.2⟩,
              diffGenotypes := n - mp.length, den := p }

theorem compareBlock_poly (fixA fixB : Bool) (ph0 ph1 : List Hap) (hw : wellFormed ph0 ph1 = true)
    (h2 : ph0.length ≠ 2) :
    compareBlock fixA fixB ph0 ph1 = polyBlock fixA fixB ph0 ph1 ph0.length (ph0.headD []).length := by
  simp [compareBlock, polyBlock, hw, h2]

/-- all haplotypes have `n` alleles and there are `p` of them -/
def Shape (p n : Nat) (ph : List Hap) : Prop := ph.length = p ∧ ∀ h ∈ ph, h.length = n

theorem wellFormed_iff (ph0 ph1 : List Hap) :
    wellFormed ph0 ph1 = true ↔
      2 ≤ ph0.length ∧ Shape ph0.length (ph0.headD []).length ph0 ∧ Shape ph0.length (ph0.headD []).length ph1 := by
  simp only [wellFormed, Bool.and_eq_true, beq_iff_eq, decide_eq_true_eq, List.all_eq_true, List.mem_append, Shape]
  constructor
  · rintro ⟨⟨h1, h2⟩, h3⟩
    exact ⟨h2, ⟨trivial, fun h hh => h3 h (Or.inl hh)⟩, ⟨h1.symm, fun h hh => h3 h (Or.inr hh)⟩⟩
  · rintro ⟨h2, ⟨_, h3⟩, ⟨h4, h5⟩⟩
    exact ⟨⟨h4.symm, h2⟩, fun h hh => hh.elim (h3 h) (h5 h)⟩

theorem Shape.relabel {p n : Nat} {ph : List Hap} (h : Shape p n ph) (τ : Perm) (hl : τ.length = p)
    (hτ : ∀ x ∈ τ, x < p) : Shape p n (relabelHaps τ ph) := by
  refine ⟨by rw [relabelHaps_length, hl], ?_⟩
  intro x hx
  simp only [relabelHaps, List.mem_map] at hx
  obtain ⟨k, hk, rfl⟩ := hx
  have hk' : k < ph.length := by rw [h.1]; exact hτ k hk
  apply h.2
  simp [List.getD_eq_getElem?_getD, List.getElem?_eq_getElem hk']

theorem Shape.head_length {p n : Nat} {ph : List Hap} (h : Shape p n ph) (hp : 1 ≤ p) :
    (ph.headD []).length = n := by
  cases ph with
  | nil => have := h.1; simp at this; omega
  | cons a t => exact h.2 a List.mem_cons_self

theorem Shape.wellFormed {p n : Nat} {ph0 ph1 : List Hap} (h0 : Shape p n ph0) (h1 : Shape p n ph1)
    (hp : 2 ≤ p) : wellFormed ph0 ph1 = true := by
  rw [wellFormed_iff, h0.1, h0.head_length (by omega)]
  exact ⟨hp, h0, h1⟩

theorem matchingPos_length_le (ph0 ph1 : List Hap) (n : Nat) : (matchingPos ph0 ph1 n).length ≤ n := by
  simp only [matchingPos]
  refine Nat.le_trans (List.length_filter_le _ _) ?_
  simp

/-- the polyploid branch as repaired (single-position and tie-breaking fixes) is invariant under listing the
haplotypes of both phasings in other orders -/
theorem polyBlock_relabel (p n : Nat) (τ υ : Perm) (hτ : τ ∈ perms p) (hυ : υ ∈ perms p)
    (ph0 ph1 : List Hap) (h0 : ph0.length = p) (h1 : ph1.length = p) :
    polyBlock true true (relabelHaps τ ph0) (relabelHaps υ ph1) p n = polyBlock true true ph0 ph1 p n := by
  have pτ := perms_perm_range p τ hτ
  have pυ := perms_perm_range p υ hυ
  have hmp := matchingPos_relabel p τ υ pτ pυ ph0 ph1 n h0 h1
  have hmh : minHammingNum (relabelHaps τ ph0) (relabelHaps υ ph1) = minHammingNum ph0 ph1 := by
    rw [minHammingNum_left_eq p τ hτ ph0 _ h0, minHammingNum_right_eq p υ hυ ph0 ph1 h0 h1]
  have hsf : (polySwitchFlips true true (relabelHaps τ ph0) (relabelHaps υ ph1) p n).rep
      = (polySwitchFlips true true ph0 ph1 p n).rep := by
    simp only [polySwitchFlips, if_true]
    exact rep_relabel_eq p _ _ τ υ hτ hυ ph0 ph1 n h0 h1 (determined_lex _ _ (by omega))
  have hsw : (polyCompare true p 1 (2 * n * p + 1)
        (polyCols ((relabelHaps τ ph0).map (restrictTo · (matchingPos ph0 ph1 n)))
          ((relabelHaps υ ph1).map (restrictTo · (matchingPos ph0 ph1 n))) (matchingPos ph0 ph1 n).length)).rep
      = (polyCompare true p 1 (2 * n * p + 1)
        (polyCols (ph0.map (restrictTo · (matchingPos ph0 ph1 n))) (ph1.map (restrictTo · (matchingPos ph0 ph1 n)))
          (matchingPos ph0 ph1 n).length)).rep := by
    rw [restrict_relabelHaps τ ph0 _ (by rw [h0]; exact perms_entries_lt p τ hτ),
      restrict_relabelHaps υ ph1 _ (by rw [h1]; exact perms_entries_lt p υ hυ)]
    apply rep_relabel_eq p _ _ τ υ hτ hυ _ _ _ (by simpa using h0) (by simpa using h1)
    apply determined_prohibitive
    have h3 := matchingPos_length_le ph0 ph1 n
    have h4 : p * (matchingPos ph0 ph1 n).length ≤ p * n := Nat.mul_le_mul_left p h3
    have h5 : 2 * n * p = p * n + p * n := by
      rw [Nat.mul_assoc, Nat.two_mul, Nat.mul_comm n p]
    omega
  simp only [polyBlock, hmp, hmh, hsf, hsw]

/-! ### the set of attainable `(switches, flips)` pairs -/

/-- `sf` is the count pair of some sequence of correspondences from `ps`, one per position of `cols` -/
def Attainable (ps : List Perm) (cols : List (List Nat × List Nat)) (sf : Nat × Nat) : Prop :=
  ∃ s ∈ Spec.seqs ps cols.length, Spec.seqSwitches s = sf.1 ∧ Spec.seqFlips s cols = sf.2

theorem attainable_transport (ps : List Perm) (T : Perm → Perm)
    (C : (List Nat × List Nat) → (List Nat × List Nat)) (cols : List (List Nat × List Nat))
    (hT : ∀ σ ∈ ps, T σ ∈ ps)
    (hH : ∀ a ∈ ps, ∀ b ∈ ps, hamming (T a) (T b) = hamming a b)
    (hF : ∀ σ ∈ ps, ∀ c ∈ cols, numFlips (T σ) (C c).1 (C c).2 = numFlips σ c.1 c.2)
    (sf : Nat × Nat) (h : Attainable ps cols sf) : Attainable ps (cols.map C) sf := by
  obtain ⟨s, hs, h1, h2⟩ := h
  obtain ⟨hl, hall⟩ := (mem_seqs _ _ _).1 hs
  obtain ⟨t1, t2, t3⟩ := seq_transport ps T C cols hT hH hF s hall
  exact ⟨s.map T, (mem_seqs _ _ _).2 ⟨by simp [hl], t1⟩, by rw [t2, h1], by rw [t3, h2]⟩

theorem attainable_left_imp (p : Nat) (τ ι : Perm) (hι : ι ∈ perms p) (hinv : IsInv p τ ι)
    (ph0 ph1 : List Hap) (n : Nat) (sf : Nat × Nat) (h : Attainable (perms p) (polyCols ph0 ph1 n) sf) :
    Attainable (perms p) (polyCols (relabelHaps τ ph0) ph1 n) sf := by
  rw [polyCols_relabel_left]
  apply attainable_transport (perms p) (fun σ => relabel σ ι) _ _ _ _ _ sf h
  · intro σ hσ; exact perms_comp p σ hσ ι hι
  · intro a ha b hb
    exact hamming_relabel_left p τ ι a b hinv (perms_entries_lt p a ha) (perms_entries_lt p b hb)
  · intro σ hσ c _
    exact numFlips_relabel_left p τ ι σ c.1 c.2 hinv (perms_entries_lt p σ hσ)

theorem attainable_right_imp (p : Nat) (υ : Perm) (hυ : υ ∈ perms p)
    (ph0 ph1 : List Hap) (n : Nat) (hl : ph1.length = p) (sf : Nat × Nat)
    (h : Attainable (perms p) (polyCols ph0 ph1 n) sf) :
    Attainable (perms p) (polyCols ph0 (relabelHaps υ ph1) n) sf := by
  rw [polyCols_relabel_right]
  apply attainable_transport (perms p) (fun σ => relabel υ σ) _ _ _ _ _ sf h
  · intro σ hσ; exact perms_comp p υ hυ σ hσ
  · intro a ha b hb
    exact hamming_relabel_right p υ a b (perms_perm_range p υ hυ) (perms_length p a ha) (perms_length p b hb)
  · intro σ hσ c hc
    simp only [polyCols, List.mem_map] at hc
    obtain ⟨i, _, rfl⟩ := hc
    exact numFlips_relabel_right p υ σ _ _ (perms_perm_range p υ hυ) (perms_length p σ hσ)
      (by rw [column_length, hl])

/-- the set of attainable pairs is the same for every listing order of either phasing -/
theorem attainable_relabel_iff (p : Nat) (τ υ : Perm) (hτ : τ ∈ perms p) (hυ : υ ∈ perms p)
    (ph0 ph1 : List Hap) (n : Nat) (h0 : ph0.length = p) (h1 : ph1.length = p) (sf : Nat × Nat) :
    Attainable (perms p) (polyCols (relabelHaps τ ph0) (relabelHaps υ ph1) n) sf
      ↔ Attainable (perms p) (polyCols ph0 ph1 n) sf := by
  obtain ⟨ι, hι, hinv⟩ := perms_inverse p τ hτ
  obtain ⟨κ, hκ, hinv'⟩ := perms_inverse p υ hυ
  have hl' : (relabelHaps υ ph1).length = p := by rw [relabelHaps_length]; exact perms_length p υ hυ
  constructor
  · intro h
    have a1 := attainable_left_imp p ι τ hτ hinv.symm (relabelHaps τ ph0) (relabelHaps υ ph1) n sf h
    rw [relabelHaps_inv hinv ph0 h0] at a1
    have a2 := attainable_right_imp p κ hκ ph0 (relabelHaps υ ph1) n hl' sf a1
    rwa [relabelHaps_inv hinv' ph1 h1] at a2
  · intro h
    exact attainable_left_imp p τ ι hι hinv ph0 (relabelHaps υ ph1) n sf
      (attainable_right_imp p υ hυ ph0 ph1 n h1 sf h)

theorem mem_polyBrute_snd (p sc fc : Nat) (cols : List (List Nat × List Nat)) (sf : Nat × Nat) :
    sf ∈ (Spec.polyBrute p sc fc cols).2 ↔
      Attainable (Spec.bijections p) cols sf ∧ sc * sf.1 + fc * sf.2 = (Spec.polyBrute p sc fc cols).1 := by
  simp only [Spec.polyBrute, Attainable, List.mem_eraseDups, List.mem_filter, List.mem_map, beq_iff_eq]
  constructor
  · rintro ⟨⟨s, hs, rfl⟩, hc⟩
    exact ⟨⟨s, hs, rfl, rfl⟩, hc⟩
  · rintro ⟨⟨s, hs, h1, h2⟩, hc⟩
    exact ⟨⟨s, hs, Prod.ext h1 h2⟩, hc⟩

theorem cost_fixA_irrelevant (fixA : Bool) (p sc fc : Nat) (cols : List (List Nat × List Nat)) :
    (polyCompare fixA p sc fc cols).cost = (polyCompare true p sc fc cols).cost := by
  cases cols with
  | nil => rfl
  | cons c rest => rfl

end WhVerif.C11

import WhVerif.Spec.C02Align
import WhVerif.Props.C06
import WhVerif.Lemmas.C02Stage
/-! Lemmas for Spec/C02Align.lean: the no-reference detector on error-free alignments of SNV haplotypes calls the
haplotype's allele at every SNV it calls, and the reader (`C06.readModel`) turns such alignments into error-free reads. -/
set_option linter.unusedSimpArgs false
set_option linter.unusedVariables false
namespace WhVerif.C02A
open WhVerif.C06 WhVerif.C02 WhVerif.C01 WhVerif.C02S

theorem errFreeAlnB_iff (base : Nat → Option Char) (query : Seq) : ∀ (c : Cigar) (rp qp : Nat),
    errFreeAlnB base query rp qp c = true ↔ ErrFreeAln base query rp qp c
  | [], _, _ => by simp [errFreeAlnB, ErrFreeAln]
  | (op, len) :: rest, rp, qp => by
    simp only [errFreeAlnB, ErrFreeAln]
    split
    · simp only [Bool.and_eq_true, List.all_eq_true, List.mem_range, beq_iff_eq, errFreeAlnB_iff base query rest]
    · split
      · exact errFreeAlnB_iff base query rest _ _
      · split
        · exact errFreeAlnB_iff base query rest _ _
        · exact errFreeAlnB_iff base query rest _ _

/-- every call `snvExpected` makes on an error-free alignment is the call at a query base that is the haplotype's base
at the variant's position -/
theorem snvExpected_errfree (base : Nat → Option Char) (query : Seq) (quals : Option (List Nat)) :
    ∀ (c : Cigar) (rp qp : Nat) (vps : List VP), SortedP vps → ErrFreeAln base query rp qp c →
      ∀ t ∈ snvExpected query quals rp qp vps c,
        ∃ p q, p ∈ vps ∧ query[q]? = base p.2.pos ∧ snvCall query quals p.1 p.2 q = some t
  | [], _, _, _, _, _ => by simp [snvExpected]
  | (op, len) :: rest, rp, qp, vps, hs, hef => by
    intro t ht
    simp only [snvExpected] at ht
    simp only [ErrFreeAln] at hef
    have hs1 : SortedP (vps.dropWhile (fun p => decide (p.2.pos < rp))) := sortedP_dropWhile vps hs _
    have hs2 : SortedP ((vps.dropWhile (fun p => decide (p.2.pos < rp))).dropWhile (fun p => decide (p.2.pos < rp + len))) :=
      sortedP_dropWhile _ hs1 _
    split at ht
    · rename_i hm
      simp only [hm, if_true] at hef
      rcases List.mem_append.1 ht with h | h
      · obtain ⟨p, hp, hc⟩ := List.mem_filterMap.1 h
        obtain ⟨hlt, hmem⟩ := mem_takeWhile_both _ _ p hp
        have hge := dropWhile_ge_sorted vps hs rp p hmem
        have hlt' : p.2.pos < rp + len := by simpa using hlt
        refine ⟨p, qp + (p.2.pos - rp), mem_dropWhile_mem _ _ _ hmem, ?_, hc⟩
        have := hef.1 (p.2.pos - rp) (by omega)
        rw [this]; congr 1; omega
      · obtain ⟨p, q, hp, h1, h2⟩ := snvExpected_errfree base query quals rest _ _ _ hs2 hef.2 t h
        exact ⟨p, q, mem_dropWhile_mem _ _ _ (mem_dropWhile_mem _ _ _ hp), h1, h2⟩
    · rename_i hm
      simp only [hm, if_false, Bool.false_eq_true] at hef
      split at ht
      · rename_i h14
        simp only [h14, if_true] at hef
        obtain ⟨p, q, hp, h1, h2⟩ := snvExpected_errfree base query quals rest _ _ _ hs1 hef t ht
        exact ⟨p, q, mem_dropWhile_mem _ _ _ hp, h1, h2⟩
      · rename_i h14
        simp only [h14, if_false, Bool.false_eq_true] at hef
        split at ht
        · rename_i h23
          simp only [h23, if_true] at hef
          obtain ⟨p, q, hp, h1, h2⟩ := snvExpected_errfree base query quals rest _ _ _ hs2 hef t ht
          exact ⟨p, q, mem_dropWhile_mem _ _ _ (mem_dropWhile_mem _ _ _ hp), h1, h2⟩
        · rename_i h23
          simp only [h23, if_false, Bool.false_eq_true] at hef
          obtain ⟨p, q, hp, h1, h2⟩ := snvExpected_errfree base query quals rest _ _ _ hs1 hef t ht
          exact ⟨p, q, mem_dropWhile_mem _ _ _ hp, h1, h2⟩

/-- positions are unique: looking a variant up by its position finds it -/
theorem find_pos_self : ∀ (vs : List Variant), vs.Pairwise (fun a b => a.pos < b.pos) → ∀ v ∈ vs,
    vs.find? (fun w => w.pos == v.pos) = some v
  | [], _, _, hv => by cases hv
  | w :: ws, hs, v, hv => by
    simp only [List.pairwise_cons] at hs
    rcases List.mem_cons.1 hv with rfl | hv
    · simp
    · have := hs.1 v hv
      have hne : (w.pos == v.pos) = false := by simp; omega
      rw [List.find?_cons, hne]
      exact find_pos_self ws hs.2 v hv

theorem alleleOf_le_one (hapAt : Nat → Nat) (s : Bool) (p : Nat) (h : hapAt p ≤ 1) : alleleOf hapAt s p ≤ 1 := by
  unfold alleleOf; split <;> omega

/-- one call: the query base is the haplotype's base at an SNV of the list ⇒ the called allele is the haplotype's, with a
positive quality -/
theorem snvCall_is_truth (R : Seq) (vs : List Variant) (hapAt : Nat → Nat) (s : Bool) (hin : SnvInput vs)
    (query : Seq) (quals : Option (List Nat)) (hq : QualsOk quals query.length) (id : Nat) (v : Variant) (hv : v ∈ vs)
    (h01 : hapAt v.pos ≤ 1) (q : Nat) (hb : query[q]? = hapBase R vs hapAt s v.pos) (t : Nat × Nat × Nat)
    (hc : snvCall query quals id v q = some t) :
    t.1 = id ∧ t.2.1 = alleleOf hapAt s v.pos ∧ 0 < t.2.2 := by
  obtain ⟨r, a, hr, ha, hne⟩ := hin.1 v hv
  obtain ⟨k, h, ql⟩ := t
  obtain ⟨rfl, rfl, hcase⟩ := WhVerif.Props.C06.snvCall_sound query quals id v q r a hr ha k h ql hc
  have hfind := find_pos_self vs hin.2 v hv
  have hle := alleleOf_le_one hapAt s v.pos h01
  unfold hapBase at hb
  rw [hfind] at hb
  simp only [hr, ha, List.head?_cons, List.headD_cons] at hb
  have hqlt : q < query.length := by
    have hsome : ∃ b, query[q]? = some b := by
      rcases hcase with ⟨_, h2⟩ | ⟨_, h2⟩
      · exact ⟨_, h2⟩
      · exact ⟨_, h2⟩
    obtain ⟨b, hb'⟩ := hsome
    rcases Nat.lt_or_ge q query.length with hlt | hge
    · exact hlt
    · rw [List.getElem?_eq_none hge] at hb'
      cases hb'
  refine ⟨rfl, ?_, ?_⟩
  · simp only
    rcases hcase with ⟨rfl, h2⟩ | ⟨rfl, h2⟩
    · by_cases h0 : alleleOf hapAt s v.pos = 0
      · exact h0.symm
      · simp only [h0, if_false] at hb
        rw [h2] at hb
        exact absurd (Option.some.inj hb) hne
    · by_cases h0 : alleleOf hapAt s v.pos = 0
      · simp only [h0, if_true] at hb
        rw [h2] at hb
        exact absurd (Option.some.inj hb).symm hne
      · omega
  · simp only
    unfold qualAt
    cases hql : quals with
    | none => simp
    | some l =>
      obtain ⟨hlen, hpos⟩ := hq l hql
      simp only
      have hql' : q < l.length := by omega
      rw [List.getD_eq_getElem?_getD, List.getElem?_eq_getElem hql']
      exact hpos _ (List.getElem_mem hql')

/-- **the detector on one error-free alignment (no reference, SNV input)**: no error, and every reported
`(variant index, allele, quality)` is an SNV of the list with the allele of the alignment's haplotype and a positive quality -/
theorem detectAln_errfree (cfg : ReadCfg) (R : Seq) (vs : List Variant) (hapAt : Nat → Nat) (s : Bool) (hin : SnvInput vs)
    (h01 : ∀ v ∈ vs, hapAt v.pos ≤ 1) (i : Nat) (a : Aln) (ha : AlnErrFree R vs hapAt s a) :
    ∃ det, detectAln cfg vs none i a = .ok det ∧
      ∀ t ∈ det, ∃ v, vs[t.1]? = some v ∧ t.2.1 = alleleOf hapAt s v.pos ∧ 0 < t.2.2 := by
  obtain ⟨cigar, query, hc, hq, hops, hlen, hquals, hef⟩ := ha
  have hdet := WhVerif.Props.C06.noref_snv_correct cfg.fx vs i a.refStart cigar query a.quals (fun v hv => hin.1 v hv) hin.2 hops hlen
    (fun l hl => (hquals l hl).1)
  unfold detectAln
  simp only [hc, hq, hdet]
  refine ⟨_, rfl, ?_⟩
  intro t ht
  obtain ⟨t0, ht0, rfl⟩ := List.mem_map.1 ht
  have hsorted : SortedP ((enumFrom 0 vs).drop i) :=
    List.Pairwise.sublist (List.drop_sublist _ _) (enumFrom_sortedP vs 0 hin.2)
  obtain ⟨p, q, hp, hb, hcall⟩ := snvExpected_errfree _ query a.quals cigar a.refStart 0 _ hsorted hef t0 ht0
  obtain ⟨id, v⟩ := p
  have hmem : (id, v) ∈ enumFrom 0 vs := (List.drop_sublist _ _).subset hp
  have hidx := ((mem_enumFrom' vs 0 id v).1 hmem).2
  simp only [Nat.sub_zero] at hidx
  have hv : v ∈ vs := List.mem_of_getElem? hidx
  obtain ⟨h1, h2, h3⟩ := snvCall_is_truth R vs hapAt s hin query a.quals hquals id v hv (h01 v hv) q hb t0 hcall
  refine ⟨v, by simp only [h1]; exact hidx, h2, ?_⟩
  simp only
  omega

/-- **the reader on error-free alignments**: `ReadSetReader.read` (no reference, SNV input) returns reads each of which is,
as the solver sees it, an error-free copy of the haplotype of its template -/
theorem readModel_errfree (cfg : ReadCfg) (sources : List Source) (sample : Option String) (R : Seq) (vs : List Variant)
    (hapAt : Nat → Nat) (hsrc : Nat × String → Bool) (hin : SnvInput vs) (h01 : ∀ v ∈ vs, hapAt v.pos ≤ 1)
    (hal : AlnsErrFree cfg sources sample R vs hapAt hsrc) (reads : List ReadOut)
    (h : readModel cfg sources sample none vs none = .ok reads) :
    ∀ r ∈ reads, RawReadOk hapAt (hsrc (r.sourceId, r.name)) (toRaw r) := by
  intro r hr
  obtain ⟨_, hprov⟩ := WhVerif.Props.C06.read_alleles_from_usable_alignments cfg sources sample none vs none reads h r hr
  refine ⟨rfl, ?_⟩
  intro w hw
  simp only [toRaw, List.mem_map] at hw
  obtain ⟨y, hy, rfl⟩ := hw
  obtain ⟨a, i, det, idx, ha, hn, hsid, hdet, hmem, hpos⟩ := hprov y hy
  obtain ⟨det', hdet', hall⟩ := detectAln_errfree cfg R vs hapAt (hsrc (a.sourceId, a.name)) hin h01 i a (hal a ha)
  rw [hdet] at hdet'
  cases hdet'
  obtain ⟨v, hv, hal', hq⟩ := hall _ hmem
  simp only at hv hal' hq
  simp only [hv, Option.map_some, Option.getD_some] at hpos
  rw [hn, hsid] at hal'
  refine ⟨?_, ?_⟩
  · show 0 < (y.2.2).toNat
    omega
  · show y.2.1 = _
    rw [hal', hpos]
    rfl

end WhVerif.C02A

import WhVerif.Model.C05Recomb
/-!
# C05, recombination cost vector: the integer stage, for every lawful arithmetic

`Model/C05Recomb.lean` is written over an abstract arithmetic `Ops α`.  Here: what holds of the resulting cost vector
whenever `<` is a strict weak order and the rounded phred value `round(centimorgen_to_phred(d))` is antitone in `d`
(`Lawful`).  IEEE doubles with the libm of this machine are not proved lawful (Lean's `Float` is opaque); the check
tests the laws on the float instance and compares the float instance with the real functions bit for bit.
-/
namespace WhVerif.C05.Recomb
variable {α : Type}

/-- `a ≤ b` of the arithmetic: `not (b < a)` -/
def Ops.le (A : Ops α) (a b : α) : Prop := A.lt b a = false

structure Lawful (A : Ops α) : Prop where
  lt_irrefl : ∀ a, A.lt a a = false
  /-- `≤` is transitive (negative transitivity of `<`) -/
  le_trans : ∀ a b c, A.le a b → A.le b c → A.le a c
  /-- `a < b → a ≤ b` -/
  lt_le : ∀ a b, A.lt a b = true → A.le a b
  /-- the rounded phred-scaled recombination probability never increases with the genetic distance -/
  phred_antitone : ∀ a b ka kb, A.le a b → A.phredRound a = .ok ka → A.phredRound b = .ok kb → kb ≤ ka

/-- additional laws of `*`, `-`, `float(int)` used for the uniform map and for "zero distance" -/
structure LawfulArith (A : Ops α) : Prop extends Lawful A where
  ofInt_mono : ∀ a b : Int, a ≤ b → A.le (A.ofInt a) (A.ofInt b)
  mul_mono : ∀ a b c, A.le (A.ofInt 0) c → A.le a b → A.le (A.mul a c) (A.mul b c)
  sub_self_lt_min : ∀ x, A.lt (A.sub x x) A.minDist = true

/-! ### shape -/

theorem mapM_ok_length {β γ} (f : β → Except String γ) : ∀ (l : List β) (r : List γ),
    l.mapM f = .ok r → r.length = l.length := by
  intro l
  induction l with
  | nil => intro r h; simp [List.mapM_nil, pure, Except.pure] at h; subst h; rfl
  | cons x xs ih =>
    intro r h
    rw [List.mapM_cons] at h
    cases hx : f x with
    | error e => simp [hx, bind, Except.bind] at h
    | ok y =>
      cases hxs : xs.mapM f with
      | error e => simp [hx, hxs, bind, Except.bind] at h
      | ok ys =>
        simp [hx, hxs, bind, Except.bind, pure, Except.pure] at h
        subst h
        simp [ih ys hxs]

theorem mapM_ok_get {β γ} (f : β → Except String γ) : ∀ (l : List β) (r : List γ),
    l.mapM f = .ok r → ∀ (i : Nat) (x : β), l[i]? = some x → ∃ y, r[i]? = some y ∧ f x = .ok y := by
  intro l
  induction l with
  | nil => intro r _ i x hx; simp at hx
  | cons a as ih =>
    intro r h i x hx
    rw [List.mapM_cons] at h
    cases ha : f a with
    | error e => simp [ha, bind, Except.bind] at h
    | ok y =>
      cases has : as.mapM f with
      | error e => simp [ha, has, bind, Except.bind] at h
      | ok ys =>
        simp [ha, has, bind, Except.bind, pure, Except.pure] at h
        subst h
        cases i with
        | zero => simp at hx; subst hx; exact ⟨y, by simp, ha⟩
        | succ n =>
          simp at hx
          obtain ⟨y', hy', hf⟩ := ih ys has n x hx
          exact ⟨y', by simpa using hy', hf⟩

theorem pairsOf_length {β} : ∀ (l : List β), (pairsOf l).length = l.length - 1
  | [] => rfl
  | [_] => rfl
  | a :: b :: rest => by
    rw [pairsOf, List.length_cons, pairsOf_length (b :: rest)]
    simp

theorem pairsOf_get {β} : ∀ (l : List β) (i : Nat) (a b : β), l[i]? = some a → l[i + 1]? = some b →
    (pairsOf l)[i]? = some (a, b)
  | [], i, a, b, h, _ => by simp at h
  | [_], i, a, b, _, h => by simp at h
  | x :: y :: rest, 0, a, b, h0, h1 => by
    simp at h0 h1; subst h0; subst h1; simp [pairsOf]
  | x :: y :: rest, i + 1, a, b, h0, h1 => by
    simp only [List.getElem?_cons_succ] at h0 h1
    rw [pairsOf, List.getElem?_cons_succ]
    exact pairsOf_get (y :: rest) i a b h0 (by simpa using h1)

theorem pairsOf_map {β γ} (g : β → γ) : ∀ (l : List β), pairsOf (l.map g) = (pairsOf l).map (fun ab => (g ab.1, g ab.2))
  | [] => rfl
  | [_] => rfl
  | a :: b :: rest => by
    have := pairsOf_map g (b :: rest)
    simp only [List.map_cons] at this ⊢
    rw [pairsOf, pairsOf, this]
    rfl

/-- result of step 2: `0` followed by one rounded phred value per consecutive pair -/
theorem costsFromCum_spec (A : Ops α) (cum : List α) (r : List Int) (h : costsFromCum A cum = .ok r) :
    r.length = max 1 cum.length ∧ r[0]? = some 0 ∧
    ∀ i a b, cum[i]? = some a → cum[i + 1]? = some b →
      ∃ k, r[i + 1]? = some k ∧ A.phredRound (clampDist A (A.sub b a)) = .ok k := by
  unfold costsFromCum at h
  cases hm : (pairsOf cum).mapM (fun ab => A.phredRound (clampDist A (A.sub ab.2 ab.1))) with
  | error e => simp [hm, bind, Except.bind] at h
  | ok rest =>
    simp [hm, bind, Except.bind, pure, Except.pure] at h
    subst h
    refine ⟨?_, by simp, ?_⟩
    · rw [List.length_cons, mapM_ok_length _ _ _ hm, pairsOf_length]; omega
    · intro i a b ha hb
      obtain ⟨k, hk, hf⟩ := mapM_ok_get _ _ _ hm i (a, b) (pairsOf_get cum i a b ha hb)
      exact ⟨k, by simpa using hk, hf⟩

theorem cumulativeDistances_go_length (A : Ops α) (gm : Array (MapEntry α)) : ∀ (ps : List Int) st (r : List α),
    cumulativeDistances.go A gm st ps = .ok r → r.length = ps.length := by
  intro ps
  induction ps with
  | nil => intro st r h; simp [cumulativeDistances.go, pure, Except.pure] at h; subst h; rfl
  | cons p ps ih =>
    intro st r h
    unfold cumulativeDistances.go at h
    cases hs : cumStep A gm st p with
    | error e => simp [hs, bind, Except.bind] at h
    | ok v =>
      cases hr : cumulativeDistances.go A gm v.1 ps with
      | error e => simp [hs, hr, bind, Except.bind] at h
      | ok rest =>
        simp [hs, hr, bind, Except.bind, pure, Except.pure] at h
        subst h
        simp [ih _ _ hr]

/-- `len(result) == max(1, len(positions))`, `result[0] == 0` (`find_recombination` asserts the length) -/
theorem recombinationCostMap_shape (A : Ops α) (gm : Array (MapEntry α)) (positions : List Int) (r : List Int)
    (h : recombinationCostMap A gm positions = .ok r) : r.length = max 1 positions.length ∧ r[0]? = some 0 := by
  unfold recombinationCostMap at h
  by_cases hz : gm.size = 0
  · simp [hz, bind, Except.bind, throw, throwThe, MonadExceptOf.throw] at h
  · cases hc : cumulativeDistances A gm positions with
    | error e => simp [hz, hc, bind, Except.bind, pure, Except.pure] at h
    | ok cum =>
      simp [hz, hc, bind, Except.bind, pure, Except.pure] at h
      obtain ⟨h1, h2, _⟩ := costsFromCum_spec A cum r h
      have : cum.length = positions.length := cumulativeDistances_go_length A gm positions _ cum hc
      exact ⟨by rw [h1, this], h2⟩

/-- the uniform map: `len == max(1, len(positions))`, `result[0] == 0`, and entry `i ≥ 1` is the rounded phred value of
`(positions[i] - positions[i-1]) * 1e-6 * recombrate` — it depends on the DIFFERENCE of the two positions only -/
theorem uniformRecombinationMap_spec (A : Ops α) (rate : α) (positions : List Int) (r : List Int)
    (h : uniformRecombinationMap A rate positions = .ok r) :
    r.length = max 1 positions.length ∧ r[0]? = some 0 ∧
    ∀ i p q, positions[i]? = some p → positions[i + 1]? = some q →
      ∃ k, r[i + 1]? = some k ∧ A.phredRound (uniformDist A rate (q - p)) = .ok k := by
  unfold uniformRecombinationMap at h
  cases hm : (pairsOf positions).mapM (fun ab => A.phredRound (uniformDist A rate (ab.2 - ab.1))) with
  | error e => simp [hm, bind, Except.bind] at h
  | ok rest =>
    simp [hm, bind, Except.bind, pure, Except.pure] at h
    subst h
    refine ⟨?_, by simp, ?_⟩
    · rw [List.length_cons, mapM_ok_length _ _ _ hm, pairsOf_length]; omega
    · intro i p q hp hq
      obtain ⟨k, hk, hf⟩ := mapM_ok_get _ _ _ hm i (p, q) (pairsOf_get positions i p q hp hq)
      exact ⟨k, by simpa using hk, hf⟩

/-- shifting all positions leaves the uniform map unchanged (exceptions included) -/
theorem uniformRecombinationMap_shift (A : Ops α) (rate : α) (positions : List Int) (s : Int) :
    uniformRecombinationMap A rate (positions.map (· + s)) = uniformRecombinationMap A rate positions := by
  unfold uniformRecombinationMap
  rw [pairsOf_map, List.mapM_map]
  have : ((fun ab : Int × Int => A.phredRound (uniformDist A rate (ab.2 - ab.1))) ∘
        (fun ab : Int × Int => (ab.1 + s, ab.2 + s)))
      = (fun ab : Int × Int => A.phredRound (uniformDist A rate (ab.2 - ab.1))) := by
    funext ab
    simp only [Function.comp]
    congr 2
    omega
  rw [this]

/-! ### the clamp and the cap -/

theorem clamp_ge_min (A : Ops α) (hA : Lawful A) (d : α) : A.le A.minDist (clampDist A d) := by
  unfold clampDist Ops.le
  by_cases h : A.lt d A.minDist = true
  · rw [if_pos h]; exact hA.lt_irrefl _
  · rw [if_neg h]; simpa using h

theorem clamp_mono (A : Ops α) (hA : Lawful A) (d d' : α) (h : A.le d d') : A.le (clampDist A d) (clampDist A d') := by
  unfold clampDist
  by_cases h1 : A.lt d A.minDist = true <;> by_cases h2 : A.lt d' A.minDist = true
  · rw [if_pos h1, if_pos h2]; exact hA.lt_irrefl _
  · rw [if_pos h1, if_neg h2]; unfold Ops.le; simpa using h2
  · rw [if_neg h1, if_pos h2]
    exact hA.le_trans _ _ _ h (hA.lt_le _ _ h2)
  · rw [if_neg h1, if_neg h2]; exact h

/-- **cap**: every entry is at most `cap = round(centimorgen_to_phred(1e-10))`; a genetic distance below the minimum
(zero or negative included) costs exactly `cap` -/
theorem clamped_cost_le_cap (A : Ops α) (hA : Lawful A) (cap : Int) (hcap : A.phredRound A.minDist = .ok cap)
    (d : α) (k : Int) (hk : A.phredRound (clampDist A d) = .ok k) :
    k ≤ cap ∧ (A.lt d A.minDist = true → k = cap) := by
  refine ⟨hA.phred_antitone _ _ _ _ (clamp_ge_min A hA d) hcap hk, ?_⟩
  intro hlt
  unfold clampDist at hk
  rw [if_pos hlt, hcap] at hk
  cases hk; rfl

/-- **monotone in the genetic distance**: a larger distance never costs more -/
theorem clamped_cost_antitone (A : Ops α) (hA : Lawful A) (d d' : α) (h : A.le d d') (k k' : Int)
    (hk : A.phredRound (clampDist A d) = .ok k) (hk' : A.phredRound (clampDist A d') = .ok k') : k' ≤ k :=
  hA.phred_antitone _ _ _ _ (clamp_mono A hA d d' h) hk hk'

/-- uniform map: a larger physical distance never costs more (non-negative rate) -/
theorem uniform_cost_antitone (A : Ops α) (hA : LawfulArith A) (rate : α) (hr : A.le (A.ofInt 0) rate)
    (hmicro : A.le (A.ofInt 0) A.micro) (d d' : Int) (h : d ≤ d') (k k' : Int)
    (hk : A.phredRound (uniformDist A rate d) = .ok k) (hk' : A.phredRound (uniformDist A rate d') = .ok k') :
    k' ≤ k := by
  apply hA.phred_antitone _ _ _ _ _ hk hk'
  unfold uniformDist
  exact hA.mul_mono _ _ _ hr (hA.mul_mono _ _ _ hmicro (hA.ofInt_mono _ _ h))

/-! ### a lawful instance (non-vacuity): integers, `cost(d) = 120 - min(d, 117)` -/

def intOps : Ops Int where
  ofInt := id
  add := (· + ·)
  sub := (· - ·)
  mul := (· * ·)
  div := (· / ·)
  lt := fun a b => decide (a < b)
  eq := fun a b => decide (a = b)
  minDist := 1
  micro := 1
  phredRound := fun d =>
    if d < 0 then .error "AssertionError" else if d = 0 then .error "ValueError" else .ok (121 - min d 118)

theorem intOps_lawful : LawfulArith intOps where
  lt_irrefl := by intro a; simp [intOps]
  le_trans := by intro a b c; simp only [Ops.le, intOps, decide_eq_false_iff_not]; omega
  lt_le := by intro a b; simp only [Ops.le, intOps, decide_eq_true_eq, decide_eq_false_iff_not]; omega
  phred_antitone := by
    intro a b ka kb hab ha hb
    simp only [Ops.le, intOps, decide_eq_false_iff_not] at hab
    simp only [intOps] at ha hb
    split at ha <;> try cases ha
    split at ha <;> try cases ha
    split at hb <;> try cases hb
    split at hb <;> try cases hb
    omega
  ofInt_mono := by intro a b h; simp only [Ops.le, intOps, decide_eq_false_iff_not, id]; omega
  mul_mono := by
    intro a b c hc hab
    simp only [Ops.le, intOps, decide_eq_false_iff_not, id] at *
    have := Int.mul_le_mul_of_nonneg_right (show a ≤ b by omega) (show 0 ≤ c by omega)
    omega
  sub_self_lt_min := by intro x; simp [intOps]

end WhVerif.C05.Recomb

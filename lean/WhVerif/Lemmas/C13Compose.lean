import WhVerif.Model.C13Bridge
import WhVerif.Lemmas.C13
import WhVerif.Lemmas.C04File
/-! Lemmas for the composition "`whatshap unphase` after `whatshap phase`" across the C04 and C13 models, and for
    `unphaseHeader`. -/
namespace WhVerif.Lemmas.C13
open WhVerif WhVerif.C13

/-! ## what the C04 writer does to a genotype, precisely enough for `PhaseOnlyEditGT` -/

/-- `a` (after) versus `b` (before): identical, or `b` fully called and `a` a permutation of it -/
def GtEdit : Option C04.Gt → Option C04.Gt → Prop
  | none, none => True
  | some a, some b => a = b ∨ (b.all Option.isSome = true ∧ a.Perm b)
  | _, _ => False

theorem GtEdit.refl (g : Option C04.Gt) : GtEdit g g := by
  cases g <;> simp [GtEdit]

theorem GtEdit.trans {a b c : Option C04.Gt} (h1 : GtEdit a b) (h2 : GtEdit b c) : GtEdit a c := by
  cases a <;> cases b <;> cases c <;> simp only [GtEdit] at h1 h2 ⊢ <;> try trivial
  rename_i a b c
  rcases h1 with rfl | ⟨hb, hab⟩
  · exact h2
  · rcases h2 with rfl | ⟨hc, hbc⟩
    · exact Or.inr ⟨hb, hab⟩
    · exact Or.inr ⟨hc, hab.trans hbc⟩

theorem unphaseGt_gtEdit (c : C04.Call) : GtEdit (C04.unphaseGt c).gt c.gt := by
  unfold C04.unphaseGt; split
  · exact GtEdit.refl _
  · rename_i g hg
    split
    · rename_i h; simp only [hg, GtEdit]; exact Or.inr ⟨h, C04.sortGt_perm h⟩
    · simp [hg, GtEdit]

theorem clearPhasing_gtEdit (cfg : C04.Cfg) (fmt : List String) (c : C04.Call) :
    GtEdit (C04.clearPhasing cfg fmt c).gt c.gt := by
  unfold C04.clearPhasing
  split
  · rw [C04.clearKey_gt, C04.clearKey_gt]; exact unphaseGt_gtEdit c
  · split
    · exact unphaseGt_gtEdit c
    · exact GtEdit.refl _

theorem updateCall_gtEdit (cfg : C04.Cfg) (t : C04.Target) (r : C04.Record) (c : C04.Call)
    (h : (C04.updateCall cfg t r c).2 = none) : GtEdit (C04.updateCall cfg t r c).1.gt c.gt := by
  rw [C04.updateCall_snd] at h
  have hgt := C04.updateCall_gt cfg t r c
  unfold C04.changeStep at h hgt
  split at h
  · rename_i p hp
    split at h
    · cases h
    · rename_i heq
      have heq : C04.sortNat p = C04.gcode c.gt := by simpa using heq
      simp only [hp] at hgt
      rcases hgt with hgt | ⟨p', hp', hgt⟩
      · simp only [heq, ne_eq, not_true_eq_false, ↓reduceIte] at hgt
        rw [hgt]; exact GtEdit.refl _
      · cases hp'
        rw [hgt]
        cases hg : c.gt with
        | none =>
          rw [hg] at heq
          exact absurd (C04.sortNat_eq_nil heq) (C04.lookupPhase_ne_nil hp)
        | some g =>
          rw [hg] at heq
          have hall : g.all Option.isSome = true := by
            cases hall : g.all Option.isSome with
            | true => rfl
            | false =>
              exfalso
              simp only [C04.gcode, hall, Bool.false_eq_true, if_false] at heq
              exact C04.lookupPhase_ne_nil hp (C04.sortNat_eq_nil heq)
          simp only [GtEdit]
          exact Or.inr ⟨hall, C04.perm_of_gcode_eq (C04.lookupPhase_ne_nil hp) heq⟩
  · rename_i hp
    simp only [hp] at hgt
    rcases hgt with hgt | ⟨p', hp', _⟩
    · rw [hgt]; exact GtEdit.refl _
    · cases hp'

/-- a call of `writeRecord`'s output without a change row: genotype edited as `GtEdit` allows -/
theorem finalCall_gtEdit (cfg : C04.Cfg) (prev : Option Nat) (r : C04.Record) (n : String) (c : C04.Call)
    (hc : C04.clookup r.calls n = some c)
    (hno : ∀ row ∈ (C04.writeRecord cfg prev r).changes, row.sample ≠ n) :
    GtEdit (C04.finalCall cfg prev r n c).gt c.gt := by
  unfold C04.finalCall
  cases hft : C04.findTarget cfg n with
  | none => exact GtEdit.refl _
  | some t =>
    simp only
    obtain ⟨hname, hmem⟩ := C04.findTarget_name hft
    split
    · rename_i hreach
      have hnone : (C04.updateCall cfg t r (C04.clearPhasing cfg r.format c)).2 = none := by
        cases hu : (C04.updateCall cfg t r (C04.clearPhasing cfg r.format c)).2 with
        | none => rfl
        | some row =>
          exfalso
          apply hno row
          · rw [C04.writeRecord_changes, if_pos hreach, List.mem_filterMap]
            exact ⟨t, hmem, by rw [hname, hc]; exact hu⟩
          · rw [(C04.updateCall_changed cfg t r _ row hu).1, hname]
      exact (updateCall_gtEdit cfg t r _ hnone).trans (clearPhasing_gtEdit cfg r.format c)
    · exact clearPhasing_gtEdit cfg r.format c

/-! ## the C04 writer's edit, seen through `ofC04`, is a phase-only edit -/

theorem allPresent_eq (g : C04.Gt) : allPresent g = g.all Option.isSome := rfl

theorem stripTags_ofC04 (fmt fmt' : List String) (c c' : C04.Call)
    (hfmt : fmt' = fmt ∨ ∃ k, isPhaseTag k = true ∧ fmt' = fmt ++ [k])
    (hget : ∀ k, k ≠ "PS" → k ≠ "HP" → c'.get k = c.get k) :
    stripTags (ofC04Call fmt' c').fields = stripTags (ofC04Call fmt c).fields := by
  have hval : ∀ k, isPhaseTag k = false → C04.renderVal (c'.get k) = C04.renderVal (c.get k) := by
    intro k hk
    have h1 : k ≠ "PS" := by intro h; subst h; simp [isPhaseTag, phaseTags] at hk
    have h2 : k ≠ "HP" := by intro h; subst h; simp [isPhaseTag, phaseTags] at hk
    rw [hget k h1 h2]
  have hkeys : (fmt'.filter (fun k => !(k = "GT"))).filter (fun k => !isPhaseTag k) =
      (fmt.filter (fun k => !(k = "GT"))).filter (fun k => !isPhaseTag k) := by
    rcases hfmt with rfl | ⟨k, hk, rfl⟩
    · rfl
    · simp [List.filter_append, hk]
  unfold stripTags ofC04Call
  simp only [List.filter_map, Function.comp_def]
  rw [hkeys]
  apply List.map_congr_left
  intro k hk
  have : isPhaseTag k = false := by
    have := (List.mem_filter.mp hk).2
    simpa using this
  rw [hval k this]

theorem tag_isPhaseTag (t : C04.Tag) : isPhaseTag t.key = true := by
  cases t <;> decide

theorem finalCall_edit (cfg : C04.Cfg) (prev : Option Nat) (r : C04.Record) (n : String) (c : C04.Call)
    (hc : C04.clookup r.calls n = some c)
    (hno : ∀ row ∈ (C04.writeRecord cfg prev r).changes, row.sample ≠ n) :
    PhaseOnlyEditCall (ofC04Call r.format c)
      (ofC04Call (C04.writeRecord cfg prev r).record.format (C04.finalCall cfg prev r n c)) := by
  constructor
  · apply stripTags_ofC04
    · rw [C04.writeRecord_format]
      split
      · unfold C04.addKey; split
        · exact Or.inl rfl
        · exact Or.inr ⟨cfg.tag.key, tag_isPhaseTag cfg.tag, rfl⟩
      · exact Or.inl rfl
    · intro k h1 h2
      unfold C04.finalCall
      have hkt : k ≠ cfg.tag.key := by cases cfg.tag <;> simpa [C04.Tag.key]
      split
      · split
        · rw [C04.updateCall_get_other _ _ _ _ _ hkt, C04.clearPhasing_get_other _ _ _ _ h1 h2]
        · exact C04.clearPhasing_get_other _ _ _ _ h1 h2
      · rfl
  · have hg := finalCall_gtEdit cfg prev r n c hc hno
    simp only [ofC04Call]
    cases h1 : c.gt <;> cases h2 : (C04.finalCall cfg prev r n c).gt <;> rw [h1, h2] at hg <;>
      simp only [GtEdit] at hg <;> simp only [Option.map_some, Option.map_none]
    · rename_i g g'
      simp only [PhaseOnlyEditGT]
      rcases hg with rfl | ⟨hall, hp⟩
      · exact Or.inl rfl
      · exact Or.inr ⟨hall, hp⟩

/-! ## `PhaseOnlyEdit` over lists -/

theorem PhaseOnlyEdit_append {v₁ v₁' v₂ v₂' : List Record} (h1 : PhaseOnlyEdit v₁ v₁') (h2 : PhaseOnlyEdit v₂ v₂') :
    PhaseOnlyEdit (v₁ ++ v₂) (v₁' ++ v₂') := by
  induction v₁ generalizing v₁' with
  | nil => cases v₁' with
    | nil => exact h2
    | cons _ _ => simp [PhaseOnlyEdit] at h1
  | cons r v ih => cases v₁' with
    | nil => simp [PhaseOnlyEdit] at h1
    | cons r' v' =>
      simp only [PhaseOnlyEdit, List.cons_append] at h1 ⊢
      exact ⟨h1.1, h1.2.1, ih h1.2.2⟩

/-! ## header -/

theorem mem_removePhaseFormats {h : List C04.HLine} {l : C04.HLine} :
    l ∈ removePhaseFormats h ↔ l ∈ h ∧ isPhaseFormat l = false := by
  simp [removePhaseFormats, List.mem_filter]

theorem removePhaseFormats_idem (h : List C04.HLine) : removePhaseFormats (removePhaseFormats h) = removePhaseFormats h := by
  simp [removePhaseFormats, List.filter_filter]

theorem removeFirstPhasing_of_none {h : List C04.HLine} (hn : ∀ l ∈ h, l.key ≠ "phasing") : C04.removeFirstPhasing h = h := by
  induction h with
  | nil => rfl
  | cons a r ih =>
    have ha : a.key ≠ "phasing" := hn a List.mem_cons_self
    simp only [C04.removeFirstPhasing, ha, if_false]
    rw [ih (fun l hl => hn l (List.mem_cons_of_mem _ hl))]

theorem removeFirstPhasing_filter_comm (h : List C04.HLine) :
    C04.removeFirstPhasing (removePhaseFormats h) = removePhaseFormats (C04.removeFirstPhasing h) := by
  induction h with
  | nil => rfl
  | cons a r ih =>
    by_cases ha : a.key = "phasing"
    · have hpf : isPhaseFormat a = false := by simp [isPhaseFormat, ha]
      simp [removePhaseFormats, C04.removeFirstPhasing, ha, hpf]
    · by_cases hpf : isPhaseFormat a = true
      · simp only [removePhaseFormats, List.filter_cons, hpf, Bool.not_true, Bool.false_eq_true, if_false,
          C04.removeFirstPhasing, ha]
        exact ih
      · have hpf' : isPhaseFormat a = false := by simpa using hpf
        simp only [removePhaseFormats, List.filter_cons, hpf', Bool.not_false, if_true, C04.removeFirstPhasing, ha,
          if_false, List.cons.injEq, true_and]
        exact ih

/-! ## records, blocks, file -/

theorem clookup_of_mem_nodup {l : List (String × C04.Call)} (hnd : (l.map (·.1)).Nodup) {nc : String × C04.Call}
    (h : nc ∈ l) : C04.clookup l nc.1 = some nc.2 := by
  induction l with
  | nil => cases h
  | cons a r ih =>
    obtain ⟨k, v⟩ := a
    simp only [List.map_cons, List.nodup_cons] at hnd
    rcases List.mem_cons.mp h with rfl | h
    · simp [C04.clookup]
    · have hne : k ≠ nc.1 := by
        intro he
        apply hnd.1
        rw [he]
        exact List.mem_map.mpr ⟨nc, h, rfl⟩
      simp only [C04.clookup, hne, if_false]
      exact ih hnd.2 h

theorem editCalls_map {α} (l : List α) (f g : α → Call) (h : ∀ x ∈ l, PhaseOnlyEditCall (f x) (g x)) :
    PhaseOnlyEditCalls (l.map f) (l.map g) := by
  induction l with
  | nil => trivial
  | cons a r ih =>
    simp only [List.map_cons, PhaseOnlyEditCalls]
    exact ⟨h a List.mem_cons_self, ih (fun x hx => h x (List.mem_cons_of_mem _ hx))⟩

/-- one record through `PhasedVcfWriter.write`, no genotype change reported: a phase-only edit -/
theorem writeRecord_edit (cfg : C04.Cfg) (prev : Option Nat) (r : C04.Record) (hnd : (r.calls.map (·.1)).Nodup)
    (hno : (C04.writeRecord cfg prev r).changes = []) :
    (ofC04 (C04.writeRecord cfg prev r).record).fixed = (ofC04 r).fixed ∧
    PhaseOnlyEditCalls (ofC04 r).calls (ofC04 (C04.writeRecord cfg prev r).record).calls := by
  constructor
  · simp only [ofC04, (C04.writeRecord_site cfg prev r).1]
  · simp only [ofC04, C04.writeRecord_calls, List.map_map]
    apply editCalls_map
    intro nc hnc
    simp only [Function.comp]
    exact finalCall_edit cfg prev r nc.1 nc.2 (clookup_of_mem_nodup hnd hnc) (by rw [hno]; intro row hrow; cases hrow)

theorem writeChrom_edit (cfg : C04.Cfg) (rs : List C04.Record) (prev : Option Nat)
    (hnd : ∀ r ∈ rs, (r.calls.map (·.1)).Nodup) (hno : ∀ o ∈ C04.writeChrom cfg prev rs, o.changes = []) :
    PhaseOnlyEdit (rs.map ofC04) ((C04.writeChrom cfg prev rs).map (fun o => ofC04 o.record)) := by
  induction rs generalizing prev with
  | nil => trivial
  | cons r rs ih =>
    simp only [C04.writeChrom, List.map_cons, PhaseOnlyEdit]
    simp only [C04.writeChrom, List.mem_cons, forall_eq_or_imp] at hno
    obtain ⟨h1, h2⟩ := writeRecord_edit cfg prev r (hnd r List.mem_cons_self) hno.1
    exact ⟨h1, h2, ih _ (fun r' hr' => hnd r' (List.mem_cons_of_mem _ hr')) hno.2⟩

theorem expectedBlocks_edit (fc : C04.FileCfg) (ph : C04.Phasing) (gs : List (String × List C04.FRec)) (k : Nat)
    (hnd : ∀ cg ∈ gs, ∀ fr ∈ cg.2, (fr.record.calls.map (·.1)).Nodup)
    (hno : ∀ b ∈ C04.expectedBlocks fc ph k gs, ∀ o ∈ b, o.changes = []) :
    PhaseOnlyEdit ((gs.flatMap (·.2)).map (fun fr => ofC04 fr.record))
      ((C04.expectedBlocks fc ph k gs).flatten.map (fun o => ofC04 o.record)) := by
  induction gs generalizing k with
  | nil => trivial
  | cons cg gs ih =>
    obtain ⟨c, g⟩ := cg
    simp only [List.flatMap_cons, C04.expectedBlocks, List.flatten_cons, List.map_append]
    simp only [C04.expectedBlocks, List.mem_cons, forall_eq_or_imp] at hno
    apply PhaseOnlyEdit_append
    · have h := writeChrom_edit (C04.blockCfg fc ph k c) (g.map (·.record)) none
        (by
          intro r hr
          obtain ⟨fr, hfr, rfl⟩ := List.mem_map.mp hr
          exact hnd (c, g) List.mem_cons_self fr hfr)
        hno.1
      simpa [List.map_map, Function.comp_def] using h
    · exact ih (k + 1) (fun cg hcg => hnd cg (List.mem_cons_of_mem _ hcg)) hno.2

end WhVerif.Lemmas.C13

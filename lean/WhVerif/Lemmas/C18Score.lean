import WhVerif.Model.C18
/-! C18 helper lemmas: `scoreLower` is a strict total order on `List Int`. -/
namespace WhVerif.C18

theorem scoreLower_irrefl (a : Score) : scoreLower a a = false := by
  induction a with
  | nil => rfl
  | cons x xs ih => simp [scoreLower, ih]

theorem scoreLower_trans : ∀ (a b c : Score),
    scoreLower a b = true → scoreLower b c = true → scoreLower a c = true
  | [], [], _ => by simp [scoreLower]
  | [], _ :: _, [] => by simp [scoreLower]
  | [], _ :: _, _ :: _ => by simp [scoreLower]
  | _ :: _, [], _ => by simp [scoreLower]
  | _ :: _, _ :: _, [] => by simp [scoreLower]
  | x :: a, y :: b, z :: c => by
    have ih := scoreLower_trans a b c
    simp only [scoreLower]
    intro h1 h2
    split at h1
    · split at h2
      · simp; omega
      · split at h2
        · simp at h2
        · have : y = z := by omega
          subst this; simp [*]
    · split at h1
      · simp at h1
      · have : x = y := by omega
        subst this
        split at h2
        · simp [*]
        · split at h2
          · simp at h2
          · simp [*, ih h1 h2]

theorem scoreLower_asymm (a b : Score) (h : scoreLower a b = true) : scoreLower b a = false := by
  cases hba : scoreLower b a with
  | false => rfl
  | true =>
    have := scoreLower_trans a b a h hba
    simp [scoreLower_irrefl] at this

theorem scoreLower_trichotomy : ∀ (a b : Score),
    scoreLower a b = true ∨ a = b ∨ scoreLower b a = true
  | [], [] => by simp
  | [], _ :: _ => by simp [scoreLower]
  | _ :: _, [] => by simp [scoreLower]
  | x :: a, y :: b => by
    have ih := scoreLower_trichotomy a b
    simp only [scoreLower]
    by_cases h1 : x < y
    · simp [h1]
    · by_cases h2 : y < x
      · simp [h1, h2]
      · have : x = y := by omega
        subst this
        simp [h1]
        exact ih

/-- negative transitivity: "not lower" (`≥`) is transitive -/
theorem scoreLower_negtrans (a b c : Score)
    (h1 : scoreLower a b = false) (h2 : scoreLower b c = false) : scoreLower a c = false := by
  cases hac : scoreLower a c with
  | false => rfl
  | true =>
    rcases scoreLower_trichotomy a b with h | h | h
    · simp [h] at h1
    · subst h; simp [hac] at h2
    · have := scoreLower_trans b a c h hac
      simp [this] at h2

theorem scoreLower_total (a b : Score) : scoreLower a b = false ∨ scoreLower b a = false := by
  cases h : scoreLower a b with
  | false => simp
  | true => exact Or.inr (scoreLower_asymm a b h)

/-- a < b ≤ c gives a < c -/
theorem scoreLower_of_lt_of_ge (a b c : Score)
    (h1 : scoreLower a b = true) (h2 : scoreLower c b = false) : scoreLower a c = true := by
  cases hac : scoreLower a c with
  | true => rfl
  | false =>
    have := scoreLower_negtrans a c b hac h2
    simp [h1] at this

/-- a ≤ b < c gives a < c -/
theorem scoreLower_of_ge_of_lt (a b c : Score)
    (h1 : scoreLower b a = false) (h2 : scoreLower b c = true) : scoreLower a c = true := by
  cases hac : scoreLower a c with
  | true => rfl
  | false =>
    have := scoreLower_negtrans b a c h1 hac
    simp [h2] at this

end WhVerif.C18

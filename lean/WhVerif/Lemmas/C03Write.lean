import WhVerif.Lemmas.C03Pipe
import WhVerif.Props.C09
/-!
# C03 pipeline, part 2: from the family stage through `PhasedVcfWriter.write` to what a reader decodes

Composition with the C04 writer model and the C09 decoders (their theorems are imported, not re-proved):
whatever decodes from the call of a phased sample in a written record is the statement `written` of this run
(`Props.C09.write_roundtrip`), whose block is `components[pos] + 1`; the components are those of the family stage,
i.e. of the selected reads of all family members.
-/
namespace WhVerif.C03.Pipe
open WhVerif.C03 WhVerif.C03.L WhVerif.C04
open WhVerif.C09 (written WfCall Phase callPhases)

theorem alookup_eq_lookup {β} (l : List (Nat × β)) (p : Nat) : alookup l p = l.lookup p := by
  induction l with
  | nil => rfl
  | cons kv r ih =>
    obtain ⟨k, v⟩ := kv
    simp only [alookup, List.lookup_cons]
    by_cases h : k = p
    · subst h; simp
    · have : (p == k) = false := by simpa using fun e : p = k => h e.symm
      rw [if_neg h, this]; exact ih

theorem alookup_of_mem_nodup {β} : ∀ (l : List (Nat × β)) (k : Nat) (v : β), (l.map (·.1)).Nodup → (k, v) ∈ l →
    alookup l k = some v
  | [], _, _, _, h => by cases h
  | (k', v') :: r, k, v, hnd, h => by
    simp only [List.map_cons, List.nodup_cons] at hnd
    simp only [alookup]
    rcases List.mem_cons.mp h with he | hr
    · cases he; simp
    · have hne : k' ≠ k := by
        intro e; subst e
        exact hnd.1 (List.mem_map.mpr ⟨(k', v), hr, rfl⟩)
      rw [if_neg hne]
      exact alookup_of_mem_nodup r k v hnd.2 hr

theorem clookup_mem : ∀ (l : List (String × Call)) (n : String) (c : Call), clookup l n = some c → (n, c) ∈ l
  | [], _, _, h => by cases h
  | (k, v) :: r, n, c, h => by
    simp only [clookup] at h
    split at h
    · rename_i hk; cases h; subst hk; simp
    · exact List.mem_cons_of_mem _ (clookup_mem r n c h)

theorem decodeCall_eq (fmt : List String) (c : Call) :
    decodeCall fmt c = WhVerif.Props.C09.decoded (callPhases fmt c) := by
  unfold decodeCall WhVerif.Props.C09.decoded
  rfl

/-- the phase statement `write` makes consists of `components[pos] + 1` and the two super-read alleles, and is only made
when those alleles differ -/
theorem written_some {t : Target} {pos : Nat} {ph : Phase} (h : written false t pos = some ph) :
    ∃ comp p, compOf t.comps pos = some comp ∧ lookupPhase false t pos = some p ∧
      ph = ⟨some ((comp : Int) + 1), p.map some⟩ ∧ isHom (sortNat p) = false := by
  unfold written at h
  cases hc : alookup t.comps pos with
  | none => simp [hc] at h
  | some comp =>
    cases hp : lookupPhase false t pos with
    | none => simp [hc, hp] at h
    | some p =>
      simp only [hc, hp] at h
      by_cases hh : isHom (sortNat p) = true
      · simp [hh] at h
      · have hh' : isHom (sortNat p) = false := by simpa using hh
        simp only [hh', Bool.not_false, if_true, Option.some.injEq] at h
        refine ⟨comp, p, ?_, rfl, h.symm, hh'⟩
        unfold compOf; rw [← alookup_eq_lookup]; exact hc

section writer
variable (cfg : Cfg) (hr : cfg.repaired = true) (hm : cfg.mav = false)
include hr hm

/-- whatever decodes from the call of a target sample after `write` was stated by this run for that record -/
theorem decode_final (prev : Option Nat) (r : Record) (n : String) (t : Target) (hft : findTarget cfg n = some t)
    (c : Call) (hwf : WfCall r.format c) (ph : Phase)
    (h : decodeCall (writeRecord cfg prev r).record.format (finalCall cfg prev r n c) = some ph) :
    reaches cfg prev r = true ∧ written false t r.pos = some ph := by
  rw [decodeCall_eq, WhVerif.Props.C09.write_roundtrip cfg hr hm prev r n t hft c hwf] at h
  cases hre : reaches cfg prev r
  · simp [hre] at h
  · simp only [hre, if_true] at h; exact ⟨rfl, h⟩

/-- and conversely: when the writer reaches the tagging code for the record, the call decodes to exactly `written` -/
theorem decode_final_of_reaches (prev : Option Nat) (r : Record) (n : String) (t : Target)
    (hft : findTarget cfg n = some t) (c : Call) (hwf : WfCall r.format c) (hre : reaches cfg prev r = true) :
    decodeCall (writeRecord cfg prev r).record.format (finalCall cfg prev r n c) = written false t r.pos := by
  rw [decodeCall_eq, WhVerif.Props.C09.write_roundtrip cfg hr hm prev r n t hft c hwf]
  simp [hre]

/-- chromosome level: a decodable phase statement in the call of target `t` in any written record -/
theorem decode_chrom (hnd : (cfg.targets.map (·.name)).Nodup) (rs : List Record)
    (hwf : ∀ r ∈ rs, ∀ nc ∈ r.calls, WfCall r.format nc.2) (prev : Option Nat)
    (t : Target) (ht : t ∈ cfg.targets) (o : Out) (ho : o ∈ writeChrom cfg prev rs)
    (call : Call) (hcall : clookup o.record.calls t.name = some call) (ph : Phase)
    (hdec : decodeCall o.record.format call = some ph) :
    ∃ comp p, compOf t.comps o.record.pos = some comp ∧ lookupPhase false t o.record.pos = some p ∧
      ph = ⟨some ((comp : Int) + 1), p.map some⟩ ∧ isHom (sortNat p) = false := by
  obtain ⟨prev', r, hrmem, rfl⟩ := WhVerif.C09.mem_writeChrom cfg rs prev o ho
  rw [writeRecord_clookup] at hcall
  cases hc0 : clookup r.calls t.name with
  | none => simp [hc0] at hcall
  | some c0 =>
    simp only [hc0, Option.map_some, Option.some.injEq] at hcall
    subst hcall
    have hft := findTarget_of_mem hnd ht
    have hw := hwf r hrmem _ (clookup_mem _ _ _ hc0)
    obtain ⟨_, hwr⟩ := decode_final cfg hr hm prev' r t.name t hft c0 hw ph hdec
    rw [(writeRecord_site cfg prev' r).2.1]
    exact written_some hwr
end writer

/-! ### the super-reads inside a target -/

theorem phasesOf_toTarget (n : String) (s : SuperReads) (comps : List (Nat × Nat)) :
    phasesOf false (toTarget n s comps) =
      s.vars.filterMap (fun v => if (v.2.1 == 0 || v.2.1 == 1) && (v.2.2 == 0 || v.2.2 == 1)
        then some (v.1, [v.2.1, v.2.2]) else none) := by
  unfold phasesOf toTarget
  simp only [List.zip_map', List.filterMap_map]
  congr 1
  funext v
  simp only [Function.comp, allowed, Bool.false_or, Int.toNat_natCast]
  have e0 : ∀ x : Nat, ((x : Int) == 0) = (x == 0) := by
    intro x; rw [Bool.eq_iff_iff]; simp only [beq_iff_eq]; omega
  have e1 : ∀ x : Nat, ((x : Int) == 1) = (x == 1) := by
    intro x; rw [Bool.eq_iff_iff]; simp only [beq_iff_eq]; omega
  simp only [e0, e1]

/-- a phase the writer finds for a position comes from a super-read entry AT that position with alleles in {0, 1} -/
theorem lookupPhase_toTarget {n : String} {s : SuperReads} {comps : List (Nat × Nat)} {pos : Nat} {p : List Nat}
    (h : lookupPhase false (toTarget n s comps) pos = some p) :
    ∃ v ∈ s.vars, v.1 = pos ∧ p = [v.2.1, v.2.2] ∧ v.2.1 ≤ 1 ∧ v.2.2 ≤ 1 := by
  have hmem := alookup_mem h
  rw [List.mem_reverse, phasesOf_toTarget, List.mem_filterMap] at hmem
  obtain ⟨v, hv, hf⟩ := hmem
  split at hf
  · rename_i hc
    simp only [Option.some.injEq, Prod.mk.injEq] at hf
    simp only [Bool.and_eq_true, Bool.or_eq_true, beq_iff_eq] at hc
    exact ⟨v, hv, hf.1, hf.2.symm, by omega, by omega⟩
  · cases hf

theorem filterMap_keys_sublist {α β} (f : α → Option (Nat × β)) (k : α → Nat) (hf : ∀ x y, f x = some y → y.1 = k x) :
    ∀ l : List α, ((l.filterMap f).map (·.1)).Sublist (l.map k)
  | [] => List.Sublist.refl _
  | a :: t => by
    simp only [List.filterMap_cons, List.map_cons]
    cases hfa : f a with
    | none => exact (filterMap_keys_sublist f k hf t).cons _
    | some y =>
      simp only [List.map_cons]
      rw [hf a y hfa]
      exact (filterMap_keys_sublist f k hf t).cons₂ _

/-- with one super-read entry per position, an entry with alleles in {0, 1} IS the phase the writer finds -/
theorem lookupPhase_toTarget_of_mem (n : String) (s : SuperReads) (comps : List (Nat × Nat))
    (hnd : (s.vars.map (·.1)).Nodup) (v : Nat × Nat × Nat) (hv : v ∈ s.vars) (h1 : v.2.1 ≤ 1) (h2 : v.2.2 ≤ 1) :
    lookupPhase false (toTarget n s comps) v.1 = some [v.2.1, v.2.2] := by
  unfold lookupPhase alookupLast
  apply alookup_of_mem_nodup
  · rw [List.map_reverse]
    refine (List.reverse_perm _).nodup_iff.mpr ?_
    rw [phasesOf_toTarget]
    refine List.Nodup.sublist (filterMap_keys_sublist _ (·.1) ?_ s.vars) hnd
    intro x y hxy
    split at hxy
    · cases hxy; rfl
    · cases hxy
  · rw [List.mem_reverse, phasesOf_toTarget, List.mem_filterMap]
    refine ⟨v, hv, ?_⟩
    have : ((v.2.1 == 0 || v.2.1 == 1) && (v.2.2 == 0 || v.2.2 == 1)) = true := by
      simp only [Bool.and_eq_true, Bool.or_eq_true, beq_iff_eq]; omega
    simp [this]

/-! ### components of the family stage, stated over the selected reads -/

/-- the `Connected` relation of the family: chains of SELECTED reads of the family's members (+ master block) -/
def FamConnected (distrust genetic : Bool) (f : FamilyIn) (o : FamilyOut) : Nat → Nat → Prop :=
  Connected o.accessible (famReads f) (famMaster distrust genetic f o) (famHet distrust genetic f o)

theorem stage_findComponents {distrust genetic : Bool} {f : FamilyIn} {o : FamilyOut}
    (hs : StageSpec distrust genetic f o) :
    ∃ rep : Nat → Nat,
      (∀ p, compOf o.comps p = if p ∈ o.accessible then some (rep p) else none) ∧
      (∀ a b, rep a = rep b ↔ FamConnected distrust genetic f o a b) ∧
      (∀ a, rep a ≤ a) ∧ (∀ a, a ∈ o.accessible → rep a ∈ o.accessible) ∧
      (∀ a, FamConnected distrust genetic f o a (rep a)) := by
  obtain ⟨rep, h1, h2, h3, h4, h5⟩ := findComponents_rep _ _ _ _ _ hs.comps
  have hc := fun a b => connected_congr (phased := o.accessible) (master := famMaster distrust genetic f o)
    (het := famHet distrust genetic f o) (mem_allReads_toRead hs) a b
  exact ⟨rep, h1, fun a b => (h2 a b).trans (hc a b), h3, h4, fun a => (hc a _).mp (h5 a)⟩

/-- a component value of the family stage is the leftmost accessible position connected by selected reads -/
theorem stage_comp_leftmost {distrust genetic : Bool} {f : FamilyIn} {o : FamilyOut}
    (hs : StageSpec distrust genetic f o) {p k : Nat} (h : compOf o.comps p = some k) :
    p ∈ o.accessible ∧ k ∈ o.accessible ∧ FamConnected distrust genetic f o p k ∧
      ∀ q, FamConnected distrust genetic f o p q → k ≤ q := by
  obtain ⟨rep, h1, h2, h3, h4, h5⟩ := stage_findComponents hs
  rw [h1 p] at h
  split at h
  · rename_i hp
    cases h
    exact ⟨hp, h4 p hp, h5 p, fun q hq => by rw [(h2 p q).mpr hq]; exact h3 q⟩
  · cases h

theorem stage_comp_iff {distrust genetic : Bool} {f : FamilyIn} {o : FamilyOut}
    (hs : StageSpec distrust genetic f o) {p q k1 k2 : Nat} (h1 : compOf o.comps p = some k1)
    (h2 : compOf o.comps q = some k2) : k1 = k2 ↔ FamConnected distrust genetic f o p q := by
  obtain ⟨rep, hc, hk, _, _, _⟩ := stage_findComponents hs
  rw [hc p] at h1; rw [hc q] at h2
  by_cases hp : p ∈ o.accessible
  · by_cases hq : q ∈ o.accessible
    · simp only [hp, hq, if_true, Option.some.injEq] at h1 h2
      subst h1 h2
      exact hk p q
    · simp [hq] at h2
  · simp [hp] at h1

/-! ### the chromosome stage -/

theorem stageAll_spec (distrust genetic : Bool) : ∀ (fs : List FamilyIn) (os : List FamilyOut),
    stageAll distrust genetic fs = .ok os →
      (∀ f ∈ fs, ∃ o ∈ os, familyStage distrust genetic f = .ok o) ∧
      ((os.flatMap (·.targets)).map (·.name)).Sublist ((fs.flatMap (·.members)).map (·.name))
  | [], os, h => by simp only [stageAll, Except.ok.injEq] at h; subst h; simp
  | f :: fs, os, h => by
    simp only [stageAll] at h
    split at h
    · cases h
    · rename_i o ho
      split at h
      · cases h
      · rename_i os' hos'
        simp only [Except.ok.injEq] at h
        subst h
        obtain ⟨ih1, ih2⟩ := stageAll_spec distrust genetic fs os' hos'
        refine ⟨fun g hg => ?_, ?_⟩
        · rcases List.mem_cons.mp hg with rfl | hg
          · exact ⟨o, by simp, ho⟩
          · obtain ⟨o', ho', hst⟩ := ih1 g hg
            exact ⟨o', List.mem_cons_of_mem _ ho', hst⟩
        · simp only [List.flatMap_cons, List.map_append]
          refine List.Sublist.append ?_ ih2
          rw [(familyStage_spec distrust genetic f o ho).targets, List.map_map]
          have : ∀ (l1 : List Member) (l2 : List SuperReads),
              ((l1.zip l2).map ((fun t : Target => t.name) ∘ fun x => toTarget x.1.name x.2 o.comps)).Sublist
                (l1.map (·.name)) := by
            intro l1
            induction l1 with
            | nil => intro l2; simp
            | cons a t ih =>
              intro l2
              cases l2 with
              | nil => simp
              | cons b u => simp only [List.zip_cons_cons, List.map_cons]; exact (ih u).cons₂ _
          exact this _ _

/-- the targets of a requested chromosome: every family's stage result contributes its members' targets; if the sample
names of all members are distinct, so are the target names -/
theorem chromTargets_spec (rc : RunCfg) (c : ChromIn) (ts : List Target) (h : chromTargets rc c = .ok ts)
    (hreq : requested rc c.name = true) :
    (∀ f ∈ c.families, ∃ o, familyStage rc.distrust rc.genetic f = .ok o ∧ ∀ t ∈ o.targets, t ∈ ts) ∧
    (((c.families.flatMap (·.members)).map (·.name)).Nodup → (ts.map (·.name)).Nodup) := by
  unfold chromTargets at h
  simp only [hreq, if_true] at h
  split at h
  · rename_i os hos
    simp only [Except.ok.injEq] at h
    subst h
    obtain ⟨h1, h2⟩ := stageAll_spec _ _ _ _ hos
    refine ⟨fun f hf => ?_, fun hnd => List.Nodup.sublist h2 hnd⟩
    obtain ⟨o, ho, hst⟩ := h1 f hf
    exact ⟨o, hst, fun t ht => List.mem_flatMap.mpr ⟨o, ho, ht⟩⟩
  · cases h

theorem chromTargets_unrequested (rc : RunCfg) (c : ChromIn) (hreq : requested rc c.name = false) :
    chromTargets rc c = .ok [] := by
  unfold chromTargets; simp [hreq]

/-- a sufficient condition for the writer to reach the tagging code: a biallelic record (an SNV under `--only-snvs`)
that is not at the position of the previously tagged record, and a target sample of the header that has a component
and a phase at the record's position -/
theorem reaches_of_target (cfg : Cfg) (hm : cfg.mav = false) (prev : Option Nat) (r : Record)
    (halts : r.alts.length = 1) (hprev : prev ≠ some r.pos) (hsnv : cfg.onlySnvs = true → isSnv r = true)
    (t : Target) (hn : t.name ∈ cfg.samples) (hft : findTarget cfg t.name = some t)
    (hc : (compOf t.comps r.pos).isSome = true) (hp : (lookupPhase false t r.pos).isSome = true) :
    reaches cfg prev r = true := by
  have hany : anyPhased cfg r.pos = true := by
    unfold anyPhased
    rw [List.any_eq_true]
    refine ⟨t.name, hn, ?_⟩
    rw [hft, hm]
    unfold compOf at hc
    simp only [alookup_eq_lookup, hc, hp, Bool.and_self]
  have h1 : r.alts.isEmpty = false := by
    cases h : r.alts with
    | nil => simp [h] at halts
    | cons a l => rfl
  have h2 : (prev == some r.pos) = false := by simpa using hprev
  have h3 : (cfg.onlySnvs && !isSnv r) = false := by
    cases ho : cfg.onlySnvs
    · rfl
    · simp [hsnv ho]
  unfold reaches
  simp [h1, halts, hm, h2, h3, hany]

end WhVerif.C03.Pipe

import WhVerif.Lemmas.C07CompleteComp
/-!
# C07 completeness, part C: the enumeration `explore` covers every run.

States are compared up to permutation of the lists that stand for sets, the coverage history and the abstract
queue (`Eqv`).  Equal `key`s imply `Eqv`; every step of the deterministic run from a state is matched, up to
`Eqv`, by a successor the enumeration generates from any `Eqv` state; `dedupBy` keeps an `Eqv` representative.
-/
namespace WhVerif.C07
open List

/-! ## generic -/

theorem cover_dedup {S κ : Type} [BEq κ] [LawfulBEq κ] {E : S → S → Prop} {key : S → κ}
    (hkey : ∀ a b, key a = key b → E a b) (htrans : ∀ a b c, E a b → E b c → E a c)
    {L : List S} {e' s' : S} (hm : e' ∈ L) (he : E e' s') : ∃ y ∈ dedupBy key L, E y s' := by
  obtain ⟨y, hy, hk⟩ := dedupBy_cover key hm
  exact ⟨y, hy, htrans _ _ _ (hkey _ _ hk) he⟩

theorem entryKey_inj : ∀ (x y : Entry), (x.item, x.score.a, x.score.b, x.score.q) = (y.item, y.score.a, y.score.b, y.score.q) → x = y := by
  rintro ⟨i, ⟨a, b, q⟩⟩ ⟨i', ⟨a', b', q'⟩⟩ h
  simp only [Prod.mk.injEq] at h
  obtain ⟨rfl, rfl, rfl, rfl⟩ := h
  rfl

/-! ## slice level -/

structure SliceSt.Eqv (a b : SliceSt) : Prop where
  pq : a.pq ~ b.pq
  cov : a.cov ~ b.cov
  covered : a.covered ~ b.covered
  inSlice : a.inSlice ~ b.inSlice
  violating : a.violating ~ b.violating

theorem SliceSt.Eqv.trans {a b c : SliceSt} (h1 : a.Eqv b) (h2 : b.Eqv c) : a.Eqv c :=
  ⟨h1.pq.trans h2.pq, h1.cov.trans h2.cov, h1.covered.trans h2.covered, h1.inSlice.trans h2.inSlice,
   h1.violating.trans h2.violating⟩

theorem SliceSt.Eqv.of_key {a b : SliceSt} (h : a.key = b.key) : a.Eqv b := by
  simp only [SliceSt.key, Prod.mk.injEq] at h
  obtain ⟨h1, h2, h3, h4, h5⟩ := h
  refine ⟨?_, perm_of_sortBy_eq _ h2, perm_of_sortBy_eq _ h3, perm_of_sortBy_eq _ h4, perm_of_sortBy_eq _ h5⟩
  rw [(List.map_inj_right entryKey_inj).mp h1]

theorem sliceStep_eqv (reads : List Read) (P : List Nat) (k : Nat) {a b : SliceSt} (h : a.Eqv b) (e : Entry) :
    (sliceStep reads P k a e).Eqv (sliceStep reads P k b e) := by
  have hb : blocked P a.cov k (getRead reads e.item) = blocked P b.cov k (getRead reads e.item) :=
    blocked_perm h.cov _ _ _
  have hn : (getRead reads e.item).pos.filter (fun p => !a.covered.contains p) =
      (getRead reads e.item).pos.filter (fun p => !b.covered.contains p) := by
    congr 1; funext p; rw [h.covered.contains_eq]
  have hi : insertNew e.item a.inSlice ~ insertNew e.item b.inSlice := insertNew_perm h.inSlice
  unfold sliceStep
  simp only [hb, hn]
  split
  · exact ⟨h.pq, h.cov, h.covered, h.inSlice, insertNew_perm h.violating⟩
  · split
    · refine ⟨?_, h.cov.cons _, union_perm_right _ h.covered, hi, h.violating⟩
      have : ∀ f : Entry, (insertNew e.item a.inSlice).contains f.item = (insertNew e.item b.inSlice).contains f.item :=
        fun f => hi.contains_eq
      simp only [this]
      exact h.pq.map _
    · exact h

def sliceSucc (reads : List Read) (P : List Nat) (k : Nat) (st : SliceSt) : List SliceSt :=
  match popAll st.pq with
  | [] => [st]
  | cands => cands.map (fun (ci, e, pq') => sliceStep reads P k { st with pq := pq', trace := ci :: st.trace } e)

theorem sliceAll_succ (reads : List Read) (P : List Nat) (k : Nat) (n : Nat) (sts : List SliceSt) :
    sliceAll reads P k (n + 1) sts =
      sliceAll reads P k n (dedupBy SliceSt.key (sts.flatMap (sliceSucc reads P k))) := rfl

theorem mem_sliceSucc {reads : List Read} {P : List Nat} {k : Nat} {st x : SliceSt} :
    x ∈ sliceSucc reads P k st ↔ (st.pq = [] ∧ x = st) ∨
      ∃ ci e pq', (ci, e, pq') ∈ popAll st.pq ∧
        x = sliceStep reads P k { st with pq := pq', trace := ci :: st.trace } e := by
  unfold sliceSucc
  cases hpa : popAll st.pq with
  | nil =>
    have := popAll_eq_nil.mp hpa
    simp [this]
  | cons c cs =>
    have hne : st.pq ≠ [] := fun h0 => by rw [popAll_eq_nil.mpr h0] at hpa; cases hpa
    simp only [List.mem_map, hne, false_and, false_or]
    constructor
    · rintro ⟨⟨ci, e, pq'⟩, hm, rfl⟩; exact ⟨ci, e, pq', hm, rfl⟩
    · rintro ⟨ci, e, pq', hm, rfl⟩; exact ⟨(ci, e, pq'), hm, rfl⟩

theorem sliceLoop_nil (reads : List Read) (P : List Nat) (k : Nat) (n : Nat) {st : SliceSt} (h : st.pq = []) :
    sliceLoop reads P k n st = st := by
  cases n with
  | zero => rfl
  | succ n => unfold sliceLoop; rw [h]; rfl

theorem sliceAll_complete (reads : List Read) (P : List Nat) (k : Nat) :
    ∀ n (L : List SliceSt) (s : SliceSt), (∃ e ∈ L, e.Eqv s) →
      ∃ e ∈ sliceAll reads P k n L, e.Eqv (sliceLoop reads P k n s) := by
  intro n
  induction n with
  | zero => intro L s h; exact h
  | succ n ih =>
    rintro L s ⟨e, heL, hes⟩
    rw [sliceAll_succ]
    unfold sliceLoop
    split
    · rename_i hp
      have hs : s.pq = [] := popChoice_none hp
      have he : e.pq = [] := by have := hes.pq; rw [hs] at this; exact this.eq_nil
      have hmem : e ∈ L.flatMap (sliceSucc reads P k) :=
        List.mem_flatMap.mpr ⟨e, heL, mem_sliceSucc.mpr (Or.inl ⟨he, rfl⟩)⟩
      obtain ⟨y, hy, hys⟩ := cover_dedup (key := SliceSt.key) (fun _ _ => SliceSt.Eqv.of_key)
        (fun _ _ _ => SliceSt.Eqv.trans) hmem hes
      have := ih _ s ⟨y, hy, hys⟩
      rwa [sliceLoop_nil _ _ _ _ hs] at this
    · rename_i ci ent pq' hp
      obtain ⟨ci', r', hm, hr⟩ := popChoice_perm hes.pq.symm hp
      have hmem : sliceStep reads P k { e with pq := r', trace := ci' :: e.trace } ent ∈
          L.flatMap (sliceSucc reads P k) :=
        List.mem_flatMap.mpr ⟨e, heL, mem_sliceSucc.mpr (Or.inr ⟨ci', ent, r', hm, rfl⟩)⟩
      have hE : (sliceStep reads P k { e with pq := r', trace := ci' :: e.trace } ent).Eqv
          (sliceStep reads P k { s with pq := pq', choices := s.choices.tail, trace := ci :: s.trace } ent) :=
        sliceStep_eqv reads P k (a := { e with pq := r', trace := ci' :: e.trace })
          (b := { s with pq := pq', choices := s.choices.tail, trace := ci :: s.trace })
          ⟨hr, hes.cov, hes.covered, hes.inSlice, hes.violating⟩ ent
      obtain ⟨y, hy, hys⟩ := cover_dedup (key := SliceSt.key) (fun _ _ => SliceSt.Eqv.of_key)
        (fun _ _ _ => SliceSt.Eqv.trans) hmem hE
      exact ih _ _ ⟨y, hy, hys⟩

/-! ## bridging level -/

structure BridgeSt.Eqv (a b : BridgeSt) : Prop where
  pq : a.pq ~ b.pq
  cov : a.cov ~ b.cov
  selected : a.selected ~ b.selected
  undecided : a.undecided ~ b.undecided
  comp : a.comp = b.comp

theorem BridgeSt.Eqv.trans {a b c : BridgeSt} (h1 : a.Eqv b) (h2 : b.Eqv c) : a.Eqv c :=
  ⟨h1.pq.trans h2.pq, h1.cov.trans h2.cov, h1.selected.trans h2.selected, h1.undecided.trans h2.undecided,
   h1.comp.trans h2.comp⟩

theorem BridgeSt.Eqv.of_key {a b : BridgeSt} (h : a.key = b.key) : a.Eqv b := by
  simp only [BridgeSt.key, Prod.mk.injEq] at h
  obtain ⟨h1, h2, h3, h4, h5⟩ := h
  refine ⟨?_, perm_of_sortBy_eq _ h2, perm_of_sortBy_eq _ h3, perm_of_sortBy_eq _ h4, h5⟩
  rw [(List.map_inj_right entryKey_inj).mp h1]

theorem bridgeStep_eqv (reads : List Read) (P : List Nat) (k : Nat) {a b : BridgeSt} (h : a.Eqv b) (e : Entry) :
    (bridgeStep reads P k a e).Eqv (bridgeStep reads P k b e) := by
  have hb : blocked P a.cov k (getRead reads e.item) = blocked P b.cov k (getRead reads e.item) :=
    blocked_perm h.cov _ _ _
  unfold bridgeStep
  simp only [hb, h.comp]
  split
  · exact ⟨h.pq, h.cov, h.selected, h.undecided.filter _, rfl⟩
  · split
    · exact h
    · exact ⟨h.pq, h.cov.cons _, insertNew_perm h.selected, h.undecided.filter _, rfl⟩

def bridgeSucc (reads : List Read) (P : List Nat) (k : Nat) (st : BridgeSt) : List BridgeSt :=
  match popAll st.pq with
  | [] => [st]
  | cands => cands.map (fun (ci, e, pq') => bridgeStep reads P k { st with pq := pq', trace := ci :: st.trace } e)

theorem bridgeAll_succ (reads : List Read) (P : List Nat) (k : Nat) (n : Nat) (sts : List BridgeSt) :
    bridgeAll reads P k (n + 1) sts =
      bridgeAll reads P k n (dedupBy BridgeSt.key (sts.flatMap (bridgeSucc reads P k))) := rfl

theorem mem_bridgeSucc {reads : List Read} {P : List Nat} {k : Nat} {st x : BridgeSt} :
    x ∈ bridgeSucc reads P k st ↔ (st.pq = [] ∧ x = st) ∨
      ∃ ci e pq', (ci, e, pq') ∈ popAll st.pq ∧
        x = bridgeStep reads P k { st with pq := pq', trace := ci :: st.trace } e := by
  unfold bridgeSucc
  cases hpa : popAll st.pq with
  | nil =>
    have := popAll_eq_nil.mp hpa
    simp [this]
  | cons c cs =>
    have hne : st.pq ≠ [] := fun h0 => by rw [popAll_eq_nil.mpr h0] at hpa; cases hpa
    simp only [List.mem_map, hne, false_and, false_or]
    constructor
    · rintro ⟨⟨ci, e, pq'⟩, hm, rfl⟩; exact ⟨ci, e, pq', hm, rfl⟩
    · rintro ⟨ci, e, pq', hm, rfl⟩; exact ⟨(ci, e, pq'), hm, rfl⟩

theorem bridgeLoop_nil (reads : List Read) (P : List Nat) (k : Nat) (n : Nat) {st : BridgeSt} (h : st.pq = []) :
    bridgeLoop reads P k n st = st := by
  cases n with
  | zero => rfl
  | succ n => unfold bridgeLoop; rw [h]; rfl

theorem bridgeAll_complete (reads : List Read) (P : List Nat) (k : Nat) :
    ∀ n (L : List BridgeSt) (s : BridgeSt), (∃ e ∈ L, e.Eqv s) →
      ∃ e ∈ bridgeAll reads P k n L, e.Eqv (bridgeLoop reads P k n s) := by
  intro n
  induction n with
  | zero => intro L s h; exact h
  | succ n ih =>
    rintro L s ⟨e, heL, hes⟩
    rw [bridgeAll_succ]
    unfold bridgeLoop
    split
    · rename_i hp
      have hs : s.pq = [] := popChoice_none hp
      have he : e.pq = [] := by have := hes.pq; rw [hs] at this; exact this.eq_nil
      have hmem : e ∈ L.flatMap (bridgeSucc reads P k) :=
        List.mem_flatMap.mpr ⟨e, heL, mem_bridgeSucc.mpr (Or.inl ⟨he, rfl⟩)⟩
      obtain ⟨y, hy, hys⟩ := cover_dedup (key := BridgeSt.key) (fun _ _ => BridgeSt.Eqv.of_key)
        (fun _ _ _ => BridgeSt.Eqv.trans) hmem hes
      have := ih _ s ⟨y, hy, hys⟩
      rwa [bridgeLoop_nil _ _ _ _ hs] at this
    · rename_i ci ent pq' hp
      obtain ⟨ci', r', hm, hr⟩ := popChoice_perm hes.pq.symm hp
      have hmem : bridgeStep reads P k { e with pq := r', trace := ci' :: e.trace } ent ∈
          L.flatMap (bridgeSucc reads P k) :=
        List.mem_flatMap.mpr ⟨e, heL, mem_bridgeSucc.mpr (Or.inr ⟨ci', ent, r', hm, rfl⟩)⟩
      have hE : (bridgeStep reads P k { e with pq := r', trace := ci' :: e.trace } ent).Eqv
          (bridgeStep reads P k { s with pq := pq', choices := s.choices.tail, trace := ci :: s.trace } ent) :=
        bridgeStep_eqv reads P k (a := { e with pq := r', trace := ci' :: e.trace })
          (b := { s with pq := pq', choices := s.choices.tail, trace := ci :: s.trace })
          ⟨hr, hes.cov, hes.selected, hes.undecided, hes.comp⟩ ent
      obtain ⟨y, hy, hys⟩ := cover_dedup (key := BridgeSt.key) (fun _ _ => BridgeSt.Eqv.of_key)
        (fun _ _ _ => BridgeSt.Eqv.trans) hmem hE
      exact ih _ _ ⟨y, hy, hys⟩

/-- more fuel than queued entries changes nothing -/
theorem bridgeLoop_fuel (reads : List Read) (P : List Nat) (k : Nat) :
    ∀ n (st : BridgeSt), st.pq.length ≤ n → bridgeLoop reads P k n st = bridgeLoop reads P k st.pq.length st := by
  intro n
  induction n with
  | zero => intro st h; rw [Nat.le_zero.mp h]
  | succ n ih =>
    intro st h
    cases hq : st.pq with
    | nil => rw [bridgeLoop_nil _ _ _ _ hq]; rfl
    | cons x xs =>
      rw [List.length_cons]
      unfold bridgeLoop
      split
      · rfl
      · rename_i ci e pq' hp
        have hl := popChoice_length hp
        rw [hq, List.length_cons] at hl
        have hpq : (bridgeStep reads P k { st with pq := pq', choices := st.choices.tail, trace := ci :: st.trace } e).pq.length
            = xs.length := by rw [bridgeStep_pq]; simp only; omega
        rw [ih _ (by rw [hpq]; rw [hq, List.length_cons] at h; omega), hpq]

/-! ## helper level -/

structure HSt.Eqv (a b : HSt) : Prop where
  cov : a.cov ~ b.cov
  selected : a.selected ~ b.selected
  undecided : a.undecided ~ b.undecided

theorem HSt.Eqv.trans {a b c : HSt} (h1 : a.Eqv b) (h2 : b.Eqv c) : a.Eqv c :=
  ⟨h1.cov.trans h2.cov, h1.selected.trans h2.selected, h1.undecided.trans h2.undecided⟩

theorem HSt.Eqv.of_key {a b : HSt} (h : a.key = b.key) : a.Eqv b := by
  simp only [HSt.key, Prod.mk.injEq] at h
  obtain ⟨h1, h2, h3⟩ := h
  exact ⟨perm_of_sortBy_eq _ h1, perm_of_sortBy_eq _ h2, perm_of_sortBy_eq _ h3⟩

theorem sliceInit_eqv (reads : List Read) (P : List Nat) {e s : HSt} (h : e.Eqv s) :
    (sliceInit reads P e).Eqv (sliceInit reads P s) :=
  ⟨h.undecided.map _, h.cov, Perm.refl _, Perm.refl _, Perm.refl _⟩

theorem bridgeInit_eqv (reads : List Read) {e s : HSt} (h : e.Eqv s) {se ss : SliceSt} (hs : se.Eqv ss) :
    (bridgeInit reads (positions reads) e se).Eqv (bridgeInit reads (positions reads) s ss) := by
  have hf : (fun i => !se.inSlice.contains i && !se.violating.contains i) =
      (fun i => !ss.inSlice.contains i && !ss.violating.contains i) := by
    funext i; rw [hs.inSlice.contains_eq, hs.violating.contains_eq]
  have hu : e.undecided.filter (fun i => !se.inSlice.contains i && !se.violating.contains i) ~
      s.undecided.filter (fun i => !ss.inSlice.contains i && !ss.violating.contains i) := by
    rw [hf]; exact h.undecided.filter _
  exact ⟨hu.map _, hs.cov, union_perm hs.inSlice h.selected, hu, comp_of_inSlice_perm reads hs.inSlice⟩

theorem bridgeExit_eqv {a b : BridgeSt} (h : a.Eqv b) : (bridgeExit a).Eqv (bridgeExit b) :=
  ⟨h.cov, h.selected, h.undecided⟩

theorem bridgeInit_pq_length_le (reads : List Read) (P : List Nat) (st : HSt) (s : SliceSt) :
    (bridgeInit reads P st s).pq.length ≤ st.undecided.length := by
  unfold bridgeInit mkQueue
  simp only [List.length_map]
  exact List.length_filter_le _ _

theorem helperIter_complete (reads : List Read) (k : Nat) (br : Bool) {e s : HSt} (h : e.Eqv s) :
    ∃ e' ∈ helperIterAll reads (positions reads) k br e,
      e'.Eqv (helperIter reads (positions reads) k br s) := by
  have h0 := sliceInit_eqv reads (positions reads) h
  obtain ⟨se, hse, hses⟩ := sliceAll_complete reads (positions reads) k (sliceInit reads (positions reads) e).pq.length
    [sliceInit reads (positions reads) e] (sliceInit reads (positions reads) s) ⟨_, List.mem_singleton_self _, h0⟩
  rw [h0.pq.length_eq] at hses
  have hb := bridgeInit_eqv reads h hses
  unfold helperIterAll helperIter
  simp only
  cases br with
  | false =>
    simp only [Bool.false_eq_true, if_false]
    refine ⟨_, List.mem_map.mpr ⟨_, List.mem_map.mpr ⟨se, hse, rfl⟩, rfl⟩, ?_⟩
    exact ⟨hb.cov, hb.selected, hb.undecided⟩
  | true =>
    simp only [if_true]
    have hmem : bridgeInit reads (positions reads) e se ∈
        (sliceAll reads (positions reads) k (sliceInit reads (positions reads) e).pq.length
          [sliceInit reads (positions reads) e]).map (bridgeInit reads (positions reads) e) :=
      List.mem_map.mpr ⟨se, hse, rfl⟩
    obtain ⟨y, hy, hys⟩ := cover_dedup (key := BridgeSt.key) (fun _ _ => BridgeSt.Eqv.of_key)
      (fun _ _ _ => BridgeSt.Eqv.trans) hmem hb
    obtain ⟨b', hb', hbs⟩ := bridgeAll_complete reads (positions reads) k e.undecided.length _ _ ⟨y, hy, hys⟩
    refine ⟨_, List.mem_map.mpr ⟨b', hb', rfl⟩, ?_⟩
    rw [bridgeLoop_fuel] at hbs
    · exact bridgeExit_eqv hbs
    · rw [h.undecided.length_eq]; exact bridgeInit_pq_length_le _ _ _ _

def helperSucc (reads : List Read) (P : List Nat) (k : Nat) (br : Bool) (st : HSt) : List HSt :=
  if st.undecided.isEmpty then [st] else helperIterAll reads P k br st

theorem helperAll_succ (reads : List Read) (P : List Nat) (k : Nat) (br : Bool) (n : Nat) (sts : List HSt) :
    helperAll reads P k br (n + 1) sts =
      helperAll reads P k br n (dedupBy HSt.key (sts.flatMap (helperSucc reads P k br))) := rfl

theorem helperAll_complete (reads : List Read) (k : Nat) (br : Bool) :
    ∀ n (L : List HSt) (s : HSt), (∃ e ∈ L, e.Eqv s) →
      ∃ e ∈ helperAll reads (positions reads) k br n L, e.Eqv (helperLoop reads (positions reads) k br n s) := by
  intro n
  induction n with
  | zero => intro L s h; exact h
  | succ n ih =>
    rintro L s ⟨e, heL, hes⟩
    rw [helperAll_succ]
    unfold helperLoop
    have hemp : e.undecided.isEmpty = s.undecided.isEmpty := hes.undecided.isEmpty_eq
    split
    · rename_i hs
      have hmem : e ∈ L.flatMap (helperSucc reads (positions reads) k br) :=
        List.mem_flatMap.mpr ⟨e, heL, by unfold helperSucc; rw [hemp, hs]; simp⟩
      obtain ⟨y, hy, hys⟩ := cover_dedup (key := HSt.key) (fun _ _ => HSt.Eqv.of_key)
        (fun _ _ _ => HSt.Eqv.trans) hmem hes
      have := ih _ s ⟨y, hy, hys⟩
      cases n with
      | zero => exact this
      | succ n => unfold helperLoop at this; rwa [if_pos hs] at this
    · rename_i hs
      obtain ⟨e', he', hE⟩ := helperIter_complete reads k br hes
      have hmem : e' ∈ L.flatMap (helperSucc reads (positions reads) k br) :=
        List.mem_flatMap.mpr ⟨e, heL, by unfold helperSucc; rw [hemp, if_neg hs]; exact he'⟩
      obtain ⟨y, hy, hys⟩ := cover_dedup (key := HSt.key) (fun _ _ => HSt.Eqv.of_key)
        (fun _ _ _ => HSt.Eqv.trans) hmem hE
      exact ih _ _ ⟨y, hy, hys⟩

/-! ## the two phases -/

/-- the final states `explore` reaches (its result is their traces) -/
def exploreStates (fixed : Bool) (reads : List Read) (k : Nat) (bridging : Bool) : List HSt :=
  let P := positions reads
  let all := List.range reads.length
  let pref := preferredIdx reads
  let st0 : HSt := { cov := [], selected := [], undecided := [], choices := [], trace := [] }
  let sts1 := if pref.isEmpty then [st0] else helperAll reads P k bridging pref.length [{ st0 with undecided := pref }]
  let und2 := if fixed then all.filter (fun i => !pref.contains i) else all
  helperAll reads P k bridging und2.length (sts1.map (fun st1 => { st1 with undecided := und2 }))

theorem explore_eq (fixed : Bool) (reads : List Read) (k : Nat) (br : Bool) :
    explore fixed reads k br = (exploreStates fixed reads k br).map (fun st => st.trace.reverse) := rfl

theorem exploreStates_complete (fixed : Bool) (reads : List Read) (k : Nat) (br : Bool) (choices : List Nat) :
    ∃ e ∈ exploreStates fixed reads k br, e.Eqv (phases fixed reads k br choices).2 := by
  unfold exploreStates phases helper
  simp only
  apply helperAll_complete
  by_cases hp : (preferredIdx reads).isEmpty = true
  · simp only [hp, if_true]
    exact ⟨_, List.mem_map.mpr ⟨_, List.mem_singleton_self _, rfl⟩, ⟨Perm.refl _, Perm.refl _, Perm.refl _⟩⟩
  · simp only [hp]
    obtain ⟨e1, he1, hE1⟩ := helperAll_complete reads k br (preferredIdx reads).length
      [{ cov := [], selected := [], undecided := preferredIdx reads, choices := [], trace := [] }]
      { cov := [], selected := [], undecided := preferredIdx reads, choices := choices, trace := [] }
      ⟨_, List.mem_singleton_self _, ⟨Perm.refl _, Perm.refl _, Perm.refl _⟩⟩
    exact ⟨_, List.mem_map.mpr ⟨e1, he1, rfl⟩, ⟨hE1.cov, hE1.selected, Perm.refl _⟩⟩

end WhVerif.C07

import WhVerif.Lemmas.C06SecondIndel
/-!
The window lemma with a second DELETION of the read's haplotype that is CUT by the right window boundary (or ends exactly
on it): the walk of `cigar_prefix_length` stops inside the deletion, the query slice ends before it, the padded alleles
continue with the first `c` deleted reference bases.  (An insertion cannot be cut: it consumes no reference base.)
-/
namespace WhVerif.C06

/-- the prefix walk over `W2a ++ (2, L) :: X`: an M/=/X run that ends before the `k`-th reference base, then a deletion that
reaches it -/
theorem prefixGo_cut (f : Bool) (k : Nat) (W2a X : Cigar) (L rp qp : Nat) (ha : W2a.all isMatchOp = true)
    (hk : rp + refLen W2a < k) (hcut : k ≤ rp + refLen W2a + L) :
    prefixGo f k rp qp (W2a ++ (2, L) :: X) = .ok (k, qp + refLen W2a) := by
  rw [prefixGo_through f k W2a _ ha rp qp hk]
  have hm : isMatch 2 = false := by decide
  have hge : rp + refLen W2a + L ≥ k := by omega
  simp only [prefixGo, hm, Bool.false_eq_true, if_false, beq_self_eq_true, if_true, hge]

/-- CIGAR `A ++ W1 ++ [(op, len)] ++ W2a ++ [(2, L)] ++ X`: the variant's own operation in one of the three canonical shapes,
an M/=/X run, then a deletion of the same haplotype that starts inside the right half of the window and reaches (or
passes) its end; `X` is arbitrary.  The window's query is `lp ++ a ++ g`, every padded allele is `lp ++ x ++ g ++ ur'` with
`ur'` the first `c = |ref| + oh - (r0 + refLen W2a)` deleted reference bases. -/
theorem window_second_del_cut_right (f14 : Bool) (R query : Seq) (pos : Nat) (ref a : Seq) (alts : List Seq)
    (A W1 W2a X : Cigar) (op len d L start oh r0 : Nat) (hoh : 0 < oh)
    (hW1 : W1.all isMatchOp = true) (hW2a : W2a.all isMatchOp = true)
    (hshape : (isMatch op = true ∧ d < len ∧ d + ref.length ≤ len ∧ a.length = ref.length ∧ r0 = len - d)
      ∨ (op = 2 ∧ a = [] ∧ len = ref.length ∧ d = 0 ∧ 0 < len ∧ r0 = len)
      ∨ (op = 1 ∧ ref = [] ∧ len = a.length ∧ d = 0 ∧ 0 < len ∧ r0 = 0))
    (hpos : pos = start + refLen A + refLen W1 + d)
    (hR : slice R pos ref.length = ref)
    (hin2 : r0 + refLen W2a < ref.length + oh) (hcut : ref.length + oh ≤ r0 + refLen W2a + L)
    (hin : pos + ref.length + oh ≤ R.length)
    (hleft : oh ≤ refLen W1 + d ∨ endsWindow f14 A.reverse = true)
    (hq : slice query (qLen A) (refLen W1 + d + (a.length + (r0 - ref.length + refLen W2a))) =
      slice R (start + refLen A) (refLen W1 + d) ++ (a ++ slice R (pos + ref.length) (r0 - ref.length + refLen W2a))) :
    ∃ lw, window f14 ⟨pos, ref, alts⟩ query (A ++ W1 ++ (op, len) :: (W2a ++ (2, L) :: X)) (A ++ W1).length d
        ((qLen (A ++ W1) + d : Nat) : Int) R oh
      = .ok ⟨slice R (pos - lw) lw ++ a ++ slice R (pos + ref.length) (r0 - ref.length + refLen W2a),
             (ref :: alts).map (fun x => slice R (pos - lw) lw ++ x ++ slice R (pos + ref.length) (r0 - ref.length + refLen W2a)
               ++ slice R (pos + r0 + refLen W2a) (ref.length + oh - (r0 + refLen W2a)))⟩ := by
  have hq1 := qLen_matches W1 hW1
  have hW1r : W1.reverse.all isMatchOp = true := by rw [all_reverse]; exact hW1
  have hrev : ∀ Y : Cigar, Y ++ (A ++ W1).reverse = (Y ++ W1.reverse) ++ A.reverse := by
    intro Y; simp [List.reverse_append, List.append_assoc]
  have hqp : qLen (A ++ W1) + d = qLen A + (refLen W1 + d) := by rw [qLen_append, hq1]; omega
  have key : ∃ Lc Rc lw, splitLeft (A ++ W1 ++ (op, len) :: (W2a ++ (2, L) :: X)) (A ++ W1).length d = .ok Lc ∧
      cigarPrefixLength f14 Lc oh = .ok (lw, lw) ∧ lw ≤ refLen W1 + d ∧
      splitRight (A ++ W1 ++ (op, len) :: (W2a ++ (2, L) :: X)) (A ++ W1).length d = .ok Rc ∧
      ref.length ≤ r0 ∧
      cigarPrefixLength f14 Rc (ref.length + oh) =
        .ok (ref.length + oh, a.length + (r0 - ref.length) + refLen W2a) := by
    rcases hshape with ⟨hm, hdl, hd, hal, hr0⟩ | ⟨rfl, rfl, rfl, rfl, h0, hr0⟩ | ⟨rfl, rfl, hl, rfl, h0, hr0⟩
    · have hcr : consumesRef op = true := by simp [consumesRef, hm]
      have hML : ((if d > 0 then [(op, d)] else []) ++ W1.reverse).all isMatchOp = true := by
        by_cases h : d > 0 <;> simp [h, isMatchOp, hm, hW1r]
      have hMLr : refLen ((if d > 0 then [(op, d)] else []) ++ W1.reverse) = refLen W1 + d := by
        by_cases h : d > 0
        · simp [h, refLen, hcr, refLen_reverse]; omega
        · have : d = 0 := by omega
          simp [this, refLen_reverse]
      have hsl := splitLeft_at (A ++ W1) (W2a ++ (2, L) :: X) op len d (by omega)
      rw [hrev] at hsl
      have hsr := splitRight_at (A ++ W1) (W2a ++ (2, L) :: X) op len d hdl
      have hpl := prefix_matches f14 oh _ A.reverse hML hoh (by rw [hMLr]; exact hleft)
      rw [hMLr] at hpl
      refine ⟨_, _, _, hsl, hpl, Nat.min_le_right _ _, hsr, by omega, ?_⟩
      unfold cigarPrefixLength
      have hlt : ¬ (0 + (len - d) ≥ ref.length + oh) := by omega
      simp only [prefixGo, hm, if_true, hlt, if_false]
      rw [prefixGo_cut f14 _ W2a X L _ _ hW2a (by omega) (by omega)]
      congr 2; omega
    · have hsl := splitLeft_at (A ++ W1) (W2a ++ (2, L) :: X) 2 ref.length 0 (Nat.zero_le _)
      rw [hrev] at hsl
      have hsr := splitRight_at (A ++ W1) (W2a ++ (2, L) :: X) 2 ref.length 0 h0
      simp only [Nat.lt_irrefl, gt_iff_lt, if_false, List.nil_append, Nat.sub_zero] at hsl hsr
      have hpl := prefix_matches f14 oh _ A.reverse hW1r hoh (by
        rw [refLen_reverse]
        rcases hleft with h | h
        · left; omega
        · right; exact h)
      rw [refLen_reverse] at hpl
      refine ⟨_, _, _, hsl, hpl, by omega, hsr, by omega, ?_⟩
      unfold cigarPrefixLength
      have hm : isMatch 2 = false := by decide
      have hlt : ¬ (0 + ref.length ≥ ref.length + oh) := by omega
      simp only [prefixGo, hm, Bool.false_eq_true, if_false, beq_self_eq_true, if_true, hlt]
      rw [prefixGo_cut f14 _ W2a X L _ _ hW2a (by omega) (by omega)]
      congr 2; simp; omega
    · have hsl := splitLeft_at (A ++ W1) (W2a ++ (2, L) :: X) 1 len 0 (Nat.zero_le _)
      rw [hrev] at hsl
      have hsr := splitRight_at (A ++ W1) (W2a ++ (2, L) :: X) 1 len 0 h0
      simp only [Nat.lt_irrefl, gt_iff_lt, if_false, List.nil_append, Nat.sub_zero] at hsl hsr
      have hpl := prefix_matches f14 oh _ A.reverse hW1r hoh (by
        rw [refLen_reverse]
        rcases hleft with h | h
        · left; omega
        · right; exact h)
      rw [refLen_reverse] at hpl
      refine ⟨_, _, _, hsl, hpl, by omega, hsr, by simp, ?_⟩
      unfold cigarPrefixLength
      have hm : isMatch 1 = false := by decide
      have h2 : ((1 : Nat) == 2) = false := by decide
      simp only [prefixGo, hm, Bool.false_eq_true, if_false, beq_self_eq_true, if_true, h2]
      rw [prefixGo_cut f14 _ W2a X L _ _ hW2a (by simp at hin2 ⊢; omega) (by simp at hcut ⊢; omega)]
      congr 2; simp; omega
  obtain ⟨Lc, Rc, lw, hsl, hpl, hlwle, hsr, hr0, hpr⟩ := key
  have hpr' : cigarPrefixLength f14 Rc (ref.length + oh) =
      .ok (ref.length + (r0 - ref.length + refLen W2a) + (ref.length + oh - (r0 + refLen W2a)) + 0,
           a.length + (r0 - ref.length + refLen W2a) + ([] : Seq).length + 0) := by
    rw [hpr]; congr 2 <;> simp <;> omega
  have hw := window_second_assemble f14 R query pos ref a [] alts _ (A ++ W1).length d oh Lc Rc lw
    (r0 - ref.length + refLen W2a) (ref.length + oh - (r0 + refLen W2a)) 0 (refLen W1 + d) (qLen A) []
    hsl hpl hsr hpr' hR hlwle (by omega) (by omega)
    (by simp [slice])
    (by
      have e : pos - (refLen W1 + d) = start + refLen A := by omega
      rw [e]
      simpa using hq)
    (by simp)
  refine ⟨lw, ?_⟩
  rw [hqp, hw]
  have e1 : pos + ref.length + (r0 - ref.length + refLen W2a) = pos + r0 + refLen W2a := by omega
  rw [e1]
  simp [slice]

end WhVerif.C06

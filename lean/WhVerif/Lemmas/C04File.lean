import WhVerif.Model.C04File
import WhVerif.Lemmas.C04
import WhVerif.Lemmas.C04Header
/-! Helper lemmas for the file-level part of C04 (`Model/C04File.lean`): `groupby` versus the augmenter's
    one-record look-ahead, and lifting per-record facts to the whole file. -/
namespace WhVerif.C04

/-! ## `takeRun` and `groupChrom` -/

/-- what the template iterator still has to deliver after a run, including the look-ahead record -/
def tailOf : Option FRec → List FRec → List FRec
  | some x, rem => x :: rem
  | none, _ => []

theorem takeRun_spec (c : String) (rs : List FRec) :
    (takeRun c rs).1 ++ tailOf (takeRun c rs).2.1 (takeRun c rs).2.2 = rs ∧
    (∀ x ∈ (takeRun c rs).1, x.chrom = c) ∧
    (∀ s, (takeRun c rs).2.1 = some s → s.chrom ≠ c) ∧
    ((takeRun c rs).2.1 = none → (takeRun c rs).2.2 = []) := by
  induction rs with
  | nil => simp [takeRun, tailOf]
  | cons r rs ih =>
    by_cases h : r.chrom = c
    · obtain ⟨h1, h2, h3, h4⟩ := ih
      simp only [takeRun, h, ne_eq, not_true_eq_false, if_false]
      refine ⟨?_, ?_, h3, h4⟩
      · simp only [List.cons_append]; rw [h1]
      · intro x hx
        rcases List.mem_cons.mp hx with rfl | hx
        · exact h
        · exact h2 x hx
    · simp [takeRun, h, tailOf]

theorem takeRun_length (c : String) (rs : List FRec) :
    (tailOf (takeRun c rs).2.1 (takeRun c rs).2.2).length ≤ rs.length := by
  have h := (takeRun_spec c rs).1
  have : ((takeRun c rs).1 ++ tailOf (takeRun c rs).2.1 (takeRun c rs).2.2).length = rs.length := by rw [h]
  rw [List.length_append] at this
  omega

theorem groupChrom_cons (u : FRec) (rs : List FRec) :
    groupChrom (u :: rs) =
      (u.chrom, u :: (takeRun u.chrom rs).1) :: groupChrom (tailOf (takeRun u.chrom rs).2.1 (takeRun u.chrom rs).2.2) := by
  induction rs generalizing u with
  | nil => simp [groupChrom, takeRun, tailOf]
  | cons r rs ih =>
    by_cases h : r.chrom = u.chrom
    · have ih' := ih r
      rw [h] at ih'
      rw [groupChrom, ih']
      simp [takeRun, h]
    · have ih' := ih r
      rw [groupChrom, ih']
      simp [takeRun, h, tailOf, ih']

theorem groupChrom_flatten (rs : List FRec) : (groupChrom rs).flatMap (·.2) = rs := by
  induction rs with
  | nil => rfl
  | cons r rs ih =>
    rw [groupChrom]
    split
    · rename_i c g gs heq
      rw [heq] at ih
      split
      · simp only [List.flatMap_cons, List.cons_append] at ih ⊢; rw [ih]
      · simp only [List.flatMap_cons, List.cons_append, List.nil_append] at ih ⊢; rw [ih]
    · rename_i heq
      rw [heq] at ih
      simp at ih
      simp [ih]

theorem groupChrom_chrom (rs : List FRec) : ∀ cg ∈ groupChrom rs, ∀ x ∈ cg.2, x.chrom = cg.1 := by
  induction rs with
  | nil => intro cg h; cases h
  | cons r rs ih =>
    rw [groupChrom]
    split
    · rename_i c g gs heq
      rw [heq] at ih
      split
      · rename_i hc
        intro cg hcg x hx
        rcases List.mem_cons.mp hcg with rfl | hcg
        · rcases List.mem_cons.mp hx with rfl | hx
          · exact hc.symm
          · exact ih (c, g) (List.mem_cons_self) x hx
        · exact ih cg (List.mem_cons_of_mem _ hcg) x hx
      · intro cg hcg x hx
        rcases List.mem_cons.mp hcg with rfl | hcg
        · simp at hx; rw [hx]
        · exact ih cg hcg x hx
    · intro cg hcg x hx
      simp at hcg
      subst hcg
      simp at hx
      rw [hx]

/-! ## the augmenter follows the reader's tables -/

/-- the augmenter state `a` has exactly `rs` left to deliver -/
def Rep (a : Aug) (rs : List FRec) : Prop :=
  (a.unprocessed = none ∧ a.rest = rs) ∨ (∃ u, a.unprocessed = some u ∧ rs = u :: a.rest) ∨ (rs = [] ∧ a.rest = [])

theorem iterRecords_rep (a : Aug) (u : FRec) (rs : List FRec) (h : Rep a (u :: rs)) :
    ∃ a', iterRecords u.chrom a = (.ok, u :: (takeRun u.chrom rs).1, a') ∧
      Rep a' (tailOf (takeRun u.chrom rs).2.1 (takeRun u.chrom rs).2.2) := by
  obtain ⟨_, _, _, h4⟩ := takeRun_spec u.chrom rs
  rcases h with ⟨h1, h2⟩ | ⟨u', h1, h2⟩ | ⟨h1, _⟩
  · -- nothing pending: the first record comes from the iterator
    unfold iterRecords
    rw [h1, h2]
    simp only [takeRun, ne_eq, not_true_eq_false, if_false]
    rcases hs : takeRun u.chrom rs with ⟨y, s, rem⟩
    rw [hs] at h4
    cases s with
    | some s => exact ⟨_, rfl, Or.inr (Or.inl ⟨s, rfl, rfl⟩)⟩
    | none =>
      have hrem : rem = [] := h4 rfl
      exact ⟨_, rfl, Or.inr (Or.inr ⟨rfl, hrem⟩)⟩
  · -- the look-ahead record is the first record of this chromosome
    cases h2
    unfold iterRecords
    rw [h1]
    simp only [ne_eq, not_true_eq_false, if_false]
    rcases hs : takeRun u.chrom a.rest with ⟨y, s, rem⟩
    rw [hs] at h4
    cases s with
    | some s => exact ⟨_, rfl, Or.inr (Or.inl ⟨s, rfl, rfl⟩)⟩
    | none =>
      have hrem : rem = [] := h4 rfl
      exact ⟨_, rfl, Or.inr (Or.inr ⟨rfl, hrem⟩)⟩
  · cases h1

theorem runLoop_eq (fc : FileCfg) (ph : Phasing) (n : Nat) :
    ∀ (rs : List FRec), rs.length ≤ n → ∀ (a : Aug) (k : Nat), Rep a rs →
      runLoop fc ph k (groupChrom rs) a = some (expectedBlocks fc ph k (groupChrom rs)) := by
  induction n with
  | zero =>
    intro rs hl a k _
    have : rs = [] := List.eq_nil_of_length_eq_zero (by omega)
    subst this
    rfl
  | succ n ih =>
    intro rs hl a k hrep
    cases rs with
    | nil => rfl
    | cons u rs =>
      obtain ⟨a', hit, hrep'⟩ := iterRecords_rep a u rs hrep
      rw [groupChrom_cons]
      have hlen := takeRun_length u.chrom rs
      simp only [List.length_cons] at hl
      have ih' := ih _ (by omega) a' (k + 1) hrep'
      simp only [runLoop, augWrite, hit, expectedBlocks, ih', List.map_cons]

/-! ## pointwise relations between two lists -/

def Pointwise {α β} (R : α → β → Prop) (l₁ : List α) (l₂ : List β) : Prop :=
  l₁.length = l₂.length ∧ ∀ (i : Nat) a b, l₁[i]? = some a → l₂[i]? = some b → R a b

theorem Pointwise.nil {α β} (R : α → β → Prop) : Pointwise R [] [] := ⟨rfl, by intro i a b h; simp at h⟩

theorem Pointwise.append {α β} {R : α → β → Prop} {l₁ r₁ : List α} {l₂ r₂ : List β}
    (h1 : Pointwise R l₁ l₂) (h2 : Pointwise R r₁ r₂) : Pointwise R (l₁ ++ r₁) (l₂ ++ r₂) := by
  refine ⟨by simp [h1.1, h2.1], ?_⟩
  intro i a b ha hb
  by_cases hi : i < l₁.length
  · rw [List.getElem?_append_left hi] at ha
    rw [List.getElem?_append_left (by rw [← h1.1]; exact hi)] at hb
    exact h1.2 i a b ha hb
  · rw [List.getElem?_append_right (by omega)] at ha
    rw [List.getElem?_append_right (by rw [← h1.1]; omega)] at hb
    rw [← h1.1] at hb
    exact h2.2 _ a b ha hb

theorem Pointwise.mono {α β} {R S : α → β → Prop} {l₁ : List α} {l₂ : List β} (h : Pointwise R l₁ l₂)
    (hRS : ∀ a b, R a b → S a b) : Pointwise S l₁ l₂ :=
  ⟨h.1, fun i a b ha hb => hRS a b (h.2 i a b ha hb)⟩

/-- every output of a chromosome block is `writeRecord` of the record at the same place -/
theorem writeChrom_pointwise (cfg : Cfg) (prev : Option Nat) (g : List FRec) :
    Pointwise (fun (fr : FRec) (o : Out) => ∃ p, o = writeRecord cfg p fr.record) g (writeChrom cfg prev (g.map (·.record))) := by
  refine ⟨by rw [writeChrom_length]; simp, ?_⟩
  intro i fr o hfr ho
  obtain ⟨p, r, hr, rfl⟩ := writeChrom_getElem cfg _ prev i o ho
  rw [List.getElem?_map, hfr] at hr
  simp only [Option.map_some, Option.some.injEq] at hr
  subst hr
  exact ⟨p, rfl⟩

/-- the relation between a line of the input file and the output produced for it -/
def FileRel (fc : FileCfg) (ph : Phasing) (fr : FRec) (o : Out) : Prop :=
  ∃ k p, o = writeRecord (blockCfg fc ph k fr.chrom) p fr.record

theorem expectedBlocks_pointwise (fc : FileCfg) (ph : Phasing) (gs : List (String × List FRec)) (k : Nat)
    (hch : ∀ cg ∈ gs, ∀ x ∈ cg.2, x.chrom = cg.1) :
    Pointwise (FileRel fc ph) (gs.flatMap (·.2)) (expectedBlocks fc ph k gs).flatten := by
  induction gs generalizing k with
  | nil => exact Pointwise.nil _
  | cons cg gs ih =>
    obtain ⟨c, g⟩ := cg
    simp only [List.flatMap_cons, expectedBlocks, List.flatten_cons]
    apply Pointwise.append
    · have h := writeChrom_pointwise (blockCfg fc ph k c) none g
      refine ⟨h.1, ?_⟩
      intro i fr o hfr ho
      obtain ⟨p, hp⟩ := h.2 i fr o hfr ho
      have hc : fr.chrom = c := hch (c, g) List.mem_cons_self fr (List.mem_of_getElem? hfr)
      exact ⟨k, p, by rw [hc]; exact hp⟩
    · exact ih (k + 1) (fun cg hcg => hch cg (List.mem_cons_of_mem _ hcg))

theorem fileOut_pointwise (fc : FileCfg) (ph : Phasing) (recs : List FRec) :
    Pointwise (FileRel fc ph) recs (fileOut fc ph recs) := by
  have h := expectedBlocks_pointwise fc ph (groupChrom recs) 0 (groupChrom_chrom recs)
  rw [groupChrom_flatten] at h
  exact h

/-! ## reader and writer agree on the record that stands for a position -/

theorem isSnv_eq_isSnvAll (r : Record) (h : r.alts.length = 1) : isSnv r = isSnvAll r := by
  match hr : r.alts, h with
  | [a], _ => simp [isSnv, isSnvAll, hr]

theorem reaches_eq (cfg : Cfg) (hmav : cfg.mav = false) (prev : Option Nat) (r : Record) :
    reaches cfg prev r = (kindOk cfg.onlySnvs r && !(prev == some r.pos) && anyPhased cfg r.pos) := by
  unfold reaches kindOk
  rw [hmav]
  by_cases h0 : r.alts.isEmpty
  · simp [h0]
  · by_cases h1 : r.alts.length > 1
    · simp [h1]
    · have hlen : r.alts.length = 1 := by
        have : r.alts.length ≠ 0 := by
          intro hz; exact h0 (by simp [List.eq_nil_of_length_eq_zero hz])
        omega
      rw [isSnv_eq_isSnvAll r hlen]
      cases hk : cfg.onlySnvs <;> cases hs : isSnvAll r <;> cases hp : (prev == some r.pos) <;> simp [h0, h1]

theorem writeRecord_prev (cfg : Cfg) (prev : Option Nat) (r : Record) :
    (writeRecord cfg prev r).prev = if reaches cfg prev r then some r.pos else prev := by
  unfold writeRecord
  split <;> rfl

/-- invariant between the reader's `prev_position` (`pr`) and the writer's `prev_pos` (`pw`) -/
def PrevInv (cfg : Cfg) (pr pw : Option Nat) : Prop :=
  (∀ p, pr = some p → anyPhased cfg p = true → pw = some p) ∧
  (∀ q, pw = some q → ∃ p, pr = some p ∧ q ≤ p)

theorem readerRows_cons_ok {os : Bool} {prev pl pl' : Option Nat} {r : Record} {rs : List Record} {flags : List Bool}
    (h : readerRows os prev pl (r :: rs) = .ok (flags, pl')) :
    (kindOk os r = false ∧ ∃ f, flags = false :: f ∧ readerRows os prev pl rs = .ok (f, pl')) ∨
    (kindOk os r = true ∧ beforePrev prev r.pos = false ∧ prev = some r.pos ∧
      ∃ f, flags = false :: f ∧ readerRows os prev pl rs = .ok (f, pl')) ∨
    (kindOk os r = true ∧ beforePrev prev r.pos = false ∧ prev ≠ some r.pos ∧
      ∃ f pl1, ploidyStep pl r.calls = .ok pl1 ∧ flags = true :: f ∧ readerRows os (some r.pos) pl1 rs = .ok (f, pl')) := by
  rw [readerRows] at h
  cases hk : kindOk os r
  · left
    simp only [hk, Bool.not_false, if_true] at h
    cases hrec : readerRows os prev pl rs with
    | error e => rw [hrec] at h; cases h
    | ok v =>
      obtain ⟨f, pl1⟩ := v
      rw [hrec] at h
      simp only [Except.ok.injEq, Prod.mk.injEq] at h
      exact ⟨rfl, f, h.1.symm, by rw [h.2]⟩
  · right
    simp only [hk, Bool.not_true, Bool.false_eq_true, if_false] at h
    cases hb : beforePrev prev r.pos
    · simp only [hb, Bool.false_eq_true, if_false] at h
      by_cases hd : prev = some r.pos
      · left
        have hd' : (prev == some r.pos) = true := by simp [hd]
        simp only [hd', if_true] at h
        cases hrec : readerRows os prev pl rs with
        | error e => rw [hrec] at h; cases h
        | ok v =>
          obtain ⟨f, pl1⟩ := v
          rw [hrec] at h
          simp only [Except.ok.injEq, Prod.mk.injEq] at h
          exact ⟨rfl, rfl, hd, f, h.1.symm, by rw [h.2]⟩
      · right
        have hd' : (prev == some r.pos) = false := by simpa using hd
        simp only [hd', Bool.false_eq_true, if_false] at h
        cases hpl : ploidyStep pl r.calls with
        | error e => rw [hpl] at h; cases h
        | ok pl1 =>
          rw [hpl] at h
          simp only at h
          cases hlong : genotypeTooLong r.calls
          case true => simp only [hlong, if_true] at h; cases h
          simp only [hlong, Bool.false_eq_true, if_false] at h
          cases hrec : readerRows os (some r.pos) pl1 rs with
          | error e => rw [hrec] at h; cases h
          | ok v =>
            obtain ⟨f, pl2⟩ := v
            rw [hrec] at h
            simp only [Except.ok.injEq, Prod.mk.injEq] at h
            exact ⟨rfl, rfl, hd, f, pl1, rfl, h.1.symm, by rw [← h.2]; exact hrec⟩
    · simp only [hb, if_true] at h
      cases h

theorem agree_aux (cfg : Cfg) (hmav : cfg.mav = false) (rs : List Record) :
    ∀ (pr pw pl pl' : Option Nat) (flags : List Bool), PrevInv cfg pr pw →
      readerRows cfg.onlySnvs pr pl rs = .ok (flags, pl') →
      reachFlags cfg pw rs = List.zipWith (fun k r => k && anyPhased cfg r.pos) flags rs := by
  induction rs with
  | nil =>
    intro pr pw pl pl' flags _ h
    simp only [readerRows, Except.ok.injEq, Prod.mk.injEq] at h
    rw [← h.1]; rfl
  | cons r rs ih =>
    intro pr pw pl pl' flags hinv h
    simp only [reachFlags, writeRecord_prev]
    rcases readerRows_cons_ok h with ⟨hk, f, rfl, hrec⟩ | ⟨hk, hsorted, hpr, f, rfl, hrec⟩ | ⟨hk, hsorted, hnodup, f, pl1, _, rfl, hrec⟩
    · have hreach : reaches cfg pw r = false := by rw [reaches_eq cfg hmav, hk]; rfl
      rw [hreach]
      simp only [Bool.false_eq_true, if_false, List.zipWith_cons_cons, Bool.false_and, List.cons.injEq, true_and]
      exact ih pr pw pl pl' f hinv hrec
    · -- duplicate for the reader
      have hreach : reaches cfg pw r = false := by
        rw [reaches_eq cfg hmav]
        by_cases hph : anyPhased cfg r.pos = true
        · have := hinv.1 r.pos hpr hph
          simp [this]
        · simp [hph]
      rw [hreach]
      simp only [Bool.false_eq_true, if_false, List.zipWith_cons_cons, Bool.false_and, List.cons.injEq, true_and]
      exact ih pr pw pl pl' f hinv hrec
    · -- kept by the reader: the writer's prev is not this position
      have hlt : ∀ p, pr = some p → p < r.pos := by
        intro p hp
        rw [hp] at hsorted hnodup
        simp only [beforePrev, decide_eq_false_iff_not, Nat.not_lt] at hsorted
        have hne : p ≠ r.pos := fun he => hnodup (by rw [he])
        omega
      have hpw : (pw == some r.pos) = false := by
        cases hpwq : pw with
        | none => rfl
        | some q =>
          obtain ⟨p, hp, hqp⟩ := hinv.2 q hpwq
          have := hlt p hp
          have : q ≠ r.pos := by omega
          simpa using this
      have hreach : reaches cfg pw r = anyPhased cfg r.pos := by
        rw [reaches_eq cfg hmav, hk, hpw]; simp
      rw [hreach]
      simp only [List.zipWith_cons_cons, Bool.true_and, List.cons.injEq, true_and]
      apply ih (some r.pos) _ pl1 pl' f _ hrec
      by_cases hph : anyPhased cfg r.pos = true
      · simp only [hph, if_true]
        exact ⟨fun p hp _ => hp ▸ rfl, fun q hq => ⟨r.pos, rfl, by cases hq; exact Nat.le_refl _⟩⟩
      · simp only [hph, Bool.false_eq_true, if_false]
        refine ⟨fun p hp hpp => ?_, fun q hq => ?_⟩
        · cases hp; exact absurd hpp hph
        · obtain ⟨p, hp, hqp⟩ := hinv.2 q hq
          have := hlt p hp
          exact ⟨r.pos, rfl, by omega⟩

/-! ## header: the definitions the body needs -/

theorem mem_dedup {a : String} {l : List String} : a ∈ dedup l ↔ a ∈ l := by
  induction l with
  | nil => simp [dedup]
  | cons b r ih =>
    unfold dedup
    split
    · rename_i hb
      rw [ih]
      constructor
      · exact List.mem_cons_of_mem _
      · intro h
        rcases List.mem_cons.mp h with rfl | h
        · exact hb
        · exact h
    · simp [ih]

theorem mem_firstUse {a : String} {l : List String} : a ∈ (dedup l.reverse).reverse ↔ a ∈ l := by
  simp [mem_dedup]

theorem defined_foldContigs_new (cs : List String) (h : List HLine) {c : String} (hc : c ∈ cs) :
    defined (cs.foldl (fun h c => addLine h ⟨"contig", some c, "", "", ""⟩) h) "contig" c = true := by
  induction cs generalizing h with
  | nil => cases hc
  | cons a rest ih =>
    rcases List.mem_cons.mp hc with rfl | hc
    · exact defined_foldContigs rest _ (defined_addLine_self h ⟨"contig", some c, "", "", ""⟩ c rfl)
    · exact ih _ hc

theorem defined_addFormats_new {fs : List String} {h h' : List HLine} (hout : addFormats h fs = some h')
    {f : String} (hf : f ∈ fs) : defined h' "FORMAT" f = true := by
  induction fs generalizing h with
  | nil => cases hf
  | cons a rest ih =>
    simp only [addFormats] at hout
    split at hout
    · rename_i num typ _
      rcases List.mem_cons.mp hf with rfl | hf
      · exact defined_addFormats hout (defined_addLine_self _ ⟨"FORMAT", some f, num, typ, ""⟩ f rfl)
      · exact ih hout hf
    · cases hout

theorem defined_addInfos_new {fs : List String} {h h' : List HLine} (hout : addInfos h fs = some h')
    {f : String} (hf : f ∈ fs) : defined h' "INFO" f = true := by
  induction fs generalizing h with
  | nil => cases hf
  | cons a rest ih =>
    simp only [addInfos] at hout
    split at hout
    · rename_i num typ _
      rcases List.mem_cons.mp hf with rfl | hf
      · exact defined_addInfos hout (defined_addLine_self _ ⟨"INFO", some f, num, typ, ""⟩ f rfl)
      · exact ih hout hf
    · cases hout

/-- everything the body uses is defined by the output header -/
theorem outputHeader_covers {tag : Tag} {cl : Bool} {h h' : List HLine} {cs fs is : List String}
    (hout : outputHeader tag cl h cs fs is = some h') :
    (∀ c ∈ cs, defined h' "contig" c = true) ∧ (∀ f ∈ fs, defined h' "FORMAT" f = true) ∧
    (∀ i ∈ is, defined h' "INFO" i = true) ∧ defined h' "FORMAT" tag.key = true := by
  unfold outputHeader at hout
  split at hout
  · cases hout
  · simp only at hout
    split at hout
    · cases hout
    · rename_i h2 hf
      split at hout
      · cases hout
      · rename_i h3 hi
        simp only [Option.some.injEq] at hout
        subst hout
        -- a definition present in h3 survives the last three steps
        have fin : ∀ key id, key ≠ "phasing" → defined h3 key id = true →
            defined (addLine (removeFirstPhasing (if cl = true then h3 ++ [⟨"commandline", none, "", "", ""⟩] else h3))
              ⟨"FORMAT", some (match tag with | .PS => ("PS", "1", "Integer") | .HP => ("HP", ".", "String")).1,
                (match tag with | .PS => ("PS", "1", "Integer") | .HP => ("HP", ".", "String")).2.1,
                (match tag with | .PS => ("PS", "1", "Integer") | .HP => ("HP", ".", "String")).2.2, ""⟩) key id = true := by
          intro key id hk hd
          apply defined_addLine
          apply defined_removeFirstPhasing _ hk
          split
          · exact defined_append_left hd
          · exact hd
        refine ⟨?_, ?_, ?_, ?_⟩
        · intro c hc
          apply fin _ _ (by decide)
          apply defined_addInfos hi
          apply defined_addFormats hf
          by_cases hd : defined h "contig" c = true
          · exact defined_foldContigs _ _ hd
          · apply defined_foldContigs_new
            simp only [List.mem_filter, mem_firstUse]
            exact ⟨hc, by simpa using hd⟩
        · intro f hfm
          apply fin _ _ (by decide)
          apply defined_addInfos hi
          by_cases hd : defined h "FORMAT" f = true
          · exact defined_addFormats hf (defined_foldContigs _ _ hd)
          · apply defined_addFormats_new hf
            apply List.mem_append_right
            simp only [List.mem_filter, mem_firstUse]
            exact ⟨hfm, by simpa using hd⟩
        · intro i hii
          apply fin _ _ (by decide)
          by_cases hd : defined h "INFO" i = true
          · exact defined_addInfos hi (defined_addFormats hf (defined_foldContigs _ _ hd))
          · apply defined_addInfos_new hi
            simp only [List.mem_filter, mem_firstUse]
            exact ⟨hii, by simpa using hd⟩
        · cases tag <;> exact defined_addLine_self _ _ _ rfl

/-! ## the writer's flags along a block -/

theorem writeChrom_getElem_reach (cfg : Cfg) (rs : List Record) (prev : Option Nat) (i : Nat) (o : Out)
    (h : (writeChrom cfg prev rs)[i]? = some o) :
    ∃ p r, rs[i]? = some r ∧ o = writeRecord cfg p r ∧ (reachFlags cfg prev rs)[i]? = some (reaches cfg p r) := by
  induction rs generalizing prev i with
  | nil => simp [writeChrom] at h
  | cons r rs ih =>
    cases i with
    | zero =>
      simp only [writeChrom, List.getElem?_cons_zero, Option.some.injEq] at h
      exact ⟨prev, r, rfl, h.symm, rfl⟩
    | succ i =>
      simp only [writeChrom, List.getElem?_cons_succ] at h
      obtain ⟨p, r', h1, h2, h3⟩ := ih _ i h
      exact ⟨p, r', by simpa using h1, h2, by simpa [reachFlags] using h3⟩

theorem writeRecord_changes_of_not_reaches (cfg : Cfg) (prev : Option Nat) (r : Record) (h : reaches cfg prev r = false) :
    (writeRecord cfg prev r).changes = [] := by
  unfold writeRecord
  simp [h]

/-! ## duplicate positions: once a record at `p` has been processed, no further record at `p` is (round 10) -/

theorem reaches_false_of_prev (cfg : Cfg) (p : Nat) (r : Record) (h : r.pos = p) : reaches cfg (some p) r = false := by
  simp [reaches, h]

theorem writeRecord_prev_of_reaches (cfg : Cfg) (prev : Option Nat) (r : Record) (h : reaches cfg prev r = true) :
    (writeRecord cfg prev r).prev = some r.pos := by
  simp [writeRecord, h]

theorem writeRecord_prev_of_not_reaches (cfg : Cfg) (prev : Option Nat) (r : Record) (h : reaches cfg prev r = false) :
    (writeRecord cfg prev r).prev = prev := by
  simp [writeRecord, h]

/-- `prev = some p` (whatever `p` is, 0 included) and only records at `p` up to index `j`: record `j` is not reached -/
theorem reachFlags_same_pos (cfg : Cfg) (p : Nat) (rs : List Record) (j : Nat) (hj : j < rs.length)
    (hsame : ∀ k, k ≤ j → ∀ r, rs[k]? = some r → r.pos = p) :
    (reachFlags cfg (some p) rs)[j]? = some false := by
  induction rs generalizing j with
  | nil => simp at hj
  | cons r rest ih =>
    have hr : r.pos = p := hsame 0 (Nat.zero_le _) r (by simp)
    have hnr : reaches cfg (some p) r = false := reaches_false_of_prev cfg p r hr
    have hprev : (writeRecord cfg (some p) r).prev = some p := writeRecord_prev_of_not_reaches cfg _ r hnr
    cases j with
    | zero => simp [reachFlags, hnr]
    | succ j' =>
      simp only [reachFlags, List.getElem?_cons_succ, hprev]
      exact ih j' (by simpa using hj) (fun k hk r' hr' => hsame (k + 1) (by omega) r' (by simpa using hr'))

/-! ## text of a sample column -/

theorem renderEntries_append (fmt : List String) (k : String) (c : Call) (hk : k ≠ "GT") :
    renderEntries (fmt ++ [k]) c = renderEntries fmt c ++ [renderVal (c.get k)] := by
  simp [renderEntries, hk]

theorem renderEntries_getElem (fmt : List String) (c : Call) (i : Nat) (k : String) (h : fmt[i]? = some k) (hk : k ≠ "GT") :
    (renderEntries fmt c)[i]? = some (renderVal (c.get k)) := by
  simp [renderEntries, List.getElem?_map, h, hk]

end WhVerif.C04

import WhVerif.Lemmas.C08Sum
/-!
# C08 lemmas, part 5: sums over the paths of (transmission, assignment) states, for a fixed bipartition.

`fwP β c s` / `bwQ β k c t` are the ordinary HMM forward / backward quantities of the chain for a *fixed* global
bipartition `β`; the enumeration over all paths of the spec factors through them.
-/
namespace WhVerif.C08
open Finset

section ListSums
variable {K : Type} [Field K]

theorem list_sum_swap {α β : Type} (l1 : List α) (l2 : List β) (g : α → β → K) :
    (l1.map (fun x => (l2.map (fun y => g x y)).sum)).sum = (l2.map (fun y => (l1.map (fun x => g x y)).sum)).sum := by
  induction l1 with
  | nil => simp
  | cons a l ih => simp only [List.map_cons, List.sum_cons, ih, List.sum_map_add]

theorem list_sum_mul_left {α : Type} (l : List α) (x : K) (f : α → K) :
    (l.map (fun a => x * f a)).sum = x * (l.map f).sum := by
  induction l with
  | nil => simp
  | cons a l ih => simp only [List.map_cons, List.sum_cons, ih, mul_add]

theorem list_sum_mul_right {α : Type} (l : List α) (x : K) (f : α → K) :
    (l.map (fun a => f a * x)).sum = (l.map f).sum * x := by
  induction l with
  | nil => simp
  | cons a l ih => simp only [List.map_cons, List.sum_cons, ih, add_mul]

theorem list_sum_congr {α : Type} (l : List α) (f g : α → K) (h : ∀ a ∈ l, f a = g a) :
    (l.map f).sum = (l.map g).sum := by
  rw [List.map_congr_left h]

theorem list_sum_flatMap {α β : Type} (l : List α) (g : α → List β) (f : β → K) :
    ((l.flatMap g).map f).sum = (l.map (fun x => ((g x).map f).sum)).sum := by
  induction l with
  | nil => simp
  | cons a l ih => simp only [List.flatMap_cons, List.map_append, List.sum_append, List.map_cons, List.sum_cons, ih]

theorem sum_range_list (n : Nat) (f : Nat → K) : ((List.range n).map f).sum = ∑ i ∈ range n, f i := by
  induction n with
  | zero => simp
  | succ n ih => rw [List.range_succ, List.map_append, List.sum_append, ih, sum_range_succ]; simp

/-- the (transmission, assignment) pairs as a `Finset` -/
def Weights.stF (W : Weights K) : Finset (Nat × Nat) := range W.nT ×ˢ range W.nA

theorem sum_states (W : Weights K) (f : Nat × Nat → K) :
    (W.states.map f).sum = ∑ s ∈ W.stF, f s := by
  unfold Weights.states Weights.stF
  rw [list_sum_flatMap, sum_product, ← sum_range_list]
  congr 1
  apply List.map_congr_left
  intro t _
  rw [List.map_map, ← sum_range_list]
  rfl

/-- paths of length `n+1`: first state, then a path of length `n` -/
theorem paths_sum_cons {σ : Type} (ls : List σ) (n : Nat) (f : List σ → K) :
    ((paths ls (n + 1)).map f).sum = (ls.map (fun s => ((paths ls n).map (fun p => f (s :: p))).sum)).sum := by
  simp only [paths]
  rw [list_sum_flatMap]
  simp only [List.map_map, Function.comp_def]

/-- paths of length `n+1`: a path of length `n`, then the last state -/
theorem paths_sum_snoc {σ : Type} (ls : List σ) (n : Nat) (f : List σ → K) :
    ((paths ls (n + 1)).map f).sum = ((paths ls n).map (fun p => (ls.map (fun s => f (p ++ [s]))).sum)).sum := by
  induction n generalizing f with
  | zero => simp [paths, list_sum_flatMap]
  | succ n ih =>
    rw [paths_sum_cons]
    have : ∀ s, ((paths ls (n + 1)).map (fun p => f (s :: p))).sum
        = ((paths ls n).map (fun p => (ls.map (fun s' => f (s :: (p ++ [s'])))).sum)).sum := fun s => ih _
    simp only [this]
    rw [paths_sum_cons]
    simp only [List.cons_append]

/-- paths of length `k+m`: a path of length `k` followed by a path of length `m` -/
theorem paths_sum_append {σ : Type} (ls : List σ) (k m : Nat) (f : List σ → K) :
    ((paths ls (k + m)).map f).sum
      = ((paths ls k).map (fun p => ((paths ls m).map (fun q => f (p ++ q))).sum)).sum := by
  induction k generalizing f with
  | zero => simp [paths]
  | succ k ih =>
    have : k + 1 + m = (k + m) + 1 := by omega
    rw [this, paths_sum_cons, paths_sum_cons]
    apply list_sum_congr
    intro s _
    rw [ih]
    rfl

theorem length_of_mem_paths {σ : Type} (ls : List σ) (n : Nat) (p : List σ) (h : p ∈ paths ls n) : p.length = n := by
  induction n generalizing p with
  | zero => simp [paths] at h; simp [h]
  | succ n ih =>
    simp only [paths, List.mem_flatMap, List.mem_map] at h
    obtain ⟨s, _, q, hq, rfl⟩ := h
    simp [ih q hq]

end ListSums

section PathW
variable {K : Type} [Field K] (F : Frame) (W : Weights K)

/-- the state the next column sees as its predecessor -/
def lastOr (prev : Option (Nat × Nat)) : List (Nat × Nat) → Option (Nat × Nat)
  | [] => prev
  | s :: r => lastOr (some s) r

theorem lastOr_snoc (prev : Option (Nat × Nat)) (p : List (Nat × Nat)) (s : Nat × Nat) :
    lastOr prev (p ++ [s]) = some s := by
  induction p generalizing prev with
  | nil => rfl
  | cons a p ih => simp [lastOr, ih]

theorem pathW_append (β c : Nat) (prev : Option (Nat × Nat)) (p q : List (Nat × Nat)) :
    pathW F W β c prev (p ++ q) = pathW F W β c prev p * pathW F W β (c + p.length) (lastOr prev p) q := by
  induction p generalizing c prev with
  | nil => simp [pathW, lastOr]
  | cons s r ih =>
    simp only [List.cons_append, pathW, ih, lastOr, List.length_cons]
    rw [mul_assoc]
    congr 3
    omega

/-- `stepW` looks at the predecessor only through its transmission value -/
theorem stepW_prev (β c : Nat) (q q' : Nat × Nat) (h : q.1 = q'.1) (s : Nat × Nat) :
    stepW F W β c (some q) s = stepW F W β c (some q') s := by
  simp [stepW, h]

/-- forward quantity of the chain for fixed `β`: total weight of the columns `0..c` over all paths ending in `s` -/
def fwP (β : Nat) : Nat → Nat × Nat → K
  | 0, s => stepW F W β 0 none s
  | c + 1, s => ∑ s' ∈ W.stF, fwP β c s' * stepW F W β (c + 1) (some s') s

/-- backward quantity for fixed `β`: total weight of the `k` columns `c, c+1, …` over all paths, when column `c-1`
had transmission `t` -/
def bwQ (β : Nat) : Nat → Nat → Nat → K
  | 0, _, _ => 1
  | k + 1, c, t => ∑ s ∈ W.stF, stepW F W β c (some (t, 0)) s * bwQ β k (c + 1) s.1

theorem paths_suffix_sum (β k c : Nat) (q : Nat × Nat) :
    ((paths W.states k).map (pathW F W β c (some q))).sum = bwQ F W β k c q.1 := by
  induction k generalizing c q with
  | zero => simp [paths, pathW, bwQ]
  | succ k ih =>
    rw [paths_sum_cons, sum_states]
    simp only [pathW, bwQ]
    apply sum_congr rfl; intro s _
    rw [list_sum_mul_left, ih, stepW_prev F W β c q (q.1, 0) rfl]

theorem paths_prefix_sum (β c : Nat) (G : Nat × Nat → K) :
    ((paths W.states c).map (fun p => (W.states.map (fun s =>
        pathW F W β 0 none p * stepW F W β c (lastOr none p) s * G s)).sum)).sum
      = ∑ s ∈ W.stF, fwP F W β c s * G s := by
  induction c generalizing G with
  | zero => simp [paths, pathW, lastOr, fwP, sum_states]
  | succ c ih =>
    rw [paths_sum_snoc]
    have h1 : ∀ p : List (Nat × Nat), p.length = c →
        (W.states.map (fun s' => (W.states.map (fun s =>
          pathW F W β 0 none (p ++ [s']) * stepW F W β (c + 1) (lastOr none (p ++ [s'])) s * G s)).sum)).sum
        = (W.states.map (fun s' => pathW F W β 0 none p * stepW F W β c (lastOr none p) s' *
            (∑ s ∈ W.stF, stepW F W β (c + 1) (some s') s * G s))).sum := by
      intro p hp
      apply list_sum_congr; intro s' _
      rw [sum_states, mul_sum]
      apply sum_congr rfl; intro s _
      rw [pathW_append, lastOr_snoc, hp]
      simp only [pathW, Nat.zero_add, mul_one]
      ring
    rw [list_sum_congr _ _ _ (fun p hp => h1 p (length_of_mem_paths _ _ _ hp)), ih]
    simp only [fwP]
    calc ∑ s' ∈ W.stF, fwP F W β c s' * ∑ s ∈ W.stF, stepW F W β (c + 1) (some s') s * G s
        = ∑ s' ∈ W.stF, ∑ s ∈ W.stF, fwP F W β c s' * stepW F W β (c + 1) (some s') s * G s := by
          apply sum_congr rfl; intro s' _
          rw [mul_sum]; apply sum_congr rfl; intro s _; ring
      _ = ∑ s ∈ W.stF, ∑ s' ∈ W.stF, fwP F W β c s' * stepW F W β (c + 1) (some s') s * G s := sum_comm
      _ = _ := by
          apply sum_congr rfl; intro s _
          rw [sum_mul]

end PathW
end WhVerif.C08

import WhVerif.Lemmas.C01CkptTable
import WhVerif.Lemmas.C01WitnessMain
import WhVerif.Lemmas.C01GrayOrder
/-!
# C01: the stored backtrace tables give the path the recomputing backtrace gives; witness theorems for
# `compute_table` as coded (any visiting order that enumerates all indices, any check-point spacing `k ≥ 1`).

* `backtraceO`/`witnessPathO` = `backtrace`/`witnessPath` of Model/C01Witness.lean with the visiting order as a
  parameter (`witnessPathO I idxOrd = witnessPath I` by unfolding).
* `fullPath_eq`: reading `index_backtrace_table`/`transmission_backtrace_table` = recomputing the arg-minima.
* `witnessPathO_spec`: the path is consistent and costs `dpCost`.
* `restrict_partOf`: `get_optimal_partitioning` (last write wins) restricted to a column = the path's index.
Core Lean only.
-/
set_option linter.unusedSimpArgs false
set_option linter.unusedVariables false
namespace WhVerif.C01
open WhVerif.Cost

/-- the visiting order enumerates exactly the indices `< 2^k` (repetitions would not matter) -/
structure OrdOk (ord : Ord) : Prop where
  mem : ∀ k i, i ∈ ord k ↔ i < 2 ^ k

theorem idxOrd_ok : OrdOk idxOrd := ⟨fun k i => by simp [idxOrd]⟩

theorem grayOrd_ok : OrdOk grayOrd := by
  constructor
  intro k i
  unfold grayOrd
  constructor
  · intro h
    obtain ⟨p, hp, rfl⟩ := List.mem_map.mp h
    exact (gray_enumerates k).2.2.2.1 p hp
  · exact gray_complete k i

/-! ### the older model with the visiting order as a parameter -/

def backtraceO (I : Inst) (ord : Ord) : Nat → List (Array (Option Nat)) → Nat → Nat → Option (List (Nat × Nat))
  | 0, _, idx, t => some [(idx, t)]
  | c + 1, tabs, idx, t =>
    match argminOver (List.range I.ntrans) (fun j =>
        cadd ((tabs.headD #[]).getD (idx % 2 ^ (I.sharedAt c).length * I.ntrans + j) none)
          (some (popcount (t ^^^ j) * I.recombAt (c + 1)))) with
    | none => none
    | some j =>
      match argminOver (candsO I ord c (idx % 2 ^ (I.sharedAt c).length))
          (fun i => dpCell I c (tabs.tail.headD #[]) i j) with
      | none => none
      | some i => (backtraceO I ord c tabs.tail i j).map (· ++ [(idx, t)])

def witnessPathO (I : Inst) (ord : Ord) : Option (List (Nat × Nat)) :=
  if I.ncols = 0 then some []
  else
    match argminOver (cellsOf ord (I.activeAt (I.ncols - 1)).length I.ntrans)
        (fun it => dpCell I (I.ncols - 1) (prevOf I (I.ncols - 1)) it.1 it.2) with
    | none => none
    | some start => backtraceO I ord (I.ncols - 1) (tabsFor I (I.ncols - 1)) start.1 start.2

theorem backtraceO_idx (I : Inst) : ∀ (c : Nat) (tabs : List (Array (Option Nat))) (idx t : Nat),
    backtraceO I idxOrd c tabs idx t = backtrace I c tabs idx t := by
  intro c
  induction c with
  | zero => intro tabs idx t; rfl
  | succ c ih =>
    intro tabs idx t
    rw [backtrace_succ]
    simp only [backtraceO, ih]
    rfl

/-- in index order the parametrised model IS the model of Model/C01Witness.lean -/
theorem witnessPathO_idx (I : Inst) : witnessPathO I idxOrd = witnessPath I := by
  by_cases h0 : I.ncols = 0
  · simp [witnessPathO, witnessPath, h0]
  · rw [witnessPath_eq I h0]
    unfold witnessPathO
    rw [if_neg h0]
    have : cellsOf idxOrd (I.activeAt (I.ncols - 1)).length I.ntrans
        = pairs (2 ^ (I.activeAt (I.ncols - 1)).length) I.ntrans := rfl
    rw [this]
    cases argminOver (pairs (2 ^ (I.activeAt (I.ncols - 1)).length) I.ntrans)
        (fun it => dpCell I (I.ncols - 1) (prevOf I (I.ncols - 1)) it.1 it.2) with
    | none => rfl
    | some start => exact backtraceO_idx I _ _ _ _

/-! ### the stored columns are the model's projection tables -/

theorem mem_candsO (I : Inst) (ord : Ord) (hord : OrdOk ord) (c bp i : Nat) :
    i ∈ candsO I ord c bp ↔
      i ∈ (List.range (2 ^ (I.activeAt c).length)).filter
        (fun i => natOfBits (fwdBits I c (bitsOf (I.activeAt c).length i)) == bp) := by
  unfold candsO
  simp only [List.mem_filter, hord.mem, List.mem_range]

theorem mem_cellsOf (ord : Ord) (hord : OrdOk ord) (k m i t : Nat) :
    (i, t) ∈ cellsOf ord k m ↔ (i, t) ∈ pairs (2 ^ k) m := by
  rw [mem_pairs]
  simp only [cellsOf, List.mem_flatMap, List.mem_map, List.mem_range, Prod.mk.injEq, hord.mem]
  constructor
  · rintro ⟨i', hi', t', ht', rfl, rfl⟩; exact ⟨hi', ht'⟩
  · rintro ⟨hi, ht⟩; exact ⟨i, hi, t, ht, rfl, rfl⟩

theorem projTable_size (I : Inst) (c : Nat) (prev : Array (Option Nat)) :
    (projTable I c prev).size = 2 ^ (I.sharedAt c).length * I.ntrans := by
  unfold projTable bucketMin
  simp only
  rw [foldl_modify_size]
  simp

theorem projTable_entry (I : Inst) (c : Nat) (prev : Array (Option Nat)) (bp j : Nat)
    (hbp : bp < 2 ^ (I.sharedAt c).length) (hj : j < I.ntrans) :
    (projTable I c prev).getD (bp * I.ntrans + j) none
      = minOver ((List.range (2 ^ (I.activeAt c).length)).filter
          (fun i => natOfBits (fwdBits I c (bitsOf (I.activeAt c).length i)) == bp))
        (fun i => dpCell I c prev i j) := by
  unfold projTable
  simp only
  rw [bucketMin_getD _ _ _ _ _ (enc_lt _ _ _ _ hbp hj)]
  rw [← minOver_map _ (fun i => (i, j)) (fun it : Nat × Nat => dpCell I c prev it.1 it.2)]
  apply minOver_congr_mem
  rintro ⟨i, t⟩
  simp only [List.mem_filter, mem_pairs, List.mem_map, List.mem_range, beq_iff_eq, Prod.mk.injEq]
  constructor
  · rintro ⟨⟨hi, ht⟩, hk⟩
    have := enc_inj _ _ _ _ _ ht hj hk
    exact ⟨i, ⟨hi, this.1⟩, rfl, this.2.symm⟩
  · rintro ⟨i', ⟨hi, hk⟩, rfl, rfl⟩
    exact ⟨⟨hi, hj⟩, by rw [hk]⟩

theorem projOf_computeColumn (I : Inst) (ord : Ord) (hord : OrdOk ord) (c : Nat) (prev : Array (Option Nat)) :
    projOf (computeColumn I ord c prev) = projTable I c prev := by
  apply Array.ext
  · rw [projOf_size, computeColumn_size, projTable_size]
  · intro k hk0 hk2
    have hk1 := hk0
    rw [projOf_size, computeColumn_size] at hk1
    have hm := ntrans_pos I
    have hkey : k / I.ntrans * I.ntrans + k % I.ntrans = k := by
      have := Nat.div_add_mod k I.ntrans
      rw [Nat.mul_comm] at this
      exact this
    have hbp : k / I.ntrans < 2 ^ (I.sharedAt c).length := by
      apply Nat.div_lt_of_lt_mul
      rw [Nat.mul_comm]; exact hk1
    have hj : k % I.ntrans < I.ntrans := Nat.mod_lt _ hm
    have h1 := projOf_computeColumn_entry I ord c prev _ _ hbp hj
    have h2 := projTable_entry I c prev _ _ hbp hj
    rw [hkey] at h1 h2
    rw [minOver_congr_mem _ _ _ (mem_candsO I ord hord c _), ← h2] at h1
    have e1 : (projOf (computeColumn I ord c prev)).getD k none = (projOf (computeColumn I ord c prev))[k] := by
      rw [Array.getD_eq_getD_getElem?, Array.getElem?_eq_getElem hk0]; rfl
    have e2 : (projTable I c prev).getD k none = (projTable I c prev)[k] := by
      rw [Array.getD_eq_getD_getElem?, Array.getElem?_eq_getElem hk2]; rfl
    rw [← e1, ← e2, h1]

theorem projOf_stored (I : Inst) (ord : Ord) (hord : OrdOk ord) (c : Nat) : projOf (stored I ord c) = tableAt I c := by
  induction c with
  | zero => exact projOf_computeColumn I ord hord 0 #[]
  | succ c ih =>
    simp only [stored, tableAt]
    rw [ih]
    exact projOf_computeColumn I ord hord (c + 1) _

theorem prevO_eq (I : Inst) (ord : Ord) (hord : OrdOk ord) (c : Nat) : prevO I ord c = prevOf I c := by
  unfold prevO prevOf
  by_cases h : c = 0
  · simp [h]
  · rw [if_neg h, if_neg h, projOf_stored I ord hord]

theorem stored_entry (I : Inst) (ord : Ord) (hord : OrdOk ord) (c bp j : Nat)
    (hbp : bp < 2 ^ (I.sharedAt c).length) (hj : j < I.ntrans) :
    (stored I ord c).getD (bp * I.ntrans + j) none
      = (argminOver (candsO I ord c bp) (fun i => dpCell I c (prevOf I c) i j)).bind (fun i =>
          (dpCell I c (prevOf I c) i j).map (fun x => (x, i, minRecomb I c (prevOf I c) i j))) := by
  rw [stored_eq, prevO_eq I ord hord, computeColumn_entry I ord c _ bp j hbp hj]

theorem table_entryO (I : Inst) (ord : Ord) (hord : OrdOk ord) (c bp j : Nat)
    (hbp : bp < 2 ^ (I.sharedAt c).length) (hj : j < I.ntrans) :
    (tableAt I c).getD (bp * I.ntrans + j) none
      = minOver (candsO I ord c bp) (fun i => dpCell I c (prevOf I c) i j) := by
  rw [table_entry I c bp j hbp hj]
  exact (minOver_congr_mem _ _ _ (mem_candsO I ord hord c bp)).symm

/-! ### reading the stored backtrace tables = recomputing the arg-minima -/

theorem minRecomb_succ (I : Inst) (c : Nat) (prev : Array (Option Nat)) (idx t : Nat) :
    minRecomb I (c + 1) prev idx t = (argminOver (List.range I.ntrans) (fun j =>
        cadd (prev.getD (idx % 2 ^ (I.sharedAt c).length * I.ntrans + j) none)
          (some (popcount (t ^^^ j) * I.recombAt (c + 1))))).getD 0 := by
  simp [minRecomb, prevCost]

theorem backtraceO_succ (I : Inst) (ord : Ord) (c : Nat) (tabs : List (Array (Option Nat))) (idx t : Nat) :
    backtraceO I ord (c + 1) tabs idx t =
      match argminOver (List.range I.ntrans) (fun j =>
          cadd ((tabs.headD #[]).getD (idx % 2 ^ (I.sharedAt c).length * I.ntrans + j) none)
            (some (popcount (t ^^^ j) * I.recombAt (c + 1)))) with
      | none => none
      | some j =>
        match argminOver (candsO I ord c (idx % 2 ^ (I.sharedAt c).length))
            (fun i => dpCell I c (tabs.tail.headD #[]) i j) with
        | none => none
        | some i => (backtraceO I ord c tabs.tail i j).map (· ++ [(idx, t)]) := rfl

theorem minOver_none_of_mem {α} (l : List α) (f : α → Option Nat) (h : minOver l f = none) (a : α) (ha : a ∈ l) :
    f a = none := by
  have := (minOver_isMin l f).lb a ha
  rw [h] at this
  cases hfa : f a with
  | none => rfl
  | some v => rw [hfa] at this; simp [cle] at this

/-- **the stored `index_backtrace_table` / `transmission_backtrace_table` lead where recomputation leads** -/
theorem walk_eq (I : Inst) (ord : Ord) (hord : OrdOk ord) : ∀ (c idx t : Nat),
    backtraceO I ord c (tabsFor I c) idx t
      = (walk I ord c idx (minRecomb I c (prevOf I c) idx t)).map (· ++ [(idx, t)]) := by
  intro c
  induction c with
  | zero => intro idx t; rfl
  | succ c ih =>
    intro idx t
    have hprev : prevOf I (c + 1) = tableAt I c := by simp [prevOf]
    have hbp : idx % 2 ^ (I.sharedAt c).length < 2 ^ (I.sharedAt c).length :=
      Nat.mod_lt _ (Nat.pow_pos (by omega))
    rw [backtraceO_succ, tabsFor_head, tabsFor_tail, tabsFor_head, hprev, minRecomb_succ]
    simp only [walk]
    cases hA : argminOver (List.range I.ntrans) (fun j =>
        cadd ((tableAt I c).getD (idx % 2 ^ (I.sharedAt c).length * I.ntrans + j) none)
          (some (popcount (t ^^^ j) * I.recombAt (c + 1)))) with
    | none =>
      simp only [Option.getD_none]
      have hmin := (argminOver_none _ _).mp hA
      have h0 := minOver_none_of_mem _ _ hmin 0 (List.mem_range.mpr (ntrans_pos I))
      have htab : (tableAt I c).getD (idx % 2 ^ (I.sharedAt c).length * I.ntrans + 0) none = none := by
        cases hx : (tableAt I c).getD (idx % 2 ^ (I.sharedAt c).length * I.ntrans + 0) none with
        | none => rfl
        | some v => rw [hx] at h0; simp [cadd] at h0
      rw [table_entryO I ord hord c _ 0 hbp (ntrans_pos I)] at htab
      rw [stored_entry I ord hord c _ 0 hbp (ntrans_pos I), (argminOver_none _ _).mpr htab]
      rfl
    | some j =>
      simp only [Option.getD_some]
      have hj : j < I.ntrans := List.mem_range.mp (argminOver_some _ _ _ hA).1
      rw [stored_entry I ord hord c _ j hbp hj]
      cases hB : argminOver (candsO I ord c (idx % 2 ^ (I.sharedAt c).length))
          (fun i => dpCell I c (prevOf I c) i j) with
      | none => rfl
      | some i =>
        obtain ⟨_, hval, hne⟩ := argminOver_some _ _ _ hB
        cases hd : dpCell I c (prevOf I c) i j with
        | none => rw [hd] at hval; exact absurd hval.symm hne
        | some x =>
          simp only [Option.bind_some, Option.map_some, hd]
          rw [ih i j]

/-- **the full stored table and the recomputing backtrace return the same path** -/
theorem fullPath_eq (I : Inst) (ord : Ord) (hord : OrdOk ord) : fullPath I ord = witnessPathO I ord := by
  unfold fullPath witnessPathO
  by_cases h0 : I.ncols = 0
  · simp [h0]
  · rw [if_neg h0, if_neg h0, prevO_eq I ord hord]
    unfold lastBest
    rw [strictMin_eq_argmin]
    cases hA : argminOver (cellsOf ord (I.activeAt (I.ncols - 1)).length I.ntrans)
        (fun it => dpCell I (I.ncols - 1) (prevOf I (I.ncols - 1)) it.1 it.2) with
    | none => rfl
    | some start =>
      obtain ⟨_, hval, hne⟩ := argminOver_some _ _ _ hA
      cases hd : dpCell I (I.ncols - 1) (prevOf I (I.ncols - 1)) start.1 start.2 with
      | none => rw [hd] at hval; exact absurd hval.symm hne
      | some x =>
        simp only [Option.bind_some, Option.map_some, hd]
        rw [walk_eq I ord hord]

/-- **refinement**: `compute_table` with check-point spacing `k ≥ 1` returns the path of the recomputing model -/
theorem ckptPathK_eq_witnessPathO (I : Inst) (ord : Ord) (hord : OrdOk ord) (k : Nat) (hk : 1 ≤ k) :
    ckptPathK I ord k = witnessPathO I ord := by
  rw [ckptPathK_eq I ord k hk, fullPath_eq I ord hord]

/-! ### the path is consistent and costs `dpCost` (any admissible order) -/

theorem bt_specO (I : Inst) (ord : Ord) (hord : OrdOk ord) (c : Nat) : ∀ (idx t v : Nat),
    idx < 2 ^ (I.activeAt c).length → t < I.ntrans →
    dpCell I c (prevOf I c) idx t = some v →
    ∃ path, backtraceO I ord c (tabsFor I c) idx t = some path ∧ PathOk I c path ∧
      path.getD c (0, 0) = (idx, t) ∧ pathCost I path c = some v := by
  induction c with
  | zero =>
    intro idx t v hidx ht hv
    refine ⟨[(idx, t)], rfl, ⟨rfl, ?_, ?_⟩, rfl, ?_⟩
    · intro c' hc'
      have : c' = 0 := by omega
      subst this
      exact ⟨hidx, ht⟩
    · intro c' hc'; omega
    · rw [← hv]
      simp [pathCost, pview, dpCell, gc, Nat.xor_self, popcount]
  | succ c ih =>
    intro idx t v hidx ht hv
    have hprev : prevOf I (c + 1) = tableAt I c := by simp [prevOf]
    rw [hprev] at hv
    simp only [dpCell, Nat.add_sub_cancel, if_neg (Nat.succ_ne_zero c)] at hv
    obtain ⟨vc, vm, hcur, hmin, hvsum⟩ := cadd_eq_some hv
    have hbp : idx % 2 ^ (I.sharedAt c).length < 2 ^ (I.sharedAt c).length :=
      Nat.mod_lt _ (Nat.pow_pos (by omega))
    rw [backtraceO_succ, tabsFor_head, tabsFor_tail, tabsFor_head, hprev]
    split
    · next hj =>
      rw [argminOver_none] at hj
      rw [hj] at hmin; cases hmin
    · next j hj =>
      obtain ⟨hjmem, hjval, _⟩ := argminOver_some _ _ _ hj
      have hjlt : j < I.ntrans := List.mem_range.mp hjmem
      rw [hmin] at hjval
      obtain ⟨v', pr, htab, hpr, hvm⟩ := cadd_eq_some hjval
      rw [table_entryO I ord hord c _ j hbp hjlt] at htab
      split
      · next hi =>
        rw [argminOver_none] at hi
        rw [hi] at htab; cases htab
      · next i hi =>
        obtain ⟨himem, hival, _⟩ := argminOver_some _ _ _ hi
        rw [mem_candsO I ord hord] at himem
        simp only [List.mem_filter, List.mem_range, beq_iff_eq] at himem
        rw [htab] at hival
        obtain ⟨p, hbt, hok, hlast, hcost⟩ := ih i j v' himem.1 hjlt hival
        refine ⟨p ++ [(idx, t)], by rw [hbt]; rfl, ⟨?_, ?_, ?_⟩, ?_, ?_⟩
        · simp [hok.len]
        · intro c' hc'
          by_cases hlt : c' ≤ c
          · rw [getD_snoc_lt _ _ _ _ (by rw [hok.len]; omega)]
            exact hok.bnd c' hlt
          · have : c' = c + 1 := by omega
            subst this
            rw [getD_snoc_eq _ _ _ _ hok.len.symm]
            exact ⟨hidx, ht⟩
        · intro c' hc'
          by_cases hlt : c' < c
          · rw [getD_snoc_lt _ _ _ _ (by rw [hok.len]; omega), getD_snoc_lt _ _ _ _ (by rw [hok.len]; omega)]
            exact hok.chain c' hlt
          · have : c' = c := by omega
            subst this
            rw [getD_snoc_eq _ _ _ _ hok.len.symm, getD_snoc_lt _ _ _ _ (by rw [hok.len]; omega), hlast]
            exact himem.2.symm
        · exact getD_snoc_eq _ _ _ _ hok.len.symm
        · simp only [pathCost]
          rw [pathCost_snoc _ _ _ _ (by rw [hok.len]; omega), hcost]
          unfold pview
          rw [getD_snoc_eq _ _ _ _ hok.len.symm, Nat.add_sub_cancel,
            getD_snoc_lt _ _ _ _ (by rw [hok.len]; omega), hlast]
          simp only [gc, hcur]
          cases hpr
          simp only [cadd, Option.some.injEq]
          omega

theorem dpCost_eqO (I : Inst) (ord : Ord) (hord : OrdOk ord) (h0 : I.ncols ≠ 0) :
    dpCost I = minOver (cellsOf ord (I.activeAt (I.ncols - 1)).length I.ntrans)
      (fun it => dpCell I (I.ncols - 1) (prevOf I (I.ncols - 1)) it.1 it.2) := by
  rw [dpCost_eq I h0]
  apply minOver_congr_mem
  rintro ⟨i, t⟩
  exact (mem_cellsOf ord hord _ _ i t).symm

theorem witnessPathO_spec (I : Inst) (ord : Ord) (hord : OrdOk ord) (h0 : I.ncols ≠ 0) (path : List (Nat × Nat))
    (hw : witnessPathO I ord = some path) :
    PathOk I (I.ncols - 1) path ∧ pathCost I path (I.ncols - 1) = dpCost I := by
  unfold witnessPathO at hw
  rw [if_neg h0] at hw
  split at hw
  · cases hw
  · next start hs =>
    obtain ⟨hmem, hval, hne⟩ := argminOver_some _ _ _ hs
    rw [← dpCost_eqO I ord hord h0] at hval hne
    obtain ⟨i, t⟩ := start
    rw [mem_cellsOf ord hord, mem_pairs] at hmem
    cases hv : dpCost I with
    | none => exact absurd hv hne
    | some v =>
      rw [hv] at hval
      obtain ⟨p, hbt, hok, _, hcost⟩ := bt_specO I ord hord (I.ncols - 1) i t v hmem.1 hmem.2 hval
      simp only at hw
      rw [hbt] at hw
      cases hw
      exact ⟨hok, hcost⟩

theorem witnessPathO_none_iff (I : Inst) (ord : Ord) (hord : OrdOk ord) :
    witnessPathO I ord = none ↔ dpCost I = none := by
  by_cases h0 : I.ncols = 0
  · simp [witnessPathO, dpCost, h0]
  unfold witnessPathO
  rw [if_neg h0, dpCost_eqO I ord hord h0]
  constructor
  · intro hw
    split at hw
    · next hs => exact (argminOver_none _ _).mp hs
    · next start hs =>
      exfalso
      obtain ⟨hmem, hval, hne⟩ := argminOver_some _ _ _ hs
      obtain ⟨i, t⟩ := start
      rw [mem_cellsOf ord hord, mem_pairs] at hmem
      cases hv : minOver (cellsOf ord (I.activeAt (I.ncols - 1)).length I.ntrans)
          (fun it => dpCell I (I.ncols - 1) (prevOf I (I.ncols - 1)) it.1 it.2) with
      | none => exact hne hv
      | some v =>
        rw [hv] at hval
        obtain ⟨p, hbt, _⟩ := bt_specO I ord hord (I.ncols - 1) i t v hmem.1 hmem.2 hval
        simp only at hw
        rw [hbt] at hw
        cases hw
  · intro hd
    rw [(argminOver_none _ _).mpr hd]

/-! ### `get_optimal_partitioning`: every write to a read writes the same bit -/

theorem foldl_set_const (ws : List (Nat × Bool)) (f : Nat → Bool) (h : ∀ w ∈ ws, w.2 = f w.1) :
    ∀ (init : List Bool) (r : Nat) (d : Bool),
    (ws.foldl (fun p w => p.set w.1 w.2) init).getD r d
      = if (∃ w ∈ ws, w.1 = r) ∧ r < init.length then f r else init.getD r d := by
  induction ws with
  | nil => intro init r d; simp
  | cons w ws ih =>
    intro init r d
    simp only [List.foldl_cons]
    rw [ih (fun w' hw' => h w' (List.mem_cons_of_mem _ hw'))]
    simp only [List.length_set, getD_set']
    by_cases hlen : r < init.length
    · by_cases hin : ∃ w' ∈ ws, w'.1 = r
      · have : ∃ w' ∈ w :: ws, w'.1 = r := by
          obtain ⟨w', hw', e⟩ := hin
          exact ⟨w', List.mem_cons_of_mem _ hw', e⟩
        rw [if_pos ⟨hin, hlen⟩, if_pos ⟨this, hlen⟩]
      · rw [if_neg (fun hh => hin hh.1)]
        by_cases hw : w.1 = r
        · rw [if_pos ⟨hw, by omega⟩, if_pos ⟨⟨w, List.mem_cons_self, hw⟩, hlen⟩, h w List.mem_cons_self, hw]
        · rw [if_neg (fun hh => hw hh.1), if_neg]
          rintro ⟨⟨w', hw', e⟩, _⟩
          rcases List.mem_cons.mp hw' with rfl | hw'
          · exact hw e
          · exact hin ⟨w', hw', e⟩
    · rw [if_neg (fun hh => hlen hh.2), if_neg (fun (hh : w.1 = r ∧ w.1 < init.length) => hlen (hh.1 ▸ hh.2)),
        if_neg (fun hh => hlen hh.2)]

theorem lookup_zip_getD (l : List Nat) (bs : List Bool) (hn : l.Nodup) (hl : bs.length = l.length) (j : Nat)
    (hj : j < l.length) : ((l.zip bs).lookup (l.getD j 0)).getD false = bs.getD j false := by
  induction l generalizing bs j with
  | nil => simp at hj
  | cons a l ih =>
    cases bs with
    | nil => simp at hl
    | cons b bs =>
      rw [List.nodup_cons] at hn
      cases j with
      | zero => simp [List.lookup_cons]
      | succ j =>
        have hj' : j < l.length := by simpa using hj
        have hmem : l.getD j 0 ∈ l := by
          simp [List.getD_eq_getElem?_getD, List.getElem?_eq_getElem hj']
        have hne : (l.getD j 0 == a) = false := by
          simp only [beq_eq_false_iff_ne]
          rintro e; rw [e] at hmem; exact hn.1 hmem
        have e1 : (a :: l).getD (j + 1) 0 = l.getD j 0 := by simp [List.getD_eq_getElem?_getD]
        have e2 : (b :: bs).getD (j + 1) false = bs.getD j false := by simp [List.getD_eq_getElem?_getD]
        rw [e1, e2, List.zip_cons_cons, List.lookup_cons, hne]
        exact ih bs hn.2 (by simpa using hl) j hj'

theorem bitInCol_getD (I : Inst) (c idx j : Nat) (hj : j < (I.activeAt c).length) :
    bitInCol I c idx ((I.activeAt c).getD j 0) = idx.testBit j := by
  unfold bitInCol
  rw [lookup_zip_getD _ _ (activeAt_nodup I c) (bitsOf_length _ _) j hj]
  simp [bitsOf, List.getD_eq_getElem?_getD, hj]

theorem mem_partWrites (I : Inst) (path : List (Nat × Nat)) (w : Nat × Bool) :
    w ∈ partWrites I path ↔ ∃ c j, c < path.length ∧ j < (I.activeAt c).length ∧
      w = ((I.activeAt c).getD j 0, (path.getD c (0, 0)).1.testBit j) := by
  simp only [partWrites, List.mem_flatMap, List.mem_map, List.mem_range]
  constructor
  · rintro ⟨c, hc, j, hj, rfl⟩; exact ⟨c, j, hc, hj, rfl⟩
  · rintro ⟨c, j, hc, hj, rfl⟩; exact ⟨c, hc, j, hj, rfl⟩

/-- under sortedness, on a consistent path, `get_optimal_partitioning` gives every read that is active in some
column the bit it has in its FIRST column (what `witness` reads off) -/
theorem partOf_getD (I : Inst) (h : WF I) (n : Nat) (path : List (Nat × Nat)) (hok : PathOk I n path) (r : Nat) :
    (partOf I path).getD r false =
      if (∃ c, c ≤ n ∧ r ∈ I.activeAt c) then (betaOf I path).getD r false
      else (List.replicate I.nreads true).getD r false := by
  unfold partOf
  rw [foldl_set_const (partWrites I path)
    (fun r => bitInCol I (I.read r).first (path.getD (I.read r).first (0, 0)).1 r)]
  · by_cases hex : ∃ c, c ≤ n ∧ r ∈ I.activeAt c
    · obtain ⟨c, hc, hr⟩ := hex
      have hrn : r < I.nreads := ((mem_activeAt I c r).mp hr).1
      obtain ⟨j, hj, hjr⟩ := List.getElem_of_mem hr
      have hw : ∃ w ∈ partWrites I path, w.1 = r := by
        refine ⟨_, (mem_partWrites I path _).mpr ⟨c, j, by rw [hok.len]; omega, hj, rfl⟩, ?_⟩
        simp [List.getD_eq_getElem?_getD, List.getElem?_eq_getElem hj, hjr]
      rw [if_pos ⟨hw, by simpa using hrn⟩, if_pos ⟨c, hc, hr⟩]
      unfold betaOf
      rw [getD_map_range, if_pos hrn]
    · rw [if_neg hex, if_neg]
      rintro ⟨⟨w, hw, e⟩, _⟩
      obtain ⟨c, j, hc, hj, rfl⟩ := (mem_partWrites I path w).mp hw
      apply hex
      refine ⟨c, by rw [hok.len] at hc; omega, ?_⟩
      rw [← e]
      simp [List.getD_eq_getElem?_getD, List.getElem?_eq_getElem hj]
  · intro w hw
    obtain ⟨c, j, hc, hj, rfl⟩ := (mem_partWrites I path w).mp hw
    simp only
    rw [← bitInCol_getD I c _ j hj]
    have hr : (I.activeAt c).getD j 0 ∈ I.activeAt c := by
      simp [List.getD_eq_getElem?_getD, List.getElem?_eq_getElem hj]
    have ha := (mem_activeAt I c _).mp hr
    have hcd : c = (I.read ((I.activeAt c).getD j 0)).first + (c - (I.read ((I.activeAt c).getD j 0)).first) := by
      omega
    have := bit_const I h n path hok ((I.activeAt c).getD j 0) (c - (I.read ((I.activeAt c).getD j 0)).first)
      (by rw [hok.len] at hc; omega) (by rw [← hcd]; exact hr)
    rw [← hcd] at this
    exact this

theorem restrict_partOf (I : Inst) (h : WF I) (n : Nat) (path : List (Nat × Nat)) (hok : PathOk I n path)
    (c : Nat) (hc : c ≤ n) :
    restrict (partOf I path) (I.activeAt c) = bitsOf (I.activeAt c).length (path.getD c (0, 0)).1 := by
  rw [← restrict_betaOf I h n path hok c hc]
  unfold restrict
  apply List.map_congr_left
  intro r hr
  rw [partOf_getD I h n path hok r, if_pos ⟨c, hc, hr⟩]

theorem partOf_length (I : Inst) (path : List (Nat × Nat)) : (partOf I path).length = I.nreads := by
  unfold partOf
  have : ∀ (ws : List (Nat × Bool)) (init : List Bool),
      (ws.foldl (fun p w => p.set w.1 w.2) init).length = init.length := by
    intro ws
    induction ws with
    | nil => intro init; rfl
    | cons w ws ih => intro init; simp [ih]
  rw [this]; simp

theorem costUpTo_partOf (I : Inst) (h : WF I) (n : Nat) (path : List (Nat × Nat)) (hok : PathOk I n path)
    (c : Nat) (hc : c ≤ n) :
    costUpTo I (partOf I path) (path.map (·.2)) c = pathCost I path c := by
  have hcol : ∀ c, c ≤ n → colTotal I (partOf I path) (path.map (·.2)) c = gc I c (pview I path c) := by
    intro c hc
    have : vw I c (partOf I path, path.map (·.2)) = pview I path c := by
      unfold vw pview
      simp only [restrict_partOf I h n path hok c hc, getD_map_snd]
    rw [← this]
    rfl
  induction c with
  | zero => simp only [costUpTo, pathCost, hcol 0 hc]
  | succ c ih => simp only [costUpTo, pathCost, hcol (c + 1) hc, ih (by omega)]

/-- every read lies in some column: `first ≤ last < ncols` (what `mkInst_spans` gives for real inputs) -/
def InCols (I : Inst) : Prop := ∀ r, r < I.nreads → (I.read r).first ≤ (I.read r).last ∧ (I.read r).last < I.ncols

theorem partOf_eq_betaOf (I : Inst) (h : WF I) (hs : InCols I) (path : List (Nat × Nat))
    (hok : PathOk I (I.ncols - 1) path) : partOf I path = betaOf I path := by
  apply List.ext_getElem
  · rw [partOf_length]; simp [betaOf]
  · intro r h0 h2
    have h1 : r < I.nreads := by rw [partOf_length] at h0; exact h0
    have e1 : (partOf I path)[r] = (partOf I path).getD r false := by
      rw [List.getD_eq_getElem?_getD, List.getElem?_eq_getElem h0]; rfl
    have e2 : (betaOf I path)[r] = (betaOf I path).getD r false := by
      rw [List.getD_eq_getElem?_getD, List.getElem?_eq_getElem h2]; rfl
    rw [e1, e2, partOf_getD I h _ path hok r, if_pos]
    have := hs r h1
    exact ⟨(I.read r).first, by omega, (mem_activeAt I _ r).mpr ⟨h1, Nat.le_refl _, this.1⟩⟩

end WhVerif.C01

import WhVerif.Lemmas.C11
import WhVerif.Model.C11Run
/-!
# C11: what the glue hands to the diploid formulas

With fixes/F46.patch (`fix46`) a diploid call is assessed only if it is phased, heterozygous and has alleles 0/1.  For
genotypes of length 2 (the reader's ploidy check) such a call is `0|1` or `1|0`, so the two haplotype strings `compare_pair`
builds for any block are a binary string and its complement: exactly the shape `dipl a`, `IsBinary a` all diploid theorems
of `Props/C11.lean` are stated for.
-/
namespace WhVerif.C11

theorem phasesOfP_getD_some (t : List Call) (common : List Nat) (i ps : Nat) (gt : List Nat)
    (h : (phasesOfP true 2 t common).getD i none = some (ps, gt)) :
    (∀ a ∈ gt, a ≤ 1) ∧ isHom gt = false := by
  simp only [phasesOfP, List.getD_eq_getElem?_getD, List.getElem?_map] at h
  cases hc : common[i]? with
  | none => simp [hc] at h
  | some q =>
    simp only [hc, Option.map_some, Option.getD_some] at h
    cases hf : t.find? (·.pos == q) with
    | none => simp [hf] at h
    | some c =>
      simp only [hf, Option.bind_some, Bool.true_and, beq_self_eq_true] at h
      split at h
      · cases h
      · rename_i hno
        simp only [phaseOf] at h
        split at h
        · rename_i hph
          injection h with h
          injection h with h1 h2
          subst h2
          constructor
          · intro a ha
            simp only [List.any_eq_true, decide_eq_true_eq, not_exists, not_and] at hno
            have := hno a ha
            omega
          · simp only [Bool.and_eq_true, Bool.not_eq_true'] at hph
            exact hph.2
        · cases h

theorem pair_of_binary_het (gt : List Nat) (hl : gt.length = 2) (hb : ∀ a ∈ gt, a ≤ 1) (hh : isHom gt = false) :
    gt = [0, 1] ∨ gt = [1, 0] := by
  match gt, hl with
  | [x, y], _ =>
    have hx := hb x (by simp)
    have hy := hb y (by simp)
    have : x = 0 ∨ x = 1 := by omega
    have : y = 0 ∨ y = 1 := by omega
    rcases ‹x = 0 ∨ x = 1› with rfl | rfl <;> rcases ‹y = 0 ∨ y = 1› with rfl | rfl <;> simp_all [isHom]

/-- every block of assessed diploid calls is a binary string and its complement -/
theorem assessed_block_is_dipl (t : List Call) (common block : List Nat)
    (hall : ∀ i ∈ block, ∃ ps gt, (phasesOfP true 2 t common).getD i none = some (ps, gt) ∧ gt.length = 2) :
    IsBinary (hapOf (phasesOfP true 2 t common) block 0) ∧
    (List.range 2).map (hapOf (phasesOfP true 2 t common) block) = dipl (hapOf (phasesOfP true 2 t common) block 0) := by
  have key : ∀ i ∈ block, ∃ ps gt, (phasesOfP true 2 t common).getD i none = some (ps, gt) ∧ (gt = [0, 1] ∨ gt = [1, 0]) := by
    intro i hi
    obtain ⟨ps, gt, h1, h2⟩ := hall i hi
    obtain ⟨hb, hh⟩ := phasesOfP_getD_some t common i ps gt h1
    exact ⟨ps, gt, h1, pair_of_binary_het gt h2 hb hh⟩
  generalize phasesOfP true 2 t common = ph at key
  clear hall
  constructor
  · intro x hx
    simp only [hapOf, List.mem_map] at hx
    obtain ⟨i, hi, rfl⟩ := hx
    obtain ⟨ps, gt, h1, h2⟩ := key i hi
    rw [h1]
    rcases h2 with rfl | rfl <;> simp
  · have h2 : List.range 2 = [0, 1] := by decide
    simp only [h2, List.map_cons, List.map_nil, dipl, flipBits, hapOf, List.map_map]
    congr 2
    apply List.map_congr_left
    intro i hi
    obtain ⟨ps, gt, h1, h2⟩ := key i hi
    simp only [Function.comp, h1]
    rcases h2 with rfl | rfl <;> simp

end WhVerif.C11

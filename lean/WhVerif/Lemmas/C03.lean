import WhVerif.Lemmas.C03UF
import WhVerif.Spec.C03
/-!
# `find_components` computes the read-connected components (helper lemmas for Props/C03)

Invariant `Inv u K E`: the union-find state `u` has key set `K`, is well-formed, every edge of `E` joins
two values with the same root, and every value is `E`-equivalent to its root.  Hence
`root a = root b ↔ Eqv E a b`, and `root a` is the least element of the class of `a`.
-/
namespace WhVerif.C03.L
open WhVerif.C18 WhVerif.C03 WhVerif.C03.UFL

/-- equivalence closure of an edge list -/
inductive Eqv (E : List (Nat × Nat)) : Nat → Nat → Prop
  | edge {a b : Nat} : (a, b) ∈ E → Eqv E a b
  | refl (a : Nat) : Eqv E a a
  | symm {a b : Nat} : Eqv E a b → Eqv E b a
  | trans {a b c : Nat} : Eqv E a b → Eqv E b c → Eqv E a c

theorem Eqv.mono {E E' : List (Nat × Nat)} (h : ∀ e, e ∈ E → e ∈ E') {a b : Nat} (hab : Eqv E a b) : Eqv E' a b := by
  induction hab with
  | edge he => exact .edge (h _ he)
  | refl a => exact .refl a
  | symm _ ih => exact .symm ih
  | trans _ _ ih1 ih2 => exact .trans ih1 ih2

structure Inv (u : UF) (K : List Nat) (E : List (Nat × Nat)) : Prop where
  wf : WF u
  keys : ∀ w, (u.parentOf w).isSome = true ↔ w ∈ K
  edges : ∀ a b, (a, b) ∈ E → u.root a = u.root b
  conn : ∀ v, Eqv E v (u.root v)

theorem Inv.root_eq_of_eqv {u K E} (hi : Inv u K E) {a b : Nat} (h : Eqv E a b) : u.root a = u.root b := by
  induction h with
  | edge he => exact hi.edges _ _ he
  | refl a => rfl
  | symm _ ih => exact ih.symm
  | trans _ _ ih1 ih2 => exact ih1.trans ih2

theorem Inv.root_iff {u K E} (hi : Inv u K E) (a b : Nat) : u.root a = u.root b ↔ Eqv E a b := by
  constructor
  · intro h
    have ha := hi.conn a
    have hb := hi.conn b
    rw [h] at ha
    exact .trans ha (.symm hb)
  · exact hi.root_eq_of_eqv

theorem inv_init (vals : List Nat) : Inv (UF.init vals) vals [] := by
  refine ⟨wf_init vals, fun w => ?_, (fun a b h => by cases h), fun v => ?_⟩
  · rw [parentOf_init]; by_cases h : w ∈ vals <;> simp [h]
  · rw [root_init]; exact .refl v

theorem inv_mergeOne {u K E} (hi : Inv u K E) (x y : Nat) (u' : UF) (h : mergeOne u x y = .ok u') :
    Inv u' K ((x, y) :: E) ∧ x ∈ K ∧ y ∈ K := by
  unfold mergeOne at h
  by_cases hxy : x = y
  · simp [hxy] at h
  · simp only [hxy, if_false] at h
    cases hm : u.merge x y with
    | none => simp [hm] at h
    | some u1 =>
      simp only [hm] at h
      have : u1 = u' := by injection h
      subst this
      obtain ⟨_, hxk, hyk, hw', hkeys, hroot⟩ := merge_spec u hi.wf x y u1 hm
      have hx := hi.conn x
      have hy := hi.conn y
      have hmono : ∀ {a b}, Eqv E a b → Eqv ((x, y) :: E) a b := fun h => Eqv.mono (fun e he => List.mem_cons_of_mem _ he) h
      have hnew : Eqv ((x, y) :: E) x y := .edge (List.mem_cons_self ..)
      -- the two roots are equivalent in the extended edge set
      have hrr : Eqv ((x, y) :: E) (u.root x) (u.root y) := .trans (.symm (hmono hx)) (.trans hnew (hmono hy))
      refine ⟨⟨hw', fun w => by rw [hkeys w]; exact hi.keys w, ?_, ?_⟩, (hi.keys x).mp hxk, (hi.keys y).mp hyk⟩
      · intro a b hab
        rcases List.mem_cons.mp hab with heq | hab'
        · have h1 : a = x := congrArg Prod.fst heq
          have h2 : b = y := congrArg Prod.snd heq
          subst h1; subst h2
          rw [hroot a, hroot b]
          by_cases hle : u.root a ≤ u.root b
          · have h1 : max (u.root a) (u.root b) = u.root b := by omega
            have h2 : min (u.root a) (u.root b) = u.root a := by omega
            rw [h1, h2]
            by_cases he : u.root a = u.root b
            · simp [he]
            · simp [he]
          · have h1 : max (u.root a) (u.root b) = u.root a := by omega
            have h2 : min (u.root a) (u.root b) = u.root b := by omega
            rw [h1, h2]
            have he : u.root b ≠ u.root a := by omega
            simp [he]
        · have := hi.edges a b hab'
          rw [hroot a, hroot b, this]
      · intro v
        rw [hroot v]
        have hv := hmono (hi.conn v)
        split
        · rename_i hmax
          rw [hmax] at hv
          by_cases hle : u.root x ≤ u.root y
          · have h1 : max (u.root x) (u.root y) = u.root y := by omega
            have h2 : min (u.root x) (u.root y) = u.root x := by omega
            rw [h1] at hv; rw [h2]
            exact .trans hv (.symm hrr)
          · have h1 : max (u.root x) (u.root y) = u.root x := by omega
            have h2 : min (u.root x) (u.root y) = u.root y := by omega
            rw [h1] at hv; rw [h2]
            exact .trans hv hrr
        · exact hv

/-- the edges merged for one block: first element with every later one -/
def starEdges : List Nat → List (Nat × Nat)
  | [] => []
  | f :: rest => rest.map (fun p => (f, p))

theorem inv_mergeRest {K} (first : Nat) : ∀ (rest : List Nat) (u : UF) (E : List (Nat × Nat)) (u' : UF),
    Inv u K E → mergeRest u first rest = .ok u' →
    ∃ E', Inv u' K E' ∧ (∀ e, e ∈ E' ↔ e ∈ E ∨ e ∈ rest.map (fun p => (first, p))) ∧
      (rest ≠ [] → first ∈ K) ∧ ∀ p ∈ rest, p ∈ K := by
  intro rest
  induction rest with
  | nil =>
    intro u E u' hi h
    simp only [mergeRest] at h
    have : u = u' := by injection h
    subst this
    exact ⟨E, hi, fun e => by simp, fun h => absurd rfl h, fun p hp => by cases hp⟩
  | cons p ps ih =>
    intro u E u' hi h
    simp only [mergeRest] at h
    cases hm : mergeOne u first p with
    | error e => simp [hm] at h
    | ok u1 =>
      simp only [hm] at h
      obtain ⟨hi1, hfk, hpk⟩ := inv_mergeOne hi first p u1 hm
      obtain ⟨E', hi', hE', _, hK⟩ := ih u1 _ u' hi1 h
      refine ⟨E', hi', fun e => ?_, fun _ => hfk, fun q hq => ?_⟩
      · rw [hE' e]; simp only [List.mem_cons, List.map_cons]
        constructor
        · rintro ((h | h) | h)
          · exact Or.inr (Or.inl h)
          · exact Or.inl h
          · exact Or.inr (Or.inr h)
        · rintro (h | h | h)
          · exact Or.inl (Or.inr h)
          · exact Or.inl (Or.inl h)
          · exact Or.inr h
      · rcases List.mem_cons.mp hq with rfl | hq'
        · exact hpk
        · exact hK q hq'

theorem inv_mergeBlock {K} (blk : List Nat) (u : UF) (E : List (Nat × Nat)) (u' : UF)
    (hi : Inv u K E) (h : mergeBlock u blk = .ok u') :
    ∃ E', Inv u' K E' ∧ (∀ e, e ∈ E' ↔ e ∈ E ∨ e ∈ starEdges blk) := by
  cases blk with
  | nil =>
    simp only [mergeBlock] at h
    have : u = u' := by injection h
    subst this
    exact ⟨E, hi, fun e => by simp [starEdges]⟩
  | cons f rest =>
    simp only [mergeBlock] at h
    obtain ⟨E', hi', hE', _⟩ := inv_mergeRest f rest u E u' hi h
    exact ⟨E', hi', fun e => by rw [hE' e]; simp [starEdges]⟩

theorem inv_mergeReads {K} (phased : List Nat) (het : Option HetMap) : ∀ (reads : List Read) (u : UF)
    (E : List (Nat × Nat)) (u' : UF), Inv u K E → mergeReads phased het u reads = .ok u' →
    ∃ E', Inv u' K E' ∧
      (∀ e, e ∈ E' ↔ e ∈ E ∨ ∃ r ∈ reads, ∃ blk, readBlock phased het r = .ok blk ∧ e ∈ starEdges blk) ∧
      (∀ r ∈ reads, ∃ blk, readBlock phased het r = .ok blk) := by
  intro reads
  induction reads with
  | nil =>
    intro u E u' hi h
    simp only [mergeReads] at h
    have : u = u' := by injection h
    subst this
    exact ⟨E, hi, fun e => by simp, fun r hr => by cases hr⟩
  | cons r rs ih =>
    intro u E u' hi h
    simp only [mergeReads] at h
    cases hb : readBlock phased het r with
    | error e => simp [hb] at h
    | ok blk =>
      simp only [hb] at h
      cases hm : mergeBlock u blk with
      | error e => simp [hm] at h
      | ok u1 =>
        simp only [hm] at h
        obtain ⟨E1, hi1, hE1⟩ := inv_mergeBlock blk u E u1 hi hm
        obtain ⟨E', hi', hE', hok⟩ := ih u1 E1 u' hi1 h
        refine ⟨E', hi', fun e => ?_, fun r' hr' => ?_⟩
        · rw [hE' e, hE1 e]
          constructor
          · rintro ((h | h) | ⟨r', hr', blk', hb', he⟩)
            · exact Or.inl h
            · exact Or.inr ⟨r, List.mem_cons_self .., blk, hb, h⟩
            · exact Or.inr ⟨r', List.mem_cons_of_mem _ hr', blk', hb', he⟩
          · rintro (h | ⟨r', hr', blk', hb', he⟩)
            · exact Or.inl (Or.inl h)
            · rcases List.mem_cons.mp hr' with rfl | hr''
              · rw [hb] at hb'
                have : blk = blk' := by injection hb'
                subst this
                exact Or.inl (Or.inr he)
              · exact Or.inr ⟨r', hr'', blk', hb', he⟩
        · rcases List.mem_cons.mp hr' with rfl | hr''
          · exact ⟨blk, hb⟩
          · exact hok r' hr''

theorem findAll_spec {K E} : ∀ (ps : List Nat) (u : UF) (res : List (Nat × Nat)), Inv u K E →
    findAll u ps = .ok res → res = ps.map (fun p => (p, u.root p)) := by
  intro ps
  induction ps with
  | nil =>
    intro u res _ h
    simp only [findAll] at h
    have : [] = res := by injection h
    simp [← this]
  | cons p ps ih =>
    intro u res hi h
    simp only [findAll, UF.find] at h
    cases hf : u.findNode p with
    | none => simp [hf] at h
    | some pr =>
      obtain ⟨u1, r⟩ := pr
      simp only [hf] at h
      obtain ⟨hr, _, hw1, hroot1, hkeys1⟩ := findNode_spec u hi.wf p u1 r hf
      have hi1 : Inv u1 K E := ⟨hw1, fun w => by rw [hkeys1 w]; exact hi.keys w,
        fun a b hab => by rw [hroot1 a, hroot1 b]; exact hi.edges a b hab,
        fun v => by rw [hroot1 v]; exact hi.conn v⟩
      cases hrest : findAll u1 ps with
      | error e => simp [hrest] at h
      | ok rest =>
        simp only [hrest] at h
        have hres : (p, r) :: rest = res := by injection h
        have := ih u1 rest hi1 hrest
        rw [← hres, this, hr]
        simp only [List.map_cons]
        congr 1
        apply List.map_congr_left
        intro q _
        rw [hroot1 q]

theorem lookup_map (f : Nat → Nat) : ∀ (l : List Nat) (p : Nat),
    (l.map (fun q => (q, f q))).lookup p = if p ∈ l then some (f p) else none := by
  intro l
  induction l with
  | nil => intro p; simp
  | cons a as ih =>
    intro p
    simp only [List.map_cons, List.lookup_cons]
    by_cases hpa : p = a
    · subst hpa; simp
    · have : (p == a) = false := by simp [hpa]
      simp only [this, ih p, List.mem_cons, hpa, false_or]

/-- what a successful run of `find_components` returns -/
theorem findComponents_spec (phased : List Nat) (reads : List Read) (master : Option (List Nat))
    (het : Option HetMap) (comps : List (Nat × Nat)) (h : findComponents phased reads master het = .ok comps) :
    ∃ u E, Inv u phased E ∧ comps = phased.eraseDups.map (fun p => (p, u.root p)) ∧
      (∀ e, e ∈ E ↔ (∃ r ∈ reads, ∃ blk, readBlock phased het r = .ok blk ∧ e ∈ starEdges blk)
                    ∨ (∃ m, master = some m ∧ e ∈ starEdges m)) ∧
      (∀ r ∈ reads, ∃ blk, readBlock phased het r = .ok blk) := by
  unfold findComponents at h
  cases hs : isSortedB phased with
  | false => simp [hs] at h
  | true =>
    simp only [hs, Bool.not_true, Bool.false_eq_true, if_false] at h
    cases h1 : mergeReads phased het (UF.init phased) reads with
    | error e => simp [h1] at h
    | ok u1 =>
      simp only [h1] at h
      obtain ⟨E1, hi1, hE1, hok⟩ := inv_mergeReads phased het reads _ [] u1 (inv_init phased) h1
      cases master with
      | none =>
        simp only at h
        refine ⟨u1, E1, hi1, findAll_spec _ u1 comps hi1 h, fun e => ?_, hok⟩
        rw [hE1 e]; simp
      | some m =>
        simp only at h
        cases h2 : mergeBlock u1 m with
        | error e => simp [h2] at h
        | ok u2 =>
          simp only [h2] at h
          obtain ⟨E2, hi2, hE2⟩ := inv_mergeBlock m u1 E1 u2 hi1 h2
          refine ⟨u2, E2, hi2, findAll_spec _ u2 comps hi2 h, fun e => ?_, hok⟩
          rw [hE2 e, hE1 e]; simp

/-! ### edges vs. the specification's `Linked` / `Connected` -/

theorem Chain.single {L : Nat → Nat → Prop} {a b : Nat} (h : L a b) : Chain L a b := .step h (.refl b)

theorem Chain.trans {L : Nat → Nat → Prop} {a b c : Nat} (h1 : Chain L a b) (h2 : Chain L b c) : Chain L a c := by
  induction h1 with
  | refl a => exact h2
  | step hl _ ih => exact .step hl (ih h2)

theorem Chain.symm {L : Nat → Nat → Prop} (hs : ∀ a b, L a b → L b a) {a b : Nat} (h : Chain L a b) : Chain L b a := by
  induction h with
  | refl a => exact .refl a
  | step hl _ ih => exact Chain.trans ih (Chain.single (hs _ _ hl))

theorem Linked.symm {phased reads master het} (a b : Nat) (h : Linked phased reads master het a b) :
    Linked phased reads master het b a := by
  rcases h with ⟨r, hr, ha, hb, hpa, hpb, hha, hhb⟩ | ⟨m, hm, ha, hb⟩
  · exact Or.inl ⟨r, hr, hb, ha, hpb, hpa, hhb, hha⟩
  · exact Or.inr ⟨m, hm, hb, ha⟩

theorem mem_readBlock {phased het r blk} (h : readBlock phased het r = .ok blk) (p : Nat) :
    p ∈ blk ↔ p ∈ r.positions ∧ p ∈ phased ∧ hetOk het r p := by
  unfold readBlock at h
  cases het with
  | none =>
    simp only at h
    have : r.positions.filter (fun p => phased.contains p) = blk := by injection h
    subst this
    simp [hetOk]
  | some hm =>
    simp only at h
    cases hl : hm.lookup r.sample with
    | some hs =>
      simp only [hl] at h
      have : r.positions.filter (fun p => phased.contains p && hs.contains p) = blk := by injection h
      subst this
      simp [hetOk, hl]
    | none =>
      simp only [hl] at h
      split at h
      · cases h
      · rename_i hany
        have : [] = blk := by injection h
        subst this
        simp [hetOk, hl]

theorem mem_starEdges_sub {blk : List Nat} {a b : Nat} (h : (a, b) ∈ starEdges blk) : a ∈ blk ∧ b ∈ blk := by
  cases blk with
  | nil => simp [starEdges] at h
  | cons f rest =>
    simp only [starEdges, List.mem_map] at h
    obtain ⟨p, hp, he⟩ := h
    have h1 : f = a := congrArg Prod.fst he
    have h2 : p = b := congrArg Prod.snd he
    subst h1; subst h2
    exact ⟨List.mem_cons_self .., List.mem_cons_of_mem _ hp⟩

theorem eqv_of_mem_block {E : List (Nat × Nat)} {blk : List Nat} (hE : ∀ e, e ∈ starEdges blk → e ∈ E)
    {a b : Nat} (ha : a ∈ blk) (hb : b ∈ blk) : Eqv E a b := by
  cases blk with
  | nil => cases ha
  | cons f rest =>
    have hf : ∀ x, x ∈ f :: rest → Eqv E f x := by
      intro x hx
      rcases List.mem_cons.mp hx with rfl | hx'
      · exact .refl _
      · exact .edge (hE _ (by simp only [starEdges, List.mem_map]; exact ⟨x, hx', rfl⟩))
    exact .trans (.symm (hf a ha)) (hf b hb)

/-- with the edge set of a successful run, `Eqv` is exactly the specification's `Connected` -/
theorem eqv_iff_connected {phased reads master het} {E : List (Nat × Nat)}
    (hE : ∀ e, e ∈ E ↔ (∃ r ∈ reads, ∃ blk, readBlock phased het r = .ok blk ∧ e ∈ starEdges blk)
                    ∨ (∃ m, master = some m ∧ e ∈ starEdges m))
    (hok : ∀ r ∈ reads, ∃ blk, readBlock phased het r = .ok blk) (a b : Nat) :
    Eqv E a b ↔ Connected phased reads master het a b := by
  constructor
  · intro h
    induction h with
    | edge he =>
      rename_i a b
      rcases (hE (a, b)).mp he with ⟨r, hr, blk, hb, hs⟩ | ⟨m, hm, hs⟩
      · obtain ⟨ha', hb'⟩ := mem_starEdges_sub hs
        have h1 := (mem_readBlock hb a).mp ha'
        have h2 := (mem_readBlock hb b).mp hb'
        exact Chain.single (Or.inl ⟨r, hr, h1.1, h2.1, h1.2.1, h2.2.1, h1.2.2, h2.2.2⟩)
      · obtain ⟨ha', hb'⟩ := mem_starEdges_sub hs
        exact Chain.single (Or.inr ⟨m, hm, ha', hb'⟩)
    | refl a => exact .refl a
    | symm _ ih => exact Chain.symm Linked.symm ih
    | trans _ _ ih1 ih2 => exact Chain.trans ih1 ih2
  · intro h
    induction h with
    | refl a => exact .refl a
    | step hl _ ih =>
      refine .trans ?_ ih
      rcases hl with ⟨r, hr, ha, hb, hpa, hpb, hha, hhb⟩ | ⟨m, hm, ha, hb⟩
      · obtain ⟨blk, hblk⟩ := hok r hr
        have hsub : ∀ e, e ∈ starEdges blk → e ∈ E := fun e he => (hE e).mpr (Or.inl ⟨r, hr, blk, hblk, he⟩)
        exact eqv_of_mem_block hsub ((mem_readBlock hblk _).mpr ⟨ha, hpa, hha⟩) ((mem_readBlock hblk _).mpr ⟨hb, hpb, hhb⟩)
      · have hsub : ∀ e, e ∈ starEdges m → e ∈ E := fun e he => (hE e).mpr (Or.inr ⟨m, hm, he⟩)
        exact eqv_of_mem_block hsub ha hb

/-- the summary used by the property theorems: a successful run returns, for every phased position,
the value `rep p` of a function whose kernel is `Connected` and which is a lower bound of its class -/
theorem findComponents_rep (phased : List Nat) (reads : List Read) (master : Option (List Nat))
    (het : Option HetMap) (comps : List (Nat × Nat)) (h : findComponents phased reads master het = .ok comps) :
    ∃ rep : Nat → Nat,
      (∀ p, compOf comps p = if p ∈ phased then some (rep p) else none) ∧
      (∀ a b, rep a = rep b ↔ Connected phased reads master het a b) ∧
      (∀ a, rep a ≤ a) ∧ (∀ a, a ∈ phased → rep a ∈ phased) ∧
      (∀ a, Connected phased reads master het a (rep a)) := by
  obtain ⟨u, E, hi, hc, hE, hok⟩ := findComponents_spec phased reads master het comps h
  refine ⟨u.root, fun p => ?_, fun a b => ?_, fun a => root_le u hi.wf a, fun a ha => ?_,
    fun a => (eqv_iff_connected hE hok a _).mp (hi.conn a)⟩
  · unfold compOf
    rw [hc, lookup_map]
    simp [List.mem_eraseDups]
  · rw [hi.root_iff a b]; exact eqv_iff_connected hE hok a b
  · have hk := (hi.keys a).mpr ha
    have := root_isRoot u hi.wf a hk
    exact (hi.keys _).mp (by simp [this])

/-! ### `compute_overall_components` -/

theorem mem_insertSorted (a p : Nat) : ∀ l : List Nat, p ∈ insertSorted a l ↔ p = a ∨ p ∈ l := by
  intro l
  induction l with
  | nil => simp [insertSorted]
  | cons b t ih =>
    simp only [insertSorted]
    split
    · simp
    · simp only [List.mem_cons, ih]
      constructor
      · rintro (h | h | h)
        · exact Or.inr (Or.inl h)
        · exact Or.inl h
        · exact Or.inr (Or.inr h)
      · rintro (h | h | h)
        · exact Or.inr (Or.inl h)
        · exact Or.inl h
        · exact Or.inr (Or.inr h)

theorem mem_foldr_insertSorted (p : Nat) : ∀ l : List Nat, p ∈ l.foldr insertSorted [] ↔ p ∈ l := by
  intro l
  induction l with
  | nil => simp
  | cons a t ih => simp only [List.foldr_cons, mem_insertSorted, ih, List.mem_cons]

theorem mem_sortDedup (l : List Nat) (p : Nat) : p ∈ sortDedup l ↔ p ∈ l := by
  unfold sortDedup
  rw [mem_foldr_insertSorted, List.mem_eraseDups]

/-- "position `p` is homozygous in some family member", as `compute_overall_components` determines it:
from the input genotypes (`homozygous_positions`, trusted mode) or from the super-reads (distrust mode) -/
def HomInSomeMember (distrust : Bool) (famSize : Nat) (homozygous : List Nat) (superreads : List SuperReads)
    (p : Nat) : Prop :=
  if distrust then ∃ s ∈ superreads.take famSize, ∃ v ∈ s.vars, v.1 = p ∧ isHomGt v.2.1 v.2.2 = true
  else p ∈ homozygous

theorem overallParams_master (accessible : List Nat) (distrust : Bool) (famSize : Nat) (genetic : Bool)
    (homozygous : List Nat) (superreads : List SuperReads) (hf : famSize > 1) (hg : genetic = true) :
    ∃ m, (overallParams accessible distrust famSize genetic homozygous superreads).1 = some m ∧
      ∀ p, p ∈ m ↔ p ∈ accessible ∧ HomInSomeMember distrust famSize homozygous superreads p := by
  unfold overallParams HomInSomeMember
  have hc : (decide (famSize > 1) && genetic) = true := by simp [hf, hg]
  cases distrust with
  | true =>
    simp only [if_true, hc]
    refine ⟨_, rfl, fun p => ?_⟩
    rw [mem_sortDedup]
    simp only [List.mem_flatMap, List.mem_map, List.mem_filter, Bool.and_eq_true, List.contains_iff_mem]
    constructor
    · rintro ⟨s, hs, v, ⟨hv, hacc, hhom⟩, rfl⟩
      exact ⟨hacc, s, hs, v, hv, rfl, hhom⟩
    · rintro ⟨hacc, s, hs, v, hv, rfl, hhom⟩
      exact ⟨s, hs, v, ⟨hv, hacc, hhom⟩, rfl⟩
  | false =>
    simp only [Bool.false_eq_true, if_false, hc, if_true]
    refine ⟨_, rfl, fun p => ?_⟩
    rw [mem_sortDedup]
    simp only [List.mem_filter, List.contains_iff_mem]
    constructor
    · rintro ⟨h1, h2⟩; exact ⟨h2, h1⟩
    · rintro ⟨h1, h2⟩; exact ⟨h2, h1⟩

theorem overallParams_no_master (accessible : List Nat) (distrust : Bool) (famSize : Nat) (genetic : Bool)
    (homozygous : List Nat) (superreads : List SuperReads) (h : famSize ≤ 1 ∨ genetic = false) :
    (overallParams accessible distrust famSize genetic homozygous superreads).1 = none := by
  unfold overallParams
  have hc : (decide (famSize > 1) && genetic) = false := by
    rcases h with h | h
    · have : ¬ famSize > 1 := by omega
      simp [this]
    · simp [h]
  cases distrust <;> simp [hc]

end WhVerif.C03.L

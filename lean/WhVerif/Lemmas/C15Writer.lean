import WhVerif.Model.C15Solve
import WhVerif.Lemmas.C15Glue
/-! Lemmas about the writer model of C15 (`writeLoop`) run in lockstep with the reader model (`readLoop`), and
about the phase dictionary (`phasesOf`). -/
namespace WhVerif.C15

/-- element-wise relation of two lists -/
inductive All2 {α β} (R : α → β → Prop) : List α → List β → Prop
  | nil : All2 R [] []
  | cons {a b as bs} : R a b → All2 R as bs → All2 R (a :: as) (b :: bs)

theorem All2.length_eq {α β} {R : α → β → Prop} {as : List α} {bs : List β} (h : All2 R as bs) :
    as.length = bs.length := by
  induction h with
  | nil => rfl
  | cons _ _ ih => simp [ih]

theorem All2.get {α β} {R : α → β → Prop} {as : List α} {bs : List β} (h : All2 R as bs) :
    ∀ (i : Nat) (h1 : i < as.length) (h2 : i < bs.length), R as[i] bs[i] := by
  induction h with
  | nil => intro i h1; simp at h1
  | cons hr _ ih =>
    intro i h1 h2
    cases i with
    | zero => simpa using hr
    | succ k => simpa using ih k (by simpa using h1) (by simpa using h2)

theorem All2.of_get {α β} {R : α → β → Prop} : ∀ (as : List α) (bs : List β), as.length = bs.length →
    (∀ (i : Nat) (h1 : i < as.length) (h2 : i < bs.length), R as[i] bs[i]) → All2 R as bs
  | [], [], _, _ => .nil
  | [], b :: bs, h, _ => by simp at h
  | a :: as, [], h, _ => by simp at h
  | a :: as, b :: bs, h, hr =>
    .cons (by have := hr 0 (by simp) (by simp); simp only [List.getElem_cons_zero] at this; exact this)
      (All2.of_get as bs (by simpa using h) (fun i h1 h2 => by
        have := hr (i + 1) (by simpa using h1) (by simpa using h2)
        simp only [List.getElem_cons_succ] at this; exact this))

theorem All2.append {α β} {R : α → β → Prop} {as1 as2 : List α} {bs1 bs2 : List β}
    (h1 : All2 R as1 bs1) (h2 : All2 R as2 bs2) : All2 R (as1 ++ as2) (bs1 ++ bs2) := by
  induction h1 with
  | nil => simpa using h2
  | cons hr _ ih => exact .cons hr ih

/-! ## the phase dictionary -/

theorem sameGenotype_of_perm (p g : List Allele) (h : p.Perm g) : sameGenotype p g = true := by
  simp only [sameGenotype, List.all_eq_true, beq_iff_eq]
  intro a _
  exact h.count_eq a

theorem lookup_phasesOf (mav : Bool) (cols : List Nat) (haps : List (List Allele)) (x : Nat) (p : List Allele)
    (h : lookupPhase (phasesOf mav cols haps) x = some p) :
    ∃ i, ∃ (h1 : i < cols.length) (h2 : i < haps.length), cols[i] = x ∧ haps[i] = p ∧ (-1 : Allele) ∉ p := by
  unfold lookupPhase at h
  obtain ⟨e, he, rfl⟩ := Option.map_eq_some_iff.mp h
  have hm := List.mem_of_find?_eq_some he
  have hx := List.find?_some he
  simp only [phasesOf, List.mem_filter] at hm
  obtain ⟨i, hi, hei⟩ := List.mem_iff_getElem.mp hm.1
  have hi' : i < cols.length ∧ i < haps.length := by
    have : i < min cols.length haps.length := by simpa [List.length_zip] using hi
    omega
  refine ⟨i, hi'.1, hi'.2, ?_, ?_, ?_⟩
  · have : (cols.zip haps)[i].1 = cols[i] := by simp
    rw [← this, hei]; simpa using hx
  · have : (cols.zip haps)[i].2 = haps[i] := by simp
    rw [← this, hei]
  · have := hm.2
    simp only [Bool.and_eq_true, Bool.not_eq_true'] at this
    intro hc
    have h2 : e.2.contains (-1) = true := List.contains_iff_mem.mpr hc
    rw [h2] at this
    exact absurd this.1 (by simp)

/-! ## reader and writer in lockstep -/

/-- what the property demands of one output call -/
def OutOK (c : Cfg) (ph : List (Nat × List Allele)) (T : List VRec) (r : VRec) (o : OutCall) : Prop :=
  (∀ a, o.gt.count a = r.gt.count a) ∧
  (o.phased = true → isHet r.gt = true ∧ readerSkips c r = false ∧ r ∈ T ∧ lookupPhase ph r.pos = some o.gt)

theorem removeExisting_ok (c : Cfg) (ph : List (Nat × List Allele)) (T : List VRec) (r : VRec) :
    OutOK c ph T r (removeExisting r) := by
  refine ⟨fun a => ?_, fun h => by simp [removeExisting] at h⟩
  exact (isort_perm _ _).count_eq a

/-- the repaired writer skips (before or after its duplicate test) exactly what the reader skips -/
theorem writer_skips_eq_reader (c : Cfg) (r : VRec) :
    (writerSkipsMulti true c r || writerSkipsSnv true c r) = readerSkips c r := by
  simp [writerSkipsMulti, writerSkipsSnv, readerSkips]

/-- Lockstep of `readLoop` and the repaired `writeLoop` over the same records.  Invariant on the two "previous
position" variables: if the reader's is `p` then the writer's is `p` too, or the sample has no phase or no component
at `p`.  `hgood`: the phase stored for the position of an accepted row is a rearrangement of that row's heterozygous
genotype. -/
theorem writeLoop_ok (c : Cfg) (ph : List (Nat × List Allele)) (comps : Nat → Option Nat) (T : List VRec) :
    ∀ (recs : List VRec) (rprev wprev : Option Nat) (t : List VRec),
      readLoop c rprev recs = .ok t → (∀ r ∈ t, r ∈ T) →
      (∀ p, rprev = some p → wprev = some p ∨ lookupPhase ph p = none ∨ comps p = none) →
      (∀ r ∈ t, ∀ p, lookupPhase ph r.pos = some p → isHet r.gt = true ∧ p.Perm r.gt) →
      All2 (OutOK c ph T) recs (writeLoop true c ph comps wprev recs)
  | [], _, _, _, _, _, _, _ => by simp [writeLoop]; exact .nil
  | r :: rs, rprev, wprev, t, hread, hT, hinv, hgood => by
    unfold readLoop at hread
    unfold writeLoop
    have hsk := writer_skips_eq_reader c r
    by_cases hs : readerSkips c r = true
    · simp only [hs, if_true] at hread
      have ih := writeLoop_ok c ph comps T rs rprev wprev t hread hT hinv hgood
      rw [hs] at hsk
      by_cases h1 : writerSkipsMulti true c r = true
      · simp only [h1, if_true]; exact .cons (removeExisting_ok c ph T r) ih
      · have h3 : writerSkipsSnv true c r = true := by
          simp only [Bool.not_eq_true] at h1; simpa [h1] using hsk
        simp only [h1, h3, if_true]
        by_cases h2 : (wprev == some r.pos) = true
        · simp only [h2, if_true]; exact .cons (removeExisting_ok c ph T r) ih
        · simp only [h2]; exact .cons (removeExisting_ok c ph T r) ih
    · have hs' : readerSkips c r = false := by simpa using hs
      rw [hs'] at hsk
      have h1 : writerSkipsMulti true c r = false := by
        cases h : writerSkipsMulti true c r <;> simp [h] at hsk ⊢
      have h3 : writerSkipsSnv true c r = false := by
        cases h : writerSkipsSnv true c r <;> simp [h, h1] at hsk ⊢
      simp only [h1, h3, Bool.false_eq_true, if_false]
      simp only [hs] at hread
      by_cases hns : outOfOrder rprev r.pos = true
      · simp [hns] at hread
      · simp only [hns] at hread
        by_cases hd : (rprev == some r.pos) = true
        · -- the reader skips a duplicated position
          simp only [hd, if_true] at hread
          have ih := writeLoop_ok c ph comps T rs rprev wprev t hread hT hinv hgood
          by_cases h2 : (wprev == some r.pos) = true
          · simp only [h2, if_true]; exact .cons (removeExisting_ok c ph T r) ih
          · simp only [h2]
            have hrp : rprev = some r.pos := by simpa using hd
            rcases hinv r.pos hrp with hw | hl | hc
            · exact absurd (by simp [hw]) h2
            · simp only [hl]; exact .cons (removeExisting_ok c ph T r) ih
            · rw [hc]
              cases lookupPhase ph r.pos <;> exact .cons (removeExisting_ok c ph T r) ih
        · simp only [hd] at hread
          by_cases hp : ploidyError c r = true
          · simp [hp] at hread
          · simp only [hp, Bool.false_eq_true, if_false] at hread
            cases hrec : readLoop c (some r.pos) rs with
            | error e => simp [hrec, consOk] at hread
            | ok t' =>
              simp only [hrec, consOk] at hread
              cases hread
              have hT' : ∀ x ∈ t', x ∈ T := fun x hx => hT x (List.mem_cons_of_mem _ hx)
              have hgood' : ∀ x ∈ t', ∀ p, lookupPhase ph x.pos = some p → isHet x.gt = true ∧ p.Perm x.gt :=
                fun x hx => hgood x (List.mem_cons_of_mem _ hx)
              by_cases h2 : (wprev == some r.pos) = true
              · simp only [h2, if_true]
                have hw : wprev = some r.pos := by simpa using h2
                exact .cons (removeExisting_ok c ph T r)
                  (writeLoop_ok c ph comps T rs (some r.pos) wprev t' hrec hT' (fun p hp' => Or.inl (hp' ▸ hw)) hgood')
              · simp only [h2]
                cases hl : lookupPhase ph r.pos with
                | none =>
                  exact .cons (removeExisting_ok c ph T r)
                    (writeLoop_ok c ph comps T rs (some r.pos) wprev t' hrec hT'
                      (fun p hp' => by cases hp'; exact Or.inr (Or.inl hl)) hgood')
                | some p =>
                  cases hc : comps r.pos with
                  | none =>
                    exact .cons (removeExisting_ok c ph T r)
                      (writeLoop_ok c ph comps T rs (some r.pos) wprev t' hrec hT'
                        (fun p hp' => by cases hp'; exact Or.inr (Or.inr hc)) hgood')
                  | some comp =>
                    obtain ⟨hhet, hperm⟩ := hgood r (by simp) p hl
                    have hsame : sameGenotype p r.gt = true := sameGenotype_of_perm p r.gt hperm
                    simp only [hsame, Bool.not_true, Bool.false_eq_true, if_false, hhet, if_true]
                    refine .cons ⟨fun a => hperm.count_eq a, fun _ => ⟨hhet, hs', hT r (by simp), hl⟩⟩ ?_
                    exact writeLoop_ok c ph comps T rs (some r.pos) (some r.pos) t' hrec hT' (fun p hp' => Or.inl hp') hgood'

end WhVerif.C15

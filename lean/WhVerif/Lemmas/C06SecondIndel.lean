import WhVerif.Lemmas.C06IndelWindow
import WhVerif.Lemmas.C06Lev
import WhVerif.Lemmas.C19Lev
/-!
The window lemma with a SECOND deletion / insertion of the read's haplotype inside the right half of the window
(finding F11), and cancellation of common prefixes / suffixes in the Levenshtein distance (from C19's lemmas).
-/
namespace WhVerif.C06

/-! ## Levenshtein: common ends cancel -/

theorem lev_eq_c19 (s t : List Char) : lev s t = WhVerif.C19.Spec.lev s t := by
  fun_induction lev s t with
  | case1 t => simp
  | case2 s hs => simp
  | case3 a s b t ih1 ih2 ih3 =>
    rw [WhVerif.C19.Spec.lev_cons_cons, ← ih1, ← ih2, ← ih3]
    by_cases h : a = b
    · simp [h]; omega
    · have : (a == b) = false := by simpa using h
      simp [h, this]; omega

theorem lev_append_left (p s t : List Char) : lev (p ++ s) (p ++ t) = lev s t := by
  induction p with
  | nil => rfl
  | cons a p ih =>
    simp only [List.cons_append]
    rw [lev_eq_c19, WhVerif.C19.Spec.lev_cons_same, ← lev_eq_c19, ih]

theorem lev_append_right (q s t : List Char) : lev (s ++ q) (t ++ q) = lev s t := by
  rw [lev_eq_c19, ← WhVerif.C19.Spec.lev_reverse, List.reverse_append, List.reverse_append, ← lev_eq_c19,
    lev_append_left, lev_eq_c19, WhVerif.C19.Spec.lev_reverse, ← lev_eq_c19]

/-! ## slices -/

theorem slice_add {α} (l : List α) (p n1 n2 : Nat) : slice l p (n1 + n2) = slice l p n1 ++ slice l (p + n1) n2 := by
  unfold slice
  rw [List.take_add, List.drop_drop]

theorem slice_length {α} (l : List α) (p n : Nat) (h : p + n ≤ l.length) : (slice l p n).length = n := by
  unfold slice; simp; omega

theorem slice_three {α} (X M Y : List α) (lw m2 : Nat) (hl : lw ≤ X.length) :
    slice (X ++ M ++ Y) (X.length - lw) (lw + M.length + m2) = slice X (X.length - lw) lw ++ M ++ slice Y 0 m2 := by
  unfold slice
  rw [List.append_assoc, List.drop_append_of_le_length (by omega)]
  have h1 : (List.drop (X.length - lw) X).length = lw := by simp; omega
  rw [List.take_append, h1, List.take_append]
  have e1 : lw + M.length + m2 - lw - M.length = m2 := by omega
  have e2 : lw + M.length + m2 - lw = M.length + m2 := by omega
  rw [e2]
  have e3 : M.length + m2 - M.length = m2 := by omega
  rw [e3, List.take_of_length_le (l := M) (by omega)]
  simp only [List.drop_zero, List.append_assoc, List.append_cancel_right_eq]
  rw [List.take_of_length_le (l := List.drop (X.length - lw) X) (i := lw) (by omega),
    List.take_of_length_le (l := List.drop (X.length - lw) X) (by omega)]

/-! ## prefix lengths across a second deletion / insertion -/

/-- a run of M/=/X blocks that ends before the `k`-th reference base is walked through -/
theorem prefixGo_through (f : Bool) (k : Nat) (Ms X : Cigar) (hM : Ms.all isMatchOp = true) (rp qp : Nat)
    (h : rp + refLen Ms < k) :
    prefixGo f k rp qp (Ms ++ X) = prefixGo f k (rp + refLen Ms) (qp + refLen Ms) X := by
  induction Ms generalizing rp qp with
  | nil => simp [refLen]
  | cons x xs ih =>
    obtain ⟨op, len⟩ := x
    simp only [List.all_cons, Bool.and_eq_true, isMatchOp] at hM
    have hr : consumesRef op = true := by simp [consumesRef, hM.1]
    simp only [refLen, hr, if_true] at h ⊢
    have hlt : ¬ (rp + len ≥ k) := by omega
    simp only [List.cons_append, prefixGo, hM.1, if_true, hlt, if_false]
    rw [ih hM.2 (rp + len) (qp + len) (by omega)]
    congr 1 <;> omega

/-- the prefix walk over `W2a ++ (uop, L) :: (W2b ++ B)`: M/=/X run, a deletion (`uop = 2`) or insertion (`uop = 1`) that
lies entirely before the `k`-th reference base, M/=/X run reaching it (or the end of the window) -/
theorem prefixGo_second (f : Bool) (k : Nat) (W2a W2b B : Cigar) (uop L rp qp : Nat)
    (ha : W2a.all isMatchOp = true) (hb : W2b.all isMatchOp = true) (hu : uop = 2 ∨ uop = 1)
    (hk : rp + refLen W2a + (if uop = 2 then L else 0) < k)
    (hreach : k ≤ rp + refLen W2a + (if uop = 2 then L else 0) + refLen W2b ∨ endsWindow f B = true) :
    prefixGo f k rp qp (W2a ++ (uop, L) :: (W2b ++ B)) =
      .ok (min k (rp + refLen W2a + (if uop = 2 then L else 0) + refLen W2b),
           qp + refLen W2a + (if uop = 1 then L else 0) +
             (min k (rp + refLen W2a + (if uop = 2 then L else 0) + refLen W2b)
               - (rp + refLen W2a + (if uop = 2 then L else 0)))) := by
  rcases hu with rfl | rfl
  · simp only [if_true, (by decide : ¬ (2 : Nat) = 1), if_false, Nat.add_zero] at hk hreach ⊢
    rw [prefixGo_through f k W2a _ ha rp qp (by omega)]
    have hm : isMatch 2 = false := by decide
    have hlt : ¬ (rp + refLen W2a + L ≥ k) := by omega
    simp only [prefixGo, hm, Bool.false_eq_true, if_false, beq_self_eq_true, if_true, hlt]
    rw [prefixGo_matches f k W2b B hb _ _ (by omega) hreach]
  · simp only [(by decide : ¬ (1 : Nat) = 2), if_false, if_true, Nat.add_zero] at hk hreach ⊢
    rw [prefixGo_through f k W2a _ ha rp qp (by omega)]
    have hm : isMatch 1 = false := by decide
    have h2 : ((1 : Nat) == 2) = false := by decide
    simp only [prefixGo, hm, Bool.false_eq_true, if_false, beq_self_eq_true, if_true, h2]
    rw [prefixGo_matches f k W2b B hb _ _ (by omega) hreach]

/-- the window of `realign` from the two halves of the split and their prefix lengths — no assumption on the bases of
the read -/
theorem window_core2 (f14 : Bool) (R query : Seq) (pos : Nat) (ref : Seq) (alts : List Seq) (cigar : Cigar)
    (i d qp oh : Nat) (Lc Rc : Cigar) (lw rr rq : Nat)
    (hl : splitLeft cigar i d = .ok Lc) (hpl : cigarPrefixLength f14 Lc oh = .ok (lw, lw))
    (hr : splitRight cigar i d = .ok Rc) (hpr : cigarPrefixLength f14 Rc (ref.length + oh) = .ok (rr, rq))
    (hR : slice R pos ref.length = ref)
    (hlw : lw ≤ pos) (hlq : lw ≤ qp) (hLrr : ref.length ≤ rr) (hend : pos + rr ≤ R.length) :
    window f14 ⟨pos, ref, alts⟩ query cigar i d ((qp : Nat) : Int) R oh =
      .ok ⟨slice query (qp - lw) (lw + rq),
           (ref :: alts).map (fun x => slice R (pos - lw) lw ++ x ++ slice R (pos + ref.length) (rr - ref.length))⟩ := by
  have hposR : pos ≤ R.length := by omega
  have hA1 : ¬ pos < lw := by omega
  have hA2 : ¬ pos + rr > R.length := by omega
  simp only [window, hl, hpl, hr, hpr, hA1, hA2, if_false, List.map_cons]
  have i1 : ((qp : Nat) : Int) - (lw : Int) = ((qp - lw : Nat) : Int) := by omega
  have i2 : ((qp : Nat) : Int) + (rq : Int) = ((qp + rq : Nat) : Int) := by omega
  have i3 : (pos : Int) - (lw : Int) = ((pos - lw : Nat) : Int) := by omega
  have i4 : (pos : Int) + (ref.length : Int) = ((pos + ref.length : Nat) : Int) := by omega
  have i5 : (pos : Int) + (rr : Int) = ((pos + rr : Nat) : Int) := by omega
  rw [i1, i2, i3, i4, i5]
  simp only [pySlice_nat]
  have e1 : pos - (pos - lw) = lw := by omega
  have e2 : pos + rr - (pos + ref.length) = rr - ref.length := by omega
  have e3 : pos + rr - (pos - lw) = (pos - (pos - lw)) + rr := by omega
  have e4 : qp + rq - (qp - lw) = lw + rq := by omega
  rw [e1, e2, e4]
  have hRd := ref_decomp R ref pos hR
  have hpadref : slice R (pos - lw) (pos + rr - (pos - lw)) =
      slice R (pos - lw) lw ++ ref ++ slice R (pos + ref.length) (rr - ref.length) := by
    rw [e3]
    conv => lhs; rw [hRd]
    have := slice_hap R ref pos ref.length (pos - lw) rr (by omega) hposR hLrr
    rw [this, e1]
  rw [hpadref]

/-- final assembly, shared by the three shapes of the variant's own operation: given the two splits and their prefix
lengths, with the right walk crossing the second indel (`Ld` reference bases deleted / `uq` inserted) after `g`
reference bases beyond REF and ending `m2` bases after it -/
theorem window_second_assemble (f14 : Bool) (R query : Seq) (pos : Nat) (ref a uq : Seq) (alts : List Seq) (cigar : Cigar)
    (i d oh : Nat) (Lc Rc : Cigar) (lw g Ld m2 nL sA : Nat) (Y : Seq)
    (hl : splitLeft cigar i d = .ok Lc) (hpl : cigarPrefixLength f14 Lc oh = .ok (lw, lw))
    (hr : splitRight cigar i d = .ok Rc)
    (hpr : cigarPrefixLength f14 Rc (ref.length + oh) = .ok (ref.length + g + Ld + m2, a.length + g + uq.length + m2))
    (hR : slice R pos ref.length = ref) (hlw : lw ≤ nL) (hnL : nL ≤ pos)
    (hend : pos + ref.length + g + Ld + m2 ≤ R.length)
    (hY : slice Y 0 m2 = slice R (pos + ref.length + g + Ld) m2)
    (hq : slice query sA (nL + (a.length + g + uq.length) + Y.length) =
      slice R (pos - nL) nL ++ (a ++ slice R (pos + ref.length) g ++ uq) ++ Y)
    (hm2 : m2 ≤ Y.length) :
    window f14 ⟨pos, ref, alts⟩ query cigar i d ((sA + nL : Nat) : Int) R oh
      = .ok ⟨slice R (pos - lw) lw ++ a ++ slice R (pos + ref.length) g ++ uq ++ slice R (pos + ref.length + g + Ld) m2,
             (ref :: alts).map (fun x => slice R (pos - lw) lw ++ x ++ slice R (pos + ref.length) g
               ++ slice R (pos + ref.length + g) Ld ++ slice R (pos + ref.length + g + Ld) m2)⟩ := by
  have hw := window_core2 f14 R query pos ref alts cigar i d (sA + nL) oh Lc Rc lw (ref.length + g + Ld + m2)
    (a.length + g + uq.length + m2) hl hpl hr hpr hR (by omega) (by omega) (by omega) (by omega)
  rw [hw]
  have hXlen : (slice R (pos - nL) nL).length = nL := slice_length _ _ _ (by omega)
  have hglen : (slice R (pos + ref.length) g).length = g := slice_length _ _ _ (by omega)
  -- the query slice
  have hqs : slice query (sA + nL - lw) (lw + (a.length + g + uq.length + m2)) =
      slice R (pos - lw) lw ++ a ++ slice R (pos + ref.length) g ++ uq ++ slice R (pos + ref.length + g + Ld) m2 := by
    have h1 := slice_slice query sA (nL + (a.length + g + uq.length) + Y.length) (nL - lw)
      (lw + (a.length + g + uq.length + m2)) (by omega)
    have e0 : sA + nL - lw = sA + (nL - lw) := by omega
    rw [e0, ← h1, hq]
    have h3 := slice_three (slice R (pos - nL) nL) (a ++ slice R (pos + ref.length) g ++ uq) Y lw m2 (by omega)
    rw [hXlen] at h3
    have eM : (a ++ slice R (pos + ref.length) g ++ uq).length = a.length + g + uq.length := by
      simp [hglen]; omega
    rw [eM] at h3
    have e1 : lw + (a.length + g + uq.length + m2) = lw + (a.length + g + uq.length) + m2 := by omega
    rw [e1, h3, slice_slice R (pos - nL) nL (nL - lw) lw (by omega), hY]
    have e2 : pos - nL + (nL - lw) = pos - lw := by omega
    rw [e2]
    simp [List.append_assoc]
  -- the right reference pad
  have hpad : slice R (pos + ref.length) (ref.length + g + Ld + m2 - ref.length) =
      slice R (pos + ref.length) g ++ slice R (pos + ref.length + g) Ld ++ slice R (pos + ref.length + g + Ld) m2 := by
    have e : ref.length + g + Ld + m2 - ref.length = g + Ld + m2 := by omega
    rw [e, slice_add, slice_add]
    have e' : pos + ref.length + (g + Ld) = pos + ref.length + g + Ld := by omega
    rw [e']
  rw [hqs, hpad]
  simp [List.append_assoc]

/-- the window lemma with a second deletion (`uop = 2`, `L` reference bases after `upos`) or insertion (`uop = 1`, bases
`uq`) of the read's haplotype inside the RIGHT half of the window: CIGAR
`A ++ W1 ++ [(op, len)] ++ W2a ++ [(uop, L)] ++ W2b ++ B` with `W1`, `W2a`, `W2b` runs of M/=/X operations; `(op, len)` is
the operation of the variant under re-alignment (shapes as in `window_canonical`; `r0` = reference bases from the
variant position to the end of that operation); the read's bases are a copy of the haplotype carrying allele `a` at
the variant and the non-reference allele at the second indel (`hq`).  Then the window's query is the padded carried
allele WITH the second indel applied, whereas every padded allele has the reference there:
`query = lp ++ a ++ g ++ uq ++ t`, `padded = [lp ++ x ++ g ++ ur ++ t]`, `ur` = the deleted reference bases. -/
theorem window_second_indel_right (f14 : Bool) (R query : Seq) (pos : Nat) (ref a uq : Seq) (alts : List Seq)
    (A W1 W2a W2b B : Cigar) (op len d uop L start oh r0 : Nat) (hoh : 0 < oh)
    (hW1 : W1.all isMatchOp = true) (hW2a : W2a.all isMatchOp = true) (hW2b : W2b.all isMatchOp = true)
    (hu : uop = 2 ∨ uop = 1) (huq : uq.length = if uop = 1 then L else 0)
    (hshape : (isMatch op = true ∧ d < len ∧ d + ref.length ≤ len ∧ a.length = ref.length ∧ r0 = len - d)
      ∨ (op = 2 ∧ a = [] ∧ len = ref.length ∧ d = 0 ∧ 0 < len ∧ r0 = len)
      ∨ (op = 1 ∧ ref = [] ∧ len = a.length ∧ d = 0 ∧ 0 < len ∧ r0 = 0))
    (hpos : pos = start + refLen A + refLen W1 + d)
    (hR : slice R pos ref.length = ref)
    (hin2 : r0 + refLen W2a + (if uop = 2 then L else 0) < ref.length + oh)
    (hin : pos + r0 + refLen W2a + (if uop = 2 then L else 0) + refLen W2b ≤ R.length)
    (hleft : oh ≤ refLen W1 + d ∨ endsWindow f14 A.reverse = true)
    (hright : ref.length + oh ≤ r0 + refLen W2a + (if uop = 2 then L else 0) + refLen W2b ∨ endsWindow f14 B = true)
    (hq : slice query (qLen A) (refLen W1 + d + (a.length + (r0 - ref.length + refLen W2a) + uq.length) + refLen W2b) =
      slice R (start + refLen A) (refLen W1 + d) ++ (a ++ slice R (pos + ref.length) (r0 - ref.length + refLen W2a) ++ uq)
        ++ slice R (pos + r0 + refLen W2a + (if uop = 2 then L else 0)) (refLen W2b)) :
    ∃ lw m2, window f14 ⟨pos, ref, alts⟩ query (A ++ W1 ++ (op, len) :: (W2a ++ (uop, L) :: (W2b ++ B))) (A ++ W1).length d
        ((qLen (A ++ W1) + d : Nat) : Int) R oh
      = .ok ⟨slice R (pos - lw) lw ++ a ++ slice R (pos + ref.length) (r0 - ref.length + refLen W2a) ++ uq
               ++ slice R (pos + r0 + refLen W2a + (if uop = 2 then L else 0)) m2,
             (ref :: alts).map (fun x => slice R (pos - lw) lw ++ x ++ slice R (pos + ref.length) (r0 - ref.length + refLen W2a)
               ++ slice R (pos + r0 + refLen W2a) (if uop = 2 then L else 0)
               ++ slice R (pos + r0 + refLen W2a + (if uop = 2 then L else 0)) m2)⟩ := by
  have hq1 := qLen_matches W1 hW1
  have hW1r : W1.reverse.all isMatchOp = true := by rw [all_reverse]; exact hW1
  generalize hLd : (if uop = 2 then L else 0) = Ld at *
  have hrev : ∀ X : Cigar, X ++ (A ++ W1).reverse = (X ++ W1.reverse) ++ A.reverse := by
    intro X; simp [List.reverse_append, List.append_assoc]
  have hqp : qLen (A ++ W1) + d = qLen A + (refLen W1 + d) := by rw [qLen_append, hq1]; omega
  have hYlen : (slice R (pos + r0 + refLen W2a + Ld) (refLen W2b)).length = refLen W2b := slice_length _ _ _ (by omega)
  -- everything that depends on the shape: the two splits, the two prefix lengths, `|ref| ≤ r0`, `q0 = |a| + (r0 - |ref|)`
  have key : ∃ Lc Rc lw, splitLeft (A ++ W1 ++ (op, len) :: (W2a ++ (uop, L) :: (W2b ++ B))) (A ++ W1).length d = .ok Lc ∧
      cigarPrefixLength f14 Lc oh = .ok (lw, lw) ∧ lw ≤ refLen W1 + d ∧
      splitRight (A ++ W1 ++ (op, len) :: (W2a ++ (uop, L) :: (W2b ++ B))) (A ++ W1).length d = .ok Rc ∧
      ref.length ≤ r0 ∧
      cigarPrefixLength f14 Rc (ref.length + oh) =
        .ok (min (ref.length + oh) (r0 + refLen W2a + Ld + refLen W2b),
             a.length + (r0 - ref.length) + refLen W2a + uq.length +
               (min (ref.length + oh) (r0 + refLen W2a + Ld + refLen W2b) - (r0 + refLen W2a + Ld))) := by
    rcases hshape with ⟨hm, hdl, hd, hal, hr0⟩ | ⟨rfl, rfl, rfl, rfl, h0, hr0⟩ | ⟨rfl, rfl, hl, rfl, h0, hr0⟩
    · have hcr : consumesRef op = true := by simp [consumesRef, hm]
      have hML : ((if d > 0 then [(op, d)] else []) ++ W1.reverse).all isMatchOp = true := by
        by_cases h : d > 0 <;> simp [h, isMatchOp, hm, hW1r]
      have hMLr : refLen ((if d > 0 then [(op, d)] else []) ++ W1.reverse) = refLen W1 + d := by
        by_cases h : d > 0
        · simp [h, refLen, hcr, refLen_reverse]; omega
        · have : d = 0 := by omega
          simp [this, refLen_reverse]
      have hsl := splitLeft_at (A ++ W1) (W2a ++ (uop, L) :: (W2b ++ B)) op len d (by omega)
      rw [hrev] at hsl
      have hsr := splitRight_at (A ++ W1) (W2a ++ (uop, L) :: (W2b ++ B)) op len d hdl
      have hpl := prefix_matches f14 oh _ A.reverse hML hoh (by rw [hMLr]; exact hleft)
      rw [hMLr] at hpl
      refine ⟨_, _, _, hsl, hpl, Nat.min_le_right _ _, hsr, by omega, ?_⟩
      unfold cigarPrefixLength
      have hlt : ¬ (0 + (len - d) ≥ ref.length + oh) := by omega
      simp only [prefixGo, hm, if_true, hlt, if_false]
      rw [prefixGo_second f14 _ W2a W2b B uop L _ _ hW2a hW2b hu (by rw [hLd]; omega)
        (by rw [hLd]; exact hright.elim (fun h => Or.inl (by omega)) Or.inr)]
      simp only [hLd, huq]
      rcases hu with rfl | rfl <;> simp at huq hLd ⊢ <;> subst hLd <;> constructor <;> omega
    · -- the deletion of the variant
      have hsl := splitLeft_at (A ++ W1) (W2a ++ (uop, L) :: (W2b ++ B)) 2 ref.length 0 (Nat.zero_le _)
      rw [hrev] at hsl
      have hsr := splitRight_at (A ++ W1) (W2a ++ (uop, L) :: (W2b ++ B)) 2 ref.length 0 h0
      simp only [Nat.lt_irrefl, gt_iff_lt, if_false, List.nil_append, Nat.sub_zero] at hsl hsr
      have hpl := prefix_matches f14 oh _ A.reverse hW1r hoh (by
        rw [refLen_reverse]
        rcases hleft with h | h
        · left; omega
        · right; exact h)
      rw [refLen_reverse] at hpl
      refine ⟨_, _, _, hsl, hpl, by omega, hsr, by omega, ?_⟩
      unfold cigarPrefixLength
      have hm : isMatch 2 = false := by decide
      have hlt : ¬ (0 + ref.length ≥ ref.length + oh) := by omega
      simp only [prefixGo, hm, Bool.false_eq_true, if_false, beq_self_eq_true, if_true, hlt]
      rw [prefixGo_second f14 _ W2a W2b B uop L _ _ hW2a hW2b hu (by rw [hLd]; omega)
        (by rw [hLd]; exact hright.elim (fun h => Or.inl (by omega)) Or.inr)]
      simp only [hLd, huq]
      rcases hu with rfl | rfl <;> simp at huq hLd ⊢ <;> subst hLd <;> constructor <;> omega
    · -- the insertion of the variant
      have hsl := splitLeft_at (A ++ W1) (W2a ++ (uop, L) :: (W2b ++ B)) 1 len 0 (Nat.zero_le _)
      rw [hrev] at hsl
      have hsr := splitRight_at (A ++ W1) (W2a ++ (uop, L) :: (W2b ++ B)) 1 len 0 h0
      simp only [Nat.lt_irrefl, gt_iff_lt, if_false, List.nil_append, Nat.sub_zero] at hsl hsr
      have hpl := prefix_matches f14 oh _ A.reverse hW1r hoh (by
        rw [refLen_reverse]
        rcases hleft with h | h
        · left; omega
        · right; exact h)
      rw [refLen_reverse] at hpl
      refine ⟨_, _, _, hsl, hpl, by omega, hsr, by simp, ?_⟩
      unfold cigarPrefixLength
      have hm : isMatch 1 = false := by decide
      have h2 : ((1 : Nat) == 2) = false := by decide
      simp only [prefixGo, hm, Bool.false_eq_true, if_false, beq_self_eq_true, if_true, h2]
      rw [prefixGo_second f14 _ W2a W2b B uop L _ _ hW2a hW2b hu (by rw [hLd]; simp at hin2 ⊢; omega)
        (by rw [hLd]; exact hright.elim (fun h => Or.inl (by simp at h ⊢; omega)) Or.inr)]
      simp only [hLd, huq]
      rcases hu with rfl | rfl <;> simp at huq hLd ⊢ <;> subst hLd <;> constructor <;> omega
  obtain ⟨Lc, Rc, lw, hsl, hpl, hlwle, hsr, hr0, hpr⟩ := key
  generalize hm2 : min (ref.length + oh) (r0 + refLen W2a + Ld + refLen W2b) - (r0 + refLen W2a + Ld) = m2 at *
  have hminge : r0 + refLen W2a + Ld ≤ min (ref.length + oh) (r0 + refLen W2a + Ld + refLen W2b) := by omega
  have hpr' : cigarPrefixLength f14 Rc (ref.length + oh) =
      .ok (ref.length + (r0 - ref.length + refLen W2a) + Ld + m2,
           a.length + (r0 - ref.length + refLen W2a) + uq.length + m2) := by
    rw [hpr]; congr 2 <;> omega
  have hw := window_second_assemble f14 R query pos ref a uq alts _ (A ++ W1).length d oh Lc Rc lw
    (r0 - ref.length + refLen W2a) Ld m2 (refLen W1 + d) (qLen A) (slice R (pos + r0 + refLen W2a + Ld) (refLen W2b))
    hsl hpl hsr hpr' hR hlwle (by omega) (by omega)
    (by
      rw [slice_slice R _ (refLen W2b) 0 m2 (by omega)]
      congr 1; omega)
    (by
      rw [hYlen]
      have e : pos - (refLen W1 + d) = start + refLen A := by omega
      rw [e]; exact hq)
    (by rw [hYlen]; omega)
  refine ⟨lw, m2, ?_⟩
  rw [hqp]
  rw [hw]
  have e1 : pos + ref.length + (r0 - ref.length + refLen W2a) = pos + r0 + refLen W2a := by omega
  rw [e1]


end WhVerif.C06

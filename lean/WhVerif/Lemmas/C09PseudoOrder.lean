import WhVerif.Lemmas.C09Pseudo
/-!
# C09: `phased_blocks_as_reads` emits its reads sorted by first position (for position-sorted rows)

The dict `read_map` is filled in file order, so the blocks come out in the order of their first eligible row
(`blockKeys` = `eraseDups` of the block ids in row order).
-/
namespace WhVerif.C09
open WhVerif.C04

/-- `eraseDups` keeps first occurrences: of two keys in the output, the earlier one has a row at or before every
    row of the later one -/
theorem keys_order (f : VarPhase → Option Int) : ∀ (n : Nat) (l : List VarPhase), l.length ≤ n → PosSorted l →
    ((l.map f).eraseDups).Pairwise (fun b1 b2 => ∀ u ∈ l, f u = b2 → ∃ x ∈ l, f x = b1 ∧ x.pos ≤ u.pos)
  | _, [], _, _ => by simp
  | 0, x :: xs, h, _ => by simp at h
  | n + 1, x :: xs, hlen, hs => by
    rw [List.map_cons, List.eraseDups_cons, List.filter_map, List.pairwise_cons]
    constructor
    · intro b2 _ u hu _
      refine ⟨x, List.mem_cons_self, rfl, ?_⟩
      rcases List.mem_cons.mp hu with hux | hu'
      · rw [hux]; exact Nat.le_refl _
      · exact Nat.le_of_lt ((List.pairwise_cons.mp hs).1 u hu')
    · have hlen' : (xs.filter ((fun b => !b == f x) ∘ f)).length ≤ n := by
        have := List.length_filter_le ((fun b => !b == f x) ∘ f) xs
        simp only [List.length_cons] at hlen
        omega
      have ih := keys_order f n (xs.filter ((fun b => !b == f x) ∘ f)) hlen'
        (hs.sublist (List.Sublist.trans List.filter_sublist (List.sublist_cons_self _ _)))
      refine List.Pairwise.imp_of_mem ?_ ih
      intro b1 b2 _ hb2 hR u hu hfu
      have hb2' : b2 ≠ f x := by
        rw [List.mem_eraseDups, List.mem_map] at hb2
        obtain ⟨y, hy, rfl⟩ := hb2
        have := (List.mem_filter.mp hy).2
        simpa using this
      have hux : u ∈ xs.filter ((fun b => !b == f x) ∘ f) := by
        rcases List.mem_cons.mp hu with hux | hu'
        · rw [hux] at hfu; exact absurd hfu.symm hb2'
        · rw [List.mem_filter]; refine ⟨hu', ?_⟩
          simp only [Function.comp, hfu]
          simpa using hb2'
      obtain ⟨x', hx', h1, h2⟩ := hR u hux hfu
      exact ⟨x', List.mem_cons_of_mem _ (List.mem_filter.mp hx').1, h1, h2⟩

theorem firstPos_mem_positions {rows : List VarPhase} {t : PRead} (ht : t ∈ blocksAsReads 2 rows) :
    firstPos t ∈ t.2.2.map (·.1) := by
  have hlen := (mem_blocksAsReads' ht).2.2
  unfold firstPos
  cases h : t.2.2.map (·.1) with
  | nil =>
    rw [positions_of_mem ht, List.map_eq_nil_iff] at h
    rw [h] at hlen; simp at hlen
  | cons x xs => simp

/-- **emission order**: for rows sorted by position `phased_blocks_as_reads` yields its reads sorted by first
    position already (the two reads of a block are adjacent and tie) -/
theorem blocksAsReads_sorted {rows : List VarPhase} (hs : PosSorted rows) :
    (blocksAsReads 2 rows).Pairwise (fun x y => firstPos x ≤ firstPos y) := by
  have hinner : ∀ b ∈ blockKeys (rows.filter (eligible 2)), ∀ x,
      x ∈ (List.range 2).filterMap (fun i =>
        if (pseudoRead (rows.filter (eligible 2)) b i).length > 1
        then some (b, i, pseudoRead (rows.filter (eligible 2)) b i) else none) →
      x.1 = b ∧ x ∈ blocksAsReads 2 rows := by
    intro b hb x hx
    rw [List.mem_filterMap] at hx
    obtain ⟨i, hi, hx⟩ := hx
    split at hx
    · rename_i hlen
      cases hx
      refine ⟨rfl, mem_blocksAsReads.mpr ⟨hb, ?_, rfl, hlen⟩⟩
      rw [range_two] at hi; simpa using hi
    · cases hx
  have hel : PosSorted (rows.filter (eligible 2)) := hs.sublist List.filter_sublist
  have hfirst : ∀ t ∈ blocksAsReads 2 rows, ∀ v ∈ blockRows rows t.1, firstPos t ≤ v.pos := by
    intro t ht v hv
    have hps : (t.2.2.map (·.1)).Pairwise (· < ·) := by
      rw [positions_of_mem ht]; exact (hs.sublist (blockRows_sublist rows _)).map_pos
    have hvp : v.pos ∈ t.2.2.map (·.1) := by
      rw [positions_of_mem ht]; exact List.mem_map.mpr ⟨v, hv, rfl⟩
    exact (sorted_bounds hps hvp).1
  unfold blocksAsReads
  simp only []
  rw [List.pairwise_flatMap]
  constructor
  · intro b hb
    apply List.pairwise_of_forall_mem_list
    intro x hx y hy
    obtain ⟨hx1, hx2⟩ := hinner b hb x hx
    obtain ⟨hy1, hy2⟩ := hinner b hb y hy
    have hy3 := firstPos_mem_positions hy2
    rw [positions_of_mem hy2, hy1, ← hx1] at hy3
    obtain ⟨v, hv, hvp⟩ := List.mem_map.mp hy3
    rw [← hvp]; exact hfirst x hx2 v hv
  · have hk := keys_order blockOfRow _ (rows.filter (eligible 2)) (Nat.le_refl _) hel
    refine List.Pairwise.imp_of_mem ?_ hk
    intro b1 b2 hb1 hb2 hR x hx y hy
    obtain ⟨hx1, hx2⟩ := hinner b1 hb1 x hx
    obtain ⟨hy1, hy2⟩ := hinner b2 hb2 y hy
    have hy3 := firstPos_mem_positions hy2
    rw [positions_of_mem hy2] at hy3
    obtain ⟨u, hu, hup⟩ := List.mem_map.mp hy3
    have hu' := mem_blockRows.mp hu
    obtain ⟨x', hx', hfx, hle⟩ := hR u (List.mem_filter.mpr ⟨hu'.1, hu'.2.1⟩) (by rw [hu'.2.2, hy1])
    have hx'' := List.mem_filter.mp hx'
    have : x' ∈ blockRows rows x.1 := mem_blockRows.mpr ⟨hx''.1, hx''.2, by rw [hfx, hx1]⟩
    have := hfirst x hx2 x' this
    omega

end WhVerif.C09

import WhVerif.Lemmas.C08Unfold
/-!
# C08 lemmas, part 3: per-column scaling divisors only multiply whole columns by a non-zero constant,
which cancels in `numer / total`.
-/
namespace WhVerif.C08
open Finset

variable {K : Type} [Field K]

/-- all three divisors of every column are non-zero (the code's are sums of positive numbers) -/
def Scal.NonZero (S : Scal K) : Prop := ∀ c, S.fw c ≠ 0 ∧ S.bw c ≠ 0 ∧ S.bw2 c ≠ 0

theorem Scal.one_nonZero : (Scal.one : Scal K).NonZero := by
  intro c; simp [Scal.one]

@[simp] theorem Scal.one_fw (c : Nat) : (Scal.one : Scal K).fw c = 1 := rfl
@[simp] theorem Scal.one_bw (c : Nat) : (Scal.one : Scal K).bw c = 1 := rfl
@[simp] theorem Scal.one_bw2 (c : Nat) : (Scal.one : Scal K).bw2 c = 1 := rfl

variable (F : Frame) (W : Weights K) (S : Scal K)

theorem cell_scale (c : Nat) (co : Col) (prevS prev1 : Array K) (x : K)
    (h : ∀ k, tblAt prevS k = x * tblAt prev1 k) (idx t a : Nat) :
    cell W S c co prevS idx t a =
      ((if c = 0 then 1 else x) * (S.fw c)⁻¹) * cell W Scal.one c co prev1 idx t a := by
  unfold cell
  rw [sumPrev_eq, sumPrev_eq]
  by_cases hc : c = 0
  · simp [hc, Scal.one, div_eq_mul_inv]; ring
  · simp only [hc, if_false, Scal.one, div_one]
    rw [div_eq_mul_inv]
    have : ∑ j ∈ range W.nT, tblAt prevS (idx % 2 ^ co.bwdW * W.nT + j) * W.trans c j t
        = x * ∑ j ∈ range W.nT, tblAt prev1 (idx % 2 ^ co.bwdW * W.nT + j) * W.trans c j t := by
      rw [mul_sum]; apply sum_congr rfl; intro j _; rw [h]; ring
    rw [this]; ring

theorem fwdStep_scale (c : Nat) (prevS prev1 : Array K) (x : K)
    (h : ∀ k, tblAt prevS k = x * tblAt prev1 k) (k : Nat) :
    tblAt (fwdStep F W S c prevS) k =
      ((if c = 0 then 1 else x) * (S.fw c)⁻¹) * tblAt (fwdStep F W Scal.one c prev1) k := by
  unfold fwdStep
  simp only []
  rw [tblAt_mkTbl, tblAt_mkTbl]
  split
  · rw [sumN_eq_sum, sumN_eq_sum, mul_sum]
    apply sum_congr rfl; intro idx _
    split
    · rw [tblAt_mkTbl, tblAt_mkTbl]
      split
      · rw [sumN_eq_sum, sumN_eq_sum, mul_sum]
        apply sum_congr rfl; intro a _
        exact cell_scale W S c _ prevS prev1 x h _ _ _
      · simp
    · simp
  · simp

theorem fwdTbl_scale (hS : S.NonZero) (c : Nat) :
    ∃ x : K, x ≠ 0 ∧ ∀ k, tblAt (fwdTbl F W S c) k = x * tblAt (fwdTbl F W Scal.one c) k := by
  induction c with
  | zero =>
    refine ⟨(S.fw 0)⁻¹, inv_ne_zero (hS 0).1, fun k => ?_⟩
    have := fwdStep_scale F W S 0 #[] #[] 1 (by intro k; simp) k
    simpa [fwdTbl] using this
  | succ c ih =>
    obtain ⟨x, hx, h⟩ := ih
    refine ⟨x * (S.fw (c + 1))⁻¹, mul_ne_zero hx (inv_ne_zero (hS (c + 1)).1), fun k => ?_⟩
    have := fwdStep_scale F W S (c + 1) _ _ x h k
    simpa [fwdTbl] using this

theorem bRaw_scale (c : Nat) (nextS next1 : Array K) (y : K)
    (h : ∀ k, tblAt nextS k = y * tblAt next1 k) (p t : Nat) :
    bRaw F W c nextS p t = (if c + 1 < F.nCols then y else 1) * bRaw F W c next1 p t := by
  unfold bRaw
  split <;> simp [h]

theorem bwdStep_scale (c : Nat) (nextS next1 : Array K) (y : K)
    (h : ∀ k, tblAt nextS k = y * tblAt next1 k) (k : Nat) :
    tblAt (bwdStep F W S c nextS) k =
      ((if c + 1 < F.nCols then y else 1) * (S.bw c)⁻¹) * tblAt (bwdStep F W Scal.one c next1) k := by
  unfold bwdStep
  simp only []
  rw [tblAt_mkTbl, tblAt_mkTbl]
  split
  · simp only [Scal.one, div_one]
    rw [div_eq_mul_inv, sumN_eq_sum, sumN_eq_sum]
    have : ∀ z w : K, z * w⁻¹ = 0 + z * w⁻¹ := by intros; ring
    rw [mul_assoc, mul_comm (S.bw c)⁻¹, ← mul_assoc, mul_sum]
    congr 1
    apply sum_congr rfl; intro idx _
    split
    · rw [sumN_eq_sum, sumN_eq_sum, mul_sum]
      apply sum_congr rfl; intro t _
      rw [tblAt_mkTbl, tblAt_mkTbl]
      split
      · rw [bRaw_scale F W c nextS next1 y h]; ring
      · simp
    · simp
  · simp

theorem bwdTbl_scale (hS : S.NonZero) (d : Nat) :
    ∃ y : K, y ≠ 0 ∧ ∀ k, tblAt (bwdTbl F W S d) k = y * tblAt (bwdTbl F W Scal.one d) k := by
  induction d with
  | zero =>
    refine ⟨(if F.nCols - 1 + 1 < F.nCols then (1 : K) else 1) * (S.bw (F.nCols - 1))⁻¹, ?_, fun k => ?_⟩
    · simp; exact (hS _).2.1
    · exact bwdStep_scale F W S (F.nCols - 1) #[] #[] 1 (by intro k; simp) k
  | succ d ih =>
    obtain ⟨y, hy, h⟩ := ih
    refine ⟨(if F.nCols - 1 - (d + 1) + 1 < F.nCols then y else 1) * (S.bw (F.nCols - 1 - (d + 1)))⁻¹, ?_, fun k => ?_⟩
    · apply mul_ne_zero
      · split <;> simp [hy]
      · exact inv_ne_zero (hS _).2.1
    · exact bwdStep_scale F W S _ _ _ y h k

theorem numer_scale (hS : S.NonZero) (c : Nat) :
    ∃ z : K, z ≠ 0 ∧ ∀ sel, numer F W S c sel = z * numer F W Scal.one c sel := by
  -- forward factor of the previous column
  have hprev : ∃ x : K, x ≠ 0 ∧ ∀ k,
      tblAt (prevTbl F W S c) k = x * tblAt (prevTbl F W Scal.one c) k := by
    cases c with
    | zero => exact ⟨1, one_ne_zero, fun k => by simp [prevTbl]⟩
    | succ c' => exact fwdTbl_scale F W S hS c'
  have hb : ∃ y : K, y ≠ 0 ∧ ∀ k, tblAt (bwdOf F W S c) k = y * tblAt (bwdOf F W Scal.one c) k := by
    unfold bwdOf
    split
    · exact bwdTbl_scale F W S hS _
    · exact ⟨1, one_ne_zero, fun k => by simp⟩
  obtain ⟨x, hx, hprev⟩ := hprev
  obtain ⟨y, hy, hb⟩ := hb
  refine ⟨((if c = 0 then 1 else x) * (S.fw c)⁻¹) * (if c + 1 < F.nCols then y * (S.bw2 c)⁻¹ else 1), ?_, fun sel => ?_⟩
  · apply mul_ne_zero
    · apply mul_ne_zero
      · split <;> simp [hx]
      · exact inv_ne_zero (hS c).1
    · split
      · exact mul_ne_zero hy (inv_ne_zero (hS c).2.2)
      · exact one_ne_zero
  · rw [numerOf_fbCells, numerOf_fbCells, mul_sum]
    apply sum_congr rfl; intro idx _
    rw [mul_sum]; apply sum_congr rfl; intro t _
    rw [mul_sum]; apply sum_congr rfl; intro a _
    split
    · rw [cell_scale W S c _ _ _ x hprev]
      unfold bwdAt
      by_cases hl : c + 1 < F.nCols
      · simp only [hl, if_true, Scal.one_bw2, div_one]; rw [hb, div_eq_mul_inv]; ring
      · simp only [hl, if_false]; ring
    · simp

theorem likelihoodSel_scale (hS : S.NonZero) (c : Nat) (sel : Nat → Nat → Bool) :
    likelihoodSel F W S c sel = likelihoodSel F W Scal.one c sel := by
  obtain ⟨z, hz, h⟩ := numer_scale F W S hS c
  unfold likelihoodSel total
  rw [h, h, mul_div_mul_left _ _ hz]

end WhVerif.C08
